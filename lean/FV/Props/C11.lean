import FV.Proofs.SplitRects
import Mathlib.Algebra.Order.Archimedean.Basic
/-
  C11 — Die refinement keeps the tiling, reaches the count and bounds the aspect ratio.
  Property theorems only (helper lemmas live in `FV/Proofs/SplitRects.lean`).  The model is
  `FV/Model/SplitRects.lean` (`split_rectangles` as repaired by `fixes/C11_phase2_aspect.diff`).
  All statements are over an arbitrary linearly ordered field `α`.

  The `while` loops of the Python are modelled with fuel.  Statements of the form
  `splitRectangles fuel … = .ok outs → …` hold for whatever fuel produced the result (partial correctness);
  `split_terminates` shows that a finite, explicit amount of fuel always produces a result on admissible arguments
  and `split_fuel_irrelevant` that the result does not depend on the fuel.  Termination needs the aspect ratios of
  the inputs to be bounded by `ratio * 2^K` for some `K`: automatic in Archimedean fields (`exists_aspect_bound`),
  an explicit hypothesis otherwise.
-/
namespace FV.C11
open FV FV.Rect FV.C18 FV.SplitRects
set_option linter.unusedSectionVars false
set_option linter.unusedSimpArgs false
set_option linter.unusedVariables false

variable {α : Type} [Field α] [LinearOrder α] [IsStrictOrderedRing α]

/-- non-degenerate rectangles. -/
def Proper (rs : List (Rect α)) : Prop := ∀ r ∈ rs, 0 < r.w ∧ 0 < r.h

/-! ### the tiling invariant

`TilesN r ps` (FV/Proofs/SplitRects.lean): every `p ∈ ps` is a non-degenerate piece of `r` (inside it, same region
tag / fixed / hard flags), the `ps` are pairwise non-overlapping, their areas add up to the area of `r` and every
point of `r` lies in one of them.  `Refines ins outs`: up to order, `outs` is the concatenation of one such tiling per
input rectangle. -/

/-- **the invariant is preserved by ANY split** of any member, whichever member is chosen: this is why the heap
    order plays no role in the tiling. -/
theorem refines_any_split (ins : List (Rect α)) (p p1 p2 : Rect α) (rest : List (Rect α))
    (h : Refines ins (p :: rest)) (hp : 0 < p.w ∧ 0 < p.h) (hs : p.split = some (p1, p2)) :
    Refines ins (p1 :: p2 :: rest) := by
  obtain ⟨ht, h1, h2⟩ := split_pieces p p1 p2 hp.1 hp.2 hs
  exact refines_split ins p p1 p2 rest h ht h1 h2

/-- `heapq` only ever permutes the heap: nothing is lost or duplicated by `heapify` / `heappush` / `heappop`. -/
theorem heap_ops_permute {β : Type} (lt : β → β → Bool) (heap : Array β) (x : β) :
    (Heapq.heapify lt heap).toList.Perm heap.toList ∧
    (Heapq.heappush lt heap x).toList.Perm (x :: heap.toList) ∧
    (∀ y heap', Heapq.heappop lt heap = some (y, heap') → heap.toList.Perm (y :: heap'.toList)) ∧
    ((Heapq.heappop lt heap).isSome = true ↔ 0 < heap.size) := by
  refine ⟨Heapq.heapify_perm lt heap, Heapq.heappush_perm lt heap x, fun y heap' h => Heapq.heappop_perm lt heap y heap' h, ?_⟩
  constructor
  · intro h
    by_contra hc
    have : heap = #[] := by
      have : heap.size = 0 := by omega
      exact Array.eq_empty_of_size_eq_zero this
    subst this
    simp [Heapq.heappop] at h
  · exact Heapq.heappop_isSome lt heap

/-! ### `split_rectangles`: tiling, count, aspect ratio -/

/-- **tiling**: the returned regions are, up to order, one exact tiling per input region; in particular each piece
    lies inside the region it was cut from and carries its tag. -/
theorem split_tiles (fuel : Nat) (ins : List (Rect α)) (ratio : α) (n : Nat) (outs : List (Rect α))
    (hpos : Proper ins) (h : splitRectangles fuel ins ratio n = .ok outs) : Refines ins outs :=
  (splitRectangles_sound fuel ins ratio n outs hpos h).1

/-- every returned region is a non-degenerate piece of an input region: inside it, same tag and flags. -/
theorem split_piece_of_input (fuel : Nat) (ins : List (Rect α)) (ratio : α) (n : Nat) (outs : List (Rect α))
    (hpos : Proper ins) (h : splitRectangles fuel ins ratio n = .ok outs) (o : Rect α) (ho : o ∈ outs) :
    ∃ i ∈ ins, o.isInside i = true ∧ o.region = i.region ∧ o.fixed = i.fixed ∧ o.hard = i.hard ∧ 0 < o.w ∧ 0 < o.h :=
  refines_mem ins outs (split_tiles fuel ins ratio n outs hpos h) o ho

/-- the total area is unchanged, the covered point set is unchanged, and if the inputs did not overlap each other
    neither do the outputs: the result tiles exactly what the inputs covered. -/
theorem split_exact_cover (fuel : Nat) (ins : List (Rect α)) (ratio : α) (n : Nat) (outs : List (Rect α))
    (hpos : Proper ins) (h : splitRectangles fuel ins ratio n = .ok outs) :
    (outs.map Rect.area).sum = (ins.map Rect.area).sum ∧
    (∀ x y, (∃ i ∈ ins, Mem i x y) ↔ (∃ o ∈ outs, Mem o x y)) ∧
    (ins.Pairwise (fun a b => a.areaOverlap b = 0) → outs.Pairwise (fun a b => a.areaOverlap b = 0)) := by
  have hr := split_tiles fuel ins ratio n outs hpos h
  exact ⟨refines_area ins outs hr, refines_cover ins outs hr, refines_disjoint ins outs hr⟩

/-- **count**: at least `n` regions are returned. -/
theorem split_count (fuel : Nat) (ins : List (Rect α)) (ratio : α) (n : Nat) (outs : List (Rect α))
    (hpos : Proper ins) (h : splitRectangles fuel ins ratio n = .ok outs) : n ≤ outs.length :=
  (splitRectangles_sound fuel ins ratio n outs hpos h).2.2

/-- **aspect ratio**: every returned region has aspect ratio at most `ratio` (repaired code; on the original code
    this fails for `ratio < 2`, witness `findings/C11_phase2_aspect.py`). -/
theorem split_aspect (fuel : Nat) (ins : List (Rect α)) (ratio : α) (n : Nat) (outs : List (Rect α))
    (hpos : Proper ins) (h : splitRectangles fuel ins ratio n = .ok outs) : ∀ o ∈ outs, o.aspectRatio ≤ ratio :=
  (splitRectangles_sound fuel ins ratio n outs hpos h).2.1

/-- the aspect ratio of a rectangle is `max (h/w) (w/h)`; the bound therefore reads `h ≤ ratio*w ∧ w ≤ ratio*h`. -/
theorem aspect_le_iff (r : Rect α) (ratio : α) (hw : 0 < r.w) (hh : 0 < r.h) :
    r.aspectRatio ≤ ratio ↔ (r.h ≤ ratio * r.w ∧ r.w ≤ ratio * r.h) := by
  rw [aspectRatio_eq r hw hh, max_le_iff, div_le_iff₀ hw, div_le_iff₀ hh]

/-! ### termination -/

/-- halving the longer side of a too elongated rectangle (`a > ratio`, `ratio² > 2`) either halves the aspect ratio
    or lands strictly below `2/ratio < ratio`: with `a ≤ ratio * 2^(k+1)` both halves satisfy `≤ ratio * 2^k`. -/
theorem split_reduces_level (ratio : α) (r p q : Rect α) (k : Nat) (h2 : 2 < ratio * ratio) (hr : 0 < ratio)
    (hw : 0 < r.w) (hh : 0 < r.h) (ha : ratio < r.aspectRatio) (hb : r.aspectRatio ≤ ratio * 2 ^ (k + 1))
    (hs : r.split = some (p, q)) : p.aspectRatio ≤ ratio * 2 ^ k ∧ q.aspectRatio ≤ ratio * 2 ^ k := by
  obtain ⟨e1, e2⟩ := child_aspect r p q hw hh hs
  have := child_aspect_le ratio _ k h2 hr ha hb
  rw [e2, e1]; exact ⟨this, this⟩

/-- **phase 1 terminates**: a fuel of `len * (2^(K+1) - 1) + 1` is enough when every input has aspect ratio at
    most `ratio * 2^K`. -/
theorem phase1_terminates (ins : List (Rect α)) (ratio : α) (K : Nat) (h2 : 2 < ratio * ratio) (hr : 0 < ratio)
    (hpos : Proper ins) (hK : ∀ r ∈ ins, r.aspectRatio ≤ ratio * 2 ^ K) :
    ∃ heap, phase1 ratio (ins.length * (2 ^ (K + 1) - 1) + 1) ins.reverse #[] = .ok heap := by
  have hb : ∀ r ∈ ins.reverse, Bounded ratio r := by
    intro r hr'
    have hm : r ∈ ins := List.mem_reverse.mp hr'
    exact ⟨(hpos r hm).1, (hpos r hm).2, K, hK r hm⟩
  have hpot : potential ratio ins.reverse ≤ ins.length * cost K := by
    rw [potential_perm ratio _ _ (List.reverse_perm ins)]
    clear hb
    induction ins with
    | nil => simp [potential]
    | cons a tl ih =>
      have := ih (fun r hr' => hpos r (List.mem_cons_of_mem _ hr')) (fun r hr' => hK r (List.mem_cons_of_mem _ hr'))
      have ca := cost_mono (level_le ratio a K (hK a (by simp)))
      simp only [potential, List.map_cons, List.sum_cons, List.length_cons] at this ⊢
      rw [Nat.add_mul]; omega
  exact worklist_total discipline_phase1 ratio h2 hr _ _ _ hb hpot

/-- **`split_rectangles` terminates and returns** on admissible arguments (at least one proper region, `n ≥ 1`,
    `ratio > 1.415`), with an explicit fuel. -/
theorem split_terminates (ins : List (Rect α)) (ratio : α) (n K : Nat) (hne : ins ≠ []) (hn : 1 ≤ n)
    (hratio : ratioMin < ratio) (hpos : Proper ins) (hK : ∀ r ∈ ins, r.aspectRatio ≤ ratio * 2 ^ K) :
    ∃ outs, splitRectangles (ins.length * (2 ^ (K + 1) - 1) + n + 8) ins ratio n = .ok outs :=
  splitRectangles_total ins ratio n K hne hn hratio hpos hK

/-- in an Archimedean field the bound `K` always exists. -/
theorem exists_aspect_bound [Archimedean α] (ins : List (Rect α)) (ratio : α) (hr : 0 < ratio) :
    ∃ K, ∀ r ∈ ins, r.aspectRatio ≤ ratio * 2 ^ K := by
  induction ins with
  | nil => exact ⟨0, by simp⟩
  | cons a tl ih =>
    obtain ⟨K, hK⟩ := ih
    obtain ⟨m, hm⟩ := pow_unbounded_of_one_lt (a.aspectRatio / ratio) (show (1 : α) < 2 by norm_num)
    refine ⟨max K m, fun r hr' => ?_⟩
    have mono : ∀ i j : Nat, i ≤ j → ratio * (2 : α) ^ i ≤ ratio * 2 ^ j := fun i j hij =>
      mul_le_mul_of_nonneg_left (pow_le_pow_right₀ (by norm_num) hij) (le_of_lt hr)
    simp only [List.mem_cons] at hr'
    rcases hr' with rfl | hr'
    · have : r.aspectRatio < ratio * 2 ^ m := by
        rw [div_lt_iff₀ hr] at hm; linarith
      exact le_trans (le_of_lt this) (mono _ _ (le_max_right _ _))
    · exact le_trans (hK r hr') (mono _ _ (le_max_left _ _))

/-- termination over Archimedean fields (e.g. `ℚ`, at which the driver runs the model): no bound hypothesis. -/
theorem split_terminates_archimedean [Archimedean α] (ins : List (Rect α)) (ratio : α) (n : Nat) (hne : ins ≠ [])
    (hn : 1 ≤ n) (hratio : ratioMin < ratio) (hpos : Proper ins) :
    ∃ fuel outs, splitRectangles fuel ins ratio n = .ok outs ∧ Refines ins outs ∧ n ≤ outs.length ∧
      ∀ o ∈ outs, o.aspectRatio ≤ ratio := by
  obtain ⟨_, hr1⟩ := ratio_facts ratio hratio
  obtain ⟨K, hK⟩ := exists_aspect_bound ins ratio (by linarith)
  obtain ⟨outs, h⟩ := split_terminates ins ratio n K hne hn hratio hpos hK
  obtain ⟨a, b, c⟩ := splitRectangles_sound _ ins ratio n outs hpos h
  exact ⟨_, outs, h, a, c, b⟩

/-- **the fuel is irrelevant**: more fuel gives the same answer, so any two successful runs agree. -/
theorem split_fuel_irrelevant (f f' : Nat) (ins : List (Rect α)) (ratio : α) (n : Nat) (a b : List (Rect α))
    (ha : splitRectangles f ins ratio n = .ok a) (hb : splitRectangles f' ins ratio n = .ok b) : a = b := by
  have h1 := splitRectangles_mono f (max f f') (le_max_left _ _) ins ratio n a ha
  have h2 := splitRectangles_mono f' (max f f') (le_max_right _ _) ins ratio n b hb
  rw [h1] at h2
  exact Except.ok.inj h2

/-- inadmissible arguments are rejected (the two `assert`s), and an empty list of regions makes `heappop` fail. -/
theorem split_rejects (fuel : Nat) (ins : List (Rect α)) (ratio : α) (n : Nat) :
    (n = 0 → splitRectangles fuel ins ratio n = .error .assert) ∧
    (¬ ratioMin < ratio → splitRectangles fuel ins ratio n = .error .assert) := by
  unfold splitRectangles
  constructor
  · intro h; simp [h]
  · intro h; by_cases hn : n = 0 <;> simp [hn, h]

/-! ### the `Die` methods -/

/-- **blockages, fixed regions and the die outline are untouched** by `split_refinable_regions`, and the refinable
    regions afterwards are exactly the result of `split_rectangles` on the refinable regions before, ground regions
    (tag `_`) listed after the tagged ones. -/
theorem dieSplit_spec (fuel : Nat) (d d' : DieSt α) (ratio : α) (n : Nat)
    (h : splitRefinableRegions fuel d ratio n = .ok d') :
    d'.blockages = d.blockages ∧ d'.fixed = d.fixed ∧ d'.die = d.die ∧
    (∀ r ∈ d'.ground, r.region = kwGround) ∧ (∀ r ∈ d'.specialized, r.region ≠ kwGround) ∧
    ∃ outs, splitRectangles fuel (floorplanningRectangles d).1 ratio n = .ok outs ∧
      (floorplanningRectangles d').1.Perm outs ∧ (floorplanningRectangles d').2 = (floorplanningRectangles d).2 := by
  unfold splitRefinableRegions at h
  split at h; · simp at h
  split at h; · simp at h
  split at h; · simp at h
  rename_i rects hs
  simp only [Except.ok.injEq] at h
  subst h
  refine ⟨rfl, rfl, rfl, ?_, ?_, rects, hs, ?_, rfl⟩
  · intro r hr; simpa using (List.mem_filter.mp hr).2
  · intro r hr; simpa using (List.mem_filter.mp hr).2
  · simp only [floorplanningRectangles]
    have := List.filter_append_perm (fun r : Rect α => r.region == kwGround) rects
    refine List.Perm.trans ?_ this
    refine List.perm_append_comm.trans ?_
    have e : (List.filter (fun r : Rect α => r.region != kwGround) rects) =
        List.filter (fun x => !(fun r : Rect α => r.region == kwGround) x) rects := by
      congr 1
    rw [e]

/-- **die refinement**: the refinable regions after `split_refinable_regions` tile exactly the refinable regions
    before (each inside the region it was cut from, with its tag), there are at least `n`, each of aspect ratio
    at most `ratio`. -/
theorem dieSplit_refines (fuel : Nat) (d d' : DieSt α) (ratio : α) (n : Nat)
    (hpos : Proper (floorplanningRectangles d).1) (h : splitRefinableRegions fuel d ratio n = .ok d') :
    Refines (floorplanningRectangles d).1 (floorplanningRectangles d').1 ∧
    n ≤ (floorplanningRectangles d').1.length ∧
    ∀ o ∈ (floorplanningRectangles d').1, o.aspectRatio ≤ ratio := by
  obtain ⟨_, _, _, _, _, outs, hs, hperm, _⟩ := dieSplit_spec fuel d d' ratio n h
  obtain ⟨a, b, c⟩ := splitRectangles_sound fuel _ ratio n outs hpos hs
  exact ⟨refines_perm _ _ _ hperm.symm a, by rw [hperm.length_eq]; exact c, fun o ho => b o (hperm.subset ho)⟩

/-- **die refinement terminates and returns**: for every die with at least one (proper) refinable region, `n ≥ 1`
    and `ratio > 1.415`, `split_refinable_regions` returns a die (explicit fuel), given the bound `ratio * 2^K` on the
    aspect ratios of the refinable regions (automatic in Archimedean fields, `exists_aspect_bound`). -/
theorem dieSplit_terminates (d : DieSt α) (ratio : α) (n K : Nat) (hne : (floorplanningRectangles d).1 ≠ [])
    (hn : 1 ≤ n) (hratio : ratioMin < ratio) (hpos : Proper (floorplanningRectangles d).1)
    (hK : ∀ r ∈ (floorplanningRectangles d).1, r.aspectRatio ≤ ratio * 2 ^ K) :
    ∃ d', splitRefinableRegions ((floorplanningRectangles d).1.length * (2 ^ (K + 1) - 1) + n + 8) d ratio n = .ok d' := by
  obtain ⟨outs, h⟩ := split_terminates _ ratio n K hne hn hratio hpos hK
  unfold splitRefinableRegions
  rw [if_neg (by omega), if_neg (by simp [hratio])]
  have e : d.specialized ++ d.ground = (floorplanningRectangles d).1 := rfl
  rw [e, h]
  exact ⟨_, rfl⟩

/-- die-level total correctness over Archimedean fields: a die comes back, and it satisfies the property. -/
theorem dieSplit_total_archimedean [Archimedean α] (d : DieSt α) (ratio : α) (n : Nat)
    (hne : (floorplanningRectangles d).1 ≠ []) (hn : 1 ≤ n) (hratio : ratioMin < ratio)
    (hpos : Proper (floorplanningRectangles d).1) :
    ∃ fuel d', splitRefinableRegions fuel d ratio n = .ok d' ∧
      Refines (floorplanningRectangles d).1 (floorplanningRectangles d').1 ∧
      n ≤ (floorplanningRectangles d').1.length ∧ (∀ o ∈ (floorplanningRectangles d').1, o.aspectRatio ≤ ratio) ∧
      d'.blockages = d.blockages ∧ d'.fixed = d.fixed ∧ d'.die = d.die := by
  obtain ⟨_, hr1⟩ := ratio_facts ratio hratio
  obtain ⟨K, hK⟩ := exists_aspect_bound (floorplanningRectangles d).1 ratio (by linarith)
  obtain ⟨d', h⟩ := dieSplit_terminates d ratio n K hne hn hratio hpos hK
  obtain ⟨a, b, c⟩ := dieSplit_refines _ d d' ratio n hpos h
  obtain ⟨e1, e2, e3, _⟩ := dieSplit_spec _ d d' ratio n h
  exact ⟨_, d', h, a, b, c, e1, e2, e3⟩

/-- `initial_grid` succeeds exactly on a clean die with a sensible grid shape. -/
theorem initialGrid_ok_iff (d : DieSt α) (nr nc : Nat) :
    (∃ d', initialGrid d nr nc = .ok d') ↔
      ((0 < nr ∧ 0 < nc ∧ 1 < nr + nc) ∧ (d.fixed = [] ∧ d.specialized = [] ∧ d.blockages = []) ∧ d.ground.length = 1) := by
  unfold initialGrid
  simp only [List.length_eq_zero_iff]
  constructor
  · rintro ⟨d', h⟩
    split at h; · simp at h
    split at h; · simp at h
    split at h; · simp at h
    rename_i h1 h2 h3
    exact ⟨not_not.mp h1, not_not.mp h2, not_not.mp h3⟩
  · rintro ⟨h1, h2, h3⟩
    have hg := (grid_isSome_iff d.die nr nc).mpr ⟨h1.1, h1.2.1⟩
    match hgr : d.die.grid nr nc with
    | none => rw [hgr] at hg; simp at hg
    | some cells => exact ⟨{ d with ground := cells }, by simp [h1, h2, h3]⟩

/-- **initial grid**: `rows × columns` ground regions that tile the die outline exactly (hence the single ground
    region `g` of the clean die, which coincides with the outline), nothing else is touched. -/
theorem initialGrid_spec (d d' : DieSt α) (nr nc : Nat) (hw : 0 < d.die.w) (hh : 0 < d.die.h)
    (h : initialGrid d nr nc = .ok d') :
    d'.ground.length = nr * nc ∧ TilesN d.die d'.ground ∧
    d'.specialized = d.specialized ∧ d'.blockages = d.blockages ∧ d'.fixed = d.fixed ∧ d'.die = d.die ∧
    (∀ g, d.ground = [g] → Stog.eraseLoc g = Stog.eraseLoc d.die → Refines (floorplanningRectangles d).1 (floorplanningRectangles d').1) := by
  unfold initialGrid at h
  split at h; · simp at h
  split at h; · simp at h
  split at h; · simp at h
  rename_i h1 h2 h3
  split at h; · simp at h
  rename_i cells hg
  simp only [Except.ok.injEq] at h
  subst h
  obtain ⟨ht, hl⟩ := grid_tilesN d.die nr nc cells hw hh hg
  refine ⟨hl, ht, rfl, rfl, rfl, rfl, ?_⟩
  intro g hgd hgeo
  have hsp : d.specialized = [] := by
    have := (not_not.mp h2).2.1
    exact List.length_eq_zero_iff.mp this
  simp only [floorplanningRectangles, hsp, hgd, List.nil_append]
  exact ⟨[cells], List.Forall₂.cons (tilesN_congr _ _ _ hgeo.symm ht) List.Forall₂.nil, by simp⟩

/-! ### non-vacuity (executed at `Rat`) -/

/-- the registered witness: a 4×4 die, aspect limit 3/2, at least 2 regions — the repaired code returns the four
    2×2 quadrants. -/
example : (match splitRectangles 100 [(⟨2, 2, 4, 4, "_", false, false, .nopoly⟩ : Rect ℚ)] (3/2) 2 with
    | .ok outs => outs.map (fun r => (r.cx, r.cy, r.w, r.h)) == [(1, 1, 2, 2), (1, 3, 2, 2), (3, 1, 2, 2), (3, 3, 2, 2)]
    | .error _ => false) = true := by decide +kernel
example : Proper [(⟨2, 2, 4, 4, "_", false, false, .nopoly⟩ : Rect ℚ)] := by
  intro r hr; simp at hr; subst hr; norm_num
example : (ratioMin : ℚ) < 3 / 2 := by norm_num [ratioMin]
example : (⟨2, 2, 4, 4, "_", false, false, .nopoly⟩ : Rect ℚ).aspectRatio ≤ (3 / 2) * 2 ^ 0 := by
  norm_num [aspectRatio]
/-- a die 8×4 with a tagged region, a ground region, a blockage and a fixed region (the auditor's witness). -/
def dieEx : DieSt ℚ :=
  ⟨⟨4, 2, 8, 4, "_", false, false, .nopoly⟩,
   [⟨7, 2, 2, 4, "dsp", false, false, .nopoly⟩],
   [⟨5/2, 2, 5, 4, "_", false, false, .nopoly⟩],
   [⟨11/2, 1, 1, 2, "#", false, false, .nopoly⟩],
   [⟨11/2, 3, 1, 2, "_", true, false, .nopoly⟩]⟩

def isOkB {ε β : Type} : Except ε β → Bool | .ok _ => true | .error _ => false

example : Proper (floorplanningRectangles dieEx).1 := by
  intro r hr; simp [floorplanningRectangles, dieEx] at hr; rcases hr with rfl | rfl <;> norm_num

/-- `dieSplit_refines` / `dieSplit_spec` applied: aspect limit 142/100, at least 7 regions. -/
example : ∃ d', splitRefinableRegions 200 dieEx (142/100) 7 = .ok d' ∧
    Refines (floorplanningRectangles dieEx).1 (floorplanningRectangles d').1 ∧
    7 ≤ (floorplanningRectangles d').1.length ∧ d'.blockages = dieEx.blockages ∧ d'.fixed = dieEx.fixed := by
  have hk : isOkB (splitRefinableRegions 200 dieEx (142/100) 7) = true := by decide +kernel
  cases h : splitRefinableRegions 200 dieEx (142/100) 7 with
  | error e => rw [h] at hk; simp [isOkB] at hk
  | ok d' =>
    have hp : Proper (floorplanningRectangles dieEx).1 := by
      intro r hr; simp [floorplanningRectangles, dieEx] at hr; rcases hr with rfl | rfl <;> norm_num
    obtain ⟨a, b, _⟩ := dieSplit_refines 200 dieEx d' _ 7 hp h
    obtain ⟨e1, e2, _⟩ := dieSplit_spec 200 dieEx d' _ 7 h
    exact ⟨d', rfl, a, b, e1, e2⟩

/-- `dieSplit_total_archimedean` applied to the same die (ℚ is Archimedean). -/
example : ∃ fuel d', splitRefinableRegions fuel dieEx (142/100) 7 = .ok d' ∧ 7 ≤ (floorplanningRectangles d').1.length := by
  have hp : Proper (floorplanningRectangles dieEx).1 := by
    intro r hr; simp [floorplanningRectangles, dieEx] at hr; rcases hr with rfl | rfl <;> norm_num
  obtain ⟨f, d', h, _, c, _⟩ := dieSplit_total_archimedean dieEx (142/100) 7
    (by simp [floorplanningRectangles, dieEx]) (by norm_num) (by norm_num [ratioMin]) hp
  exact ⟨f, d', h, c⟩

example : (match initialGrid (⟨⟨2, 1, 4, 2, "_", false, false, .nopoly⟩, [], [⟨2, 1, 4, 2, "_", false, false, .nopoly⟩], [], []⟩ : DieSt ℚ) 2 3 with
    | .ok d => d.ground.length == 6
    | .error _ => false) = true := by decide +kernel

end FV.C11

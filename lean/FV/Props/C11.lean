import FV.Proofs.SplitRects
import FV.Props.C01
import FV.Model.DieObj
import Mathlib.Algebra.Order.Archimedean.Basic
/-
  C11 — Die refinement keeps the tiling, reaches the count and bounds the aspect ratio.
  Property theorems only (helper lemmas live in `FV/Proofs/SplitRects.lean`).  The model is
  `FV/Model/SplitRects.lean` (`split_rectangles` as repaired by `fixes/C11_phase2_aspect.diff`).
  All statements are over an arbitrary linearly ordered field `α`.

  The `while` loops of the Python are modelled with fuel.  Statements of the form
  `splitRectangles fuel … = .ok outs → …` hold for whatever fuel produced the result (partial correctness);
  `split_terminates` shows that a finite, explicit amount of fuel always produces a result on admissible arguments
  and `split_fuel_irrelevant` that the result does not depend on the fuel.  Termination needs the aspect ratios of
  the inputs to be bounded by `ratio * 2^K` for some `K`: automatic in Archimedean fields (`exists_aspect_bound`),
  an explicit hypothesis otherwise.  At `ℚ` — the type at which the driver executes the exact stream — the fuel is COMPUTED from
  the arguments (`DieObj.fuelQ`) and proved sufficient (`splitQ_returns`, `splitQ_never_out_of_fuel`, `obj_splitQ_total`): no fuel
  argument and no fuel hypothesis is left there.

  Last part: the `Die` OBJECT (`FV/Model/DieObj.lean`): the methods on the value the constructor model of C01 returns, sessions
  of calls (`session_invariant`), the die without refinable region (`dieSplit_no_refinable`), and the composition with the
  constructor from its documents (`constructed_session`).
-/
namespace FV.C11
open FV FV.Rect FV.C18 FV.SplitRects
set_option linter.unusedSectionVars false
set_option linter.unusedSimpArgs false
set_option linter.unusedVariables false

variable {α : Type} [Field α] [LinearOrder α] [IsStrictOrderedRing α]

/-- non-degenerate rectangles. -/
def Proper (rs : List (Rect α)) : Prop := ∀ r ∈ rs, 0 < r.w ∧ 0 < r.h

/-! ### the tiling invariant

`TilesN r ps` (FV/Proofs/SplitRects.lean): every `p ∈ ps` is a non-degenerate piece of `r` (inside it, same region
tag / fixed / hard flags), the `ps` are pairwise non-overlapping, their areas add up to the area of `r` and every
point of `r` lies in one of them.  `Refines ins outs`: up to order, `outs` is the concatenation of one such tiling per
input rectangle. -/

/-- **the invariant is preserved by ANY split** of any member, whichever member is chosen: this is why the heap
    order plays no role in the tiling. -/
theorem refines_any_split (ins : List (Rect α)) (p p1 p2 : Rect α) (rest : List (Rect α))
    (h : Refines ins (p :: rest)) (hp : 0 < p.w ∧ 0 < p.h) (hs : p.split = some (p1, p2)) :
    Refines ins (p1 :: p2 :: rest) := by
  obtain ⟨ht, h1, h2⟩ := split_pieces p p1 p2 hp.1 hp.2 hs
  exact refines_split ins p p1 p2 rest h ht h1 h2

/-- `heapq` only ever permutes the heap: nothing is lost or duplicated by `heapify` / `heappush` / `heappop`. -/
theorem heap_ops_permute {β : Type} (lt : β → β → Bool) (heap : Array β) (x : β) :
    (Heapq.heapify lt heap).toList.Perm heap.toList ∧
    (Heapq.heappush lt heap x).toList.Perm (x :: heap.toList) ∧
    (∀ y heap', Heapq.heappop lt heap = some (y, heap') → heap.toList.Perm (y :: heap'.toList)) ∧
    ((Heapq.heappop lt heap).isSome = true ↔ 0 < heap.size) := by
  refine ⟨Heapq.heapify_perm lt heap, Heapq.heappush_perm lt heap x, fun y heap' h => Heapq.heappop_perm lt heap y heap' h, ?_⟩
  constructor
  · intro h
    by_contra hc
    have : heap = #[] := by
      have : heap.size = 0 := by omega
      exact Array.eq_empty_of_size_eq_zero this
    subst this
    simp [Heapq.heappop] at h
  · exact Heapq.heappop_isSome lt heap

/-! ### `split_rectangles`: tiling, count, aspect ratio -/

/-- **tiling**: the returned regions are, up to order, one exact tiling per input region; in particular each piece
    lies inside the region it was cut from and carries its tag. -/
theorem split_tiles (fuel : Nat) (ins : List (Rect α)) (ratio : α) (n : Nat) (outs : List (Rect α))
    (hpos : Proper ins) (h : splitRectangles fuel ins ratio n = .ok outs) : Refines ins outs :=
  (splitRectangles_sound fuel ins ratio n outs hpos h).1

/-- every returned region is a non-degenerate piece of an input region: inside it, same tag and flags. -/
theorem split_piece_of_input (fuel : Nat) (ins : List (Rect α)) (ratio : α) (n : Nat) (outs : List (Rect α))
    (hpos : Proper ins) (h : splitRectangles fuel ins ratio n = .ok outs) (o : Rect α) (ho : o ∈ outs) :
    ∃ i ∈ ins, o.isInside i = true ∧ o.region = i.region ∧ o.fixed = i.fixed ∧ o.hard = i.hard ∧ 0 < o.w ∧ 0 < o.h :=
  refines_mem ins outs (split_tiles fuel ins ratio n outs hpos h) o ho

/-- the total area is unchanged, the covered point set is unchanged, and if the inputs did not overlap each other
    neither do the outputs: the result tiles exactly what the inputs covered. -/
theorem split_exact_cover (fuel : Nat) (ins : List (Rect α)) (ratio : α) (n : Nat) (outs : List (Rect α))
    (hpos : Proper ins) (h : splitRectangles fuel ins ratio n = .ok outs) :
    (outs.map Rect.area).sum = (ins.map Rect.area).sum ∧
    (∀ x y, (∃ i ∈ ins, Mem i x y) ↔ (∃ o ∈ outs, Mem o x y)) ∧
    (ins.Pairwise (fun a b => a.areaOverlap b = 0) → outs.Pairwise (fun a b => a.areaOverlap b = 0)) := by
  have hr := split_tiles fuel ins ratio n outs hpos h
  exact ⟨refines_area ins outs hr, refines_cover ins outs hr, refines_disjoint ins outs hr⟩

/-- **count**: at least `n` regions are returned. -/
theorem split_count (fuel : Nat) (ins : List (Rect α)) (ratio : α) (n : Nat) (outs : List (Rect α))
    (hpos : Proper ins) (h : splitRectangles fuel ins ratio n = .ok outs) : n ≤ outs.length :=
  (splitRectangles_sound fuel ins ratio n outs hpos h).2.2

/-- **aspect ratio**: every returned region has aspect ratio at most `ratio` (repaired code; on the original code
    this fails for `ratio < 2`, witness `findings/C11_phase2_aspect.py`). -/
theorem split_aspect (fuel : Nat) (ins : List (Rect α)) (ratio : α) (n : Nat) (outs : List (Rect α))
    (hpos : Proper ins) (h : splitRectangles fuel ins ratio n = .ok outs) : ∀ o ∈ outs, o.aspectRatio ≤ ratio :=
  (splitRectangles_sound fuel ins ratio n outs hpos h).2.1

/-- the aspect ratio of a rectangle is `max (h/w) (w/h)`; the bound therefore reads `h ≤ ratio*w ∧ w ≤ ratio*h`. -/
theorem aspect_le_iff (r : Rect α) (ratio : α) (hw : 0 < r.w) (hh : 0 < r.h) :
    r.aspectRatio ≤ ratio ↔ (r.h ≤ ratio * r.w ∧ r.w ≤ ratio * r.h) := by
  rw [aspectRatio_eq r hw hh, max_le_iff, div_le_iff₀ hw, div_le_iff₀ hh]

/-! ### termination -/

/-- halving the longer side of a too elongated rectangle (`a > ratio`, `ratio² > 2`) either halves the aspect ratio
    or lands strictly below `2/ratio < ratio`: with `a ≤ ratio * 2^(k+1)` both halves satisfy `≤ ratio * 2^k`. -/
theorem split_reduces_level (ratio : α) (r p q : Rect α) (k : Nat) (h2 : 2 < ratio * ratio) (hr : 0 < ratio)
    (hw : 0 < r.w) (hh : 0 < r.h) (ha : ratio < r.aspectRatio) (hb : r.aspectRatio ≤ ratio * 2 ^ (k + 1))
    (hs : r.split = some (p, q)) : p.aspectRatio ≤ ratio * 2 ^ k ∧ q.aspectRatio ≤ ratio * 2 ^ k := by
  obtain ⟨e1, e2⟩ := child_aspect r p q hw hh hs
  have := child_aspect_le ratio _ k h2 hr ha hb
  rw [e2, e1]; exact ⟨this, this⟩

/-- **phase 1 terminates**: a fuel of `len * (2^(K+1) - 1) + 1` is enough when every input has aspect ratio at
    most `ratio * 2^K`. -/
theorem phase1_terminates (ins : List (Rect α)) (ratio : α) (K : Nat) (h2 : 2 < ratio * ratio) (hr : 0 < ratio)
    (hpos : Proper ins) (hK : ∀ r ∈ ins, r.aspectRatio ≤ ratio * 2 ^ K) :
    ∃ heap, phase1 ratio (ins.length * (2 ^ (K + 1) - 1) + 1) ins.reverse #[] = .ok heap := by
  have hb : ∀ r ∈ ins.reverse, Bounded ratio r := by
    intro r hr'
    have hm : r ∈ ins := List.mem_reverse.mp hr'
    exact ⟨(hpos r hm).1, (hpos r hm).2, K, hK r hm⟩
  have hpot : potential ratio ins.reverse ≤ ins.length * cost K := by
    rw [potential_perm ratio _ _ (List.reverse_perm ins)]
    clear hb
    induction ins with
    | nil => simp [potential]
    | cons a tl ih =>
      have := ih (fun r hr' => hpos r (List.mem_cons_of_mem _ hr')) (fun r hr' => hK r (List.mem_cons_of_mem _ hr'))
      have ca := cost_mono (level_le ratio a K (hK a (by simp)))
      simp only [potential, List.map_cons, List.sum_cons, List.length_cons] at this ⊢
      rw [Nat.add_mul]; omega
  exact worklist_total discipline_phase1 ratio h2 hr _ _ _ hb hpot

/-- **`split_rectangles` terminates and returns** on admissible arguments (at least one proper region, `n ≥ 1`,
    `ratio > 1.415`), with an explicit fuel. -/
theorem split_terminates (ins : List (Rect α)) (ratio : α) (n K : Nat) (hne : ins ≠ []) (hn : 1 ≤ n)
    (hratio : ratioMin < ratio) (hpos : Proper ins) (hK : ∀ r ∈ ins, r.aspectRatio ≤ ratio * 2 ^ K) :
    ∃ outs, splitRectangles (ins.length * (2 ^ (K + 1) - 1) + n + 8) ins ratio n = .ok outs :=
  splitRectangles_total ins ratio n K hne hn hratio hpos hK

/-- in an Archimedean field the bound `K` always exists. -/
theorem exists_aspect_bound [Archimedean α] (ins : List (Rect α)) (ratio : α) (hr : 0 < ratio) :
    ∃ K, ∀ r ∈ ins, r.aspectRatio ≤ ratio * 2 ^ K := by
  induction ins with
  | nil => exact ⟨0, by simp⟩
  | cons a tl ih =>
    obtain ⟨K, hK⟩ := ih
    obtain ⟨m, hm⟩ := pow_unbounded_of_one_lt (a.aspectRatio / ratio) (show (1 : α) < 2 by norm_num)
    refine ⟨max K m, fun r hr' => ?_⟩
    have mono : ∀ i j : Nat, i ≤ j → ratio * (2 : α) ^ i ≤ ratio * 2 ^ j := fun i j hij =>
      mul_le_mul_of_nonneg_left (pow_le_pow_right₀ (by norm_num) hij) (le_of_lt hr)
    simp only [List.mem_cons] at hr'
    rcases hr' with rfl | hr'
    · have : r.aspectRatio < ratio * 2 ^ m := by
        rw [div_lt_iff₀ hr] at hm; linarith
      exact le_trans (le_of_lt this) (mono _ _ (le_max_right _ _))
    · exact le_trans (hK r hr') (mono _ _ (le_max_left _ _))

/-- termination over Archimedean fields (e.g. `ℚ`, at which the driver runs the model): no bound hypothesis. -/
theorem split_terminates_archimedean [Archimedean α] (ins : List (Rect α)) (ratio : α) (n : Nat) (hne : ins ≠ [])
    (hn : 1 ≤ n) (hratio : ratioMin < ratio) (hpos : Proper ins) :
    ∃ fuel outs, splitRectangles fuel ins ratio n = .ok outs ∧ Refines ins outs ∧ n ≤ outs.length ∧
      ∀ o ∈ outs, o.aspectRatio ≤ ratio := by
  obtain ⟨_, hr1⟩ := ratio_facts ratio hratio
  obtain ⟨K, hK⟩ := exists_aspect_bound ins ratio (by linarith)
  obtain ⟨outs, h⟩ := split_terminates ins ratio n K hne hn hratio hpos hK
  obtain ⟨a, b, c⟩ := splitRectangles_sound _ ins ratio n outs hpos h
  exact ⟨_, outs, h, a, c, b⟩

/-- **the fuel is irrelevant**: more fuel gives the same answer, so any two successful runs agree. -/
theorem split_fuel_irrelevant (f f' : Nat) (ins : List (Rect α)) (ratio : α) (n : Nat) (a b : List (Rect α))
    (ha : splitRectangles f ins ratio n = .ok a) (hb : splitRectangles f' ins ratio n = .ok b) : a = b := by
  have h1 := splitRectangles_mono f (max f f') (le_max_left _ _) ins ratio n a ha
  have h2 := splitRectangles_mono f' (max f f') (le_max_right _ _) ins ratio n b hb
  rw [h1] at h2
  exact Except.ok.inj h2

/-- inadmissible arguments are rejected (the two `assert`s), and an empty list of regions makes `heappop` fail. -/
theorem split_rejects (fuel : Nat) (ins : List (Rect α)) (ratio : α) (n : Nat) :
    (n = 0 → splitRectangles fuel ins ratio n = .error .assert) ∧
    (¬ ratioMin < ratio → splitRectangles fuel ins ratio n = .error .assert) := by
  unfold splitRectangles
  constructor
  · intro h; simp [h]
  · intro h; by_cases hn : n = 0 <;> simp [hn, h]

/-! ### the `Die` methods -/

/-- **blockages, fixed regions and the die outline are untouched** by `split_refinable_regions`, and the refinable
    regions afterwards are exactly the result of `split_rectangles` on the refinable regions before, ground regions
    (tag `_`) listed after the tagged ones. -/
theorem dieSplit_spec (fuel : Nat) (d d' : DieSt α) (ratio : α) (n : Nat)
    (h : splitRefinableRegions fuel d ratio n = .ok d') :
    d'.blockages = d.blockages ∧ d'.fixed = d.fixed ∧ d'.die = d.die ∧
    (∀ r ∈ d'.ground, r.region = kwGround) ∧ (∀ r ∈ d'.specialized, r.region ≠ kwGround) ∧
    ∃ outs, splitRectangles fuel (floorplanningRectangles d).1 ratio n = .ok outs ∧
      (floorplanningRectangles d').1.Perm outs ∧ (floorplanningRectangles d').2 = (floorplanningRectangles d).2 := by
  unfold splitRefinableRegions at h
  split at h; · simp at h
  split at h; · simp at h
  split at h; · simp at h
  rename_i rects hs
  simp only [Except.ok.injEq] at h
  subst h
  refine ⟨rfl, rfl, rfl, ?_, ?_, rects, hs, ?_, rfl⟩
  · intro r hr; simpa using (List.mem_filter.mp hr).2
  · intro r hr; simpa using (List.mem_filter.mp hr).2
  · simp only [floorplanningRectangles]
    have := List.filter_append_perm (fun r : Rect α => r.region == kwGround) rects
    refine List.Perm.trans ?_ this
    refine List.perm_append_comm.trans ?_
    have e : (List.filter (fun r : Rect α => r.region != kwGround) rects) =
        List.filter (fun x => !(fun r : Rect α => r.region == kwGround) x) rects := by
      congr 1
    rw [e]

/-- **die refinement**: the refinable regions after `split_refinable_regions` tile exactly the refinable regions
    before (each inside the region it was cut from, with its tag), there are at least `n`, each of aspect ratio
    at most `ratio`. -/
theorem dieSplit_refines (fuel : Nat) (d d' : DieSt α) (ratio : α) (n : Nat)
    (hpos : Proper (floorplanningRectangles d).1) (h : splitRefinableRegions fuel d ratio n = .ok d') :
    Refines (floorplanningRectangles d).1 (floorplanningRectangles d').1 ∧
    n ≤ (floorplanningRectangles d').1.length ∧
    ∀ o ∈ (floorplanningRectangles d').1, o.aspectRatio ≤ ratio := by
  obtain ⟨_, _, _, _, _, outs, hs, hperm, _⟩ := dieSplit_spec fuel d d' ratio n h
  obtain ⟨a, b, c⟩ := splitRectangles_sound fuel _ ratio n outs hpos hs
  exact ⟨refines_perm _ _ _ hperm.symm a, by rw [hperm.length_eq]; exact c, fun o ho => b o (hperm.subset ho)⟩

/-- **die refinement terminates and returns**: for every die with at least one (proper) refinable region, `n ≥ 1`
    and `ratio > 1.415`, `split_refinable_regions` returns a die (explicit fuel), given the bound `ratio * 2^K` on the
    aspect ratios of the refinable regions (automatic in Archimedean fields, `exists_aspect_bound`). -/
theorem dieSplit_terminates (d : DieSt α) (ratio : α) (n K : Nat) (hne : (floorplanningRectangles d).1 ≠ [])
    (hn : 1 ≤ n) (hratio : ratioMin < ratio) (hpos : Proper (floorplanningRectangles d).1)
    (hK : ∀ r ∈ (floorplanningRectangles d).1, r.aspectRatio ≤ ratio * 2 ^ K) :
    ∃ d', splitRefinableRegions ((floorplanningRectangles d).1.length * (2 ^ (K + 1) - 1) + n + 8) d ratio n = .ok d' := by
  obtain ⟨outs, h⟩ := split_terminates _ ratio n K hne hn hratio hpos hK
  unfold splitRefinableRegions
  rw [if_neg (by omega), if_neg (by simp [hratio])]
  have e : d.specialized ++ d.ground = (floorplanningRectangles d).1 := rfl
  rw [e, h]
  exact ⟨_, rfl⟩

/-- die-level total correctness over Archimedean fields: a die comes back, and it satisfies the property. -/
theorem dieSplit_total_archimedean [Archimedean α] (d : DieSt α) (ratio : α) (n : Nat)
    (hne : (floorplanningRectangles d).1 ≠ []) (hn : 1 ≤ n) (hratio : ratioMin < ratio)
    (hpos : Proper (floorplanningRectangles d).1) :
    ∃ fuel d', splitRefinableRegions fuel d ratio n = .ok d' ∧
      Refines (floorplanningRectangles d).1 (floorplanningRectangles d').1 ∧
      n ≤ (floorplanningRectangles d').1.length ∧ (∀ o ∈ (floorplanningRectangles d').1, o.aspectRatio ≤ ratio) ∧
      d'.blockages = d.blockages ∧ d'.fixed = d.fixed ∧ d'.die = d.die := by
  obtain ⟨_, hr1⟩ := ratio_facts ratio hratio
  obtain ⟨K, hK⟩ := exists_aspect_bound (floorplanningRectangles d).1 ratio (by linarith)
  obtain ⟨d', h⟩ := dieSplit_terminates d ratio n K hne hn hratio hpos hK
  obtain ⟨a, b, c⟩ := dieSplit_refines _ d d' ratio n hpos h
  obtain ⟨e1, e2, e3, _⟩ := dieSplit_spec _ d d' ratio n h
  exact ⟨_, d', h, a, b, c, e1, e2, e3⟩

/-- `initial_grid` succeeds exactly on a clean die with a sensible grid shape. -/
theorem initialGrid_ok_iff (d : DieSt α) (nr nc : Nat) :
    (∃ d', initialGrid d nr nc = .ok d') ↔
      ((0 < nr ∧ 0 < nc ∧ 1 < nr + nc) ∧ (d.fixed = [] ∧ d.specialized = [] ∧ d.blockages = []) ∧ d.ground.length = 1) := by
  unfold initialGrid
  simp only [List.length_eq_zero_iff]
  constructor
  · rintro ⟨d', h⟩
    split at h; · simp at h
    split at h; · simp at h
    split at h; · simp at h
    rename_i h1 h2 h3
    exact ⟨not_not.mp h1, not_not.mp h2, not_not.mp h3⟩
  · rintro ⟨h1, h2, h3⟩
    have hg := (grid_isSome_iff d.die nr nc).mpr ⟨h1.1, h1.2.1⟩
    match hgr : d.die.grid nr nc with
    | none => rw [hgr] at hg; simp at hg
    | some cells => exact ⟨{ d with ground := cells }, by simp [h1, h2, h3]⟩

/-- **initial grid**: `rows × columns` ground regions that tile the die outline exactly (hence the single ground
    region `g` of the clean die, which coincides with the outline), nothing else is touched. -/
theorem initialGrid_spec (d d' : DieSt α) (nr nc : Nat) (hw : 0 < d.die.w) (hh : 0 < d.die.h)
    (h : initialGrid d nr nc = .ok d') :
    d'.ground.length = nr * nc ∧ TilesN d.die d'.ground ∧
    d'.specialized = d.specialized ∧ d'.blockages = d.blockages ∧ d'.fixed = d.fixed ∧ d'.die = d.die ∧
    (∀ g, d.ground = [g] → Stog.eraseLoc g = Stog.eraseLoc d.die → Refines (floorplanningRectangles d).1 (floorplanningRectangles d').1) := by
  unfold initialGrid at h
  split at h; · simp at h
  split at h; · simp at h
  split at h; · simp at h
  rename_i h1 h2 h3
  split at h; · simp at h
  rename_i cells hg
  simp only [Except.ok.injEq] at h
  subst h
  obtain ⟨ht, hl⟩ := grid_tilesN d.die nr nc cells hw hh hg
  refine ⟨hl, ht, rfl, rfl, rfl, rfl, ?_⟩
  intro g hgd hgeo
  have hsp : d.specialized = [] := by
    have := (not_not.mp h2).2.1
    exact List.length_eq_zero_iff.mp this
  simp only [floorplanningRectangles, hsp, hgd, List.nil_append]
  exact ⟨[cells], List.Forall₂.cons (tilesN_congr _ _ _ hgeo.symm ht) List.Forall₂.nil, by simp⟩

/-! ### non-vacuity (executed at `Rat`) -/

/-- the registered witness: a 4×4 die, aspect limit 3/2, at least 2 regions — the repaired code returns the four
    2×2 quadrants. -/
example : (match splitRectangles 100 [(⟨2, 2, 4, 4, "_", false, false, .nopoly⟩ : Rect ℚ)] (3/2) 2 with
    | .ok outs => outs.map (fun r => (r.cx, r.cy, r.w, r.h)) == [(1, 1, 2, 2), (1, 3, 2, 2), (3, 1, 2, 2), (3, 3, 2, 2)]
    | .error _ => false) = true := by decide +kernel
example : Proper [(⟨2, 2, 4, 4, "_", false, false, .nopoly⟩ : Rect ℚ)] := by
  intro r hr; simp at hr; subst hr; norm_num
example : (ratioMin : ℚ) < 3 / 2 := by norm_num [ratioMin]
example : (⟨2, 2, 4, 4, "_", false, false, .nopoly⟩ : Rect ℚ).aspectRatio ≤ (3 / 2) * 2 ^ 0 := by
  norm_num [aspectRatio]
/-- a die 8×4 with a tagged region, a ground region, a blockage and a fixed region (the auditor's witness). -/
def dieEx : DieSt ℚ :=
  ⟨⟨4, 2, 8, 4, "_", false, false, .nopoly⟩,
   [⟨7, 2, 2, 4, "dsp", false, false, .nopoly⟩],
   [⟨5/2, 2, 5, 4, "_", false, false, .nopoly⟩],
   [⟨11/2, 1, 1, 2, "#", false, false, .nopoly⟩],
   [⟨11/2, 3, 1, 2, "_", true, false, .nopoly⟩]⟩

def isOkB {ε β : Type} : Except ε β → Bool | .ok _ => true | .error _ => false

example : Proper (floorplanningRectangles dieEx).1 := by
  intro r hr; simp [floorplanningRectangles, dieEx] at hr; rcases hr with rfl | rfl <;> norm_num

/-- `dieSplit_refines` / `dieSplit_spec` applied: aspect limit 142/100, at least 7 regions. -/
example : ∃ d', splitRefinableRegions 200 dieEx (142/100) 7 = .ok d' ∧
    Refines (floorplanningRectangles dieEx).1 (floorplanningRectangles d').1 ∧
    7 ≤ (floorplanningRectangles d').1.length ∧ d'.blockages = dieEx.blockages ∧ d'.fixed = dieEx.fixed := by
  have hk : isOkB (splitRefinableRegions 200 dieEx (142/100) 7) = true := by decide +kernel
  cases h : splitRefinableRegions 200 dieEx (142/100) 7 with
  | error e => rw [h] at hk; simp [isOkB] at hk
  | ok d' =>
    have hp : Proper (floorplanningRectangles dieEx).1 := by
      intro r hr; simp [floorplanningRectangles, dieEx] at hr; rcases hr with rfl | rfl <;> norm_num
    obtain ⟨a, b, _⟩ := dieSplit_refines 200 dieEx d' _ 7 hp h
    obtain ⟨e1, e2, _⟩ := dieSplit_spec 200 dieEx d' _ 7 h
    exact ⟨d', rfl, a, b, e1, e2⟩

/-- `dieSplit_total_archimedean` applied to the same die (ℚ is Archimedean). -/
example : ∃ fuel d', splitRefinableRegions fuel dieEx (142/100) 7 = .ok d' ∧ 7 ≤ (floorplanningRectangles d').1.length := by
  have hp : Proper (floorplanningRectangles dieEx).1 := by
    intro r hr; simp [floorplanningRectangles, dieEx] at hr; rcases hr with rfl | rfl <;> norm_num
  obtain ⟨f, d', h, _, c, _⟩ := dieSplit_total_archimedean dieEx (142/100) 7
    (by simp [floorplanningRectangles, dieEx]) (by norm_num) (by norm_num [ratioMin]) hp
  exact ⟨f, d', h, c⟩

example : (match initialGrid (⟨⟨2, 1, 4, 2, "_", false, false, .nopoly⟩, [], [⟨2, 1, 4, 2, "_", false, false, .nopoly⟩], [], []⟩ : DieSt ℚ) 2 3 with
    | .ok d => d.ground.length == 6
    | .error _ => false) = true := by decide +kernel

section die_object
open FV.Die FV.DieObj

/-! ### a die without refinable region (as the code does: `heappop` on the empty heap) -/

/-- **no refinable region**: with admissible arguments and an EMPTY list of regions phase 1 leaves the heap empty, `n ≥ 1`
    regions are still missing, and `heapq.heappop([])` raises `IndexError` — for every positive fuel. -/
theorem split_no_refinable (fuel : Nat) (ratio : α) (n : Nat) (hf : 1 ≤ fuel) (hn : 1 ≤ n) (hr : ratioMin < ratio) :
    splitRectangles fuel ([] : List (Rect α)) ratio n = .error .index := by
  obtain ⟨f, rfl⟩ : ∃ f, fuel = f + 1 := ⟨fuel - 1, by omega⟩
  unfold splitRectangles
  rw [if_neg (by omega), if_neg (by simp [hr])]
  have h1 : phase1 ratio (f + 1) ([] : List (Rect α)).reverse #[] = .ok #[] := rfl
  rw [h1]
  have h2 : ¬ n ≤ (#[] : Array (PR α)).size := by simp; omega
  simp only [h2, ↓reduceIte]
  have h3 : Heapq.heapify prLt (#[] : Array (PR α)) = #[] := by simp [Heapq.heapify]
  rw [h3]
  unfold phase2
  have h4 : (#[] : Array (PR α)).size < n := by simp; omega
  simp only [h4, ↓reduceIte]
  rfl

/-- … hence `split_refinable_regions` on a die whose free area is entirely blocked (no ground, no specialised region) raises
    `IndexError`, and (the exception comes before the assignment) leaves the die as it was. -/
theorem dieSplit_no_refinable (fuel : Nat) (d : DieSt α) (ratio : α) (n : Nat) (hf : 1 ≤ fuel) (hn : 1 ≤ n)
    (hr : ratioMin < ratio) (he : (floorplanningRectangles d).1 = []) :
    splitRefinableRegions fuel d ratio n = .error .index := by
  unfold splitRefinableRegions
  rw [if_neg (by omega), if_neg (by simp [hr])]
  have e : d.specialized ++ d.ground = (floorplanningRectangles d).1 := rfl
  rw [e, he, split_no_refinable fuel ratio n hf hn hr]

/-- **total characterisation** of `split_refinable_regions` over Archimedean fields, for EVERY die with proper regions and
    admissible arguments: either there is a refinable region and (for some fuel) a die comes back that satisfies the
    property, or there is none and every run (any positive fuel) raises `IndexError`. -/
theorem dieSplit_total_cases [Archimedean α] (d : DieSt α) (ratio : α) (n : Nat) (hn : 1 ≤ n) (hratio : ratioMin < ratio)
    (hpos : Proper (floorplanningRectangles d).1) :
    ((floorplanningRectangles d).1 = [] ∧ ∀ fuel, 1 ≤ fuel → splitRefinableRegions fuel d ratio n = .error .index) ∨
    ((floorplanningRectangles d).1 ≠ [] ∧ ∃ fuel d', splitRefinableRegions fuel d ratio n = .ok d' ∧
      Refines (floorplanningRectangles d).1 (floorplanningRectangles d').1 ∧
      n ≤ (floorplanningRectangles d').1.length ∧ (∀ o ∈ (floorplanningRectangles d').1, o.aspectRatio ≤ ratio) ∧
      d'.blockages = d.blockages ∧ d'.fixed = d.fixed ∧ d'.die = d.die) := by
  by_cases he : (floorplanningRectangles d).1 = []
  · exact Or.inl ⟨he, fun fuel hf => dieSplit_no_refinable fuel d ratio n hf hn hratio he⟩
  · exact Or.inr ⟨he, dieSplit_total_archimedean d ratio n he hn hratio hpos⟩

/-! ### no fuel at `Rat`: the fuel is computed from the arguments and provably suffices -/

theorem aspect_le_pow_levelQ (r : Rect ℚ) (hw : 0 < r.w) (hh : 0 < r.h) : r.aspectRatio ≤ 2 ^ levelQ r := by
  have h1 := one_le_aspectRatio r hw hh
  have hq : (0 : ℚ) < r.aspectRatio := by linarith
  have hnum : 0 < r.aspectRatio.num := Rat.num_pos.mpr hq
  have hden : (1 : ℚ) ≤ (r.aspectRatio.den : ℚ) := by exact_mod_cast r.aspectRatio.den_pos
  have e := Rat.num_div_den r.aspectRatio
  have hle : r.aspectRatio ≤ (r.aspectRatio.num : ℚ) := by
    calc r.aspectRatio = (r.aspectRatio.num : ℚ) / (r.aspectRatio.den : ℚ) := e.symm
      _ ≤ (r.aspectRatio.num : ℚ) := div_le_self (by exact_mod_cast le_of_lt hnum) hden
  have hn : (r.aspectRatio.num : ℚ) = ((r.aspectRatio.num.natAbs : ℕ) : ℚ) := by
    have : ((r.aspectRatio.num.natAbs : ℕ) : ℤ) = r.aspectRatio.num := Int.natAbs_of_nonneg (le_of_lt hnum)
    rw [← Int.cast_natCast, this]
  have hlt : ((r.aspectRatio.num.natAbs : ℕ) : ℚ) < 2 ^ levelQ r := by
    unfold levelQ
    exact_mod_cast (Nat.lt_log2_self (n := r.aspectRatio.num.natAbs))
  linarith

theorem levelQ_le_levelsQ (rs : List (Rect ℚ)) (r : Rect ℚ) (hr : r ∈ rs) : levelQ r ≤ levelsQ rs := by
  unfold levelsQ
  have key : ∀ (l : List (Rect ℚ)) (k : Nat), k ≤ l.foldl (fun k r => max k (levelQ r)) k ∧
      ∀ x ∈ l, levelQ x ≤ l.foldl (fun k r => max k (levelQ r)) k := by
    intro l
    induction l with
    | nil => intro k; exact ⟨le_refl _, fun x hx => by cases hx⟩
    | cons a t ih =>
      intro k
      obtain ⟨i1, i2⟩ := ih (max k (levelQ a))
      simp only [List.foldl_cons]
      refine ⟨le_trans (le_max_left _ _) i1, fun x hx => ?_⟩
      rcases List.mem_cons.mp hx with rfl | hx
      · exact le_trans (le_max_right _ _) i1
      · exact i2 x hx
  exact (key rs 0).2 r hr

/-- **`split_rectangles` at `ℚ` needs no fuel hypothesis**: with the fuel `fuelQ` computed from the arguments the model
    returns on all admissible arguments (at least one proper region, `n ≥ 1`, `ratio > 1.415`), and what it returns satisfies
    the three clauses.  (`ℚ` is the type at which the driver executes the model on the exact stream, with this fuel.) -/
theorem splitQ_returns (ins : List (Rect ℚ)) (ratio : ℚ) (n : Nat) (hne : ins ≠ []) (hn : 1 ≤ n)
    (hratio : ratioMin < ratio) (hpos : Proper ins) :
    ∃ outs, splitRectanglesQ ins ratio n = .ok outs ∧ Refines ins outs ∧ n ≤ outs.length ∧
      ∀ o ∈ outs, o.aspectRatio ≤ ratio := by
  obtain ⟨_, hr1⟩ := ratio_facts ratio hratio
  have hK : ∀ r ∈ ins, r.aspectRatio ≤ ratio * 2 ^ (levelsQ ins) := by
    intro r hr
    have h1 := aspect_le_pow_levelQ r (hpos r hr).1 (hpos r hr).2
    have h2 : (2 : ℚ) ^ levelQ r ≤ 2 ^ levelsQ ins := pow_le_pow_right₀ (by norm_num) (levelQ_le_levelsQ ins r hr)
    have h3 : (0 : ℚ) < 2 ^ levelsQ ins := by positivity
    nlinarith
  obtain ⟨outs, h⟩ := split_terminates ins ratio n (levelsQ ins) hne hn hratio hpos hK
  obtain ⟨a, b, c⟩ := splitRectangles_sound _ ins ratio n outs hpos h
  exact ⟨outs, h, a, c, b⟩

/-- never out of fuel at `ℚ`: on admissible arguments `splitRectanglesQ` either returns or (empty list) raises `IndexError`. -/
theorem splitQ_never_out_of_fuel (ins : List (Rect ℚ)) (ratio : ℚ) (n : Nat) (hn : 1 ≤ n) (hratio : ratioMin < ratio)
    (hpos : Proper ins) : splitRectanglesQ ins ratio n ≠ .error .fuel := by
  by_cases hne : ins = []
  · subst hne
    unfold splitRectanglesQ
    rw [split_no_refinable _ ratio n (by unfold fuelQ; omega) hn hratio]
    intro h; cases h
  · obtain ⟨outs, h, _⟩ := splitQ_returns ins ratio n hne hn hratio hpos
    rw [h]; intro h'; cases h'
/-! ### the `Die` OBJECT: method calls on what the constructor returned (`FV/Model/DieObj.lean`) -/

/-- what every `Die` object satisfies from its construction on (for a valid description: `FV.C01.die_complete`,
    `construct_complete`, `die_sound`) and keeps through every method call: its regions tile the die exactly, the refinable
    ones are proper rectangles, ground regions carry the ground tag and no flag. -/
structure Inv (o : DieOut α) : Prop where
  tiling : C01.ExactTiling o
  proper : Proper (fpRects o).1
  groundTag : ∀ g ∈ o.ground, g.region = kwGround ∧ g.fixed = false ∧ g.hard = false
  specTag : ∀ s ∈ o.specialized, s.region ≠ kwGround

/-- every current refinable region is a piece of one of the former ones: inside it, same tag and flags, proper. -/
def PiecesOf (orig cur : List (Rect α)) : Prop := ∀ p ∈ cur, ∃ i ∈ orig, PieceOf i p

theorem piecesOf_refl (l : List (Rect α)) (h : Proper l) : PiecesOf l l :=
  fun p hp => ⟨p, hp, isInside_refl p, rfl, rfl, rfl, (h p hp).1, (h p hp).2⟩

theorem piecesOf_trans (a b c : List (Rect α)) (h1 : PiecesOf a b) (h2 : PiecesOf b c) : PiecesOf a c := by
  intro p hp
  obtain ⟨j, hj, q1, q2, q3, q4, q5, q6⟩ := h2 p hp
  obtain ⟨i, hi, r1, r2, r3, r4, _, _⟩ := h1 j hj
  exact ⟨i, hi, isInside_trans p j i q1 r1, q2.trans r2, q3.trans r3, q4.trans r4, q5, q6⟩

theorem piecesOf_of_refines (ins outs : List (Rect α)) (h : Refines ins outs) : PiecesOf ins outs :=
  fun p hp => refines_mem ins outs h p hp

/-- the frame of both refining methods: whatever they return, blockages, fixed regions and the die size are untouched. -/
theorem withSt_frame (o : DieOut α) (s : DieSt α) (hb : s.blockages = o.blockages) (hf : s.fixed = o.fixed) :
    (withSt o s).blockages = o.blockages ∧ (withSt o s).fixed = o.fixed ∧ (withSt o s).W = o.W ∧ (withSt o s).H = o.H ∧
    (fpRects (withSt o s)).1 = s.specialized ++ s.ground := ⟨hb, hf, rfl, rfl, rfl⟩

/-- replacing the refinable regions of an exactly tiled die by a refinement of them keeps the exact tiling. -/
theorem exactTiling_of_refines (o o' : DieOut α) (hW : o'.W = o.W) (hH : o'.H = o.H) (hb : o'.blockages = o.blockages)
    (hf : o'.fixed = o.fixed) (ht : C01.ExactTiling o)
    (hr : Refines (o.specialized ++ o.ground) (o'.specialized ++ o'.ground)) : C01.ExactTiling o' := by
  have hall : o.all = (o.specialized ++ o.ground) ++ (o.blockages ++ o.fixed) := by
    simp [DieOut.all, List.append_assoc]
  have hall' : o'.all = (o'.specialized ++ o'.ground) ++ (o.blockages ++ o.fixed) := by
    simp [DieOut.all, List.append_assoc, hb, hf]
  obtain ⟨hin, hpw, harea⟩ := ht
  rw [hall] at hin hpw harea
  refine ⟨?_, ?_, ?_⟩
  · intro r hr'
    rw [hall'] at hr'
    rw [hW, hH]
    rcases List.mem_append.mp hr' with c | c
    · obtain ⟨i, hi, hp⟩ := refines_mem _ _ hr r c
      obtain ⟨a1, a2, a3, a4⟩ := (isInside_iff_coords r i).mp hp.1
      obtain ⟨b1, b2, b3, b4⟩ := hin i (List.mem_append_left _ hi)
      exact ⟨le_trans b1 a1, le_trans a3 b2, le_trans b3 a2, le_trans a4 b4⟩
    · exact hin r (List.mem_append_right _ c)
  · rw [hall']
    obtain ⟨p1, p2, p3⟩ := List.pairwise_append.mp hpw
    refine List.pairwise_append.mpr ⟨refines_disjoint _ _ hr p1, p2, ?_⟩
    intro a ha b hb'
    obtain ⟨i, hi, hp⟩ := refines_mem _ _ hr a ha
    exact areaOverlap_zero_of_inside a i b hp.1 (p3 i hi b hb')
  · rw [hall', hW, hH]
    rw [List.map_append, List.sum_append] at harea ⊢
    rw [refines_area _ _ hr]
    exact harea

/-- **`split_refinable_regions` on the object**: when it returns, the object still tiles the die exactly, blockages / fixed
    regions / die size are untouched, the refinable regions refine the former ones (each inside the region it was cut from,
    with its tag), there are at least `n`, each of aspect ratio at most `ratio`. -/
theorem obj_split_spec (fuel : Nat) (o o' : DieOut α) (ratio : α) (n : Nat) (hinv : Inv o)
    (h : DieObj.split fuel o ratio n = .ok o') :
    Inv o' ∧ o'.blockages = o.blockages ∧ o'.fixed = o.fixed ∧ o'.W = o.W ∧ o'.H = o.H ∧
    Refines (fpRects o).1 (fpRects o').1 ∧ n ≤ (fpRects o').1.length ∧ ∀ r ∈ (fpRects o').1, r.aspectRatio ≤ ratio := by
  unfold DieObj.split at h
  split at h
  · cases h
  · rename_i s hs
    simp only [Except.ok.injEq] at h
    subst h
    obtain ⟨e1, e2, _, g1, g2, _⟩ := dieSplit_spec fuel (toSt o) s ratio n hs
    obtain ⟨r1, r2, r3⟩ := dieSplit_refines fuel (toSt o) s ratio n hinv.proper hs
    have hr : Refines (o.specialized ++ o.ground) ((withSt o s).specialized ++ (withSt o s).ground) := r1
    refine ⟨⟨exactTiling_of_refines o (withSt o s) rfl rfl e1 e2 hinv.tiling hr, ?_, ?_, g2⟩, e1, e2, rfl, rfl, r1, r2, r3⟩
    · intro p hp; exact refines_pos _ _ r1 p hp
    · intro g hg
      have hreg := g1 g hg
      obtain ⟨i, hi, hp⟩ := refines_mem _ _ r1 g (List.mem_append_right _ hg)
      rcases List.mem_append.mp hi with c | c
      · exact absurd (hp.2.1.symm.trans hreg) (hinv.specTag i c)
      · obtain ⟨t1, t2, t3⟩ := hinv.groundTag i c
        exact ⟨hreg, hp.2.2.1.trans t2, hp.2.2.2.1.trans t3⟩

/-- a single proper rectangle that lies inside the die and has the die's area IS the die outline. -/
theorem sole_region_is_die (W H : α) (g : Rect α) (hw : 0 < g.w) (hh : 0 < g.h)
    (hin : 0 ≤ g.xmin ∧ g.xmax ≤ W ∧ 0 ≤ g.ymin ∧ g.ymax ≤ H) (ha : g.area = W * H) :
    g.cx = W / 2 ∧ g.cy = H / 2 ∧ g.w = W ∧ g.h = H := by
  obtain ⟨a1, a2, a3, a4⟩ := hin
  simp only [Rect.xmin, Rect.xmax, Rect.ymin, Rect.ymax, Rect.area, two_eq] at *
  have hwW : g.w ≤ W := by linarith
  have hhH : g.h ≤ H := by linarith
  have hW : 0 < W := by linarith
  have hH : 0 < H := by linarith
  have ew : g.w = W := by
    by_contra hne
    have hlt : g.w < W := lt_of_le_of_ne hwW hne
    have : g.w * g.h < W * H := by nlinarith
    linarith
  have eh : g.h = H := by
    by_contra hne
    have hlt : g.h < H := lt_of_le_of_ne hhH hne
    have : g.w * g.h < W * H := by nlinarith
    linarith
  refine ⟨?_, ?_, ew, eh⟩ <;> linarith

/-- **`initial_grid` on the object**: it returns exactly on a clean object with a sensible grid shape; then there are
    `rows × columns` ground regions, the object still tiles the die exactly, nothing else is touched, and the cells refine
    the single former ground region (which is the die outline). -/
theorem obj_grid_spec (o o' : DieOut α) (nr nc : Nat) (hinv : Inv o) (h : DieObj.grid o nr nc = .ok o') :
    Inv o' ∧ o'.blockages = o.blockages ∧ o'.fixed = o.fixed ∧ o'.W = o.W ∧ o'.H = o.H ∧
    Refines (fpRects o).1 (fpRects o').1 ∧ (fpRects o').1.length = nr * nc ∧
    o.specialized = [] ∧ o.blockages = [] ∧ o.fixed = [] ∧ o.ground.length = 1 := by
  unfold DieObj.grid at h
  split at h
  · cases h
  · rename_i s hs
    simp only [Except.ok.injEq] at h
    subst h
    obtain ⟨⟨_, _, _⟩, ⟨c1, c2, c3⟩, c4⟩ := (initialGrid_ok_iff (toSt o) nr nc).mp ⟨s, hs⟩
    have c1' : o.fixed = [] := c1
    have c2' : o.specialized = [] := c2
    have c3' : o.blockages = [] := c3
    have c4' : o.ground.length = 1 := c4
    obtain ⟨g, hg⟩ := List.length_eq_one_iff.mp c4'
    have hgm : g ∈ (fpRects o).1 := by simp [fpRects, floorplanningRectangles, toSt, hg]
    obtain ⟨gw, gh⟩ := hinv.proper g hgm
    have hall : o.all = [g] := by simp [DieOut.all, c1', c2', c3', hg]
    obtain ⟨hin, _, harea⟩ := hinv.tiling
    rw [hall] at hin harea
    have hgin := hin g (by simp)
    have hga : g.area = o.W * o.H := by simpa using harea
    obtain ⟨q1, q2, q3, q4⟩ := sole_region_is_die o.W o.H g gw gh hgin hga
    obtain ⟨t1, t2, t3⟩ := hinv.groundTag g (by rw [hg]; simp)
    have hdw : 0 < (toSt o).die.w := by show 0 < o.W; rw [← q3]; exact gw
    have hdh : 0 < (toSt o).die.h := by show 0 < o.H; rw [← q4]; exact gh
    have hgeo : Stog.eraseLoc g = Stog.eraseLoc (toSt o).die := by
      obtain ⟨cx, cy, w, hh', reg, fx, hd, loc⟩ := g
      simp only at q1 q2 q3 q4 t1 t2 t3
      subst q1 q2 q3 q4 t1 t2 t3
      simp [Stog.eraseLoc, toSt, boundingBox, dieRect, kwGround, two_eq]
    obtain ⟨hl, ht, e1, e2, e3, _, href⟩ := initialGrid_spec (toSt o) s nr nc hdw hdh hs
    have hr : Refines (fpRects o).1 (fpRects (withSt o s)).1 := href g hg hgeo
    have hs1 : s.specialized = [] := by rw [e1]; exact c2'
    have hr' : Refines (o.specialized ++ o.ground) ((withSt o s).specialized ++ (withSt o s).ground) := hr
    refine ⟨⟨exactTiling_of_refines o (withSt o s) rfl rfl e2 e3 hinv.tiling hr', ?_, ?_, ?_⟩, e2, e3, rfl, rfl, hr, ?_,
      c2', c3', c1', c4'⟩
    · intro p hp; exact refines_pos _ _ hr p hp
    · intro p hp
      obtain ⟨i, hi, hpp⟩ := refines_mem _ _ hr p (List.mem_append_right _ hp)
      have hig : i = g := by
        simp [fpRects, floorplanningRectangles, toSt, c2', hg] at hi
        exact hi
      subst hig
      exact ⟨hpp.2.1.trans t1, hpp.2.2.1.trans t2, hpp.2.2.2.1.trans t3⟩
    · intro p hp
      have : (withSt o s).specialized = [] := hs1
      rw [this] at hp; cases hp
    · show (s.specialized ++ s.ground).length = nr * nc
      rw [hs1]; simpa using hl

/-- a call that raises leaves the object as it was; a call that returns satisfies the method's specification. -/
theorem step_spec (fuelOf : List (Rect α) → α → Nat → Nat) (o : DieOut α) (c : Call α) (hinv : Inv o) :
    ((step fuelOf o c).2 ≠ none → (step fuelOf o c).1 = o) ∧
    Inv (step fuelOf o c).1 ∧ (step fuelOf o c).1.blockages = o.blockages ∧ (step fuelOf o c).1.fixed = o.fixed ∧
    (step fuelOf o c).1.W = o.W ∧ (step fuelOf o c).1.H = o.H ∧
    PiecesOf (fpRects o).1 (fpRects (step fuelOf o c).1).1 ∧
    ((fpRects (step fuelOf o c).1).1.map Rect.area).sum = ((fpRects o).1.map Rect.area).sum ∧
    ((step fuelOf o c).2 = none → match c with
      | .split ratio n => n ≤ (fpRects (step fuelOf o c).1).1.length ∧
          ∀ r ∈ (fpRects (step fuelOf o c).1).1, r.aspectRatio ≤ ratio
      | .grid nr nc => (fpRects (step fuelOf o c).1).1.length = nr * nc) := by
  cases c with
  | split ratio n =>
    cases hs : DieObj.split (fuelOf (fpRects o).1 ratio n) o ratio n with
    | error e =>
      have hst : step fuelOf o (.split ratio n) = (o, some e) := by simp only [step, hs]
      rw [hst]
      exact ⟨fun _ => rfl, hinv, rfl, rfl, rfl, rfl, piecesOf_refl _ hinv.proper, rfl, fun h => by cases h⟩
    | ok o' =>
      have hst : step fuelOf o (.split ratio n) = (o', none) := by simp only [step, hs]
      rw [hst]
      obtain ⟨a1, a2, a3, a4, a5, a6, a7, a8⟩ := obj_split_spec _ o o' ratio n hinv hs
      exact ⟨fun h => absurd rfl h, a1, a2, a3, a4, a5, piecesOf_of_refines _ _ a6, refines_area _ _ a6, fun _ => ⟨a7, a8⟩⟩
  | grid nr nc =>
    cases hs : DieObj.grid o nr nc with
    | error e =>
      have hst : step fuelOf o (.grid nr nc) = (o, some e) := by simp only [step, hs]
      rw [hst]
      exact ⟨fun _ => rfl, hinv, rfl, rfl, rfl, rfl, piecesOf_refl _ hinv.proper, rfl, fun h => by cases h⟩
    | ok o' =>
      have hst : step fuelOf o (.grid nr nc) = (o', none) := by simp only [step, hs]
      rw [hst]
      obtain ⟨a1, a2, a3, a4, a5, a6, a7, _⟩ := obj_grid_spec o o' nr nc hinv hs
      exact ⟨fun h => absurd rfl h, a1, a2, a3, a4, a5, piecesOf_of_refines _ _ a6, refines_area _ _ a6, fun _ => a7⟩

/-- **any session** — after ANY sequence of `split_refinable_regions` / `initial_grid` calls (returning or raising, any
    arguments) on a die object that tiles its die exactly: the object still tiles the die exactly; blockages, fixed regions
    and the die size are the ones of the constructed object (stated on the `Die`-level value the constructor model returns, not on a
    list); every refinable region lies inside one of the ORIGINAL refinable regions and carries its tag and flags; and the
    refinable regions cover the same total area as at construction. -/
theorem session_invariant (fuelOf : List (Rect α) → α → Nat → Nat) (cs : List (Call α)) (o : DieOut α) (hinv : Inv o) :
    Inv (run fuelOf o cs).1 ∧ (run fuelOf o cs).1.blockages = o.blockages ∧ (run fuelOf o cs).1.fixed = o.fixed ∧
    (run fuelOf o cs).1.W = o.W ∧ (run fuelOf o cs).1.H = o.H ∧
    PiecesOf (fpRects o).1 (fpRects (run fuelOf o cs).1).1 ∧
    ((fpRects (run fuelOf o cs).1).1.map Rect.area).sum = ((fpRects o).1.map Rect.area).sum := by
  induction cs generalizing o with
  | nil => exact ⟨hinv, rfl, rfl, rfl, rfl, piecesOf_refl _ hinv.proper, rfl⟩
  | cons c cs ih =>
    obtain ⟨_, s1, s2, s3, s4, s5, s6, s7, _⟩ := step_spec fuelOf o c hinv
    obtain ⟨i1, i2, i3, i4, i5, i6, i7⟩ := ih (step fuelOf o c).1 s1
    simp only [run]
    exact ⟨i1, i2.trans s2, i3.trans s3, i4.trans s4, i5.trans s5, piecesOf_trans _ _ _ s6 i6, i7.trans s7⟩

/-- the object the constructor returns for a valid description starts every session in the invariant: C01's `die_sound`
    clauses (ground regions proper and tagged ground, document regions proper and not tagged ground) and an exact tiling. -/
theorem inv_of_constructed (o : DieOut α) (ht : C01.ExactTiling o)
    (hg : ∀ g ∈ o.ground, g.region = KW_GROUND ∧ g.fixed = false ∧ g.hard = false ∧ 0 < g.w ∧ 0 < g.h)
    (hs : ∀ s ∈ o.specialized, s.region ≠ KW_GROUND ∧ 0 < s.w ∧ 0 < s.h) : Inv o := by
  refine ⟨ht, ?_, fun g hgm => ⟨(hg g hgm).1, (hg g hgm).2.1, (hg g hgm).2.2.1⟩, fun s hsm => (hs s hsm).1⟩
  intro r hr
  rcases List.mem_append.mp hr with c | c
  · exact (hs r c).2
  · exact ⟨(hg r c).2.2.2.1, (hg r c).2.2.2.2⟩

/-- **`split_refinable_regions` on the object at `ℚ`, no fuel, no side condition** (beyond `n ≥ 1`, `ratio > 1.415`): on every
    object in the invariant the call either raises `IndexError` — exactly when the die has no refinable region — or returns
    an object that satisfies the whole property. -/
theorem obj_splitQ_total (o : DieOut ℚ) (ratio : ℚ) (n : Nat) (hn : 1 ≤ n) (hratio : ratioMin < ratio) (hinv : Inv o) :
    ((fpRects o).1 = [] ∧ splitQ o ratio n = .error .index) ∨
    ((fpRects o).1 ≠ [] ∧ ∃ o', splitQ o ratio n = .ok o' ∧ Inv o' ∧ o'.blockages = o.blockages ∧ o'.fixed = o.fixed ∧
      o'.W = o.W ∧ o'.H = o.H ∧ Refines (fpRects o).1 (fpRects o').1 ∧ n ≤ (fpRects o').1.length ∧
      ∀ r ∈ (fpRects o').1, r.aspectRatio ≤ ratio) := by
  by_cases he : (fpRects o).1 = []
  · refine Or.inl ⟨he, ?_⟩
    unfold splitQ DieObj.split
    rw [dieSplit_no_refinable _ (toSt o) ratio n (by unfold fuelQ; omega) hn hratio he]
  · refine Or.inr ⟨he, ?_⟩
    obtain ⟨outs, h, _⟩ := splitQ_returns (fpRects o).1 ratio n he hn hratio hinv.proper
    have hs : ∃ s, splitRefinableRegions (fuelQ (fpRects o).1 ratio n) (toSt o) ratio n = .ok s := by
      unfold splitRefinableRegions
      rw [if_neg (by omega), if_neg (by simp [hratio])]
      have e : (toSt o).specialized ++ (toSt o).ground = (fpRects o).1 := rfl
      unfold splitRectanglesQ at h
      rw [e, h]
      exact ⟨_, rfl⟩
    obtain ⟨s, hs⟩ := hs
    have ho : splitQ o ratio n = .ok (withSt o s) := by
      unfold splitQ DieObj.split
      rw [hs]
    exact ⟨withSt o s, ho, obj_split_spec _ o (withSt o s) ratio n hinv ho⟩

/-- **from the documents to any session** (C01 ∘ C11): the object `Die(stream, netlist)` returns for a description that is tiled
    exactly (`FV.C01.construct_complete`: every valid description) is in the invariant; hence after ANY session of refinement
    calls it still tiles the die exactly, and its blockages and fixed regions — the rectangles of the netlist's fixed modules
    (`FV.C01.construct_fixed_of_netlist`) — are still the ones the constructor reported. -/
theorem constructed_session (pf : List Char → Option α) (ry : String → Option (YV α)) (sqrt : α → α) (tiny : α)
    (stogOf : α → α → List (NL.NRect α) → List (NL.NRect α)) (st : Option (α × α)) (ndoc : Option (YVal α))
    (src : DieNet.Src α) (picks : Option (List IRect)) (out : DieOut α) (e : Eps α) (st' : α × α)
    (h : DieNet.construct pf ry sqrt tiny stogOf st ndoc src picks = .ok (out, e, st')) (ht : C01.ExactTiling out)
    (fuelOf : List (Rect α) → α → Nat → Nat) (cs : List (Call α)) :
    Inv out ∧ C01.ExactTiling (run fuelOf out cs).1 ∧ (run fuelOf out cs).1.blockages = out.blockages ∧
    (run fuelOf out cs).1.fixed = out.fixed ∧ (run fuelOf out cs).1.W = out.W ∧ (run fuelOf out cs).1.H = out.H ∧
    PiecesOf (fpRects out).1 (fpRects (run fuelOf out cs).1).1 := by
  obtain ⟨st1, fixed, inp, _, hp, _, _, _, _, e3, _, _, hg, _⟩ :=
    C01.construct_sound pf ry sqrt tiny stogOf st ndoc src picks out e st' h
  obtain ⟨_, _, hreg⟩ := C01.parseYamlDie_sound pf ry src inp hp
  have hinv : Inv out := by
    refine inv_of_constructed out ht hg ?_
    intro s hs
    rw [e3] at hs
    have hs' := (List.mem_filter.mp hs).1
    obtain ⟨_, _, _, _, _, hw, hh, hne, _⟩ := C01.parseRect_ok _ s (hreg s hs')
    exact ⟨hne, hw, hh⟩
  obtain ⟨i1, i2, i3, i4, i5, i6, _⟩ := session_invariant fuelOf cs out hinv
  exact ⟨hinv, i1.tiling, i2, i3, i4, i5, i6⟩

/-! ### non-vacuity of the object-level theorems (executed at `ℚ`) -/

/-- the object of an 8×4 die with a tagged region, one ground region, a blockage and a fixed region (cf. `dieEx`). -/
def objEx : DieOut ℚ :=
  { W := 8, H := 4,
    specialized := [⟨7, 2, 2, 4, "dsp", false, false, .nopoly⟩],
    ground := [⟨5/2, 2, 5, 4, "_", false, false, .nopoly⟩],
    blockages := [⟨11/2, 1, 1, 2, "#", false, false, .nopoly⟩],
    fixed := [⟨11/2, 3, 1, 2, "_", true, true, .nopoly⟩] }

theorem objEx_inv : Inv objEx := by
  refine ⟨⟨?_, ?_, ?_⟩, ?_, ?_, ?_⟩
  · decide +kernel
  · decide +kernel
  · decide +kernel
  · intro r hr; simp [fpRects, floorplanningRectangles, toSt, objEx] at hr; rcases hr with rfl | rfl <;> norm_num
  · decide +kernel
  · decide +kernel

/-- `obj_splitQ_total` applied: the second alternative holds (there are refinable regions), without any fuel. -/
example : ∃ o', splitQ objEx (142/100) 7 = .ok o' ∧ Inv o' ∧ o'.fixed = objEx.fixed ∧ 7 ≤ (fpRects o').1.length := by
  rcases obj_splitQ_total objEx (142/100) 7 (by norm_num) (by norm_num [ratioMin]) objEx_inv with ⟨he, _⟩ | ⟨_, o', h, hi, _, hf, _, _, _, hc, _⟩
  · simp [fpRects, floorplanningRectangles, toSt, objEx] at he
  · exact ⟨o', h, hi, hf, hc⟩

/-- a fully blocked die has no refinable region: `IndexError`, for every admissible request (`obj_splitQ_total`, first
    alternative; `dieSplit_no_refinable`). -/
def objBlocked : DieOut ℚ :=
  { W := 5, H := 4, specialized := [], ground := [], blockages := [⟨5/2, 2, 5, 4, "#", false, false, .nopoly⟩], fixed := [] }
example : splitQ objBlocked 2 3 = .error .index := by
  unfold splitQ DieObj.split
  rw [dieSplit_no_refinable _ (toSt objBlocked) 2 3 (by unfold fuelQ; omega) (by norm_num) (by norm_num [ratioMin]) rfl]

/-- `session_invariant` applied to a session in which the second call must raise (the die is no longer clean). -/
example : let o' := (run fuelQ objEx [.split (3/2) 4, .grid 2 2, .split 2 9]).1
    C01.ExactTiling o' ∧ o'.fixed = objEx.fixed ∧ o'.blockages = objEx.blockages := by
  obtain ⟨i, b, f, _⟩ := session_invariant fuelQ [.split (3/2) 4, .grid 2 2, .split 2 9] objEx objEx_inv
  exact ⟨i.tiling, f, b⟩


end die_object

end FV.C11

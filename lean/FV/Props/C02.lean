import FV.Proofs.Alloc
/-
  C02 — Refining an allocation conserves tiling, module area and centroid.
  Property theorems only (helper lemmas live in `FV/Proofs/Alloc.lean`; spec definitions used here:
  `ValidAlloc`, `CellsOK`, `Refines`, `TilesCell`, `areaSum`, `momXSum`, `momYSum`, `OpOK`, the witnesses `exRaw`, `exRawF` from that file,
  `Mem` from `FV/Props/C18.lean`).
  All statements are over an arbitrary linearly ordered field `α` (exact arithmetic); `Rat`, at which the
  driver `drv_alloc` executes the very same definitions, is one.  `env` (the literals `1e-12`, `0.01`,
  `math.sqrt`) is arbitrary; `st` is the class-wide tolerance state, defined (`ValidAlloc` says so).
  The model is the code with `fixes/C02_fixed_cells_cut.diff`, `fixes/C02_griddify_yloop.diff` and
  `fixes/C12_must_be_refined_guard.diff` applied.
-/
namespace FV.C02
open FV FV.Alloc FV.Rect FV.C18
set_option linter.unusedSectionVars false
set_option linter.unusedSimpArgs false
set_option linter.unusedVariables false

variable {α : Type} [Field α] [LinearOrder α] [IsStrictOrderedRing α]

/-! ### valid allocations are what the constructor returns -/

/-- whatever the constructor returns is a valid allocation in the state it leaves behind
    (`RawPos`: the `Rectangle` objects passed in are proper rectangles, which `Rectangle.__init__` asserts). -/
theorem constructor_valid (env : Env α) (st : Eps α) (raw : List (RawCell α)) (a : Allocation α) (st' : Eps α)
    (hraw : ∀ rc ∈ raw, RawPos rc) (hst : 0 ≤ st.dist → 0 ≤ st.area) (htiny : 0 ≤ env.tiny)
    (hsqrt : ∀ x, 0 ≤ env.sqrt x) (h : mkAllocation env st raw = .ok (a, st')) : ValidAlloc st' a :=
  mkAllocation_valid env st raw a st' hraw hst htiny hsqrt h

/-- `area(m)` and `center(m)` of a valid allocation are `Σ ratio·area` and `Σ ratio·area·centre / Σ ratio·area`
    over its cells; unknown modules give `KeyError`. -/
theorem area_center_eq_sums (st : Eps α) (a : Allocation α) (hv : ValidAlloc st a) (m : String) :
    (m ∈ modules a.cells → a.areaOf m = some (areaSum m a.cells) ∧ areaSum m a.cells ≠ 0 ∧
      a.centerOf m = some (momXSum m a.cells / areaSum m a.cells, momYSum m a.cells / areaSum m a.cells)) ∧
    (m ∉ modules a.cells → a.areaOf m = none ∧ a.centerOf m = none) :=
  ⟨fun hm => ⟨((hv.caches m).1 hm).1, hv.cells.areaNZ m hm, ((hv.caches m).1 hm).2⟩, (hv.caches m).2⟩

/-- `area([m₁, …])` of known modules is the plain sum of the per-module areas: Python's compensated `sum()`
    (`pySum`, Neumaier) is the ordinary sum in exact arithmetic. -/
theorem area_list_eq_sum (st : Eps α) (a : Allocation α) (hv : ValidAlloc st a) (ms : List String)
    (hms : ∀ m ∈ ms, m ∈ modules a.cells) :
    a.areaList ms = .ok ((ms.map fun m => areaSum m a.cells).sum) := by
  unfold Allocation.areaList
  rw [mapE_eq_map _ (fun m => areaSum m a.cells) ms]
  · simp only [pySum_eq_sum]
  · intro m hm
    rw [((hv.caches m).1 (hms m hm)).1]

/-! ### each operation -/

/-- **the operation succeeds on every valid allocation** (and leaves the tolerances alone). -/
theorem op_ok (env : Env α) (st : Eps α) (a : Allocation α) (op : Op α) (hv : ValidAlloc st a) (hop : OpOK op) :
    ∃ a', applyOp env st a op = .ok (a', st) := by
  obtain ⟨a', h, _⟩ := applyOp_spec env st a op hv hop
  exact ⟨a', h⟩

/-- **the result is a valid allocation**: proper cells in the positive quadrant, pairwise overlap within the
    area tolerance, admissible ratios, consistent caches. -/
theorem op_valid (env : Env α) (st st' : Eps α) (a a' : Allocation α) (op : Op α) (hv : ValidAlloc st a) (hop : OpOK op)
    (h : applyOp env st a op = .ok (a', st')) : st' = st ∧ ValidAlloc st a' := by
  obtain ⟨a1, h1, v1, _⟩ := applyOp_spec env st a op hv hop
  rw [h1] at h
  injection h with h; injection h with e1 e2
  subst e1; subst e2
  exact ⟨rfl, v1⟩

/-- … and if the original cells do not overlap at all, neither do the new ones. -/
theorem op_no_overlap (env : Env α) (st st' : Eps α) (a a' : Allocation α) (op : Op α) (hv : ValidAlloc st a)
    (hop : OpOK op) (h : applyOp env st a op = .ok (a', st'))
    (h0 : a.cells.Pairwise (fun c d => c.rect.areaOverlap d.rect = 0)) :
    a'.cells.Pairwise (fun c d => c.rect.areaOverlap d.rect = 0) := by
  obtain ⟨a1, h1, _, r1, _⟩ := applyOp_spec env st a op hv hop
  rw [h1] at h
  injection h with h; injection h with e1 e2
  subst e1
  have := r1.pairwise 0 (le_refl _) (h0.imp (fun h => le_of_eq h))
  exact this.imp (fun h => le_antisymm h (areaOverlap_nonneg _ _))

/-- **same region**: the new cell list is the concatenation, in order, of one group of cells per old cell; each
    group consists of proper rectangles inside the old cell, pairwise non-overlapping, whose areas add up to
    the old cell's and which cover every point of it. -/
theorem op_sameRegion (env : Env α) (st st' : Eps α) (a a' : Allocation α) (op : Op α) (hv : ValidAlloc st a)
    (hop : OpOK op) (h : applyOp env st a op = .ok (a', st')) :
    ∃ parts : List (List (Cell α)), a'.cells = parts.flatten ∧
      List.Forall₂ (fun c p => p ≠ [] ∧ (∀ d ∈ p, d.rect.isInside c.rect = true ∧ 0 < d.rect.w ∧ 0 < d.rect.h) ∧
        p.Pairwise (fun d e => d.rect.areaOverlap e.rect = 0) ∧
        (p.map fun d => d.rect.area).sum = c.rect.area ∧
        (∀ x y, Mem c.rect x y → ∃ d ∈ p, Mem d.rect x y)) a.cells parts := by
  obtain ⟨a1, h1, _, ⟨parts, e, hp⟩, _⟩ := applyOp_spec env st a op hv hop
  rw [h1] at h
  injection h with h; injection h with e1 e2
  subst e1
  exact ⟨parts, e, hp.imp (fun c p ht => ⟨ht.nonempty, fun d hd => ⟨ht.inside d hd, ht.pos d hd⟩, ht.disjoint,
    ht.area, ht.cover⟩)⟩

/-- a new cell cannot lie inside two old cells that do not overlap ("inside exactly one old cell"). -/
theorem unique_parent (c1 c2 d : Rect α) (hw : 0 < d.w) (hh : 0 < d.h) (h1 : d.isInside c1 = true)
    (h2 : d.isInside c2 = true) : 0 < c1.areaOverlap c2 := by
  have hm := areaOverlap_mono d c1 d c2 h1 h2
  have hd : 0 < d.areaOverlap d := by
    rw [areaOverlap_pos_iff]
    simp only [max_self, min_self]
    exact ⟨xmin_lt_xmax d hw, ymin_lt_ymax d hh⟩
  exact lt_of_lt_of_le hd hm

/-- **area conserved**: every module keeps its allocated area — as a sum over the cells, and as reported by
    `area(m)` (including which modules are known). -/
theorem op_area (env : Env α) (st st' : Eps α) (a a' : Allocation α) (op : Op α) (hv : ValidAlloc st a)
    (hop : OpOK op) (h : applyOp env st a op = .ok (a', st')) (m : String) :
    areaSum m a'.cells = areaSum m a.cells ∧ a'.areaOf m = a.areaOf m := by
  obtain ⟨a1, h1, _, r1, s1⟩ := applyOp_spec env st a op hv hop
  rw [h1] at h
  injection h with h; injection h with e1 e2
  subst e1
  exact ⟨areaSum_refines m r1, by unfold Allocation.areaOf; rw [s1]⟩

/-- **first moment conserved**, hence the centre of mass: `Σ ratio·area·centre` is unchanged and `center(m)`
    returns the same point. -/
theorem op_moment (env : Env α) (st st' : Eps α) (a a' : Allocation α) (op : Op α) (hv : ValidAlloc st a)
    (hop : OpOK op) (h : applyOp env st a op = .ok (a', st')) (m : String) :
    momXSum m a'.cells = momXSum m a.cells ∧ momYSum m a'.cells = momYSum m a.cells ∧
      a'.centerOf m = a.centerOf m := by
  obtain ⟨a1, h1, _, r1, s1⟩ := applyOp_spec env st a op hv hop
  rw [h1] at h
  injection h with h; injection h with e1 e2
  subst e1
  exact ⟨momXSum_refines m r1, momYSum_refines m r1, by unfold Allocation.centerOf; rw [s1]⟩

/-- the queries over lists of modules (`area([…])`, `center([…])`) are unchanged as well. -/
theorem op_area_center_lists (env : Env α) (st st' : Eps α) (a a' : Allocation α) (op : Op α) (hv : ValidAlloc st a)
    (hop : OpOK op) (h : applyOp env st a op = .ok (a', st')) (ms : List String) :
    a'.areaList ms = a.areaList ms ∧ a'.centerList ms = a.centerList ms := by
  obtain ⟨a1, h1, _, r1, s1⟩ := applyOp_spec env st a op hv hop
  rw [h1] at h
  injection h with h; injection h with e1 e2
  subst e1
  unfold Allocation.areaList Allocation.centerList Allocation.areaOf
  rw [s1]
  exact ⟨rfl, rfl⟩

/-- **inheritance**: every new cell carries exactly the occupancy map (and region / fixed / hard attributes) of
    an old cell that contains it. -/
theorem op_inherit (env : Env α) (st st' : Eps α) (a a' : Allocation α) (op : Op α) (hv : ValidAlloc st a)
    (hop : OpOK op) (h : applyOp env st a op = .ok (a', st')) :
    ∀ d ∈ a'.cells, ∃ c ∈ a.cells, d.alloc = c.alloc ∧ d.rect.isInside c.rect = true ∧
      d.rect.region = c.rect.region ∧ d.rect.fixed = c.rect.fixed ∧ d.rect.hard = c.rect.hard := by
  obtain ⟨a1, h1, _, r1, _⟩ := applyOp_spec env st a op hv hop
  rw [h1] at h
  injection h with h; injection h with e1 e2
  subst e1
  intro d hd
  obtain ⟨c, hc, x1, x2, _, _, x3⟩ := r1.mem d hd
  exact ⟨c, hc, x1, x2, x3⟩

/-- **cells of fixed modules are never cut**: the group of a fixed cell is the cell itself. -/
theorem op_fixed_uncut (env : Env α) (st st' : Eps α) (a a' : Allocation α) (op : Op α) (hv : ValidAlloc st a)
    (hop : OpOK op) (h : applyOp env st a op = .ok (a', st')) :
    ∃ parts : List (List (Cell α)), a'.cells = parts.flatten ∧
      List.Forall₂ (fun c p => TilesCell c p ∧ (c.rect.fixed = true → p = [c])) a.cells parts := by
  obtain ⟨a1, h1, _, ⟨parts, e, hp⟩, _⟩ := applyOp_spec env st a op hv hop
  rw [h1] at h
  injection h with h; injection h with e1 e2
  subst e1
  exact ⟨parts, e, hp.imp (fun c p ht => ⟨ht, ht.fixedKept⟩)⟩

/-! ### the read accessors (`num_rectangles`, `num_modules`, `allocation_rectangle`, `allocation_module`,
      `check_compatible`) -/

/-- `allocation_rectangle(i)` is Python list indexing guarded by `assert i < num_rectangles`: indices `0 … n−1` give the
    cells in order, `−1 … −n` count from the end, `i ≥ n` fails the assertion and `i < −n` is an `IndexError`. -/
theorem allocationRectangle_spec (a : Allocation α) (i : Int) :
    ((a.numRectangles : Int) ≤ i → a.allocationRectangle i = .error .assertion) ∧
    (i < -(a.numRectangles : Int) → a.allocationRectangle i = .error .index) ∧
    (∀ k : Nat, i = (k : Int) → k < a.numRectangles → a.allocationRectangle i = (a.cells[k]?.elim (.error .index) .ok) ∧
      a.cells[k]?.isSome = true) ∧
    (∀ k : Nat, i = -((k : Int) + 1) → k < a.numRectangles →
      a.allocationRectangle i = (a.cells[a.numRectangles - 1 - k]?.elim (.error .index) .ok) ∧
      a.cells[a.numRectangles - 1 - k]?.isSome = true) := by
  unfold Allocation.allocationRectangle Allocation.numRectangles
  refine ⟨?_, ?_, ?_, ?_⟩
  · intro h
    simp only [not_lt.mpr h, not_false_eq_true, ↓reduceIte]
  · intro h
    have h1 : i < (a.cells.length : Int) := by omega
    simp only [h1, not_true_eq_false, ↓reduceIte, h]
  · intro k hk hlt
    subst hk
    have h1 : ((k : Int) < (a.cells.length : Int)) := by omega
    have h2 : ¬ ((k : Int) < -(a.cells.length : Int)) := by omega
    have h3 : ¬ ((k : Int) < 0) := by omega
    simp only [h1, not_true_eq_false, ↓reduceIte, h2, h3, Int.toNat_natCast]
    rw [List.getElem?_eq_getElem hlt]
    exact ⟨rfl, rfl⟩
  · intro k hk hlt
    subst hk
    have h1 : (-((k : Int) + 1) < (a.cells.length : Int)) := by omega
    have h2 : ¬ (-((k : Int) + 1) < -(a.cells.length : Int)) := by omega
    have h3 : (-((k : Int) + 1) < 0) := by omega
    have h4 : ((a.cells.length : Int) + -((k : Int) + 1)).toNat = a.cells.length - 1 - k := by omega
    have h5 : a.cells.length - 1 - k < a.cells.length := by omega
    simp only [h1, not_true_eq_false, ↓reduceIte, h2, h3, h4]
    rw [List.getElem?_eq_getElem h5]
    exact ⟨rfl, rfl⟩

/-- **`allocation_module` and `allocation_rectangle` agree** (the two indexes `_module2rect` / `_allocations` of the
    object): `allocation_module(m)` fails exactly on names no cell lists; otherwise every entry `(i, r)` points to a cell
    `allocation_rectangle(i)` that lists `m` with ratio `r`, every cell listing `m` has its entry, the indices are
    strictly increasing, and the ratios are the ones `area(m)` sums (`entries`). -/
theorem allocationModule_consistent (a : Allocation α) (m : String) :
    (m ∉ modules a.cells → a.allocationModule m = .error .key) ∧
    (m ∈ modules a.cells → a.allocationModule m = .ok (moduleAllocs m a.cells)) ∧
    (∀ p ∈ moduleAllocs m a.cells, ∃ c, a.cells[p.1]? = some c ∧ a.allocationRectangle (p.1 : Int) = .ok c ∧
      c.alloc.lookup m = some p.2) ∧
    (∀ (i : Nat) (c : Cell α) (r : α), a.cells[i]? = some c → c.alloc.lookup m = some r → (i, r) ∈ moduleAllocs m a.cells) ∧
    (moduleAllocs m a.cells).Pairwise (fun p q => p.1 < q.1) ∧
    (moduleAllocs m a.cells).map Prod.snd = (entries m a.cells).map Prod.snd := by
  refine ⟨?_, ?_, ?_, ?_, ?_, ?_⟩
  · intro h
    unfold Allocation.allocationModule
    have : (modules a.cells).contains m = false := by simpa using h
    rw [this]; rfl
  · intro h
    unfold Allocation.allocationModule
    have : (modules a.cells).contains m = true := by simpa using h
    rw [this]; rfl
  · intro p hp
    unfold moduleAllocs at hp
    obtain ⟨⟨c, i⟩, hci, hlk⟩ := List.mem_filterMap.mp hp
    have hget : a.cells[i]? = some c := List.mem_zipIdx_iff_getElem?.mp hci
    simp only [Option.map_eq_some_iff] at hlk
    obtain ⟨occ, ho, rfl⟩ := hlk
    have hlt : i < a.cells.length := by
      by_contra hge
      rw [List.getElem?_eq_none (by omega)] at hget; cases hget
    refine ⟨c, hget, ?_, ho⟩
    obtain ⟨h1, _⟩ := (allocationRectangle_spec a (i : Int)).2.2.1 i rfl hlt
    rw [h1, hget]; rfl
  · intro i c r hget hlk
    unfold moduleAllocs
    refine List.mem_filterMap.mpr ⟨(c, i), List.mem_zipIdx_iff_getElem?.mpr hget, ?_⟩
    simp [hlk]
  · unfold moduleAllocs
    generalize a.cells = cs
    suffices h : ∀ (k : Nat), ((cs.zipIdx k).filterMap fun (x : Cell α × Nat) => (x.1.alloc.lookup m).map fun occ => (x.2, occ)).Pairwise
        (fun p q => p.1 < q.1) ∧ ∀ p ∈ ((cs.zipIdx k).filterMap fun (x : Cell α × Nat) => (x.1.alloc.lookup m).map fun occ => (x.2, occ)), k ≤ p.1 from (h 0).1
    induction cs with
    | nil => intro k; simp
    | cons c cs ih =>
      intro k
      obtain ⟨ih1, ih2⟩ := ih (k + 1)
      rw [List.zipIdx_cons, List.filterMap_cons]
      cases hl : c.alloc.lookup m with
      | none =>
        simp only [Option.map_none]
        exact ⟨ih1, fun p hp => by have := ih2 p hp; omega⟩
      | some occ =>
        simp only [Option.map_some, List.pairwise_cons, List.mem_cons]
        refine ⟨⟨fun q hq => by have := ih2 q hq; omega, ih1⟩, ?_⟩
        intro p hp
        rcases hp with rfl | hp
        · exact le_refl _
        · have := ih2 p hp; omega
  · unfold moduleAllocs entries
    generalize a.cells = cs
    suffices h : ∀ (k : Nat), ((cs.zipIdx k).filterMap fun (x : Cell α × Nat) => (x.1.alloc.lookup m).map fun occ => (x.2, occ)).map Prod.snd =
        (cs.filterMap fun c => (c.alloc.lookup m).map fun occ => (c.rect, occ)).map Prod.snd from h 0
    induction cs with
    | nil => intro k; simp
    | cons c cs ih =>
      intro k
      rw [List.zipIdx_cons, List.filterMap_cons, List.filterMap_cons]
      cases hl : c.alloc.lookup m with
      | none => simp only [Option.map_none]; exact ih (k + 1)
      | some occ => simp only [Option.map_some, List.map_cons, List.cons.injEq, true_and]; exact ih (k + 1)

/-- **no operation changes which modules are allocated**: the dictionary keys (`modules`), hence `num_modules`, the verdict
    of `check_compatible` against any netlist, and the set of names `allocation_module` accepts, are those of the input. -/
theorem op_keeps_modules (env : Env α) (st st' : Eps α) (a a' : Allocation α) (op : Op α) (hv : ValidAlloc st a)
    (hop : OpOK op) (h : applyOp env st a op = .ok (a', st')) :
    modules a'.cells = modules a.cells ∧ a'.numModules = a.numModules ∧
      (∀ names, a'.checkCompatible names = a.checkCompatible names) ∧
      (∀ m, a'.allocationModule m = .error .key ↔ a.allocationModule m = .error .key) := by
  obtain ⟨a1, h1, _, r1, _⟩ := applyOp_spec env st a op hv hop
  rw [h1] at h
  injection h with h; injection h with e1 e2
  subst e1
  have hm := modules_refines r1
  refine ⟨hm, by unfold Allocation.numModules; rw [hm], fun names => by unfold Allocation.checkCompatible; rw [hm], ?_⟩
  intro m
  unfold Allocation.allocationModule
  rw [hm]
  by_cases hc : (modules a.cells).contains m = true
  · simp [hc]
  · simp [hc]

/-- `check_compatible` answers set equality of the two name sets. -/
theorem checkCompatible_iff (a : Allocation α) (names : List String) :
    a.checkCompatible names = true ↔ ∀ n, n ∈ names ↔ n ∈ modules a.cells := by
  unfold Allocation.checkCompatible
  simp only [Bool.and_eq_true, List.all_eq_true, List.contains_iff_mem]
  constructor
  · intro ⟨h1, h2⟩ n; exact ⟨h1 n, h2 n⟩
  · intro h; exact ⟨fun n hn => (h n).mp hn, fun n hn => (h n).mpr hn⟩

/-! ### any composition -/

/-- **any composition of the three operations** succeeds on a valid allocation and conserves everything:
    validity, the region cell by cell (`Refines`: tiling, inheritance, fixed cells kept), the caches
    `_areas / _centers` literally, and the per-module sums. -/
theorem ops_conserve (env : Env α) (st : Eps α) (ops : List (Op α)) (a : Allocation α) (hv : ValidAlloc st a)
    (hops : ∀ op ∈ ops, OpOK op) :
    ∃ a', applyOps env ops st a = .ok (a', st) ∧ ValidAlloc st a' ∧ Refines a.cells a'.cells ∧
      a'.stats = a.stats ∧
      ∀ m, areaSum m a'.cells = areaSum m a.cells ∧ momXSum m a'.cells = momXSum m a.cells ∧
        momYSum m a'.cells = momYSum m a.cells ∧ a'.areaOf m = a.areaOf m ∧ a'.centerOf m = a.centerOf m := by
  obtain ⟨a', h1, v1, r1, s1⟩ := applyOps_spec env st ops a hv hops
  refine ⟨a', h1, v1, r1, s1, fun m => ⟨areaSum_refines m r1, momXSum_refines m r1, momYSum_refines m r1, ?_, ?_⟩⟩
  · unfold Allocation.areaOf; rw [s1]
  · unfold Allocation.centerOf; rw [s1]

/-! ### histories on one object: operations interleaved with cells flagged fixed in place -/

/-- **flagging cells fixed in place keeps the allocation valid** — so every theorem of this file applies again to the
    object after `a.allocations[i].rect.fixed = True`. -/
theorem flag_fixed_valid (st : Eps α) (a : Allocation α) (idxs : List Nat) (hv : ValidAlloc st a) :
    ValidAlloc st (a.markFixed idxs) := markFixed_valid st a idxs hv

/-- **a cell flagged fixed in place is never cut afterwards**: whatever operation follows, the flagged cell — same
    rectangle, ratios and depth, now fixed — is a cell of the result.  (The decision is taken on the flags the object has
    WHEN THE OPERATION IS CALLED; nothing remembered from an earlier query may be used.) -/
theorem flagged_then_uncut (env : Env α) (st : Eps α) (a : Allocation α) (idxs : List Nat) (op : Op α)
    (hv : ValidAlloc st a) (hop : OpOK op) (i : Nat) (c : Cell α) (hi : i ∈ idxs) (hc : a.cells[i]? = some c) :
    ∃ a', applyOp env st (a.markFixed idxs) op = .ok (a', st) ∧
      ({ c with rect := { c.rect with fixed := true } } : Cell α) ∈ a'.cells := by
  have hv' := markFixed_valid st a idxs hv
  obtain ⟨a', h1, _, r1, _⟩ := applyOp_spec env st (a.markFixed idxs) op hv' hop
  refine ⟨a', h1, r1.fixed_kept _ ?_ rfl⟩
  have := markFixed_cells a idxs i
  rw [hc] at this
  have hcont : idxs.contains i = true := by simpa using hi
  simp only [Option.map_some, hcont, ↓reduceIte] at this
  exact List.mem_of_getElem? this

/-- **any history** of refinement operations and in-place flag changes on a valid allocation succeeds and conserves the
    caches `_areas / _centers` literally and the per-module sums (area and first moments). -/
theorem history_conserve (env : Env α) (st : Eps α) : ∀ (steps : List (HStep α)) (a : Allocation α), ValidAlloc st a →
    (∀ o, HStep.op o ∈ steps → OpOK o) →
    ∃ a', applyHist env steps st a = .ok (a', st) ∧ ValidAlloc st a' ∧ a'.stats = a.stats ∧
      ∀ m, areaSum m a'.cells = areaSum m a.cells ∧ momXSum m a'.cells = momXSum m a.cells ∧
        momYSum m a'.cells = momYSum m a.cells := by
  intro steps
  induction steps with
  | nil => intro a hv _; exact ⟨a, rfl, hv, rfl, fun m => ⟨rfl, rfl, rfl⟩⟩
  | cons s rest ih =>
    intro a hv hops
    cases s with
    | op o =>
      obtain ⟨a1, e1, v1, r1, s1⟩ := applyOp_spec env st a o hv (hops o (by simp))
      obtain ⟨a2, e2, v2, s2, h2⟩ := ih a1 v1 (fun o' ho' => hops o' (by simp [ho']))
      refine ⟨a2, by simp only [applyHist, e1, e2], v2, s2.trans s1, fun m => ?_⟩
      obtain ⟨x1, x2, x3⟩ := h2 m
      exact ⟨x1.trans (areaSum_refines m r1), x2.trans (momXSum_refines m r1), x3.trans (momYSum_refines m r1)⟩
    | fix idxs =>
      have hg := markFixed_sameGeo a idxs
      obtain ⟨a2, e2, v2, s2, h2⟩ := ih (a.markFixed idxs) (markFixed_valid st a idxs hv)
        (fun o' ho' => hops o' (by simp [ho']))
      refine ⟨a2, by simp only [applyHist, e2], v2, s2, fun m => ?_⟩
      obtain ⟨x1, x2, x3⟩ := h2 m
      refine ⟨x1.trans ?_, x2.trans ?_, x3.trans ?_⟩
      · exact forall2_sameGeo_sum hg _ (fun c c' hh => by rw [occ_sameGeo hh, hh.sides.2.2.2.2])
      · exact forall2_sameGeo_sum hg _ (fun c c' hh => by rw [occ_sameGeo hh, hh.sides.2.2.2.2, hh.1])
      · exact forall2_sameGeo_sum hg _ (fun c c' hh => by rw [occ_sameGeo hh, hh.sides.2.2.2.2, hh.2.1])

/-- what `Refines` gives for a single final cell and for fixed cells (unfolding of the relation). -/
theorem refines_unfold (cs cs' : List (Cell α)) (h : Refines cs cs') :
    (∀ d ∈ cs', ∃ c ∈ cs, d.alloc = c.alloc ∧ d.rect.isInside c.rect = true ∧ 0 < d.rect.w ∧ 0 < d.rect.h ∧
      d.rect.region = c.rect.region ∧ d.rect.fixed = c.rect.fixed ∧ d.rect.hard = c.rect.hard) ∧
    (∀ c ∈ cs, c.rect.fixed = true → c ∈ cs') :=
  ⟨h.mem, h.fixed_kept⟩

/-! ### non-vacuity: the hypotheses are met by concrete allocations over `ℚ`, and the theorems are applied to them

  `exRaw` (three cells: two modules / region `dsp` at depth 1 / an empty ratio map) and `exRawF` (three `Rectangle`
  objects, the second one flagged fixed with ratio 1) are defined in `FV/Proofs/Alloc.lean`; the constructor accepts
  both (kernel evaluation), hence both are `ValidAlloc` (`constructor_valid`). -/

/-- the constructor accepts `exRaw`, and what it returns satisfies `ValidAlloc` — the hypothesis of every theorem. -/
theorem ex_valid : ∃ a st, mkAllocation exEnv ⟨-1, -1⟩ exRaw = .ok (a, st) ∧ ValidAlloc st a := exRaw_valid

/-- the same for an allocation CONTAINING A FIXED CELL. -/
theorem ex_fixed_valid : ∃ a st, mkAllocation exEnv ⟨-1, -1⟩ exRawF = .ok (a, st) ∧ ValidAlloc st a := exRawF_valid

/-- `ops_conserve` applied: refine(1/2, 2) ∘ uniform ∘ griddify on `exRaw` (3 cells become 12, see below). -/
theorem ex_ops_conserve : ∃ a st a', mkAllocation exEnv ⟨-1, -1⟩ exRaw = .ok (a, st) ∧
    applyOps exEnv [.refine (1/2) 2, .uniform, .griddify] st a = .ok (a', st) ∧ ValidAlloc st a' ∧
    Refines a.cells a'.cells ∧ a'.stats = a.stats := by
  obtain ⟨a, st, h, hv⟩ := ex_valid
  obtain ⟨a', h1, v, r, s, _⟩ := ops_conserve exEnv st [.refine (1/2) 2, .uniform, .griddify] a hv
    (by intro op hop; simp at hop; rcases hop with rfl | rfl | rfl <;> simp [OpOK])
  exact ⟨a, st, a', h, h1, v, r, s⟩

/-- `op_fixed_uncut` applied to the allocation with a fixed cell, for each of the three operations
    (`refine(1, 1)` — the threshold the unrepaired code cut fixed cells with —, uniform depth (depths 1 and 0 differ,
    so it is not the identity), griddify). -/
theorem ex_fixed_uncut (op : Op ℚ) (hop : op = .refine 1 1 ∨ op = .uniform ∨ op = .griddify) :
    ∃ a st a', mkAllocation exEnv ⟨-1, -1⟩ exRawF = .ok (a, st) ∧ applyOp exEnv st a op = .ok (a', st) ∧
      (∃ c ∈ a.cells, c.rect.fixed = true) ∧ ∀ c ∈ a.cells, c.rect.fixed = true → c ∈ a'.cells := by
  obtain ⟨a, st, h, hv⟩ := ex_fixed_valid
  have hok : OpOK op := by rcases hop with rfl | rfl | rfl <;> simp [OpOK]
  obtain ⟨a', h1⟩ := op_ok exEnv st a op hv hok
  obtain ⟨parts, e, hp⟩ := op_fixed_uncut exEnv st st a a' op hv hok h1
  refine ⟨a, st, a', h, h1, ?_, ?_⟩
  · have hc : (match mkAllocation exEnv ⟨-1, -1⟩ exRawF with
        | .ok (a, _) => a.cells.any (fun c => c.rect.fixed) | .error _ => false) = true := by decide +kernel
    rw [h] at hc
    simpa using hc
  · exact (show Refines a.cells a'.cells from ⟨parts, e, hp.imp (fun _ _ h => h.1)⟩).fixed_kept

/-- the runs above are not the identity: cell counts before / after (kernel evaluation of the model). -/
example : (match mkAllocation exEnv ⟨-1, -1⟩ exRaw with
    | .ok (a, st) => (match applyOps exEnv [.refine (1/2) 2, .uniform, .griddify] st a with
        | .ok (a', _) => (a.cells.length, a'.cells.length) | .error _ => (0, 0))
    | .error _ => (0, 0)) = (3, 12) := by decide +kernel
example : (match mkAllocation exEnv ⟨-1, -1⟩ exRawF with
    | .ok (a, st) => (match applyOp exEnv st a .uniform with
        | .ok (a', _) => (a.cells.length, a'.cells.length, a'.cells.any (fun c => c.rect.fixed && c.depth == 0)) | .error _ => (0, 0, false))
    | .error _ => (0, 0, false)) = (3, 4, true) := by decide +kernel

/-- the exception of a result, if any (for the examples). -/
def errOf {β : Type} : Except AErr β → Option AErr | .ok _ => none | .error e => some e

/-- the read accessors on `exRaw` (3 cells, modules M1, M2; kernel evaluation of the model): counts, Python indexing
    (`-1` is the last cell, `3` fails the assertion, `-4` is an `IndexError`), the index / ratio pairs of `M2`, a name no
    cell lists, and `check_compatible` against equal / permuted / smaller / larger name sets. -/
example : (match mkAllocation exEnv ⟨-1, -1⟩ exRaw with
    | .ok (a, _) =>
      a.numRectangles == 3 && a.numModules == 2 && a.maxRefinementDepth.toOption == some 1 &&
      (a.allocationRectangle (-1)).toOption.map (·.depth) == some 0 &&
      (a.allocationRectangle 1).toOption.map (·.depth) == some 1 &&
      errOf (a.allocationRectangle 3) == some .assertion && errOf (a.allocationRectangle (-4)) == some .index &&
      (a.allocationModule "M2").toOption == some [(0, 1/4), (1, 3/4)] && errOf (a.allocationModule "nope") == some .key &&
      a.checkCompatible ["M1", "M2"] && a.checkCompatible ["M2", "M1", "M2"] && !a.checkCompatible ["M1"] &&
      !a.checkCompatible ["M1", "M2", "M3"]
    | .error _ => false) = true := by decide +kernel

/-- `op_keeps_modules` applied: after `refine(1/2, 2)` on `exRaw` the allocation is still compatible with exactly the
    netlists it was compatible with, and `allocationModule_consistent` has its premises met (`M2` is listed). -/
example : ∃ a st b, mkAllocation exEnv ⟨-1, -1⟩ exRaw = .ok (a, st) ∧ applyOp exEnv st a (.refine (1/2) 2) = .ok (b, st) ∧
    (∀ names, b.checkCompatible names = a.checkCompatible names) ∧ b.numModules = a.numModules ∧
    b.allocationModule "M2" = .ok (moduleAllocs "M2" b.cells) := by
  obtain ⟨a, st, h, hv⟩ := ex_valid
  obtain ⟨b, hb⟩ := op_ok exEnv st a (.refine (1/2) 2) hv (by norm_num [OpOK])
  obtain ⟨hm, hn, hc, _⟩ := op_keeps_modules exEnv st st a b (.refine (1/2) 2) hv (by norm_num [OpOK]) hb
  refine ⟨a, st, b, h, hb, hc, hn, (allocationModule_consistent b "M2").2.1 ?_⟩
  rw [hm]
  have hc2 : (match mkAllocation exEnv ⟨-1, -1⟩ exRaw with
      | .ok (a, _) => decide ("M2" ∈ modules a.cells) | .error _ => false) = true := by decide +kernel
  rw [h] at hc2
  simpa using hc2

/-- `flagged_then_uncut` / `history_conserve` applied to `exRaw`: the first cell (ratios 1/2, 1/4 — it WOULD be split at
    threshold 1/2, and `must_be_refined(1/2)` says so) is flagged fixed in place, then `refine(1/2, 1)` keeps it whole and,
    no other cell qualifying, returns the same 3 cells (kernel evaluation of the model for the counts). -/
example : ∃ a st b, mkAllocation exEnv ⟨-1, -1⟩ exRaw = .ok (a, st) ∧ mustBeRefined a (1/2) = true ∧
    applyHist exEnv [.fix [0], .op (.refine (1/2) 1)] st a = .ok (b, st) ∧ ValidAlloc st b ∧ b.stats = a.stats := by
  obtain ⟨a, st, h, hv⟩ := ex_valid
  obtain ⟨b, h1, h2, h3, _⟩ := history_conserve exEnv st [.fix [0], .op (.refine (1/2) 1)] a hv
    (by intro o ho; simp at ho; subst ho; norm_num [OpOK])
  refine ⟨a, st, b, h, ?_, h1, h2, h3⟩
  have hc : (match mkAllocation exEnv ⟨-1, -1⟩ exRaw with
      | .ok (a, _) => mustBeRefined a (1/2) | .error _ => false) = true := by decide +kernel
  rw [h] at hc; exact hc

example : (match mkAllocation exEnv ⟨-1, -1⟩ exRaw with
    | .ok (a, st) => (match applyHist exEnv [.fix [0], .op (.refine (1/2) 1)] st a with
        | .ok (b, _) => b.cells.length == 3 && b.cells.any (fun c => c.rect.fixed && decide (c.rect.w = 2) && c.depth == 0) &&
            !mustBeRefined b (1/2)
        | .error _ => false)
    | .error _ => false) = true := by decide +kernel

end FV.C02

import FV.Proofs.Alloc
/-
  C02 — Refining an allocation conserves tiling, module area and centroid.
  Property theorems only (helper lemmas live in `FV/Proofs/Alloc.lean`; spec definitions used here:
  `ValidAlloc`, `CellsOK`, `Refines`, `TilesCell`, `areaSum`, `momXSum`, `momYSum`, `OpOK`, the witnesses `exRaw`, `exRawF` from that file,
  `Mem` from `FV/Props/C18.lean`).
  All statements are over an arbitrary linearly ordered field `α` (exact arithmetic); `Rat`, at which the
  driver `drv_alloc` executes the very same definitions, is one.  `env` (the literals `1e-12`, `0.01`,
  `math.sqrt`) is arbitrary; `st` is the class-wide tolerance state, defined (`ValidAlloc` says so).
  The model is the code with `fixes/C02_fixed_cells_cut.diff`, `fixes/C02_griddify_yloop.diff` and
  `fixes/C12_must_be_refined_guard.diff` applied.
-/
namespace FV.C02
open FV FV.Alloc FV.Rect FV.C18
set_option linter.unusedSectionVars false
set_option linter.unusedSimpArgs false
set_option linter.unusedVariables false

variable {α : Type} [Field α] [LinearOrder α] [IsStrictOrderedRing α]

/-! ### valid allocations are what the constructor returns -/

/-- whatever the constructor returns is a valid allocation in the state it leaves behind
    (`RawPos`: the `Rectangle` objects passed in are proper rectangles, which `Rectangle.__init__` asserts). -/
theorem constructor_valid (env : Env α) (st : Eps α) (raw : List (RawCell α)) (a : Allocation α) (st' : Eps α)
    (hraw : ∀ rc ∈ raw, RawPos rc) (hst : 0 ≤ st.dist → 0 ≤ st.area) (htiny : 0 ≤ env.tiny)
    (hsqrt : ∀ x, 0 ≤ env.sqrt x) (h : mkAllocation env st raw = .ok (a, st')) : ValidAlloc st' a :=
  mkAllocation_valid env st raw a st' hraw hst htiny hsqrt h

/-- `area(m)` and `center(m)` of a valid allocation are `Σ ratio·area` and `Σ ratio·area·centre / Σ ratio·area`
    over its cells; unknown modules give `KeyError`. -/
theorem area_center_eq_sums (st : Eps α) (a : Allocation α) (hv : ValidAlloc st a) (m : String) :
    (m ∈ modules a.cells → a.areaOf m = some (areaSum m a.cells) ∧ areaSum m a.cells ≠ 0 ∧
      a.centerOf m = some (momXSum m a.cells / areaSum m a.cells, momYSum m a.cells / areaSum m a.cells)) ∧
    (m ∉ modules a.cells → a.areaOf m = none ∧ a.centerOf m = none) :=
  ⟨fun hm => ⟨((hv.caches m).1 hm).1, hv.cells.areaNZ m hm, ((hv.caches m).1 hm).2⟩, (hv.caches m).2⟩

/-- `area([m₁, …])` of known modules is the plain sum of the per-module areas: Python's compensated `sum()`
    (`pySum`, Neumaier) is the ordinary sum in exact arithmetic. -/
theorem area_list_eq_sum (st : Eps α) (a : Allocation α) (hv : ValidAlloc st a) (ms : List String)
    (hms : ∀ m ∈ ms, m ∈ modules a.cells) :
    a.areaList ms = .ok ((ms.map fun m => areaSum m a.cells).sum) := by
  unfold Allocation.areaList
  rw [mapE_eq_map _ (fun m => areaSum m a.cells) ms]
  · simp only [pySum_eq_sum]
  · intro m hm
    rw [((hv.caches m).1 (hms m hm)).1]

/-! ### each operation -/

/-- **the operation succeeds on every valid allocation** (and leaves the tolerances alone). -/
theorem op_ok (env : Env α) (st : Eps α) (a : Allocation α) (op : Op α) (hv : ValidAlloc st a) (hop : OpOK op) :
    ∃ a', applyOp env st a op = .ok (a', st) := by
  obtain ⟨a', h, _⟩ := applyOp_spec env st a op hv hop
  exact ⟨a', h⟩

/-- **the result is a valid allocation**: proper cells in the positive quadrant, pairwise overlap within the
    area tolerance, admissible ratios, consistent caches. -/
theorem op_valid (env : Env α) (st st' : Eps α) (a a' : Allocation α) (op : Op α) (hv : ValidAlloc st a) (hop : OpOK op)
    (h : applyOp env st a op = .ok (a', st')) : st' = st ∧ ValidAlloc st a' := by
  obtain ⟨a1, h1, v1, _⟩ := applyOp_spec env st a op hv hop
  rw [h1] at h
  injection h with h; injection h with e1 e2
  subst e1; subst e2
  exact ⟨rfl, v1⟩

/-- … and if the original cells do not overlap at all, neither do the new ones. -/
theorem op_no_overlap (env : Env α) (st st' : Eps α) (a a' : Allocation α) (op : Op α) (hv : ValidAlloc st a)
    (hop : OpOK op) (h : applyOp env st a op = .ok (a', st'))
    (h0 : a.cells.Pairwise (fun c d => c.rect.areaOverlap d.rect = 0)) :
    a'.cells.Pairwise (fun c d => c.rect.areaOverlap d.rect = 0) := by
  obtain ⟨a1, h1, _, r1, _⟩ := applyOp_spec env st a op hv hop
  rw [h1] at h
  injection h with h; injection h with e1 e2
  subst e1
  have := r1.pairwise 0 (le_refl _) (h0.imp (fun h => le_of_eq h))
  exact this.imp (fun h => le_antisymm h (areaOverlap_nonneg _ _))

/-- **same region**: the new cell list is the concatenation, in order, of one group of cells per old cell; each
    group consists of proper rectangles inside the old cell, pairwise non-overlapping, whose areas add up to
    the old cell's and which cover every point of it. -/
theorem op_sameRegion (env : Env α) (st st' : Eps α) (a a' : Allocation α) (op : Op α) (hv : ValidAlloc st a)
    (hop : OpOK op) (h : applyOp env st a op = .ok (a', st')) :
    ∃ parts : List (List (Cell α)), a'.cells = parts.flatten ∧
      List.Forall₂ (fun c p => p ≠ [] ∧ (∀ d ∈ p, d.rect.isInside c.rect = true ∧ 0 < d.rect.w ∧ 0 < d.rect.h) ∧
        p.Pairwise (fun d e => d.rect.areaOverlap e.rect = 0) ∧
        (p.map fun d => d.rect.area).sum = c.rect.area ∧
        (∀ x y, Mem c.rect x y → ∃ d ∈ p, Mem d.rect x y)) a.cells parts := by
  obtain ⟨a1, h1, _, ⟨parts, e, hp⟩, _⟩ := applyOp_spec env st a op hv hop
  rw [h1] at h
  injection h with h; injection h with e1 e2
  subst e1
  exact ⟨parts, e, hp.imp (fun c p ht => ⟨ht.nonempty, fun d hd => ⟨ht.inside d hd, ht.pos d hd⟩, ht.disjoint,
    ht.area, ht.cover⟩)⟩

/-- a new cell cannot lie inside two old cells that do not overlap ("inside exactly one old cell"). -/
theorem unique_parent (c1 c2 d : Rect α) (hw : 0 < d.w) (hh : 0 < d.h) (h1 : d.isInside c1 = true)
    (h2 : d.isInside c2 = true) : 0 < c1.areaOverlap c2 := by
  have hm := areaOverlap_mono d c1 d c2 h1 h2
  have hd : 0 < d.areaOverlap d := by
    rw [areaOverlap_pos_iff]
    simp only [max_self, min_self]
    exact ⟨xmin_lt_xmax d hw, ymin_lt_ymax d hh⟩
  exact lt_of_lt_of_le hd hm

/-- **area conserved**: every module keeps its allocated area — as a sum over the cells, and as reported by
    `area(m)` (including which modules are known). -/
theorem op_area (env : Env α) (st st' : Eps α) (a a' : Allocation α) (op : Op α) (hv : ValidAlloc st a)
    (hop : OpOK op) (h : applyOp env st a op = .ok (a', st')) (m : String) :
    areaSum m a'.cells = areaSum m a.cells ∧ a'.areaOf m = a.areaOf m := by
  obtain ⟨a1, h1, _, r1, s1⟩ := applyOp_spec env st a op hv hop
  rw [h1] at h
  injection h with h; injection h with e1 e2
  subst e1
  exact ⟨areaSum_refines m r1, by unfold Allocation.areaOf; rw [s1]⟩

/-- **first moment conserved**, hence the centre of mass: `Σ ratio·area·centre` is unchanged and `center(m)`
    returns the same point. -/
theorem op_moment (env : Env α) (st st' : Eps α) (a a' : Allocation α) (op : Op α) (hv : ValidAlloc st a)
    (hop : OpOK op) (h : applyOp env st a op = .ok (a', st')) (m : String) :
    momXSum m a'.cells = momXSum m a.cells ∧ momYSum m a'.cells = momYSum m a.cells ∧
      a'.centerOf m = a.centerOf m := by
  obtain ⟨a1, h1, _, r1, s1⟩ := applyOp_spec env st a op hv hop
  rw [h1] at h
  injection h with h; injection h with e1 e2
  subst e1
  exact ⟨momXSum_refines m r1, momYSum_refines m r1, by unfold Allocation.centerOf; rw [s1]⟩

/-- the queries over lists of modules (`area([…])`, `center([…])`) are unchanged as well. -/
theorem op_area_center_lists (env : Env α) (st st' : Eps α) (a a' : Allocation α) (op : Op α) (hv : ValidAlloc st a)
    (hop : OpOK op) (h : applyOp env st a op = .ok (a', st')) (ms : List String) :
    a'.areaList ms = a.areaList ms ∧ a'.centerList ms = a.centerList ms := by
  obtain ⟨a1, h1, _, r1, s1⟩ := applyOp_spec env st a op hv hop
  rw [h1] at h
  injection h with h; injection h with e1 e2
  subst e1
  unfold Allocation.areaList Allocation.centerList Allocation.areaOf
  rw [s1]
  exact ⟨rfl, rfl⟩

/-- **inheritance**: every new cell carries exactly the occupancy map (and region / fixed / hard attributes) of
    an old cell that contains it. -/
theorem op_inherit (env : Env α) (st st' : Eps α) (a a' : Allocation α) (op : Op α) (hv : ValidAlloc st a)
    (hop : OpOK op) (h : applyOp env st a op = .ok (a', st')) :
    ∀ d ∈ a'.cells, ∃ c ∈ a.cells, d.alloc = c.alloc ∧ d.rect.isInside c.rect = true ∧
      d.rect.region = c.rect.region ∧ d.rect.fixed = c.rect.fixed ∧ d.rect.hard = c.rect.hard := by
  obtain ⟨a1, h1, _, r1, _⟩ := applyOp_spec env st a op hv hop
  rw [h1] at h
  injection h with h; injection h with e1 e2
  subst e1
  intro d hd
  obtain ⟨c, hc, x1, x2, _, _, x3⟩ := r1.mem d hd
  exact ⟨c, hc, x1, x2, x3⟩

/-- **cells of fixed modules are never cut**: the group of a fixed cell is the cell itself. -/
theorem op_fixed_uncut (env : Env α) (st st' : Eps α) (a a' : Allocation α) (op : Op α) (hv : ValidAlloc st a)
    (hop : OpOK op) (h : applyOp env st a op = .ok (a', st')) :
    ∃ parts : List (List (Cell α)), a'.cells = parts.flatten ∧
      List.Forall₂ (fun c p => TilesCell c p ∧ (c.rect.fixed = true → p = [c])) a.cells parts := by
  obtain ⟨a1, h1, _, ⟨parts, e, hp⟩, _⟩ := applyOp_spec env st a op hv hop
  rw [h1] at h
  injection h with h; injection h with e1 e2
  subst e1
  exact ⟨parts, e, hp.imp (fun c p ht => ⟨ht, ht.fixedKept⟩)⟩

/-! ### any composition -/

/-- **any composition of the three operations** succeeds on a valid allocation and conserves everything:
    validity, the region cell by cell (`Refines`: tiling, inheritance, fixed cells kept), the caches
    `_areas / _centers` literally, and the per-module sums. -/
theorem ops_conserve (env : Env α) (st : Eps α) (ops : List (Op α)) (a : Allocation α) (hv : ValidAlloc st a)
    (hops : ∀ op ∈ ops, OpOK op) :
    ∃ a', applyOps env ops st a = .ok (a', st) ∧ ValidAlloc st a' ∧ Refines a.cells a'.cells ∧
      a'.stats = a.stats ∧
      ∀ m, areaSum m a'.cells = areaSum m a.cells ∧ momXSum m a'.cells = momXSum m a.cells ∧
        momYSum m a'.cells = momYSum m a.cells ∧ a'.areaOf m = a.areaOf m ∧ a'.centerOf m = a.centerOf m := by
  obtain ⟨a', h1, v1, r1, s1⟩ := applyOps_spec env st ops a hv hops
  refine ⟨a', h1, v1, r1, s1, fun m => ⟨areaSum_refines m r1, momXSum_refines m r1, momYSum_refines m r1, ?_, ?_⟩⟩
  · unfold Allocation.areaOf; rw [s1]
  · unfold Allocation.centerOf; rw [s1]

/-- what `Refines` gives for a single final cell and for fixed cells (unfolding of the relation). -/
theorem refines_unfold (cs cs' : List (Cell α)) (h : Refines cs cs') :
    (∀ d ∈ cs', ∃ c ∈ cs, d.alloc = c.alloc ∧ d.rect.isInside c.rect = true ∧ 0 < d.rect.w ∧ 0 < d.rect.h ∧
      d.rect.region = c.rect.region ∧ d.rect.fixed = c.rect.fixed ∧ d.rect.hard = c.rect.hard) ∧
    (∀ c ∈ cs, c.rect.fixed = true → c ∈ cs') :=
  ⟨h.mem, h.fixed_kept⟩

/-! ### non-vacuity: the hypotheses are met by concrete allocations over `ℚ`, and the theorems are applied to them

  `exRaw` (three cells: two modules / region `dsp` at depth 1 / an empty ratio map) and `exRawF` (three `Rectangle`
  objects, the second one flagged fixed with ratio 1) are defined in `FV/Proofs/Alloc.lean`; the constructor accepts
  both (kernel evaluation), hence both are `ValidAlloc` (`constructor_valid`). -/

/-- the constructor accepts `exRaw`, and what it returns satisfies `ValidAlloc` — the hypothesis of every theorem. -/
theorem ex_valid : ∃ a st, mkAllocation exEnv ⟨-1, -1⟩ exRaw = .ok (a, st) ∧ ValidAlloc st a := exRaw_valid

/-- the same for an allocation CONTAINING A FIXED CELL. -/
theorem ex_fixed_valid : ∃ a st, mkAllocation exEnv ⟨-1, -1⟩ exRawF = .ok (a, st) ∧ ValidAlloc st a := exRawF_valid

/-- `ops_conserve` applied: refine(1/2, 2) ∘ uniform ∘ griddify on `exRaw` (3 cells become 12, see below). -/
theorem ex_ops_conserve : ∃ a st a', mkAllocation exEnv ⟨-1, -1⟩ exRaw = .ok (a, st) ∧
    applyOps exEnv [.refine (1/2) 2, .uniform, .griddify] st a = .ok (a', st) ∧ ValidAlloc st a' ∧
    Refines a.cells a'.cells ∧ a'.stats = a.stats := by
  obtain ⟨a, st, h, hv⟩ := ex_valid
  obtain ⟨a', h1, v, r, s, _⟩ := ops_conserve exEnv st [.refine (1/2) 2, .uniform, .griddify] a hv
    (by intro op hop; simp at hop; rcases hop with rfl | rfl | rfl <;> simp [OpOK])
  exact ⟨a, st, a', h, h1, v, r, s⟩

/-- `op_fixed_uncut` applied to the allocation with a fixed cell, for each of the three operations
    (`refine(1, 1)` — the threshold the unrepaired code cut fixed cells with —, uniform depth (depths 1 and 0 differ,
    so it is not the identity), griddify). -/
theorem ex_fixed_uncut (op : Op ℚ) (hop : op = .refine 1 1 ∨ op = .uniform ∨ op = .griddify) :
    ∃ a st a', mkAllocation exEnv ⟨-1, -1⟩ exRawF = .ok (a, st) ∧ applyOp exEnv st a op = .ok (a', st) ∧
      (∃ c ∈ a.cells, c.rect.fixed = true) ∧ ∀ c ∈ a.cells, c.rect.fixed = true → c ∈ a'.cells := by
  obtain ⟨a, st, h, hv⟩ := ex_fixed_valid
  have hok : OpOK op := by rcases hop with rfl | rfl | rfl <;> simp [OpOK]
  obtain ⟨a', h1⟩ := op_ok exEnv st a op hv hok
  obtain ⟨parts, e, hp⟩ := op_fixed_uncut exEnv st st a a' op hv hok h1
  refine ⟨a, st, a', h, h1, ?_, ?_⟩
  · have hc : (match mkAllocation exEnv ⟨-1, -1⟩ exRawF with
        | .ok (a, _) => a.cells.any (fun c => c.rect.fixed) | .error _ => false) = true := by decide +kernel
    rw [h] at hc
    simpa using hc
  · exact (show Refines a.cells a'.cells from ⟨parts, e, hp.imp (fun _ _ h => h.1)⟩).fixed_kept

/-- the runs above are not the identity: cell counts before / after (kernel evaluation of the model). -/
example : (match mkAllocation exEnv ⟨-1, -1⟩ exRaw with
    | .ok (a, st) => (match applyOps exEnv [.refine (1/2) 2, .uniform, .griddify] st a with
        | .ok (a', _) => (a.cells.length, a'.cells.length) | .error _ => (0, 0))
    | .error _ => (0, 0)) = (3, 12) := by decide +kernel
example : (match mkAllocation exEnv ⟨-1, -1⟩ exRawF with
    | .ok (a, st) => (match applyOp exEnv st a .uniform with
        | .ok (a', _) => (a.cells.length, a'.cells.length, a'.cells.any (fun c => c.rect.fixed && c.depth == 0)) | .error _ => (0, 0, false))
    | .error _ => (0, 0, false)) = (3, 4, true) := by decide +kernel

end FV.C02

import FV.Proofs.Stog
import FV.Proofs.StogInst
/-
  C06 — Single-trunk orthogon (STOG) recognition is sound and complete.
  Property theorems only (helper lemmas live in `FV/Proofs/Stog.lean`).  The model is `FV/Model/Stog.lean`
  (`create_stog` as repaired by `fixes/C06_trunk_identity.diff`).  All statements are over an arbitrary linearly
  ordered field `α`; `ε` / `εA` are `Rectangle.distance_epsilon()` / `Rectangle.area_epsilon()`.

  How to read the theorems.  `createStog_true_iff` (and `IsTrunk`) is phrased through the model's own `findLocation`:
  on its own it says that the candidate loop is an exact "∃ trunk" search, not what a location means.  The geometric
  reading comes from `findLocation_iff` (`findLocation = s ↔ Abuts ε s t r ∧ areaOverlap ≤ εA`, `Abuts` being an
  independent definition) and from the two composed theorems `createStog_branches_abut` (soundness) and
  `createStog_complete` (completeness).

  The hypothesis `WF` (every side of every rectangle `> 2ε`, `ε` the tolerance IN FORCE, which is class-wide) is
  necessary, not cosmetic: for a thinner rectangle an earlier `elif` of `find_location` pre-empts the right side.
  Example (ε = 1/8, εA = 1/4): trunk `⟨2,1,4,2⟩`, branch `⟨9/2, 2+1/32, 1, 1/8⟩` abuts EAST within the extent and
  overlaps nothing, but its bottom side is within ε of the trunk's top side, so the NORTH test fires first and the
  extent check then answers NO_POLYGON (kernel-checked example at the end of the file).  Recognition is therefore
  complete only for rectangles whose sides exceed twice the distance tolerance; in FRAME `ε = 1e-12 ×` the smallest
  dimension of the first design loaded.
-/
namespace FV.C06
open FV FV.Rect FV.Stog
set_option linter.unusedSectionVars false
set_option linter.unusedSimpArgs false
set_option linter.unusedVariables false

variable {α : Type} [Field α] [LinearOrder α] [IsStrictOrderedRing α]

/-- `r` abuts side `s` of `t`: the facing sides are closer than `ε` and `r` stays within the extent of that side
    (with `ε` slack).  No rectangle "abuts" the roles TRUNK / NO_POLYGON. -/
def Abuts (ε : α) (s : Loc) (t r : Rect α) : Prop :=
  match s with
  | .north => |t.ymax - r.ymin| < ε ∧ t.xmin - ε < r.xmin ∧ r.xmax < t.xmax + ε
  | .south => |t.ymin - r.ymax| < ε ∧ t.xmin - ε < r.xmin ∧ r.xmax < t.xmax + ε
  | .east => |t.xmax - r.xmin| < ε ∧ t.ymin - ε < r.ymin ∧ r.ymax < t.ymax + ε
  | .west => |t.xmin - r.xmax| < ε ∧ t.ymin - ε < r.ymin ∧ r.ymax < t.ymax + ε
  | _ => False

/-- well-formed input: the sides of every rectangle exceed `2ε` (in FRAME `ε` is `1e-12 ×` the smallest side). -/
def WF (ε : α) (rs : List (Rect α)) : Prop := ∀ r ∈ rs, 2 * ε < r.w ∧ 2 * ε < r.h ∧ 0 < r.w ∧ 0 < r.h

/-! ### `find_location` -/

/-- **`find_location` is exact**: it answers side `s` iff `r` abuts side `s` of the trunk within the extent and does
    not overlap it (beyond `εA`).  In particular an earlier `elif` never pre-empts a valid later side. -/
theorem findLocation_iff (ε εA : α) (t r : Rect α) (htw : 0 < t.w) (hth : 0 < t.h)
    (hrw : 2 * ε < r.w) (hrh : 2 * ε < r.h) (s : Loc) (hs : s ≠ .nopoly) :
    findLocation ε εA t r = s ↔ (Abuts ε s t r ∧ t.areaOverlap r ≤ εA) := by
  rw [findLocation_eq]
  have e1 := xmax_sub_xmin t; have e2 := ymax_sub_ymin t
  have e3 := xmax_sub_xmin r; have e4 := ymax_sub_ymin r
  cases s <;> simp only [Abuts, abs_lt, ne_eq, not_true_eq_false, reduceCtorEq] at hs ⊢
  all_goals
    generalize t.xmin = tx0 at *; generalize t.xmax = tx1 at *
    generalize t.ymin = ty0 at *; generalize t.ymax = ty1 at *
    generalize r.xmin = rx0 at *; generalize r.xmax = rx1 at *
    generalize r.ymin = ry0 at *; generalize r.ymax = ry1 at *
    generalize t.areaOverlap r = ov at *
    grind

/-- `NO_POLYGON` is answered exactly when no side qualifies. -/
theorem findLocation_none_iff (ε εA : α) (t r : Rect α) (htw : 0 < t.w) (hth : 0 < t.h)
    (hrw : 2 * ε < r.w) (hrh : 2 * ε < r.h) :
    findLocation ε εA t r = .nopoly ↔ ¬ ∃ s, Abuts ε s t r ∧ t.areaOverlap r ≤ εA := by
  constructor
  · rintro h ⟨s, hs⟩
    have hne : s ≠ .nopoly := by rintro rfl; exact hs.1
    have := (findLocation_iff ε εA t r htw hth hrw hrh s hne).mpr hs
    rw [h] at this; exact hne this.symm
  · intro h
    by_contra hc
    exact h ⟨_, (findLocation_iff ε εA t r htw hth hrw hrh _ hc).mp rfl⟩

/-- a rectangle abuts at most one side of a trunk. -/
theorem abuts_unique (ε : α) (t r : Rect α) (htw : 0 < t.w) (hth : 0 < t.h)
    (hrw : 2 * ε < r.w) (hrh : 2 * ε < r.h) (s s' : Loc) (h : Abuts ε s t r) (h' : Abuts ε s' t r) : s = s' := by
  have hne : s ≠ .nopoly := by rintro rfl; exact h
  have hne' : s' ≠ .nopoly := by rintro rfl; exact h'
  -- take an area tolerance that is certainly met
  have a := (findLocation_iff ε (t.areaOverlap r) t r htw hth hrw hrh s hne).mpr ⟨h, le_refl _⟩
  have b := (findLocation_iff ε (t.areaOverlap r) t r htw hth hrw hrh s' hne').mpr ⟨h', le_refl _⟩
  rw [← a, ← b]

/-- the role of the operands is irrelevant, and TRUNK is never answered. -/
theorem findLocation_ne_trunk (ε εA : α) (t r : Rect α) : findLocation ε εA t r ≠ .trunk :=
  Stog.findLocation_ne_trunk ε εA t r

/-! ### `create_stog` -/

/-- rectangle `i` of the list can serve as trunk: every other rectangle has a location with respect to it. -/
def IsTrunk (ε εA : α) (rs : List (Rect α)) (i : Nat) : Prop :=
  ∃ h : i < rs.length, ∀ j (hj : j < rs.length), j ≠ i → findLocation ε εA rs[i] rs[j] ≠ .nopoly

/-- a rectangle with its role forgotten (what "the same rectangle" means). -/
abbrev geom (r : Rect α) : Rect α := eraseLoc r

/-- `create_stog` fails (assertion) exactly on the empty list. -/
theorem createStog_isSome_iff (ε εA : α) (rs : List (Rect α)) : (createStog ε εA rs).isSome = true ↔ rs ≠ [] := by
  constructor
  · rintro h rfl; simp [createStog] at h
  · intro h
    rcases createStog_spec ε εA rs h with ⟨r, _, e⟩ | ⟨_, _, e⟩ | ⟨_, b, _, _, _, e⟩ <;> rw [e] <;> rfl

/-- **sound and complete**: `True` is returned iff some rectangle can serve as trunk. -/
theorem createStog_true_iff (ε εA : α) (rs : List (Rect α)) (b : Bool) (out : List (Rect α))
    (h : createStog ε εA rs = some (b, out)) : b = true ↔ ∃ i, IsTrunk ε εA rs i := by
  have hne : rs ≠ [] := by rintro rfl; simp [createStog] at h
  rcases createStog_spec ε εA rs hne with ⟨r, rfl, e⟩ | ⟨_, hno, e⟩ | ⟨_, i, hi, _, _, e⟩
  · rw [e] at h; simp only [Option.some.injEq, Prod.mk.injEq] at h
    refine ⟨fun _ => ⟨0, by simp, ?_⟩, fun _ => h.1.symm⟩
    intro j hj hne; simp at hj; omega
  · rw [e] at h; simp only [Option.some.injEq, Prod.mk.injEq] at h
    refine ⟨fun hb => ?_, fun hex => absurd hex hno⟩
    rw [← h.1] at hb; exact absurd hb (by simp)
  · rw [e] at h; simp only [Option.some.injEq, Prod.mk.injEq] at h
    exact ⟨fun _ => ⟨i, hi⟩, fun _ => h.1.symm⟩

/-- **roles**.  On `True`: the head of the list is a rectangle that can serve as trunk, it carries TRUNK, every other
    rectangle has a location with respect to it and carries exactly that location.  On `False`: every rectangle
    carries NO_POLYGON. -/
theorem createStog_roles (ε εA : α) (rs : List (Rect α)) (b : Bool) (out : List (Rect α))
    (h : createStog ε εA rs = some (b, out)) :
    (b = true → ∃ t rest, out = t :: rest ∧ t.loc = .trunk ∧
        (∃ i, ∃ hi : IsTrunk ε εA rs i, geom t = geom (rs[i]'hi.1)) ∧
        ∀ r ∈ rest, findLocation ε εA t r ≠ .nopoly ∧ r.loc = findLocation ε εA t r) ∧
    (b = false → ∀ r ∈ out, r.loc = .nopoly) := by
  have hne : rs ≠ [] := by rintro rfl; simp [createStog] at h
  rcases createStog_spec ε εA rs hne with ⟨r, rfl, e⟩ | ⟨_, hno, e⟩ | ⟨_, i, hi, hb, h0, e⟩
  · rw [e] at h; simp only [Option.some.injEq, Prod.mk.injEq] at h
    obtain ⟨rfl, rfl⟩ := h
    refine ⟨fun _ => ⟨_, [], rfl, rfl, ⟨0, ⟨by simp, ?_⟩, rfl⟩, by simp⟩, by simp⟩
    intro j hj hne; simp at hj; omega
  · rw [e] at h; simp only [Option.some.injEq, Prod.mk.injEq] at h
    obtain ⟨rfl, rfl⟩ := h
    refine ⟨by simp, fun _ r hr => ?_⟩
    obtain ⟨r', _, rfl⟩ := List.mem_map.mp hr
    rfl
  · rw [e] at h; simp only [Option.some.injEq, Prod.mk.injEq] at h
    obtain ⟨rfl, rfl⟩ := h
    refine ⟨fun _ => ?_, by simp⟩
    obtain ⟨others, hsw, hoth⟩ := swapped_shape (rs.map eraseLoc) i h0 hb
    rw [hsw]
    have hi' : i < rs.length := hi.1
    have hLi : (rs.map eraseLoc)[i] = eraseLoc rs[i] := by simp
    refine ⟨_, _, rfl, rfl, ⟨i, hi, ?_⟩, ?_⟩
    · rw [hLi]; rfl
    · intro r hr
      obtain ⟨r', hr', rfl⟩ := List.mem_map.mp hr
      obtain ⟨k, hk, hki, rfl⟩ := hoth r' hr'
      have hk' : k < rs.length := by simpa using hk
      have hloc := hi.2 k hk' hki
      have e1 : findLocation ε εA (rs.map eraseLoc)[i] (rs.map eraseLoc)[k] = findLocation ε εA rs[i] rs[k] := by
        simp only [List.getElem_map]; exact findLocation_eraseLoc ε εA _ _
      constructor
      · change findLocation ε εA (rs.map eraseLoc)[i] (rs.map eraseLoc)[k] ≠ .nopoly
        rw [e1]; exact hloc
      · rfl

/-- **only a reordering**: as far as everything but the roles is concerned, the list left behind is a permutation
    of the list handed in — nothing is altered, dropped or duplicated. -/
theorem createStog_perm (ε εA : α) (rs : List (Rect α)) (b : Bool) (out : List (Rect α))
    (h : createStog ε εA rs = some (b, out)) : (out.map geom).Perm (rs.map geom) := by
  have hne : rs ≠ [] := by rintro rfl; simp [createStog] at h
  have idem : (rs.map eraseLoc).map eraseLoc = rs.map eraseLoc := by
    simp only [List.map_map]; rfl
  rcases createStog_spec ε εA rs hne with ⟨r, rfl, e⟩ | ⟨_, hno, e⟩ | ⟨_, i, hi, hb, h0, e⟩
  · rw [e] at h; simp only [Option.some.injEq, Prod.mk.injEq] at h
    obtain ⟨rfl, rfl⟩ := h
    exact List.Perm.refl _
  · rw [e] at h; simp only [Option.some.injEq, Prod.mk.injEq] at h
    obtain ⟨rfl, rfl⟩ := h
    show ((rs.map eraseLoc).map eraseLoc).Perm _
    rw [idem]
  · rw [e] at h; simp only [Option.some.injEq, Prod.mk.injEq] at h
    obtain ⟨rfl, rfl⟩ := h
    show ((label ε εA _).map eraseLoc).Perm _
    rw [label_map_eraseLoc]
    have := (swap_perm (rs.map eraseLoc) 0 i h0 hb).map eraseLoc
    rw [idem] at this
    exact this

/-- the list keeps its length. -/
theorem createStog_length (ε εA : α) (rs : List (Rect α)) (b : Bool) (out : List (Rect α))
    (h : createStog ε εA rs = some (b, out)) : out.length = rs.length := by
  have := (createStog_perm ε εA rs b out h).length_eq
  simpa using this

/-- **the property in geometric terms** (well-formed input): when `True` is returned, every rectangle after the
    trunk carries one of N/S/E/W, abuts that side of the trunk within its extent and does not overlap the trunk. -/
theorem createStog_branches_abut (ε εA : α) (rs : List (Rect α)) (out : List (Rect α)) (hwf : WF ε rs)
    (h : createStog ε εA rs = some (true, out)) :
    ∃ t rest, out = t :: rest ∧ t.loc = .trunk ∧
      ∀ r ∈ rest, r.loc ≠ .nopoly ∧ r.loc ≠ .trunk ∧ Abuts ε r.loc t r ∧ t.areaOverlap r ≤ εA := by
  obtain ⟨t, rest, rfl, ht, _, hrest⟩ := (createStog_roles ε εA rs true _ h).1 rfl
  refine ⟨t, rest, rfl, ht, fun r hr => ?_⟩
  obtain ⟨hne, hloc⟩ := hrest r hr
  have hperm := createStog_perm ε εA rs true _ h
  have wf_of : ∀ x ∈ t :: rest, 2 * ε < x.w ∧ 2 * ε < x.h ∧ 0 < x.w ∧ 0 < x.h := by
    intro x hx
    have : geom x ∈ (rs.map geom) := hperm.subset (List.mem_map_of_mem hx)
    obtain ⟨y, hy, hxy⟩ := List.mem_map.mp this
    have := hwf y hy
    have ew : x.w = y.w := by have := congrArg Rect.w hxy; simpa [geom, eraseLoc] using this.symm
    have eh : x.h = y.h := by have := congrArg Rect.h hxy; simpa [geom, eraseLoc] using this.symm
    rw [ew, eh]; exact this
  have wt := wf_of t (List.mem_cons_self)
  have wr := wf_of r (List.mem_cons_of_mem _ hr)
  have := (findLocation_iff ε εA t r wt.2.2.1 wt.2.2.2 wr.1 wr.2.1 _ hne).mp rfl
  rw [hloc]
  exact ⟨hne, findLocation_ne_trunk ε εA t r, this⟩

/-- completeness in geometric terms: if some rectangle has every other one abutting one of its sides without
    overlap, `True` is returned. -/
theorem createStog_complete (ε εA : α) (rs : List (Rect α)) (b : Bool) (out : List (Rect α)) (hwf : WF ε rs)
    (h : createStog ε εA rs = some (b, out)) (i : Nat) (hi : i < rs.length)
    (habut : ∀ j (hj : j < rs.length), j ≠ i → ∃ s, Abuts ε s rs[i] rs[j] ∧ rs[i].areaOverlap rs[j] ≤ εA) :
    b = true := by
  rw [createStog_true_iff ε εA rs b out h]
  refine ⟨i, hi, fun j hj hne => ?_⟩
  obtain ⟨s, hs⟩ := habut j hj hne
  have wi := hwf _ (List.getElem_mem hi)
  have wj := hwf _ (List.getElem_mem hj)
  have hsne : s ≠ .nopoly := by rintro rfl; exact hs.1
  rw [(findLocation_iff ε εA rs[i] rs[j] wi.2.2.1 wi.2.2.2 wj.1 wj.2.1 s hsne).mpr hs]
  exact hsne

/-! ### non-vacuity: concrete lists (executed at `Rat`) -/

/-- what the examples compare: verdict, and role / centre of every rectangle in list order. -/
def agrees (x : Option (Bool × List (Rect ℚ))) (b : Bool) (locs : List Loc) (cxs cys : List ℚ) : Bool :=
  match x with
  | some (b', l) => b' == b && l.map (·.loc) == locs && l.map (·.cx) == cxs && l.map (·.cy) == cys
  | none => false

/-- trunk 4×2 with a branch on top, flush with the left corner, and one on the right side; given branch first. -/
example : agrees (createStog (1/8 : ℚ) (1/4) [⟨1, 3, 2, 2, "_", false, false, .nopoly⟩, ⟨2, 1, 4, 2, "_", false, false, .nopoly⟩,
      ⟨5, 1, 2, 1, "_", false, false, .nopoly⟩]) true [.trunk, .north, .east] [2, 1, 5] [1, 3, 1] = true := by decide +kernel
/-- a duplicate of the trunk is not a branch (the repaired behaviour). -/
example : agrees (createStog (1/8 : ℚ) (1/4) [⟨2, 1, 4, 2, "_", false, false, .nopoly⟩, ⟨2, 1, 4, 2, "_", false, false, .nopoly⟩])
    false [.nopoly, .nopoly] [2, 2] [1, 1] = true := by decide +kernel
/-- `WF` is necessary: a branch thinner than `2ε` abutting EAST at the top corner is answered NO_POLYGON. -/
example : findLocation (1/8 : ℚ) (1/4) ⟨2, 1, 4, 2, "_", false, false, .nopoly⟩
    ⟨9/2, 2 + 1/32, 1, 1/8, "_", false, false, .nopoly⟩ = .nopoly := by decide +kernel
example : Abuts (1/8 : ℚ) .east ⟨2, 1, 4, 2, "_", false, false, .nopoly⟩ ⟨9/2, 2 + 1/32, 1, 1/8, "_", false, false, .nopoly⟩ := by
  simp only [Abuts, xmin, xmax, ymin, ymax, two]; norm_num [abs_lt]
example : WF (1/8 : ℚ) [⟨1, 3, 2, 2, "_", false, false, .nopoly⟩, ⟨2, 1, 4, 2, "_", false, false, .nopoly⟩] := by
  intro r hr; simp at hr; rcases hr with rfl | rfl <;> norm_num
example : Abuts (1/8 : ℚ) .north ⟨2, 1, 4, 2, "_", false, false, .nopoly⟩ ⟨1, 3, 2, 2, "_", false, false, .nopoly⟩ := by
  simp only [Abuts, xmin, xmax, ymin, ymax, two]; norm_num

/-! ## `Module.create_stog`, `Module.has_stog` and the call site in `Netlist` loading

The netlist model (`FV/Model/Netlist.lean`, `FV/Model/NetlistStog.lean`) keeps the number tags of every rectangle; its STOG
step `stogC06` is this file's `createStog` on the plain rectangles (`stogC06_toRect`).  `Mod.createStog` is
`Module.create_stog()`, `hasStog` is `Module.has_stog`, and `finish` (inside `parseNetlist`) runs the step on every
module that has rectangles and then demands a STOG of every flippable module. -/

section netlist
open FV.NL

theorem hasStog_of_toRect {m : NL.Mod α} {b : Bool} {ε εA : α} {rs0 : List (NRect α)}
    (h : createStog ε εA (rs0.map NRect.toRect) = some (b, m.rects.map NRect.toRect)) : hasStog m = b := by
  obtain ⟨htrue, hfalse⟩ := createStog_roles ε εA _ b _ h
  have hlen := createStog_length ε εA _ b _ h
  cases hb : b with
  | true =>
    obtain ⟨t, rest, hout, ht, _⟩ := htrue hb
    cases hr : m.rects with
    | nil => rw [hr] at hout; cases hout
    | cons r rs =>
      rw [hr] at hout
      simp only [List.map_cons, List.cons.injEq] at hout
      have : r.loc = .trunk := by rw [← ht, ← hout.1]; rfl
      simp [hasStog, hr, this]
  | false =>
    cases hr : m.rects with
    | nil => simp [hasStog, hr]
    | cons r rs =>
      have := hfalse hb r.toRect (by rw [hr]; simp)
      have hl : r.loc = .nopoly := this
      simp [hasStog, hr, hl]

/-- **`Module.create_stog()` and `Module.has_stog` agree**: after the call `has_stog` is the value it returned, and the
    module's list is what `create_stog` leaves behind for it (same rectangles, reordered, with their roles). -/
theorem module_createStog (ε εA : α) (m m' : NL.Mod α) (b : Bool) (h : Mod.createStog ε εA m = some (b, m')) :
    hasStog m' = b ∧ createStog ε εA (m.rects.map NRect.toRect) = some (b, m'.rects.map NRect.toRect) ∧
    (m'.rects.map fun r => geom r.toRect).Perm (m.rects.map fun r => geom r.toRect) ∧
    m'.name = m.name ∧ m'.areaRegions = m.areaRegions ∧ m'.center = m.center := by
  unfold Mod.createStog at h
  cases hc : createStog ε εA (m.rects.map NRect.toRect) with
  | none => rw [hc] at h; cases h
  | some p =>
    obtain ⟨b', out⟩ := p
    rw [hc] at h
    simp only [Option.some.injEq, Prod.mk.injEq] at h
    obtain ⟨rfl, rfl⟩ := h
    have hne : m.rects ≠ [] := by
      intro hn; rw [hn] at hc; simp [createStog] at hc
    obtain ⟨flag, hflag⟩ := stogC06_toRect ε εA m.rects hne
    rw [hc] at hflag
    simp only [Option.some.injEq, Prod.mk.injEq] at hflag
    obtain ⟨rfl, rfl⟩ := hflag
    have hperm := createStog_perm ε εA _ _ _ hc
    rw [List.map_map, List.map_map] at hperm
    exact ⟨hasStog_of_toRect (m := { m with rects := stogC06 ε εA m.rects }) hc, rfl, hperm, rfl, rfl, rfl⟩

/-- `Module.create_stog()` fails (the assertion of `create_stog`) exactly on a module without rectangles — which is why
    `Netlist` only calls it when `num_rectangles > 0`. -/
theorem module_createStog_isSome (ε εA : α) (m : NL.Mod α) : (Mod.createStog ε εA m).isSome = true ↔ m.rects ≠ [] := by
  unfold Mod.createStog
  have := createStog_isSome_iff ε εA (m.rects.map NRect.toRect)
  cases hc : createStog ε εA (m.rects.map NRect.toRect) with
  | none => rw [hc] at this; simpa using this
  | some p => rw [hc] at this; simpa using this

/-- **what loading does to the rectangles of each module** (`Netlist._create_rectangles`, the loop `if m.num_rectangles > 0:
    m.create_stog()`): a module without rectangles is left alone and has no STOG; for every other module the loaded list is
    exactly what `create_stog` leaves behind for the rectangles of the document (in document order), and `has_stog` is the
    value it returned. -/
theorem netlist_load_createStog (ε εA : α) {t : YVal α} {n : Netlist α}
    (h : parseNetlist (stogC06 ε εA) εA t = .ok n) :
    ∃ ms es, parseDoc t = .ok (ms, es) ∧
      List.Forall₂ (fun (m m0 : NL.Mod α) => m.name = m0.name ∧
        ((m0.rects = [] ∧ m.rects = [] ∧ hasStog m = false) ∨
         (m0.rects ≠ [] ∧ ∃ b, createStog ε εA (m0.rects.map NRect.toRect) = some (b, m.rects.map NRect.toRect) ∧
            hasStog m = b))) n.modules ms := by
  obtain ⟨ms, es, hd, hfin, hmods, _⟩ := parseNetlist_modules h
  refine ⟨ms, es, hd, ?_⟩
  rw [hmods]
  clear hmods hd h hfin
  induction ms with
  | nil => exact List.Forall₂.nil
  | cons m0 rest ih =>
    refine List.Forall₂.cons ⟨finalize_name _ m0, ?_⟩ ih
    by_cases hr : m0.rects = []
    · rw [finalize_rects_nil hr]
      exact Or.inl ⟨hr, hr, by simp [hasStog, hr]⟩
    · rw [finalize_rects_cons hr]
      obtain ⟨flag, hflag⟩ := stogC06_toRect ε εA m0.rects hr
      exact Or.inr ⟨hr, flag, hflag, hasStog_of_toRect (m := { m0 with center := _, rects := stogC06 ε εA m0.rects }) hflag⟩

/-- **LOADING ONLY REORDERS**: module by module (same order, same names) the rectangles of a loaded netlist are, roles
    apart, a permutation of the rectangles the document gives that module — nothing altered, dropped or duplicated. -/
theorem netlist_load_only_reorders (ε εA : α) {t : YVal α} {n : Netlist α}
    (h : parseNetlist (stogC06 ε εA) εA t = .ok n) :
    ∃ ms es, parseDoc t = .ok (ms, es) ∧
      List.Forall₂ (fun (m m0 : NL.Mod α) => m.name = m0.name ∧
        (m.rects.map fun r => geom r.toRect).Perm (m0.rects.map fun r => geom r.toRect)) n.modules ms := by
  obtain ⟨ms, es, hd, hF⟩ := netlist_load_createStog ε εA h
  refine ⟨ms, es, hd, hF.imp ?_⟩
  rintro m m0 ⟨hn, hcase⟩
  refine ⟨hn, ?_⟩
  rcases hcase with ⟨h0, h1, _⟩ | ⟨_, b, hb, _⟩
  · rw [h0, h1]
  · have := createStog_perm ε εA _ _ _ hb
    rw [List.map_map, List.map_map] at this
    exact this

/-- **`has_stog` after loading is sound and complete**: a loaded module with rectangles has a STOG exactly when one of the
    rectangles the document gives it can serve as trunk (`IsTrunk`; in geometric terms through `findLocation_iff`). -/
theorem netlist_hasStog_iff (ε εA : α) {t : YVal α} {n : Netlist α}
    (h : parseNetlist (stogC06 ε εA) εA t = .ok n) :
    ∃ ms es, parseDoc t = .ok (ms, es) ∧
      List.Forall₂ (fun (m m0 : NL.Mod α) => m.name = m0.name ∧
        (m0.rects ≠ [] → (hasStog m = true ↔ ∃ i, IsTrunk ε εA (m0.rects.map NRect.toRect) i))) n.modules ms := by
  obtain ⟨ms, es, hd, hF⟩ := netlist_load_createStog ε εA h
  refine ⟨ms, es, hd, hF.imp ?_⟩
  rintro m m0 ⟨hn, hcase⟩
  refine ⟨hn, fun hne => ?_⟩
  rcases hcase with ⟨h0, _, _⟩ | ⟨_, b, hb, hs⟩
  · exact absurd h0 hne
  · rw [hs]; exact createStog_true_iff ε εA _ b _ hb

/-- the call site's last line: `assert all(not m.flip or m.has_stog …)` — every flippable module of a loaded netlist has a
    STOG. -/
theorem netlist_flip_has_stog (ε εA : α) {t : YVal α} {n : Netlist α}
    (h : parseNetlist (stogC06 ε εA) εA t = .ok n) : ∀ m ∈ n.modules, m.flip = true → hasStog m = true := by
  obtain ⟨ms, es, _, hf⟩ := parseNetlist_ok h
  obtain ⟨_, _, _, _, hflip, _⟩ := finish_ok hf
  exact hflip

/-! non-vacuity: the document `H` (branch given first) loads with the trunk in front; `Module.create_stog()` on the two
    rectangles in document order returns `True` -/

def stogDoc : YVal ℚ :=
  .map [(.str "Modules", .map [
          (.str "H", .map [(.str "hard", .bool true), (.str "flip", .bool true),
                           (.str "rectangles", .seq [.seq [.int 1, .int 4, .int 2, .int 2],
                                                     .seq [.int 2, .int 2, .int 4, .int 2]])]),
          (.str "A", .map [(.str "area", .int 3)])])]

example : (match parseNetlist (stogC06 (1 / 1024 : ℚ) (1 / 32)) (1 / 32) stogDoc with
    | .ok n => n.modules.map (fun m => (hasStog m, m.rects.map fun r => (r.w, r.loc))) ==
        [(true, [(Num.i 4, Loc.trunk), (Num.i 2, Loc.north)]), (false, [])]
    | .error _ => false) = true := by decide +kernel

def branchFirst : NL.Mod ℚ :=
  { name := "H", center := none, aspect := none, terminal := false, hard := true, fixed := false, flip := false,
    areaRegions := [("_", 12)],
    rects := [{ cx := .i 1, cy := .i 4, w := .i 2, h := .i 2, hard := true },
              { cx := .i 2, cy := .i 2, w := .i 4, h := .i 2, hard := true }] }

example : (match Mod.createStog (1 / 1024 : ℚ) (1 / 32) branchFirst with
    | some (b, m') => b && hasStog m' && (m'.rects.map fun r => (r.w, r.loc)) == [(Num.i 4, Loc.trunk), (Num.i 2, Loc.north)]
    | none => false) = true := by decide +kernel

example : (Mod.createStog (1 / 1024 : ℚ) (1 / 32) { branchFirst with rects := [] }).isSome = false := by decide +kernel

end netlist


end FV.C06

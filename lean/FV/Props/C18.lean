import FV.Proofs.Geom
/-
  C18 — Rectangle operations agree with plane geometry.
  Property theorems only (helper lemmas live in `FV/Proofs/Geom.lean`).
  All statements are over an arbitrary linearly ordered field `α` (exact arithmetic); `Rat`, at which
  the driver executes the very same definitions, is one.
-/
namespace FV.C18
open FV FV.Rect
set_option linter.unusedSectionVars false
set_option linter.unusedSimpArgs false
set_option linter.unusedVariables false

variable {α : Type} [Field α] [LinearOrder α] [IsStrictOrderedRing α]

/-- the plane-geometry reading of a rectangle: the closed box `[xmin,xmax] × [ymin,ymax]`. -/
def Mem (r : Rect α) (x y : α) : Prop := r.xmin ≤ x ∧ x ≤ r.xmax ∧ r.ymin ≤ y ∧ y ≤ r.ymax

/-- area (Lebesgue measure) of the box `[lx,ux] × [ly,uy]`, `0` when empty. -/
def boxArea (lx ux ly uy : α) : α := max 0 (ux - lx) * max 0 (uy - ly)

/-! ### point membership, containment, touching -/

theorem pointInside_iff (r : Rect α) (x y : α) : r.pointInside x y = true ↔ Mem r x y := by
  simp [pointInside, Mem, and_assoc]

/-- containment = set inclusion of the boxes (for non-degenerate rectangles). -/
theorem isInside_iff_subset (a b : Rect α) (hw : 0 < a.w) (hh : 0 < a.h) :
    a.isInside b = true ↔ ∀ x y, Mem a x y → Mem b x y := by
  have hx := xmin_lt_xmax a hw
  have hy := ymin_lt_ymax a hh
  simp only [isInside, Bool.and_eq_true, decide_eq_true_eq, Mem]
  constructor
  · rintro ⟨⟨⟨h1, h2⟩, h3⟩, h4⟩ x y ⟨p1, p2, p3, p4⟩
    exact ⟨le_trans h1 p1, le_trans p2 h3, le_trans h2 p3, le_trans p4 h4⟩
  · intro h
    have c1 := h a.xmin a.ymin ⟨le_refl _, le_of_lt hx, le_refl _, le_of_lt hy⟩
    have c2 := h a.xmax a.ymax ⟨le_of_lt hx, le_refl _, le_of_lt hy, le_refl _⟩
    exact ⟨⟨⟨c1.1, c1.2.2.1⟩, c2.2.1⟩, c2.2.2.2⟩

/-- `is_inside` is coordinate comparison of the four sides. -/
theorem isInside_iff_coords (a b : Rect α) :
    a.isInside b = true ↔ b.xmin ≤ a.xmin ∧ b.ymin ≤ a.ymin ∧ a.xmax ≤ b.xmax ∧ a.ymax ≤ b.ymax := by
  simp [isInside, and_assoc]

/-- touching within tolerance `ε` ⇔ the L∞ gap between the boxes is at most `ε`. -/
theorem touches_iff_gap_le (ε : α) (a b : Rect α) :
    touches ε a b = true ↔
      max (max (a.xmin - b.xmax) (b.xmin - a.xmax)) (max (a.ymin - b.ymax) (b.ymin - a.ymax)) ≤ ε := by
  simp only [touches, Bool.and_eq_true, decide_eq_true_eq, max_le_iff]
  constructor
  · rintro ⟨⟨⟨h1, h2⟩, h3⟩, h4⟩; exact ⟨⟨by linarith, by linarith⟩, by linarith, by linarith⟩
  · rintro ⟨⟨h1, h2⟩, h3, h4⟩; exact ⟨⟨⟨by linarith, by linarith⟩, by linarith⟩, by linarith⟩

theorem touches_comm (ε : α) (a b : Rect α) : touches ε a b = touches ε b a := by
  simp only [touches]; grind

/-! ### overlap area and intersection -/

theorem areaOverlap_comm (a b : Rect α) : a.areaOverlap b = b.areaOverlap a := by
  rw [areaOverlap_eq, areaOverlap_eq, ovLen_comm, ovLen_comm a.ymin]

/-- the common region of two rectangles is the box between the inner sides … -/
theorem common_region_iff (a b : Rect α) (x y : α) :
    (Mem a x y ∧ Mem b x y) ↔
      (max a.xmin b.xmin ≤ x ∧ x ≤ min a.xmax b.xmax ∧ max a.ymin b.ymin ≤ y ∧ y ≤ min a.ymax b.ymax) := by
  simp only [Mem, max_le_iff, le_min_iff]; tauto

/-- … and `area_overlap` is the area of that box. -/
theorem areaOverlap_eq_common (a b : Rect α) :
    a.areaOverlap b =
      boxArea (max a.xmin b.xmin) (min a.xmax b.xmax) (max a.ymin b.ymin) (min a.ymax b.ymax) := by
  rw [areaOverlap_eq]; rfl

theorem areaOverlap_nonneg (a b : Rect α) : 0 ≤ a.areaOverlap b := by
  rw [areaOverlap_eq]; exact mul_nonneg (ovLen_nonneg ..) (ovLen_nonneg ..)

theorem areaOverlap_pos_iff (a b : Rect α) :
    0 < a.areaOverlap b ↔ (max a.xmin b.xmin < min a.xmax b.xmax ∧ max a.ymin b.ymin < min a.ymax b.ymax) := by
  rw [areaOverlap_eq, ← ovLen_pos_iff, ← ovLen_pos_iff]
  constructor
  · intro h
    have h1 := ovLen_nonneg a.xmin a.xmax b.xmin b.xmax
    have h2 := ovLen_nonneg a.ymin a.ymax b.ymin b.ymax
    constructor
    · rcases h1.lt_or_eq with c | c
      · exact c
      · exfalso; rw [← c, zero_mul] at h; exact lt_irrefl _ h
    · rcases h2.lt_or_eq with c | c
      · exact c
      · exfalso; rw [← c, mul_zero] at h; exact lt_irrefl _ h
  · rintro ⟨h1, h2⟩; exact mul_pos h1 h2

/-- the intersection exists exactly when the regions match and the common area is positive. -/
theorem inter_isSome_iff (a b : Rect α) :
    (a.inter b).isSome = true ↔ (a.region = b.region ∧ 0 < a.areaOverlap b) := by
  rw [areaOverlap_pos_iff]
  unfold inter
  simp only [pyMax_eq, pyMin_eq, zero_eq]
  by_cases hr : a.region = b.region
  · simp only [hr, ne_eq, not_true_eq_false, ↓reduceIte, true_and]
    split
    · rename_i h; simp only [Option.isSome_none, Bool.false_eq_true, false_iff, not_and]
      intro h'; linarith
    · rename_i h
      split
      · rename_i h2; simp only [Option.isSome_none, Bool.false_eq_true, false_iff, not_and]
        intro _; linarith
      · rename_i h2; simp only [Option.isSome_some, true_iff]
        exact ⟨by linarith, by linarith⟩
  · simp [hr]

/-- the intersection is exactly the common box (its four sides are the inner sides). -/
theorem inter_sides (a b r : Rect α) (h : a.inter b = some r) :
    r.xmin = max a.xmin b.xmin ∧ r.xmax = min a.xmax b.xmax ∧
    r.ymin = max a.ymin b.ymin ∧ r.ymax = min a.ymax b.ymax := by
  unfold inter at h
  simp only [pyMax_eq, pyMin_eq, zero_eq] at h
  split at h; · simp at h
  split at h; · simp at h
  split at h; · simp at h
  simp only [Option.some.injEq] at h
  subst h
  simp only [xmin, xmax, ymin, ymax, two_eq]
  refine ⟨?_, ?_, ?_, ?_⟩ <;> ring

/-- the intersection lies inside both operands. -/
theorem inter_inside_both (a b r : Rect α) (h : a.inter b = some r) :
    r.isInside a = true ∧ r.isInside b = true := by
  obtain ⟨h1, h2, h3, h4⟩ := inter_sides a b r h
  simp only [isInside, Bool.and_eq_true, decide_eq_true_eq, h1, h2, h3, h4]
  simp

/-- a point is in the intersection iff it is in both operands. -/
theorem inter_mem_iff (a b r : Rect α) (h : a.inter b = some r) (x y : α) :
    Mem r x y ↔ (Mem a x y ∧ Mem b x y) := by
  obtain ⟨h1, h2, h3, h4⟩ := inter_sides a b r h
  rw [common_region_iff]; simp only [Mem, h1, h2, h3, h4]

/-- its area is the overlap area. -/
theorem inter_area (a b r : Rect α) (h : a.inter b = some r) : r.area = a.areaOverlap b := by
  have hp : 0 < a.areaOverlap b := ((inter_isSome_iff a b).mp (by simp [h])).2
  obtain ⟨hx, hy⟩ := (areaOverlap_pos_iff a b).mp hp
  obtain ⟨h1, h2, h3, h4⟩ := inter_sides a b r h
  rw [areaOverlap_eq]
  unfold ovLen
  rw [max_eq_right (a := 0) (b := min a.xmax b.xmax - max a.xmin b.xmin) (by linarith),
    max_eq_right (a := 0) (b := min a.ymax b.ymax - max a.ymin b.ymin) (by linarith),
    ← h1, ← h2, ← h3, ← h4, xmax_sub_xmin, ymax_sub_ymin]; rfl

/-- intersection is symmetric as a geometric object (attributes come from the left operand). -/
theorem inter_geom_comm (a b r s : Rect α) (h : a.inter b = some r) (h' : b.inter a = some s) :
    r.cx = s.cx ∧ r.cy = s.cy ∧ r.w = s.w ∧ r.h = s.h := by
  obtain ⟨h1, h2, h3, h4⟩ := inter_sides a b r h
  obtain ⟨g1, g2, g3, g4⟩ := inter_sides b a s h'
  rw [max_comm] at g1 g3; rw [min_comm] at g2 g4
  have e1 : r.xmin = s.xmin := by rw [h1, g1]
  have e2 : r.xmax = s.xmax := by rw [h2, g2]
  have e3 : r.ymin = s.ymin := by rw [h3, g3]
  have e4 : r.ymax = s.ymax := by rw [h4, g4]
  refine ⟨?_, ?_, ?_, ?_⟩
  · rw [cx_eq r, cx_eq s, e1, e2]
  · rw [cy_eq r, cy_eq s, e3, e4]
  · rw [← xmax_sub_xmin r, ← xmax_sub_xmin s, e1, e2]
  · rw [← ymax_sub_ymin r, ← ymax_sub_ymin s, e3, e4]

theorem inter_isSome_comm (a b : Rect α) : (a.inter b).isSome = (b.inter a).isSome := by
  have h1 := inter_isSome_iff a b
  have h2 := inter_isSome_iff b a
  rw [areaOverlap_comm b a] at h2
  rw [Bool.eq_iff_iff, h1, h2]
  constructor <;> rintro ⟨h, h'⟩ <;> exact ⟨h.symm, h'⟩

/-- attributes of the intersection come from the left operand. -/
theorem inter_inherits (a b r : Rect α) (h : a.inter b = some r) :
    r.region = a.region ∧ r.fixed = a.fixed ∧ r.hard = a.hard := by
  unfold inter at h
  split at h; · simp at h
  simp only at h
  split at h; · simp at h
  split at h; · simp at h
  simp only [Option.some.injEq] at h
  subst h; simp [duplicate]

/-- `overlap` is "common area exceeds the area tolerance". -/
theorem overlap_iff (εA : α) (a b : Rect α) : overlap εA a b = true ↔ εA < a.areaOverlap b := by
  simp [overlap]

/-! ### splitting -/

/-- what it means for two pieces to tile a rectangle exactly and inherit its attributes. -/
structure Tiles2 (r p q : Rect α) : Prop where
  inside_p : p.isInside r = true
  inside_q : q.isInside r = true
  disjoint : p.areaOverlap q = 0
  area : p.area + q.area = r.area
  cover : ∀ x y, Mem r x y → Mem p x y ∨ Mem q x y
  inherit_p : p.region = r.region ∧ p.fixed = r.fixed ∧ p.hard = r.hard
  inherit_q : q.region = r.region ∧ q.fixed = r.fixed ∧ q.hard = r.hard

/-- cutting at a coordinate `x` (taken literally, i.e. `0 ≤ x`) succeeds iff `x` is strictly inside,
    and then the two pieces meet at `x` and tile the rectangle. -/
theorem splitH_isSome_iff (r : Rect α) (x : α) (hx : 0 ≤ x) :
    (r.splitH x).isSome = true ↔ (r.xmin < x ∧ x < r.xmax) := by
  unfold splitH
  simp only [zero_eq, not_lt.mpr hx, ↓reduceIte]
  split <;> simp_all

theorem splitH_sides (r p q : Rect α) (x : α) (hx : 0 ≤ x) (h : r.splitH x = some (p, q)) :
    p.xmin = r.xmin ∧ p.xmax = x ∧ q.xmin = x ∧ q.xmax = r.xmax ∧
    p.ymin = r.ymin ∧ p.ymax = r.ymax ∧ q.ymin = r.ymin ∧ q.ymax = r.ymax ∧ r.xmin < x ∧ x < r.xmax := by
  unfold splitH at h
  simp only [zero_eq, not_lt.mpr hx, ↓reduceIte] at h
  split at h
  · rename_i hc
    simp only [Option.some.injEq, Prod.mk.injEq] at h
    obtain ⟨rfl, rfl⟩ := h
    refine ⟨?_, ?_, ?_, ?_, rfl, rfl, rfl, rfl, hc.1, hc.2⟩ <;>
      (simp only [xmin, xmax, ymin, ymax, two_eq, duplicate]; ring)
  · simp at h

theorem splitV_sides (r p q : Rect α) (y : α) (hy : 0 ≤ y) (h : r.splitV y = some (p, q)) :
    p.ymin = r.ymin ∧ p.ymax = y ∧ q.ymin = y ∧ q.ymax = r.ymax ∧
    p.xmin = r.xmin ∧ p.xmax = r.xmax ∧ q.xmin = r.xmin ∧ q.xmax = r.xmax ∧ r.ymin < y ∧ y < r.ymax := by
  unfold splitV at h
  simp only [zero_eq, not_lt.mpr hy, ↓reduceIte] at h
  split at h
  · rename_i hc
    simp only [Option.some.injEq, Prod.mk.injEq] at h
    obtain ⟨rfl, rfl⟩ := h
    refine ⟨?_, ?_, ?_, ?_, rfl, rfl, rfl, rfl, hc.1, hc.2⟩ <;>
      (simp only [xmin, xmax, ymin, ymax, two_eq, duplicate]; ring)
  · simp at h

/-- generic: two pieces sharing the y-extent of `r` and meeting at `x ∈ (xmin, xmax)` tile it. -/
theorem tiles_of_sidesH (r p q : Rect α) (x : α)
    (hs : p.xmin = r.xmin ∧ p.xmax = x ∧ q.xmin = x ∧ q.xmax = r.xmax ∧
      p.ymin = r.ymin ∧ p.ymax = r.ymax ∧ q.ymin = r.ymin ∧ q.ymax = r.ymax ∧ r.xmin < x ∧ x < r.xmax)
    (hp : p.region = r.region ∧ p.fixed = r.fixed ∧ p.hard = r.hard)
    (hq : q.region = r.region ∧ q.fixed = r.fixed ∧ q.hard = r.hard) : Tiles2 r p q := by
  obtain ⟨a1, a2, a3, a4, a5, a6, a7, a8, a9, a10⟩ := hs
  refine ⟨?_, ?_, ?_, ?_, ?_, hp, hq⟩
  · simp only [isInside, Bool.and_eq_true, decide_eq_true_eq, a1, a2, a5, a6]
    exact ⟨⟨⟨le_refl _, le_refl _⟩, le_of_lt a10⟩, le_refl _⟩
  · simp only [isInside, Bool.and_eq_true, decide_eq_true_eq, a3, a4, a7, a8]
    exact ⟨⟨⟨le_of_lt a9, le_refl _⟩, le_refl _⟩, le_refl _⟩
  · rw [areaOverlap_eq, a1, a2, a3, a4]
    have : ovLen r.xmin x x r.xmax = 0 := by unfold ovLen; grind
    rw [this, zero_mul]
  · have e1 : p.area = (p.xmax - p.xmin) * (p.ymax - p.ymin) := by rw [xmax_sub_xmin, ymax_sub_ymin]; rfl
    have e2 : q.area = (q.xmax - q.xmin) * (q.ymax - q.ymin) := by rw [xmax_sub_xmin, ymax_sub_ymin]; rfl
    have e3 : r.area = (r.xmax - r.xmin) * (r.ymax - r.ymin) := by rw [xmax_sub_xmin, ymax_sub_ymin]; rfl
    rw [e1, e2, e3, a1, a2, a3, a4, a5, a6, a7, a8]; ring
  · intro u v ⟨m1, m2, m3, m4⟩
    simp only [Mem, a1, a2, a3, a4, a5, a6, a7, a8]
    rcases le_total u x with c | c
    · exact Or.inl ⟨m1, c, m3, m4⟩
    · exact Or.inr ⟨c, m2, m3, m4⟩

theorem tiles_of_sidesV (r p q : Rect α) (y : α)
    (hs : p.ymin = r.ymin ∧ p.ymax = y ∧ q.ymin = y ∧ q.ymax = r.ymax ∧
      p.xmin = r.xmin ∧ p.xmax = r.xmax ∧ q.xmin = r.xmin ∧ q.xmax = r.xmax ∧ r.ymin < y ∧ y < r.ymax)
    (hp : p.region = r.region ∧ p.fixed = r.fixed ∧ p.hard = r.hard)
    (hq : q.region = r.region ∧ q.fixed = r.fixed ∧ q.hard = r.hard) : Tiles2 r p q := by
  obtain ⟨a1, a2, a3, a4, a5, a6, a7, a8, a9, a10⟩ := hs
  refine ⟨?_, ?_, ?_, ?_, ?_, hp, hq⟩
  · simp only [isInside, Bool.and_eq_true, decide_eq_true_eq, a1, a2, a5, a6]
    exact ⟨⟨⟨le_refl _, le_refl _⟩, le_refl _⟩, le_of_lt a10⟩
  · simp only [isInside, Bool.and_eq_true, decide_eq_true_eq, a3, a4, a7, a8]
    exact ⟨⟨⟨le_refl _, le_of_lt a9⟩, le_refl _⟩, le_refl _⟩
  · rw [areaOverlap_eq, a1, a2, a3, a4]
    have : ovLen r.ymin y y r.ymax = 0 := by unfold ovLen; grind
    rw [this, mul_zero]
  · have e1 : p.area = (p.xmax - p.xmin) * (p.ymax - p.ymin) := by rw [xmax_sub_xmin, ymax_sub_ymin]; rfl
    have e2 : q.area = (q.xmax - q.xmin) * (q.ymax - q.ymin) := by rw [xmax_sub_xmin, ymax_sub_ymin]; rfl
    have e3 : r.area = (r.xmax - r.xmin) * (r.ymax - r.ymin) := by rw [xmax_sub_xmin, ymax_sub_ymin]; rfl
    rw [e1, e2, e3, a1, a2, a3, a4, a5, a6, a7, a8]; ring
  · intro u v ⟨m1, m2, m3, m4⟩
    simp only [Mem, a1, a2, a3, a4, a5, a6, a7, a8]
    rcases le_total v y with c | c
    · exact Or.inl ⟨m1, m2, m3, c⟩
    · exact Or.inr ⟨m1, m2, c, m4⟩

theorem splitH_inherits (r p q : Rect α) (x : α) (h : r.splitH x = some (p, q)) :
    (p.region = r.region ∧ p.fixed = r.fixed ∧ p.hard = r.hard) ∧
    (q.region = r.region ∧ q.fixed = r.fixed ∧ q.hard = r.hard) := by
  unfold splitH at h
  simp only at h
  generalize (if x < zero then r.cx else x) = x' at h
  split at h
  · simp only [Option.some.injEq, Prod.mk.injEq] at h
    obtain ⟨rfl, rfl⟩ := h; simp [duplicate]
  · simp at h

theorem splitV_inherits (r p q : Rect α) (y : α) (h : r.splitV y = some (p, q)) :
    (p.region = r.region ∧ p.fixed = r.fixed ∧ p.hard = r.hard) ∧
    (q.region = r.region ∧ q.fixed = r.fixed ∧ q.hard = r.hard) := by
  unfold splitV at h
  simp only at h
  generalize (if y < zero then r.cy else y) = y' at h
  split at h
  · simp only [Option.some.injEq, Prod.mk.injEq] at h
    obtain ⟨rfl, rfl⟩ := h; simp [duplicate]
  · simp at h

/-- **cutting at a coordinate** tiles the rectangle. -/
theorem splitH_tiles (r p q : Rect α) (x : α) (hx : 0 ≤ x) (h : r.splitH x = some (p, q)) :
    Tiles2 r p q ∧ p.xmax = x ∧ q.xmin = x := by
  have hs := splitH_sides r p q x hx h
  have hi := splitH_inherits r p q x h
  exact ⟨tiles_of_sidesH r p q x hs hi.1 hi.2, hs.2.1, hs.2.2.1⟩

theorem splitV_tiles (r p q : Rect α) (y : α) (hy : 0 ≤ y) (h : r.splitV y = some (p, q)) :
    Tiles2 r p q ∧ p.ymax = y ∧ q.ymin = y := by
  have hs := splitV_sides r p q y hy h
  have hi := splitV_inherits r p q y h
  exact ⟨tiles_of_sidesV r p q y hs hi.1 hi.2, hs.2.1, hs.2.2.1⟩

/-- the halving cut of `split_horizontal()` (argument `-1`): cut at the centre. -/
theorem splitH_half_sides (r p q : Rect α) (h : r.splitH negOne = some (p, q)) :
    p.xmin = r.xmin ∧ p.xmax = r.cx ∧ q.xmin = r.cx ∧ q.xmax = r.xmax ∧
    p.ymin = r.ymin ∧ p.ymax = r.ymax ∧ q.ymin = r.ymin ∧ q.ymax = r.ymax ∧ r.xmin < r.cx ∧ r.cx < r.xmax := by
  unfold splitH at h
  simp only [zero_eq, negOne_eq, show (-1 : α) < 0 by linarith, ↓reduceIte] at h
  split at h
  · rename_i hc
    simp only [Option.some.injEq, Prod.mk.injEq] at h
    obtain ⟨rfl, rfl⟩ := h
    refine ⟨?_, ?_, ?_, ?_, rfl, rfl, rfl, rfl, hc.1, hc.2⟩ <;>
      (simp only [xmin, xmax, ymin, ymax, two_eq, duplicate]; ring)
  · simp at h

theorem splitV_half_sides (r p q : Rect α) (h : r.splitV negOne = some (p, q)) :
    p.ymin = r.ymin ∧ p.ymax = r.cy ∧ q.ymin = r.cy ∧ q.ymax = r.ymax ∧
    p.xmin = r.xmin ∧ p.xmax = r.xmax ∧ q.xmin = r.xmin ∧ q.xmax = r.xmax ∧ r.ymin < r.cy ∧ r.cy < r.ymax := by
  unfold splitV at h
  simp only [zero_eq, negOne_eq, show (-1 : α) < 0 by linarith, ↓reduceIte] at h
  split at h
  · rename_i hc
    simp only [Option.some.injEq, Prod.mk.injEq] at h
    obtain ⟨rfl, rfl⟩ := h
    refine ⟨?_, ?_, ?_, ?_, rfl, rfl, rfl, rfl, hc.1, hc.2⟩ <;>
      (simp only [xmin, xmax, ymin, ymax, two_eq, duplicate]; ring)
  · simp at h

/-- **halving** (`split()`) always succeeds on a proper rectangle … -/
theorem split_isSome (r : Rect α) (hw : 0 < r.w) (hh : 0 < r.h) : (r.split).isSome = true := by
  unfold split splitV splitH
  simp only [zero_eq, negOne_eq, show (-1 : α) < 0 by linarith, ↓reduceIte, xmin, xmax, ymin, ymax, two_eq]
  have h1 : r.cx - r.w / 2 < r.cx ∧ r.cx < r.cx + r.w / 2 := ⟨by linarith, by linarith⟩
  have h2 : r.cy - r.h / 2 < r.cy ∧ r.cy < r.cy + r.h / 2 := ⟨by linarith, by linarith⟩
  split <;> simp [h1, h2]

/-- … the two halves tile it, are congruent, and the longer side is the one halved. -/
theorem split_tiles (r p q : Rect α) (hw : 0 < r.w) (hh : 0 < r.h) (h : r.split = some (p, q)) :
    Tiles2 r p q ∧ p.w = q.w ∧ p.h = q.h ∧
      (if r.w < r.h then p.w = r.w ∧ p.h = r.h / 2 else p.w = r.w / 2 ∧ p.h = r.h) := by
  unfold split at h
  split at h
  · rename_i hc
    have hs := splitV_half_sides r p q h
    have hi := splitV_inherits r p q _ h
    refine ⟨tiles_of_sidesV r p q r.cy hs hi.1 hi.2, ?_⟩
    obtain ⟨a1, a2, a3, a4, a5, a6, a7, a8, _, _⟩ := hs
    have := xmax_sub_xmin p; have := xmax_sub_xmin q; have := xmax_sub_xmin r
    have := ymax_sub_ymin p; have := ymax_sub_ymin q; have := ymax_sub_ymin r
    have := cy_eq r
    simp only [hc, ↓reduceIte]
    refine ⟨?_, ?_, ?_, ?_⟩ <;> linarith
  · rename_i hc
    have hs := splitH_half_sides r p q h
    have hi := splitH_inherits r p q _ h
    refine ⟨tiles_of_sidesH r p q r.cx hs hi.1 hi.2, ?_⟩
    obtain ⟨a1, a2, a3, a4, a5, a6, a7, a8, _, _⟩ := hs
    have := xmax_sub_xmin p; have := xmax_sub_xmin q; have := xmax_sub_xmin r
    have := ymax_sub_ymin p; have := ymax_sub_ymin q; have := ymax_sub_ymin r
    have := cx_eq r
    simp only [hc, ↓reduceIte]
    refine ⟨?_, ?_, ?_, ?_⟩ <;> linarith


/-! ### gridding -/

/-- closed form of the cell in row `row`, column `col` of `rectangle_grid(nr, nc)`. -/
def gridCell (r : Rect α) (nr nc row col : Nat) : Rect α :=
  { r.duplicate with
    cx := r.cx - r.w / two + r.w / (nc : α) / two + (col : α) * (r.w / (nc : α)),
    cy := r.cy - r.h / two + r.h / (nr : α) / two + (row : α) * (r.h / (nr : α)),
    w := r.w / (nc : α), h := r.h / (nr : α) }

theorem grid_eq (r : Rect α) (nr nc : Nat) (h1 : 0 < nr) (h2 : 0 < nc) :
    r.grid nr nc = some ((List.range nr).flatMap fun row => (List.range nc).map fun col => gridCell r nr nc row col) := by
  unfold grid
  have : ¬ (nr = 0 ∨ nc = 0) := by omega
  simp only [this, ↓reduceIte]; rfl

theorem grid_isSome_iff (r : Rect α) (nr nc : Nat) : (r.grid nr nc).isSome = true ↔ (0 < nr ∧ 0 < nc) := by
  unfold grid; split <;> simp <;> omega

theorem gridCell_sides (r : Rect α) (nr nc row col : Nat) (h1 : 0 < nr) (h2 : 0 < nc) :
    (gridCell r nr nc row col).xmin = r.xmin + (col : α) * (r.w / nc) ∧
    (gridCell r nr nc row col).xmax = r.xmin + ((col : α) + 1) * (r.w / nc) ∧
    (gridCell r nr nc row col).ymin = r.ymin + (row : α) * (r.h / nr) ∧
    (gridCell r nr nc row col).ymax = r.ymin + ((row : α) + 1) * (r.h / nr) := by
  simp only [gridCell, xmin, xmax, ymin, ymax, two_eq]
  refine ⟨?_, ?_, ?_, ?_⟩ <;> ring

theorem mem_grid_iff (r : Rect α) (nr nc : Nat) (cells : List (Rect α)) (h : r.grid nr nc = some cells)
    (c : Rect α) : c ∈ cells ↔ ∃ row < nr, ∃ col < nc, c = gridCell r nr nc row col := by
  have hp := (grid_isSome_iff r nr nc).mp (by simp [h])
  rw [grid_eq r nr nc hp.1 hp.2] at h
  simp only [Option.some.injEq] at h
  subst h
  simp only [List.mem_flatMap, List.mem_range, List.mem_map]
  constructor
  · rintro ⟨row, hr, col, hc, rfl⟩; exact ⟨row, hr, col, hc, rfl⟩
  · rintro ⟨row, hr, col, hc, rfl⟩; exact ⟨row, hr, col, hc, rfl⟩

/-- the grid has `nrows × ncols` cells. -/
theorem grid_length (r : Rect α) (nr nc : Nat) (cells : List (Rect α)) (h : r.grid nr nc = some cells) :
    cells.length = nr * nc := by
  have hp := (grid_isSome_iff r nr nc).mp (by simp [h])
  rw [grid_eq r nr nc hp.1 hp.2] at h
  simp only [Option.some.injEq] at h
  subst h
  simp [List.length_flatMap]

/-- every cell lies inside the rectangle and inherits its attributes. -/
theorem grid_cell_inside (r : Rect α) (nr nc row col : Nat) (hw : 0 < r.w) (hh : 0 < r.h)
    (hr : row < nr) (hc : col < nc) :
    (gridCell r nr nc row col).isInside r = true ∧
    (gridCell r nr nc row col).region = r.region ∧ (gridCell r nr nc row col).fixed = r.fixed ∧
    (gridCell r nr nc row col).hard = r.hard := by
  have h1 : 0 < nr := by omega
  have h2 : 0 < nc := by omega
  obtain ⟨a1, a2, a3, a4⟩ := gridCell_sides r nr nc row col h1 h2
  refine ⟨?_, rfl, rfl, rfl⟩
  simp only [isInside, Bool.and_eq_true, decide_eq_true_eq, a1, a2, a3, a4]
  have n1 : (0 : α) < nc := by exact_mod_cast h2
  have n2 : (0 : α) < nr := by exact_mod_cast h1
  have c1 : ((col : α) + 1) ≤ nc := by exact_mod_cast hc
  have r1 : ((row : α) + 1) ≤ nr := by exact_mod_cast hr
  have c0 : (0 : α) ≤ col := by positivity
  have r0 : (0 : α) ≤ row := by positivity
  have sx : 0 < r.w / nc := div_pos hw n1
  have sy : 0 < r.h / nr := div_pos hh n2
  have ex : (nc : α) * (r.w / nc) = r.w := by field_simp
  have ey : (nr : α) * (r.h / nr) = r.h := by field_simp
  have := xmax_sub_xmin r; have := ymax_sub_ymin r
  refine ⟨⟨⟨?_, ?_⟩, ?_⟩, ?_⟩
  · nlinarith
  · nlinarith
  · nlinarith
  · nlinarith

/-- two different cells do not overlap. -/
theorem grid_cells_disjoint (r : Rect α) (nr nc row col row' col' : Nat) (hw : 0 < r.w) (hh : 0 < r.h)
    (h1 : 0 < nr) (h2 : 0 < nc) (hne : (row, col) ≠ (row', col')) :
    (gridCell r nr nc row col).areaOverlap (gridCell r nr nc row' col') = 0 := by
  obtain ⟨a1, a2, a3, a4⟩ := gridCell_sides r nr nc row col h1 h2
  obtain ⟨b1, b2, b3, b4⟩ := gridCell_sides r nr nc row' col' h1 h2
  have n1 : (0 : α) < nc := by exact_mod_cast h2
  have n2 : (0 : α) < nr := by exact_mod_cast h1
  have sx : 0 < r.w / nc := div_pos hw n1
  have sy : 0 < r.h / nr := div_pos hh n2
  rw [areaOverlap_eq, a1, a2, a3, a4, b1, b2, b3, b4]
  have key : ∀ (s base : α) (i j : Nat), 0 < s → i < j →
      ovLen (base + (i : α) * s) (base + ((i : α) + 1) * s) (base + (j : α) * s) (base + ((j : α) + 1) * s) = 0 := by
    intro s base i j hs hij
    have : ((i : α) + 1) ≤ j := by exact_mod_cast hij
    unfold ovLen
    have e : min (base + ((i : α) + 1) * s) (base + ((j : α) + 1) * s) - max (base + (i : α) * s) (base + (j : α) * s) ≤ 0 := by
      have : base + ((i : α) + 1) * s ≤ base + (j : α) * s := by nlinarith
      have := min_le_left (base + ((i : α) + 1) * s) (base + ((j : α) + 1) * s)
      have := le_max_right (base + (i : α) * s) (base + (j : α) * s)
      linarith
    exact max_eq_left e
  by_cases hcol : col = col'
  · have hrow : row ≠ row' := by intro e; exact hne (by rw [e, hcol])
    rcases Nat.lt_or_gt_of_ne hrow with c | c
    · rw [key _ r.ymin row row' sy c, mul_zero]
    · rw [ovLen_comm (r.ymin + (row : α) * _), key _ r.ymin row' row sy c, mul_zero]
  · rcases Nat.lt_or_gt_of_ne hcol with c | c
    · rw [key _ r.xmin col col' sx c, zero_mul]
    · rw [ovLen_comm (r.xmin + (col : α) * _), key _ r.xmin col' col sx c, zero_mul]

/-- the cells' areas add up to the rectangle's area. -/
theorem grid_area_sum (r : Rect α) (nr nc : Nat) (cells : List (Rect α)) (h : r.grid nr nc = some cells) :
    (cells.map Rect.area).sum = r.area := by
  have hp := (grid_isSome_iff r nr nc).mp (by simp [h])
  have hl := grid_length r nr nc cells h
  have hall : ∀ c ∈ cells.map Rect.area, c = r.w / nc * (r.h / nr) := by
    intro a ha
    obtain ⟨c, hc, rfl⟩ := List.mem_map.mp ha
    obtain ⟨row, _, col, _, rfl⟩ := (mem_grid_iff r nr nc cells h c).mp hc
    rfl
  rw [List.eq_replicate_of_mem hall, List.sum_replicate, List.length_map, hl]
  have n1 : (nc : α) ≠ 0 := by exact_mod_cast (Nat.pos_iff_ne_zero.mp hp.2)
  have n2 : (nr : α) ≠ 0 := by exact_mod_cast (Nat.pos_iff_ne_zero.mp hp.1)
  simp only [nsmul_eq_mul, Nat.cast_mul, area]
  field_simp

/-- every point of the rectangle lies in some cell. -/
theorem grid_cover (r : Rect α) (nr nc : Nat) (hw : 0 < r.w) (hh : 0 < r.h) (h1 : 0 < nr) (h2 : 0 < nc)
    (x y : α) (hm : Mem r x y) : ∃ row < nr, ∃ col < nc, Mem (gridCell r nr nc row col) x y := by
  have key : ∀ (s base v : α) (n : Nat), 0 < s → base ≤ v → v ≤ base + (n : α) * s → 0 < n →
      ∃ i < n, base + (i : α) * s ≤ v ∧ v ≤ base + ((i : α) + 1) * s := by
    intro s base v n hs hb
    induction n with
    | zero => intro _ h0; omega
    | succ k ih =>
      intro hv _
      by_cases hk : base + (k : α) * s ≤ v
      · exact ⟨k, by omega, hk, by push_cast at hv; linarith⟩
      · push Not at hk
        by_cases k0 : k = 0
        · subst k0; simp at hk; linarith
        · obtain ⟨i, hi, hi2⟩ := ih (le_of_lt hk) (by omega)
          exact ⟨i, by omega, hi2⟩
  obtain ⟨m1, m2, m3, m4⟩ := hm
  have n1 : (nc : α) ≠ 0 := by exact_mod_cast (Nat.pos_iff_ne_zero.mp h2)
  have n2 : (nr : α) ≠ 0 := by exact_mod_cast (Nat.pos_iff_ne_zero.mp h1)
  have ex : (nc : α) * (r.w / nc) = r.w := by field_simp
  have ey : (nr : α) * (r.h / nr) = r.h := by field_simp
  have := xmax_sub_xmin r; have := ymax_sub_ymin r
  obtain ⟨col, hc, c1, c2⟩ := key (r.w / nc) r.xmin x nc (div_pos hw (by positivity)) m1 (by linarith) h2
  obtain ⟨row, hr, r1, r2⟩ := key (r.h / nr) r.ymin y nr (div_pos hh (by positivity)) m3 (by linarith) h1
  refine ⟨row, hr, col, hc, ?_⟩
  obtain ⟨a1, a2, a3, a4⟩ := gridCell_sides r nr nc row col h1 h2
  simp only [Mem, a1, a2, a3, a4]
  exact ⟨c1, c2, r1, r2⟩

/-- **gridding tiles the rectangle**: all of the above about the actual result of `grid`. -/
theorem grid_tiles (r : Rect α) (nr nc : Nat) (cells : List (Rect α)) (hw : 0 < r.w) (hh : 0 < r.h)
    (h : r.grid nr nc = some cells) :
    cells.length = nr * nc ∧
    (∀ c ∈ cells, c.isInside r = true ∧ c.region = r.region ∧ c.fixed = r.fixed ∧ c.hard = r.hard) ∧
    (∀ i j (hi : i < cells.length) (hj : j < cells.length), i ≠ j → (cells[i]).areaOverlap (cells[j]) = 0) ∧
    (cells.map Rect.area).sum = r.area ∧
    (∀ x y, Mem r x y → ∃ c ∈ cells, Mem c x y) := by
  have hp := (grid_isSome_iff r nr nc).mp (by simp [h])
  refine ⟨grid_length r nr nc cells h, ?_, ?_, grid_area_sum r nr nc cells h, ?_⟩
  · intro c hc
    obtain ⟨row, hr, col, hcol, rfl⟩ := (mem_grid_iff r nr nc cells h c).mp hc
    exact grid_cell_inside r nr nc row col hw hh hr hcol
  · intro i j hi hj hij
    have hl := grid_length r nr nc cells h
    have hg := grid_eq r nr nc hp.1 hp.2
    rw [h] at hg
    simp only [Option.some.injEq] at hg
    have idx : ∀ k (hk : k < cells.length), cells[k] = gridCell r nr nc (k / nc) (k % nc) := by
      intro k hk
      subst hg
      have hk' : k < nr * nc := by rw [← hl]; exact hk
      have : ∀ (n : Nat) (k : Nat) (hk : k < ((List.range n).flatMap fun row => (List.range nc).map fun col => gridCell r nr nc row col).length),
          ((List.range n).flatMap fun row => (List.range nc).map fun col => gridCell r nr nc row col)[k] = gridCell r nr nc (k / nc) (k % nc) := by
        intro n
        induction n with
        | zero => intro k hk; simp at hk
        | succ m ih =>
          intro k hk
          simp only [List.range_succ, List.flatMap_append, List.flatMap_cons, List.flatMap_nil, List.append_nil]
          have hlen : ((List.range m).flatMap fun row => (List.range nc).map fun col => gridCell r nr nc row col).length = m * nc := by
            simp [List.length_flatMap]
          by_cases hlt : k < m * nc
          · rw [List.getElem_append_left (by rw [hlen]; exact hlt)]
            exact ih k (by rw [hlen]; exact hlt)
          · rw [List.getElem_append_right (by rw [hlen]; omega)]
            simp only [hlen, List.getElem_map, List.getElem_range]
            have hk2 : k < (m + 1) * nc := by
              have : ((List.range (m+1)).flatMap fun row => (List.range nc).map fun col => gridCell r nr nc row col).length = (m+1) * nc := by
                simp [List.length_flatMap]
              rw [this] at hk; exact hk
            have hk3 : k - m * nc < nc := by
              have : (m + 1) * nc = m * nc + nc := by ring
              omega
            have e1 : k / nc = m := Nat.div_eq_of_lt_le (Nat.le_of_not_lt hlt) hk2
            have e2 : k % nc = k - m * nc := by
              have := Nat.div_add_mod k nc
              rw [e1] at this
              have : nc * m = m * nc := Nat.mul_comm _ _
              omega
            rw [e1, e2]
      exact this nr k hk
    rw [idx i hi, idx j hj]
    apply grid_cells_disjoint r nr nc _ _ _ _ hw hh hp.1 hp.2
    intro e
    simp only [Prod.mk.injEq] at e
    have := Nat.div_add_mod i nc
    have := Nat.div_add_mod j nc
    rw [e.1, e.2] at *
    omega
  · intro x y hm
    obtain ⟨row, hr, col, hc, hmem⟩ := grid_cover r nr nc hw hh hp.1 hp.2 x y hm
    exact ⟨_, (mem_grid_iff r nr nc cells h _).mpr ⟨row, hr, col, hc, rfl⟩, hmem⟩

/-! ### cuttability -/

/-- cuttable only if the coordinate is strictly inside. -/
theorem xCuttable_imp_strict_inside (r : Rect α) (x ρ : α) (h : r.xCuttable x ρ = true) :
    r.xmin < x ∧ x < r.xmax := by
  unfold xCuttable at h
  split at h
  · simp at h
  · rename_i hc; push Not at hc; exact hc

theorem yCuttable_imp_strict_inside (r : Rect α) (y ρ : α) (h : r.yCuttable y ρ = true) :
    r.ymin < y ∧ y < r.ymax := by
  unfold yCuttable at h
  split at h
  · simp at h
  · rename_i hc; push Not at hc; exact hc

/-- always cuttable when neither piece is a sliver (thinner than `ρ` × either side of the rectangle). -/
theorem xCuttable_of_no_sliver (r : Rect α) (x ρ : α) (hin : r.xmin < x ∧ x < r.xmax)
    (h1 : ρ * r.h < x - r.xmin) (h2 : ρ * r.h < r.xmax - x) : r.xCuttable x ρ = true := by
  unfold xCuttable
  have : ¬ (x ≤ r.xmin ∨ r.xmax ≤ x) := by push Not; exact hin
  simp only [this, ↓reduceIte, pyMin_eq, decide_eq_true_eq, lt_min_iff]
  exact ⟨h1, h2⟩

theorem yCuttable_of_no_sliver (r : Rect α) (y ρ : α) (hin : r.ymin < y ∧ y < r.ymax)
    (h1 : ρ * r.w < y - r.ymin) (h2 : ρ * r.w < r.ymax - y) : r.yCuttable y ρ = true := by
  unfold yCuttable
  have : ¬ (y ≤ r.ymin ∨ r.ymax ≤ y) := by push Not; exact hin
  simp only [this, ↓reduceIte, pyMin_eq, decide_eq_true_eq, lt_min_iff]
  exact ⟨h1, h2⟩

/-- exact characterisation. -/
theorem xCuttable_iff (r : Rect α) (x ρ : α) :
    r.xCuttable x ρ = true ↔ (r.xmin < x ∧ x < r.xmax ∧ ρ * r.h < x - r.xmin ∧ ρ * r.h < r.xmax - x) := by
  unfold xCuttable
  split
  · rename_i hc; simp only [Bool.false_eq_true, false_iff]; intro ⟨a, b, _⟩; rcases hc with c | c <;> linarith
  · rename_i hc; push Not at hc
    simp only [pyMin_eq, decide_eq_true_eq, lt_min_iff]; tauto

/-! ### equality, duplicate -/

theorem beq_iff (a b : Rect α) :
    a.beq b = true ↔ (a.cx = b.cx ∧ a.cy = b.cy ∧ a.w = b.w ∧ a.h = b.h ∧ a.region = b.region) := by
  simp [beq, and_assoc]

theorem duplicate_same (r : Rect α) :
    r.duplicate.cx = r.cx ∧ r.duplicate.cy = r.cy ∧ r.duplicate.w = r.w ∧ r.duplicate.h = r.h ∧
    r.duplicate.region = r.region ∧ r.duplicate.fixed = r.fixed ∧ r.duplicate.hard = r.hard := by
  simp [duplicate]

/-! ### non-vacuity: concrete rectangles meeting the hypotheses (executed at `Rat`) -/

example : ((⟨1, 1, 2, 2, "_", false, false, .nopoly⟩ : Rect ℚ).inter ⟨2, 2, 2, 2, "_", true, false, .nopoly⟩).isSome = true := by
  decide +kernel
example : ((⟨1, 1, 2, 2, "_", false, false, .nopoly⟩ : Rect ℚ).splitH 1).isSome = true := by decide +kernel
example : ((⟨4, 1, 4, 2, "dsp", true, false, .nopoly⟩ : Rect ℚ).split).isSome = true := by decide +kernel
example : (⟨4, 1, 4, 2, "dsp", true, false, .nopoly⟩ : Rect ℚ).xCuttable 3 (1/100) = true := by decide +kernel

example : ((⟨4, 1, 4, 2, "dsp", true, false, .nopoly⟩ : Rect ℚ).grid 2 3).isSome = true := by decide +kernel

end FV.C18

import FV.Proofs.Die
import FV.Proofs.DieNet
/-
  C01 — Die decomposition is an exact tiling of the die.
  Property theorems only (helper lemmas live in `FV/Proofs/Die.lean`).  All statements are over an arbitrary
  linearly ordered field `α` (exact arithmetic); `Rat`, at which the driver executes the same definitions, is one.
  The model is the code with `fixes/C01_inside_tolerance.diff` and `fixes/C01_area_tolerance.diff` applied.
-/
namespace FV.C01
open FV FV.Rect FV.Die
set_option linter.unusedSectionVars false
set_option linter.unusedVariables false
set_option linter.unusedSimpArgs false

variable {α : Type} [Field α] [LinearOrder α] [IsStrictOrderedRing α]

/-! ### 0. parsing: every input region is taken over unchanged, with its tag -/

/-- the document entry a parsed region comes from. -/
def entryOf (r : Rect α) : YV α := .list [.num r.cx, .num r.cy, .num r.w, .num r.h, .str r.region]

/-- a die rectangle is accepted only as `[cx, cy, w, h, tag]` with non-negative centre, positive size and a tag that is
    an identifier or `#` but not the ground tag; it is taken over verbatim (not fixed, not hard). -/
theorem parseRect_ok (y : YV α) (r : Rect α) (h : parseRect y = .ok r) :
    y = entryOf r ∧ r.fixed = false ∧ r.hard = false ∧ 0 ≤ r.cx ∧ 0 ≤ r.cy ∧ 0 < r.w ∧ 0 < r.h ∧
    r.region ≠ KW_GROUND ∧ (validIdentifier r.region = true ∨ r.region = KW_BLOCKAGE) := by
  unfold parseRect at h
  split at h
  · rename_i a b c d t
    simp only [zero_eq, Bool.and_eq_true, decide_eq_true_eq, Bool.not_eq_true', Bool.or_eq_true, beq_iff_eq] at h
    split at h; · cases h
    rename_i h1
    split at h; · cases h
    rename_i h2
    split at h; · cases h
    rename_i h3
    split at h; · cases h
    rename_i h4
    simp only [Except.ok.injEq] at h
    subst h
    simp only [Bool.not_eq_false, Bool.and_eq_true, decide_eq_true_eq, Bool.or_eq_true, beq_iff_eq] at h1 h2 h4
    refine ⟨rfl, rfl, rfl, h1.1.1.1, h1.1.1.2, h4.1, h4.2, h3, ?_⟩
    rcases h2 with (h2 | h2) | h2
    · exact Or.inl h2
    · exact absurd h2 h3
    · exact Or.inr h2
  · cases h

/-- the accepted documents: a map with exactly the keys `width`, `height`, (`regions`), positive numbers for the two
    sizes, and a non-empty list of entries (or one entry on its own) each accepted by `parseRect`, in document order. -/
theorem parseDie_ok (doc : YV α) (inp : DieIn α) (h : parseDie doc = .ok inp) :
    ∃ kv, doc = .map kv ∧ lookup "width" kv = some (.num inp.W) ∧ lookup "height" kv = some (.num inp.H) ∧
      0 < inp.W ∧ 0 < inp.H ∧
      ((lookup "regions" kv = none ∧ inp.regions = []) ∨
       ∃ ys, ys ≠ [] ∧ (lookup "regions" kv = some (.list ys) ∨ ∃ y, lookup "regions" kv = some y ∧ ys = [y]) ∧
          List.Forall₂ (fun y r => parseRect y = .ok r) ys inp.regions) := by
  unfold parseDie at h
  split at h
  · rename_i kv
    split at h; · cases h
    split at h
    · rename_i w hh hw hh'
      simp only [zero_eq, Bool.not_eq_true', decide_eq_false_iff_not, not_lt] at h
      split at h; · cases h
      rename_i p1
      split at h; · cases h
      rename_i p2
      refine ⟨kv, rfl, ?_⟩
      split at h
      · rename_i hr
        simp only [Except.ok.injEq] at h; subst h
        exact ⟨hw, hh', not_le.mp p1, not_le.mp p2, Or.inl ⟨hr, rfl⟩⟩
      · rename_i x rest hr
        split at h
        · rename_i rs hrs
          simp only [Except.ok.injEq] at h; subst h
          refine ⟨hw, hh', not_le.mp p1, not_le.mp p2, Or.inr ?_⟩
          cases x with
          | num v =>
            exact ⟨[.list (.num v :: rest)], by simp, Or.inr ⟨_, hr, rfl⟩, (mapE_ok _ _ _).mp hrs⟩
          | str v => exact ⟨.str v :: rest, by simp, Or.inl hr, (mapE_ok _ _ _).mp hrs⟩
          | null => exact ⟨.null :: rest, by simp, Or.inl hr, (mapE_ok _ _ _).mp hrs⟩
          | list v => exact ⟨.list v :: rest, by simp, Or.inl hr, (mapE_ok _ _ _).mp hrs⟩
          | map v => exact ⟨.map v :: rest, by simp, Or.inl hr, (mapE_ok _ _ _).mp hrs⟩
        · cases h
      · cases h
    · cases h
  · cases h

/-! ### 1. soundness: what an accepted die satisfies -/

/-- the tiling guarantee carried by every `Die` object: all reported regions inside the die (within the die's distance
    tolerance), pairwise overlap at most the area tolerance, areas summing to the die area within the area-sum tolerance. -/
structure Tiling (ε : Eps α) (out : DieOut α) : Prop where
  inside : ∀ r ∈ out.all, -ε.die ≤ r.xmin ∧ r.xmax ≤ out.W + ε.die ∧ -ε.die ≤ r.ymin ∧ r.ymax ≤ out.H + ε.die
  disjoint : out.all.Pairwise fun a b => a.areaOverlap b ≤ ε.a
  area : |(out.all.map Rect.area).sum - out.W * out.H| < ε.die * max out.W out.H

/-- **die_sound** — whenever the constructor returns (for whatever admissible pick order, whatever class-wide tolerance
    was in force), the reported regions satisfy `Tiling`; specialised regions and blockages are the parsed document
    entries, unchanged and in document order; the fixed regions are the netlist's; ground regions are proper
    rectangles tagged ground. -/
theorem die_sound (sqrt : α → α) (st : Option (α × α)) (doc : YV α) (fixed : List (Rect α))
    (picks : Option (List IRect)) (out : DieOut α) (e : Eps α) (st' : α × α)
    (h : dieModel sqrt st doc fixed picks = .ok (out, e, st')) :
    ∃ inp, parseDie doc = .ok inp ∧ e = (mkEps sqrt st inp.W inp.H).1 ∧ st' = (mkEps sqrt st inp.W inp.H).2 ∧
      out.W = inp.W ∧ out.H = inp.H ∧
      out.specialized = inp.regions.filter (fun r => r.region != KW_BLOCKAGE) ∧
      out.blockages = inp.regions.filter (fun r => r.region == KW_BLOCKAGE) ∧
      out.fixed = fixed ∧
      (∀ g ∈ out.ground, g.region = KW_GROUND ∧ g.fixed = false ∧ g.hard = false ∧ 0 < g.w ∧ 0 < g.h) ∧
      Tiling e out := by
  unfold dieModel at h
  split at h
  · cases h
  · rename_i inp hp
    simp only at h
    split at h
    · cases h
    · rename_i p hpk
      split at h
      · cases h
      · rename_i out' hcore
        simp only [Except.ok.injEq, Prod.mk.injEq] at h
        obtain ⟨rfl, rfl, rfl⟩ := h
        obtain ⟨_, hg, e1, e2, e3, e4, e5, hsc⟩ := dieCore_ok _ _ _ _ _ hcore
        refine ⟨inp, hp, rfl, rfl, e1, e2, e3, e4, e5, ?_, ?_⟩
        · intro g hgm
          obtain ⟨pk, _, hmk⟩ := forall2_mem_right hg g hgm
          obtain ⟨rfl, hw, hh⟩ := mkGround_ok _ _ _ _ hmk
          exact ⟨rfl, rfl, rfl, hw, hh⟩
        · obtain ⟨s1, s2, s3⟩ := (selfCheck_iff _ _ _ _).mp hsc
          exact ⟨by rw [e1, e2]; exact s1, s2, by rw [e1, e2]; exact s3⟩

/-! ### 2. candidates -/

/-- **cands_complete** — `_find_all_ground_rectangles` terminates (the fuel of the model's BFS is never exhausted) and
    returns, as a set, exactly the non-empty index rectangles of the matrix all of whose cells are free. -/
theorem cands_complete (m : Mat) (nr nc : Nat) :
    ∃ L, allFreeRects m nr nc = some L ∧
      ∀ g : IRect, g ∈ L ↔ ((g.rmin ≤ g.rmax ∧ g.rmax < nr ∧ g.cmin ≤ g.cmax ∧ g.cmax < nc) ∧
        ∀ r c, g.rmin ≤ r → r ≤ g.rmax → g.cmin ≤ c → c ≤ g.cmax → m r c = false) := by
  obtain ⟨L, h1, h2⟩ := allFreeRects_spec m nr nc
  refine ⟨L, h1, fun g => ?_⟩
  rw [h2 g, IRect.wf_iff, allFree_iff]
  constructor
  · rintro ⟨a, b⟩; exact ⟨a, fun r c h1 h2 h3 h4 => b r c ((IRect.contains_iff _ _ _).mpr ⟨h1, h2, h3, h4⟩)⟩
  · rintro ⟨a, b⟩
    refine ⟨a, fun r c hc => ?_⟩
    obtain ⟨h1, h2, h3, h4⟩ := (IRect.contains_iff _ _ _).mp hc
    exact b r c h1 h2 h3 h4

/-! ### 3. the cover -/

/-- a pick sequence runs through iff it is a chain of admissible steps (each pick all-free *when it is picked*). -/
theorem cover_run_steps (nr nc : Nat) (m m' : Mat) (g : IRect) (t : List IRect) :
    coverRun nr nc m (g :: t) = some m' ↔ ∃ m1, CoverStep nr nc m g m1 ∧ coverRun nr nc m1 t = some m' :=
  coverRun_cons_iff nr nc m m' g t

/-- **cover_partitions_free** — for EVERY accepted pick sequence: the picks are non-empty index rectangles of the
    matrix, consist of cells that were free, are pairwise cell-disjoint, leave no free cell (every free cell lies in
    a pick), and there are at most as many picks as free cells. -/
theorem cover_partitions_free (nr nc : Nat) (m : Mat) (picks : List IRect) (h : coverAccept nr nc m picks = true) :
    (∀ g ∈ picks, g.wf nr nc = true) ∧
    (∀ g ∈ picks, ∀ r c, g.contains r c = true → m r c = false) ∧
    picks.Pairwise CellDisjoint ∧
    (∀ r c, r < nr → c < nc → m r c = false → ∃ g ∈ picks, g.contains r c = true) ∧
    picks.length ≤ freeCount nr nc m := by
  unfold coverAccept at h
  split at h
  · rename_i m' hrun
    obtain ⟨h1, h2, h3, h4⟩ := coverRun_spec nr nc picks m m' hrun
    refine ⟨h1, h2, h3, ?_, ?_⟩
    · intro r c hr hc hm
      have := (noFree_iff nr nc m').mp h r c hr hc
      rw [h4 r c, hm] at this
      simpa using this
    · have := coverRun_length nr nc picks m m' hrun
      omega
  · cases h

/-- the loop of `_calculate_ground_rectangles` over the candidate *set*, for any choice made by
    `_find_best_rectangle`: if `L` is the set of all-free rectangles of `m` and `g ∈ L` is chosen, then occupying `g`
    is an admissible step, the filtered set is the set of all-free rectangles of the new matrix, and it is strictly
    smaller (the loop terminates). -/
theorem cover_loop_step (nr nc : Nat) (m : Mat) (L : List IRect) (g : IRect) (hL : CandsOf nr nc m L) (hg : g ∈ L) :
    CoverStep nr nc m g (occupy m g) ∧
    CandsOf nr nc (occupy m g) (L.filter fun x => allFree (occupy m g) x) ∧
    (L.filter fun x => allFree (occupy m g) x).length < L.length :=
  ⟨⟨((hL g).mp hg).1, ((hL g).mp hg).2, rfl⟩, candsOf_filter nr nc m L g hL, cands_shrink nr nc m L g hL hg⟩

/-- the loop exits (`len(all_rectangles) == 0`) exactly when no cell of the matrix is free. -/
theorem cover_loop_exit (nr nc : Nat) (m : Mat) (L : List IRect) (hL : CandsOf nr nc m L) :
    L = [] ↔ ∀ r c, r < nr → c < nc → m r c = true := by
  rw [cands_nil_iff nr nc m L hL, noFree_iff]


/-! ### 4. completeness: a valid die is never rejected and is tiled exactly -/

/-- a valid die description (after parsing): every region — document or netlist — has positive size, lies inside the die,
    no two have common area, and distinct boundary coordinates differ by more than the distance tolerance `εd` in force
    (so that `gather_boundaries` merges nothing but equal coordinates). -/
structure ValidDie (εd : α) (inp : DieIn α) (fixed : List (Rect α)) : Prop where
  pos : ∀ r ∈ occRects inp fixed, 0 < r.w ∧ 0 < r.h
  inside : ∀ r ∈ occRects inp fixed, 0 ≤ r.xmin ∧ r.xmax ≤ inp.W ∧ 0 ≤ r.ymin ∧ r.ymax ≤ inp.H
  disjoint : (occRects inp fixed).Pairwise (fun a b => a.areaOverlap b = 0)
  separatedX : Sep εd (boundsX (occRects inp fixed ++ [dieRect inp.W inp.H]))
  separatedY : Sep εd (boundsY (occRects inp fixed ++ [dieRect inp.W inp.H]))

/-- the tiling is exact: inside the die, no common area at all, areas summing to the die area. -/
structure ExactTiling (out : DieOut α) : Prop where
  inside : ∀ r ∈ out.all, 0 ≤ r.xmin ∧ r.xmax ≤ out.W ∧ 0 ≤ r.ymin ∧ r.ymax ≤ out.H
  disjoint : out.all.Pairwise fun a b => a.areaOverlap b = 0
  area : (out.all.map Rect.area).sum = out.W * out.H

/-- the die's own tolerance is positive. -/
theorem mkEps_die_pos (sqrt : α → α) (st : Option (α × α)) (W H : α) (hW : 0 < W) (hH : 0 < H) :
    0 < (mkEps sqrt st W H).1.die := by
  have h1 : (0 : α) < pyMin W H * tenEm11 := by
    rw [pyMin_eq]
    apply mul_pos (lt_min hW hH)
    unfold tenEm11
    apply div_pos <;> norm_num
  unfold mkEps
  cases st with
  | none => exact h1
  | some p => exact h1

/-- **die_complete** — for a valid die, EVERY admissible pick sequence (whatever greedy criterion, whatever set order)
    makes the constructor return, and the reported regions tile the die exactly.  `εd`, `εa` are the class-wide
    tolerances in force (the die's own `min(w,h)·1e-11` and its square root when none was defined before). -/
theorem die_complete (sqrt : α → α) (st : Option (α × α)) (doc : YV α) (fixed : List (Rect α)) (inp : DieIn α)
    (hp : parseDie doc = .ok inp)
    (hεd : 0 ≤ (mkEps sqrt st inp.W inp.H).1.d) (hεa : 0 ≤ (mkEps sqrt st inp.W inp.H).1.a)
    (hv : ValidDie (mkEps sqrt st inp.W inp.H).1.d inp fixed) (picks : List IRect)
    (hacc : coverAccept ((gridOf (mkEps sqrt st inp.W inp.H).1 inp fixed).2.length - 1)
      ((gridOf (mkEps sqrt st inp.W inp.H).1 inp fixed).1.length - 1)
      (occ (gridOf (mkEps sqrt st inp.W inp.H).1 inp fixed).1 (gridOf (mkEps sqrt st inp.W inp.H).1 inp fixed).2
        (occRects inp fixed)) picks = true) :
    ∃ out, dieModel sqrt st doc fixed (some picks) =
        .ok (out, (mkEps sqrt st inp.W inp.H).1, (mkEps sqrt st inp.W inp.H).2) ∧
      ExactTiling out ∧ Tiling (mkEps sqrt st inp.W inp.H).1 out := by
  obtain ⟨kv, _, _, _, hW, hH, _⟩ := parseDie_ok doc inp hp
  have hd := mkEps_die_pos sqrt st inp.W inp.H hW hH
  have hvi : ValidIn (mkEps sqrt st inp.W inp.H).1.d inp.W inp.H (occRects inp fixed) :=
    ⟨hW, hH, hεd, hv.pos, hv.inside, hv.disjoint, hv.separatedX, hv.separatedY⟩
  obtain ⟨out, hcore, e1, e2, _, _, _, _, hin, hpw, hsum⟩ :=
    dieCore_complete (mkEps sqrt st inp.W inp.H).1 inp fixed hvi hεa hd picks hacc
  refine ⟨out, ?_, ⟨by rw [e1, e2]; exact hin, hpw, by rw [e1, e2]; exact hsum⟩, ?_⟩
  · unfold dieModel
    simp only [hp, hcore]
  · have hsc := (dieCore_ok _ _ _ _ _ hcore).2.2.2.2.2.2.2
    obtain ⟨s1, s2, s3⟩ := (selfCheck_iff _ _ _ _).mp hsc
    exact ⟨by rw [e1, e2]; exact s1, s2, by rw [e1, e2]; exact s3⟩

/-- … and admissible pick sequences exist for every matrix (so `die_complete` is not vacuous, and the cover loop can
    always run to the end). -/
theorem cover_exists (nr nc : Nat) (m : Mat) : ∃ picks, coverAccept nr nc m picks = true := by
  obtain ⟨L, _, hL⟩ := allFreeRects_spec m nr nc
  exact exists_cover nr nc L.length m L (le_refl _) hL

/-- **a valid description is never rejected** (fresh process: no class-wide tolerance defined before; `math.sqrt`
    returns non-negative values): there is a run of the constructor that returns, and every run does. -/
theorem die_complete_fresh (sqrt : α → α) (hsqrt : ∀ x, 0 ≤ sqrt x) (doc : YV α) (fixed : List (Rect α)) (inp : DieIn α)
    (hp : parseDie doc = .ok inp) (hv : ValidDie (min inp.W inp.H / 100000000000) inp fixed) :
    (∃ picks out e st', dieModel sqrt none doc fixed (some picks) = .ok (out, e, st') ∧ ExactTiling out) ∧
    ∀ picks, coverAccept ((gridOf (mkEps sqrt none inp.W inp.H).1 inp fixed).2.length - 1)
        ((gridOf (mkEps sqrt none inp.W inp.H).1 inp fixed).1.length - 1)
        (occ (gridOf (mkEps sqrt none inp.W inp.H).1 inp fixed).1 (gridOf (mkEps sqrt none inp.W inp.H).1 inp fixed).2
          (occRects inp fixed)) picks = true →
      ∃ out e st', dieModel sqrt none doc fixed (some picks) = .ok (out, e, st') ∧ ExactTiling out := by
  obtain ⟨kv, _, _, _, hW, hH, _⟩ := parseDie_ok doc inp hp
  have hd := mkEps_die_pos sqrt none inp.W inp.H hW hH
  have ed : (mkEps sqrt none inp.W inp.H).1.d = min inp.W inp.H / 100000000000 := by
    simp only [mkEps, pyMin_eq, tenEm11]
    push_cast
    ring
  have hεd : 0 ≤ (mkEps sqrt none inp.W inp.H).1.d := le_of_lt hd
  have hεa : 0 ≤ (mkEps sqrt none inp.W inp.H).1.a := hsqrt _
  have hv' : ValidDie (mkEps sqrt none inp.W inp.H).1.d inp fixed := by rw [ed]; exact hv
  have hall : ∀ picks, coverAccept ((gridOf (mkEps sqrt none inp.W inp.H).1 inp fixed).2.length - 1)
        ((gridOf (mkEps sqrt none inp.W inp.H).1 inp fixed).1.length - 1)
        (occ (gridOf (mkEps sqrt none inp.W inp.H).1 inp fixed).1 (gridOf (mkEps sqrt none inp.W inp.H).1 inp fixed).2
          (occRects inp fixed)) picks = true →
      ∃ out e st', dieModel sqrt none doc fixed (some picks) = .ok (out, e, st') ∧ ExactTiling out := by
    intro picks hacc
    obtain ⟨out, h1, h2, _⟩ := die_complete sqrt none doc fixed inp hp hεd hεa hv' picks hacc
    exact ⟨out, _, _, h1, h2⟩
  refine ⟨?_, hall⟩
  obtain ⟨picks, hacc⟩ := cover_exists ((gridOf (mkEps sqrt none inp.W inp.H).1 inp fixed).2.length - 1)
        ((gridOf (mkEps sqrt none inp.W inp.H).1 inp fixed).1.length - 1)
        (occ (gridOf (mkEps sqrt none inp.W inp.H).1 inp fixed).1 (gridOf (mkEps sqrt none inp.W inp.H).1 inp fixed).2
          (occRects inp fixed))
  exact ⟨picks, hall picks hacc⟩


/-- validity for a tolerance implies validity for every smaller one (only `Separated` depends on it). -/
theorem validDie_anti {ε ε' : α} {inp : DieIn α} {fixed : List (Rect α)} (hle : ε ≤ ε') (hv : ValidDie ε' inp fixed) :
    ValidDie ε inp fixed :=
  ⟨hv.pos, hv.inside, hv.disjoint, hv.separatedX.anti hle, hv.separatedY.anti hle⟩

/-- **die_complete_inherited** — completeness with ONE separation hypothesis for all histories: if the description is
    valid for a tolerance `εmax` and the class-wide distance tolerance in force (the die's own proposal, or whatever an
    earlier design left behind) is at most `εmax`, every admissible run of the constructor returns with an exact tiling. -/
theorem die_complete_inherited (sqrt : α → α) (st : Option (α × α)) (doc : YV α) (fixed : List (Rect α)) (inp : DieIn α)
    (hp : parseDie doc = .ok inp) (εmax : α)
    (hεd : 0 ≤ (mkEps sqrt st inp.W inp.H).1.d) (hle : (mkEps sqrt st inp.W inp.H).1.d ≤ εmax)
    (hεa : 0 ≤ (mkEps sqrt st inp.W inp.H).1.a)
    (hv : ValidDie εmax inp fixed) (picks : List IRect)
    (hacc : coverAccept ((gridOf (mkEps sqrt st inp.W inp.H).1 inp fixed).2.length - 1)
      ((gridOf (mkEps sqrt st inp.W inp.H).1 inp fixed).1.length - 1)
      (occ (gridOf (mkEps sqrt st inp.W inp.H).1 inp fixed).1 (gridOf (mkEps sqrt st inp.W inp.H).1 inp fixed).2
        (occRects inp fixed)) picks = true) :
    ∃ out, dieModel sqrt st doc fixed (some picks) =
        .ok (out, (mkEps sqrt st inp.W inp.H).1, (mkEps sqrt st inp.W inp.H).2) ∧
      ExactTiling out ∧ Tiling (mkEps sqrt st inp.W inp.H).1 out :=
  die_complete sqrt st doc fixed inp hp hεd hεa (validDie_anti hle hv) picks hacc

/-- **die_output_insensitive** — the decomposition does not depend on the tolerance state inside the separated band:
    for two histories `st`, `st'` whose distance tolerances are both at most `εmax`, a description valid for `εmax`, and
    the SAME pick sequence admissible under `st`: it is admissible under `st'` too and both runs of the constructor
    return the SAME object `out` (same ground, specialised, blockage and fixed lists), an exact tiling.
    (`gridOf`, the cell matrix and hence everything reported are independent of the tolerance; only the tolerances and
    the class-wide state returned alongside differ.) -/
theorem die_output_insensitive (sqrt : α → α) (st st' : Option (α × α)) (doc : YV α) (fixed : List (Rect α))
    (inp : DieIn α) (hp : parseDie doc = .ok inp) (εmax : α) (hv : ValidDie εmax inp fixed)
    (h0 : 0 ≤ (mkEps sqrt st inp.W inp.H).1.d) (hle : (mkEps sqrt st inp.W inp.H).1.d ≤ εmax)
    (ha : 0 ≤ (mkEps sqrt st inp.W inp.H).1.a)
    (h0' : 0 ≤ (mkEps sqrt st' inp.W inp.H).1.d) (hle' : (mkEps sqrt st' inp.W inp.H).1.d ≤ εmax)
    (ha' : 0 ≤ (mkEps sqrt st' inp.W inp.H).1.a) (picks : List IRect)
    (hacc : coverAccept ((gridOf (mkEps sqrt st inp.W inp.H).1 inp fixed).2.length - 1)
      ((gridOf (mkEps sqrt st inp.W inp.H).1 inp fixed).1.length - 1)
      (occ (gridOf (mkEps sqrt st inp.W inp.H).1 inp fixed).1 (gridOf (mkEps sqrt st inp.W inp.H).1 inp fixed).2
        (occRects inp fixed)) picks = true) :
    coverAccept ((gridOf (mkEps sqrt st' inp.W inp.H).1 inp fixed).2.length - 1)
      ((gridOf (mkEps sqrt st' inp.W inp.H).1 inp fixed).1.length - 1)
      (occ (gridOf (mkEps sqrt st' inp.W inp.H).1 inp fixed).1 (gridOf (mkEps sqrt st' inp.W inp.H).1 inp fixed).2
        (occRects inp fixed)) picks = true ∧
    ∃ out, dieModel sqrt st doc fixed (some picks) =
        .ok (out, (mkEps sqrt st inp.W inp.H).1, (mkEps sqrt st inp.W inp.H).2) ∧
      dieModel sqrt st' doc fixed (some picks) =
        .ok (out, (mkEps sqrt st' inp.W inp.H).1, (mkEps sqrt st' inp.W inp.H).2) ∧
      ExactTiling out := by
  obtain ⟨kv, _, _, _, hW, hH, _⟩ := parseDie_ok doc inp hp
  have hvi : ValidIn εmax inp.W inp.H (occRects inp fixed) :=
    ⟨hW, hH, le_trans h0 hle, hv.pos, hv.inside, hv.disjoint, hv.separatedX, hv.separatedY⟩
  obtain ⟨hacc', out, c1, c2, hin, hpw, hsum, e1, e2⟩ :=
    dieCore_insensitive (mkEps sqrt st inp.W inp.H).1 (mkEps sqrt st' inp.W inp.H).1 εmax inp fixed hvi h0 h0' hle hle' ha ha'
      (mkEps_die_pos sqrt st inp.W inp.H hW hH) (mkEps_die_pos sqrt st' inp.W inp.H hW hH) picks hacc
  refine ⟨hacc', out, ?_, ?_, ⟨by rw [e1, e2]; exact hin, hpw, by rw [e1, e2]; exact hsum⟩⟩
  · unfold dieModel; simp only [hp, c1]
  · unfold dieModel; simp only [hp, c2]

/-- … and so does the constructor run with the model's own deterministic cover (`picks = none`): it returns under both
    histories, with the SAME object. -/
theorem die_output_insensitive_det (sqrt : α → α) (st st' : Option (α × α)) (doc : YV α) (fixed : List (Rect α))
    (inp : DieIn α) (hp : parseDie doc = .ok inp) (εmax : α) (hv : ValidDie εmax inp fixed)
    (h0 : 0 ≤ (mkEps sqrt st inp.W inp.H).1.d) (hle : (mkEps sqrt st inp.W inp.H).1.d ≤ εmax)
    (ha : 0 ≤ (mkEps sqrt st inp.W inp.H).1.a)
    (h0' : 0 ≤ (mkEps sqrt st' inp.W inp.H).1.d) (hle' : (mkEps sqrt st' inp.W inp.H).1.d ≤ εmax)
    (ha' : 0 ≤ (mkEps sqrt st' inp.W inp.H).1.a) :
    ∃ out, dieModel sqrt st doc fixed none =
        .ok (out, (mkEps sqrt st inp.W inp.H).1, (mkEps sqrt st inp.W inp.H).2) ∧
      dieModel sqrt st' doc fixed none =
        .ok (out, (mkEps sqrt st' inp.W inp.H).1, (mkEps sqrt st' inp.W inp.H).2) ∧
      ExactTiling out := by
  obtain ⟨kv, _, _, _, hW, hH, _⟩ := parseDie_ok doc inp hp
  have hvi : ValidIn (mkEps sqrt st inp.W inp.H).1.d inp.W inp.H (occRects inp fixed) :=
    ⟨hW, hH, h0, hv.pos, hv.inside, hv.disjoint, hv.separatedX.anti hle, hv.separatedY.anti hle⟩
  obtain ⟨p, hdet⟩ := detPicks_total (mkEps sqrt st inp.W inp.H).1 inp fixed hvi
  have hdet' : detPicks (mkEps sqrt st' inp.W inp.H).1 inp fixed = .ok p := by
    rw [← detPicks_insensitive (mkEps sqrt st inp.W inp.H).1 (mkEps sqrt st' inp.W inp.H).1 εmax inp fixed h0 h0' hle hle'
      hv.separatedX hv.separatedY]
    exact hdet
  have hacc := (detPicks_spec (mkEps sqrt st inp.W inp.H).1 inp fixed).2 p hdet
  obtain ⟨_, out, r1, r2, ht⟩ := die_output_insensitive sqrt st st' doc fixed inp hp εmax hv h0 hle ha h0' hle' ha' p hacc
  refine ⟨out, ?_, ?_, ht⟩
  · unfold dieModel at r1 ⊢; simp only [hp, hdet] at r1 ⊢; exact r1
  · unfold dieModel at r2 ⊢; simp only [hp, hdet'] at r2 ⊢; exact r2

/-- the deterministic instance used in `model` mode (candidates in list order, first of maximal area) is an instance of
    the relational cover: it never fails for lack of fuel and whatever it returns is an admissible complete pick
    sequence — so `die_sound`, `die_complete` apply to `dieModel … none` as well. -/
theorem det_instance_accepted (ε : Eps α) (inp : DieIn α) (fixed : List (Rect α)) :
    detPicks ε inp fixed ≠ .error .trace ∧
    ∀ picks, detPicks ε inp fixed = .ok picks →
      coverAccept ((gridOf ε inp fixed).2.length - 1) ((gridOf ε inp fixed).1.length - 1)
        (occ (gridOf ε inp fixed).1 (gridOf ε inp fixed).2 (occRects inp fixed)) picks = true :=
  detPicks_spec ε inp fixed

/-! ### 5. rejection (corollaries of soundness) -/

/-- **die_rejects** (a) — a region (document or netlist) leaving the die by more than the die's distance tolerance makes
    the constructor fail, whatever picks are offered. -/
theorem die_rejects_outside (sqrt : α → α) (st : Option (α × α)) (doc : YV α) (fixed : List (Rect α)) (inp : DieIn α)
    (hp : parseDie doc = .ok inp) (r : Rect α) (hr : r ∈ inp.regions ∨ r ∈ fixed)
    (hout : r.xmin < -(mkEps sqrt st inp.W inp.H).1.die ∨ inp.W + (mkEps sqrt st inp.W inp.H).1.die < r.xmax ∨
            r.ymin < -(mkEps sqrt st inp.W inp.H).1.die ∨ inp.H + (mkEps sqrt st inp.W inp.H).1.die < r.ymax)
    (picks : Option (List IRect)) : ∃ err, dieModel sqrt st doc fixed picks = .error err := by
  cases hres : dieModel sqrt st doc fixed picks with
  | error err => exact ⟨err, rfl⟩
  | ok res =>
    exfalso
    obtain ⟨out, e, st'⟩ := res
    obtain ⟨inp', hp', he, _, e1, e2, e3, e4, e5, _, ht⟩ := die_sound sqrt st doc fixed picks out e st' hres
    rw [hp] at hp'
    simp only [Except.ok.injEq] at hp'
    subst hp'
    have hmem : r ∈ out.all := by
      unfold DieOut.all
      rw [e3, e4, e5]
      exact mem_regions_all inp fixed out.ground r hr
    obtain ⟨a1, a2, a3, a4⟩ := ht.inside r hmem
    rw [e1] at a2; rw [e2] at a4; rw [he] at a1 a2 a3 a4
    rcases hout with c | c | c | c <;> linarith

/-- **die_rejects** (b) — two input regions (document or netlist, at different positions) whose common area exceeds the
    area tolerance make the constructor fail, whatever picks are offered. -/
theorem die_rejects_overlap (sqrt : α → α) (st : Option (α × α)) (doc : YV α) (fixed : List (Rect α)) (inp : DieIn α)
    (hp : parseDie doc = .ok inp) (i j : Nat) (hi : i < j) (hj : j < (occRects inp fixed).length)
    (hov : (mkEps sqrt st inp.W inp.H).1.a < ((occRects inp fixed)[i]'(by omega)).areaOverlap ((occRects inp fixed)[j]))
    (picks : Option (List IRect)) : ∃ err, dieModel sqrt st doc fixed picks = .error err := by
  cases hres : dieModel sqrt st doc fixed picks with
  | error err => exact ⟨err, rfl⟩
  | ok res =>
    exfalso
    obtain ⟨out, e, st'⟩ := res
    obtain ⟨inp', hp', he, _, e1, e2, e3, e4, e5, _, ht⟩ := die_sound sqrt st doc fixed picks out e st' hres
    rw [hp] at hp'
    simp only [Except.ok.injEq] at hp'
    subst hp'
    have hpw := ht.disjoint
    unfold DieOut.all at hpw
    rw [e3, e4, e5] at hpw
    have hsub := List.Pairwise.sublist (occRects_sublist inp fixed out.ground) hpw
    have := (List.pairwise_iff_getElem.mp hsub) i j (by omega) hj hi
    rw [he] at this
    exact absurd hov (not_lt.mpr this)

/-- regions that live on their own Hanan grid (what `ValidDie` asks, minus disjointness): positive sizes, inside the die,
    distinct boundary coordinates further apart than the distance tolerance in force. -/
structure OnGrid (εd : α) (inp : DieIn α) (fixed : List (Rect α)) : Prop where
  pos : ∀ r ∈ occRects inp fixed, 0 < r.w ∧ 0 < r.h
  inside : ∀ r ∈ occRects inp fixed, 0 ≤ r.xmin ∧ r.xmax ≤ inp.W ∧ 0 ≤ r.ymin ∧ r.ymax ≤ inp.H
  separatedX : Sep εd (boundsX (occRects inp fixed ++ [dieRect inp.W inp.H]))
  separatedY : Sep εd (boundsY (occRects inp fixed ++ [dieRect inp.W inp.H]))

/-- **die_rejects** (c) — overlaps too small for the pairwise test are rejected by the area-sum test: if the regions lie
    on their Hanan grid inside the die and two of them (at different positions) have common area at least
    `ε.die · max W H` — the exact threshold of the area-sum test: for an exact cover the reported areas sum to `W·H` plus
    the doubly covered area — the constructor fails, whatever picks are offered.  Together with (b) every overlap of at
    least `min(ε.die · max W H, anything above ε.a)` is rejected. -/
theorem die_rejects_small_overlap (sqrt : α → α) (st : Option (α × α)) (doc : YV α) (fixed : List (Rect α))
    (inp : DieIn α) (hp : parseDie doc = .ok inp)
    (hεd : 0 ≤ (mkEps sqrt st inp.W inp.H).1.d) (hg : OnGrid (mkEps sqrt st inp.W inp.H).1.d inp fixed)
    (i j : Nat) (hi : i < j) (hj : j < (occRects inp fixed).length)
    (hov : (mkEps sqrt st inp.W inp.H).1.die * max inp.W inp.H ≤
      ((occRects inp fixed)[i]'(by omega)).areaOverlap ((occRects inp fixed)[j]))
    (picks : Option (List IRect)) : ∃ err, dieModel sqrt st doc fixed picks = .error err := by
  obtain ⟨kv, _, _, _, hW, hH, _⟩ := parseDie_ok doc inp hp
  have hgi : GridIn (mkEps sqrt st inp.W inp.H).1.d inp.W inp.H (occRects inp fixed) :=
    ⟨hW, hH, hεd, hg.pos, hg.inside, hg.separatedX, hg.separatedY⟩
  have hnp : ¬ (occRects inp fixed).Pairwise
      (fun x y => x.areaOverlap y < (mkEps sqrt st inp.W inp.H).1.die * max inp.W inp.H) := by
    intro hpw
    have := (List.pairwise_iff_getElem.mp hpw) i j (by omega) hj hi
    exact absurd hov (not_le.mpr this)
  unfold dieModel
  simp only [hp]
  split
  · exact ⟨_, rfl⟩
  · rename_i p _
    obtain ⟨err, herr⟩ := dieCore_rejects_excess (mkEps sqrt st inp.W inp.H).1 inp fixed hgi hnp p
    rw [herr]
    exact ⟨_, rfl⟩


/-! ### 6. the constructor from its DOCUMENTS: source kinds, the `<w>x<h>` shorthand, the attached netlist

`FV/Model/DieNet.lean`: `construct` = the caller's `Netlist(ndoc)` (C05 reader model: it installs the class-wide tolerance when
none is defined) followed by `Die(stream, netlist)`: `parse_yaml_die` on a `str` / tree / other object, then
`self._fixed = netlist.fixed_rectangles()` and the constructor body of sections 1–5.  The fixed rectangles are no longer an
input of the model: they are computed from the netlist document. -/
section documents
open FV.DieNet

/-- **the shorthand is the tree** — `Die("<w>x<h>")` is `Die({width: w, height: h})`: whenever the string splits at `x` into
    two pieces `float()` accepts, the parse result (shape or `AssertionError`) is that of the two-key tree. -/
theorem shorthand_is_tree (pf : List Char → Option α) (ry : String → Option (YV α)) (s : String) (a b : List Char) (w h : α)
    (hs : splitX s.toList = [a, b]) (ha : pf a = some w) (hb : pf b = some h) :
    parseYamlDie pf ry (.str s) = parseYamlDie pf ry (.tree (shortTree w h)) := by
  unfold parseYamlDie stringDie
  simp only [hs, ha, hb, parseDie_shortTree, zero_eq, Bool.and_eq_true, decide_eq_true_eq]
  by_cases hc : 0 < w ∧ 0 < h
  · simp only [hc, and_self, ↓reduceIte]
  · simp only [hc, ↓reduceIte]

/-- … and a string that is not of that form is whatever `read_yaml` makes of it (text layer), parsed as a tree; an open text
    stream is read and parsed as a tree (never as the shorthand); an object of any other kind is rejected. -/
theorem parse_sources (pf : List Char → Option α) (ry : String → Option (YV α)) :
    (∀ s, stringDie pf s = none → ∀ t, ry s = some t → parseYamlDie pf ry (.str s) = parseYamlDie pf ry (.tree t)) ∧
    (∀ s, stringDie pf s = none → ry s = none → parseYamlDie pf ry (.str s) = .error .text) ∧
    (∀ t, parseYamlDie pf ry (.handle (some t)) = parseYamlDie pf ry (.tree t)) ∧
    parseYamlDie pf ry (.handle none) = .error .text ∧
    parseYamlDie pf ry .other = .error .assert := by
  refine ⟨fun s hs t ht => ?_, fun s hs ht => ?_, fun t => rfl, rfl, rfl⟩
  · unfold parseYamlDie; simp only [hs, ht]
  · unfold parseYamlDie; simp only [hs, ht]

/-- whatever the source kind, an accepted die document has positive sizes and regions accepted by `parseRect`. -/
theorem parseYamlDie_sound (pf : List Char → Option α) (ry : String → Option (YV α)) (src : Src α) (inp : DieIn α)
    (h : parseYamlDie pf ry src = .ok inp) :
    0 < inp.W ∧ 0 < inp.H ∧ ∀ r ∈ inp.regions, parseRect (entryOf r) = .ok r := by
  rcases parseYamlDie_ok pf ry src inp h with ⟨s, a, b, _, _, _, _, hW, hH, hr⟩ | ⟨t, _, hp⟩
  · exact ⟨hW, hH, by rw [hr]; intro r hr'; cases hr'⟩
  · obtain ⟨kv, _, _, _, hW, hH, hreg⟩ := parseDie_ok t inp hp
    refine ⟨hW, hH, ?_⟩
    rcases hreg with ⟨_, hnil⟩ | ⟨ys, _, _, hF⟩
    · rw [hnil]; intro r hr'; cases hr'
    · intro r hr'
      obtain ⟨y, _, hy⟩ := forall2_mem_right hF r hr'
      obtain ⟨rfl, _⟩ := parseRect_ok y r hy
      exact hy

/-- **construct_sound** — whenever `Die(stream, netlist)` returns (any source kind, with or without a netlist, any
    admissible pick order, any tolerance history): the die document was accepted (`inp`), the tolerances in force are the
    ones the netlist stage left (`st1`), the reported regions satisfy `Tiling`, specialised regions and blockages are the
    document's entries unchanged, the fixed regions are exactly what the netlist stage computed, ground regions are proper
    rectangles tagged ground. -/
theorem construct_sound (pf : List Char → Option α) (ry : String → Option (YV α)) (sqrt : α → α) (tiny : α)
    (stogOf : α → α → List (NL.NRect α) → List (NL.NRect α)) (st : Option (α × α)) (ndoc : Option (YVal α))
    (src : Src α) (picks : Option (List IRect)) (out : DieOut α) (e : Eps α) (st' : α × α)
    (h : construct pf ry sqrt tiny stogOf st ndoc src picks = .ok (out, e, st')) :
    ∃ st1 fixed inp, PreOK sqrt tiny stogOf st ndoc st1 fixed ∧ parseYamlDie pf ry src = .ok inp ∧
      e = (mkEps sqrt st1 inp.W inp.H).1 ∧ st' = (mkEps sqrt st1 inp.W inp.H).2 ∧
      out.W = inp.W ∧ out.H = inp.H ∧
      out.specialized = inp.regions.filter (fun r => r.region != KW_BLOCKAGE) ∧
      out.blockages = inp.regions.filter (fun r => r.region == KW_BLOCKAGE) ∧
      out.fixed = fixed ∧
      (∀ g ∈ out.ground, g.region = KW_GROUND ∧ g.fixed = false ∧ g.hard = false ∧ 0 < g.w ∧ 0 < g.h) ∧
      Tiling e out := by
  obtain ⟨st1, fixed, inp, hpre, hp, hd⟩ := construct_ok pf ry sqrt tiny stogOf st ndoc src picks _ h
  obtain ⟨he, hst, p, _, hcore⟩ := dieOfIn_ok sqrt st1 inp fixed picks out e st' hd
  obtain ⟨_, hg, e1, e2, e3, e4, e5, hsc⟩ := dieCore_ok _ _ _ _ _ hcore
  refine ⟨st1, fixed, inp, hpre, hp, he, hst, e1, e2, e3, e4, e5, ?_, ?_⟩
  · intro g hgm
    obtain ⟨pk, _, hmk⟩ := forall2_mem_right hg g hgm
    obtain ⟨rfl, hw, hh⟩ := mkGround_ok _ _ _ _ hmk
    exact ⟨rfl, rfl, rfl, hw, hh⟩
  · obtain ⟨s1, s2, s3⟩ := (selfCheck_iff _ _ _ _).mp hsc
    rw [he]
    exact ⟨by rw [e1, e2]; exact s1, s2, by rw [e1, e2]; exact s3⟩

/-- **the reported fixed regions are the netlist's fixed rectangles** — for a die built with a netlist document: the netlist
    was accepted by the reader (`parseDoc`, `finish` under the tolerance state `τ` it leaves behind), `τ` is the tolerance
    defined before or else the netlist's own proposal (none for a netlist of terminals only), the die ran in the state `τ`
    (when `τ` is defined: under exactly these tolerances, and leaves them in force), and `fixed_regions` is, in document order,
    every rectangle of every module whose entry says `fixed: true` and nothing else — each flagged fixed and hard, tagged
    ground, of positive size.  Without a netlist there are no fixed regions. -/
theorem construct_fixed_of_netlist (pf : List Char → Option α) (ry : String → Option (YV α)) (sqrt : α → α) (tiny : α)
    (stogOf : α → α → List (NL.NRect α) → List (NL.NRect α)) (st : Option (α × α)) (ndoc : Option (YVal α))
    (src : Src α) (picks : Option (List IRect)) (out : DieOut α) (e : Eps α) (st' : α × α)
    (h : construct pf ry sqrt tiny stogOf st ndoc src picks = .ok (out, e, st')) :
    (ndoc = none → out.fixed = []) ∧
    (∀ nd, ndoc = some nd → ∃ ms es nl τ, NL.parseDoc nd = .ok (ms, es) ∧ epsAfterNetlist sqrt tiny st ms = τ ∧
      NL.finish (stogOf (tolOf τ).1 (tolOf τ).2) (tolOf τ).2 ms es = .ok nl ∧
      (∀ p, τ = some p → e.d = p.1 ∧ e.a = p.2 ∧ st' = p) ∧
      out.fixed = ((ms.filter (·.fixed)).flatMap (·.rects)).map NL.NRect.toRect ∧
      ∀ r ∈ out.fixed, r.fixed = true ∧ r.hard = true ∧ r.region = KW_GROUND ∧ 0 < r.w ∧ 0 < r.h ∧
        ∃ m ∈ ms, m.fixed = true ∧ ∃ q ∈ m.rects, r = q.toRect) := by
  obtain ⟨st1, fixed, inp, hpre, _, he, hst, _, _, _, _, hfx, _, _⟩ :=
    construct_sound pf ry sqrt tiny stogOf st ndoc src picks out e st' h
  constructor
  · intro hn
    rcases hpre with ⟨_, _, hf⟩ | ⟨nd, _, hnd, _⟩
    · rw [hfx, hf]
    · rw [hn] at hnd; cases hnd
  · intro nd hnd
    rcases hpre with ⟨hn, _, _⟩ | ⟨nd', l, hnd', hl, hst1, hf⟩
    · rw [hn] at hnd; cases hnd
    · rw [hnd] at hnd'
      cases hnd'
      obtain ⟨ms, es, hd, hτ, hfin, hlf⟩ := loadNetlist_ok sqrt tiny stogOf st nd l hl
      refine ⟨ms, es, l.netlist, l.st, hd, hτ, hfin, ?_, ?_, ?_⟩
      · intro p hp
        rw [he, hst, hst1, hp]
        exact ⟨rfl, rfl, rfl⟩
      · rw [hfx, hf, hlf, fixedRects_eq hd]
      · intro r hr
        rw [hfx, hf, hlf] at hr
        obtain ⟨a1, a2, a3, a4, a5, _, _, _, a9⟩ := fixedRects_ok hd r hr
        exact ⟨a1, a2, a3, a4, a5, a9⟩

/-- a netlist the reader rejects never reaches the die: `Netlist(ndoc)` raises in the caller, before `Die(...)`. -/
theorem construct_netlist_rejected (pf : List Char → Option α) (ry : String → Option (YV α)) (sqrt : α → α) (tiny : α)
    (stogOf : α → α → List (NL.NRect α) → List (NL.NRect α)) (st : Option (α × α)) (nd : YVal α) (src : Src α)
    (picks : Option (List IRect)) (err : DieNet.Err) (h : loadNetlist sqrt tiny stogOf st nd = .error err) :
    construct pf ry sqrt tiny stogOf st (some nd) src picks = .error err := by
  unfold construct
  simp only [h]

/-- **construct_complete** — a valid description is never rejected, from the documents: if the netlist stage succeeded
    (`PreOK`: no netlist, or a netlist the reader accepts, leaving the tolerance state `st1` and the fixed rectangles
    `fixed` it computed), the die document is accepted in whatever form it was given, and the description — document regions
    AND the netlist's fixed rectangles — is a `ValidDie` for the distance tolerance in force, then EVERY admissible pick
    sequence makes the constructor return, with an exact tiling whose fixed regions are the netlist's. -/
theorem construct_complete (pf : List Char → Option α) (ry : String → Option (YV α)) (sqrt : α → α) (tiny : α)
    (stogOf : α → α → List (NL.NRect α) → List (NL.NRect α)) (st : Option (α × α)) (ndoc : Option (YVal α))
    (src : Src α) (st1 : Option (α × α)) (fixed : List (Rect α)) (inp : DieIn α)
    (hpre : PreOK sqrt tiny stogOf st ndoc st1 fixed) (hp : parseYamlDie pf ry src = .ok inp)
    (hεd : 0 ≤ (mkEps sqrt st1 inp.W inp.H).1.d) (hεa : 0 ≤ (mkEps sqrt st1 inp.W inp.H).1.a)
    (hv : ValidDie (mkEps sqrt st1 inp.W inp.H).1.d inp fixed) (picks : List IRect)
    (hacc : coverAccept ((gridOf (mkEps sqrt st1 inp.W inp.H).1 inp fixed).2.length - 1)
      ((gridOf (mkEps sqrt st1 inp.W inp.H).1 inp fixed).1.length - 1)
      (occ (gridOf (mkEps sqrt st1 inp.W inp.H).1 inp fixed).1 (gridOf (mkEps sqrt st1 inp.W inp.H).1 inp fixed).2
        (occRects inp fixed)) picks = true) :
    ∃ out, construct pf ry sqrt tiny stogOf st ndoc src (some picks) =
        .ok (out, (mkEps sqrt st1 inp.W inp.H).1, (mkEps sqrt st1 inp.W inp.H).2) ∧
      ExactTiling out ∧ Tiling (mkEps sqrt st1 inp.W inp.H).1 out ∧ out.fixed = fixed := by
  obtain ⟨hW, hH, _⟩ := parseYamlDie_sound pf ry src inp hp
  have hd := mkEps_die_pos sqrt st1 inp.W inp.H hW hH
  have hvi : ValidIn (mkEps sqrt st1 inp.W inp.H).1.d inp.W inp.H (occRects inp fixed) :=
    ⟨hW, hH, hεd, hv.pos, hv.inside, hv.disjoint, hv.separatedX, hv.separatedY⟩
  obtain ⟨out, hcore, e1, e2, _, _, _, _, hin, hpw, hsum⟩ :=
    dieCore_complete (mkEps sqrt st1 inp.W inp.H).1 inp fixed hvi hεa hd picks hacc
  have hfx := (dieCore_ok _ _ _ _ _ hcore).2.2.2.2.2.2.1
  refine ⟨out, ?_, ⟨by rw [e1, e2]; exact hin, hpw, by rw [e1, e2]; exact hsum⟩, ?_, hfx⟩
  · rw [construct_eq pf ry sqrt tiny stogOf st ndoc src (some picks) st1 fixed inp hpre hp, dieOfIn_some]
    simp only [hcore]
  · have hsc := (dieCore_ok _ _ _ _ _ hcore).2.2.2.2.2.2.2
    obtain ⟨s1, s2, s3⟩ := (selfCheck_iff _ _ _ _).mp hsc
    exact ⟨by rw [e1, e2]; exact s1, s2, by rw [e1, e2]; exact s3⟩

/-- **construct_rejects** (a) — a region of the die document OR a fixed rectangle of the netlist leaving the die by more than
    the die's distance tolerance makes `Die(stream, netlist)` fail, whatever picks are offered. -/
theorem construct_rejects_outside (pf : List Char → Option α) (ry : String → Option (YV α)) (sqrt : α → α) (tiny : α)
    (stogOf : α → α → List (NL.NRect α) → List (NL.NRect α)) (st : Option (α × α)) (ndoc : Option (YVal α))
    (src : Src α) (st1 : Option (α × α)) (fixed : List (Rect α)) (inp : DieIn α)
    (hpre : PreOK sqrt tiny stogOf st ndoc st1 fixed) (hp : parseYamlDie pf ry src = .ok inp)
    (r : Rect α) (hr : r ∈ inp.regions ∨ r ∈ fixed)
    (hout : r.xmin < -(mkEps sqrt st1 inp.W inp.H).1.die ∨ inp.W + (mkEps sqrt st1 inp.W inp.H).1.die < r.xmax ∨
            r.ymin < -(mkEps sqrt st1 inp.W inp.H).1.die ∨ inp.H + (mkEps sqrt st1 inp.W inp.H).1.die < r.ymax)
    (picks : Option (List IRect)) : ∃ err, construct pf ry sqrt tiny stogOf st ndoc src picks = .error err := by
  rw [construct_eq pf ry sqrt tiny stogOf st ndoc src picks st1 fixed inp hpre hp]
  cases hres : dieOfIn sqrt st1 inp fixed picks with
  | error err => exact ⟨_, rfl⟩
  | ok res =>
    exfalso
    obtain ⟨out, e, st'⟩ := res
    obtain ⟨he, _, p, _, hcore⟩ := dieOfIn_ok sqrt st1 inp fixed picks out e st' hres
    obtain ⟨_, _, e1, e2, e3, e4, e5, hsc⟩ := dieCore_ok _ _ _ _ _ hcore
    obtain ⟨s1, _, _⟩ := (selfCheck_iff _ _ _ _).mp hsc
    have hmem : r ∈ out.all := by
      unfold DieOut.all
      rw [e3, e4, e5]
      exact mem_regions_all inp fixed out.ground r hr
    obtain ⟨a1, a2, a3, a4⟩ := s1 r hmem
    rcases hout with c | c | c | c <;> linarith

/-- **construct_rejects** (b) — two input regions (document or netlist) whose common area exceeds the area tolerance in force
    make `Die(stream, netlist)` fail, whatever picks are offered. -/
theorem construct_rejects_overlap (pf : List Char → Option α) (ry : String → Option (YV α)) (sqrt : α → α) (tiny : α)
    (stogOf : α → α → List (NL.NRect α) → List (NL.NRect α)) (st : Option (α × α)) (ndoc : Option (YVal α))
    (src : Src α) (st1 : Option (α × α)) (fixed : List (Rect α)) (inp : DieIn α)
    (hpre : PreOK sqrt tiny stogOf st ndoc st1 fixed) (hp : parseYamlDie pf ry src = .ok inp)
    (i j : Nat) (hi : i < j) (hj : j < (occRects inp fixed).length)
    (hov : (mkEps sqrt st1 inp.W inp.H).1.a < ((occRects inp fixed)[i]'(by omega)).areaOverlap ((occRects inp fixed)[j]))
    (picks : Option (List IRect)) : ∃ err, construct pf ry sqrt tiny stogOf st ndoc src picks = .error err := by
  rw [construct_eq pf ry sqrt tiny stogOf st ndoc src picks st1 fixed inp hpre hp]
  cases hres : dieOfIn sqrt st1 inp fixed picks with
  | error err => exact ⟨_, rfl⟩
  | ok res =>
    exfalso
    obtain ⟨out, e, st'⟩ := res
    obtain ⟨he, _, p, _, hcore⟩ := dieOfIn_ok sqrt st1 inp fixed picks out e st' hres
    obtain ⟨_, _, e1, e2, e3, e4, e5, hsc⟩ := dieCore_ok _ _ _ _ _ hcore
    obtain ⟨_, hpw, _⟩ := (selfCheck_iff _ _ _ _).mp hsc
    unfold DieOut.all at hpw
    rw [e3, e4, e5] at hpw
    have hsub := List.Pairwise.sublist (occRects_sublist inp fixed out.ground) hpw
    have := (List.pairwise_iff_getElem.mp hsub) i j (by omega) hj hi
    exact absurd hov (not_lt.mpr this)

/-- the constructor of sections 1–5 is the tree / rectangle-list instance of `construct`: `dieModel` on a document tree with
    no netlist is `construct` on that tree. -/
theorem construct_tree_no_netlist (pf : List Char → Option α) (ry : String → Option (YV α)) (sqrt : α → α) (tiny : α)
    (stogOf : α → α → List (NL.NRect α) → List (NL.NRect α)) (st : Option (α × α)) (doc : YV α)
    (picks : Option (List IRect)) :
    construct pf ry sqrt tiny stogOf st none (.tree doc) picks =
      match dieModel sqrt st doc [] picks with
      | .error e => .error (Err.ofDie e)
      | .ok r => .ok r := by
  rw [dieModel_eq]
  unfold construct parseYamlDie
  dsimp only
  cases parseDie doc with
  | error e => rfl
  | ok inp =>
    dsimp only
    cases dieOfIn sqrt st inp [] picks <;> rfl

end documents

/-! ### non-vacuity: the die of `tests/frame/die/test_die.py` (`die7` with its netlist), executed at `Rat` -/

private def doc7 : YV ℚ := .map [("width", .num 10), ("height", .num 9),
  ("regions", .list [.list [.num 6, .num (15/2), .num 4, .num 1, .str "reg1"],
                     .list [.num 7, .num (3/2), .num 2, .num 3, .str "reg2"],
                     .list [.num 3, .num (7/2), .num 2, .num 3, .str "#"]])]
private def fixed7 : List (Rect ℚ) := [⟨2, 7, 2, 2, "_", true, true, .nopoly⟩, ⟨8, 11/2, 2, 1, "_", true, true, .nopoly⟩]
private def inp7 : DieIn ℚ := { W := 10, H := 9, regions := [⟨6, 15/2, 4, 1, "reg1", false, false, .nopoly⟩,
  ⟨7, 3/2, 2, 3, "reg2", false, false, .nopoly⟩, ⟨3, 7/2, 2, 3, "#", false, false, .nopoly⟩] }

/-- the document parses, is a `ValidDie` for the fresh tolerance, hence (by `die_complete_fresh`) is accepted and tiled. -/
example : ∃ picks out e st', dieModel (fun _ => (1 : ℚ)) none doc7 fixed7 (some picks) = .ok (out, e, st') ∧ ExactTiling out :=
  (die_complete_fresh (fun _ => (1 : ℚ)) (fun _ => by norm_num) doc7 fixed7 inp7 (by with_unfolding_all rfl)
    (by
      constructor
      · decide +kernel
      · decide +kernel
      · decide +kernel
      · unfold Die.Sep; decide +kernel
      · unfold Die.Sep; decide +kernel)).1

/-- a region leaving the die meets the hypothesis of `die_rejects_outside` … -/
example : (⟨28, 10, 10, 10, "DSP", false, false, .nopoly⟩ : Rect ℚ).xmax > 30 + (mkEps (fun _ => (1 : ℚ)) none 30 20).1.die := by
  decide +kernel
/-- … and an accepted pick sequence on a concrete matrix (`cover_partitions_free`). -/
example : coverAccept 2 2 (fun r c => r == 0 && c == 0) [⟨0, 0, 1, 1⟩, ⟨1, 1, 0, 1⟩] = true := by decide
example : coverAccept 2 2 (fun r c => r == 0 && c == 0) [⟨0, 1, 1, 1⟩, ⟨1, 1, 0, 0⟩] = true := by decide
example : coverAccept 2 2 (fun r c => r == 0 && c == 0) [⟨0, 1, 0, 1⟩] = false := by decide

/-! ### applied witnesses: the theorems used on concrete documents -/

/-- `die_sound` applied: the accepted run of `die7` (obtained from `die_complete_fresh`) satisfies `Tiling`, reports the
    two netlist rectangles as fixed regions, the blockage separately, and the die size of the document. -/
example : ∃ picks out e st', dieModel (fun _ => (1 : ℚ)) none doc7 fixed7 (some picks) = .ok (out, e, st') ∧
    Tiling e out ∧ out.fixed = fixed7 ∧ out.blockages.length = 1 ∧ out.specialized.length = 2 ∧ out.W = 10 := by
  obtain ⟨picks, out, e, st', h, _⟩ := (die_complete_fresh (fun _ => (1 : ℚ)) (fun _ => by norm_num) doc7 fixed7 inp7
    (by with_unfolding_all rfl)
    (by
      constructor
      · decide +kernel
      · decide +kernel
      · decide +kernel
      · unfold Die.Sep; decide +kernel
      · unfold Die.Sep; decide +kernel)).1
  obtain ⟨inp, hp, _, _, e1, _, e3, e4, e5, _, ht⟩ := die_sound _ _ _ _ _ out e st' h
  have hinp : inp = inp7 := by
    have : parseDie doc7 = .ok inp7 := by with_unfolding_all rfl
    rw [this] at hp; cases hp; rfl
  subst hinp
  exact ⟨picks, out, e, st', h, ht, e5, by rw [e4]; decide, by rw [e3]; decide, by rw [e1]; rfl⟩

/-! ### applied witnesses for section 6: `die7` built from its two DOCUMENTS (die tree + netlist tree), and the shorthand -/
section documents_examples
open FV.DieNet

/-- the netlist document of `tests/frame/die/test_die.py` (two fixed modules, one soft) plus a movable hard macro. -/
private def nl7 : YVal ℚ := .map [(.str "Modules", .map [
   (.str "M1", .map [(.str "fixed", .bool true), (.str "rectangles", .seq [.seq [.int 2, .int 7, .int 2, .int 2]])]),
   (.str "H1", .map [(.str "hard", .bool true), (.str "rectangles", .seq [.seq [.int 5, .int 5, .int 2, .int 2]])]),
   (.str "M2", .map [(.str "fixed", .bool true), (.str "rectangles", .seq [.seq [.int 8, .float (11/2), .int 2, .int 1]])]),
   (.str "M3", .map [(.str "area", .int 10)])]), (.str "Nets", .seq [])]

/-- the caller's `Netlist(nl7)` in a fresh process: accepted, proposes the distance tolerance `1e-15` (the dummy `sqrt` makes every module's `sqrt(area)` 1/1000; × 1e-12), and hands the die the rectangles of `M1` and `M2` — not the movable macro `H1`. -/
theorem netlist7_loads : ∃ l, loadNetlist (fun _ => (1 : ℚ) / 1000) (1 / 1000000000000) (fun _ _ rs => rs) none nl7 = .ok l ∧
    l.fixed = fixed7 ∧ l.st = some (1 / 1000000000000000, 1 / 1000) :=
  ⟨_, by with_unfolding_all rfl, by with_unfolding_all rfl, by with_unfolding_all rfl⟩

/-- `construct_complete` + `construct_fixed_of_netlist` applied: `Die(doc7, Netlist(nl7))` returns for every admissible pick
    order, tiles the die exactly, and its fixed regions are the two rectangles the netlist DOCUMENT marks `fixed: true`. -/
example : ∃ picks out e st', construct (fun _ => none) (fun _ => none) (fun _ => (1 : ℚ) / 1000) (1 / 1000000000000)
      (fun _ _ rs => rs) none (some nl7) (.tree doc7) (some picks) = .ok (out, e, st') ∧
    ExactTiling out ∧ Tiling e out ∧ out.fixed = fixed7 ∧ st' = (1 / 1000000000000000, 1 / 1000) ∧
    ∀ r ∈ out.fixed, r.fixed = true ∧ r.hard = true ∧ r.region = KW_GROUND := by
  obtain ⟨l, hl, hf, hs⟩ := netlist7_loads
  have hpre : PreOK (fun _ => (1 : ℚ) / 1000) (1 / 1000000000000) (fun _ _ rs => rs) none (some nl7) l.st l.fixed :=
    Or.inr ⟨nl7, l, rfl, hl, rfl, rfl⟩
  have hp : parseYamlDie (fun _ => none) (fun _ => none) (.tree doc7) = .ok inp7 := by with_unfolding_all rfl
  rw [hf, hs] at hpre
  have hv : ValidDie (mkEps (fun _ => (1 : ℚ) / 1000) (some ((1 : ℚ) / 1000000000000000, 1 / 1000)) inp7.W inp7.H).1.d inp7 fixed7 := by
    constructor
    · decide +kernel
    · decide +kernel
    · decide +kernel
    · unfold Die.Sep; decide +kernel
    · unfold Die.Sep; decide +kernel
  obtain ⟨picks, hacc⟩ := cover_exists
    ((gridOf (mkEps (fun _ => (1 : ℚ) / 1000) (some ((1 : ℚ) / 1000000000000000, 1 / 1000)) inp7.W inp7.H).1 inp7 fixed7).2.length - 1)
    ((gridOf (mkEps (fun _ => (1 : ℚ) / 1000) (some ((1 : ℚ) / 1000000000000000, 1 / 1000)) inp7.W inp7.H).1 inp7 fixed7).1.length - 1)
    (occ (gridOf (mkEps (fun _ => (1 : ℚ) / 1000) (some ((1 : ℚ) / 1000000000000000, 1 / 1000)) inp7.W inp7.H).1 inp7 fixed7).1
      (gridOf (mkEps (fun _ => (1 : ℚ) / 1000) (some ((1 : ℚ) / 1000000000000000, 1 / 1000)) inp7.W inp7.H).1 inp7 fixed7).2
      (occRects inp7 fixed7))
  obtain ⟨out, hc, h1, h2, h3⟩ := construct_complete (fun _ => none) (fun _ => none) (fun _ => (1 : ℚ) / 1000)
    (1 / 1000000000000) (fun _ _ rs => rs) none (some nl7) (.tree doc7) _ fixed7 inp7 hpre hp
    (by decide +kernel) (by decide +kernel) hv picks hacc
  obtain ⟨_, hnet⟩ := construct_fixed_of_netlist _ _ _ _ _ _ _ _ _ out _ _ hc
  obtain ⟨ms, es, nl, τ, _, _, _, _, _, hflags⟩ := hnet nl7 rfl
  refine ⟨picks, out, _, _, hc, h1, h2, h3, rfl, fun r hr => ?_⟩
  obtain ⟨a1, a2, a3, _⟩ := hflags r hr
  exact ⟨a1, a2, a3⟩

/-- a netlist the reader rejects (two overlapping rectangles in a fixed module) never reaches the die
    (`construct_netlist_rejected`). -/
private def nlBad : YVal ℚ := .map [(.str "Modules", .map [
   (.str "M1", .map [(.str "fixed", .bool true),
      (.str "rectangles", .seq [.seq [.int 2, .int 7, .int 2, .int 2], .seq [.int 3, .int 7, .int 2, .int 2]])])])]
example (src : Src ℚ) (picks : Option (List IRect)) :
    construct (fun _ => none) (fun _ => none) (fun _ => (1 : ℚ) / 1000) (1 / 1000000000000) (fun _ _ rs => rs) none
      (some nlBad) src picks = .error .netlist :=
  construct_netlist_rejected _ _ _ _ _ _ _ _ _ _ (by with_unfolding_all rfl)

/-- a netlist of terminals only proposes no tolerance (repaired code: fixes/C01_netlist_infinite_tolerance.diff): the class-wide
    state stays undefined, there is no fixed rectangle, and the die then runs exactly as without a netlist. -/
private def nlPins : YVal ℚ := .map [(.str "Modules", .map [
   (.str "T", .map [(.str "terminal", .bool true), (.str "center", .seq [.int 1, .int 1])])]), (.str "Nets", .seq [])]
example : ∃ l, loadNetlist (fun _ => (1 : ℚ) / 1000) (1 / 1000000000000) (fun _ _ rs => rs) none nlPins = .ok l ∧
    l.fixed = [] ∧ l.st = none :=
  ⟨_, by with_unfolding_all rfl, by with_unfolding_all rfl, by with_unfolding_all rfl⟩
example (src : Src ℚ) (picks : Option (List IRect)) :
    construct (fun _ => none) (fun _ => none) (fun _ => (1 : ℚ) / 1000) (1 / 1000000000000) (fun _ _ rs => rs) none
      (some nlPins) src picks =
    construct (fun _ => none) (fun _ => none) (fun _ => (1 : ℚ) / 1000) (1 / 1000000000000) (fun _ _ rs => rs) none
      none src picks := by
  obtain ⟨l, hl, hf, hs⟩ : ∃ l, loadNetlist (fun _ => (1 : ℚ) / 1000) (1 / 1000000000000) (fun _ _ rs => rs) none nlPins = .ok l ∧
      l.fixed = [] ∧ l.st = none := ⟨_, by with_unfolding_all rfl, by with_unfolding_all rfl, by with_unfolding_all rfl⟩
  unfold construct
  simp only [hl, hf, hs]

/-- `float()` on the three pieces used below. -/
private def pfEx : List Char → Option ℚ := fun s =>
  if s = "5.5".toList then some (11 / 2) else if s = "2".toList then some 2 else if s = "0".toList then some 0 else none

/-- `shorthand_is_tree` applied: `Die("5.5x2")` is `Die({width: 5.5, height: 2})`, and `"0x2"` raises the `AssertionError` of
    `string_die` (it does not fall through to `read_yaml`). -/
example (ry : String → Option (YV ℚ)) : parseYamlDie pfEx ry (.str "5.5x2") = .ok { W := 11 / 2, H := 2, regions := [] } := by
  rw [shorthand_is_tree pfEx ry "5.5x2" "5.5".toList "2".toList (11 / 2) 2 (by decide +kernel) (by decide +kernel) (by decide +kernel)]
  with_unfolding_all rfl
example (ry : String → Option (YV ℚ)) : parseYamlDie pfEx ry (.str "0x2") = .error .assert := by
  rw [shorthand_is_tree pfEx ry "0x2" "0".toList "2".toList 0 2 (by decide +kernel) (by decide +kernel) (by decide +kernel)]
  with_unfolding_all rfl
/-- … while a string with three pieces, or one `float()` refuses, is handed to `read_yaml`. -/
example : stringDie pfEx "5.5x2x0" = none ∧ stringDie pfEx "5.5xabc" = none := by decide +kernel

end documents_examples

private def docOv : YV ℚ := .map [("width", .num 10), ("height", .num 10),
  ("regions", .list [.list [.num 3, .num 3, .num 4, .num 4, .str "A"], .list [.num 5, .num 5, .num 4, .num 4, .str "B"]])]
private def inpOv : DieIn ℚ := { W := 10, H := 10, regions := [⟨3, 3, 4, 4, "A", false, false, .nopoly⟩,
  ⟨5, 5, 4, 4, "B", false, false, .nopoly⟩] }

/-- `die_rejects_overlap` applied: two regions with common area 4 (area tolerance 1/1000) — rejected for every pick
    sequence and for the deterministic instance. -/
example (picks : Option (List IRect)) : ∃ err, dieModel (fun _ => (1 : ℚ) / 1000) none docOv [] picks = .error err :=
  die_rejects_overlap (fun _ => (1 : ℚ) / 1000) none docOv [] inpOv (by with_unfolding_all rfl) 0 1 (by decide)
    (by decide) (by decide +kernel) picks

private def docSl : YV ℚ := .map [("width", .num 10), ("height", .num 10),
  ("regions", .list [.list [.num (5/2), .num 5, .num 5, .num 10, .str "A"],
                     .list [.num (14999999999/2000000000), .num 5, .num (5000000001/1000000000), .num 10, .str "B"]])]
private def inpSl : DieIn ℚ := { W := 10, H := 10, regions := [⟨5/2, 5, 5, 10, "A", false, false, .nopoly⟩,
  ⟨14999999999/2000000000, 5, 5000000001/1000000000, 10, "B", false, false, .nopoly⟩] }

/-- `die_rejects_small_overlap` applied: `A = [0,5]×[0,10]`, `B = [5−1e-9,10]×[0,10]` share an area of `1e-8`, far below the
    area tolerance `1/1000` (so the pairwise test is silent) but above `ε.die · max W H = 1e-9`: rejected. -/
example (picks : Option (List IRect)) : ∃ err, dieModel (fun _ => (1 : ℚ) / 1000) none docSl [] picks = .error err :=
  die_rejects_small_overlap (fun _ => (1 : ℚ) / 1000) none docSl [] inpSl (by with_unfolding_all rfl) (by decide +kernel)
    (by
      constructor
      · decide +kernel
      · decide +kernel
      · unfold Die.Sep; decide +kernel
      · unfold Die.Sep; decide +kernel)
    0 1 (by decide) (by decide) (by decide +kernel) picks
example : ¬ ((mkEps (fun _ => (1 : ℚ) / 1000) none 10 10).1.a <
    (⟨5/2, 5, 5, 10, "A", false, false, .nopoly⟩ : Rect ℚ).areaOverlap
      ⟨14999999999/2000000000, 5, 5000000001/1000000000, 10, "B", false, false, .nopoly⟩) := by decide +kernel

end FV.C01

import FV.Proofs.RectSearch
import FV.Proofs.RectSat
import FV.Proofs.RectIO
import Mathlib.Algebra.Order.Ring.Unbundled.Rat
/-
  C08 — the rectilinear shape search admits exactly the k-box single-trunk orthogons.

  Property theorems about the clause-level model `FV/Model/RectSearch.lean` of `tools/rect/rect.py`
  (`definecoords`, `enforce_bb`, the clause-generating part of `solve` and its return value), for every
  linearly ordered coordinate type `α` (`Rat`, at which the driver executes the very same definitions, is one),
  every grid (uniform or not, any origin, any spacing), every number of boxes `k ≥ 1`, every cost bound and
  every model of the constraint list (not only the solver's).

  Vocabulary (defined in `FV/Proofs/RectSearch.lean`):
    `Cell.inside c R`   the cell lies inside the closed rectangle `R`
    `Box.OnGrid C R`    `R` has positive size and its four sides are grid coordinates
    `AbutsOn d B T`     `B` abuts the trunk `T` on side `d`, its side lying within the extent of `T`'s side
    `IsOrthogon C ip k S R`  `S`/`R` is a k-box single-trunk orthogon (boxes = full rectangles `R i`,
                        pairwise disjoint, every `R i`, `i ≥ 1`, abuts `R 0`)
    `shapeCost P ratio k S`  the objective `ratio·selarea − realarea` of the union of the boxes
    `Sat σ cs`          the assignment `σ` of the user variables satisfies every posted constraint
  The SAT layer's exactness (each abstract constraint is encoded exactly) is property C07; the SAT solver enters
  `solve_*` as the explicit hypothesis `SolverSpec`.
-/
namespace FV.C08
open FV.RectSearch
set_option linter.unusedSectionVars false
set_option linter.unusedVariables false

variable {α : Type} [LinearOrder α]

/-- `input_problem` is a rectangular grid of cells: with respect to the coordinate lists that `definecoords`
    computes from it, every cell spans from a coordinate to its successor in x and in y, and every such
    combination is a cell. -/
def IsGrid (ip : List (Cell α)) : Prop :=
  (∀ c ∈ ip, (c.x0, c.x1) ∈ (defineCoords ip).nextX ∧ (c.y0, c.y1) ∈ (defineCoords ip).nextY) ∧
  (∀ p ∈ (defineCoords ip).nextX, ∀ q ∈ (defineCoords ip).nextY, (⟨p.1, q.1, p.2, q.2⟩ : Cell α) ∈ ip)

instance (ip : List (Cell α)) : Decidable (IsGrid ip) := by unfold IsGrid; infer_instance

theorem isGridFor_of_isGrid {ip : List (Cell α)} (h : IsGrid ip) : IsGridFor (defineCoords ip) ip :=
  { toWF := defineCoords_wf ip, cells := h.1, full := h.2 }

/-- the solver hypothesis: `unsat` answers are right and returned models are models. -/
def SolverSpec (solver : List (Constr α) → Option (Assign α)) : Prop :=
  ∀ cs, (solver cs = none → ¬∃ σ, Sat σ cs) ∧ (∀ σ, solver cs = some σ → Sat σ cs)

/-- a problem as `main` sets it up: `carrier.blocks/xcoords/…` come from `definecoords(carrier)`. -/
def Problem.WellFormed (P : Problem α) : Prop := P.C = defineCoords P.ip ∧ IsGrid P.ip

/-! ### `definecoords` -/

/-- the coordinate lists are strictly increasing, contain exactly the corner coordinates of the boxes, and
    `next_/prev_` map every coordinate to its neighbour in the list. -/
theorem defineCoords_spec (ip : List (Cell α)) :
    let C := defineCoords ip
    C.xcoords.Pairwise (· < ·) ∧ C.ycoords.Pairwise (· < ·) ∧
    (∀ x, x ∈ C.xcoords ↔ ∃ c ∈ ip, x = c.x0 ∨ x = c.x1) ∧
    (∀ y, y ∈ C.ycoords ↔ ∃ c ∈ ip, y = c.y0 ∨ y = c.y1) ∧
    C.blocks = List.range ip.length ∧
    (∀ a b, (a, b) ∈ C.xcoords.zip C.xcoords.tail → C.nextX.lookup a = some b ∧ C.prevX.lookup b = some a) ∧
    (∀ a b, (a, b) ∈ C.ycoords.zip C.ycoords.tail → C.nextY.lookup a = some b ∧ C.prevY.lookup b = some a) := by
  intro C
  have W := defineCoords_wf ip
  refine ⟨W.xs_sorted, W.ys_sorted, fun x => ?_, fun y => ?_, rfl, fun a b h => ?_, fun a b h => ?_⟩
  · show x ∈ sortedSet _ ↔ _
    rw [mem_sortedSet, List.mem_flatMap]
    simp only [List.mem_cons, List.not_mem_nil, or_false]
  · show y ∈ sortedSet _ ↔ _
    rw [mem_sortedSet, List.mem_flatMap]
    simp only [List.mem_cons, List.not_mem_nil, or_false]
  · exact ⟨lookup_next W.xs_sorted h, lookup_prev W.xs_sorted h⟩
  · exact ⟨lookup_next W.ys_sorted h, lookup_prev W.ys_sorted h⟩

/-! ### one box -/

/-- on a grid `enforce_bb` raises no exception; for the trunk it posts exactly the rectangle constraints, for a
    branch the rectangle constraints followed by the attachment constraints. -/
theorem enforceBB_grid {ip : List (Cell α)} (hg : IsGrid ip) (i : Nat) :
    let C := defineCoords ip
    enforceBB C ip i 0 =
      some (boxConstrs C ip i ++ (if i ≠ 0 then attachConstrs (gridLimits C) C ip i 0 else [])) :=
  enforceBB_eq_some.2 ⟨keysOk_of_grid (isGridFor_of_isGrid hg), rfl⟩

/-- **box_exact**: the models of the rectangle constraints of one `enforce_bb`, projected on its cell variables,
    are exactly the non-empty full rectangles of cells (a rectangle of positive size with sides on grid lines,
    the box consisting of precisely the cells inside it). -/
theorem box_exact {ip : List (Cell α)} (hg : IsGrid ip) (i : Nat) (S : Nat → Bool) :
    let C := defineCoords ip
    (∃ σ, Sat σ (boxConstrs C ip i) ∧ ∀ b, b < ip.length → σ (.cell i b) = S b) ↔
      ∃ R : Box α, R.OnGrid C ∧ ∀ b c, ip[b]? = some c → (S b = true ↔ c.inside R) := by
  intro C
  have G := isGridFor_of_isGrid hg
  constructor
  · rintro ⟨σ, hs, hS⟩
    obtain ⟨R, hR, hB⟩ := boxSem_rect G ((sat_boxConstrs G i).1 hs)
    refine ⟨R, hR, fun b c hc => ?_⟩
    rw [← hS b (List.getElem?_eq_some_iff.1 hc).1]; exact hB b c hc
  · rintro ⟨R, hR, hS⟩
    let σ := shapeAssign ip (i + 1) (fun _ => R) (fun _ => Dir.north)
    have hB : BoxIs ip σ i R := shapeAssign_boxIs ip (fun _ => R) _ (Nat.lt_succ_self i)
    refine ⟨σ, (sat_boxConstrs G i).2 (boxSem_of_rect G hR hB (shapeAssign_describes ip _ (fun _ => R) _ i)),
      fun b hb => ?_⟩
    have hc : ip[b]? = some ip[b] := List.getElem?_eq_getElem hb
    rw [Bool.eq_iff_iff]; exact (hB b _ hc).trans (hS b _ hc).symm

/-- every model of the rectangle constraints has a rectangle: the converse half of `box_exact` for the model itself
    (the interval variables are irrelevant). -/
theorem box_models_are_rectangles {ip : List (Cell α)} (hg : IsGrid ip) (i : Nat) (σ : Assign α)
    (hs : Sat σ (boxConstrs (defineCoords ip) ip i)) :
    ∃ R : Box α, R.OnGrid (defineCoords ip) ∧ BoxIs ip σ i R :=
  boxSem_rect (isGridFor_of_isGrid hg) ((sat_boxConstrs (isGridFor_of_isGrid hg) i).1 hs)

/-! ### attachment to the trunk -/

/-- **attach_exact**: let box `i` be the rectangle `B` and the trunk (box `0`) the rectangle `T`, without a common
    cell.  The attachment constraints of `enforce_bb` (N/S/E/W selector with at-most-one and at-least-one, die-border
    exclusions, neighbour implications) hold iff exactly one direction variable is true and `B` abuts `T` on that side
    with its side inside the extent of the trunk's side. -/
theorem attach_exact {ip : List (Cell α)} (hg : IsGrid ip) {i : Nat} {σ : Assign α} {B T : Box α}
    (hB : B.OnGrid (defineCoords ip)) (hT : T.OnGrid (defineCoords ip))
    (sB : BoxIs ip σ i B) (sT : BoxIs ip σ 0 T)
    (hdis : ∀ b, b < ip.length → ¬(σ (.cell i b) = true ∧ σ (.cell 0 b) = true)) :
    let C := defineCoords ip
    Sat σ (attachConstrs (gridLimits C) C ip i 0) ↔
      ∃ d, (∀ d', σ (.dir i d') = true ↔ d' = d) ∧ AbutsOn d B T := by
  intro C
  have G := isGridFor_of_isGrid hg
  rw [sat_attachConstrs (gridLimits C) G.blocks_eq]
  exact attachSem_iff G hB hT sB sT hdis

/-! ### k boxes -/

/-- **shape_exact**: the models of all the shape constraints posted by `solve` (one `enforce_bb` per box and the
    per-cell at-most-one over the boxes), projected on the variables `b<i>_<cell>`, are exactly the k-box single-trunk
    orthogons of the grid: each box a non-empty full rectangle of cells, boxes pairwise disjoint, every non-trunk box
    abutting the trunk along one side within the trunk's extent. -/
theorem shape_exact {P : Problem α} (hP : Problem.WellFormed P) {k : Nat} (hk : 0 < k) (S : Nat → Nat → Bool) :
    ∃ cs, shapeConstrs P k = some cs ∧
      ((∃ σ, Sat σ (cs ++ exclConstrs P k) ∧ ∀ i, i < k → ∀ b, b < P.ip.length → σ (.cell i b) = S i b) ↔
        ∃ R, IsOrthogon P.C P.ip k S R) := by
  obtain ⟨hC, hg⟩ := hP
  have G : IsGridFor P.C P.ip := by rw [hC]; exact isGridFor_of_isGrid hg
  obtain ⟨cs, hcs⟩ := shapeAux_isSome P (keysOk_of_grid G) (List.range k)
  rw [← shapeConstrs_eq] at hcs
  refine ⟨cs, hcs, ?_⟩
  constructor
  · rintro ⟨σ, hs, hS⟩
    obtain ⟨h1, h2⟩ := (sat_shape P G hcs).1 hs
    obtain ⟨R, hO, _⟩ := orthogon_of_sat G h1 h2 hS hk
    exact ⟨R, hO⟩
  · rintro ⟨R, hO⟩
    obtain ⟨d, h1, h2, h3⟩ := sat_of_orthogon G hO hk
    exact ⟨shapeAssign P.ip k R d, (sat_shape P G hcs).2 ⟨h1, h2⟩, h3⟩

/-! ### `solve` -/

/-- on a grid `solve` raises no exception (no `KeyError`/`IndexError` while the constraints are generated). -/
theorem solve_no_exception {P : Problem α} (hP : Problem.WellFormed P)
    (solver : List (Constr α) → Option (Assign α)) (ratio dif0 : Int) (k : Nat) :
    ∃ r, solve solver P ratio dif0 k = some r := by
  obtain ⟨hC, hg⟩ := hP
  have G : IsGridFor P.C P.ip := by rw [hC]; exact isGridFor_of_isGrid hg
  obtain ⟨sh, hsh⟩ := shapeAux_isSome P (keysOk_of_grid G) (List.range k)
  rw [← shapeConstrs_eq] at hsh
  have : ∃ cs, solveConstrs P ratio dif0 k = some cs := ⟨_, solveConstrs_eq_some.2 ⟨sh, hsh, rfl⟩⟩
  obtain ⟨cs, hcs⟩ := this
  exact ⟨solveResult P ratio k (solver cs), by simp [solve, hcs]⟩

/-- the models of everything `solve` posts are the orthogons that meet the cost bound. -/
theorem solve_models {P : Problem α} (hP : Problem.WellFormed P) {k : Nat} (hk : 0 < k) {ratio dif0 : Int}
    {cs : List (Constr α)} (hcs : solveConstrs P ratio dif0 k = some cs) (S : Nat → Nat → Bool) :
    (∃ σ, Sat σ cs ∧ ∀ i, i < k → ∀ b, b < P.ip.length → σ (.cell i b) = S i b) ↔
      ∃ R, IsOrthogon P.C P.ip k S R ∧ dif0 ≤ shapeCost P ratio k S := by
  obtain ⟨hC, hg⟩ := hP
  have G : IsGridFor P.C P.ip := by rw [hC]; exact isGridFor_of_isGrid hg
  constructor
  · rintro ⟨σ, hs, hS⟩
    obtain ⟨h1, h2, h3, h4, h5⟩ := (sat_solve P G hcs).1 hs
    obtain ⟨R, hO, _⟩ := orthogon_of_sat G h4 h5 hS hk
    refine ⟨R, hO, ?_⟩
    rw [pbSum_obj P G.blocks_eq ratio h1] at h3
    rwa [shapeCost_congr P ratio (S := S) (S' := fun i b => σ (.cell i b)) (fun i hi b hb => (hS i hi b hb).symm)]
  · rintro ⟨R, hO, hc⟩
    obtain ⟨d, h1, h2, h3⟩ := sat_of_orthogon G hO hk
    have hl : ∀ b, b < P.ip.length →
        ((shapeAssign P.ip k R d) (.sel b) = true ↔ ∃ i, i < k ∧ (shapeAssign P.ip k R d) (.cell i b) = true) := by
      intro b hb
      simp only [shapeAssign, decide_eq_true_eq]
      constructor
      · rintro ⟨i, hi, c, hc', hin⟩; exact ⟨i, hi, hi, c, hc', hin⟩
      · rintro ⟨i, hi, _, c, hc', hin⟩; exact ⟨i, hi, c, hc', hin⟩
    refine ⟨shapeAssign P.ip k R d, (sat_solve P G hcs).2 ⟨hl, ?_, ?_, h1, h2⟩, h3⟩
    · obtain ⟨b, c, hbc, hin, _, _⟩ := corner_cell G (hO.box 0 hk).1
      have hb := (List.getElem?_eq_some_iff.1 hbc).1
      exact ⟨b, hb, (hl b hb).2 ⟨0, hk, (shapeAssign_boxIs P.ip R d hk b c hbc).2 hin⟩⟩
    · rw [pbSum_obj P G.blocks_eq ratio hl,
        shapeCost_congr P ratio (S' := S) (fun i hi b hb => h3 i hi b hb)]
      exact hc

/-- **solve_iff** (existence): with a correct solver, `solve` returns a shape iff a k-box single-trunk orthogon meeting
    the requested cost bound exists; otherwise it returns "insat". -/
theorem solve_found_iff {P : Problem α} (hP : Problem.WellFormed P) {k : Nat} (hk : 0 < k)
    {solver : List (Constr α) → Option (Assign α)} (hsolver : SolverSpec solver) (ratio dif0 : Int) :
    (∃ cost rects, solve solver P ratio dif0 k = some (.found cost rects)) ↔
      ∃ S R, IsOrthogon P.C P.ip k S R ∧ dif0 ≤ shapeCost P ratio k S := by
  obtain ⟨r, hr⟩ := solve_no_exception hP solver ratio dif0 k
  unfold solve at hr ⊢
  cases hcs : solveConstrs P ratio dif0 k with
  | none => simp [hcs] at hr
  | some cs =>
    simp only [Option.map_some, Option.some.injEq]
    constructor
    · rintro ⟨cost, rects, h⟩
      cases hsol : solver cs with
      | none => simp [hsol, solveResult] at h
      | some σ =>
        have hs := (hsolver cs).2 σ hsol
        obtain ⟨R, hO, hc⟩ := (solve_models hP hk hcs (fun i b => σ (.cell i b))).1 ⟨σ, hs, fun _ _ _ _ => rfl⟩
        exact ⟨_, R, hO, hc⟩
    · rintro ⟨S, R, hO, hc⟩
      obtain ⟨σ, hs, _⟩ := (solve_models hP hk hcs S).2 ⟨R, hO, hc⟩
      cases hsol : solver cs with
      | none => exact absurd ⟨σ, hs⟩ ((hsolver cs).1 hsol)
      | some τ => exact ⟨_, _, rfl⟩

/-- **solve_iff** (soundness of the answer): whatever `solve` returns as a shape is a k-box single-trunk orthogon meeting
    the bound; the returned rectangles (bounding boxes of the boxes of the solver's model) are exactly the boxes of that
    orthogon, and the reported cost is its objective plus one. -/
theorem solve_found_sound {P : Problem α} (hP : Problem.WellFormed P) {k : Nat} (hk : 0 < k)
    {solver : List (Constr α) → Option (Assign α)} (hsolver : SolverSpec solver) {ratio dif0 cost : Int}
    {rects : List (Option (Box α))} (h : solve solver P ratio dif0 k = some (.found cost rects)) :
    ∃ S R, IsOrthogon P.C P.ip k S R ∧ dif0 ≤ shapeCost P ratio k S ∧
      cost = shapeCost P ratio k S + 1 ∧ rects = (List.range k).map fun i => some (R i) := by
  have hP' := hP
  obtain ⟨hC, hg⟩ := hP
  have G : IsGridFor P.C P.ip := by rw [hC]; exact isGridFor_of_isGrid hg
  unfold solve at h
  cases hcs : solveConstrs P ratio dif0 k with
  | none => simp [hcs] at h
  | some cs =>
    simp only [hcs, Option.map_some, Option.some.injEq] at h
    cases hsol : solver cs with
    | none => simp [hsol, solveResult] at h
    | some σ =>
      simp only [hsol, solveResult, SolveResult.found.injEq] at h
      obtain ⟨hcost, hrects⟩ := h
      have hs := (hsolver cs).2 σ hsol
      obtain ⟨h1, h2, h3, h4, h5⟩ := (sat_solve P G hcs).1 hs
      obtain ⟨R, hO, hB⟩ := orthogon_of_sat G (S := fun i b => σ (.cell i b)) h4 h5 (fun _ _ _ _ => rfl) hk
      refine ⟨fun i b => σ (.cell i b), R, hO, ?_, ?_, ?_⟩
      · rw [← pbSum_obj P G.blocks_eq ratio h1]; exact h3
      · rw [← pbSum_obj P G.blocks_eq ratio h1]; exact hcost.symm
      · rw [← hrects]
        apply List.map_congr_left
        intro i hi
        have hi' := List.mem_range.1 hi
        exact bboxOf_eq G (hO.box i hi').1 (hB i hi')

/-- **solve_iff** (unsatisfiable answer): with a correct solver, `solve` answers "insat" iff no k-box single-trunk orthogon
    meets the requested cost bound. -/
theorem solve_insat_iff {P : Problem α} (hP : Problem.WellFormed P) {k : Nat} (hk : 0 < k)
    {solver : List (Constr α) → Option (Assign α)} (hsolver : SolverSpec solver) (ratio dif0 : Int) :
    solve solver P ratio dif0 k = some .insat ↔
      ¬∃ S R, IsOrthogon P.C P.ip k S R ∧ dif0 ≤ shapeCost P ratio k S := by
  rw [← solve_found_iff hP hk hsolver ratio dif0]
  obtain ⟨r, hr⟩ := solve_no_exception hP solver ratio dif0 k
  rw [hr]
  cases r with
  | insat => simp
  | found c rs => simp


/-! ### composition with the SAT layer (property C07): the statements above about the actual CNF

  `FV/Proofs/RectSat.lean` translates every abstract constraint into the posting `SATManager` receives
  (`trC`; the objective as `solve` builds it with the `Expr` algebra: `objIneq`), each translated posting is well
  formed (`trC_wf`, `objIneq_wf`), never refused (`trC_acceptable`) and means what the abstract constraint means
  (`trC_holds`, `objIneq_holds`).  `nm` names the variables (`Var.user (nm v)` in the C07 model, hence never a
  `robdd_<n>` / `aux_<n>` variable); the composition needs `nm` injective — for the names of `rect.py`
  (`"b_<b>"`, `"b<i>_<b>"`, `"b<i>_x_<str(x)>"`, …) this is an assumption on `str` of the grid coordinates
  (distinct coordinates have distinct `str`), carried here as the explicit hypothesis `hinj`.
  `m0` is any manager that has posted nothing yet (its registered variables — `rect.py` registers every variable
  through `newvar` — are arbitrary); `S0` is any well-formed process-wide ROBDD store ("any prior history"). -/

open FV.RectSat in
/-- on a grid, everything `solve` posts is accepted by the SAT layer (no exception), whatever the store holds -/
theorem solve_posting_succeeds {P : Problem α} (hP : Problem.WellFormed P) (nm : Var α → String) (ratio dif0 : Int)
    (k : Nat) {S0 : PB.Store Sat.Var} (hw : PB.WFStore S0) (m0 : Sat.Mgr) (hc : m0.clauses = [])
    (hd : m0.codified = []) :
    ∃ ps m S1, solvePosts nm P ratio dif0 k = some ps ∧ (∀ p ∈ ps, p.WF) ∧ postAll m0 S0 ps = .ok (m, S1) := by
  obtain ⟨hC, hg⟩ := hP
  have G : IsGridFor P.C P.ip := by rw [hC]; exact isGridFor_of_isGrid hg
  obtain ⟨sh, hsh⟩ := shapeAux_isSome P (keysOk_of_grid G) (List.range k)
  rw [← shapeConstrs_eq] at hsh
  have hcs : solveConstrs P ratio dif0 k = some _ := solveConstrs_eq_some.2 ⟨sh, hsh, rfl⟩
  obtain ⟨ps, hps, hwf, _⟩ := solvePosts_spec nm hcs
  obtain ⟨m, S1, hpost, _⟩ := postAll_ok ps (minv_fresh hw m0 hc hd) hwf
  exact ⟨ps, m, S1, hps, fun p hp => (hwf p hp).1, hpost⟩

open FV.RectSat in
/-- **cnf_models_are_orthogons**: for the manager state reached by posting everything `solve` posts, an assignment
    of the variables `b<i>_<cell>` extends to a model of the generated CNF (clauses of the Heule chains with their
    auxiliaries, Tseitin clauses of the objective's ROBDD, …) iff it is a k-box single-trunk orthogon meeting the
    cost bound. -/
theorem cnf_models_are_orthogons {P : Problem α} (hP : Problem.WellFormed P) {k : Nat} (hk : 0 < k)
    {nm : Var α → String} (hinj : Function.Injective nm) {ratio dif0 : Int}
    {S0 : PB.Store Sat.Var} (hw : PB.WFStore S0) {m0 : Sat.Mgr} (hc : m0.clauses = []) (hd : m0.codified = [])
    {ps : List Sat.Post} {m : Sat.Mgr} {S1 : PB.Store Sat.Var} (hps : solvePosts nm P ratio dif0 k = some ps)
    (hpost : postAll m0 S0 ps = .ok (m, S1)) (S : Nat → Nat → Bool) :
    (∃ τ : Sat.Var → Bool, PB.cnfTrue τ m.clauses ∧
        ∀ i, i < k → ∀ b, b < P.ip.length → τ (.user (nm (.cell i b))) = S i b) ↔
      ∃ R, IsOrthogon P.C P.ip k S R ∧ dif0 ≤ shapeCost P ratio k S := by
  have hP' := hP
  obtain ⟨hC, hg⟩ := hP
  have G : IsGridFor P.C P.ip := by rw [hC]; exact isGridFor_of_isGrid hg
  obtain ⟨sh, hsh⟩ := shapeAux_isSome P (keysOk_of_grid G) (List.range k)
  rw [← shapeConstrs_eq] at hsh
  have hcs : solveConstrs P ratio dif0 k = some _ := solveConstrs_eq_some.2 ⟨sh, hsh, rfl⟩
  obtain ⟨ps', hps', hwf, hholds⟩ := solvePosts_spec nm hcs
  rw [hps] at hps'; cases hps'
  obtain ⟨m', S', hpost', inv⟩ := postAll_ok ps (minv_fresh hw m0 hc hd) hwf
  rw [hpost] at hpost'; cases hpost'
  simp only [List.nil_append] at inv
  rw [← solve_models hP' hk hcs S]
  constructor
  · rintro ⟨τ, hτ, hS⟩
    exact ⟨pull nm τ, (hholds τ).1 (inv.sound τ hτ), hS⟩
  · rintro ⟨σ, hs, hS⟩
    have hpp := pull_push nm hinj σ
    have hall : ∀ p ∈ ps, p.holds (push nm σ) := (hholds (push nm σ)).2 (by rw [hpp]; exact hs)
    obtain ⟨τ, hag, _, hτ⟩ := inv.complete (push nm σ) hall
    refine ⟨τ, hτ, fun i hi b hb => ?_⟩
    rw [hag (.user (nm (.cell i b))) trivial, ← hS i hi b hb]
    exact congrFun hpp (.cell i b)

open FV.RectSat in
/-- **solve_found_iff_cnf**: the only remaining hypothesis is the SAT solver's correctness (`Sat.SolverOK` on the
    integer CNF handed to it).  `SATManager.solve()` on the manager reached by `solve`'s postings answers "satisfiable"
    iff a k-box single-trunk orthogon meeting the cost bound exists; and then the model it exposes through `value` is,
    on every registered variable, an assignment whose boxes form such an orthogon — the rectangles and the cost that
    `rect.solve` computes from it are that orthogon's boxes and its objective plus one.
    (`hcnf`: every literal's variable was registered through `newvar`, as `rect.py` does; otherwise `solve()` raises
    `KeyError`, C07 `solve_unregistered`.) -/
theorem solve_found_iff_cnf {P : Problem α} (hP : Problem.WellFormed P) {k : Nat} (hk : 0 < k)
    {nm : Var α → String} (hinj : Function.Injective nm) {ratio dif0 : Int}
    {S0 : PB.Store Sat.Var} (hw : PB.WFStore S0) {m0 : Sat.Mgr} (hc : m0.clauses = []) (hd : m0.codified = [])
    (hnd : m0.vars.Nodup)
    {ps : List Sat.Post} {m : Sat.Mgr} {S1 : PB.Store Sat.Var} (hps : solvePosts nm P ratio dif0 k = some ps)
    (hpost : postAll m0 S0 ps = .ok (m, S1))
    {cnf : List (List Int)} (hcnf : m.cnf = .ok cnf) {ans : Option (List Int)} (hsolver : Sat.SolverOK cnf ans)
    {b : Bool} {m' : Sat.Mgr} (hs : m.solve ans = .ok (b, m')) :
    (b = true ↔ ∃ S R, IsOrthogon P.C P.ip k S R ∧ dif0 ≤ shapeCost P ratio k S) ∧
    (b = true → ∃ (σ : Assign α) (R : Nat → Box α),
      (∀ v, Sat.Var.user (nm v) ∈ m.vars →
        m'.value ⟨.user (nm v), true⟩ = some (if σ v = true then 1 else 0)) ∧
      IsOrthogon P.C P.ip k (fun i b => σ (.cell i b)) R ∧
      dif0 ≤ shapeCost P ratio k (fun i b => σ (.cell i b)) ∧
      solveResult P ratio k (some σ) =
        .found (shapeCost P ratio k (fun i b => σ (.cell i b)) + 1) ((List.range k).map fun i => some (R i))) := by
  obtain ⟨h1, h2⟩ := Sat.solve_spec (postAll_nodup ps hpost hnd) hcnf hsolver hs
  have key := fun S => cnf_models_are_orthogons hP hk hinj (ratio := ratio) (dif0 := dif0) hw hc hd hps hpost S
  constructor
  · rw [h1]
    constructor
    · rintro ⟨τ, hτ⟩
      obtain ⟨R, hR⟩ := (key (fun i b => τ (.user (nm (.cell i b))))).1 ⟨τ, hτ, fun _ _ _ _ => rfl⟩
      exact ⟨_, R, hR⟩
    · rintro ⟨S, R, hR⟩
      obtain ⟨τ, hτ, _⟩ := (key S).2 ⟨R, hR⟩
      exact ⟨τ, hτ⟩
  · intro hb
    obtain ⟨τ, hτ, hval⟩ := h2 hb
    have hP' := hP
    obtain ⟨hC, hg⟩ := hP
    have G : IsGridFor P.C P.ip := by rw [hC]; exact isGridFor_of_isGrid hg
    obtain ⟨sh, hsh⟩ := shapeAux_isSome P (keysOk_of_grid G) (List.range k)
    rw [← shapeConstrs_eq] at hsh
    have hcs : solveConstrs P ratio dif0 k = some _ := solveConstrs_eq_some.2 ⟨sh, hsh, rfl⟩
    obtain ⟨ps', hps', hwf, hholds⟩ := solvePosts_spec nm hcs
    rw [hps] at hps'; cases hps'
    obtain ⟨m2, S2, hpost', inv⟩ := postAll_ok ps (minv_fresh hw m0 hc hd) hwf
    rw [hpost] at hpost'; cases hpost'
    simp only [List.nil_append] at inv
    have hsat : Sat (pull nm τ) _ := (hholds τ).1 (inv.sound τ hτ)
    obtain ⟨l1, l2, l3, l4, l5⟩ := (sat_solve P G hcs).1 hsat
    obtain ⟨R, hO, hB⟩ := orthogon_of_sat G (S := fun i b => pull nm τ (.cell i b)) l4 l5 (fun _ _ _ _ => rfl) hk
    refine ⟨pull nm τ, R, fun v hv => ?_, hO, ?_, ?_⟩
    · rw [hval _ hv true]
      show some (PB.litVal τ ⟨.user (nm v), true⟩) = some (if τ (.user (nm v)) = true then 1 else 0)
      cases h : τ (Sat.Var.user (nm v)) <;> simp [PB.litVal, PB.b2i, h]
    · rw [← pbSum_obj P G.blocks_eq ratio l1]; exact l3
    · simp only [solveResult, SolveResult.found.injEq]
      refine ⟨by rw [pbSum_obj P G.blocks_eq ratio l1], ?_⟩
      apply List.map_congr_left
      intro i hi
      have hi' := List.mem_range.1 hi
      exact bboxOf_eq G (hO.box i hi').1 (hB i hi')

open FV.RectSat in
/-- **The rectangles it returns are the boxes of such a shape — on the RETURN VALUE.**  `solveReturn` is the value
    `rect.solve` returns (rect.py:235-281), computed from what the SAT layer answers: the Boolean `sm.solve()` returns,
    `sm.evalexpr(selarea / realarea / obj)` and `sm.value(sm.newvar("b<i>_<b>", "")) == 1` for every box and cell.
    With everything `solve` posts on a manager in which the variables `b_<b>`, `b<i>_<b>` are registered (`hreg`; `solve`
    registers every variable through `newvar`) and a correct SAT solver:
    * if `sm.solve()` is `False`, `solve` returns "insat" (`(0, 1), [], 0`) and no k-box single-trunk orthogon meets the bound;
    * if it is `True`, `solve` does not raise, and it returns `(cost, 1)` and `k` rectangles such that for some k-box
      single-trunk orthogon `S`/`R` of the grid meeting the bound, the rectangles are exactly `R 0, …, R (k-1)` — the
      trunk first — and `cost` is its objective plus one. -/
theorem solve_return_sound {P : Problem α} (hP : Problem.WellFormed P) {k : Nat} (hk : 0 < k)
    {nm : Var α → String} (hinj : Function.Injective nm) {ratio dif0 : Int}
    {S0 : PB.Store Sat.Var} (hw : PB.WFStore S0) {m0 : Sat.Mgr} (hc : m0.clauses = []) (hd : m0.codified = [])
    (hnd : m0.vars.Nodup)
    {ps : List Sat.Post} {m : Sat.Mgr} {S1 : PB.Store Sat.Var} (hps : solvePosts nm P ratio dif0 k = some ps)
    (hpost : postAll m0 S0 ps = .ok (m, S1))
    (hreg : ∀ b ∈ P.C.blocks, Sat.Var.user (nm (.sel b)) ∈ m.vars ∧ ∀ i, i < k → Sat.Var.user (nm (.cell i b)) ∈ m.vars)
    {cnf : List (List Int)} (hcnf : m.cnf = .ok cnf) {ans : Option (List Int)} (hsolver : Sat.SolverOK cnf ans)
    {b : Bool} {m' : Sat.Mgr} (hs : m.solve ans = .ok (b, m')) :
    (b = false → solveReturn nm P ratio k b m' = .insat ∧
      ¬∃ S R, IsOrthogon P.C P.ip k S R ∧ dif0 ≤ shapeCost P ratio k S) ∧
    (b = true → ∃ S R, IsOrthogon P.C P.ip k S R ∧ dif0 ≤ shapeCost P ratio k S ∧
      solveReturn nm P ratio k b m' =
        .found (shapeCost P ratio k S + 1) ((List.range k).map fun i => some (R i))) := by
  have main := solve_found_iff_cnf hP hk hinj (ratio := ratio) (dif0 := dif0) hw hc hd hnd hps hpost hcnf hsolver hs
  constructor
  · intro hb
    subst hb
    refine ⟨by simp [solveReturn], fun hex => ?_⟩
    have := main.1.2 hex
    simp at this
  · intro hb
    subst hb
    obtain ⟨_, h2⟩ := Sat.solve_spec (postAll_nodup ps hpost hnd) hcnf hsolver hs
    obtain ⟨τ, hτ, hval⟩ := h2 rfl
    have hP' := hP
    obtain ⟨hC, hg⟩ := hP
    have G : IsGridFor P.C P.ip := by rw [hC]; exact isGridFor_of_isGrid hg
    obtain ⟨sh, hsh⟩ := shapeAux_isSome P (keysOk_of_grid G) (List.range k)
    rw [← shapeConstrs_eq] at hsh
    have hcs : solveConstrs P ratio dif0 k = some _ := solveConstrs_eq_some.2 ⟨sh, hsh, rfl⟩
    obtain ⟨ps', hps', hwf, hholds⟩ := solvePosts_spec nm hcs
    rw [hps] at hps'; cases hps'
    obtain ⟨m2, S2, hpost', inv⟩ := postAll_ok ps (minv_fresh hw m0 hc hd) hwf
    rw [hpost] at hpost'; cases hpost'
    simp only [List.nil_append] at inv
    have hsat : Sat (pull nm τ) _ := (hholds τ).1 (inv.sound τ hτ)
    obtain ⟨l1, l2, l3, l4, l5⟩ := (sat_solve P G hcs).1 hsat
    obtain ⟨R, hO, hB⟩ := orthogon_of_sat G (S := fun i b => pull nm τ (.cell i b)) l4 l5 (fun _ _ _ _ => rfl) hk
    -- `value` agrees with `τ` on the block variables of the k boxes; for boxes `i ≥ k` nothing is read
    have hcost : dif0 ≤ shapeCost P ratio k (fun i b => pull nm τ (.cell i b)) := by
      rw [← pbSum_obj P G.blocks_eq ratio l1]; exact l3
    refine ⟨fun i b => pull nm τ (.cell i b), R, hO, hcost, ?_⟩
    -- evaluate `solveReturn` through `value` / `evalexpr`
    have hE : ∀ e : PB.Expr Sat.Var, (∀ y ∈ e.t, ∃ b ∈ P.C.blocks, y.L.v = trVar nm (.sel b)) →
        m'.evalExpr e = some (e.eval τ) := by
      intro e he
      apply Sat.evalExpr_spec
      intro t ht
      obtain ⟨b, hb, hv⟩ := he t ht
      have := hval t.L.v (by rw [hv]; exact (hreg b hb).1) t.L.s
      cases hL : t.L with
      | mk v s => rw [hL] at this; exact this
    have hbox : ∀ i, i < k → bboxFromMgr nm m' P.C P.ip i = bboxOf P.C P.ip (pull nm τ) i := by
      intro i hi
      unfold bboxFromMgr bboxOf
      apply foldl_congr_mem
      intro bc hbc acc
      have hv : m'.value ⟨trVar nm (.cell i bc.1), true⟩ = some (PB.litVal τ ⟨trVar nm (.cell i bc.1), true⟩) :=
        hval _ ((hreg bc.1 (mem_cellsOf_block hbc)).2 i hi) true
      have h1 : (m'.value ⟨trVar nm (.cell i bc.1), true⟩ = some 1) ↔ pull nm τ (.cell i bc.1) = true := by
        rw [Sat.value_one_iff hv]; simp [PB.litTrue, pull]
      by_cases hc' : pull nm τ (.cell i bc.1) = true
      · rw [if_pos (h1.2 hc'), if_pos hc']
      · rw [if_neg (fun hh => hc' (h1.1 hh)), if_neg hc']
    unfold solveReturn
    rw [hE _ (areaExpr_sel nm P _), hE _ (areaExpr_sel nm P _), hE _ (objExpr_sel nm P ratio), objExpr_eval]
    simp only [Bool.true_eq_false, if_false]
    rw [pbSum_obj P G.blocks_eq ratio l1]
    congr 1
    apply List.map_congr_left
    intro i hi
    have hi' := List.mem_range.1 hi
    rw [hbox i hi']
    exact bboxOf_eq G (hO.box i hi').1 (hB i hi')

/-- the variable names of `rect.py` (`pyName str`, `str` = Python's `str` on coordinates) are pairwise distinct as soon
    as distinct coordinates have distinct `str`, and all start with `b` — none is a `robdd_<n>` / `aux_<n>` name of
    the SAT layer nor a negated name.  (That they contain no `,` — used by the ROBDD memo keys — holds iff `str` of a
    coordinate contains none: digits, `_`, letters otherwise.) -/
theorem names_ok (str : α → String) (hstr : Function.Injective str) :
    Function.Injective (RectSat.pyName str) ∧ ∀ v, (RectSat.pyName str v).toList.head? = some 'b' :=
  ⟨RectSat.pyName_injective str hstr, RectSat.pyName_head str⟩

/-! ### building the grid from an allocation (`rect_io.select_box`, `snap_coordinates`; model `FV/Model/RectIO.lean`) -/
section SelectBox
open FV.RectIO
variable {β : Type} [Field β] [LinearOrder β] [IsStrictOrderedRing β]

/-- `snap_coordinates`: every coordinate is mapped to one of the coordinates, not above it and within the tolerance of it,
    and two different representatives are MORE than the tolerance apart: whatever float noise the corners `centre ± size/2`
    carry, no sliver narrower than the tolerance survives between two grid lines -/
theorem snap_no_sliver (values : List β) {tol : β} (htol : 0 ≤ tol) :
    (∀ q ∈ snapCoordinates values tol, q.2 ∈ values ∧ q.2 ≤ q.1 ∧ q.1 - q.2 ≤ tol) ∧
    (∀ q ∈ snapCoordinates values tol, ∀ q' ∈ snapCoordinates values tol, q.2 < q'.2 → tol < q'.2 - q.2) ∧
    (snapCoordinates values tol).map Prod.fst = sortedDistinct values :=
  ⟨(snap_spec values htol).2.1, (snap_spec values htol).2.2, (snap_spec values htol).1⟩

/-- `select_box` returns one box per record of the allocation, in the order of the records, with the occupancy the
    record lists for the selected module (`0` where it does not list it) -/
theorem selectBox_one_box_per_record {sel : String} {ifile : List (IRect β)} {out : List (Cell β × β)}
    (h : selectBox sel ifile = some out) :
    out.length = ifile.length ∧
    ∀ i (hi : i < ifile.length) (ho : i < out.length), out[i].2 = occOf ((0 : Nat) : β) sel ifile[i].mods :=
  selectBox_shape h

/-- on an exact grid (corner coordinates more than the tolerance apart, cells listed in any order) `select_box` returns
    exactly the corners `centre ± size / 2` — snapping changes nothing -/
theorem selectBox_exact_grid {sel : String} {ifile : List (IRect β)} {tol : β} (hne : ifile ≠ [])
    (ht : snapTol (ifile.map (rawBox sel)) = some tol)
    (hx : (sortedDistinct (xsOf (ifile.map (rawBox sel)))).Pairwise (fun a b => tol < b - a))
    (hy : (sortedDistinct (ysOf (ifile.map (rawBox sel)))).Pairwise (fun a b => tol < b - a)) :
    selectBox sel ifile = some (ifile.map (rawBox sel)) :=
  selectBox_exact hne ht hx hy

/-- `get_alloc` keeps the cells of the allocation one to one and in order (`dim` = centre and size as stored, `mod` = one
    single-entry dictionary per module of the cell), and the occupancy `select_box` then reads for a module from such a
    record is the ratio the allocation holds for it (`0` if the cell does not list the module) -/
theorem getAlloc_selectBox_occupancy (cells : List ((β × β × β × β) × List (String × β))) (sel : String) :
    (getAlloc cells).length = cells.length ∧
    ∀ i (hi : i < cells.length) (ho : i < (getAlloc cells).length),
      ((getAlloc cells)[i].xc, (getAlloc cells)[i].yc, (getAlloc cells)[i].w, (getAlloc cells)[i].h) = cells[i].1 ∧
      occOf ((0 : Nat) : β) sel (getAlloc cells)[i].mods =
        (cells[i].2.foldl (fun acc q => if q.1 = sel then some q.2 else acc) none).getD ((0 : Nat) : β) := by
  refine ⟨(getAlloc_records cells).1, fun i hi ho => ?_⟩
  obtain ⟨h1, h2⟩ := (getAlloc_records cells).2 i hi ho
  exact ⟨h1, by rw [h2, occOf_getAlloc]⟩

/-- the problem `main` builds from the boxes `select_box` returns (`definecoords`, `area`) is well formed as soon as the
    boxes form a grid -/
theorem problemOf_wellFormed [TruncInt β] (factor : Nat) (boxes : List (Cell β × β)) (hg : IsGrid (boxes.map Prod.fst)) :
    Problem.WellFormed (problemOf factor boxes) := ⟨rfl, hg⟩

/-- **From the allocation to the answer.**  For an allocation whose records form an exact grid (any listing order): what
    `main` does — `select_box`, `definecoords`, `area`, `solve` — never raises, and with a correct solver it returns a shape
    iff a k-box single-trunk orthogon of THAT grid (the cells `centre ± size/2`, integer areas
    `int(factor·p·w·h)` / `int(factor·w·h)`) meets the cost bound. -/
theorem pipeline_found_iff [TruncInt β] {sel : String} {ifile : List (IRect β)} {tol : β} (hne : ifile ≠ [])
    (ht : snapTol (ifile.map (rawBox sel)) = some tol)
    (hx : (sortedDistinct (xsOf (ifile.map (rawBox sel)))).Pairwise (fun a b => tol < b - a))
    (hy : (sortedDistinct (ysOf (ifile.map (rawBox sel)))).Pairwise (fun a b => tol < b - a))
    (hg : IsGrid ((ifile.map (rawBox sel)).map Prod.fst)) {k : Nat} (hk : 0 < k)
    {solver : List (Constr β) → Option (Assign β)} (hsolver : SolverSpec solver) (factor : Nat) (ratio dif0 : Int) :
    ∃ boxes, selectBox sel ifile = some boxes ∧ boxes = ifile.map (rawBox sel) ∧
      ((∃ cost rects, solve solver (problemOf factor boxes) ratio dif0 k = some (.found cost rects)) ↔
        ∃ S R, IsOrthogon (problemOf factor boxes).C (problemOf factor boxes).ip k S R ∧
          dif0 ≤ shapeCost (problemOf factor boxes) ratio k S) :=
  ⟨_, selectBox_exact hne ht hx hy, rfl,
    solve_found_iff (problemOf_wellFormed factor _ hg) hk hsolver ratio dif0⟩

end SelectBox

/-- an allocation of two cells given as (centre, size) in decimal coordinates, listed right cell first; module `M`
    occupies 0.9 of the left cell and is not listed in the right one -/
def exAlloc : List (RectIO.IRect Rat) :=
  [⟨9/20, 1/2, 3/10, 1, some [[("Z", 1)]]⟩, ⟨3/20, 1/2, 3/10, 1, some [[("M", 9/10)], [("Z", 1/10)]]⟩]

/-- `select_box` gives the two cells (same order), the grid they form is a grid in the sense of the theorems above, and the
    hypotheses of `selectBox_exact_grid` hold for it -/
example : RectIO.selectBox "M" exAlloc = some [(⟨3/10, 0, 3/5, 1⟩, 0), (⟨0, 0, 3/10, 1⟩, 9/10)] := by decide +kernel
example : IsGrid ((([(⟨3/10, 0, 3/5, 1⟩, 0), (⟨0, 0, 3/10, 1⟩, 9/10)] : List (Cell Rat × Rat))).map Prod.fst) := by decide +kernel
example : RectIO.snapTol (exAlloc.map (RectIO.rawBox "M")) = some (1 / 1000000000) ∧
    (RectIO.sortedDistinct (RectIO.xsOf (exAlloc.map (RectIO.rawBox "M")))).Pairwise (fun a b => (1 : Rat) / 1000000000 < b - a) := by
  decide +kernel
/-- the integer areas `rect.area` computes for them (factor 10000) -/
example : (RectIO.problemOf 10000 [((⟨3/10, 0, 3/5, 1⟩ : Cell Rat), (0 : Rat)), (⟨0, 0, 3/10, 1⟩, 9/10)]).selA = [0, 2700] ∧
    (RectIO.problemOf 10000 [((⟨3/10, 0, 3/5, 1⟩ : Cell Rat), (0 : Rat)), (⟨0, 0, 3/10, 1⟩, 9/10)]).realA = [3000, 3000] := by
  decide +kernel
/-- noise below the tolerance is snapped away: the left cell's side at `1e-17` joins the grid line `0` of the cell above it -/
example : (RectIO.selectBox "M" [⟨3/20, 1/2, 3/10, 1, none⟩, ⟨3/20 + 1/100000000000000000, 3/2, 3/10, 1, none⟩]).map
    (fun l => l.map fun b => b.1.x0) = some [0, (0 : Rat)] := by decide +kernel

/-! ### non-vacuity -/

/-- a 2×1 grid with shifted origin, non-uniform and fractional spacing. -/
def exGrid : List (Cell Rat) := [⟨1, -3, 2, 5/2⟩, ⟨2, -3, 9/2, 5/2⟩]

example : IsGrid exGrid := by decide +kernel

example : Problem.WellFormed (⟨exGrid, defineCoords exGrid, [5000, 20000], [55000, 137500]⟩ : Problem Rat) :=
  ⟨rfl, by decide +kernel⟩

/-- a solver meeting `SolverSpec` exists (classically). -/
example : ∃ solver : List (Constr Rat) → Option (Assign Rat), SolverSpec solver := by
  classical
  refine ⟨fun cs => if h : ∃ σ, Sat σ cs then some (Classical.choose h) else none, fun cs => ⟨?_, ?_⟩⟩
  · intro h; by_cases hex : ∃ σ, Sat σ cs <;> simp [hex] at h; exact hex
  · intro σ h
    by_cases hex : ∃ σ, Sat σ cs
    · simp [hex] at h; rw [← h]; exact Classical.choose_spec hex
    · simp [hex] at h

/-- the grid has a 2-box orthogon (trunk = left cell, branch = right cell hanging from the trunk's east side,
    i.e. the trunk is to the west of the branch). -/
example : ∃ S R, IsOrthogon (defineCoords exGrid) exGrid 2 S R := by
  refine ⟨fun i b => decide (i = b), fun i => if i = 0 then ⟨1, -3, 2, 5/2⟩ else ⟨2, -3, 9/2, 5/2⟩, ?_, ?_, ?_⟩
  · intro i hi
    have : i = 0 ∨ i = 1 := by omega
    rcases this with rfl | rfl
    · refine ⟨⟨by decide +kernel, by decide +kernel, by decide +kernel, by decide +kernel, by decide +kernel,
        by decide +kernel⟩, fun b c hc => ?_⟩
      have hb : b < 2 := (List.getElem?_eq_some_iff.1 hc).1
      have : b = 0 ∨ b = 1 := by omega
      rcases this with rfl | rfl
      · simp [exGrid] at hc; subst hc
        simp only [decide_true, true_iff]
        exact ⟨by decide +kernel, by decide +kernel, by decide +kernel, by decide +kernel⟩
      · simp [exGrid] at hc; subst hc
        simp only [show decide (0 = 1) = false by decide, Bool.false_eq_true, false_iff]
        intro h; exact absurd h.x1 (by decide +kernel)
    · refine ⟨⟨by decide +kernel, by decide +kernel, by decide +kernel, by decide +kernel, by decide +kernel,
        by decide +kernel⟩, fun b c hc => ?_⟩
      have hb : b < 2 := (List.getElem?_eq_some_iff.1 hc).1
      have : b = 0 ∨ b = 1 := by omega
      rcases this with rfl | rfl
      · simp [exGrid] at hc; subst hc
        simp only [show decide (1 = 0) = false by decide, Bool.false_eq_true, false_iff]
        intro h; exact absurd h.x0 (by decide +kernel)
      · simp [exGrid] at hc; subst hc
        simp only [decide_true, true_iff]
        exact ⟨by decide +kernel, by decide +kernel, by decide +kernel, by decide +kernel⟩
  · intro i j hi hj hne b hb
    simp only [decide_eq_true_eq]
    omega
  · intro i h0 hi
    have : i = 1 := by omega
    subst this
    exact ⟨.west, by decide +kernel, by decide +kernel, by decide +kernel⟩

/-- end to end on a 2×1 grid (shifted origin, non-uniform), k = 2, bound 25000 (needs both cells: the objective is not
    a clause and goes through the ROBDD): with every variable registered, all 54 postings of `solve` are accepted and
    the integer CNF handed to the solver exists (the hypothesis `hcnf` of `solve_found_iff_cnf` is met). -/
def exRun : Option (Nat × Bool × Bool) :=
  let P : Problem Nat := ⟨[⟨1, 3, 2, 5⟩, ⟨2, 3, 4, 5⟩], defineCoords [⟨1, 3, 2, 5⟩, ⟨2, 3, 4, 5⟩], [9000, 30000], [10000, 40000]⟩
  match RectSat.solvePosts (RectSat.pyName toString) P 2 25000 2 with
  | none => none
  | some ps =>
    match RectSat.postAll (RectSat.registered ps) PB.Store.init ps with
    | .error _ => none
    | .ok (m, S) => some (ps.length, decide (2 < S.memory.length), match m.cnf with | .ok _ => true | .error _ => false)

example : exRun = some (54, true, true) := by decide +kernel

/-- the return-value model on that grid: with the exposed model `b_0 = b_1 = 1`, box 0 = {cell 0}, box 1 = {cell 1}, `solve`
    returns cost `2·(9000 + 30000) − (10000 + 40000) + 1` and the two cells as rectangles (trunk first); if `b_1` has no value
    (`evalexpr` answers `None`) it raises; if `sm.solve()` is `False` it returns "insat" -/
def exProblem : Problem Nat :=
  ⟨[⟨1, 3, 2, 5⟩, ⟨2, 3, 4, 5⟩], defineCoords [⟨1, 3, 2, 5⟩, ⟨2, 3, 4, 5⟩], [9000, 30000], [10000, 40000]⟩
def exModel : List (Sat.Var × Int) :=
  [(.user "b_0", 1), (.user "b_1", 1), (.user "b0_0", 1), (.user "b0_1", 0), (.user "b1_0", 0), (.user "b1_1", 1)]

example : (match RectSat.solveReturn (RectSat.pyName toString) exProblem 2 2 true { model := exModel } with
    | .found c rs => some (c, rs) | _ => none) = some (28001, [some ⟨1, 3, 2, 5⟩, some ⟨2, 3, 4, 5⟩]) := by decide +kernel

example : (match RectSat.solveReturn (RectSat.pyName toString) exProblem 2 2 true { model := exModel.eraseIdx 1 } with
    | .raised => true | _ => false) = true := by decide +kernel

example : (match RectSat.solveReturn (RectSat.pyName toString) exProblem 2 2 false { model := exModel } with
    | .insat => true | _ => false) = true := by decide +kernel

/-- the registration hypothesis `hreg` of `solve_return_sound` holds for the manager of `exRun` (every variable of the
    postings registered beforehand, as `rect.py` does through `newvar`) -/
example : (match RectSat.solvePosts (RectSat.pyName toString) exProblem 2 25000 2 with
    | none => false
    | some ps =>
      match RectSat.postAll (RectSat.registered ps) PB.Store.init ps with
      | .error _ => false
      | .ok (m, _) => exProblem.C.blocks.all fun b =>
          decide (Sat.Var.user (RectSat.pyName (α := Nat) toString (.sel b)) ∈ m.vars) &&
          (List.range 2).all fun i => decide (Sat.Var.user (RectSat.pyName (α := Nat) toString (.cell i b)) ∈ m.vars)) = true := by
  decide +kernel

end FV.C08

import FV.Proofs.NetlistRT
import FV.Proofs.StogInst
import FV.Proofs.NetlistText
/-
  C04 — netlist write → read round trip preserves the design; writing is repeatable.

  Model: `FV/Model/Netlist.lean`: `parseNetlist stog εA : YVal α → Except Err (Netlist α)` (`Netlist(tree)`) and
  `dumpNetlist : Netlist α → YVal α` (the tree `Netlist.write_yaml` hands to the YAML dumper), following the code after
  fixes/C04_writer_regions_flip.diff (per-region areas written as a dictionary, `flip` written).  The YAML text layer
  (ruamel dump / load) is outside these theorems; the harness pins `load(dump(tree)) == tree` on every sample.

  The STOG step is a parameter `stog` of the model.  The general theorems (`roundtrip`, `roundtrip_eq`, `dump_stable`)
  take two hypotheses about it:
    `StogPerm stog`    it permutes the rectangles of a module and only changes their roles;
    `StogStable stog`  on its own output (roles forgotten, as after a write and a read) it returns that output.
  The HEADLINE theorems (`roundtrip_createStog`, `roundtrip_eq_createStog`, `dump_stable_createStog`) are stated for
  `stogC06 ε εA` — the C06 model of `create_stog` (`FV/Model/Stog.lean`, repaired code) run on the tagged rectangles,
  `ε` / `εA` = the distance / area tolerances in force — for which both hypotheses are PROVED
  (`FV/Proofs/StogInst.lean`: `stogPerm_stogC06`, `stogStable_stogC06`; `stogC06_toRect` shows it is `Stog.createStog`
  on the plain rectangles).  They carry no assumption about `create_stog`; the driver executes the same `stogC06`.
  Scalars: any linearly ordered field (centres and areas of hard modules are recomputed from the rectangles in the new
  order: equal in exact arithmetic; in floating point the harness allows 1e-9 there).

  TEXT LAYER (last section).  `FV/Model/YamlText.lean` models the text itself for the subset of trees the netlist writer
  produces: `emitText` (what `write_yaml` returns, byte for byte) and `parseText` (what `read_yaml` builds).
  `text_parse_emit` is `parseText (emitText t) = some t` for every tree of the subset (`wfRoot`, decidable);
  `written_tree_in_text_subset` shows that the tree written for ANY loaded netlist is in the subset (module and region
  names of at most 122 characters: beyond that ruamel leaves the simple-key form); `text_roundtrip(_createStog)` and
  `text_dump_stable_createStog` are the property at the level of the characters.  What stays outside is the conversion
  between a `float` and its decimal text (`fr` = `repr`, `fv` = `float`): hypothesis `float(repr(x)) = x` on the numbers of
  the document, and `repr` has one of the shapes `isPyFloatRepr`.
-/
namespace FV.C04
open FV FV.NL
set_option linter.unusedSectionVars false
set_option linter.unusedVariables false

variable {α : Type} [Field α] [LinearOrder α] [IsStrictOrderedRing α]
variable {stog : List (NRect α) → List (NRect α)} {εA : α}

/-- two modules are the same design element: name, kind (soft / hard / fixed / terminal / flippable), per-region areas,
    centre, aspect-ratio bounds, rectangles (coordinates with their number tags, region, flags, role). -/
structure SameModule (a b : NL.Mod α) : Prop where
  name : a.name = b.name
  hard : a.hard = b.hard
  fixed : a.fixed = b.fixed
  terminal : a.terminal = b.terminal
  flip : a.flip = b.flip
  areaRegions : a.areaRegions = b.areaRegions
  center : a.center = b.center
  aspect : a.aspect = b.aspect
  rects : List.Forall₂ (fun (r s : NRect α) => r.cx = s.cx ∧ r.cy = s.cy ∧ r.w = s.w ∧ r.h = s.h ∧
    r.region = s.region ∧ r.fixed = s.fixed ∧ r.hard = s.hard ∧ r.loc = s.loc) a.rects b.rects

/-- the relation `≃` of the property: the same modules in the same order, the same nets (members and weight) in the
    same order. -/
structure Same (a b : Netlist α) : Prop where
  modules : List.Forall₂ SameModule a.modules b.modules
  nets : List.Forall₂ (fun (e f : Net α) => e.members = f.members ∧ e.weight = f.weight) a.nets b.nets

theorem SameModule.refl (a : NL.Mod α) : SameModule a a := by
  refine ⟨rfl, rfl, rfl, rfl, rfl, rfl, rfl, rfl, ?_⟩
  induction a.rects with
  | nil => exact List.Forall₂.nil
  | cons r rs ih => exact List.Forall₂.cons ⟨rfl, rfl, rfl, rfl, rfl, rfl, rfl, rfl⟩ ih

theorem Same.refl (a : Netlist α) : Same a a := by
  constructor
  · induction a.modules with
    | nil => exact List.Forall₂.nil
    | cons m ms ih => exact List.Forall₂.cons (SameModule.refl m) ih
  · induction a.nets with
    | nil => exact List.Forall₂.nil
    | cons e es ih => exact List.Forall₂.cons ⟨rfl, rfl⟩ ih

/-- `≃` leaves nothing out: netlists related by it are equal as records. -/
theorem same_iff_eq (a b : Netlist α) : Same a b ↔ a = b := by
  constructor
  · intro h
    have hr : ∀ (l1 l2 : List (NRect α)), List.Forall₂ (fun (r s : NRect α) => r.cx = s.cx ∧ r.cy = s.cy ∧ r.w = s.w ∧
        r.h = s.h ∧ r.region = s.region ∧ r.fixed = s.fixed ∧ r.hard = s.hard ∧ r.loc = s.loc) l1 l2 → l1 = l2 := by
      intro l1 l2 hf
      induction hf with
      | nil => rfl
      | @cons r s _ _ hrs _ ih =>
        obtain ⟨h1, h2, h3, h4, h5, h6, h7, h8⟩ := hrs
        cases r; cases s; simp_all
    have hm : ∀ (l1 l2 : List (NL.Mod α)), List.Forall₂ SameModule l1 l2 → l1 = l2 := by
      intro l1 l2 hf
      induction hf with
      | nil => rfl
      | @cons x y _ _ hxy _ ih =>
        obtain ⟨h1, h2, h3, h4, h5, h6, h7, h8, h9⟩ := hxy
        have := hr _ _ h9
        cases x; cases y; simp_all
    have hn : ∀ (l1 l2 : List (Net α)), List.Forall₂ (fun (e f : Net α) => e.members = f.members ∧ e.weight = f.weight)
        l1 l2 → l1 = l2 := by
      intro l1 l2 hf
      induction hf with
      | nil => rfl
      | @cons x y _ _ hxy _ ih => cases x; cases y; simp_all
    cases a; cases b
    simp only [Netlist.mk.injEq]
    exact ⟨hm _ _ h.modules, hn _ _ h.nets⟩
  · rintro rfl; exact Same.refl a

/-- ROUND TRIP: the document written for a loaded netlist is accepted by the reader and denotes the same design. -/
theorem roundtrip (hp : StogPerm stog) (hs : StogStable stog) {t : YVal α} {n : Netlist α}
    (h : parseNetlist stog εA t = .ok n) :
    ∃ n', parseNetlist stog εA (dumpNetlist n) = .ok n' ∧ Same n' n :=
  ⟨n, roundtrip_core hp hs h, Same.refl n⟩

/-- the same, as an equation: reading what was written returns the very netlist. -/
theorem roundtrip_eq (hp : StogPerm stog) (hs : StogStable stog) {t : YVal α} {n : Netlist α}
    (h : parseNetlist stog εA t = .ok n) : parseNetlist stog εA (dumpNetlist n) = .ok n :=
  roundtrip_core hp hs h

/-- WRITING IS REPEATABLE: writing the reloaded design gives the identical document (tree). -/
theorem dump_stable (hp : StogPerm stog) (hs : StogStable stog) {t : YVal α} {n n' : Netlist α}
    (h : parseNetlist stog εA t = .ok n) (h' : parseNetlist stog εA (dumpNetlist n) = .ok n') :
    dumpNetlist n' = dumpNetlist n := by
  rw [roundtrip_core hp hs h] at h'
  cases h'; rfl

/-- the names of a loaded netlist are distinct (so the writer's `dict` comprehension keyed by name loses nothing and
    `dumpNetlist` is the tree the implementation builds). -/
theorem parse_names_nodup {t : YVal α} {n : Netlist α} (h : parseNetlist stog εA t = .ok n) :
    (n.modules.map (·.name)).Nodup := by
  obtain ⟨ms, es, hd, _, hmods, _⟩ := parseNetlist_modules h
  rw [hmods, List.map_map]
  have : (ms.map ((fun m => m.name) ∘ finalize stog)) = ms.map (·.name) := by
    apply List.map_congr_left; intro m _; simp
  rw [this]
  exact (parseDoc_mods_ok hd).2.1

/-- one module: what the reader returns for what the writer emitted (before centres and roles are recomputed). -/
theorem module_reread {m : NL.Mod α} (h : FinOK m) :
    parseModule (YVal.str m.name, dumpModule m) = .ok (reparse m) := parseModule_dump m h


/-! ### headline statements: the STOG step is the C06 model of `create_stog` (no assumption left about it) -/

/-- the STOG step used below IS the C06 model: on the plain rectangles `stogC06` leaves behind exactly the list
    `Stog.createStog` leaves behind. -/
theorem stog_is_createStog (ε εA : α) (rs : List (NRect α)) (hne : rs ≠ []) :
    ∃ flag, Stog.createStog ε εA (rs.map NRect.toRect) = some (flag, (stogC06 ε εA rs).map NRect.toRect) :=
  stogC06_toRect ε εA rs hne

/-- `create_stog` run again on its own output (roles forgotten) changes nothing: same order, same roles. -/
theorem createStog_stable (ε εA : α) (rs : List (NRect α)) :
    stogC06 ε εA ((stogC06 ε εA rs).map NRect.resetLoc) = stogC06 ε εA rs :=
  stogStable_stogC06 ε εA rs

/-- ROUND TRIP with the real `create_stog`: the document written for a loaded netlist is accepted and denotes the same
    design (modules in order: name, kind, per-region areas, centre, aspect bounds, rectangles with regions and roles;
    nets: members and weight). -/
theorem roundtrip_createStog (ε εA : α) {t : YVal α} {n : Netlist α}
    (h : parseNetlist (stogC06 ε εA) εA t = .ok n) :
    ∃ n', parseNetlist (stogC06 ε εA) εA (dumpNetlist n) = .ok n' ∧ Same n' n :=
  roundtrip (stogPerm_stogC06 ε εA) (stogStable_stogC06 ε εA) h

theorem roundtrip_eq_createStog (ε εA : α) {t : YVal α} {n : Netlist α}
    (h : parseNetlist (stogC06 ε εA) εA t = .ok n) : parseNetlist (stogC06 ε εA) εA (dumpNetlist n) = .ok n :=
  roundtrip_eq (stogPerm_stogC06 ε εA) (stogStable_stogC06 ε εA) h

/-- WRITING IS REPEATABLE with the real `create_stog`. -/
theorem dump_stable_createStog (ε εA : α) {t : YVal α} {n n' : Netlist α}
    (h : parseNetlist (stogC06 ε εA) εA t = .ok n)
    (h' : parseNetlist (stogC06 ε εA) εA (dumpNetlist n) = .ok n') : dumpNetlist n' = dumpNetlist n :=
  dump_stable (stogPerm_stogC06 ε εA) (stogStable_stogC06 ε εA) h h'

/-! ### non-vacuity: the hypotheses are satisfiable and concrete documents load -/

/-- a STOG step that calls every rectangle a trunk meets both hypotheses (so they are consistent). -/
def trivialStog (rs : List (NRect Rat)) : List (NRect Rat) := rs.map fun r => { r with loc := .trunk }

example : StogPerm trivialStog := by
  intro rs
  have : (trivialStog rs).map NRect.resetLoc = rs.map NRect.resetLoc := by
    simp [trivialStog, List.map_map, Function.comp_def, NRect.resetLoc]
  rw [this]

example : StogStable trivialStog := by
  intro rs
  simp [trivialStog, List.map_map, Function.comp_def, NRect.resetLoc]

/-- a document with a multi-region soft module, a flippable hard module, a fixed terminal and a weighted net. -/
def sampleDoc : YVal Rat :=
  .map [(.str "Modules", .map [
          (.str "A", .map [(.str "area", .map [(.str "_", .int 3), (.str "dsp", .float 2)]),
                           (.str "aspect_ratio", .int 2)]),
          (.str "H", .map [(.str "hard", .bool true), (.str "flip", .bool true),
                           (.str "rectangles", .seq [.seq [.int 2, .int 2, .int 4, .int 2]])]),
          (.str "T", .map [(.str "fixed", .bool true), (.str "terminal", .bool true),
                           (.str "center", .seq [.int 1, .float 2])])]),
        (.str "Nets", .seq [.seq [.str "A", .str "H", .str "T", .float 3]])]

example : (match parseNetlist trivialStog 0 sampleDoc with
    | .ok n => n.modules.length == 3 && n.nets.length == 1 &&
        (n.modules.map (·.flip)) == [false, true, false] && (n.modules.map (·.areaRegions.length)) == [2, 1, 1]
    | .error _ => false) = true := by decide +kernel

/-- with the real `create_stog` (tolerances 1/1024, 1/32): the hard module is given branch first; after loading the
    trunk (4×2) is in front and the branch is its NORTH neighbour; the round trip returns the same netlist. -/
def sampleDoc2 : YVal Rat :=
  .map [(.str "Modules", .map [
          (.str "H", .map [(.str "hard", .bool true), (.str "flip", .bool true),
                           (.str "rectangles", .seq [.seq [.int 1, .int 4, .int 2, .int 2],
                                                     .seq [.int 2, .int 2, .int 4, .int 2]])]),
          (.str "A", .map [(.str "area", .map [(.str "dsp", .float 2)])])]),
        (.str "Nets", .seq [.seq [.str "A", .str "H"]])]

example : (match parseNetlist (stogC06 (1 / 1024 : Rat) (1 / 32)) (1 / 32) sampleDoc2 with
    | .ok n => (n.modules.map fun m => m.rects.map fun r => (r.w, r.loc)) ==
                  [[(Num.i 4, Loc.trunk), (Num.i 2, Loc.north)], []] &&
               (match parseNetlist (stogC06 (1 / 1024 : Rat) (1 / 32)) (1 / 32) (dumpNetlist n) with
                | .ok n' => (n'.modules.map fun m => m.rects.map fun r => (r.w, r.loc)) ==
                              [[(Num.i 4, Loc.trunk), (Num.i 2, Loc.north)], []]
                | .error _ => false)
    | .error _ => false) = true := by decide +kernel


/-! ## the text layer: `write_yaml` / `read_yaml` on the characters -/

section text
open FV.YT

/-- PARSE ∘ EMIT: the text emitted for a tree of the writer's subset is read back as that tree. -/
theorem text_parse_emit {t : YVal String} (h : wfRoot t = true) : parseText (emitText t) = some t :=
  parseText_emitText h

/-- different documents have different texts. -/
theorem text_emit_injective {t u : YVal String} (ht : wfRoot t = true) (hu : wfRoot u = true)
    (h : emitText t = emitText u) : t = u := by
  have a := text_parse_emit ht
  rw [h, text_parse_emit hu] at a
  exact (Option.some.inj a).symm

/-- the tree `write_yaml` receives for a loaded netlist is in the subset of the text model (real `create_stog`). -/
theorem written_tree_in_text_subset (ε εA : α) (fr : α → String) (hfr : ∀ x, isPyFloatRepr (fr x).toList = true)
    {t : YVal α} {n : Netlist α} (h : parseNetlist (stogC06 ε εA) εA t = .ok n) (hlen : n.textOK = true) :
    wfRoot (mapF fr (dumpNetlist n)) = true :=
  dump_wfRoot fr hfr (stogPerm_stogC06 ε εA) h hlen

/-- ROUND TRIP ON THE CHARACTERS: `Netlist(n.write_yaml())` is `n`. -/
theorem text_roundtrip (hp : StogPerm stog) (hs : StogStable stog) (fr : α → String) (fv : String → α)
    (hfr : ∀ x, isPyFloatRepr (fr x).toList = true) {t : YVal α} {n : Netlist α}
    (h : parseNetlist stog εA t = .ok n) (hlen : n.textOK = true)
    (hfv : mapF fv (mapF fr (dumpNetlist n)) = dumpNetlist n) :
    ∃ n', loadText fv stog εA (writeText fr n) = some (.ok n') ∧ Same n' n :=
  ⟨n, loadText_writeText hp hs fr fv hfr h hlen hfv, Same.refl n⟩

/-- the same with the real `create_stog`, as an equation. -/
theorem text_roundtrip_createStog (ε εA : α) (fr : α → String) (fv : String → α)
    (hfr : ∀ x, isPyFloatRepr (fr x).toList = true) {t : YVal α} {n : Netlist α}
    (h : parseNetlist (stogC06 ε εA) εA t = .ok n) (hlen : n.textOK = true)
    (hfv : mapF fv (mapF fr (dumpNetlist n)) = dumpNetlist n) :
    loadText fv (stogC06 ε εA) εA (writeText fr n) = some (.ok n) :=
  loadText_writeText (stogPerm_stogC06 ε εA) (stogStable_stogC06 ε εA) fr fv hfr h hlen hfv

/-- … in particular whenever `float(repr(x)) = x` for every number. -/
theorem text_roundtrip_of_float_repr (ε εA : α) (fr : α → String) (fv : String → α)
    (hfr : ∀ x, isPyFloatRepr (fr x).toList = true) (hinv : ∀ x, fv (fr x) = x) {t : YVal α} {n : Netlist α}
    (h : parseNetlist (stogC06 ε εA) εA t = .ok n) (hlen : n.textOK = true) :
    loadText fv (stogC06 ε εA) εA (writeText fr n) = some (.ok n) :=
  text_roundtrip_createStog ε εA fr fv hfr h hlen (mapF_inverse fr fv hinv _)

/-- WRITING IS REPEATABLE ON THE CHARACTERS: the reloaded design is written as the identical text. -/
theorem text_dump_stable_createStog (ε εA : α) (fr : α → String) (fv : String → α)
    (hfr : ∀ x, isPyFloatRepr (fr x).toList = true) {t : YVal α} {n n' : Netlist α}
    (h : parseNetlist (stogC06 ε εA) εA t = .ok n) (hlen : n.textOK = true)
    (hfv : mapF fv (mapF fr (dumpNetlist n)) = dumpNetlist n)
    (h' : loadText fv (stogC06 ε εA) εA (writeText fr n) = some (.ok n')) : writeText fr n' = writeText fr n := by
  rw [text_roundtrip_createStog ε εA fr fv hfr h hlen hfv] at h'
  cases h'; rfl

/-- `read_yaml` takes what `write_yaml` returned for YAML text (it has a line feed), never for a file name. -/
theorem text_is_yaml_text (fr : α → String) (n : Netlist α) : isYamlText (writeText fr n) = true :=
  writeText_isYamlText fr n

/-! ### non-vacuity: `sampleDoc2` loaded with the real `create_stog`, written, read -/

/-- the tree written for `sampleDoc2` once loaded (trunk first). -/
def sampleTree : YVal Rat :=
  .map [(.str "Modules", .map [
          (.str "H", .map [(.str "hard", .bool true), (.str "flip", .bool true),
                           (.str "rectangles", .seq [.seq [.int 2, .int 2, .int 4, .int 2],
                                                     .seq [.int 1, .int 4, .int 2, .int 2]])]),
          (.str "A", .map [(.str "area", .map [(.str "dsp", .float 2)])])]),
        (.str "Nets", .seq [.seq [.str "A", .str "H"]])]

/-- the text `write_yaml` returns for it (the only float is `2.0`). -/
def sampleText : List Char :=
  ("Modules:\n  H:\n    hard: true\n    flip: true\n    rectangles:\n    - - 2\n      - 2\n      - 4\n      - 2\n" ++
   "    - - 1\n      - 4\n      - 2\n      - 2\n  A:\n    area:\n      dsp: 2.0\nNets:\n- - A\n  - H\n").toList

def sampleRepr : Rat → String := fun _ => "2.0"
def sampleFloat : String → Rat := fun _ => 2

example : (match parseNetlist (stogC06 (1 / 1024 : Rat) (1 / 32)) (1 / 32) sampleDoc2 with
    | .ok n => eqb (dumpNetlist n) sampleTree && n.textOK
    | .error _ => false) = true := by decide +kernel

example : emitText (mapF sampleRepr sampleTree) = sampleText := by decide +kernel
example : wfRoot (mapF sampleRepr sampleTree) = true := by decide +kernel
example : parseText sampleText = some (mapF sampleRepr sampleTree) :=
  opt_eq_of_eqb (by decide +kernel)
example : eqb (mapF sampleFloat (mapF sampleRepr sampleTree)) sampleTree = true := by decide +kernel

/-- `text_roundtrip_createStog` applied: all its hypotheses hold for `sampleDoc2`. -/
example : ∃ n, parseNetlist (stogC06 (1 / 1024 : Rat) (1 / 32)) (1 / 32) sampleDoc2 = .ok n ∧
    loadText sampleFloat (stogC06 (1 / 1024 : Rat) (1 / 32)) (1 / 32) (writeText sampleRepr n) = some (.ok n) := by
  have hk : (match parseNetlist (stogC06 (1 / 1024 : Rat) (1 / 32)) (1 / 32) sampleDoc2 with
      | .ok n => eqb (dumpNetlist n) sampleTree && n.textOK
      | .error _ => false) = true := by decide +kernel
  cases hn : parseNetlist (stogC06 (1 / 1024 : Rat) (1 / 32)) (1 / 32) sampleDoc2 with
  | error e => rw [hn] at hk; cases hk
  | ok n =>
    rw [hn] at hk
    simp only [Bool.and_eq_true] at hk
    have hd := eqb_sound _ _ hk.1
    refine ⟨n, rfl, text_roundtrip_createStog _ _ sampleRepr sampleFloat (fun _ => show isPyFloatRepr "2.0".toList = true by decide +kernel) hn hk.2 ?_⟩
    rw [hd]
    exact eqb_sound _ _ (by decide +kernel)

/-- texts outside the subset are refused, not guessed: a flow mapping, a tab, a comment. -/
example : parseText "a: {b: 1}\n".toList = none := by decide +kernel
example : parseText "a:\n\t- 1\n".toList = none := by decide +kernel
example : parseText "a: 1 # one\n".toList = none := by decide +kernel
/-- YAML 1.2 resolution: `yes` is a string, `true` a Boolean, `'true'` a string, `1e+22` a float. -/
example : parseText "yes: true\nk:\n- 'true'\n- 1e+22\n- -0\n".toList =
    some (.map [(.str "yes", .bool true), (.str "k", .seq [.str "true", .float "1e+22", .int 0])]) :=
  opt_eq_of_eqb (by decide +kernel)

end text

end FV.C04

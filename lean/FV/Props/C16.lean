import FV.Model.PB
namespace FV.C16
open FV.PB
theorem stub : (1 : Nat) = 1 := rfl
end FV.C16

import FV.Proofs.PB
/-
  C16 — Pseudo-Boolean expression algebra preserves integer semantics.

  Model: `FV/Model/PB.lean` (`Literal`, `Term`, `Expr`, `Ineq` of tools/rect/pseudobool.py, with `Expr.__mul__`
  repaired by fixes/C16_mul_constant.diff).  Semantics (`FV/Proofs/PB.lean`): `σ : V → Bool` is a truth assignment,
  `litVal`, `termVal`, `Expr.eval` the integer value of a literal / term / expression, `Ineq.holds` the truth of a
  normalised inequality `lhs ⋈ rhs`, `Num.toInt` Python's `int()`.

  Every theorem is for all expressions, operands, multipliers (ints and finite floats, any sign, zero) and assignments.
-/
namespace FV.C16
open FV.PB

variable {V : Type} [DecidableEq V]

/-! ### the value of a built expression equals the value computed from its operands -/

/-- `e + x` for every kind of operand (`str`, `Literal`, `Term`, number, `Expr`) -/
theorem eval_add (σ : V → Bool) (e : Expr V) (x : Operand V) : (e.add x).eval σ = e.eval σ + x.val σ :=
  Expr.eval_add σ e x

/-- `e - x` for every kind of operand -/
theorem eval_sub (σ : V → Bool) (e : Expr V) (x : Operand V) : (e.sub x).eval σ = e.eval σ - x.val σ :=
  Expr.eval_sub σ e x

/-- `e * n` / `n * e` (repaired code): the whole expression, constant included, is multiplied by `int(n)` -/
theorem eval_mul (σ : V → Bool) (e : Expr V) (n : Num) : (e.mul n).eval σ = e.eval σ * n.toInt :=
  Expr.eval_mul σ e n

/-- `-l` on a literal is its complement -/
theorem eval_neg (σ : V → Bool) (l : Literal V) : litVal σ l.neg = 1 - litVal σ l := litVal_neg σ l

/-- `-t` on a term is arithmetic negation -/
theorem eval_neg_term (σ : V → Bool) (t : Term V) : termVal σ t.neg = - termVal σ t := termVal_neg σ t

/-- `l * n`, `n * l` -/
theorem eval_lit_mul (σ : V → Bool) (l : Literal V) (n : Num) : termVal σ (l.mul n) = litVal σ l * n.toInt :=
  termVal_litMul σ l n

/-- `t * n`, `n * t` -/
theorem eval_term_mul (σ : V → Bool) (t : Term V) (n : Num) : termVal σ (t.mul n) = termVal σ t * n.toInt :=
  termVal_termMul σ t n

/-! ### a built inequality holds exactly when the direct comparison holds -/

/-- all operator strings accepted by `Ineq.__init__` (`>=`, `<=`, `>`, `<`, `=`, `==`) -/
theorem ineq_holds_iff (σ : V → Bool) (a b : Expr V) (o : CmpOp) :
    (Ineq.make a b o).holds σ ↔ o.rel (a.eval σ) (b.eval σ) :=
  Ineq.holds_make σ a b o

/-- the left-hand side of a built inequality carries no constant (it is moved into `rhs`) -/
theorem ineq_lhs_const (a b : Expr V) (o : CmpOp) : (Ineq.make a b o).lhs.c = 0 := Ineq.make_lhs_c a b o

/-! ### normal form: no zero or negative coefficient, no variable twice -/

theorem normal_form_empty : (⟨0, []⟩ : Expr V).NF := nf_empty
theorem normal_form_add {e : Expr V} (x : Operand V) (h : e.NF) : (e.add x).NF := Expr.nf_add x h
theorem normal_form_sub {e : Expr V} (x : Operand V) (h : e.NF) : (e.sub x).NF := Expr.nf_sub x h
theorem normal_form_mul {e : Expr V} (n : Num) (h : e.NF) : (e.mul n).NF := Expr.nf_mul n h
theorem normal_form_ineq {a b : Expr V} (o : CmpOp) (ha : a.NF) (hb : b.NF) : (Ineq.make a b o).lhs.NF :=
  Ineq.nf_make o ha hb

/-- the invariant over whole Python expressions: whatever sequence of operators (including reflected ones and
    direct `Ineq(a, b, op)` calls) built it, an `Expr` is in normal form and so is the left side of an `Ineq`
    (`Val.NF`) -/
theorem normal_form (t : Tree V) (v : Val V) (h : t.run = .ok v) : v.NF := Tree.run_nf t v h

theorem normal_form_expr (t : Tree V) (e : Expr V) (h : t.run = .ok (.expr e)) :
    (∀ x ∈ e.t, 0 < x.c) ∧ (e.t.map (·.L.v)).Nodup := Tree.run_nf t _ h

theorem normal_form_ineq_tree (t : Tree V) (q : Ineq V) (h : t.run = .ok (.ineq q)) :
    (∀ x ∈ q.lhs.t, 0 < x.c) ∧ (q.lhs.t.map (·.L.v)).Nodup := Tree.run_nf t _ h

/-! ### whole expression trees -/

/-- Under every assignment the object Python builds from an expression tree agrees with the tree evaluated
    directly with integers (`Tree.den`; for a comparison: the built `Ineq` holds iff the direct comparison
    `Tree.truth` holds).  Covers all operators, reflected forms and operand kinds of the model. -/
theorem eval_tree (σ : V → Bool) (t : Tree V) (v : Val V) (h : t.run = .ok v) : v.Sound σ t := by
  induction t generalizing v with
  | str s => simp [Tree.run] at h; subst h; simp [Val.Sound, Val.val, Tree.den]
  | num n => simp [Tree.run] at h; subst h; simp [Val.Sound, Val.val, Tree.den]
  | lit s b => simp [Tree.run] at h; subst h; simp [Val.Sound, Val.val, Tree.den]
  | neg a ih =>
    simp only [Tree.run, bind, Except.bind] at h
    cases ha : a.run with
    | error e => simp [ha] at h
    | ok x =>
      simp only [ha] at h
      have hs := ih x ha
      obtain ⟨h1, h2⟩ := pyNeg_sound σ h
      cases x <;> simp [pyNeg] at h <;> subst h <;>
        simp_all [Val.Sound, Val.val, Tree.den, litVal_neg, termVal_neg, Num.toInt_neg]
  | mul a b iha ihb =>
    simp only [Tree.run, bind, Except.bind] at h
    cases ha : a.run with
    | error e => simp [ha] at h
    | ok x =>
      cases hb : b.run with
      | error e => simp [ha, hb] at h
      | ok y =>
        simp only [ha, hb] at h
        have hx := iha x ha
        have hy := ihb y hb
        obtain ⟨h1, h2⟩ := pyMul_sound σ h
        cases x <;> cases y <;> simp only [pyMul] at h <;>
          first
          | (simp at h; done)
          | (cases v <;> simp_all [Val.Sound, Val.isIneq, Tree.den])
  | add a b iha ihb =>
    simp only [Tree.run, bind, Except.bind] at h
    cases ha : a.run with
    | error e => simp [ha] at h
    | ok x =>
      cases hb : b.run with
      | error e => simp [ha, hb] at h
      | ok y =>
        simp only [ha, hb] at h
        have hx := iha x ha
        have hy := ihb y hb
        obtain ⟨h1, h2⟩ := pyAdd_sound σ h
        cases x <;> cases y <;> simp only [pyAdd, addLT, Val.operand?] at h <;>
          first
          | (simp at h; done)
          | (cases v <;> simp_all [Val.Sound, Val.isIneq, Tree.den])
  | sub a b iha ihb =>
    simp only [Tree.run, bind, Except.bind] at h
    cases ha : a.run with
    | error e => simp [ha] at h
    | ok x =>
      cases hb : b.run with
      | error e => simp [ha, hb] at h
      | ok y =>
        simp only [ha, hb] at h
        have hx := iha x ha
        have hy := ihb y hb
        obtain ⟨h1, h2⟩ := pySub_sound σ h
        cases x <;> cases y <;> simp only [pySub, Val.operand?] at h <;>
          first
          | (simp at h; done)
          | (cases v <;> simp_all [Val.Sound, Val.isIneq, Tree.den])
  | cmp o a b iha ihb =>
    simp only [Tree.run, bind, Except.bind] at h
    cases ha : a.run with
    | error e => simp [ha] at h
    | ok x =>
      cases hb : b.run with
      | error e => simp [ha, hb] at h
      | ok y =>
        simp only [ha, hb] at h
        have hx := iha x ha
        have hy := ihb y hb
        obtain ⟨q, hq, hh⟩ := pyCmp_sound σ h
        subst hq
        have hyi : y.isIneq = false := by
          cases y <;> simp [Val.isIneq]
          cases x <;> simp [pyCmp, cmpPB, exprOf, Val.operand?, bind, Except.bind] at h
        cases x <;> cases y <;> simp only [pyCmp] at h <;>
          first
          | (simp at h; done)
          | (simp [Val.isIneq] at hyi; done)
          | (simp_all [Val.Sound, Tree.truth])
  | ineq s a b iha ihb =>
    simp only [Tree.run, bind, Except.bind] at h
    cases ha : a.run with
    | error e => simp [ha] at h
    | ok x =>
      cases hb : b.run with
      | error e => simp [ha, hb] at h
      | ok y =>
        simp only [ha, hb] at h
        have hx := iha x ha
        have hy := ihb y hb
        obtain ⟨q, o, ho, hq, hh⟩ := pyIneq_sound σ h
        subst hq
        cases x <;> cases y <;> simp only [pyIneq] at h <;> try (simp at h; done)
        simp_all [Val.Sound, Tree.truth]

/-! ### non-vacuity: concrete instances -/

/-- `(a + 3) * 2` is `2a + 6` (it was `2a + 3` before the repair) -/
example : (((⟨0, []⟩ : Expr String).add (.lit ⟨"a", true⟩)).add (.num (.int 3))).mul (.int 2)
    = ⟨6, [⟨⟨"a", true⟩, 2⟩]⟩ := by decide

/-- `a - 2*b + (¬a) * -3` runs, is an `Expr`, and is in normal form `4 a + 2 ¬b − 5` (variables `0 = a`, `1 = b`) -/
example : (Tree.add (.sub (.add (.lit 0 true) (.num (.int 0))) (.mul (.lit 1 true) (.num (.int 2))))
      (.mul (.neg (.lit 0 true)) (.num (.int (-3))))).run
    = .ok (.expr (⟨-5, [⟨⟨0, true⟩, 4⟩, ⟨⟨1, false⟩, 2⟩]⟩ : Expr Nat)) := by rfl

/-- a comparison through the reflected operator: `2 <= a + b` is `a + b >= 2` -/
example : (Tree.cmp .le (.num (.int 2)) (.add (.lit 0 true) (.lit 1 true))).run
    = .ok (.ineq (⟨⟨0, [⟨⟨0, true⟩, 1⟩, ⟨⟨1, true⟩, 1⟩]⟩, 2, .ge⟩ : Ineq Nat)) := by rfl

/-- a float multiplier is truncated by `int()`: `(a + 1) * 2.75 = 2a + 2` -/
example : (Tree.mul (.add (.lit 0 true) (.num (.int 1))) (.num (.flt 11 4))).run
    = .ok (.expr (⟨2, [⟨⟨0, true⟩, 2⟩]⟩ : Expr Nat)) := by rfl

end FV.C16

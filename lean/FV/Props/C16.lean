import FV.Proofs.PB
/-
  C16 — Pseudo-Boolean expression algebra preserves integer semantics.

  Model: `FV/Model/PB.lean` (`Literal`, `Term`, `Expr`, `Ineq` of tools/rect/pseudobool.py, with `Expr.__mul__`
  repaired by fixes/C16_mul_constant.diff).  Semantics (`FV/Proofs/PB.lean`): `σ : V → Bool` is a truth assignment,
  `litVal`, `termVal`, `Expr.eval` the integer value of a literal / term / expression, `Ineq.holds` the truth of a
  normalised inequality `lhs ⋈ rhs`, `Num.toInt` Python's `int()`.

  Every theorem is for all expressions, operands, multipliers (ints and finite floats, any sign, zero) and assignments.
-/
namespace FV.C16
open FV.PB

variable {V : Type} [DecidableEq V]

/-! ### the value of a built expression equals the value computed from its operands -/

/-- `e + x` for every kind of operand (`str`, `Literal`, `Term`, number, `Expr`) -/
theorem eval_add (σ : V → Bool) (e : Expr V) (x : Operand V) : (e.add x).eval σ = e.eval σ + x.val σ :=
  Expr.eval_add σ e x

/-- `e - x` for every kind of operand -/
theorem eval_sub (σ : V → Bool) (e : Expr V) (x : Operand V) : (e.sub x).eval σ = e.eval σ - x.val σ :=
  Expr.eval_sub σ e x

/-- `e * n` / `n * e` (repaired code): the whole expression, constant included, is multiplied by `int(n)` -/
theorem eval_mul (σ : V → Bool) (e : Expr V) (n : Num) : (e.mul n).eval σ = e.eval σ * n.toInt :=
  Expr.eval_mul σ e n

/-- `-l` on a literal is its complement -/
theorem eval_neg (σ : V → Bool) (l : Literal V) : litVal σ l.neg = 1 - litVal σ l := litVal_neg σ l

/-- `-t` on a term is arithmetic negation -/
theorem eval_neg_term (σ : V → Bool) (t : Term V) : termVal σ t.neg = - termVal σ t := termVal_neg σ t

/-- `l * n`, `n * l` -/
theorem eval_lit_mul (σ : V → Bool) (l : Literal V) (n : Num) : termVal σ (l.mul n) = litVal σ l * n.toInt :=
  termVal_litMul σ l n

/-- `t * n`, `n * t` -/
theorem eval_term_mul (σ : V → Bool) (t : Term V) (n : Num) : termVal σ (t.mul n) = termVal σ t * n.toInt :=
  termVal_termMul σ t n

/-! ### a built inequality holds exactly when the direct comparison holds -/

/-- all operator strings accepted by `Ineq.__init__` (`>=`, `<=`, `>`, `<`, `=`, `==`) -/
theorem ineq_holds_iff (σ : V → Bool) (a b : Expr V) (o : CmpOp) :
    (Ineq.make a b o).holds σ ↔ o.rel (a.eval σ) (b.eval σ) :=
  Ineq.holds_make σ a b o

/-- the left-hand side of a built inequality carries no constant (it is moved into `rhs`) -/
theorem ineq_lhs_const (a b : Expr V) (o : CmpOp) : (Ineq.make a b o).lhs.c = 0 := Ineq.make_lhs_c a b o

/-! ### normal form: no zero or negative coefficient, no variable twice -/

theorem normal_form_empty : (⟨0, []⟩ : Expr V).NF := nf_empty
theorem normal_form_add {e : Expr V} (x : Operand V) (h : e.NF) : (e.add x).NF := Expr.nf_add x h
theorem normal_form_sub {e : Expr V} (x : Operand V) (h : e.NF) : (e.sub x).NF := Expr.nf_sub x h
theorem normal_form_mul {e : Expr V} (n : Num) (h : e.NF) : (e.mul n).NF := Expr.nf_mul n h
theorem normal_form_ineq {a b : Expr V} (o : CmpOp) (ha : a.NF) (hb : b.NF) : (Ineq.make a b o).lhs.NF :=
  Ineq.nf_make o ha hb

/-- the invariant over whole Python expressions: whatever sequence of operators (including reflected ones and
    direct `Ineq(a, b, op)` calls) built it, an `Expr` is in normal form and so is the left side of an `Ineq`
    (`Val.NF`) -/
theorem normal_form (t : Tree V) (v : Val V) (h : t.run = .ok v) : v.NF := Tree.run_nf t v h

theorem normal_form_expr (t : Tree V) (e : Expr V) (h : t.run = .ok (.expr e)) :
    (∀ x ∈ e.t, 0 < x.c) ∧ (e.t.map (·.L.v)).Nodup := Tree.run_nf t _ h

theorem normal_form_ineq_tree (t : Tree V) (q : Ineq V) (h : t.run = .ok (.ineq q)) :
    (∀ x ∈ q.lhs.t, 0 < x.c) ∧ (q.lhs.t.map (·.L.v)).Nodup := Tree.run_nf t _ h

/-! ### whole expression trees -/

/-- Under every assignment the object Python builds from an expression tree agrees with the tree evaluated
    directly with integers (`Tree.den`; for a comparison: the built `Ineq` holds iff the direct comparison
    `Tree.truth` holds).  Covers all operators, reflected forms and operand kinds of the model. -/
theorem eval_tree (σ : V → Bool) (t : Tree V) (v : Val V) (h : t.run = .ok v) : v.Sound σ t := by
  induction t generalizing v with
  | str s => simp [Tree.run] at h; subst h; simp [Val.Sound, Val.val, Tree.den]
  | num n => simp [Tree.run] at h; subst h; simp [Val.Sound, Val.val, Tree.den]
  | lit s b => simp [Tree.run] at h; subst h; simp [Val.Sound, Val.val, Tree.den]
  | neg a ih =>
    simp only [Tree.run, bind, Except.bind] at h
    cases ha : a.run with
    | error e => simp [ha] at h
    | ok x =>
      simp only [ha] at h
      have hs := ih x ha
      obtain ⟨h1, h2⟩ := pyNeg_sound σ h
      cases x <;> simp [pyNeg] at h <;> subst h <;>
        simp_all [Val.Sound, Val.val, Tree.den, litVal_neg, termVal_neg, Num.toInt_neg]
  | inv a ih =>
    simp only [Tree.run, bind, Except.bind] at h
    cases ha : a.run with
    | error e => simp [ha] at h
    | ok x =>
      simp only [ha] at h
      obtain ⟨h1, h2⟩ := pyInv_sound σ h
      have hxi : x.isIneq = false := by cases x <;> simp [pyInv] at h <;> rfl
      apply Val.sound_of_val h1
      rw [h2, Val.sound_val hxi (ih x ha)]; rfl
  | pos a ih =>
    simp only [Tree.run, bind, Except.bind] at h
    cases ha : a.run with
    | error e => simp [ha] at h
    | ok x =>
      simp only [ha] at h
      obtain ⟨h1, h2⟩ := pyPos_sound σ h
      have hxi : x.isIneq = false := by cases x <;> simp [pyPos] at h <;> rfl
      apply Val.sound_of_val h1
      rw [h2, Val.sound_val hxi (ih x ha)]; rfl
  | mul a b iha ihb =>
    simp only [Tree.run, bind, Except.bind] at h
    cases ha : a.run with
    | error e => simp [ha] at h
    | ok x =>
      cases hb : b.run with
      | error e => simp [ha, hb] at h
      | ok y =>
        simp only [ha, hb] at h
        have hx := iha x ha
        have hy := ihb y hb
        obtain ⟨h1, h2⟩ := pyMul_sound σ h
        cases x <;> cases y <;> simp only [pyMul] at h <;>
          first
          | (simp at h; done)
          | (cases v <;> simp_all [Val.Sound, Val.isIneq, Tree.den])
  | add a b iha ihb =>
    simp only [Tree.run, bind, Except.bind] at h
    cases ha : a.run with
    | error e => simp [ha] at h
    | ok x =>
      cases hb : b.run with
      | error e => simp [ha, hb] at h
      | ok y =>
        simp only [ha, hb] at h
        have hx := iha x ha
        have hy := ihb y hb
        obtain ⟨h1, h2⟩ := pyAdd_sound σ h
        cases x <;> cases y <;> simp only [pyAdd, addLT, Val.operand?] at h <;>
          first
          | (simp at h; done)
          | (cases v <;> simp_all [Val.Sound, Val.isIneq, Tree.den])
  | sub a b iha ihb =>
    simp only [Tree.run, bind, Except.bind] at h
    cases ha : a.run with
    | error e => simp [ha] at h
    | ok x =>
      cases hb : b.run with
      | error e => simp [ha, hb] at h
      | ok y =>
        simp only [ha, hb] at h
        have hx := iha x ha
        have hy := ihb y hb
        obtain ⟨h1, h2⟩ := pySub_sound σ h
        cases x <;> cases y <;> simp only [pySub, Val.operand?] at h <;>
          first
          | (simp at h; done)
          | (cases v <;> simp_all [Val.Sound, Val.isIneq, Tree.den])
  | cmp o a b iha ihb =>
    simp only [Tree.run, bind, Except.bind] at h
    cases ha : a.run with
    | error e => simp [ha] at h
    | ok x =>
      cases hb : b.run with
      | error e => simp [ha, hb] at h
      | ok y =>
        simp only [ha, hb] at h
        rcases pyCmp_sound σ h with ⟨q, hq, hxi, hyi, hh⟩ | ⟨hv, _⟩
        · subst hq
          show q.holds σ ↔ o.rel (a.den σ) (b.den σ)
          rw [hh, Val.sound_val hxi (iha x ha), Val.sound_val hyi (ihb y hb)]
        · subst hv; rfl
  | ineq s a b iha ihb =>
    simp only [Tree.run, bind, Except.bind] at h
    cases ha : a.run with
    | error e => simp [ha] at h
    | ok x =>
      cases hb : b.run with
      | error e => simp [ha, hb] at h
      | ok y =>
        simp only [ha, hb] at h
        obtain ⟨q, o, ho, hq, hxi, hyi, hh⟩ := pyIneq_sound σ h
        subst hq
        show q.holds σ ↔ Tree.truth σ (.ineq s a b)
        simp only [Tree.truth, ho]
        rw [hh, Val.sound_val hxi (iha x ha), Val.sound_val hyi (ihb y hb)]

/-- the builtin `sum(items)` (start value: the int `0`) and `sum(items, start)`: whenever Python builds an object, its
    value is the start value plus the sum of the direct values of the items -/
theorem eval_sum (σ : V → Bool) (start : Tree V) (items : List (Tree V)) (v : Val V)
    (h : (Tree.sumFrom start items).run = .ok v) :
    v.Sound σ (Tree.sumFrom start items) ∧
      (Tree.sumFrom start items).den σ = start.den σ + (items.map (Tree.den σ)).sum :=
  ⟨eval_tree σ _ v h, Tree.den_sumFrom σ items start⟩

/-- `Ineq(lhs, x, op)` for every operand kind `Expr.__sub__` accepts on the right (`str`, `Literal`, `Term`, number,
    `Expr`): the built inequality holds iff the normalised comparison of the two values holds, and its left side is in
    normal form -/
theorem ineq_operand_holds_iff (σ : V → Bool) (l : Expr V) (x : Operand V) (op : NOp) :
    (Ineq.makeOp l x op).holds σ ↔ op.rel (l.eval σ) (x.val σ) := Ineq.holds_makeOp σ l x op

theorem normal_form_ineq_operand {l : Expr V} (x : Operand V) (op : NOp) (h : l.NF) : (Ineq.makeOp l x op).lhs.NF :=
  Ineq.nf_makeOp x op h

/-- all five operators and both operand orders reduce to the three normalised forms: `a <= b` is `b >= a`, `a < b` is
    `b > a`, `==` is `=` -/
theorem ineq_normalisation (a b : Expr V) (o : CmpOp) :
    Ineq.make a b o = (if o.norm.2 then Ineq.makeOp b (.expr a) o.norm.1 else Ineq.makeOp a (.expr b) o.norm.1) ∧
    (∀ x y : Int, o.rel x y ↔ o.norm.1.rel (if o.norm.2 then y else x) (if o.norm.2 then x else y)) :=
  ⟨Ineq.make_eq_makeOp a b o, CmpOp.norm_rel o⟩

/-- a comparison operator applied to two Python values either builds an `Ineq` equivalent to the direct comparison
    (then neither operand is itself an `Ineq`), or answers the `bool` `False` — only for `Ineq == str/number` -/
theorem cmp_dispatch (σ : V → Bool) {o : CmpOp} {x y v : Val V} (h : pyCmp o x y = .ok v) :
    (∃ q, v = .ineq q ∧ x.isIneq = false ∧ y.isIneq = false ∧ (q.holds σ ↔ o.rel (x.val σ) (y.val σ))) ∨
    (v = .bool false ∧ (x.isIneq = true ∨ y.isIneq = true)) := pyCmp_sound σ h

/-- no class of the module defines `__invert__` / `__pos__` / `__rsub__`, `Literal` and `Term` define no `__sub__`,
    `Expr` no `__neg__` / `__radd__`: these expressions are refused with `TypeError` whatever the operands contain -/
theorem unsupported_operators (l : Literal V) (t : Term V) (e : Expr V) (q : Ineq V) (n : Num) (y : Val V) :
    pyInv (.lit l) = .error .typeError ∧ pyInv (.term t) = .error .typeError ∧ pyInv (.expr e) = .error .typeError ∧
    pyInv (.ineq q) = .error .typeError ∧
    pyPos (.lit l) = .error .typeError ∧ pyPos (.term t) = .error .typeError ∧ pyPos (.expr e) = .error .typeError ∧
    pyNeg (.expr e) = .error .typeError ∧ pyNeg (.ineq q) = .error .typeError ∧
    pySub (.lit l) y = .error .typeError ∧ pySub (.term t) y = .error .typeError ∧
    pySub (.num n) (.lit l) = .error .typeError ∧ pySub (.num n) (.term t) = .error .typeError ∧
    pySub (.num n) (.expr e) = .error .typeError ∧ pyAdd (.num n) (.expr e) = .error .typeError := by
  refine ⟨rfl, rfl, rfl, rfl, rfl, rfl, rfl, rfl, rfl, ?_, ?_, rfl, rfl, rfl, rfl⟩ <;> cases y <;> rfl

/-! ### non-vacuity: concrete instances -/

/-- `(a + 3) * 2` is `2a + 6` (it was `2a + 3` before the repair) -/
example : (((⟨0, []⟩ : Expr String).add (.lit ⟨"a", true⟩)).add (.num (.int 3))).mul (.int 2)
    = ⟨6, [⟨⟨"a", true⟩, 2⟩]⟩ := by decide

/-- `a - 2*b + (¬a) * -3` runs, is an `Expr`, and is in normal form `4 a + 2 ¬b − 5` (variables `0 = a`, `1 = b`) -/
example : (Tree.add (.sub (.add (.lit 0 true) (.num (.int 0))) (.mul (.lit 1 true) (.num (.int 2))))
      (.mul (.neg (.lit 0 true)) (.num (.int (-3))))).run
    = .ok (.expr (⟨-5, [⟨⟨0, true⟩, 4⟩, ⟨⟨1, false⟩, 2⟩]⟩ : Expr Nat)) := by rfl

/-- a comparison through the reflected operator: `2 <= a + b` is `a + b >= 2` -/
example : (Tree.cmp .le (.num (.int 2)) (.add (.lit 0 true) (.lit 1 true))).run
    = .ok (.ineq (⟨⟨0, [⟨⟨0, true⟩, 1⟩, ⟨⟨1, true⟩, 1⟩]⟩, 2, .ge⟩ : Ineq Nat)) := by rfl

/-- a float multiplier is truncated by `int()`: `(a + 1) * 2.75 = 2a + 2` -/
example : (Tree.mul (.add (.lit 0 true) (.num (.int 1))) (.num (.flt 11 4))).run
    = .ok (.expr (⟨2, [⟨⟨0, true⟩, 2⟩]⟩ : Expr Nat)) := by rfl

/-- `sum([a, 2*b, ¬a])` starts from the int `0`: `0 + a` goes through `Literal.__radd__` -/
example : (Tree.sumOf [.lit 0 true, .mul (.num (.int 2)) (.lit 1 true), .neg (.lit 0 true)]).run
    = .ok (.expr (⟨1, [⟨⟨1, true⟩, 2⟩]⟩ : Expr Nat)) := by rfl

/-- `sum([a + b, a])` fails on the first addition `0 + Expr` (`Expr` has no `__radd__`) -/
example : (Tree.sumOf [.add (.lit 0 true) (.lit 1 true), .lit 0 true] : Tree Nat).run = .error .typeError := by rfl

/-- `Ineq(a + b, "a", "<")`: the constructor accepts any `AddTerm` on the right; `<` swaps the sides, and a `str` on the
    left supports no subtraction -/
example : (Tree.ineq "<" (.add (.lit 0 true) (.lit 1 true)) (.str 0) : Tree Nat).run = .error .typeError := by rfl
example : (Tree.ineq ">" (.add (.lit 0 true) (.lit 1 true)) (.str 0) : Tree Nat).run
    = .ok (.ineq ⟨⟨0, [⟨⟨1, true⟩, 1⟩]⟩, 0, .gt⟩) := by rfl

/-- `(a >= 1) == 3` is the `bool` `False`; `~a` is refused -/
example : (Tree.cmp .eq (.cmp .ge (.lit 0 true) (.num (.int 1))) (.num (.int 3)) : Tree Nat).run = .ok (.bool false) := by rfl
example : (Tree.inv (.lit 0 true) : Tree Nat).run = .error .typeError := by rfl

end FV.C16

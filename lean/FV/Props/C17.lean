import FV.Proofs.Disc
import FV.Props.C13
/-
  C17 — Disc-overlap area is total, symmetric, bounded and accurate.

  Property theorems about the model `FV/Model/Disc.lean` of `circle_circle_intersection_area` (as repaired
  by fixes/C17_acos_clamp.diff, fixes/C17_underflow_scale.diff, fixes/C17_near_equal_radii.diff and
  fixes/C17_far_overflow.diff).
  * Over `ℝ` (`realFns`: `x ** 2`, `hypot = √(x² + y²)`, `arccos`, `sin`, `π`, `acos` failing exactly where Python
    raises): the guards are correct, the function never fails, is symmetric, bounded, and equals the standard
    closed form of the lens area (the factored numerators `(a - b)(a + b) + e²` of the repaired code are the
    textbook `a² + e² - b²`: `num_factored`).
  * For *every* rounding / underflow / overflow behaviour (any linearly ordered carrier, arbitrary `+ - * /`,
    arbitrary library functions): `acos` is only ever applied to a value in `[-1, 1]`, every divisor is
    positive or tested against zero, so the function returns a value for all centres and positive radii, and
    the result lies in `[0, small]`.
    Outside these theorems (the bound on the inputs under which "never fails" is claimed for CPython):
    NaN is outside a linear order; the only operation of the code that can still raise on finite positive input is
    `min(r1, r2)**2` (`sq` is total in the model), Python's `**` raising `OverflowError` when the SMALLER radius
    exceeds ~1.34e154 — the area of such a disc is not a double (already above 7.5e153).  The centre
    coordinates are unrestricted: `math.hypot` never raises (since fixes/C17_far_overflow.diff; `Point.norm` did).
  What is NOT proved here (no IEEE model): the `1e-5 · r²` accuracy in binary64 — decided by search in
  harness/props/c17.py against 60-digit arithmetic.
-/
namespace FV.C17
open FV FV.Disc Real
set_option linter.unusedVariables false
set_option linter.unusedSectionVars false

/-! ### exact arithmetic -/

/-- the distance never fails over the reals and is the Euclidean one. -/
theorem dist_real (x1 y1 x2 y2 : ℝ) :
    Disc.dist realFns x1 y1 x2 y2 = .ok (√((x1 - x2) ^ 2 + (y1 - y2) ^ 2)) := by
  unfold Disc.dist; simp only [realFns]

/-- the case split is correct: between the two tangencies no divisor vanishes and both quotients handed to
    `acos` — computed from the lengths relative to `s = max r1 r2` — are the cosines of the triangle with sides
    `r1, r2, d` and lie in `[-1, 1]` (stated explicitly because Mathlib's `arccos` is total by clamping). -/
theorem arg_in_range (r1 r2 d : ℝ) (h1 : 0 < r1) (h2 : 0 < r2) (hlo : |r1 - r2| < d) (hhi : d ≤ r1 + r2) :
    quot realFns (r1 / max r1 r2) (r2 / max r1 r2) (d / max r1 r2) = .ok (q r1 r2 d) ∧
    quot realFns (r2 / max r1 r2) (r1 / max r1 r2) (d / max r1 r2) = .ok (q r2 r1 d) ∧
    (-1 ≤ q r1 r2 d ∧ q r1 r2 d ≤ 1) ∧ (-1 ≤ q r2 r1 d ∧ q r2 r1 d ≤ 1) := by
  have hd : 0 < d := lt_of_le_of_lt (abs_nonneg _) hlo
  have hlo' : |r2 - r1| < d := by rwa [abs_sub_comm]
  have hs : 0 < max r1 r2 := lt_max_of_lt_left h1
  refine ⟨?_, ?_, ⟨neg_one_le_q r1 r2 d h1 h2 hlo, q_le_one r1 r2 d h1 h2 hlo hhi⟩,
    ⟨neg_one_le_q r2 r1 d h2 h1 hlo', q_le_one r2 r1 d h2 h1 hlo' (by linarith)⟩⟩
  · rw [quot_eq _ _ _ (div_pos h1 hs) (div_pos hd hs), q_scale _ _ _ _ hs]
  · rw [quot_eq _ _ _ (div_pos h2 hs) (div_pos hd hs), q_scale _ _ _ _ hs]

/-- far apart: no overlap. -/
theorem far_apart (r1 r2 d : ℝ) (h : r1 + r2 < d) : areaD realFns r1 r2 d = .ok 0 := by
  unfold areaD; rw [if_pos h]; simp

/-- nested (or internally tangent, or concentric): the area of the smaller disc. -/
theorem nested (r1 r2 d : ℝ) (h1 : 0 < r1) (h2 : 0 < r2) (h : d ≤ |r1 - r2|) :
    areaD realFns r1 r2 d = .ok (π * (min r1 r2) ^ 2) := by
  have : ¬ (r1 + r2 < d) := by
    have := abs_sub_lt_iff.mpr (⟨by linarith, by linarith⟩ : r1 - r2 < r1 + r2 ∧ r2 - r1 < r1 + r2)
    linarith
  unfold areaD; rw [if_neg this]; simp only [pyAbs_eq]; rw [if_pos h, small_eq]

/-- the lower clamp is an identity in exact arithmetic: the lens formula is non-negative … -/
theorem lens_nonneg (r1 r2 d : ℝ) (h1 : 0 < r1) (h2 : 0 < r2) (hlo : |r1 - r2| < d) (hhi : d ≤ r1 + r2) :
    0 ≤ lensStd r1 r2 d := lensStd_nonneg r1 r2 d h1 h2 hlo hhi

/-- … and so is the upper clamp: the lens is no larger than the smaller disc. -/
theorem lens_le_small (r1 r2 d : ℝ) (h1 : 0 < r1) (h2 : 0 < r2) (hlo : |r1 - r2| < d) (hhi : d ≤ r1 + r2) :
    lensStd r1 r2 d ≤ π * (min r1 r2) ^ 2 := lensStd_le_small r1 r2 d h1 h2 hlo hhi

/-- partially overlapping discs: the result is the standard closed form of the lens area,
    `r1² acos((d²+r1²-r2²)/(2 d r1)) + r2² acos((d²+r2²-r1²)/(2 d r2)) - ½√((-d+r1+r2)(d+r1-r2)(d-r1+r2)(d+r1+r2))`
    (all four clamps of the repaired code are identities in exact arithmetic). -/
theorem lens_formula (r1 r2 d : ℝ) (h1 : 0 < r1) (h2 : 0 < r2) (hlo : |r1 - r2| < d) (hhi : d ≤ r1 + r2) :
    areaD realFns r1 r2 d = .ok (lensStd r1 r2 d) := by
  rw [areaD_lens r1 r2 d h1 h2 hlo hhi, max_eq_right (lensStd_nonneg r1 r2 d h1 h2 hlo hhi),
    min_eq_right (lensStd_le_small r1 r2 d h1 h2 hlo hhi)]

/-- never fails in exact arithmetic, for all centres and positive radii. -/
theorem total_real (x1 y1 r1 x2 y2 r2 : ℝ) (h1 : 0 < r1) (h2 : 0 < r2) :
    ∃ a, area realFns x1 y1 r1 x2 y2 r2 = .ok a := by
  unfold area; rw [dist_real]; simp only [bind, Except.bind]
  generalize √((x1 - x2) ^ 2 + (y1 - y2) ^ 2) = d
  by_cases hfar : r1 + r2 < d
  · exact ⟨_, far_apart r1 r2 d hfar⟩
  · by_cases hn : d ≤ |r1 - r2|
    · exact ⟨_, nested r1 r2 d h1 h2 hn⟩
    · exact ⟨_, areaD_lens r1 r2 d h1 h2 (not_le.mp hn) (not_lt.mp hfar)⟩

/-- symmetric in the two discs (given the distance). -/
theorem lens_symm (r1 r2 d : ℝ) (h1 : 0 < r1) (h2 : 0 < r2) :
    areaD realFns r1 r2 d = areaD realFns r2 r1 d := by
  by_cases hfar : r1 + r2 < d
  · rw [far_apart r1 r2 d hfar, far_apart r2 r1 d (by linarith)]
  · by_cases hn : d ≤ |r1 - r2|
    · rw [nested r1 r2 d h1 h2 hn, nested r2 r1 d h2 h1 (by rwa [abs_sub_comm]), min_comm]
    · have hlo := not_le.mp hn
      have hhi := not_lt.mp hfar
      rw [areaD_lens r1 r2 d h1 h2 hlo hhi, areaD_lens r2 r1 d h2 h1 (by rwa [abs_sub_comm]) (by linarith),
        lensStd_symm r1 r2 d, min_comm r1 r2]

/-- symmetric in its arguments. -/
theorem area_symm (x1 y1 r1 x2 y2 r2 : ℝ) (h1 : 0 < r1) (h2 : 0 < r2) :
    area realFns x1 y1 r1 x2 y2 r2 = area realFns x2 y2 r2 x1 y1 r1 := by
  unfold area; rw [dist_real, dist_real]; simp only [bind, Except.bind]
  rw [show (x2 - x1) ^ 2 + (y2 - y1) ^ 2 = (x1 - x2) ^ 2 + (y1 - y2) ^ 2 by ring]
  exact lens_symm r1 r2 _ h1 h2

/-- between zero and the area of the smaller disc. -/
theorem lens_bounds (x1 y1 r1 x2 y2 r2 a : ℝ) (h1 : 0 < r1) (h2 : 0 < r2)
    (h : area realFns x1 y1 r1 x2 y2 r2 = .ok a) : 0 ≤ a ∧ a ≤ π * (min r1 r2) ^ 2 := by
  unfold area at h; rw [dist_real] at h; simp only [bind, Except.bind] at h
  generalize √((x1 - x2) ^ 2 + (y1 - y2) ^ 2) = d at h
  have hs : 0 ≤ π * (min r1 r2) ^ 2 := by positivity
  by_cases hfar : r1 + r2 < d
  · rw [far_apart r1 r2 d hfar] at h; cases h; exact ⟨le_refl _, hs⟩
  · by_cases hn : d ≤ |r1 - r2|
    · rw [nested r1 r2 d h1 h2 hn] at h; cases h; exact ⟨hs, le_refl _⟩
    · rw [areaD_lens r1 r2 d h1 h2 (not_le.mp hn) (not_lt.mp hfar)] at h; cases h
      exact ⟨le_min hs (le_max_left _ _), min_le_left _ _⟩

/-! ### every rounding behaviour -/

section Structural
variable {α : Type} [LinearOrder α] [Add α] [Sub α] [Mul α] [Div α] [Neg α] [NatCast α]

/-- whatever the quotient rounded to, `acos` receives a value in `[-1, 1]`
    (needs only `-1 ≤ 1` in the carrier). -/
theorem clamp_in_range (x : α) (h : (negOne : α) ≤ one) : (negOne : α) ≤ clamp x ∧ clamp x ≤ (one : α) := by
  unfold clamp pyMax pyMin
  split <;> split <;> (constructor <;> order)

theorem pyMax_pos (r1 r2 : α) (h1 : (zero : α) < r1) (h2 : (zero : α) < r2) : (zero : α) < pyMax r1 r2 := by
  unfold pyMax; split <;> assumption

theorem pyDiv_ok (a b : α) (hb : ¬ isZero b) : pyDiv a b = .ok (a / b) := by
  unfold pyDiv; exact if_neg hb

/-- **structural totality of the repaired code**: if `acos` succeeds on `[-1, 1]`, the function returns a
    value for all centres and positive radii — for arbitrary arithmetic on a linearly ordered carrier and an
    arbitrary (total) `hypot`, in particular for every rounding, underflow and overflow behaviour: every
    divisor is either `max r1 r2 > 0` or has been tested against zero, and `acos` only sees clamped values. -/
theorem total_structural (F : Fns α) (h11 : (negOne : α) ≤ one)
    (hacos : ∀ x, (negOne : α) ≤ x → x ≤ one → ∃ v, F.acos x = .ok v)
    (x1 y1 r1 x2 y2 r2 : α) (h1 : (zero : α) < r1) (h2 : (zero : α) < r2) :
    ∃ a, area F x1 y1 r1 x2 y2 r2 = .ok a := by
  unfold area Disc.dist
  simp only [bind, Except.bind]
  generalize F.hypot (x1 - x2) (y1 - y2) = d
  unfold areaD
  by_cases c1 : r1 + r2 < d
  · rw [if_pos c1]; exact ⟨_, rfl⟩
  rw [if_neg c1]; simp only
  by_cases c2 : d ≤ pyAbs (r1 - r2)
  · rw [if_pos c2]; exact ⟨_, rfl⟩
  rw [if_neg c2]
  have hs : ¬ isZero (pyMax r1 r2) := fun h => absurd (pyMax_pos r1 r2 h1 h2) (not_lt.mpr h.1)
  simp only [pyDiv_ok _ _ hs, bind, Except.bind]
  by_cases c3 : isZero (two * (r1 / pyMax r1 r2) * (d / pyMax r1 r2)) ∨ isZero (two * (r2 / pyMax r1 r2) * (d / pyMax r1 r2))
  · rw [if_pos c3]; exact ⟨_, rfl⟩
  rw [if_neg c3]
  push Not at c3
  unfold quot
  rw [pyDiv_ok _ _ c3.1]; simp only
  obtain ⟨al, ha⟩ := hacos _ (clamp_in_range (((r1 / pyMax r1 r2 - r2 / pyMax r1 r2) * (r1 / pyMax r1 r2 + r2 / pyMax r1 r2) +
    F.sq (d / pyMax r1 r2)) / (two * (r1 / pyMax r1 r2) * (d / pyMax r1 r2))) h11).1 (clamp_in_range _ h11).2
  rw [ha]; simp only
  rw [pyDiv_ok _ _ c3.2]; simp only
  obtain ⟨be, hb⟩ := hacos _ (clamp_in_range (((r2 / pyMax r1 r2 - r1 / pyMax r1 r2) * (r2 / pyMax r1 r2 + r1 / pyMax r1 r2) +
    F.sq (d / pyMax r1 r2)) / (two * (r2 / pyMax r1 r2) * (d / pyMax r1 r2))) h11).1 (clamp_in_range _ h11).2
  rw [hb]; exact ⟨_, rfl⟩

/-- the values `areaD` can return: `0`, `small`, or a value clamped into `[0, small]`. -/
theorem areaD_shape (F : Fns α) (r1 r2 d a : α) (h : areaD F r1 r2 d = .ok a) :
    a = zero ∨ a = small F r1 r2 ∨ ∃ X, a = pyMin (small F r1 r2) (pyMax zero X) := by
  unfold areaD at h
  split at h
  · cases h; exact Or.inl rfl
  · simp only at h
    split at h
    · cases h; exact Or.inr (Or.inl rfl)
    · simp only [bind, Except.bind] at h
      cases hq0 : pyDiv r1 (pyMax r1 r2) with
      | error e => rw [hq0] at h; cases h
      | ok a' =>
        rw [hq0] at h; simp only at h
        cases hq1 : pyDiv r2 (pyMax r1 r2) with
        | error e => rw [hq1] at h; cases h
        | ok b' =>
          rw [hq1] at h; simp only at h
          cases hq2 : pyDiv d (pyMax r1 r2) with
          | error e => rw [hq2] at h; cases h
          | ok e' =>
            rw [hq2] at h; simp only at h
            split at h
            · cases h; exact Or.inr (Or.inl rfl)
            · cases hq3 : quot F a' b' e' with
              | error e => rw [hq3] at h; cases h
              | ok q1 =>
                rw [hq3] at h; simp only at h
                cases ha : F.acos (clamp q1) with
                | error e => rw [ha] at h; cases h
                | ok al =>
                  rw [ha] at h; simp only at h
                  cases hq4 : quot F b' a' e' with
                  | error e => rw [hq4] at h; cases h
                  | ok q2 =>
                    rw [hq4] at h; simp only at h
                    cases hb : F.acos (clamp q2) with
                    | error e => rw [hb] at h; cases h
                    | ok be =>
                      rw [hb] at h; cases h
                      exact Or.inr (Or.inr ⟨_, rfl⟩)

/-- … and whatever is returned lies between zero and the (rounded) area of the smaller disc. -/
theorem bounds_structural (F : Fns α) (x1 y1 r1 x2 y2 r2 a : α)
    (hs : (zero : α) ≤ small F r1 r2) (h : area F x1 y1 r1 x2 y2 r2 = .ok a) :
    (zero : α) ≤ a ∧ a ≤ small F r1 r2 := by
  unfold area at h
  cases hd : Disc.dist F x1 y1 x2 y2 with
  | error e => rw [hd] at h; cases h
  | ok d =>
    rw [hd] at h; simp only [bind, Except.bind] at h
    rcases areaD_shape F r1 r2 d a h with rfl | rfl | ⟨X, rfl⟩
    · exact ⟨le_refl _, hs⟩
    · exact ⟨hs, le_refl _⟩
    · unfold pyMin pyMax
      split <;> split <;> (constructor <;> order)

end Structural

/-! ### the caller: `total_intersection_area` (C13 model) with the real lens area (composition C13 ← C17) -/

section Caller
open FV.Force

/-- the overlap function of the cost over `ℝ`: the value of `area realFns` (`0` if it failed — it cannot for positive
    radii: `total_real`). -/
noncomputable def discReal (c1 : ℝ × ℝ) (r1 : ℝ) (c2 : ℝ × ℝ) (r2 : ℝ) : ℝ :=
  match area realFns c1.1 c1.2 r1 c2.1 c2.2 r2 with
  | .ok a => a
  | .error _ => 0

/-- the numeric library of the force model over `ℝ` (`math.sqrt`, `** (1/2)`, `** 2`, `math.pi`). -/
noncomputable def opsReal : Ops ℝ :=
  { sqrt := Real.sqrt, powHalf := Real.sqrt, sq := fun x => x ^ 2, pi := π, ltInf := fun _ => true }

/-- non-negative for ALL centres and radii (radius 0 of an area-less terminal included). -/
theorem discReal_nonneg (c1 : ℝ × ℝ) (r1 : ℝ) (c2 : ℝ × ℝ) (r2 : ℝ) : 0 ≤ discReal c1 r1 c2 r2 := by
  unfold discReal
  cases h : area realFns c1.1 c1.2 r1 c2.1 c2.2 r2 with
  | error e => exact le_refl _
  | ok a =>
    have := (bounds_structural realFns c1.1 c1.2 r1 c2.1 c2.2 r2 a
      (by rw [small_eq]; simp only [Disc.zero_eq]; positivity) h).1
    simpa using this

/-- symmetric for positive radii. -/
theorem discReal_symm (c1 : ℝ × ℝ) (r1 : ℝ) (c2 : ℝ × ℝ) (r2 : ℝ) (h1 : 0 < r1) (h2 : 0 < r2) :
    discReal c1 r1 c2 r2 = discReal c2 r2 c1 r1 := by
  unfold discReal
  rw [area_symm c1.1 c1.2 r1 c2.1 c2.2 r2 h1 h2]

/-- at most the smaller disc (positive radii). -/
theorem discReal_le_small (c1 : ℝ × ℝ) (r1 : ℝ) (c2 : ℝ × ℝ) (r2 : ℝ) (h1 : 0 < r1) (h2 : 0 < r2) :
    discReal c1 r1 c2 r2 ≤ π * (min r1 r2) ^ 2 := by
  unfold discReal
  obtain ⟨a, ha⟩ := total_real c1.1 c1.2 r1 c2.1 c2.2 r2 h1 h2
  rw [ha]
  exact (lens_bounds c1.1 c1.2 r1 c2.1 c2.2 r2 a h1 h2 ha).2

/-- the total overlap the force stage minimises is non-negative, whatever the module centres and areas. -/
theorem total_intersection_nonneg {β : Type} (inst : Inst ℝ β) (a : ℝ)
    (h : totalIntersectionArea opsReal discReal inst = .ok a) : 0 ≤ a :=
  C13.tia_nonneg opsReal discReal inst discReal_nonneg a h

/-- … and for modules of positive area with centres it counts every unordered pair of modules exactly twice (the
    symmetric lens area once per order): the value is `2 · Σ_{i<j} lens(m_i, m_j)`. -/
theorem total_intersection_twice_pairs {β : Type} (inst : Inst ℝ β) (hc : AllCentres inst)
    (hpos : ∀ m ∈ inst.mods, 0 < m.area) :
    totalIntersectionArea opsReal discReal inst = .ok (2 * pairSumOnce (pairTerm opsReal discReal) inst.mods) := by
  rw [C13.tia_each_pair_once opsReal discReal inst hc]
  congr 1
  -- symmetric on the modules of the list (positive radii)
  have hrad : ∀ m ∈ inst.mods, 0 < opsReal.sqrt (m.area / opsReal.pi) := by
    intro m hm
    exact Real.sqrt_pos.mpr (div_pos (hpos m hm) Real.pi_pos)
  have key : ∀ l : List (Mod ℝ β), (∀ m ∈ l, 0 < opsReal.sqrt (m.area / opsReal.pi)) →
      pairSum (pairTerm opsReal discReal) l = 2 * pairSumOnce (pairTerm opsReal discReal) l := by
    intro l
    induction l with
    | nil => intro _; simp [pairSum, pairSumOnce]
    | cons a l ih =>
      intro hl
      rw [pairSum, pairSumOnce, ih (fun m hm => hl m (List.mem_cons_of_mem _ hm)),
        sum_map_add' (fun b => pairTerm opsReal discReal a b) (fun b => pairTerm opsReal discReal b a) l]
      have : (l.map fun b => pairTerm opsReal discReal b a) = l.map fun b => pairTerm opsReal discReal a b := by
        apply List.map_congr_left
        intro b hb
        unfold pairTerm
        cases hcb : b.center <;> cases hca : a.center <;> simp only []
        exact discReal_symm _ _ _ _ (hl b (List.mem_cons_of_mem _ hb)) (hl a List.mem_cons_self)
      rw [this]; ring
  exact key inst.mods hrad

end Caller

/-! ### non-vacuity -/

example : |(2:ℝ) - 1| < 2 ∧ (2:ℝ) ≤ 2 + 1 := by norm_num
example : areaD realFns 2 1 5 = .ok 0 := far_apart 2 1 5 (by norm_num)
example : areaD realFns 2 1 (1/2) = .ok (π * 1 ^ 2) := by
  have := nested 2 1 (1/2) (by norm_num) (by norm_num) (by norm_num)
  rwa [show min (2:ℝ) 1 = 1 by norm_num] at this

example : areaD realFns 1 1 1 = .ok (lensStd 1 1 1) :=
  lens_formula 1 1 1 (by norm_num) (by norm_num) (by norm_num) (by norm_num)

/-- `lensStd` is literally the textbook closed form. -/
example (r1 r2 d : ℝ) : lensStd r1 r2 d =
    r1 ^ 2 * arccos ((r1 ^ 2 + d ^ 2 - r2 ^ 2) / (2 * r1 * d)) + r2 ^ 2 * arccos ((r2 ^ 2 + d ^ 2 - r1 ^ 2) / (2 * r2 * d))
     - √((-d + r1 + r2) * (d + r1 - r2) * (d - r1 + r2) * (d + r1 + r2)) / 2 := rfl

/-- `total_structural` applied to the real library functions (`realFns_acos_total` discharges its hypothesis) on a
    genuine lens (radii 2 and 1, centres 2 apart) … -/
example : ∃ a, area realFns 0 0 2 2 0 1 = .ok a :=
  total_structural realFns (by simp) realFns_acos_total 0 0 2 2 0 1 (by simp [zero]) (by simp [zero])

/-- … and `bounds_structural` to the same pair. -/
example (a : ℝ) (h : area realFns 0 0 2 2 0 1 = .ok a) : (zero : ℝ) ≤ a ∧ a ≤ small realFns 2 1 :=
  bounds_structural realFns 0 0 2 2 0 1 a (by rw [small_eq]; simp only [zero_eq]; positivity) h

/-- the structural theorems need nothing of the library: with `x ** 2`, `hypot`, `sin` and `π` all constant 0
    the function still returns a value. -/
example : ∃ a, area (⟨fun _ => 0, fun _ _ => 0, realFns.acos, fun _ => 0, 0⟩ : Fns ℝ) 5 5 3 (-7) 1 4 = .ok a :=
  total_structural (⟨fun _ => 0, fun _ _ => 0, realFns.acos, fun _ => 0, 0⟩ : Fns ℝ) (by simp) realFns_acos_total
    5 5 3 (-7) 1 4 (by simp [zero]) (by simp [zero])

/-- the caller theorems applied: three modules (areas π, π, 4π: radii 1, 1, 2), two of them overlapping. -/
noncomputable def instR : Force.Inst ℝ Unit :=
  { W := 8, H := 6, nets := [],
    mods := [⟨some (0, 0), π, false, ()⟩, ⟨some (1, 0), π, false, ()⟩, ⟨some (5, 5), 4 * π, true, ()⟩] }

theorem instR_allCentres : Force.AllCentres instR := by
  intro v m hm
  have hv : v < 3 := (List.getElem?_eq_some_iff.mp hm).1
  match v, hv with
  | 0, _ => cases hm; simp
  | 1, _ => cases hm; simp
  | 2, _ => cases hm; simp

example : Force.totalIntersectionArea opsReal discReal instR =
    .ok (2 * Force.pairSumOnce (Force.pairTerm opsReal discReal) instR.mods) :=
  total_intersection_twice_pairs instR instR_allCentres (by
    intro m hm
    simp only [instR, List.mem_cons, List.not_mem_nil, or_false] at hm
    rcases hm with rfl | rfl | rfl <;> simp <;> positivity)

example (a : ℝ) (h : Force.totalIntersectionArea opsReal discReal instR = .ok a) : 0 ≤ a :=
  total_intersection_nonneg instR a h

end FV.C17

import FV.Model.Disc
/- placeholder, replaced below -/
namespace FV.C17
theorem placeholder : True := trivial
end FV.C17

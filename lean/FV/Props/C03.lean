import FV.Proofs.InitAlloc
import FV.Proofs.InitAllocDie
import FV.Proofs.InitAllocGlb
import FV.Proofs.InitAllocSplit
import FV.Props.C18
/-
  C03 — Initial allocation equals the exact geometric overlap.

  Property theorems about `FV.InitAlloc.createInitialAllocation` (model of `create_initial_allocation`,
  `FV/Model/InitAlloc.lean`), over an arbitrary linearly ordered field `α` (exact arithmetic; `Rat`, at which the
  driver runs the very same definitions, is one).  Helper lemmas are in `FV/Proofs/InitAlloc.lean`; so are the
  definitions the statements use:

    shapeOf sqrt m      the module's rectangles, or the square of side `sqrt(area)` around its centre
    overlapSum c rs     Σ_{r ∈ rs} areaOverlap c r           (area of `c` covered by `rs`)
    NetOK sqrt mods     distinct names; `sqrt a · sqrt a = a ∧ 0 ≤ sqrt a` on the areas asked; each module's own
                        rectangles proper and pairwise non-overlapping
    CellsProper cells   every die cell has positive width and height
    GeoEq a b           same centre and shape
    owners fm c         the fixed modules whose ratio in `c` exceeds `1 - 1e-6`
    allocatedSum cs n   Σ ratio · area over the cells listing `n`  (= `Allocation.area(n)`)

  The die is a hypothesis here, not a model: C01 / C02 establish that the cells handed over by
  `die.floorplanning_rectangles()` do not overlap (`Pairwise NoOverlap`) and that the fixed regions are the fixed
  modules' rectangles; `Dissection` states "the cells are obtained from regions `Rs` by repeated cutting"
  (what `split_refinable_regions` and the refinement operations do, C18 `splitH_tiles` / `split_tiles`).

  SCOPE / NOT PROVED HERE
  * IEEE rounding: the theorems are exact-arithmetic statements (`pySum = Σ`).  The repair
    `fixes/C03_ratio_above_one.diff` (`if 1.0 < area < 1.0 + eps: area = 1.0`, model `clampOne`) does not change the
    exact-arithmetic model: theorem `clamp_never_fires` below — the ratio of a module of a compatible netlist in a
    proper cell is `≤ 1` (pairwise non-overlapping rectangles cover no cell more than once, `NetOK.cover_le`), so the
    clamp is the identity on every ratio the model computes; `clamp_only_rounding` says what it does otherwise (values
    in `(1, 1 + 1e-6)` become `1`, everything else is untouched).  At `Float` the model, clamp included, is only
    executed against the implementation (F stream of `harness/props/c03.py`; the clamp path is hit by ~18 % of the
    decimal documents).
  * Both public entry points are covered: `create_initial_allocation(die)` (`ratio_eq`, `fixed_full`, `listed_iff`, …)
    and `Allocation(descriptors).initial_allocation(netlist)` (`…_then_initial`: same clauses, hypotheses on the
    descriptor list, depths kept); `create_initial_is_then_initial` relates the two.
  * The theorems of the first sections take `FixedOK`, `Pairwise NoOverlap`, `Inside`, `Σ area = area die` about the
    cells as hypotheses.  The last section (`… _on_die`) discharges them from C01 (`FV.C01.die_complete`, `die_sound`)
    for every `ValidDie` input and every accepted pick sequence, through the adapter stated in
    `FV/Proofs/InitAllocDie.lean` (`refinableOf out = specialized ++ ground`, `netFixedRects mods` =
    `netlist.fixed_rectangles()`).  Dies refined first with `split_refinable_regions` / `initial_grid` ("refined or
    not" of the quantifier) are covered by `allocated_area_of_refines`, `allocated_area_on_split_die`,
    `allocated_area_on_grid_die`: C11 delivers `SplitRects.Refines` (one exact tiling per region, cuts not recorded),
    which is weaker than the guillotine `Dissection` but suffices because overlap is additive over ANY exact tiling
    (`tiling_overlap`); `Dissection` / `allocated_area_of_dissection` remain for cut sequences given explicitly.
-/
namespace FV.C03
open FV FV.Rect FV.InitAlloc
set_option linter.unusedSectionVars false
set_option linter.unusedSimpArgs false
set_option linter.unusedVariables false

variable {α : Type} [Field α] [LinearOrder α] [IsStrictOrderedRing α]

/-! ### rectangle-less modules -/

/-- **square_def**: when the call returns, every rectangle-less module had a centre and is represented by exactly one
    rectangle: the square centred there whose area is the module's area (the sum of its region areas). -/
theorem square_def (sqrt : α → α) (εA : α) (iz : Bool) (mods : List (Module α)) (refinable fixed : List (Rect α))
    (A : Allocation α) (h : createInitialAllocation sqrt εA iz mods refinable fixed = .ok A)
    (hn : NetOK sqrt mods) (m : Module α) (hm : m ∈ mods) (hr : m.rects = []) :
    ∃ cx cy sq, m.center = some (cx, cy) ∧ shapeOf sqrt m = [sq] ∧
      sq.cx = cx ∧ sq.cy = cy ∧ sq.w = sq.h ∧ 0 < sq.w ∧ sq.area = m.areas.sum ∧
      sq.region = "_" ∧ sq.fixed = false ∧ sq.hard = false := by
  obtain ⟨w1, _⟩ := cia_ok sqrt εA iz mods refinable fixed A h
  obtain ⟨cx, cy, hc, _, hpos⟩ := w1 m hm hr
  refine ⟨cx, cy, { cx := cx, cy := cy, w := sqrt m.area, h := sqrt m.area }, hc, ?_, rfl, rfl, rfl, hpos, ?_, rfl, rfl, rfl⟩
  · simp [shapeOf, hr, hc]
  · have := (hn.sqrt_ok m hm hr).1
    simp only [Rect.area, this]
    simp only [Module.area, pySum_eq_sum]

/-- modules with rectangles keep them. -/
theorem shape_of_rects (sqrt : α → α) (m : Module α) (hr : m.rects ≠ []) : shapeOf sqrt m = m.rects :=
  shapeOf_of_rects sqrt m hr

/-! ### the ratios -/

/-- **ratio_eq**: in a cell that is not a fixed module's, the ratio listed for a module is exactly the fraction of the
    cell's area covered by the module's shape, `Σ_r areaOverlap c r / area c`. -/
theorem ratio_eq (sqrt : α → α) (εA : α) (iz : Bool) (mods : List (Module α)) (refinable fixed : List (Rect α))
    (A : Allocation α) (h : createInitialAllocation sqrt εA iz mods refinable fixed = .ok A)
    (hn : NetOK sqrt mods) (hc : CellsProper (refinable ++ fixed))
    (cell : Cell α) (hcell : cell ∈ A.cells) (hnf : cell.rect.fixed = false)
    (m : Module α) (hm : m ∈ mods) (v : α) (hv : cell.alloc.lookup m.name = some v) :
    v = overlapSum cell.rect (shapeOf sqrt m) / cell.rect.area := by
  rcases (mem_cells_iff sqrt εA iz mods refinable fixed A h cell).mp hcell with
    ⟨c, _, n, _, rfl⟩ | ⟨c, hcm, _, _, rfl⟩
  · simp at hnf
  · simp only at hv ⊢
    rw [hn.lookup_rest iz hm c (hc c hcm).1 (hc c hcm).2] at hv
    split at hv
    · simpa using hv.symm
    · simp at hv

/-- **listed_iff**: without include-zero, a module is listed in such a cell iff it covers part of it. -/
theorem listed_iff (sqrt : α → α) (εA : α) (mods : List (Module α)) (refinable fixed : List (Rect α))
    (A : Allocation α) (h : createInitialAllocation sqrt εA false mods refinable fixed = .ok A)
    (hn : NetOK sqrt mods) (hc : CellsProper (refinable ++ fixed))
    (cell : Cell α) (hcell : cell ∈ A.cells) (hnf : cell.rect.fixed = false) (m : Module α) (hm : m ∈ mods) :
    (cell.alloc.lookup m.name).isSome = true ↔ 0 < overlapSum cell.rect (shapeOf sqrt m) := by
  rcases (mem_cells_iff sqrt εA false mods refinable fixed A h cell).mp hcell with
    ⟨c, _, n, _, rfl⟩ | ⟨c, hcm, _, _, rfl⟩
  · simp at hnf
  · simp only
    rw [hn.lookup_rest false hm c (hc c hcm).1 (hc c hcm).2]
    by_cases hp : 0 < overlapSum c (shapeOf sqrt m) <;> simp [hp]

/-- … i.e. iff some rectangle of its shape overlaps the cell, and then the listed ratio is positive. -/
theorem listed_pos (sqrt : α → α) (εA : α) (mods : List (Module α)) (refinable fixed : List (Rect α))
    (A : Allocation α) (h : createInitialAllocation sqrt εA false mods refinable fixed = .ok A)
    (hn : NetOK sqrt mods) (hc : CellsProper (refinable ++ fixed))
    (cell : Cell α) (hcell : cell ∈ A.cells) (hnf : cell.rect.fixed = false) (m : Module α) (hm : m ∈ mods) :
    ((cell.alloc.lookup m.name).isSome = true ↔ ∃ r ∈ shapeOf sqrt m, 0 < cell.rect.areaOverlap r) ∧
    ∀ v, cell.alloc.lookup m.name = some v → 0 < v := by
  refine ⟨by rw [listed_iff sqrt εA mods refinable fixed A h hn hc cell hcell hnf m hm, overlapSum_pos_iff], ?_⟩
  intro v hv
  have hl := (listed_iff sqrt εA mods refinable fixed A h hn hc cell hcell hnf m hm).mp (by simp [hv])
  rw [ratio_eq sqrt εA false mods refinable fixed A h hn hc cell hcell hnf m hm v hv]
  rcases (mem_cells_iff sqrt εA false mods refinable fixed A h cell).mp hcell with
    ⟨c, _, n, _, rfl⟩ | ⟨c, hcm, _, _, rfl⟩
  · simp at hnf
  · exact div_pos hl (area_pos c (hc c hcm).1 (hc c hcm).2)

/-- with include-zero every module of the netlist is listed in every such cell. -/
theorem listed_all_include_zero (sqrt : α → α) (εA : α) (mods : List (Module α)) (refinable fixed : List (Rect α))
    (A : Allocation α) (h : createInitialAllocation sqrt εA true mods refinable fixed = .ok A)
    (hn : NetOK sqrt mods) (hc : CellsProper (refinable ++ fixed))
    (cell : Cell α) (hcell : cell ∈ A.cells) (hnf : cell.rect.fixed = false) (m : Module α) (hm : m ∈ mods) :
    (cell.alloc.lookup m.name).isSome = true := by
  rcases (mem_cells_iff sqrt εA true mods refinable fixed A h cell).mp hcell with
    ⟨c, _, n, _, rfl⟩ | ⟨c, hcm, _, _, rfl⟩
  · simp at hnf
  · simp only
    rw [hn.lookup_rest true hm c (hc c hcm).1 (hc c hcm).2]; simp

/-- only modules of the netlist are listed, and every listed ratio lies in `[0, 1]`. -/
theorem listed_names_and_bounds (sqrt : α → α) (εA : α) (iz : Bool) (mods : List (Module α))
    (refinable fixed : List (Rect α)) (A : Allocation α)
    (h : createInitialAllocation sqrt εA iz mods refinable fixed = .ok A) (hn : NetOK sqrt mods)
    (cell : Cell α) (hcell : cell ∈ A.cells) (p : String × α) (hp : p ∈ cell.alloc) :
    (∃ m ∈ mods, m.name = p.1) ∧ 0 ≤ p.2 ∧ p.2 ≤ 1 := by
  obtain ⟨_, _, hmk, _⟩ := cia_ok sqrt εA iz mods refinable fixed A h
  obtain ⟨_, hv, _⟩ := mkAllocation_ok εA A.cells A hmk
  refine ⟨?_, ?_⟩
  · rcases (mem_cells_iff sqrt εA iz mods refinable fixed A h cell).mp hcell with
      ⟨c, _, n, hno, rfl⟩ | ⟨c, hcm, _, _, rfl⟩
    · simp only [List.mem_singleton] at hp
      subst hp
      obtain ⟨m', hm', hname, _⟩ := (mem_owners _ _ _).mp hno
      obtain ⟨m, hm, _, rfl⟩ := (mem_fixedMods sqrt mods m').mp hm'
      exact ⟨m, hm, hname⟩
    · have hnn : ((squared sqrt mods).map (·.name)).Nodup := by rw [squared_names]; exact hn.names
      obtain ⟨m', hm', rfl, _⟩ := allocOf_keys iz c (squared sqrt mods) hnn p hp
      obtain ⟨m, hm, rfl⟩ := (mem_squared sqrt mods m').mp hm'
      exact ⟨m, hm, rfl⟩
  · have := List.all_eq_true.mp hv cell hcell
    have := List.all_eq_true.mp this p hp
    simpa using this

/-! ### fixed modules -/

/-- **fixed_full**: given a die whose cells do not overlap and whose fixed regions are the fixed modules' rectangles
    (`FixedOK`, the tiling of C01 / C02), for every fixed module `m`:
    (i) each die cell at the place of one of its rectangles is returned flagged fixed with exactly `{m ↦ 1}`, depth 0;
    (ii) whatever returned cell sits at the place of one of its rectangles is of that form;
    (iii) no other cell lists `m` with a positive ratio. -/
theorem fixed_full (sqrt : α → α) (εA : α) (iz : Bool) (mods : List (Module α)) (refinable fixed : List (Rect α))
    (A : Allocation α) (h : createInitialAllocation sqrt εA iz mods refinable fixed = .ok A)
    (hn : NetOK sqrt mods) (hc : CellsProper (refinable ++ fixed)) (hf : FixedOK mods (refinable ++ fixed))
    (m : Module α) (hm : m ∈ mods) (hfx : m.fixed = true) :
    (∀ r ∈ m.rects, ∀ c ∈ refinable ++ fixed, GeoEq c r →
      (⟨{ c with fixed := true }, [(m.name, 1)], 0⟩ : Cell α) ∈ A.cells) ∧
    (∀ cell ∈ A.cells, ∀ r ∈ m.rects, GeoEq cell.rect r →
      cell.alloc = [(m.name, 1)] ∧ cell.rect.fixed = true ∧ cell.depth = 0) ∧
    (∀ cell ∈ A.cells, ∀ v, cell.alloc.lookup m.name = some v → 0 < v → ∃ r ∈ m.rects, GeoEq cell.rect r) := by
  have hmem := mem_cells_iff sqrt εA iz mods refinable fixed A h
  refine ⟨?_, ?_, ?_⟩
  · intro r hr c hcm hg
    exact (hmem _).mpr (Or.inl ⟨c, hcm, m.name, (owners_of_fixed_cell hn hf hm hfx hr hg _).mpr rfl, rfl⟩)
  · intro cell hcell r hr hg
    rcases (hmem cell).mp hcell with ⟨c, hcm, n, hno, rfl⟩ | ⟨c, hcm, ho, _, rfl⟩
    · have hg' : GeoEq c r := hg
      have := (owners_of_fixed_cell hn hf hm hfx hr hg' n).mp hno
      subst this
      exact ⟨rfl, rfl, rfl⟩
    · have hg' : GeoEq c r := hg
      have := (owners_of_fixed_cell hn hf hm hfx hr hg' m.name).mpr rfl
      rw [ho] at this; simp at this
  · intro cell hcell v hv hpos
    rcases (hmem cell).mp hcell with ⟨c, hcm, n, hno, rfl⟩ | ⟨c, hcm, ho, _, rfl⟩
    · simp only [List.lookup] at hv
      have hnm : n = m.name := by
        by_contra hne
        have : (m.name == n) = false := by simpa using fun e => hne e.symm
        rw [this] at hv; simp at hv
      subst hnm
      obtain ⟨m'', hm'', hname, hratio⟩ := (mem_owners _ _ _).mp hno
      obtain ⟨m', hm', _, rfl⟩ := (mem_fixedMods sqrt mods m'').mp hm''
      have : m' = m := hn.eq_of_name hm' hm hname
      subst this
      simp only at hratio
      rw [ratioIn_eq] at hratio
      have hpos' : 0 < overlapSum c (shapeOf sqrt m') / c.area := by
        linarith [eps6_lt_one (α := α)]
      rw [div_pos_iff_of_pos_right (area_pos c (hc c hcm).1 (hc c hcm).2)] at hpos'
      obtain ⟨r, hr, hg⟩ := geo_of_positive_overlap hn hf hm hfx hcm hpos'
      exact ⟨r, hr, hg⟩
    · simp only at hv ⊢
      rw [hn.lookup_rest iz hm c (hc c hcm).1 (hc c hcm).2] at hv
      split at hv
      · simp only [Option.some.injEq] at hv
        subst hv
        rw [div_pos_iff_of_pos_right (area_pos c (hc c hcm).1 (hc c hcm).2)] at hpos
        obtain ⟨r, hr, hg⟩ := geo_of_positive_overlap hn hf hm hfx hcm hpos
        have := (owners_of_fixed_cell hn hf hm hfx hr hg m.name).mpr rfl
        rw [ho] at this; simp at this
      · simp at hv

/-- the form of the result: a returned cell flagged fixed carries exactly `{n ↦ 1}` for a fixed module `n` of the
    netlist and has depth 0; any other returned cell is one of the die cells, unchanged, with depth 0. -/
theorem cells_form (sqrt : α → α) (εA : α) (iz : Bool) (mods : List (Module α)) (refinable fixed : List (Rect α))
    (A : Allocation α) (h : createInitialAllocation sqrt εA iz mods refinable fixed = .ok A)
    (cell : Cell α) (hcell : cell ∈ A.cells) :
    (cell.rect.fixed = true → cell.depth = 0 ∧ ∃ n, cell.alloc = [(n, 1)] ∧ ∃ m ∈ mods, m.fixed = true ∧ m.name = n) ∧
    (cell.rect.fixed = false → cell.depth = 0 ∧ cell.rect ∈ refinable ++ fixed) := by
  rcases (mem_cells_iff sqrt εA iz mods refinable fixed A h cell).mp hcell with
    ⟨c, _, n, hno, rfl⟩ | ⟨c, hcm, ho, hnf, rfl⟩
  · obtain ⟨m'', hm'', hname, _⟩ := (mem_owners _ _ _).mp hno
    obtain ⟨m', hm', hfx, rfl⟩ := (mem_fixedMods sqrt mods m'').mp hm''
    exact ⟨fun _ => ⟨rfl, n, rfl, m', hm', hfx, hname⟩, fun hc => by simp at hc⟩
  · exact ⟨fun hc => by simp [hnf] at hc, fun _ => ⟨rfl, hcm⟩⟩

/-! ### allocated area -/

/-- `Allocation.area(n)` (the `_areas` entry the constructor computes) is `Σ ratio · area` over the cells listing `n`,
    it is never `0`, and a module has an entry iff some cell lists it. -/
theorem stats_area (sqrt : α → α) (εA : α) (iz : Bool) (mods : List (Module α)) (refinable fixed : List (Rect α))
    (A : Allocation α) (h : createInitialAllocation sqrt εA iz mods refinable fixed = .ok A) :
    (∀ e ∈ A.stats, e.2.1 = allocatedSum A.cells e.1 ∧ e.2.1 ≠ 0) ∧
    (∀ n, n ∈ A.stats.map (·.1) ↔ ∃ cell ∈ A.cells, ∃ p ∈ cell.alloc, p.1 = n) := by
  obtain ⟨_, _, hmk, _⟩ := cia_ok sqrt εA iz mods refinable fixed A h
  obtain ⟨_, _, _, _, hst⟩ := mkAllocation_ok εA A.cells A hmk
  obtain ⟨e1, w⟩ := areasAndCenters_ok A.cells _ A.stats hst
  exact ⟨w, fun n => by rw [e1, mem_moduleOrder]⟩

/-- **allocated_area_eq**: the area allocated to a module that is not fixed is the area of its shape lying on the
    cells that are not fixed modules' (`Σ_cells ratio · area = Σ_cells Σ_r areaOverlap c r`). -/
theorem allocated_area_eq (sqrt : α → α) (εA : α) (iz : Bool) (mods : List (Module α)) (refinable fixed : List (Rect α))
    (A : Allocation α) (h : createInitialAllocation sqrt εA iz mods refinable fixed = .ok A)
    (hn : NetOK sqrt mods) (hc : CellsProper (refinable ++ fixed)) (m : Module α) (hm : m ∈ mods)
    (hnf : m.fixed = false) :
    allocatedSum A.cells m.name =
      ((A.cells.filter fun c => !c.rect.fixed).map fun c => overlapSum c.rect (shapeOf sqrt m)).sum := by
  unfold allocatedSum
  rw [← sum_map_ite]
  congr 1
  apply List.map_congr_left
  intro cell hcell
  rcases (mem_cells_iff sqrt εA iz mods refinable fixed A h cell).mp hcell with
    ⟨c, _, n, hno, rfl⟩ | ⟨c, hcm, ho, hcf, rfl⟩
  · obtain ⟨m'', hm'', hname, _⟩ := (mem_owners _ _ _).mp hno
    obtain ⟨m', hm', hfx, rfl⟩ := (mem_fixedMods sqrt mods m'').mp hm''
    have hne : (m.name == n) = false := by
      simp only [beq_eq_false_iff_ne, ne_eq]
      intro e
      have : m' = m := hn.eq_of_name hm' hm (by rw [e]; exact hname)
      subst this; rw [hfx] at hnf; simp at hnf
    simp [List.lookup, hne]
  · simp only [hcf, Bool.not_false, ↓reduceIte]
    rw [hn.lookup_rest iz hm c (hc c hcm).1 (hc c hcm).2]
    have ha := area_pos c (hc c hcm).1 (hc c hcm).2
    by_cases hcond : (iz || decide (0 < overlapSum c (shapeOf sqrt m))) = true
    · rw [if_pos hcond]; simp only; field_simp
    · rw [if_neg hcond]
      simp only [Bool.or_eq_true, decide_eq_true_eq, not_or] at hcond
      exact le_antisymm (not_lt.mp hcond.2) (overlapSum_nonneg _ _) |>.symm

/-- the area allocated to a fixed module is the area of the returned fixed cells that list it (each of which is one
    of its rectangles, `fixed_full`). -/
theorem allocated_area_fixed (sqrt : α → α) (εA : α) (iz : Bool) (mods : List (Module α))
    (refinable fixed : List (Rect α)) (A : Allocation α)
    (h : createInitialAllocation sqrt εA iz mods refinable fixed = .ok A)
    (hn : NetOK sqrt mods) (hc : CellsProper (refinable ++ fixed)) (hf : FixedOK mods (refinable ++ fixed))
    (m : Module α) (hm : m ∈ mods) (hfx : m.fixed = true) :
    allocatedSum A.cells m.name =
      ((A.cells.filter fun c => c.rect.fixed && (c.alloc.lookup m.name).isSome).map fun c => c.rect.area).sum := by
  unfold allocatedSum
  rw [← sum_map_ite]
  congr 1
  apply List.map_congr_left
  intro cell hcell
  rcases (mem_cells_iff sqrt εA iz mods refinable fixed A h cell).mp hcell with
    ⟨c, _, n, hno, rfl⟩ | ⟨c, hcm, ho, hcf, rfl⟩
  · by_cases hnm : m.name = n
    · subst hnm; simp [List.lookup, Rect.area]
    · have hne : (m.name == n) = false := by simpa using hnm
      simp [List.lookup, hne]
  · simp only [hcf, Bool.false_and, Bool.false_eq_true, ↓reduceIte]
    rw [hn.lookup_rest iz hm c (hc c hcm).1 (hc c hcm).2]
    have hz : overlapSum c (shapeOf sqrt m) = 0 := by
      by_contra hne
      have hpos : 0 < overlapSum c (shapeOf sqrt m) := lt_of_le_of_ne (overlapSum_nonneg _ _) (Ne.symm hne)
      obtain ⟨r, hr, hg⟩ := geo_of_positive_overlap hn hf hm hfx hcm hpos
      have := (owners_of_fixed_cell hn hf hm hfx hr hg m.name).mpr rfl
      rw [ho] at this; simp at this
    by_cases hcond : (iz || decide (0 < overlapSum c (shapeOf sqrt m))) = true
    · rw [if_pos hcond]; simp [hz]
    · rw [if_neg hcond]

/-! ### cutting: the allocated area does not depend on how the regions were cut into cells -/

/-- overlap is additive over the two pieces of a cut (C18 `ovLen_split`). -/
theorem areaOverlap_cut (R p q s : Rect α) (h : CutH R p q ∨ CutV R p q) :
    p.areaOverlap s + q.areaOverlap s = R.areaOverlap s := by
  rcases h with h | h
  · exact areaOverlap_cutH R p q s h
  · exact areaOverlap_cutV R p q s h

/-- what `Rectangle.split_horizontal(x)` / `split_vertical(y)` / `split()` return are such cuts. -/
theorem splitH_is_cut (r p q : Rect α) (x : α) (hx : 0 ≤ x) (h : r.splitH x = some (p, q)) : CutH r p q := by
  obtain ⟨a1, a2, a3, a4, a5, a6, a7, a8, a9, a10⟩ := C18.splitH_sides r p q x hx h
  exact ⟨x, a1, a2, a3, a4, a5, a6, a7, a8, le_of_lt a9, le_of_lt a10⟩

theorem splitV_is_cut (r p q : Rect α) (y : α) (hy : 0 ≤ y) (h : r.splitV y = some (p, q)) : CutV r p q := by
  obtain ⟨a1, a2, a3, a4, a5, a6, a7, a8, a9, a10⟩ := C18.splitV_sides r p q y hy h
  exact ⟨y, a1, a2, a3, a4, a5, a6, a7, a8, le_of_lt a9, le_of_lt a10⟩

theorem split_is_cut (r p q : Rect α) (h : r.split = some (p, q)) : CutH r p q ∨ CutV r p q := by
  unfold Rect.split at h
  split at h
  · obtain ⟨a1, a2, a3, a4, a5, a6, a7, a8, a9, a10⟩ := C18.splitV_half_sides r p q h
    exact Or.inr ⟨r.cy, a1, a2, a3, a4, a5, a6, a7, a8, le_of_lt a9, le_of_lt a10⟩
  · obtain ⟨a1, a2, a3, a4, a5, a6, a7, a8, a9, a10⟩ := C18.splitH_half_sides r p q h
    exact Or.inl ⟨r.cx, a1, a2, a3, a4, a5, a6, a7, a8, le_of_lt a9, le_of_lt a10⟩

/-- if the cells `cs` come from the regions `Rs` by repeated cutting, the area of any rectangle `s` on the cells
    is its area on the regions. -/
theorem dissection_overlap (Rs cs : List (Rect α)) (h : Dissection Rs cs) (s : Rect α) :
    (cs.map fun c => c.areaOverlap s).sum = (Rs.map fun R => R.areaOverlap s).sum := by
  induction h with
  | nil => rfl
  | keep R c Rs cs hb _ ih => simp only [List.map_cons, List.sum_cons, ih, hb.areaOverlap_left]
  | cut R p q Rs cs hcut _ ih =>
    rw [ih]
    simp only [List.map_cons, List.sum_cons]
    rw [← areaOverlap_cut R p q s hcut]; ring
  | permCells Rs cs cs' _ hp ih => rw [← ih]; exact ((hp.map _).sum_eq).symm
  | permRegions Rs Rs' cs _ hp ih => rw [ih]; exact (hp.map _).sum_eq

theorem dissection_overlapSum (Rs cs : List (Rect α)) (h : Dissection Rs cs) (rs : List (Rect α)) :
    (cs.map fun c => overlapSum c rs).sum = (Rs.map fun R => overlapSum R rs).sum := by
  induction rs with
  | nil => simp [overlapSum_nil]
  | cons r rs ih =>
    simp only [overlapSum_cons, List.sum_map_add, ih, dissection_overlap Rs cs h r]

/-- **allocated_area_eq, tiling form**: if the cells that are not fixed modules' were obtained from regions `Rs` by
    repeated cutting, the area allocated to a non-fixed module is the area of its shape on `Rs` — whatever the cuts.
    (For a die without blockages and fixed modules `Rs` is the die itself.) -/
theorem allocated_area_of_dissection (sqrt : α → α) (εA : α) (iz : Bool) (mods : List (Module α))
    (refinable fixed : List (Rect α)) (A : Allocation α)
    (h : createInitialAllocation sqrt εA iz mods refinable fixed = .ok A)
    (hn : NetOK sqrt mods) (hc : CellsProper (refinable ++ fixed)) (m : Module α) (hm : m ∈ mods)
    (hnf : m.fixed = false) (Rs : List (Rect α))
    (hD : Dissection Rs ((A.cells.filter fun c => !c.rect.fixed).map (·.rect))) :
    allocatedSum A.cells m.name = (Rs.map fun R => overlapSum R (shapeOf sqrt m)).sum := by
  rw [allocated_area_eq sqrt εA iz mods refinable fixed A h hn hc m hm hnf,
    ← dissection_overlapSum Rs _ hD (shapeOf sqrt m), List.map_map]
  rfl

/-! ### exact tilings: the allocated area on a die with blockages and fixed modules -/

/-- overlap is additive over an exact tiling of a rectangle (pairwise non-overlapping tiles inside `R` whose areas add
    up to the area of `R` — the conclusion of C01 for the die; the tiling need not be a guillotine one). -/
theorem tiling_overlap (R : Rect α) (tiles : List (Rect α)) (hR : 0 ≤ R.w ∧ 0 ≤ R.h)
    (hpw : tiles.Pairwise NoOverlap) (hpos : ∀ c ∈ tiles, 0 ≤ c.w ∧ 0 ≤ c.h)
    (hin : ∀ c ∈ tiles, Inside c R) (harea : (tiles.map Rect.area).sum = R.area)
    (s : Rect α) (hs : 0 ≤ s.w ∧ 0 ≤ s.h) :
    (tiles.map fun c => c.areaOverlap s).sum = R.areaOverlap s :=
  InitAlloc.tiling_overlap R tiles hR hpw hpos hin harea s hs

theorem sum_overlapSum_swap (cs rs : List (Rect α)) :
    (cs.map fun c => overlapSum c rs).sum = (rs.map fun r => (cs.map fun c => c.areaOverlap r).sum).sum := by
  induction rs with
  | nil => simp [overlapSum_nil]
  | cons r rs ih => simp only [overlapSum_cons, List.sum_map_add, ih, List.map_cons, List.sum_cons]

/-- **allocated_area_eq, die form**: let the cells that are not fixed modules' together with the rectangles `others`
    (blockages and fixed modules' cells) tile the die exactly.  Then the area allocated to a non-fixed module is the
    area of its shape inside the die minus what lies on `others` — "the area of its shape lying on refinable cells". -/
theorem allocated_area_of_tiling (sqrt : α → α) (εA : α) (iz : Bool) (mods : List (Module α))
    (refinable fixed : List (Rect α)) (A : Allocation α)
    (h : createInitialAllocation sqrt εA iz mods refinable fixed = .ok A)
    (hn : NetOK sqrt mods) (hc : CellsProper (refinable ++ fixed)) (m : Module α) (hm : m ∈ mods)
    (hnf : m.fixed = false) (die : Rect α) (others : List (Rect α)) (hdie : 0 ≤ die.w ∧ 0 ≤ die.h)
    (hpw : (((A.cells.filter fun c => !c.rect.fixed).map (·.rect)) ++ others).Pairwise NoOverlap)
    (hpos : ∀ c ∈ ((A.cells.filter fun c => !c.rect.fixed).map (·.rect)) ++ others, 0 ≤ c.w ∧ 0 ≤ c.h)
    (hin : ∀ c ∈ ((A.cells.filter fun c => !c.rect.fixed).map (·.rect)) ++ others, Inside c die)
    (harea : ((((A.cells.filter fun c => !c.rect.fixed).map (·.rect)) ++ others).map Rect.area).sum = die.area) :
    allocatedSum A.cells m.name =
      ((shapeOf sqrt m).map fun r => die.areaOverlap r - (others.map fun b => b.areaOverlap r).sum).sum := by
  rw [allocated_area_eq sqrt εA iz mods refinable fixed A h hn hc m hm hnf]
  have := sum_overlapSum_swap ((A.cells.filter fun c => !c.rect.fixed).map (·.rect)) (shapeOf sqrt m)
  rw [List.map_map] at this
  rw [show (fun c : Cell α => overlapSum c.rect (shapeOf sqrt m)) =
    (fun c => overlapSum c (shapeOf sqrt m)) ∘ (·.rect) from rfl, this]
  congr 1
  apply List.map_congr_left
  intro r hr
  have ht := InitAlloc.tiling_overlap die _ hdie hpw hpos hin harea r (hn.shape_nonneg hm r hr)
  rw [List.map_append, List.sum_append] at ht
  linarith

/-! ### the repaired clamp -/

/-- **clamp_never_fires**: for a compatible netlist and a proper cell, the ratio `Σ_r areaOverlap c r / area c` is at
    most 1, hence the repaired code's `if 1.0 < area < 1.0 + eps: area = 1.0` does not change it: the repair is
    invisible in exact arithmetic (it only absorbs rounding at `Float`). -/
theorem clamp_never_fires (sqrt : α → α) (mods : List (Module α)) (hn : NetOK sqrt mods) (m : Module α) (hm : m ∈ mods)
    (c : Rect α) (hw : 0 < c.w) (hh : 0 < c.h) :
    ratioIn c (shapeOf sqrt m) = overlapSum c (shapeOf sqrt m) / c.area ∧
    ratioIn c (shapeOf sqrt m) ≤ 1 ∧
    clampOne (ratioIn c (shapeOf sqrt m)) = ratioIn c (shapeOf sqrt m) :=
  ⟨ratioIn_eq _ _, (hn.clamp_id hm c hw hh).1, (hn.clamp_id hm c hw hh).2⟩

/-- what the clamp does in general: values strictly between `1` and `1 + 10⁻⁶` become `1`, all others are unchanged;
    in particular it never turns an over-covered cell (ratio `≥ 1 + 10⁻⁶`, overlapping own rectangles) into a legal one. -/
theorem clamp_only_rounding (a : α) :
    (1 < a ∧ a < 1 + 1 / 1000000 → clampOne a = 1) ∧ (¬ (1 < a ∧ a < 1 + 1 / 1000000) → clampOne a = a) := by
  unfold clampOne
  simp only [one_eq, eps6_eq]
  exact ⟨fun h => if_pos h, fun h => if_neg h⟩

/-! ### the second public entry point: `Allocation(descriptors).initial_allocation(netlist)` -/

/-- `create_initial_allocation(die)` is `Allocation([(rect, {}, 0) …]).initial_allocation(netlist)` on the die's cells. -/
theorem create_initial_is_then_initial (sqrt : α → α) (εA : α) (iz : Bool) (mods : List (Module α))
    (refinable fixed : List (Rect α)) :
    createInitialAllocation sqrt εA iz mods refinable fixed =
      allocationThenInitial sqrt εA iz mods ((refinable ++ fixed).map fun r => (r, 0)) :=
  cia_eq_ati sqrt εA iz mods refinable fixed

/-- **ratio_eq** for descriptors `(rectangle, {}, depth)`: the listed ratio is the exact covered fraction. -/
theorem ratio_eq_then_initial (sqrt : α → α) (εA : α) (iz : Bool) (mods : List (Module α))
    (cells : List (Rect α × Nat)) (A : Allocation α)
    (h : allocationThenInitial sqrt εA iz mods cells = .ok A)
    (hn : NetOK sqrt mods) (hc : CellsProper (cells.map (·.1)))
    (cell : Cell α) (hcell : cell ∈ A.cells) (hnf : cell.rect.fixed = false)
    (m : Module α) (hm : m ∈ mods) (v : α) (hv : cell.alloc.lookup m.name = some v) :
    v = overlapSum cell.rect (shapeOf sqrt m) / cell.rect.area := by
  rcases (mem_cells_then_iff sqrt εA iz mods cells A h cell).mp hcell with
    ⟨p, _, n, _, rfl⟩ | ⟨p, hpm, _, _, rfl⟩
  · simp at hnf
  · have hp := hc p.1 (List.mem_map_of_mem hpm)
    simp only at hv ⊢
    rw [hn.lookup_rest iz hm p.1 hp.1 hp.2] at hv
    split at hv
    · simpa using hv.symm
    · simp at hv

/-- **listed_iff** for descriptors (without include-zero). -/
theorem listed_iff_then_initial (sqrt : α → α) (εA : α) (mods : List (Module α))
    (cells : List (Rect α × Nat)) (A : Allocation α)
    (h : allocationThenInitial sqrt εA false mods cells = .ok A)
    (hn : NetOK sqrt mods) (hc : CellsProper (cells.map (·.1)))
    (cell : Cell α) (hcell : cell ∈ A.cells) (hnf : cell.rect.fixed = false) (m : Module α) (hm : m ∈ mods) :
    (cell.alloc.lookup m.name).isSome = true ↔ 0 < overlapSum cell.rect (shapeOf sqrt m) := by
  rcases (mem_cells_then_iff sqrt εA false mods cells A h cell).mp hcell with
    ⟨p, _, n, _, rfl⟩ | ⟨p, hpm, _, _, rfl⟩
  · simp at hnf
  · have hp := hc p.1 (List.mem_map_of_mem hpm)
    simp only
    rw [hn.lookup_rest false hm p.1 hp.1 hp.2]
    by_cases hpos : 0 < overlapSum p.1 (shapeOf sqrt m) <;> simp [hpos]

/-- **fixed_full** for descriptors: (i) a descriptor at the place of a rectangle of the fixed module `m` is returned
    flagged with exactly `{m ↦ 1}` and depth 0 (whatever depth and flag it came with); (ii) every returned cell at such
    a place has that form; (iii) no other cell lists `m` with a positive ratio.  The cells that stay refinable keep
    their depth (`depth_kept_then_initial`). -/
theorem fixed_full_then_initial (sqrt : α → α) (εA : α) (iz : Bool) (mods : List (Module α))
    (cells : List (Rect α × Nat)) (A : Allocation α)
    (h : allocationThenInitial sqrt εA iz mods cells = .ok A)
    (hn : NetOK sqrt mods) (hc : CellsProper (cells.map (·.1))) (hf : FixedOK mods (cells.map (·.1)))
    (m : Module α) (hm : m ∈ mods) (hfx : m.fixed = true) :
    (∀ r ∈ m.rects, ∀ p ∈ cells, GeoEq p.1 r →
      (⟨{ p.1 with fixed := true }, [(m.name, 1)], 0⟩ : Cell α) ∈ A.cells) ∧
    (∀ cell ∈ A.cells, ∀ r ∈ m.rects, GeoEq cell.rect r →
      cell.alloc = [(m.name, 1)] ∧ cell.rect.fixed = true ∧ cell.depth = 0) ∧
    (∀ cell ∈ A.cells, ∀ v, cell.alloc.lookup m.name = some v → 0 < v → ∃ r ∈ m.rects, GeoEq cell.rect r) := by
  have hmem := mem_cells_then_iff sqrt εA iz mods cells A h
  refine ⟨?_, ?_, ?_⟩
  · intro r hr p hpm hg
    exact (hmem _).mpr (Or.inl ⟨p, hpm, m.name, (owners_of_fixed_cell hn hf hm hfx hr hg _).mpr rfl, rfl⟩)
  · intro cell hcell r hr hg
    rcases (hmem cell).mp hcell with ⟨p, hpm, n, hno, rfl⟩ | ⟨p, hpm, ho, _, rfl⟩
    · have hg' : GeoEq p.1 r := hg
      have := (owners_of_fixed_cell hn hf hm hfx hr hg' n).mp hno
      subst this
      exact ⟨rfl, rfl, rfl⟩
    · have hg' : GeoEq p.1 r := hg
      have := (owners_of_fixed_cell hn hf hm hfx hr hg' m.name).mpr rfl
      rw [ho] at this; simp at this
  · intro cell hcell v hv hpos
    rcases (hmem cell).mp hcell with ⟨p, hpm, n, hno, rfl⟩ | ⟨p, hpm, ho, _, rfl⟩
    · have hp := hc p.1 (List.mem_map_of_mem hpm)
      simp only [List.lookup] at hv
      have hnm : n = m.name := by
        by_contra hne
        have : (m.name == n) = false := by simpa using fun e => hne e.symm
        rw [this] at hv; simp at hv
      subst hnm
      obtain ⟨m'', hm'', hname, hratio⟩ := (mem_owners _ _ _).mp hno
      obtain ⟨m', hm', _, rfl⟩ := (mem_fixedMods sqrt mods m'').mp hm''
      have : m' = m := hn.eq_of_name hm' hm hname
      subst this
      simp only at hratio
      rw [ratioIn_eq] at hratio
      have hpos' : 0 < overlapSum p.1 (shapeOf sqrt m') / p.1.area := by
        linarith [eps6_lt_one (α := α)]
      rw [div_pos_iff_of_pos_right (area_pos p.1 hp.1 hp.2)] at hpos'
      obtain ⟨r, hr, hg⟩ := geo_of_positive_overlap hn hf hm hfx (List.mem_map_of_mem hpm) hpos'
      exact ⟨r, hr, hg⟩
    · have hp := hc p.1 (List.mem_map_of_mem hpm)
      simp only at hv ⊢
      rw [hn.lookup_rest iz hm p.1 hp.1 hp.2] at hv
      split at hv
      · simp only [Option.some.injEq] at hv
        subst hv
        rw [div_pos_iff_of_pos_right (area_pos p.1 hp.1 hp.2)] at hpos
        obtain ⟨r, hr, hg⟩ := geo_of_positive_overlap hn hf hm hfx (List.mem_map_of_mem hpm) hpos
        have := (owners_of_fixed_cell hn hf hm hfx hr hg m.name).mpr rfl
        rw [ho] at this; simp at this
      · simp at hv

/-- the cells that stay refinable are descriptors of the input, unchanged, with the depth they came with. -/
theorem depth_kept_then_initial (sqrt : α → α) (εA : α) (iz : Bool) (mods : List (Module α))
    (cells : List (Rect α × Nat)) (A : Allocation α)
    (h : allocationThenInitial sqrt εA iz mods cells = .ok A)
    (cell : Cell α) (hcell : cell ∈ A.cells) (hnf : cell.rect.fixed = false) :
    (cell.rect, cell.depth) ∈ cells := by
  rcases (mem_cells_then_iff sqrt εA iz mods cells A h cell).mp hcell with
    ⟨p, _, n, _, rfl⟩ | ⟨p, hpm, _, _, rfl⟩
  · simp at hnf
  · exact hpm

/-! ### composed with C01: no hypothesis on the cells, only a valid die and the netlist side conditions -/

/-- **die_cells_ok**: for a `ValidDie` document (C01) whose fixed rectangles are the netlist's, and ANY accepted pick
    sequence of the greedy cover, the die is returned and the two lists `create_initial_allocation` starts from —
    `specialized + ground` and `fixed` — are proper, unflagged resp. the fixed modules' rectangles, satisfy `FixedOK`,
    and together with the blockages tile the die exactly. -/
theorem die_cells_ok (sqrt : α → α) (st : Option (α × α)) (doc : Die.YV α) (inp : Die.DieIn α) (mods : List (Module α))
    (hp : Die.parseDie doc = .ok inp)
    (hεd : 0 ≤ (Die.mkEps sqrt st inp.W inp.H).1.d) (hεa : 0 ≤ (Die.mkEps sqrt st inp.W inp.H).1.a)
    (hv : C01.ValidDie (Die.mkEps sqrt st inp.W inp.H).1.d inp (netFixedRects mods)) (picks : List Die.IRect)
    (hacc : Die.coverAccept ((Die.gridOf (Die.mkEps sqrt st inp.W inp.H).1 inp (netFixedRects mods)).2.length - 1)
      ((Die.gridOf (Die.mkEps sqrt st inp.W inp.H).1 inp (netFixedRects mods)).1.length - 1)
      (Die.occ (Die.gridOf (Die.mkEps sqrt st inp.W inp.H).1 inp (netFixedRects mods)).1
        (Die.gridOf (Die.mkEps sqrt st inp.W inp.H).1 inp (netFixedRects mods)).2
        (Die.occRects inp (netFixedRects mods))) picks = true)
    (hn : NetOK sqrt mods) (hrects : ∀ m ∈ mods, m.fixed = true → m.rects ≠ []) :
    ∃ out, Die.dieModel sqrt st doc (netFixedRects mods) (some picks) =
        .ok (out, (Die.mkEps sqrt st inp.W inp.H).1, (Die.mkEps sqrt st inp.W inp.H).2) ∧
      out.fixed = netFixedRects mods ∧ out.blockages = Die.blockOf inp ∧ out.W = inp.W ∧ out.H = inp.H ∧
      CellsProper (refinableOf out ++ out.fixed) ∧ (∀ c ∈ refinableOf out, c.fixed = false) ∧
      FixedOK mods (refinableOf out ++ out.fixed) ∧
      C01.ExactTiling out ∧ out.all = refinableOf out ++ (out.blockages ++ out.fixed) := by
  obtain ⟨out, hrun, hd⟩ := die_facts sqrt st doc (netFixedRects mods) inp hp hεd hεa hv picks hacc
  have hfp : ∀ r ∈ netFixedRects mods, 0 < r.w ∧ 0 < r.h := by
    intro r hr
    obtain ⟨m, hm, _, hrm⟩ := (mem_netFixedRects mods r).mp hr
    exact hn.proper m hm r hrm
  exact ⟨out, hrun, hd.fixed_eq, hd.block_eq, hd.W_eq, hd.H_eq, hd.cellsProper hfp, hd.refinable_unflagged,
    hd.fixedOK mods hrects, hd.exact, hd.all_eq⟩

/-- **fixed_full_on_die**: `fixed_full` for the cells of a valid die — no hypothesis on the cells. -/
theorem fixed_full_on_die (sqrt : α → α) (st : Option (α × α)) (doc : Die.YV α) (inp : Die.DieIn α)
    (mods : List (Module α)) (hp : Die.parseDie doc = .ok inp)
    (hεd : 0 ≤ (Die.mkEps sqrt st inp.W inp.H).1.d) (hεa : 0 ≤ (Die.mkEps sqrt st inp.W inp.H).1.a)
    (hv : C01.ValidDie (Die.mkEps sqrt st inp.W inp.H).1.d inp (netFixedRects mods)) (picks : List Die.IRect)
    (hacc : Die.coverAccept ((Die.gridOf (Die.mkEps sqrt st inp.W inp.H).1 inp (netFixedRects mods)).2.length - 1)
      ((Die.gridOf (Die.mkEps sqrt st inp.W inp.H).1 inp (netFixedRects mods)).1.length - 1)
      (Die.occ (Die.gridOf (Die.mkEps sqrt st inp.W inp.H).1 inp (netFixedRects mods)).1
        (Die.gridOf (Die.mkEps sqrt st inp.W inp.H).1 inp (netFixedRects mods)).2
        (Die.occRects inp (netFixedRects mods))) picks = true)
    (hn : NetOK sqrt mods) (hrects : ∀ m ∈ mods, m.fixed = true → m.rects ≠ []) :
    ∃ out, Die.dieModel sqrt st doc (netFixedRects mods) (some picks) =
        .ok (out, (Die.mkEps sqrt st inp.W inp.H).1, (Die.mkEps sqrt st inp.W inp.H).2) ∧
      ∀ (εA : α) (iz : Bool) (A : Allocation α),
        createInitialAllocation sqrt εA iz mods (refinableOf out) out.fixed = .ok A →
        ∀ m ∈ mods, m.fixed = true →
          (∀ r ∈ m.rects, (⟨{ r with fixed := true }, [(m.name, 1)], 0⟩ : Cell α) ∈ A.cells) ∧
          (∀ cell ∈ A.cells, ∀ r ∈ m.rects, GeoEq cell.rect r →
            cell.alloc = [(m.name, 1)] ∧ cell.rect.fixed = true ∧ cell.depth = 0) ∧
          (∀ cell ∈ A.cells, ∀ v, cell.alloc.lookup m.name = some v → 0 < v → ∃ r ∈ m.rects, GeoEq cell.rect r) := by
  obtain ⟨out, hrun, hfe, _, _, _, hcp, _, hfo, _, _⟩ :=
    die_cells_ok sqrt st doc inp mods hp hεd hεa hv picks hacc hn hrects
  refine ⟨out, hrun, ?_⟩
  intro εA iz A hA m hm hfx
  obtain ⟨f1, f2, f3⟩ := fixed_full sqrt εA iz mods (refinableOf out) out.fixed A hA hn hcp hfo m hm hfx
  refine ⟨?_, f2, f3⟩
  intro r hr
  have hmem : r ∈ refinableOf out ++ out.fixed := by
    apply List.mem_append_right
    rw [hfe]; exact (mem_netFixedRects mods r).mpr ⟨m, hm, hfx, hr⟩
  exact f1 r hr r hmem ⟨rfl, rfl, rfl, rfl⟩

/-- **allocated_area_on_die**: on a valid die (no tiling hypothesis), the non-fixed cells of the result are exactly
    the die's refinable regions, and the area allocated to a non-fixed module is the area of its shape inside the die
    minus what lies on the blockages and on the fixed modules' rectangles — all in terms of the INPUTS. -/
theorem allocated_area_on_die (sqrt : α → α) (st : Option (α × α)) (doc : Die.YV α) (inp : Die.DieIn α)
    (mods : List (Module α)) (hp : Die.parseDie doc = .ok inp)
    (hεd : 0 ≤ (Die.mkEps sqrt st inp.W inp.H).1.d) (hεa : 0 ≤ (Die.mkEps sqrt st inp.W inp.H).1.a)
    (hv : C01.ValidDie (Die.mkEps sqrt st inp.W inp.H).1.d inp (netFixedRects mods)) (picks : List Die.IRect)
    (hacc : Die.coverAccept ((Die.gridOf (Die.mkEps sqrt st inp.W inp.H).1 inp (netFixedRects mods)).2.length - 1)
      ((Die.gridOf (Die.mkEps sqrt st inp.W inp.H).1 inp (netFixedRects mods)).1.length - 1)
      (Die.occ (Die.gridOf (Die.mkEps sqrt st inp.W inp.H).1 inp (netFixedRects mods)).1
        (Die.gridOf (Die.mkEps sqrt st inp.W inp.H).1 inp (netFixedRects mods)).2
        (Die.occRects inp (netFixedRects mods))) picks = true)
    (hn : NetOK sqrt mods) (hrects : ∀ m ∈ mods, m.fixed = true → m.rects ≠ []) :
    ∃ out, Die.dieModel sqrt st doc (netFixedRects mods) (some picks) =
        .ok (out, (Die.mkEps sqrt st inp.W inp.H).1, (Die.mkEps sqrt st inp.W inp.H).2) ∧
      ∀ (εA : α) (iz : Bool) (A : Allocation α),
        createInitialAllocation sqrt εA iz mods (refinableOf out) out.fixed = .ok A →
        (A.cells.filter fun c => !c.rect.fixed).map (·.rect) = refinableOf out ∧
        ∀ m ∈ mods, m.fixed = false →
          allocatedSum A.cells m.name =
            ((shapeOf sqrt m).map fun r => (Die.dieRect inp.W inp.H).areaOverlap r -
              ((Die.blockOf inp ++ netFixedRects mods).map fun b => b.areaOverlap r).sum).sum := by
  obtain ⟨out, hrun, hfe, hbe, hW, hH, hcp, hunf, hfo, hex, hall⟩ :=
    die_cells_ok sqrt st doc inp mods hp hεd hεa hv picks hacc hn hrects
  obtain ⟨_, _, _, _, hWp, hHp, _⟩ := C01.parseDie_ok doc inp hp
  refine ⟨out, hrun, ?_⟩
  intro εA iz A hA
  have hnf := nonfixed_rects_eq sqrt εA iz mods (refinableOf out) out.fixed A hA hn hcp hfo hfe hunf
  refine ⟨hnf, ?_⟩
  intro m hm hmf
  have hpos : ∀ c ∈ out.all, 0 ≤ c.w ∧ 0 ≤ c.h := by
    intro c hc
    rw [hall] at hc
    rcases List.mem_append.mp hc with hc | hc
    · have := hcp c (List.mem_append_left _ hc); exact ⟨le_of_lt this.1, le_of_lt this.2⟩
    · rcases List.mem_append.mp hc with hc | hc
      · rw [hbe] at hc
        have hmem : c ∈ Die.occRects inp (netFixedRects mods) :=
          List.mem_append_left _ (List.mem_append_right _ hc)
        have := hv.pos c hmem; exact ⟨le_of_lt this.1, le_of_lt this.2⟩
      · have := hcp c (List.mem_append_right _ hc); exact ⟨le_of_lt this.1, le_of_lt this.2⟩
  have hres := allocated_area_of_tiling sqrt εA iz mods (refinableOf out) out.fixed A hA hn hcp m hm hmf
    (Die.dieRect inp.W inp.H) (out.blockages ++ out.fixed)
    (by simp only [Die.dieRect]; exact ⟨le_of_lt hWp, le_of_lt hHp⟩)
    (by rw [hnf, ← hall]; exact hex.disjoint)
    (by rw [hnf, ← hall]; exact hpos)
    (by
      rw [hnf, ← hall]
      intro c hc
      have := hex.inside c hc
      rw [hW, hH] at this
      exact inside_dieRect inp.W inp.H c this)
    (by rw [hnf, ← hall, hex.area, hW, hH]; rfl)
  rw [hres, hbe, hfe]

/-! ### refined dies (bridge to C11): `split_refinable_regions`, `initial_grid` -/

/-- **allocated_area_of_refines**: let the refinable cells handed to the allocation be a refinement, in the sense of
    C11 (`SplitRects.Refines`: up to order, one exact tiling per region), of regions `R0` which together with the fixed
    cells satisfy `FixedOK` (e.g. the regions of a valid die, `die_cells_ok`).  Then the refined cell list satisfies
    `FixedOK` again (so `fixed_full` applies to the refined die), the returned cells that are not fixed modules' are
    exactly the refined cells, and the area allocated to a non-fixed module is the area of its shape on `R0` —
    refinement does not change it. -/
theorem allocated_area_of_refines (sqrt : α → α) (εA : α) (iz : Bool) (mods : List (Module α))
    (R0 refinable' fixed : List (Rect α)) (A : Allocation α)
    (h : createInitialAllocation sqrt εA iz mods refinable' fixed = .ok A)
    (hn : NetOK sqrt mods) (hc0 : CellsProper (R0 ++ fixed)) (hf0 : FixedOK mods (R0 ++ fixed))
    (hfix : fixed = netFixedRects mods) (hunf : ∀ c ∈ R0, c.fixed = false)
    (href : SplitRects.Refines R0 refinable') :
    FixedOK mods (refinable' ++ fixed) ∧ CellsProper (refinable' ++ fixed) ∧
    (A.cells.filter fun c => !c.rect.fixed).map (·.rect) = refinable' ∧
    ∀ m ∈ mods, m.fixed = false →
      allocatedSum A.cells m.name = (R0.map fun R => overlapSum R (shapeOf sqrt m)).sum := by
  have hf' := fixedOK_of_refines mods R0 refinable' fixed hf0 hfix href
  have hc' := cellsProper_of_refines R0 refinable' fixed hc0 href
  have hu' := unflagged_of_refines R0 refinable' hunf href
  have hnf := nonfixed_rects_eq sqrt εA iz mods refinable' fixed A h hn hc' hf' hfix hu'
  refine ⟨hf', hc', hnf, ?_⟩
  intro m hm hmf
  rw [allocated_area_eq sqrt εA iz mods refinable' fixed A h hn hc' m hm hmf,
    show (fun c : Cell α => overlapSum c.rect (shapeOf sqrt m)) =
      (fun c => overlapSum c (shapeOf sqrt m)) ∘ (·.rect) from rfl, ← List.map_map, hnf]
  exact refines_overlapSum R0 refinable' href (fun r hr => hc0 r (List.mem_append_left _ hr)) _ (hn.shape_nonneg hm)

/-- **allocated_area_on_split_die**: a valid die (C01), refined with `split_refinable_regions(ratio, n)` (C11 model,
    any fuel that returns), then `create_initial_allocation`: blockages and fixed cells are untouched, `FixedOK` holds
    for the refined cells, the non-fixed cells of the result are the refined regions, and the area allocated to a
    non-fixed module is given by the same input-only formula as for the unrefined die (`allocated_area_on_die`). -/
theorem allocated_area_on_split_die (sqrt : α → α) (st : Option (α × α)) (doc : Die.YV α) (inp : Die.DieIn α)
    (mods : List (Module α)) (hp : Die.parseDie doc = .ok inp)
    (hεd : 0 ≤ (Die.mkEps sqrt st inp.W inp.H).1.d) (hεa : 0 ≤ (Die.mkEps sqrt st inp.W inp.H).1.a)
    (hv : C01.ValidDie (Die.mkEps sqrt st inp.W inp.H).1.d inp (netFixedRects mods)) (picks : List Die.IRect)
    (hacc : Die.coverAccept ((Die.gridOf (Die.mkEps sqrt st inp.W inp.H).1 inp (netFixedRects mods)).2.length - 1)
      ((Die.gridOf (Die.mkEps sqrt st inp.W inp.H).1 inp (netFixedRects mods)).1.length - 1)
      (Die.occ (Die.gridOf (Die.mkEps sqrt st inp.W inp.H).1 inp (netFixedRects mods)).1
        (Die.gridOf (Die.mkEps sqrt st inp.W inp.H).1 inp (netFixedRects mods)).2
        (Die.occRects inp (netFixedRects mods))) picks = true)
    (hn : NetOK sqrt mods) (hrects : ∀ m ∈ mods, m.fixed = true → m.rects ≠ []) :
    ∃ out, Die.dieModel sqrt st doc (netFixedRects mods) (some picks) =
        .ok (out, (Die.mkEps sqrt st inp.W inp.H).1, (Die.mkEps sqrt st inp.W inp.H).2) ∧
      ∀ (fuel : Nat) (ratio : α) (n : Nat) (d' : SplitRects.DieSt α),
        SplitRects.splitRefinableRegions fuel (toDieSt out) ratio n = .ok d' →
        d'.fixed = out.fixed ∧ d'.blockages = out.blockages ∧
        SplitRects.Refines (refinableOf out) (SplitRects.floorplanningRectangles d').1 ∧
        ∀ (εA : α) (iz : Bool) (A : Allocation α),
          createInitialAllocation sqrt εA iz mods (SplitRects.floorplanningRectangles d').1 d'.fixed = .ok A →
          FixedOK mods ((SplitRects.floorplanningRectangles d').1 ++ d'.fixed) ∧
          (A.cells.filter fun c => !c.rect.fixed).map (·.rect) = (SplitRects.floorplanningRectangles d').1 ∧
          ∀ m ∈ mods, m.fixed = false →
            allocatedSum A.cells m.name =
              ((shapeOf sqrt m).map fun r => (Die.dieRect inp.W inp.H).areaOverlap r -
                ((Die.blockOf inp ++ netFixedRects mods).map fun b => b.areaOverlap r).sum).sum := by
  obtain ⟨out, hrun, hfe, hbe, hW, hH, hcp, hunf, hfo, hex, hall⟩ :=
    die_cells_ok sqrt st doc inp mods hp hεd hεa hv picks hacc hn hrects
  obtain ⟨_, _, _, _, hWp, hHp, _⟩ := C01.parseDie_ok doc inp hp
  refine ⟨out, hrun, ?_⟩
  intro fuel ratio n d' hs
  have hpos : C11.Proper (SplitRects.floorplanningRectangles (toDieSt out)).1 :=
    fun r hr => hcp r (List.mem_append_left _ hr)
  obtain ⟨href, _, _⟩ := C11.dieSplit_refines fuel (toDieSt out) d' ratio n hpos hs
  obtain ⟨eb, ef, _, _⟩ := C11.dieSplit_spec fuel (toDieSt out) d' ratio n hs
  have ef' : d'.fixed = out.fixed := ef
  have eb' : d'.blockages = out.blockages := eb
  refine ⟨ef', eb', href, ?_⟩
  intro εA iz A hA
  rw [ef'] at hA ⊢
  obtain ⟨r1, _, r3, r4⟩ := allocated_area_of_refines sqrt εA iz mods (refinableOf out) _ out.fixed A hA hn hcp hfo
    hfe hunf href
  refine ⟨r1, r3, ?_⟩
  intro m hm hmf
  rw [r4 m hm hmf]
  have hposa : ∀ c ∈ out.all, 0 ≤ c.w ∧ 0 ≤ c.h := by
    intro c hc
    rw [hall] at hc
    rcases List.mem_append.mp hc with hc | hc
    · have := hcp c (List.mem_append_left _ hc); exact ⟨le_of_lt this.1, le_of_lt this.2⟩
    · rcases List.mem_append.mp hc with hc | hc
      · rw [hbe] at hc
        have hmem : c ∈ Die.occRects inp (netFixedRects mods) :=
          List.mem_append_left _ (List.mem_append_right _ hc)
        have := hv.pos c hmem; exact ⟨le_of_lt this.1, le_of_lt this.2⟩
      · have := hcp c (List.mem_append_right _ hc); exact ⟨le_of_lt this.1, le_of_lt this.2⟩
  have := tiling_formula (Die.dieRect inp.W inp.H) (refinableOf out) (out.blockages ++ out.fixed) (shapeOf sqrt m)
    (by simp only [Die.dieRect]; exact ⟨le_of_lt hWp, le_of_lt hHp⟩)
    (by rw [← hall]; exact hex.disjoint) (by rw [← hall]; exact hposa)
    (by
      rw [← hall]
      intro c hc
      have := hex.inside c hc
      rw [hW, hH] at this
      exact inside_dieRect inp.W inp.H c this)
    (by rw [← hall, hex.area, hW, hH]; rfl) (hn.shape_nonneg hm)
  rw [this, hbe, hfe]

/-- **allocated_area_on_grid_die**: a die gridded with `initial_grid(nrows, ncols)` (C11 model; it only succeeds on a
    clean die: no blockages, specialised regions or fixed modules; the outline `Rectangle(center, shape)` is not
    flagged fixed): every cell of the result is a grid cell and the area allocated to a module is the area of its
    shape inside the die outline. -/
theorem allocated_area_on_grid_die (sqrt : α → α) (mods : List (Module α)) (d d' : SplitRects.DieSt α) (nr nc : Nat)
    (hw : 0 < d.die.w) (hh : 0 < d.die.h) (hflag : d.die.fixed = false) (hfix : d.fixed = netFixedRects mods)
    (hg : SplitRects.initialGrid d nr nc = .ok d')
    (hn : NetOK sqrt mods) (hrects : ∀ m ∈ mods, m.fixed = true → m.rects ≠ [])
    (εA : α) (iz : Bool) (A : Allocation α)
    (hA : createInitialAllocation sqrt εA iz mods (SplitRects.floorplanningRectangles d').1 d'.fixed = .ok A) :
    (SplitRects.floorplanningRectangles d').1.length = nr * nc ∧ d'.fixed = [] ∧
    (A.cells.filter fun c => !c.rect.fixed).map (·.rect) = (SplitRects.floorplanningRectangles d').1 ∧
    ∀ m ∈ mods, allocatedSum A.cells m.name = overlapSum d.die (shapeOf sqrt m) := by
  obtain ⟨hl, ht, hsp, _, hfx, _, _⟩ := C11.initialGrid_spec d d' nr nc hw hh hg
  obtain ⟨_, ⟨hf0, hs0, _⟩, _⟩ := (C11.initialGrid_ok_iff d nr nc).mp ⟨d', hg⟩
  have hfe : d'.fixed = [] := by rw [hfx, hf0]
  have hnet : netFixedRects mods = [] := by rw [← hfix, hf0]
  have hfpr : (SplitRects.floorplanningRectangles d').1 = d'.ground := by
    simp [SplitRects.floorplanningRectangles, hsp, hs0]
  have hnofixed : ∀ m ∈ mods, m.fixed = true → False := by
    intro m hm hfxm
    obtain ⟨r, hr⟩ := List.exists_mem_of_ne_nil _ (hrects m hm hfxm)
    have : r ∈ netFixedRects mods := (mem_netFixedRects mods r).mpr ⟨m, hm, hfxm, hr⟩
    rw [hnet] at this; simp at this
  have href : SplitRects.Refines [d.die] (SplitRects.floorplanningRectangles d').1 := by
    rw [hfpr]; exact ⟨[d'.ground], List.Forall₂.cons ht List.Forall₂.nil, by simp⟩
  have hc0 : CellsProper ([d.die] ++ ([] : List (Rect α))) := by
    intro c hc; simp at hc; subst hc; exact ⟨hw, hh⟩
  have hf0' : FixedOK mods ([d.die] ++ ([] : List (Rect α))) :=
    ⟨by simp, hrects, fun m hm hfxm => (hnofixed m hm hfxm).elim,
      fun m1 h1 _ _ f1 => (hnofixed m1 h1 f1).elim⟩
  rw [hfe] at hA
  obtain ⟨_, _, r3, r4⟩ := allocated_area_of_refines sqrt εA iz mods [d.die] _ [] A hA hn hc0 hf0' hnet.symm
    (by intro c hc; simp at hc; subst hc; exact hflag) href
  refine ⟨by rw [hfpr]; exact hl, hfe, r3, ?_⟩
  intro m hm
  have hmf : m.fixed = false := by
    cases hfm : m.fixed with
    | false => rfl
    | true => exact (hnofixed m hm hfm).elim
  rw [r4 m hm hmf]; simp

/-! ### the initial allocation is a start state of `glbfloor` (bridge to C10) -/

/-- **initial_allocation_is_glb_start**: for a `ValidDie` document (C01), any accepted pick sequence and a compatible
    netlist whose module names are identifiers, the allocation `create_initial_allocation(die)` returns (include-zero
    off, as `glbfloor` calls it; `εA = st.area`, the class-wide area tolerance) satisfies the start-state hypotheses of
    `FV.C10.glbfloor_correct`: re-read by the allocation model of C02 (`FV.Alloc.mkAllocation`) it is accepted with
    the same cells and tolerances and is a `ValidAlloc`; all its cells lie inside the die; and for every Glb view
    `gmods` of the netlist (`GlbModsOf`: fixed modules have the same name and rectangles, and their centre is the
    area-weighted mean of their rectangle centres — what `Netlist._create_rectangles` /
    `calculate_center_from_rectangles` assign to every module with rectangles) every fixed module satisfies `FixedOwn`
    and has its centre inside the die.  The FOUR conjuncts are literally `hv`, `hin`, `hown`, `hfc` of
    `glbfloor_correct` for `init = ⟨a, st, gmods⟩` and `die = dieRect W H` (`hfc` is stated with `FV.C10.InDie`
    unfolded — `die.xmin ≤ x ∧ x ≤ die.xmax ∧ die.ymin ≤ y ∧ y ≤ die.ymax` — so that this file does not import
    `FV.Props.C10`; the two are definitionally equal). -/
theorem initial_allocation_is_glb_start (env : Alloc.Env α) (st : Alloc.Eps α) (hd : 0 ≤ st.dist) (ha : 0 ≤ st.area)
    (sqrt : α → α) (stD : Option (α × α)) (doc : Die.YV α) (inp : Die.DieIn α)
    (mods : List (Module α)) (hp : Die.parseDie doc = .ok inp)
    (hεd : 0 ≤ (Die.mkEps sqrt stD inp.W inp.H).1.d) (hεa : 0 ≤ (Die.mkEps sqrt stD inp.W inp.H).1.a)
    (hv : C01.ValidDie (Die.mkEps sqrt stD inp.W inp.H).1.d inp (netFixedRects mods)) (picks : List Die.IRect)
    (hacc : Die.coverAccept ((Die.gridOf (Die.mkEps sqrt stD inp.W inp.H).1 inp (netFixedRects mods)).2.length - 1)
      ((Die.gridOf (Die.mkEps sqrt stD inp.W inp.H).1 inp (netFixedRects mods)).1.length - 1)
      (Die.occ (Die.gridOf (Die.mkEps sqrt stD inp.W inp.H).1 inp (netFixedRects mods)).1
        (Die.gridOf (Die.mkEps sqrt stD inp.W inp.H).1 inp (netFixedRects mods)).2
        (Die.occRects inp (netFixedRects mods))) picks = true)
    (hn : NetOK sqrt mods) (hrects : ∀ m ∈ mods, m.fixed = true → m.rects ≠ [])
    (hid : ∀ m ∈ mods, Alloc.validIdent m.name = true) :
    ∃ out, Die.dieModel sqrt stD doc (netFixedRects mods) (some picks) =
        .ok (out, (Die.mkEps sqrt stD inp.W inp.H).1, (Die.mkEps sqrt stD inp.W inp.H).2) ∧
      ∀ (A : Allocation α), createInitialAllocation sqrt st.area false mods (refinableOf out) out.fixed = .ok A →
        ∃ a, Alloc.mkAllocation env st ((A.cells.map toAllocCell).map Alloc.Cell.toRaw) = .ok (a, st) ∧
          a.cells = A.cells.map toAllocCell ∧
          ∀ gmods : List (Glb.Module α), GlbModsOf mods gmods →
            Alloc.ValidAlloc (Glb.AState.mk a st gmods).eps (Glb.AState.mk a st gmods).alloc ∧
            (∀ c ∈ (Glb.AState.mk a st gmods).alloc.cells, c.rect.isInside (Die.dieRect inp.W inp.H) = true) ∧
            (∀ f ∈ (Glb.AState.mk a st gmods).mods, f.fixed = true →
              Glb.FixedOwn ((Glb.AState.mk a st gmods).alloc.cells.map Glb.ofCell) f) ∧
            (∀ f ∈ (Glb.AState.mk a st gmods).mods, f.fixed = true →
              (Die.dieRect inp.W inp.H).xmin ≤ f.cx ∧ f.cx ≤ (Die.dieRect inp.W inp.H).xmax ∧
              (Die.dieRect inp.W inp.H).ymin ≤ f.cy ∧ f.cy ≤ (Die.dieRect inp.W inp.H).ymax) := by
  obtain ⟨out, hrun, hfe, _, hW, hH, hcp, _, hfo, hex, hall⟩ :=
    die_cells_ok sqrt stD doc inp mods hp hεd hεa hv picks hacc hn hrects
  refine ⟨out, hrun, ?_⟩
  intro A hA
  have hq : ∀ c ∈ refinableOf out ++ out.fixed,
      c.isInside (Die.dieRect inp.W inp.H) = true ∧ 0 ≤ c.xmin ∧ 0 ≤ c.ymin := by
    intro c hc
    have hmem : c ∈ out.all := by
      rw [hall]
      rcases List.mem_append.mp hc with hc | hc
      · exact List.mem_append_left _ hc
      · exact List.mem_append_right _ (List.mem_append_right _ hc)
    have hi := hex.inside c hmem
    rw [hW, hH] at hi
    exact ⟨isInside_of_inside c _ (inside_dieRect inp.W inp.H c hi), hi.1, hi.2.2.1⟩
  obtain ⟨a, h1, h2, h3, h4, h5⟩ := glb_start_of_cells env st sqrt mods (refinableOf out) out.fixed A
    (Die.dieRect inp.W inp.H) hA hd ha hn hid hcp hfo hq
  refine ⟨a, h1, h2, ?_⟩
  intro gmods hg
  refine ⟨h3, h4, ?_, ?_⟩
  · intro f hf hfx
    obtain ⟨m, hm, hmf, hname, hrs, _⟩ := hg f hf hfx
    exact h5 m hm hmf f hname.symm hrs.symm
  · intro f hf hfx
    obtain ⟨m, hm, hmf, _, hrs, hcx, hcy⟩ := hg f hf hfx
    have hin : ∀ r ∈ f.rects, 0 ≤ r.xmin ∧ r.xmax ≤ inp.W ∧ 0 ≤ r.ymin ∧ r.ymax ≤ inp.H := by
      intro r hr
      rw [← hrs] at hr
      exact hv.inside r (List.mem_append_right _ ((mem_netFixedRects mods r).mpr ⟨m, hm, hmf, hr⟩))
    obtain ⟨c1, c2, c3, c4⟩ := centroid_in_box f.rects inp.W inp.H (by rw [← hrs]; exact hrects m hm hmf)
      (fun r hr => hn.proper m hm r (by rw [hrs]; exact hr)) hin
    rw [← hcx] at c1 c2; rw [← hcy] at c3 c4
    simp only [Die.dieRect, xmin, xmax, ymin, ymax, two_eq]
    refine ⟨by linarith, by linarith, by linarith, by linarith⟩

/-! ### non-vacuity: a concrete die + netlist (executed at `Rat`) -/

section example_
/-- a 4×4 die: ground cells `[0,2]×[0,2]` and `[0,4]×[2,4]`, the fixed module `F` on `[2,4]×[0,2]`; the soft module
    `S` has the rectangle `[1,3]×[1,3]`, the rectangle-less soft module `q` has area 4 and centre `(3,3)`. -/
def exRefinable : List (Rect ℚ) := [{ cx := 1, cy := 1, w := 2, h := 2 }, { cx := 2, cy := 3, w := 4, h := 2 }]
def exFixed : List (Rect ℚ) := [{ cx := 3, cy := 1, w := 2, h := 2, fixed := true, hard := true }]
def exMods : List (Module ℚ) :=
  [⟨"S", false, [{ cx := 2, cy := 2, w := 2, h := 2 }], [4], none⟩,
   ⟨"q", false, [], [3, 1], some (3, 3)⟩,
   ⟨"F", true, [{ cx := 3, cy := 1, w := 2, h := 2, fixed := true, hard := true }], [4], none⟩]
def exSqrt : ℚ → ℚ := fun _ => 2

/-- the call returns: `F`'s cell first with `{F ↦ 1}`, then `[0,2]²` with `S ↦ 1/4` and the upper strip with
    `S ↦ 1/4, q ↦ 1/2`; allocated areas `F = 4`, `S = 3`, `q = 4`. -/
example :
    (match createInitialAllocation exSqrt 0 false exMods exRefinable exFixed with
     | .ok A => A.cells.map (fun c => (c.rect.fixed, c.alloc)) ==
         [(true, [("F", 1)]), (false, [("S", 1/4)]), (false, [("S", 1/4), ("q", 1/2)])] &&
         A.stats.map (fun e => (e.1, e.2.1)) == [("F", 4), ("S", 3), ("q", 4)]
     | .error _ => false) = true := by decide +kernel

/-- with include-zero every module is listed in the two ground cells. -/
example :
    (match createInitialAllocation exSqrt 0 true exMods exRefinable exFixed with
     | .ok A => A.cells.map (fun c => c.alloc.map (·.1)) == [["F"], ["S", "q", "F"], ["S", "q", "F"]]
     | .error _ => false) = true := by decide +kernel

/-- a module that touches no cell makes include-zero fail with `ZeroDivisionError` (documented degenerate case). -/
example :
    (match createInitialAllocation exSqrt 0 true
        (exMods ++ [⟨"far", false, [{ cx := 9, cy := 9, w := 1, h := 1 }], [1], none⟩]) exRefinable exFixed with
     | .error .zeroDiv => true
     | _ => false) = true := by decide +kernel

/-- the example netlist meets the netlist side conditions. -/
theorem ex_netOK : NetOK exSqrt exMods where
  names := by decide
  sqrt_ok := by
    intro m hm hr
    simp only [exMods, List.mem_cons, List.not_mem_nil, or_false] at hm
    rcases hm with rfl | rfl | rfl
    · simp at hr
    · simp only [exSqrt, Module.area, pySum_eq_sum]; norm_num
    · simp at hr
  own_disjoint := by
    intro m hm
    simp only [exMods, List.mem_cons, List.not_mem_nil, or_false] at hm
    rcases hm with rfl | rfl | rfl <;> simp
  proper := by
    intro m hm r hr
    simp only [exMods, List.mem_cons, List.not_mem_nil, or_false] at hm
    rcases hm with rfl | rfl | rfl
    · simp only [List.mem_singleton] at hr; subst hr; norm_num
    · simp at hr
    · simp only [List.mem_singleton] at hr; subst hr; norm_num

example : CellsProper (exRefinable ++ exFixed) := by
  intro c hc
  simp only [exRefinable, exFixed, List.cons_append, List.nil_append, List.mem_cons, List.not_mem_nil, or_false] at hc
  rcases hc with rfl | rfl | rfl <;> norm_num

example : (exRefinable ++ exFixed).Pairwise (fun a b => a.areaOverlap b = 0) := by decide +kernel

example : FixedOK exMods (exRefinable ++ exFixed) where
  cells_disjoint := by unfold NoOverlap; decide +kernel
  fixed_have_rects := by
    intro m hm hf
    simp only [exMods, List.mem_cons, List.not_mem_nil, or_false] at hm
    rcases hm with rfl | rfl | rfl <;> simp at hf ⊢
  fixed_are_cells := by
    intro m hm hf r hr
    simp only [exMods, List.mem_cons, List.not_mem_nil, or_false] at hm
    rcases hm with rfl | rfl | rfl
    · simp at hf
    · simp at hf
    · simp only [List.mem_singleton] at hr; subst hr
      exact ⟨_, by simp [exRefinable, exFixed], rfl, rfl, rfl, rfl⟩
  fixed_apart := by
    intro m1 hm1 m2 hm2 h1 h2 hne
    simp only [exMods, List.mem_cons, List.not_mem_nil, or_false] at hm1 hm2
    rcases hm1 with rfl | rfl | rfl <;> rcases hm2 with rfl | rfl | rfl <;> simp at h1 h2 hne

/-- the three cells tile the 4×4 die exactly. -/
example : ((exRefinable ++ exFixed).map Rect.area).sum = ({ cx := 2, cy := 2, w := 4, h := 4 } : Rect ℚ).area := by
  decide +kernel

/-- halving the upper strip is a cut, so `[[0,2]², [0,2]×[2,4], [2,4]×[2,4]]` is a dissection of the two ground cells. -/
example : Dissection exRefinable
    [({ cx := 1, cy := 1, w := 2, h := 2 } : Rect ℚ), { cx := 1, cy := 3, w := 2, h := 2 },
     { cx := 3, cy := 3, w := 2, h := 2 }] := by
  apply Dissection.keep _ _ _ _ ⟨rfl, rfl, rfl, rfl⟩
  apply Dissection.cut _ ({ cx := 1, cy := 3, w := 2, h := 2 } : Rect ℚ) ({ cx := 3, cy := 3, w := 2, h := 2 } : Rect ℚ)
  · left
    refine ⟨(2 : ℚ), ?_, ?_, ?_, ?_, ?_, ?_, ?_, ?_, ?_, ?_⟩ <;> norm_num [Rect.xmin, Rect.xmax, Rect.ymin, Rect.ymax, Rect.two]
  · apply Dissection.keep _ _ _ _ ⟨rfl, rfl, rfl, rfl⟩
    apply Dissection.keep _ _ _ _ ⟨rfl, rfl, rfl, rfl⟩
    exact Dissection.nil
/-- the same die as a document for the C01 model: 4×4, no regions; the fixed rectangle comes from the netlist. -/
def exDoc : Die.YV ℚ := .map [("width", .num 4), ("height", .num 4)]
def exInp : Die.DieIn ℚ := { W := 4, H := 4, regions := [] }

/-- the hypotheses of the `_on_die` theorems are met: the document parses, is a `ValidDie` with the netlist's fixed
    rectangles, accepted pick sequences exist (`C01.cover_exists`) — so for each of them the die is returned and the
    area allocated to `S` and `q` is given by the input-only formula. -/
example : ∃ picks out, Die.dieModel exSqrt none exDoc (netFixedRects exMods) (some picks) =
      .ok (out, (Die.mkEps exSqrt none exInp.W exInp.H).1, (Die.mkEps exSqrt none exInp.W exInp.H).2) ∧
    ∀ (εA : ℚ) (iz : Bool) (A : Allocation ℚ),
      createInitialAllocation exSqrt εA iz exMods (refinableOf out) out.fixed = .ok A →
      (A.cells.filter fun c => !c.rect.fixed).map (·.rect) = refinableOf out ∧
      ∀ m ∈ exMods, m.fixed = false →
        allocatedSum A.cells m.name =
          ((shapeOf exSqrt m).map fun r => (Die.dieRect exInp.W exInp.H).areaOverlap r -
            ((Die.blockOf exInp ++ netFixedRects exMods).map fun b => b.areaOverlap r).sum).sum := by
  obtain ⟨picks, hacc⟩ := C01.cover_exists
    ((Die.gridOf (Die.mkEps exSqrt none exInp.W exInp.H).1 exInp (netFixedRects exMods)).2.length - 1)
    ((Die.gridOf (Die.mkEps exSqrt none exInp.W exInp.H).1 exInp (netFixedRects exMods)).1.length - 1)
    (Die.occ (Die.gridOf (Die.mkEps exSqrt none exInp.W exInp.H).1 exInp (netFixedRects exMods)).1
      (Die.gridOf (Die.mkEps exSqrt none exInp.W exInp.H).1 exInp (netFixedRects exMods)).2
      (Die.occRects exInp (netFixedRects exMods)))
  obtain ⟨out, h1, h2⟩ := allocated_area_on_die exSqrt none exDoc exInp exMods (by with_unfolding_all rfl)
    (by decide +kernel) (by decide +kernel)
    (by
      constructor
      · decide +kernel
      · decide +kernel
      · decide +kernel
      · unfold Die.Sep; decide +kernel
      · unfold Die.Sep; decide +kernel)
    picks hacc ex_netOK
    (by
      intro m hm hf
      simp only [exMods, List.mem_cons, List.not_mem_nil, or_false] at hm
      rcases hm with rfl | rfl | rfl <;> simp at hf ⊢)
  exact ⟨picks, out, h1, h2⟩

/-- a concrete accepted pick sequence for `exDoc`: the upper strip, then the lower-left square. -/
def exPicks : List Die.IRect := [⟨1, 1, 0, 1⟩, ⟨0, 0, 0, 0⟩]

theorem ex_validDie : C01.ValidDie (Die.mkEps exSqrt none exInp.W exInp.H).1.d exInp (netFixedRects exMods) := by
  constructor
  · decide +kernel
  · decide +kernel
  · decide +kernel
  · unfold Die.Sep; decide +kernel
  · unfold Die.Sep; decide +kernel

/-- the Hanan grid of the example (`gather_boundaries` sorts with `List.mergeSort`, which the kernel does not unfold:
    computed once here by rewriting, everything downstream is `decide +kernel`). -/
theorem ex_grid : Die.gridOf (Die.mkEps exSqrt none exInp.W exInp.H).1 exInp (netFixedRects exMods) =
    ([0, 2, 4], [0, 2, 4]) := by
  have h : (Die.mkEps exSqrt none (4 : ℚ) 4).1.d = 1 / 25000000000 := by decide +kernel
  simp only [Die.gridOf, Die.gather, Die.occRects, Die.specOf, Die.blockOf, exInp, netFixedRects, exMods, Die.boundsX,
    Die.boundsY, Die.dieRect, List.filter, List.flatMap, List.map, List.flatten, List.append, List.nil_append,
    List.cons_append, Rect.xmin, Rect.xmax, Rect.ymin, Rect.ymax, Rect.two]
  norm_num [Die.sortAsc, List.mergeSort, List.MergeSort.Internal.splitInTwo, List.merge, Die.dedupe, h]

theorem ex_picks_accepted :
    Die.coverAccept ((Die.gridOf (Die.mkEps exSqrt none exInp.W exInp.H).1 exInp (netFixedRects exMods)).2.length - 1)
      ((Die.gridOf (Die.mkEps exSqrt none exInp.W exInp.H).1 exInp (netFixedRects exMods)).1.length - 1)
      (Die.occ (Die.gridOf (Die.mkEps exSqrt none exInp.W exInp.H).1 exInp (netFixedRects exMods)).1
        (Die.gridOf (Die.mkEps exSqrt none exInp.W exInp.H).1 exInp (netFixedRects exMods)).2
        (Die.occRects exInp (netFixedRects exMods))) exPicks = true := by
  simp only [ex_grid]
  decide +kernel

theorem ex_fixed_have_rects : ∀ m ∈ exMods, m.fixed = true → m.rects ≠ [] := by
  intro m hm hf
  simp only [exMods, List.mem_cons, List.not_mem_nil, or_false] at hm
  rcases hm with rfl | rfl | rfl <;> simp at hf ⊢

/-- **the inner call returns** (kernel-checked): with `exPicks` the die model returns and, on ITS cell lists,
    `create_initial_allocation` returns the three cells `F ↦ 1` (flagged), upper strip `S ↦ 1/4, q ↦ 1/2`, lower-left
    square `S ↦ 1/4`, with allocated areas `F = 4, S = 3, q = 4`. -/
theorem ex_inner_call_returns :
    (match Die.dieModel exSqrt none exDoc (netFixedRects exMods) (some exPicks) with
     | .ok (out, _, _) =>
       (match createInitialAllocation exSqrt 0 false exMods (refinableOf out) out.fixed with
        | .ok A => A.cells.map (fun c => (c.rect.fixed, c.alloc)) ==
            [(true, [("F", 1)]), (false, [("S", 1/4), ("q", 1/2)]), (false, [("S", 1/4)])] &&
            A.stats.map (fun e => (e.1, e.2.1)) == [("F", 4), ("S", 3), ("q", 4)]
        | .error _ => false)
     | .error _ => false) = true := by
  unfold Die.dieModel
  simp only [show Die.parseDie exDoc = .ok exInp from by with_unfolding_all rfl]
  unfold Die.dieCore
  simp only [ex_grid]
  decide +kernel

/-- `allocated_area_on_die` and `fixed_full_on_die` APPLIED, with the inner call returning: for the die obtained
    with `exPicks` there is an allocation `A` returned by `create_initial_allocation`, and the conclusions hold of it. -/
example : ∃ out A, Die.dieModel exSqrt none exDoc (netFixedRects exMods) (some exPicks) =
      .ok (out, (Die.mkEps exSqrt none exInp.W exInp.H).1, (Die.mkEps exSqrt none exInp.W exInp.H).2) ∧
    createInitialAllocation exSqrt 0 false exMods (refinableOf out) out.fixed = .ok A ∧
    (A.cells.filter fun c => !c.rect.fixed).map (·.rect) = refinableOf out ∧
    (∀ m ∈ exMods, m.fixed = false →
      allocatedSum A.cells m.name =
        ((shapeOf exSqrt m).map fun r => (Die.dieRect exInp.W exInp.H).areaOverlap r -
          ((Die.blockOf exInp ++ netFixedRects exMods).map fun b => b.areaOverlap r).sum).sum) ∧
    (⟨{ cx := 3, cy := 1, w := 2, h := 2, fixed := true, hard := true }, [("F", 1)], 0⟩ : Cell ℚ) ∈ A.cells := by
  obtain ⟨out, h1, h2⟩ := allocated_area_on_die exSqrt none exDoc exInp exMods (by with_unfolding_all rfl)
    (by decide +kernel) (by decide +kernel) ex_validDie exPicks ex_picks_accepted ex_netOK ex_fixed_have_rects
  obtain ⟨out', h1', h3⟩ := fixed_full_on_die exSqrt none exDoc exInp exMods (by with_unfolding_all rfl)
    (by decide +kernel) (by decide +kernel) ex_validDie exPicks ex_picks_accepted ex_netOK ex_fixed_have_rects
  have : out' = out := by
    rw [h1] at h1'; simp only [Except.ok.injEq, Prod.mk.injEq] at h1'; exact h1'.1.symm
  subst this
  have hret := ex_inner_call_returns
  rw [h1] at hret
  simp only at hret
  cases hA : createInitialAllocation exSqrt 0 false exMods (refinableOf out') out'.fixed with
  | error e => rw [hA] at hret; simp at hret
  | ok A =>
    obtain ⟨a1, a2⟩ := h2 0 false A hA
    have hF := (h3 0 false A hA ⟨"F", true, [{ cx := 3, cy := 1, w := 2, h := 2, fixed := true, hard := true }], [4], none⟩
      (by simp [exMods]) rfl).1 _ (List.mem_singleton.mpr rfl)
    exact ⟨out', A, h1, hA, a1, a2, hF⟩

/-- the Glb view of the example netlist's fixed module: same name and rectangle, centre = centroid `(3, 1)`. -/
def exGmods : List (Glb.Module ℚ) :=
  [⟨"F", true, true, false, 3, 1, [{ cx := 3, cy := 1, w := 2, h := 2, fixed := true, hard := true }]⟩]

theorem ex_glbModsOf : GlbModsOf exMods exGmods := by
  intro f hf hfx
  simp only [exGmods, List.mem_singleton] at hf
  subst hf
  refine ⟨⟨"F", true, [{ cx := 3, cy := 1, w := 2, h := 2, fixed := true, hard := true }], [4], none⟩,
    by simp [exMods], rfl, rfl, rfl, ?_, ?_⟩ <;>
  norm_num [Glb.momentX, Glb.momentY, Glb.totalArea, Rect.area]

/-- `initial_allocation_is_glb_start` APPLIED with all its hypotheses on the concrete die + netlist at `ℚ`, the
    inner call returning: the four start hypotheses of `glbfloor_correct` hold for `init = ⟨a, ⟨0, 0⟩, exGmods⟩`. -/
example : ∃ out A a, Die.dieModel exSqrt none exDoc (netFixedRects exMods) (some exPicks) =
      .ok (out, (Die.mkEps exSqrt none exInp.W exInp.H).1, (Die.mkEps exSqrt none exInp.W exInp.H).2) ∧
    createInitialAllocation exSqrt 0 false exMods (refinableOf out) out.fixed = .ok A ∧
    a.cells = A.cells.map toAllocCell ∧
    Alloc.ValidAlloc (Glb.AState.mk a ⟨0, 0⟩ exGmods).eps (Glb.AState.mk a ⟨0, 0⟩ exGmods).alloc ∧
    (∀ c ∈ (Glb.AState.mk a ⟨0, 0⟩ exGmods).alloc.cells, c.rect.isInside (Die.dieRect exInp.W exInp.H) = true) ∧
    (∀ f ∈ (Glb.AState.mk a ⟨0, 0⟩ exGmods).mods, f.fixed = true →
      Glb.FixedOwn ((Glb.AState.mk a ⟨0, 0⟩ exGmods).alloc.cells.map Glb.ofCell) f) ∧
    (∀ f ∈ (Glb.AState.mk a ⟨0, 0⟩ exGmods).mods, f.fixed = true →
      (Die.dieRect exInp.W exInp.H).xmin ≤ f.cx ∧ f.cx ≤ (Die.dieRect exInp.W exInp.H).xmax ∧
      (Die.dieRect exInp.W exInp.H).ymin ≤ f.cy ∧ f.cy ≤ (Die.dieRect exInp.W exInp.H).ymax) := by
  obtain ⟨out, h1, h2⟩ := initial_allocation_is_glb_start (⟨0, 0, exSqrt⟩ : Alloc.Env ℚ) (⟨0, 0⟩ : Alloc.Eps ℚ)
    (le_refl _) (le_refl _) exSqrt none exDoc exInp exMods (by with_unfolding_all rfl)
    (by decide +kernel) (by decide +kernel) ex_validDie exPicks ex_picks_accepted ex_netOK ex_fixed_have_rects
    (by decide +kernel)
  have hret := ex_inner_call_returns
  rw [h1] at hret
  simp only at hret
  cases hA : createInitialAllocation exSqrt 0 false exMods (refinableOf out) out.fixed with
  | error e => rw [hA] at hret; simp at hret
  | ok A =>
    obtain ⟨a, _, ha2, ha3⟩ := h2 A hA
    obtain ⟨g1, g2, g3, g4⟩ := ha3 exGmods ex_glbModsOf
    exact ⟨out, A, a, h1, hA, ha2, g1, g2, g3, g4⟩

/-- the second entry point on the same cells given as unflagged descriptors with depths 2, 1, 3: the fixed module's
    cell is flagged and gets depth 0, the others keep their depth. -/
example :
    (match allocationThenInitial exSqrt 0 false exMods
        [({ cx := 1, cy := 1, w := 2, h := 2 }, 2), ({ cx := 2, cy := 3, w := 4, h := 2 }, 1),
         ({ cx := 3, cy := 1, w := 2, h := 2 }, 3)] with
     | .ok A => A.cells.map (fun c => (c.rect.fixed, c.alloc, c.depth)) ==
         [(true, [("F", 1)], 0), (false, [("S", 1/4)], 2), (false, [("S", 1/4), ("q", 1/2)], 1)]
     | .error _ => false) = true := by decide +kernel

/-- the module names of the example are identifiers (side condition of `initial_allocation_is_glb_start`). -/
example : ∀ m ∈ exMods, Alloc.validIdent m.name = true := by decide +kernel

end example_

end FV.C03

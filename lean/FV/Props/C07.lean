import FV.Model.Sat
namespace FV.C07
open FV.PB FV.Sat
theorem stub : (1 : Nat) = 1 := rfl
end FV.C07

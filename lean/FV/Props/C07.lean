import FV.Proofs.Wrap
import FV.Proofs.Names
/-
  C07 — SAT layer: every posted constraint is encoded exactly.

  Models: `FV/Model/Sat.lean` (`SATManager`), `FV/Model/Bdd.lean` (`getrobdd` / `constructrobdd`, process-wide store
  threaded explicitly), `FV/Model/PB.lean` (`Ineq`, `isclause` repaired by fixes/C07_isclause_strict_zero.diff).
  Vocabulary (`FV/Proofs/*.lean`):
    `cnfTrue τ cs`         assignment `τ : Var → Bool` satisfies the clause list `cs`
    `amo τ lst`            at most one literal of `lst` is true
    `isUser v`             `v` is a user variable (not `robdd_<n>` / `aux_<n>`)
    `WFStore S`, `S.le S'` the store invariant / `S'` is `S` with nodes appended
    `evalNodeD S σ id`     the Boolean function of ROBDD node `id`
    `Post`, `Post.holds`, `Post.WF`, `Mgr.post`   a posted constraint, its meaning, well-formedness (user variables;
                           inequalities as built by the `Expr` algebra, cf. C16 `normal_form`), the posting method
    `Run m S ps m' S'`     a history of one manager: `ps` are the accepted constraints, `newvar` registers variable
                           names at any point, other managers may grow the shared store in between, refused
                           constraints leave no trace.  NB posting registers nothing (as in the Python, where every
                           literal comes from `newvar`): `solve()` raises `KeyError` on a literal never registered,
                           so the histories to which `solve_sound` applies are those with `newvar` steps —
                           see the scenario at the end of the file (`Scenario.*`) for a concrete one.
    `SolverOK cnf ans`     the assumption on the SAT solver's answer
-/
namespace FV.C07
open FV.PB FV.Sat

/-! ### at-most-one groups and implications -/

/-- `quadraticencoding(lst)` appends exactly the pairwise clauses, and they hold iff at most one literal is true -/
theorem quadratic_exact (m : Mgr) (lst : List Lit) (τ : Var → Bool) :
    (m.quadratic lst).clauses = m.clauses ++ quadClauses lst ∧ (cnfTrue τ (quadClauses lst) ↔ amo τ lst) :=
  ⟨rfl, quadClauses_exact τ lst⟩

/-- `heuleencoding(lst, k)` for every chain width `k ≥ 3` and every list whose literals are not auxiliaries still to
    be created (for every length: the repaired method, fixes/C07_heule_recursion.diff, is a loop; the recursive
    original raised `RecursionError` beyond ~990 literals after posting part of the chain): it succeeds, appends clauses `ext`, and an assignment `τ0` extends — by choosing the auxiliaries
    created in this call — to a model of `ext` iff at most one literal of `lst` is true under `τ0`. -/
theorem heule_exact (m : Mgr) (lst : List Lit) (k : Int) (hk : 3 ≤ k) (hfresh : auxOK m.auxcount lst) :
    ∃ m' ext, m.heule lst k = .ok m' ∧ m'.clauses = m.clauses ++ ext ∧ m.auxcount ≤ m'.auxcount ∧
      ∀ τ0 : Var → Bool,
        (∃ τ, (∀ v, ¬ newAux m.auxcount m'.auxcount v → τ v = τ0 v) ∧ cnfTrue τ ext) ↔ amo τ0 lst := by
  have hk' : ¬ k < 3 := by omega
  have step := heuleGo_step k.toNat (by omega) lst.length lst m rfl hfresh
  obtain ⟨ext, hext, _, hsound, hcompl⟩ := step.clauses
  refine ⟨_, ext, by simp [Mgr.heule, hk'], hext, step.aux_le, fun τ0 => ⟨?_, hcompl τ0⟩⟩
  rintro ⟨τ, hag, hτ⟩
  have := hsound τ hτ
  simp only [amo] at this ⊢
  rw [← countP_litTrue_congr (τ := τ) (τ' := τ0)]
  · exact this
  · intro l hl
    apply hag
    rintro ⟨a, ha, hlo, _⟩
    have := hfresh l hl a ha
    omega

/-- a chain width below 3 is refused (and, `Mgr.heule` being a function of the old state, changes nothing) -/
theorem heule_refused (m : Mgr) (lst : List Lit) (k : Int) (hk : k < 3) : m.heule lst k = .error .exception := by
  simp [Mgr.heule, hk]

/-- `imply(list1, l2)` appends one clause, true iff (all of `list1` true → `l2` true) -/
theorem imply_exact (m : Mgr) (l1 : List Lit) (l2 : Lit) (τ : Var → Bool) :
    (m.imply l1 l2).clauses = m.clauses ++ [l1.map Literal.neg ++ [l2]] ∧
    (clauseTrue τ (l1.map Literal.neg ++ [l2]) = true ↔ ((∀ l ∈ l1, litTrue τ l = true) → litTrue τ l2 = true)) :=
  ⟨rfl, imply_clause_exact τ l1 l2⟩

/-! ### the process-wide store -/

theorem store_init_wf : WFStore (Store.init : Store Var) := wf_init

/-- `getrobdd` (either construction, any earlier store contents) keeps the store invariant and only appends -/
theorem store_getRobdd_wf (q : Ineq Var) (dec : Bool) (S : Store Var) (hw : WFStore S) (hpos : ∀ t ∈ q.lhs.t, 0 < t.c)
    {id : Nat} {S' : Store Var} (h : q.getRobdd dec S = .ok (id, S')) : WFStore S' ∧ S.le S' ∧ id < S'.size := by
  by_cases hop : q.op = .ge
  · obtain ⟨id', S'', hg, w, le, s, _⟩ := getRobdd_spec q dec S hw hpos hop
    rw [hg] at h; simp at h; obtain ⟨rfl, rfl⟩ := h
    exact ⟨w, le, s⟩
  · rw [getRobdd_refused q dec S hop] at h; simp at h

/-- over every history of `getrobdd` calls (all managers of the process, any order, both constructions) starting
    from the initial store: the invariant holds at the end and nothing that existed was removed or renumbered -/
theorem store_history_wf (h : List (Ineq Var × Bool)) (hpos : ∀ qd ∈ h, ∀ t ∈ qd.1.lhs.t, 0 < t.c) :
    WFStore (storeRun h Store.init) ∧ (Store.init : Store Var).le (storeRun h Store.init) :=
  storeRun_wf h Store.init wf_init hpos

/-- the invariant implies canonicity: no triple is stored under two ids -/
theorem store_no_duplicates {S : Store Var} (hw : WFStore S) {a b : Nat} {v : Var} {i e : Nat} (ha : 2 ≤ a) (hb : 2 ≤ b)
    (h1 : S.memory[a]? = some (.node v i e)) (h2 : S.memory[b]? = some (.node v i e)) : a = b :=
  hw.no_dup ha hb h1 h2

/-- appending nodes never changes what an existing node means -/
theorem store_append_preserves_meaning {S S' : Store Var} (hw : WFStore S) (hle : S.le S') (σ : Var → Bool) {id : Nat}
    (hid : id < S.size) : evalNodeD S' σ id = evalNodeD S σ id := evalNodeD_le hw hle σ hid

/-- `getrobdd`, both constructions, whatever the store already holds: on a `>=` inequality with positive
    coefficients it succeeds and the node it returns is true exactly under the assignments with `Σ cᵢ·litᵢ ≥ rhs` -/
theorem getRobdd_sem (q : Ineq Var) (dec : Bool) (S : Store Var) (hw : WFStore S) (hpos : ∀ t ∈ q.lhs.t, 0 < t.c)
    (hop : q.op = .ge) :
    ∃ id S', q.getRobdd dec S = .ok (id, S') ∧ ∀ σ, evalNodeD S' σ id = decide (termsVal σ q.lhs.t ≥ q.rhs) := by
  obtain ⟨id, S', hg, _, _, _, sem⟩ := getRobdd_spec q dec S hw hpos hop
  exact ⟨id, S', hg, sem⟩

/-! ### Tseitin encoding of a diagram -/

/-- one-directional Tseitin encoding is exact for the positively asserted root -/
theorem codify_exact {S : Store Var} (hw : WFStore S) {root : Nat} (hr : root < S.size) (hv : VarsOK S isUser root) :
    ∃ m2, Mgr.codify S (root + 1) root {} = .ok m2 ∧
      ∀ σ : Var → Bool, (∃ τ, (∀ v, isUser v → τ v = σ v) ∧ cnfTrue τ (m2.clauses ++ [[⟨.node root, true⟩]]))
        ↔ evalNodeD S σ root = true :=
  codify_exact_fresh hw hr hv

/-! ### `isclause` -/

/-- (repaired code) when `isclause` produces a clause it is equivalent to the inequality; when it answers
    "tautology" the inequality holds under every assignment -/
theorem isClause_exact (q : Ineq Var) (hpos : ∀ t ∈ q.lhs.t, 0 < t.c) (hc : q.lhs.c = 0) (τ : Var → Bool) :
    (q.isClause = .taut → q.holds τ) ∧ (∀ c, q.isClause = .clause c → (clauseTrue τ c = true ↔ q.holds τ)) :=
  isClause_exact' q hpos hc τ

/-! ### pseudo-Boolean inequalities: encoded exactly or refused -/

/-- `>=` (hence, after normalisation, `<=`) inequalities are never refused.
    SIZE BOUND of the Python: `getrobdd` / `constructrobdd` / `_codifyrobdd` recurse once per level of the diagram; an
    inequality with more distinct variables than the interpreter's recursion limit allows (about 990 by default) is
    refused with `RecursionError` inside `getrobdd`, before anything is posted (asserted by the harness's `large`
    case).  The model has no such limit; this theorem and `getRobdd_sem` describe the code below that size. -/
theorem encoding_ge_accepted {S : Store Var} {m : Mgr} {ps : List Post} (h : MInv S m ps) (q : Ineq Var) (dec : Bool)
    (hq : (Post.pb q dec).WF) (hop : q.op = .ge) : ∃ m' S', m.pseudoBool S q dec = .ok (m', S') := by
  unfold Mgr.pseudoBool
  split
  · exact ⟨_, _, rfl⟩
  · exact ⟨_, _, rfl⟩
  · obtain ⟨id, S', hg, w, _, hs, _⟩ := getRobdd_spec q dec S h.wf hq.1.1 hop
    obtain ⟨m2, r, _⟩ := codify_spec w (id + 1) id m hs (by omega)
    rw [hg]
    simp only [r, bind, Except.bind, pure, Except.pure]
    exact ⟨_, _, rfl⟩

/-- Every well-formed inequality handed to `pseudoboolencoding` (either construction) is either refused — always
    with `Exception("Not implemented yet.")`, only when it is neither a clause nor a tautology and its normalised
    operator is not `>=`; manager and store unchanged since `Mgr.pseudoBool` returns the new state only on success — or
    encoded exactly: the manager then encodes exactly the old constraints plus this one.  In particular the
    model-only `fuel` error never occurs: the recursion bounds of `getRobdd` / `codify` are always sufficient. -/
theorem encoding_exact_or_refused {S : Store Var} {m : Mgr} {ps : List Post} (h : MInv S m ps) (q : Ineq Var)
    (dec : Bool) (hq : (Post.pb q dec).WF) :
    (m.pseudoBool S q dec = .error .exception ∧ q.op ≠ .ge ∧ q.isClause = .no) ∨
    (∃ m' S', m.pseudoBool S q dec = .ok (m', S') ∧ MInv S' m' (ps ++ [.pb q dec])) := by
  cases hr : m.pseudoBool S q dec with
  | ok r => obtain ⟨m', S'⟩ := r; exact Or.inr ⟨m', S', rfl, minv_post h (.pb q dec) hq hr⟩
  | error e =>
    left
    have hop : q.op ≠ .ge := by
      intro hop
      obtain ⟨m', S', hok⟩ := encoding_ge_accepted h q dec hq hop
      rw [hok] at hr; simp at hr
    unfold Mgr.pseudoBool at hr
    split at hr
    · simp at hr
    · simp at hr
    · rename_i hno
      rw [getRobdd_refused q dec S hop] at hr
      simp at hr
      exact ⟨by rw [← hr], hop, hno⟩

/-- no posting method ever fails with the model-only `fuel` error (nor with `KeyError` / `IndexError`): a refusal is
    always the Python `Exception` -/
theorem refused_is_exception {S : Store Var} {m : Mgr} {ps : List Post} (h : MInv S m ps) (p : Post) (hp : p.WF)
    {e : Sat.Err} (hr : m.post S p = .error e) : e = .exception := by
  cases p with
  | clause c => simp [Mgr.post] at hr
  | imply l1 l2 => simp [Mgr.post] at hr
  | amoQ lst => simp [Mgr.post] at hr
  | amoH k lst =>
    simp only [Mgr.post, Mgr.heule] at hr
    split at hr
    · simp at hr
    · rename_i e' he
      split at he
      · simp at he hr; rw [← hr, ← he]
      · simp at he
  | pb q dec =>
    rcases encoding_exact_or_refused h q dec hp with ⟨he, _, _⟩ | ⟨m', S', hok, _⟩
    · simp only [Mgr.post] at hr; rw [he] at hr; simp at hr; exact hr.symm
    · simp only [Mgr.post] at hr; rw [hok] at hr; simp at hr

/-- what can be refused at all: a chain width below 3, or an inequality that is neither a clause nor a tautology and
    whose normalised operator is not `>=` (i.e. `>`, `<`, `=`, `==`) -/
theorem refused_only {S : Store Var} {m : Mgr} {ps : List Post} (h : MInv S m ps) (p : Post) (hp : p.WF) {e : Sat.Err}
    (hr : m.post S p = .error e) :
    (∃ k lst, p = .amoH k lst ∧ k < 3) ∨ (∃ q dec, p = .pb q dec ∧ q.op ≠ .ge ∧ q.isClause = .no) := by
  cases p with
  | clause c => simp [Mgr.post] at hr
  | imply l1 l2 => simp [Mgr.post] at hr
  | amoQ lst => simp [Mgr.post] at hr
  | amoH k lst =>
    refine Or.inl ⟨k, lst, rfl, ?_⟩
    apply Classical.byContradiction
    intro hk
    simp [Mgr.post, Mgr.heule, hk] at hr
  | pb q dec =>
    refine Or.inr ⟨q, dec, rfl, ?_, ?_⟩
    · intro hop
      obtain ⟨m', S', hok⟩ := encoding_ge_accepted h q dec hp hop
      simp [Mgr.post, hok] at hr
    · simp only [Mgr.post, Mgr.pseudoBool] at hr
      split at hr
      · simp at hr
      · simp at hr
      · assumption

/-! ### whole histories -/

/-- the empty manager over any well-formed store encodes the empty list of constraints -/
theorem history_start {S : Store Var} (hw : WFStore S) : MInv S {} [] := minv_init hw

/-- so does a manager that has only registered variables so far (what `rect.py` does first: `sm.newvar(...)`) -/
theorem history_start_registered {S : Store Var} (hw : WFStore S) (m0 : Mgr) (hc : m0.clauses = [])
    (hd : m0.codified = []) : MInv S m0 [] := minv_registered hw m0 hc hd

/-- Any posting sequence from a manager that has registered any variables but posted nothing — clauses,
    implications, pairwise and chained at-most-one groups, pseudo-Boolean inequalities under either construction,
    further `newvar` calls and refused constraints in between, other managers growing the shared store at any point:
    an assignment `σ` of the user variables extends to a model of the accumulated CNF iff `σ` satisfies every
    accepted constraint. -/
theorem post_history_exact_from {S0 : Store Var} (hw : WFStore S0) (m0 : Mgr) (hc : m0.clauses = [])
    (hd : m0.codified = []) {ps : List Post} {m' : Mgr} {S' : Store Var}
    (r : Run m0 S0 ps m' S') (hps : ∀ p ∈ ps, p.WF) (σ : Var → Bool) :
    (∃ τ, (∀ v, isUser v → τ v = σ v) ∧ cnfTrue τ m'.clauses) ↔ ∀ p ∈ ps, p.holds σ := by
  have inv : MInv S' m' ps := by simpa using minv_run r [] (minv_registered hw m0 hc hd) hps
  constructor
  · rintro ⟨τ, hag, hτ⟩ p hp
    exact (holds_congr (hps p hp) hag).1 (inv.sound τ hτ p hp)
  · intro hσ
    obtain ⟨τ, h1, _, h3⟩ := inv.complete σ hσ
    exact ⟨τ, h1, h3⟩

/-- the same from the empty manager (`SATManager()`); `Run` contains the `newvar` calls -/
theorem post_history_exact {S0 : Store Var} (hw : WFStore S0) {ps : List Post} {m' : Mgr} {S' : Store Var}
    (r : Run {} S0 ps m' S') (hps : ∀ p ∈ ps, p.WF) (σ : Var → Bool) :
    (∃ τ, (∀ v, isUser v → τ v = σ v) ∧ cnfTrue τ m'.clauses) ↔ ∀ p ∈ ps, p.holds σ :=
  post_history_exact_from hw {} rfl rfl r hps σ

/-- what the `grow` steps of `Run` stand for: an accepted posting by any other manager, in whatever state, keeps the
    shared store well formed and only appends to it -/
theorem post_grows_store {m m' : Mgr} {S S' : Store Var} {p : Post} (hw : WFStore S) (hp : p.WF)
    (h : m.post S p = .ok (m', S')) : WFStore S' ∧ S.le S' := post_store hw hp h

/-- the same for a manager in the middle of its life: the invariant `MInv` is preserved by every accepted posting -/
theorem post_step_exact {S S' : Store Var} {m m' : Mgr} {ps : List Post} (h : MInv S m ps) (p : Post) (hp : p.WF)
    (hpost : m.post S p = .ok (m', S')) : MInv S' m' (ps ++ [p]) := minv_post h p hp hpost

/-! ### solving -/

/-- Assuming the SAT solver is correct (`SolverOK`): after any history of a manager that started by registering
    variables (duplicate-free table, nothing posted), with every literal that reached a clause registered
    (`m.cnf = .ok cnf`; otherwise `solve()` raises, `solve_unregistered`): `solve()` reports satisfiable iff some
    assignment satisfies every accepted constraint, and then the values exposed by `value` are those of an assignment
    `τ` that satisfies every accepted constraint (for every registered variable and both polarities). -/
theorem solve_sound_from {S0 : Store Var} (hw : WFStore S0) (m0 : Mgr) (hc : m0.clauses = []) (hd : m0.codified = [])
    (hnd0 : m0.vars.Nodup) {ps : List Post} {m : Mgr} {S : Store Var}
    (r : Run m0 S0 ps m S) (hps : ∀ p ∈ ps, p.WF) {cnf : List (List Int)} (hcnf : m.cnf = .ok cnf)
    {ans : Option (List Int)} (hsolver : SolverOK cnf ans) {b : Bool} {m' : Mgr} (hs : m.solve ans = .ok (b, m')) :
    (b = true ↔ ∃ σ, ∀ p ∈ ps, p.holds σ) ∧
    (b = true → ∃ τ, (∀ p ∈ ps, p.holds τ) ∧ ∀ v ∈ m.vars, ∀ s, m'.value ⟨v, s⟩ = some (litVal τ ⟨v, s⟩)) := by
  have inv : MInv S m ps := by simpa using minv_run r [] (minv_registered hw m0 hc hd) hps
  have hnd : m.vars.Nodup := run_nodup r hnd0
  obtain ⟨h1, h2⟩ := solve_spec hnd hcnf hsolver hs
  constructor
  · rw [h1]
    constructor
    · rintro ⟨τ, hτ⟩; exact ⟨τ, inv.sound τ hτ⟩
    · rintro ⟨σ, hσ⟩
      obtain ⟨τ, _, _, h3⟩ := inv.complete σ hσ
      exact ⟨τ, h3⟩
  · intro hb
    obtain ⟨τ, hτ, hval⟩ := h2 hb
    exact ⟨τ, inv.sound τ hτ, hval⟩

/-- the same from the empty manager; the `newvar` calls are steps of `Run`, and so are earlier calls of `solve()`:
    the statement covers every `solve()` of the manager's life, not only the first (`Scenario.run2`) -/
theorem solve_sound {S0 : Store Var} (hw : WFStore S0) {ps : List Post} {m : Mgr} {S : Store Var}
    (r : Run {} S0 ps m S) (hps : ∀ p ∈ ps, p.WF) {cnf : List (List Int)} (hcnf : m.cnf = .ok cnf)
    {ans : Option (List Int)} (hsolver : SolverOK cnf ans) {b : Bool} {m' : Mgr} (hs : m.solve ans = .ok (b, m')) :
    (b = true ↔ ∃ σ, ∀ p ∈ ps, p.holds σ) ∧
    (b = true → ∃ τ, (∀ p ∈ ps, p.holds τ) ∧ ∀ v ∈ m.vars, ∀ s, m'.value ⟨v, s⟩ = some (litVal τ ⟨v, s⟩)) :=
  solve_sound_from hw {} rfl rfl (by simp) r hps hcnf hsolver hs

/-- a solver literal whose variable number is beyond the manager's table makes `solve()` raise (`IndexError`), it is
    not silently ignored -/
theorem solve_out_of_range {m : Mgr} {mod : List Int} {w : Int} (hw : w ∈ mod) (hbig : m.vars.length < w.natAbs) :
    ∃ e, m.solve (some mod) = .error e := by
  unfold Mgr.solve
  cases hc : m.cnf with
  | error e => exact ⟨e, rfl⟩
  | ok cnf =>
    cases hf : fillArr (List.replicate (m.vars.length + 1) 0) mod with
    | none => exact ⟨.indexError, by simp only [hf]⟩
    | some arr =>
      have := fillArr_in_range _ _ _ hf w hw
      simp at this
      omega

/-- `solve()` does not raise once every variable occurring in a clause is registered -/
theorem cnf_ok_of_registered (m : Mgr) (h : ∀ c ∈ m.clauses, ∀ x ∈ c, x.v ∈ m.vars) : ∃ cnf, m.cnf = .ok cnf := by
  have lit : ∀ c : Clause, (∀ x ∈ c, x.v ∈ m.vars) → ∃ c', c.mapM m.litInt = .ok c' := by
    intro c
    induction c with
    | nil => intro _; exact ⟨[], rfl⟩
    | cons x r ih =>
      intro hc
      obtain ⟨i, hi⟩ := lookupIdx_mem (k := 1) (hc x (by simp))
      obtain ⟨r', hr'⟩ := ih (fun y hy => hc y (by simp [hy]))
      refine ⟨(if x.s = false then -(i : Int) else (i : Int)) :: r', ?_⟩
      rw [List.mapM_cons]
      simp [Mgr.litInt, Mgr.index, hi, hr', bind, Except.bind, pure, Except.pure]
  have all : ∀ cs : List Clause, (∀ c ∈ cs, ∀ x ∈ c, x.v ∈ m.vars) →
      ∃ cnf, cs.mapM (fun c => c.mapM m.litInt) = .ok cnf := by
    intro cs
    induction cs with
    | nil => intro _; exact ⟨[], rfl⟩
    | cons c r ih =>
      intro hcs
      obtain ⟨c', hc'⟩ := lit c (hcs c (by simp))
      obtain ⟨r', hr'⟩ := ih (fun d hd => hcs d (by simp [hd]))
      refine ⟨c' :: r', ?_⟩
      rw [List.mapM_cons]
      simp [hc', hr', bind, Except.bind, pure, Except.pure]
  exact all m.clauses h

/-- `evalexpr` on the exposed model is the value of the expression under that model -/
theorem evalExpr_value (m : Mgr) (τ : Var → Bool) (e : Expr Var)
    (hval : ∀ t ∈ e.t, m.value t.L = some (litVal τ t.L)) : m.evalExpr e = some (e.eval τ) :=
  evalExpr_spec m τ e hval

/-- `solve_sound` and `evalExpr_value` joined: after a satisfiable `solve()`, `evalexpr` of any expression over
    registered variables returns its value under the satisfying assignment that `value` exposes -/
theorem solve_sound_evalExpr {S0 : Store Var} (hw : WFStore S0) {ps : List Post} {m : Mgr} {S : Store Var}
    (r : Run {} S0 ps m S) (hps : ∀ p ∈ ps, p.WF) {cnf : List (List Int)} (hcnf : m.cnf = .ok cnf)
    {ans : Option (List Int)} (hsolver : SolverOK cnf ans) {m' : Mgr} (hs : m.solve ans = .ok (true, m')) :
    ∃ τ, (∀ p ∈ ps, p.holds τ) ∧ ∀ e : Expr Var, (∀ t ∈ e.t, t.L.v ∈ m.vars) → m'.evalExpr e = some (e.eval τ) := by
  obtain ⟨τ, hτ, hval⟩ := (solve_sound hw r hps hcnf hsolver hs).2 rfl
  exact ⟨τ, hτ, fun e he => evalExpr_spec m' τ e (fun t ht => hval t.L.v (he t ht) t.L.s)⟩

/-- **The property's last sentence, on the values the public methods return.**  After any history of a manager
    (`Run` from `SATManager()`), with every literal of every accepted constraint registered through `newvar` (`hreg`; as
    every literal `rect.py` uses is) and a correct solver: if `solve()` returns `True`, then EVERY accepted constraint
    holds as read off the exposed model — each clause has a literal with `value() == 1`, each implication with all
    premises at `value() == 1` has its conclusion at 1, each at-most-one group has at most one literal at 1, and for each
    inequality `evalexpr(lhs)` returns an integer standing in the posted relation to the bound — and `value()` is total and
    consistent on the registered variables (`value(¬x) = 1 − value(x)`, both in `{0, 1}`). -/
theorem solve_exposed_model_satisfies {S0 : Store Var} (hw : WFStore S0) {ps : List Post} {m : Mgr} {S : Store Var}
    (r : Run {} S0 ps m S) (hps : ∀ p ∈ ps, p.WF) (hreg : ∀ p ∈ ps, ∀ l ∈ p.lits, l.v ∈ m.vars)
    {cnf : List (List Int)} (hcnf : m.cnf = .ok cnf) {ans : Option (List Int)} (hsolver : SolverOK cnf ans)
    {m' : Mgr} (hs : m.solve ans = .ok (true, m')) :
    (∀ p ∈ ps, p.holdsExposed m') ∧
    (∀ v ∈ m.vars, ∃ x : Int, (x = 0 ∨ x = 1) ∧ m'.value ⟨v, true⟩ = some x ∧ m'.value ⟨v, false⟩ = some (1 - x)) := by
  obtain ⟨τ, hτ, hval⟩ := (solve_sound hw r hps hcnf hsolver hs).2 rfl
  refine ⟨fun p hp => holdsExposed_of_holds (fun l hl => ?_) (hτ p hp), fun v hv => ?_⟩
  · have := hval l.v (hreg p hp l hl) l.s
    cases l; exact this
  · refine ⟨litVal τ ⟨v, true⟩, litVal_cases τ _, hval v hv true, ?_⟩
    rw [hval v hv false]
    have := litVal_flip τ v true
    simpa using this

/-- the converse reading: whatever assignment the exposed values come from, a constraint read off `value()` /
    `evalexpr()` as satisfied IS satisfied by it (so a harness that evaluates the posted constraints on the exposed values —
    as `harness/props/c07.py` does after every `solve()` — tests exactly `Post.holds`) -/
theorem exposed_reading_exact {m : Mgr} {τ : Var → Bool} {p : Post}
    (hval : ∀ l ∈ p.lits, m.value l = some (litVal τ l)) : p.holdsExposed m ↔ p.holds τ :=
  ⟨holds_of_holdsExposed hval, holdsExposed_of_holds hval⟩

/-! ### sessions on a store that is never reset -/

/-- **Regardless of what was encoded earlier in the process.**  Managers created one after the other (`Session`: each
    starts empty on the store all its predecessors — and the managers interleaved with them — left behind; the store
    is never reset): the store stays well formed and append-only through the whole session, and EVERY manager of the
    session encodes exactly its own accepted constraints: an assignment of the user variables extends to a model of its CNF
    iff it satisfies all of them. -/
theorem session_exact {S0 S' : Store Var} (hw : WFStore S0) {hs : List (List Post × Mgr)} (s : Session S0 hs S') :
    (WFStore S' ∧ S0.le S') ∧
    ∀ pm ∈ hs, ∀ σ : Var → Bool,
      (∃ τ, (∀ v, isUser v → τ v = σ v) ∧ cnfTrue τ pm.2.clauses) ↔ ∀ p ∈ pm.1, p.holds σ := by
  refine ⟨session_store s hw, fun pm hpm σ => ?_⟩
  have hwf : ∀ p ∈ pm.1, p.WF := by
    clear σ
    induction s with
    | nil => simp at hpm
    | cons r hps _ ih =>
      rcases List.mem_cons.1 hpm with rfl | h
      · exact hps
      · exact ih (run_store r hw hps).1 h
  obtain ⟨S, inv⟩ := session_minv s hw pm hpm
  constructor
  · rintro ⟨τ, hag, hτ⟩ p hp
    exact (holds_congr (hwf p hp) hag).1 (inv.sound τ hτ p hp)
  · intro hσ
    obtain ⟨τ, h1, _, h3⟩ := inv.complete σ hσ
    exact ⟨τ, h1, h3⟩

/-- in particular from the initial store of a fresh process -/
theorem session_exact_fresh {S' : Store Var} {hs : List (List Post × Mgr)} (s : Session Store.init hs S') :
    ∀ pm ∈ hs, ∀ σ : Var → Bool,
      (∃ τ, (∀ v, isUser v → τ v = σ v) ∧ cnfTrue τ pm.2.clauses) ↔ ∀ p ∈ pm.1, p.holds σ :=
  (session_exact store_init_wf s).2

/-- a literal that was never registered through `newvar` makes `solve()` raise (`KeyError`) rather than be ignored -/
theorem solve_unregistered {m : Mgr} {c : Clause} {x : Lit} (hc : c ∈ m.clauses) (hx : x ∈ c) (hv : x.v ∉ m.vars)
    (ans : Option (List Int)) : ∃ e, m.solve ans = .error e := by
  cases hcnf : m.cnf with
  | error e => exact ⟨e, by simp [Mgr.solve, hcnf]⟩
  | ok cnf =>
    exfalso
    obtain ⟨c', _, hcc⟩ := forall2_mem_left (cnf_spec hcnf) c hc
    obtain ⟨y, _, hy⟩ := forall2_mem_left hcc x hx
    obtain ⟨i, hi, _⟩ := litInt_spec hy
    simp [Mgr.index, lookupIdx_none hv] at hi

/-- inequalities built by `Ineq.__init__` from normal-form expressions over user variables (C16) are well-formed
    postings, so all of the above applies to them -/
theorem built_ineq_wf {a b : Expr Var} (o : CmpOp) (dec : Bool) (ha : a.NF) (hb : b.NF)
    (hau : ∀ y ∈ a.t, isUser y.L.v) (hbu : ∀ y ∈ b.t, isUser y.L.v) : (Post.pb (Ineq.make a b o) dec).WF :=
  make_wf o dec ha hb hau hbu

/-! ### variable names (`newvar(name, pre)`: `vname = pre + str(name)`) -/

/-- every variable made by `newvar` with the DEFAULT prefix `def_` is a user variable of the model — whatever the name
    is (a `str`, or `str()` of an `int` / `float`), it can never collide with a `robdd_<n>` / `aux_<n>` variable the manager
    creates itself; the call registers it (once) and returns the positive literal -/
theorem newvar_default_prefix_user (m : Mgr) (name : List Char) :
    isUser (m.newvarPy name).1.v ∧ (m.newvarPy name).1.s = true ∧
    (m.newvarPy name).2 = m.newvar (m.newvarPy name).1.v ∧ (m.newvarPy name).1.v ∈ (m.newvarPy name).2.vars := by
  have h : (m.newvarPy name).1.v = .user (String.ofList (defPre ++ name)) := classify_def name
  refine ⟨by rw [h]; trivial, rfl, rfl, ?_⟩
  show classify (defPre ++ name) ∈ (m.newvar (classify (defPre ++ name))).vars
  unfold Mgr.newvar
  split <;> simp_all

/-- so is every variable made with the empty prefix from a name that does not start with `r` or `a` — the names of
    `tools/rect/rect.py` all start with `b` (C08 `names_ok`) -/
theorem newvar_plain_name_user (m : Mgr) (c : Char) (cs : List Char) (hr : c ≠ 'r') (ha : c ≠ 'a') :
    isUser (m.newvarPy (c :: cs) []).1.v := by
  show isUser (classify ([] ++ c :: cs))
  rw [List.nil_append, classify_other c cs hr ha]; trivial

/-- what `_codifyrobdd` / `newaux` register: `newvar(robdd_id, "robdd_")` is the model's `Var.node robdd_id` and
    `newvar(str(auxcount), "aux_")` is `Var.aux auxcount` -/
theorem newvar_reserved_names (m : Mgr) (n : Nat) :
    (m.newvarInt n robddPre).1 = ⟨.node n, true⟩ ∧ (m.newvarInt n auxPre).1 = ⟨.aux n, true⟩ ∧
    (m.newvarInt n auxPre).2 = m.newvar (.aux n) := by
  simp [Mgr.newvarInt, Mgr.newvarPy, classify_node, classify_aux]

/-- the model's variables and Python's name strings correspond one to one, in both directions: reading a string as a
    variable and printing it gives the string back (`(classify cs).chars = cs`, white space included — `" x"`, `"x "` and
    `"x"` are three variables, `"robdd_7 "` is no node); reading back the name of a variable gives the variable, hence distinct
    variables have distinct names; and what `classify` reads is always a proper variable -/
theorem names_faithful :
    (∀ cs : List Char, (classify cs).chars = cs) ∧
    (∀ v : Var, v.Canon → classify v.chars = v) ∧
    (∀ v w : Var, v.Canon → w.Canon → v.chars = w.chars → v = w) ∧
    (∀ cs : List Char, (classify cs).Canon) :=
  ⟨chars_classify, classify_chars, fun _ _ hv hw h => chars_injective hv hw h, classify_canon⟩

/-- hence two `newvar` calls register the same variable iff they form the same string `pre + str(name)` -/
theorem newvar_same_iff_same_string (cs ds : List Char) : classify cs = classify ds ↔ cs = ds :=
  ⟨fun h => by rw [← chars_classify cs, ← chars_classify ds, h], fun h => by rw [h]⟩

/-! ### non-vacuity -/
section Examples
def x : Lit := ⟨.user "def_x", true⟩
def y : Lit := ⟨.user "def_y", true⟩
def z : Lit := ⟨.user "def_z", true⟩
/-- `2x + 3y + 2¬z ≥ 4`, built through the algebra -/
def q1 : Ineq Var :=
  Ineq.make ((((⟨0, []⟩ : Expr Var).add (.term ⟨x, 2⟩)).add (.term ⟨y, 3⟩)).add (.term ⟨z.neg, 2⟩)) ⟨4, []⟩ .ge

/-- it is not a clause, goes through the ROBDD (4 nodes) and the Tseitin encoding: 11 clauses -/
example : (match (({} : Mgr).pseudoBool Store.init q1 false) with
    | .ok (m, S) => (m.clauses.length, S.memory.length)
    | .error _ => (0, 0)) = (11, 6) := by decide

/-- the repaired `isclause`: `x + y > 0` is the clause `y ∨ x`, not a tautology -/
example : (Ineq.make (((⟨0, []⟩ : Expr Var).add (.lit x)).add (.lit y)) ⟨0, []⟩ .gt).isClause matches .clause [_, _] := by
  decide

/-- a five-literal group with chain width 3 creates two auxiliaries and nine clauses -/
example : (match ({} : Mgr).heule [x, y, z, x.neg, y.neg] 3 with
    | .ok m => (m.auxcount, m.clauses.length) | .error _ => (0, 0)) = (2, 9) := by decide +kernel

/-- `x + y = 1` is refused -/
example : (({} : Mgr).pseudoBool Store.init
    (Ineq.make (((⟨0, []⟩ : Expr Var).add (.lit x)).add (.lit y)) ⟨1, []⟩ .eq) false) matches .error .exception := by
  decide
/-- `newvar("x")` is the user variable `def_x`; `newvar(17, "robdd_")` is node 17; a name that merely looks reserved
    (`robdd_017`, `aux_`) is a user variable, as it is a different string for Python -/
example : (({} : Mgr).newvarPy ['x']).1 = x := by decide
example : varOfName "robdd_17" = .node 17 ∧ varOfName "aux_3" = .aux 3 ∧ varOfName "robdd_017" = .user "robdd_017" ∧
    varOfName "aux_" = .user "aux_" ∧ nameOfVar (.node 120) = "robdd_120" := by decide
end Examples

/-! ### a concrete history satisfying every hypothesis used above
  `SATManager()`; `newvar` for x, y, z, w; `pseudoboolencoding(2x + 3y + 2¬z ≥ 4)` (ROBDD + Tseitin);
  `heuleencoding([x, y, z, w], 3)` (one auxiliary); `solve()` with the model Minisat22 returned for exactly this
  history on the real classes. -/
namespace Scenario
def w : Lit := ⟨.user "def_w", true⟩
def vars : List Var := [.user "def_x", .user "def_y", .user "def_z", .user "def_w"]
def posts : List Post := [.pb q1 false, .amoH 3 [x, y, z, w], .amoH 2 [x, y]]
def m0 : Mgr := registerAll {} vars
def fin : Mgr × Store Var × List Post := execPosts m0 Store.init posts
/-- what `Solver.get_model()` answered -/
def ans : List Int := [-1, 2, -3, -4, 5, 6, 7, 8, -9, -10, -11]

/-- the history is a `Run` from the empty manager -/
theorem run : Run {} Store.init fin.2.2 fin.1 fin.2.1 := run_registerAll vars (run_execPosts posts m0 Store.init)

/-- two constraints are accepted (the last one, chain width 2, is refused), 17 clauses, 6 store nodes, 11 variables -/
example : (fin.2.2.length, fin.1.clauses.length, fin.2.1.memory.length, fin.1.vars.length, fin.1.auxcount)
    = (2, 17, 6, 11, 1) := by decide +kernel

theorem q1_wf (dec : Bool) : (Post.pb q1 dec).WF := by
  refine built_ineq_wf .ge dec ?_ nf_empty ?_ (by simp)
  · exact Expr.nf_add _ (Expr.nf_add _ (Expr.nf_add _ nf_empty))
  · have : ∀ t' ∈ (((((⟨0, []⟩ : Expr Var).add (.term ⟨x, 2⟩)).add (.term ⟨y, 3⟩)).add (.term ⟨z.neg, 2⟩))).t,
        t'.L.v = Var.user "def_x" ∨ t'.L.v = Var.user "def_y" ∨ t'.L.v = Var.user "def_z" := by decide
    intro t ht
    rcases this t ht with h | h | h <;> rw [h] <;> trivial

theorem posts_wf : ∀ p ∈ fin.2.2, p.WF := by
  intro p hp
  have hp' := execPosts_subset posts m0 Store.init p hp
  simp only [posts, List.mem_cons, List.mem_nil_iff, or_false] at hp'
  rcases hp' with rfl | rfl | rfl
  · exact q1_wf false
  · intro l hl
    simp only [List.mem_cons, List.mem_nil_iff, or_false] at hl
    rcases hl with rfl | rfl | rfl | rfl <;> trivial
  · intro l hl
    simp only [List.mem_cons, List.mem_nil_iff, or_false] at hl
    rcases hl with rfl | rfl <;> trivial

/-- decidable check that `ans` is an acceptable solver model for the manager's CNF and within its variable table -/
def checkAns (m : Mgr) (a : List Int) : Bool :=
  (match m.cnf with
    | .ok cnf => decide ((∀ c ∈ cnf, ∃ x ∈ c, x ∈ a) ∧ (∀ x ∈ a, x ≠ 0 ∧ -x ∉ a))
    | .error _ => false) && (fillArr (List.replicate (m.vars.length + 1) 0) a).isSome

theorem solver_check {m : Mgr} {a : List Int} (h : checkAns m a = true) :
    ∃ cnf, m.cnf = .ok cnf ∧ SolverOK cnf (some a) ∧ ∃ m', m.solve (some a) = .ok (true, m') := by
  simp only [checkAns, Bool.and_eq_true] at h
  obtain ⟨h, hfa⟩ := h
  cases hc : m.cnf with
  | error e => rw [hc] at h; simp at h
  | ok cnf =>
    rw [hc] at h
    refine ⟨cnf, rfl, by simpa [SolverOK] using h, ?_⟩
    cases hf : fillArr (List.replicate (m.vars.length + 1) 0) a with
    | none => rw [hf] at hfa; simp at hfa
    | some arr => exact ⟨{ m with model := storeModel arr m.vars 1 m.model }, by simp [Mgr.solve, hc, hf]⟩

/-- every literal of every clause is registered: `solve()` does not raise -/
theorem cnf_ok : ∃ cnf, fin.1.cnf = .ok cnf ∧ SolverOK cnf (some ans) ∧ ∃ m', fin.1.solve (some ans) = .ok (true, m') :=
  solver_check (by decide +kernel)

/-- `post_history_exact`, `solve_sound` and their `_from` forms apply to this history: all hypotheses hold at once,
    and the conclusion says something: the constraints are satisfiable and `value` exposes a satisfying assignment -/
example : ∃ τ, (∀ p ∈ fin.2.2, p.holds τ) ∧ ∀ v ∈ fin.1.vars, ∀ s, ∃ m', fin.1.solve (some ans) = .ok (true, m') ∧
    m'.value ⟨v, s⟩ = some (litVal τ ⟨v, s⟩) := by
  obtain ⟨cnf, hcnf, hsolver, m', hs⟩ := cnf_ok
  obtain ⟨τ, hτ, hval⟩ := (solve_sound store_init_wf run posts_wf hcnf hsolver hs).2 rfl
  exact ⟨τ, hτ, fun v hv s => ⟨m', hs, hval v hv s⟩⟩

example (σ : Var → Bool) :
    (∃ τ, (∀ v, isUser v → τ v = σ v) ∧ cnfTrue τ fin.1.clauses) ↔ ∀ p ∈ fin.2.2, p.holds σ :=
  post_history_exact store_init_wf run posts_wf σ

example (σ : Var → Bool) :
    (∃ τ, (∀ v, isUser v → τ v = σ v) ∧ cnfTrue τ fin.1.clauses) ↔ ∀ p ∈ fin.2.2, p.holds σ :=
  post_history_exact_from store_init_wf m0 (by decide) (by decide) (run_execPosts posts m0 Store.init) posts_wf σ

/-- the exposed model: x = 0, y = 1, z = 0, w = 0, and `evalexpr(2x + 3y + 2¬z)` = 5 -/
example : (match fin.1.solve (some ans) with
    | .ok (b, m') => (b, m'.value x, m'.value y, m'.value z, m'.value w.neg, m'.evalExpr q1.lhs)
    | .error _ => (false, none, none, none, none, none)) = (true, some 0, some 1, some 0, some 1, some 5) := by
  decide +kernel

/-- without the `newvar` calls the same postings make `solve()` raise (`solve_unregistered` applies) -/
example : (match (execPosts {} Store.init [.amoH 3 [x, y, z, w]]).1.solve none with
    | .error .keyError => true | _ => false) = true := by decide +kernel

/-- hypotheses of `heule_exact`, `store_getRobdd_wf` / `getRobdd_sem`, `codify_exact`, `isClause_exact`,
    `encoding_exact_or_refused` / `encoding_ge_accepted`, `refused_only`, `built_ineq_wf` on concrete data -/
example : auxOK 0 [x, y, z, w] := by
  intro l hl a ha
  simp only [List.mem_cons, List.mem_nil_iff, or_false] at hl
  rcases hl with rfl | rfl | rfl | rfl <;> simp [x, y, z, w] at ha

example : ∃ id S', q1.getRobdd false Store.init = .ok (id, S') ∧ WFStore S' ∧ id < S'.size ∧ VarsOK S' isUser id := by
  obtain ⟨id, S', hg, w', _, s, _⟩ := getRobdd_spec q1 false Store.init store_init_wf (q1_wf false).1.1 rfl
  exact ⟨id, S', hg, w', s, getRobdd_vars q1 false Store.init store_init_wf (q1_wf false).1.1 isUser (q1_wf false).2.2 hg⟩

example : (∀ t ∈ q1.lhs.t, 0 < t.c) ∧ q1.lhs.c = 0 ∧ q1.op = .ge := ⟨(q1_wf false).1.1, (q1_wf false).2.1, rfl⟩

example : ∃ m' S', ({} : Mgr).pseudoBool Store.init q1 true = .ok (m', S') ∧ MInv S' m' [.pb q1 true] := by
  rcases encoding_exact_or_refused (history_start store_init_wf) q1 true (q1_wf true) with ⟨_, hne, _⟩ | h
  · exact absurd rfl hne
  · simpa using h

example : ∃ e, ({} : Mgr).post Store.init (.amoH 2 [x, y]) = .error e := ⟨.exception, rfl⟩

/-! the UNSAT answer: `newvar x`; `add_clause([x])`; `imply([x], ¬x)`; the solver answers "unsatisfiable" -/
def unsatFin : Mgr × Store Var × List Post :=
  execPosts (registerAll {} [.user "def_x"]) Store.init [.clause [x], .imply [x] x.neg]

theorem unsat_run : Run {} Store.init unsatFin.2.2 unsatFin.1 unsatFin.2.1 :=
  run_registerAll [.user "def_x"] (run_execPosts _ _ Store.init)

theorem unsat_cnf : unsatFin.1.cnf = .ok [[1], [-1, -1]] := by rfl

theorem unsat_solver : SolverOK [[1], [-1, -1]] none := by
  rintro ⟨α, hα⟩
  obtain ⟨a, ha, h1⟩ := hα [1] (by simp)
  obtain ⟨b, hb, h2⟩ := hα [-1, -1] (by simp)
  simp at ha hb
  subst ha
  rcases hb with rfl | rfl <;> simp [intLitTrue] at h1 h2 <;> simp [h1] at h2

/-- `solve_sound` applied with the solver's UNSAT answer: `solve()` returns `False`, and indeed no assignment satisfies
    both posted constraints -/
example : unsatFin.1.solve none = .ok (false, unsatFin.1) ∧ ¬ ∃ σ, ∀ p ∈ unsatFin.2.2, p.holds σ := by
  have hs : unsatFin.1.solve none = .ok (false, unsatFin.1) := by simp [Mgr.solve, unsat_cnf]
  have hwf : ∀ p ∈ unsatFin.2.2, p.WF := by
    intro p hp
    have hp' := execPosts_subset _ _ _ p hp
    simp only [List.mem_cons, List.mem_nil_iff, or_false] at hp'
    rcases hp' with rfl | rfl
    · intro l hl; simp at hl; subst hl; trivial
    · exact ⟨by intro l hl; simp at hl; subst hl; trivial, trivial⟩
  have := (solve_sound store_init_wf unsat_run hwf unsat_cnf unsat_solver hs).1
  exact ⟨hs, fun h => by simpa using this.2 h⟩

/-- a solver literal beyond the variable table is an `IndexError`, not ignored -/
example : (match fin.1.solve (some [12]) with | .error .indexError => true | _ => false) = true := by decide +kernel

/-! `solve()`; `add_clause([x])`; `solve()` again: the second `solve()` is covered by `solve_sound` because `Run` has a
    `solve` step (the first model had x = 0, so the new clause changes the answer) -/
def solved1 : Mgr := match fin.1.solve (some ans) with | .ok (_, m1) => m1 | .error _ => fin.1
theorem solve1 : fin.1.solve (some ans) = .ok (true, solved1) := by
  obtain ⟨_, _, _, m', hs⟩ := cnf_ok
  simp [solved1, hs]
def fin2 : Mgr × Store Var × List Post := execPosts solved1 fin.2.1 [.clause [x]]
/-- what Minisat22 answered the second time -/
def ans2 : List Int := [1, -2, -3, -4, 5, -6, 7, 8, -9, 10, -11]

theorem run2 : Run {} Store.init (fin.2.2 ++ fin2.2.2) fin2.1 fin2.2.1 :=
  run_trans run (Run.solve (some ans) solve1 (run_execPosts _ _ _))

theorem posts2_wf : ∀ p ∈ fin.2.2 ++ fin2.2.2, p.WF := by
  intro p hp
  rcases List.mem_append.1 hp with h | h
  · exact posts_wf p h
  · have := execPosts_subset _ _ _ p h
    simp only [List.mem_cons, List.mem_nil_iff, or_false] at this
    subst this
    intro l hl; simp at hl; subst hl; trivial

example : ∃ τ m', (∀ p ∈ fin.2.2 ++ fin2.2.2, p.holds τ) ∧ fin2.1.solve (some ans2) = .ok (true, m') ∧
    m'.value x = some (litVal τ x) := by
  obtain ⟨cnf, hcnf, hsolver, m', hs⟩ := solver_check (m := fin2.1) (a := ans2) (by decide +kernel)
  obtain ⟨τ, hτ, hval⟩ := (solve_sound store_init_wf run2 posts2_wf hcnf hsolver hs).2 rfl
  refine ⟨τ, m', hτ, hs, hval _ ?_ true⟩
  have : (Var.user "def_x" ∈ fin2.1.vars) = true := by decide +kernel
  simpa using this

/-- `solve_exposed_model_satisfies` applies to the scenario: every literal of the accepted constraints is registered,
    and each accepted constraint holds as read off `value()` / `evalexpr()` of the manager `solve()` returns -/
example : ∃ m', fin.1.solve (some ans) = .ok (true, m') ∧ ∀ p ∈ fin.2.2, p.holdsExposed m' := by
  obtain ⟨cnf, hcnf, hsolver, m', hs⟩ := cnf_ok
  have hreg : ∀ p ∈ fin.2.2, ∀ l ∈ p.lits, l.v ∈ fin.1.vars := by decide +kernel
  exact ⟨m', hs, (solve_exposed_model_satisfies store_init_wf run posts_wf hreg hcnf hsolver hs).1⟩

/-- the reading is not vacuous: on the manager the scenario's `solve()` returns, `evalexpr(2x + 3y + 2¬z)` is `5 ≥ 4`, and a
    constraint that the model violates (`x`) reads as violated -/
example : (Post.pb q1 false).holdsExposed solved1 ∧ ¬ (Post.clause [x]).holdsExposed solved1 := by
  constructor
  · exact ⟨5, by decide +kernel, by show (5 : Int) ≥ 4; decide⟩
  · rintro ⟨l, hl, hv⟩
    simp at hl; subst hl
    have : solved1.value x = some 0 := by decide +kernel
    rw [this] at hv; simp at hv

/-- a session: the scenario's manager, then a second manager created on the store the first one left behind (never
    reset); `session_exact` applies to both -/
def second : Mgr × Store Var × List Post :=
  execPosts (registerAll {} vars) fin.2.1 [.pb q1 true, .amoQ [x, y]]

theorem session2 : Session Store.init [(fin.2.2, fin.1), (second.2.2, second.1)] second.2.1 :=
  Session.cons run posts_wf (Session.cons (run_registerAll vars (run_execPosts _ _ _)) (by
    intro p hp
    have hp' := execPosts_subset _ _ _ p hp
    simp only [List.mem_cons, List.mem_nil_iff, or_false] at hp'
    rcases hp' with rfl | rfl
    · exact q1_wf true
    · intro l hl
      simp only [List.mem_cons, List.mem_nil_iff, or_false] at hl
      rcases hl with rfl | rfl <;> trivial) (Session.nil _))

example (σ : Var → Bool) :
    (∃ τ, (∀ v, isUser v → τ v = σ v) ∧ cnfTrue τ second.1.clauses) ↔ ∀ p ∈ second.2.2, p.holds σ :=
  session_exact_fresh session2 (second.2.2, second.1) (by simp) σ

/-- the second manager found the store of the first (6 nodes) and appended to it (the other construction builds other nodes) -/
example : (fin.2.1.memory.length, decide (fin.2.1.memory.length ≤ second.2.1.memory.length), second.2.2.length) = (6, true, 2) := by
  decide +kernel

/-- the second exposed model has x = 1 (the first one had x = 0) -/
example : (match fin2.1.solve (some ans2) with | .ok (b, m') => (b, m'.value x, fin2.1.value x) | .error _ => (false, none, none))
    = (true, some 1, some 0) := by decide +kernel
end Scenario



end FV.C07

import FV.Proofs.Strop
import FV.Proofs.StropStog
/-
  C15 — Grid orthogon decomposition finds exactly the single-trunk decompositions.

  Property theorems only (helper lemmas live in `FV/Proofs/Strop/*.lean`).  The model is
  `FV/Model/Strop.lean` (`Strop`, `StropInstance`, `strop_decomposition` of the FloorSet converter).
  Grids are `List (List Bool)`; `cell m i j` is `m[i][j]`; `m.wf` are the constructor's assertions
  (at least one row, rows of equal non-zero length).

  Polygons given by their vertices (section `polygon`): `is_point_inside_polygon` is the parity of its crossing edges
  (`pip_parity`), for an axis-parallel loop the parity of the vertical edges strictly to the right (`pip_closed_form`),
  independent of start vertex and orientation (`pip_start_vertex_indep`, `pip_orientation_indep`,
  `matrix_start_orientation_indep`); for a vertex list that walks the boundary of the 1-cells of a grid `S`
  (`tracesGrid`, an executable edge-by-edge condition the harness evaluates on every traced polygon) the matrix handed to
  `Strop` is `S` (`matrix_of_traced_polygon`), rectangles are returned iff `S` has a single-trunk decomposition
  (`traced_polygon_decomposes_iff`) and their total area is the shoelace area (`traced_polygon_area`,
  `shoelace_of_traced_polygon`).  `tracesGrid` is proved for all axis-parallel rectangles (`rectangle_traces`,
  `rectangle_decomposition`) and for all histogram / staircase polygons (`histogram_traces`, `histogram_matrix`), and is
  closed under change of start vertex and orientation (`traces_start_orientation`).

  NOT YET PROVED: that the vertex list produced by *tracing* the boundary of an arbitrary simply connected cell set
  satisfies `tracesGrid` (a statement about the tracer, which is harness code, not FRAME code; evaluated at run time by
  the driver for every generated polygon), and `tracesGrid` for the general single-trunk outline assembled from trunk +
  branch histograms (rectangles and one-sided histograms are proved as classes; a histogram is the single-trunk
  orthogon whose trunk is its lowest full-width row band with north branches only when that band exists).
-/
namespace FV.C15
open FV FV.Strop
set_option linter.unusedVariables false

/-! ### the specification -/

/-- `b` is a non-empty index rectangle lying against the north side of `T`, within `T`'s column extent. -/
def AbutsN (T b : SRect) : Prop :=
  b.rows.low ≤ b.rows.high ∧ b.rows.high + 1 = T.rows.low ∧
  T.cols.low ≤ b.cols.low ∧ b.cols.low ≤ b.cols.high ∧ b.cols.high ≤ T.cols.high
def AbutsS (T b : SRect) : Prop :=
  b.rows.low ≤ b.rows.high ∧ b.rows.low = T.rows.high + 1 ∧
  T.cols.low ≤ b.cols.low ∧ b.cols.low ≤ b.cols.high ∧ b.cols.high ≤ T.cols.high
def AbutsE (T b : SRect) : Prop :=
  b.cols.low ≤ b.cols.high ∧ b.cols.low = T.cols.high + 1 ∧
  T.rows.low ≤ b.rows.low ∧ b.rows.low ≤ b.rows.high ∧ b.rows.high ≤ T.rows.high
def AbutsW (T b : SRect) : Prop :=
  b.cols.low ≤ b.cols.high ∧ b.cols.high + 1 = T.cols.low ∧
  T.rows.low ≤ b.rows.low ∧ b.rows.low ≤ b.rows.high ∧ b.rows.high ≤ T.rows.high

/-- a branch abuts the trunk on one side within the trunk's extent. -/
def Abuts (T b : SRect) : Prop := AbutsN T b ∨ AbutsS T b ∨ AbutsE T b ∨ AbutsW T b

/-- `T` (trunk) and `bs` (branches) are a single-trunk decomposition of the 1-cells of `m`:
the trunk is a non-empty index rectangle, every branch is a rectangle abutting the trunk on one side within the
trunk's extent, and trunk and branches partition the 1-cells (every 1-cell is covered, nothing else is, no cell
is covered twice).  In particular the trunk is an all-ones rectangle of the grid (`decomposes_trunk_ones`). -/
structure Decomposes (m : Grid) (T : SRect) (bs : List SRect) : Prop where
  trunk_nonempty : T.rows.low ≤ T.rows.high ∧ T.cols.low ≤ T.cols.high
  abuts : ∀ b ∈ bs, Abuts T b
  cover : ∀ i j, cell m i j = true ↔ (T.mem i j = true ∨ ∃ b ∈ bs, b.mem i j = true)
  disjoint : (T :: bs).Pairwise fun a b => ∀ i j, ¬ (a.mem i j = true ∧ b.mem i j = true)

/-! ### soundness -/

/-- the trunk of a decomposition is an all-ones rectangle inside the grid. -/
theorem decomposes_trunk_ones (m : Grid) (hwf : m.wf = true) (T : SRect) (bs : List SRect) (h : Decomposes m T bs) :
    (∀ i j, T.mem i j = true → cell m i j = true) ∧ T.rows.high < m.nrows ∧ T.cols.high < m.ncols := by
  have hones : ∀ i j, T.mem i j = true → cell m i j = true := fun i j hm => (h.cover i j).2 (Or.inl hm)
  have hm : T.mem T.rows.high T.cols.high = true :=
    (mem_iff T _ _).2 ⟨h.trunk_nonempty.1, Nat.le_refl _, h.trunk_nonempty.2, Nat.le_refl _⟩
  exact ⟨hones, cell_lt_rows (hones _ _ hm), cell_lt_cols hwf (hones _ _ hm)⟩

/-- **instance_sound** — every instance the model offers is a single-trunk decomposition, with every branch on
the side it is filed under. -/
theorem instance_sound (m : Grid) (insts : List Instance) (h : strop m = some insts) (s : Instance) (hs : s ∈ insts) :
    Decomposes m s.trunk s.branches ∧
    (∀ b ∈ s.north, AbutsN s.trunk b) ∧ (∀ b ∈ s.south, AbutsS s.trunk b) ∧
    (∀ b ∈ s.east, AbutsE s.trunk b) ∧ (∀ b ∈ s.west, AbutsW s.trunk b) := by
  unfold strop at h
  split at h
  · rename_i hwf
    cases h
    obtain ⟨T, hT, hmk⟩ := (mem_instances m s).1 hs
    obtain ⟨e0, hv, hcover, hpw, hN, hS, hE, hW⟩ := instance_facts m hwf T hT s hmk
    subst e0
    refine ⟨⟨⟨hv.rows_le, hv.cols_le⟩, ?_, hcover, hpw⟩, hN, hS, hE, hW⟩
    intro b hb
    simp only [Instance.branches, List.mem_append] at hb
    rcases hb with ((hb | hb) | hb) | hb
    · exact Or.inl (hN b hb)
    · exact Or.inr (Or.inl (hS b hb))
    · exact Or.inr (Or.inr (Or.inl (hE b hb)))
    · exact Or.inr (Or.inr (Or.inr (hW b hb)))
  · cases h

/-- `rectangles()` yields the trunk first, then the branches. -/
theorem rectangles_trunk_first (s : Instance) : s.rectangles = s.trunk :: s.branches ∧
    s.rectanglesWhich [] = some s.rectangles ∧ s.rectanglesWhich ['T'] = some [s.trunk] ∧
    s.rectanglesWhich ['B'] = some s.branches := by
  refine ⟨rfl, ?_, ?_, ?_⟩ <;> simp [Instance.rectanglesWhich, Instance.rectangles, Instance.branches]

/-- a positive verdict is backed by a decomposition. -/
theorem isStrop_sound (m : Grid) (hwf : m.wf = true) (h : isStrop m = true) : ∃ T bs, Decomposes m T bs := by
  unfold isStrop at h
  cases hi : instances m with
  | nil => rw [hi] at h; simp at h
  | cons s l =>
    have hs : s ∈ instances m := by rw [hi]; exact List.mem_cons_self
    have hstrop : strop m = some (instances m) := by simp [strop, hwf]
    exact ⟨s.trunk, s.branches, (instance_sound m _ hstrop s hs).1⟩

/-! ### completeness -/

/-- a decomposition in the sense of the specification is a `ValidTrunk` (the brute-force reading used by the
proofs and by the harness oracle: every 1-cell lies in the cross of the trunk and is joined to it by ones). -/
theorem decomposes_validTrunk (m : Grid) (T : SRect) (bs : List SRect) (h : Decomposes m T bs) : ValidTrunk m T :=
  validTrunk_of_cover m T bs h.trunk_nonempty.1 h.trunk_nonempty.2
    (fun b hb => by
      rcases h.abuts b hb with h | h | h | h
      · exact Or.inl h
      · exact Or.inr (Or.inl h)
      · exact Or.inr (Or.inr (Or.inl h))
      · exact Or.inr (Or.inr (Or.inr h)))
    h.cover

/-- conversely a `ValidTrunk` carries a decomposition (the one the histograms produce). -/
theorem validTrunk_decomposes (m : Grid) (hwf : m.wf = true) (T : SRect) (hv : ValidTrunk m T) :
    ∃ bs, Decomposes m T bs := by
  have hcount := (valid_iff_count m hwf T hv.rows_le hv.cols_le hv.ones).2 hv
  obtain ⟨s, hs⟩ := mkInstance_isSome m T hcount
  obtain ⟨e0, _, hcover, hpw, hN, hS, hE, hW⟩ := instance_facts' m hwf T hv.rows_le hv.cols_le hv.ones s hs
  refine ⟨s.branches, ⟨hv.rows_le, hv.cols_le⟩, ?_, hcover, hpw⟩
  intro b hb
  simp only [Instance.branches, List.mem_append] at hb
  rcases hb with ((hb | hb) | hb) | hb
  · exact Or.inl (hN b hb)
  · exact Or.inr (Or.inl (hS b hb))
  · exact Or.inr (Or.inr (Or.inl (hE b hb)))
  · exact Or.inr (Or.inr (Or.inr (hW b hb)))

/-- **extend_valid** — the trunk of a decomposition can be grown to a maximal all-ones rectangle (`Maximal`: no
full line of ones abuts it on any side) that is again the trunk of a decomposition. -/
theorem extend_valid (m : Grid) (hwf : m.wf = true) (T : SRect) (bs : List SRect) (h : Decomposes m T bs) :
    ∃ T' bs', SubRect T T' ∧ Maximal m T' ∧ Decomposes m T' bs' := by
  obtain ⟨T', hv', hmax, hsub⟩ := exists_maximal m hwf T (decomposes_validTrunk m T bs h)
  obtain ⟨bs', hd⟩ := validTrunk_decomposes m hwf T' hv'
  exact ⟨T', bs', hsub, hmax, hd⟩

/-- **maximal_is_candidate** — a maximal trunk of a decomposition survives both in-place pruning passes of
`_get_trunks_matrix` on the matrix and on its transpose, the intersection of the two sets and the corner test:
it is one of the potential trunks. -/
theorem maximal_is_candidate (m : Grid) (hwf : m.wf = true) (T : SRect) (bs : List SRect) (h : Decomposes m T bs)
    (hmax : Maximal m T) : T ∈ potentialTrunks m :=
  maximal_in_potentialTrunks m hwf T (decomposes_validTrunk m T bs h) hmax

/-- what the two in-place pruning passes leave in the table: exactly the row spans (intersection of the single
runs of rows `r..c`) that change when a row is added above or below. -/
theorem trunksMatrix_iff (M : Grid) (T : SRect) : T ∈ trunksMatrix M ↔
    T.rows.low ≤ T.rows.high ∧ T.rows.high < M.length ∧
    span M T.rows.low (T.rows.high - T.rows.low) = some T.cols ∧
    (T.rows.high + 1 < M.length → span M T.rows.low (T.rows.high + 1 - T.rows.low) ≠ some T.cols) ∧
    (1 ≤ T.rows.low → span M (T.rows.low - 1) (T.rows.high - (T.rows.low - 1)) ≠ some T.cols) := by
  rw [mem_trunksMatrix]
  constructor
  · rintro ⟨r, c, I, h1, h2, h3, rfl⟩
    exact ⟨h1, h2, (finalTable_get M r c I h1 h2).1 h3⟩
  · rintro ⟨h1, h2, h3⟩
    exact ⟨T.rows.low, T.rows.high, T.cols, h1, h2, (finalTable_get M _ _ _ h1 h2).2 h3, rfl⟩

/-- **isStrop_complete** — whenever a single-trunk decomposition exists, the model reports one. -/
theorem isStrop_complete (m : Grid) (hwf : m.wf = true) (h : ∃ T bs, Decomposes m T bs) : isStrop m = true := by
  obtain ⟨T, bs, hd⟩ := h
  exact isStrop_of_validTrunk m hwf T (decomposes_validTrunk m T bs hd)

/-- an observation about the code: the cell-count validity test of `StropInstance` never rejects a potential trunk
(single-run rows, single-run columns and empty corners already force a valid trunk) — every potential trunk
becomes an offered instance. -/
theorem potential_trunk_is_instance (m : Grid) (hwf : m.wf = true) (T : SRect) (hT : T ∈ potentialTrunks m) :
    ∃ s ∈ instances m, s.trunk = T := by
  obtain ⟨s, hs⟩ := potentialTrunk_isSome m hwf T hT
  exact ⟨s, (mem_instances m s).2 ⟨T, hT, hs⟩, (mkInstance_some m T s hs).2.1⟩

/-- the verdict is exact. -/
theorem isStrop_iff (m : Grid) (hwf : m.wf = true) : isStrop m = true ↔ ∃ T bs, Decomposes m T bs :=
  ⟨isStrop_sound m hwf, isStrop_complete m hwf⟩

/-! ### areas through the coordinate lists -/

section area
variable {α : Type} [Field α]

/-- **rects_area** — the rectangles of an offered instance, mapped through coordinate lists (`X j` the j-th
x-coordinate ascending, `Y i` the i-th y-coordinate descending), have together the area of the 1-cells. -/
theorem rects_area (m : Grid) (insts : List Instance) (h : strop m = some insts) (s : Instance) (hs : s ∈ insts)
    (X Y : ℕ → α) : (s.rectangles.map fun r => rectArea (coordRect X Y r)).sum = gridArea m X Y := by
  unfold strop at h
  split at h
  · rename_i hwf
    cases h
    exact instance_area m hwf s hs X Y
  · cases h

end area

section area_decomposition
variable {α : Type} [Field α] [LinearOrder α]

/-- the same for every answer `strop_decomposition` can give: Σ w·h is the area of the cells whose centre the
point-in-polygon test puts inside. -/
theorem decomposition_area (zero : α) (vs : List (α × α)) (cands : List (List (α × α × α × α)))
    (h : stropDecomposition zero vs = some cands) (c : List (α × α × α × α)) (hc : c ∈ cands) :
    (c.map rectArea).sum =
      gridArea (gridOfVertices vs).2.2 (fun j => (gridOfVertices vs).1.getD j zero)
        (fun i => (gridOfVertices vs).2.1.getD i zero) := by
  unfold stropDecomposition at h
  simp only at h
  cases hst : strop (gridOfVertices vs).2.2 with
  | none => simp [hst] at h
  | some insts =>
    simp only [hst] at h
    split at h
    · cases h
    · cases h
      obtain ⟨s, hs, rfl⟩ := List.mem_map.1 hc
      rw [List.map_map]
      exact rects_area _ insts hst s hs _ _

end area_decomposition

/-! ### loaded as a module: recognised by `create_stog`, trunk first -/

/-- the trunk of every offered instance is a maximal all-ones rectangle (no full line of ones abuts it).  This is
why no branch can take over as trunk in `create_stog`, whatever the areas are. -/
theorem instance_trunk_maximal (m : Grid) (insts : List Instance) (h : strop m = some insts) (I : Instance)
    (hI : I ∈ insts) : Maximal m I.trunk := by
  unfold strop at h
  split at h
  · rename_i hwf
    cases h
    obtain ⟨T, hT, hmk⟩ := (mem_instances m I).1 hI
    rw [(mkInstance_some m T I hmk).2.1]
    exact potentialTrunk_maximal m hwf T hT
  · cases h

section recognised
variable {α : Type} [Field α] [LinearOrder α] [IsStrictOrderedRing α]

/-- **rects_recognised** — for a well-formed grid, coordinate lists whose every cell side exceeds `2ε` with `ε > 0`
(`CoordsOK`: `X` ascending = `x_coords`, `Y` descending = `y_coords`; row 0 is the top row) and `εA ≥ 0`: the list
`I.loaded X Y` (the `[cx, cy, w, h]` of `rectangles()`, trunk first, turned into `Rectangle`s) makes `create_stog`
answer `True`; the list it leaves behind is the same list in the same order (the strop trunk stays at the head —
unconditionally, see `instance_trunk_maximal`), the head carries TRUNK and every branch carries the role of the
side it is filed under: north = rows above the trunk = larger `y`, south, east = columns to the right, west.
`ε > 0` is necessary: `almost_eq` is a strict comparison, with `ε = 0` no side is ever recognised. -/
theorem rects_recognised (m : Grid) (insts : List Instance) (h : strop m = some insts) (I : Instance) (hI : I ∈ insts)
    (ε εA : α) (X Y : ℕ → α) (hco : CoordsOK ε X Y m.nrows m.ncols) (hA : 0 ≤ εA) :
    ∃ out, Stog.createStog ε εA (I.loaded X Y) = some (true, out) ∧
      out.map Stog.eraseLoc = I.loaded X Y ∧
      out.map (·.loc) = Loc.trunk :: I.sides := by
  unfold strop at h
  split at h
  · rename_i hwf
    cases h
    obtain ⟨T, hT, hmk⟩ := (mem_instances m I).1 hI
    exact instance_recognised m hwf T hT I hmk hco hA
  · cases h

/-- the same for every answer `strop_decomposition` can give (`toRect` = the `Rectangle` the loader builds from
`[cx, cy, w, h]`): recognised, first rectangle = TRUNK, order kept. -/
theorem decomposition_recognised (zero : α) (vs : List (α × α)) (cands : List (List (α × α × α × α)))
    (h : stropDecomposition zero vs = some cands) (c : List (α × α × α × α)) (hc : c ∈ cands) (ε εA : α)
    (hco : CoordsOK ε (fun j => (gridOfVertices vs).1.getD j zero) (fun i => (gridOfVertices vs).2.1.getD i zero)
      (gridOfVertices vs).2.2.nrows (gridOfVertices vs).2.2.ncols) (hA : 0 ≤ εA) :
    ∃ out t rest, Stog.createStog ε εA (c.map toRect) = some (true, out) ∧ out = t :: rest ∧ t.loc = Loc.trunk ∧
      out.map Stog.eraseLoc = c.map toRect ∧ ∀ r ∈ rest, r.loc ≠ Loc.nopoly ∧ r.loc ≠ Loc.trunk := by
  unfold stropDecomposition at h
  simp only at h
  cases hst : strop (gridOfVertices vs).2.2 with
  | none => simp [hst] at h
  | some insts =>
    simp only [hst] at h
    split at h
    · cases h
    · cases h
      obtain ⟨I, hI, rfl⟩ := List.mem_map.1 hc
      obtain ⟨out, e1, e2, e3⟩ := rects_recognised _ insts hst I hI ε εA _ _ hco hA
      have hload : (I.rectangles.map (coordRect (fun j => (gridOfVertices vs).1.getD j zero)
          (fun i => (gridOfVertices vs).2.1.getD i zero))).map toRect =
          I.loaded (fun j => (gridOfVertices vs).1.getD j zero) (fun i => (gridOfVertices vs).2.1.getD i zero) := by
        simp only [Instance.loaded, List.map_map]; rfl
      rw [hload]
      cases out with
      | nil => simp at e3
      | cons t rest =>
        simp only [List.map_cons, List.cons.injEq] at e3
        refine ⟨_, t, rest, e1, rfl, e3.1, e2, ?_⟩
        intro r hr
        have : r.loc ∈ I.sides := by rw [← e3.2]; exact List.mem_map_of_mem hr
        simp only [Instance.sides, List.mem_append, List.mem_map] at this
        rcases this with ((⟨_, _, e⟩ | ⟨_, _, e⟩) | ⟨_, _, e⟩) | ⟨_, _, e⟩ <;> rw [← e] <;> simp

end recognised

/-! ### polygons given by their vertices: `is_point_inside_polygon` and the matrix `strop_decomposition` builds -/

section polygon
variable {α : Type} [Field α] [LinearOrder α] [IsStrictOrderedRing α]

/-- **pip_parity** — `is_point_inside_polygon` is the parity of the number of cyclic edges `p1 → p2` that satisfy its
crossing test (`crossN` counts the edges with `p1.y ≤ y < p2.y or p2.y ≤ y < p1.y` and `x < intersect_x`), for every
vertex list. -/
theorem pip_parity (px py : α) (vs : List (α × α)) : isPointInside px py vs = decide (Odd (crossN px py vs)) :=
  isPointInside_eq px py vs

/-- **pip_closed_form** — for an axis-parallel loop the answer is the parity of the number of vertical edges strictly
to the right of the point whose half-open `y`-range contains the point's ordinate (`rightCount`); in particular no
division is involved and horizontal edges never count. -/
theorem pip_closed_form (px py : α) (vs : List (α × α)) (hr : rectilinear vs = true) :
    isPointInside px py vs = decide (Odd (rightCount px py vs)) := by
  rw [isPointInside_eq, crossN_rect px py vs hr]

/-- **pip_start_vertex_indep** — the answer does not depend on the vertex the list starts with (any vertex list). -/
theorem pip_start_vertex_indep (px py : α) (vs : List (α × α)) (k : ℕ) :
    isPointInside px py (vs.rotate k) = isPointInside px py vs := isPointInside_rotate px py vs k

/-- **pip_orientation_indep** — … nor on the orientation (any vertex list; exact arithmetic: the two evaluations of
`intersect_x` agree as field elements). -/
theorem pip_orientation_indep (px py : α) (vs : List (α × α)) :
    isPointInside px py vs.reverse = isPointInside px py vs := isPointInside_reverse px py vs

/-- **matrix_start_orientation_indep** — the coordinate lists and the 0/1 matrix handed to `Strop`, hence everything
`strop_decomposition` can answer, are the same for every rotation of the vertex list and for the reversed list. -/
theorem matrix_start_orientation_indep (zero : α) (vs : List (α × α)) (k : ℕ) :
    gridOfVertices (vs.rotate k) = gridOfVertices vs ∧ gridOfVertices vs.reverse = gridOfVertices vs ∧
    stropDecomposition zero (vs.rotate k) = stropDecomposition zero vs ∧
    stropDecomposition zero vs.reverse = stropDecomposition zero vs :=
  ⟨gridOfVertices_rotate vs k, gridOfVertices_reverse vs,
    stropDecomposition_congr zero _ _ (gridOfVertices_rotate vs k),
    stropDecomposition_congr zero _ _ (gridOfVertices_reverse vs)⟩

/-- **matrix_of_traced_polygon** — `tracesGrid zero σ S vs` (executable; the harness evaluates it for every polygon it
traces): every edge of `vs` is axis-parallel, `S` has one row per gap of the pipeline's `y_coords` and one column
per gap of its `x_coords`, and on every grid line the vertical edges of `vs` cross a row exactly where the line
separates a 1-cell of `S` from a 0-cell (signed count `σ·(S[i][k-1] − S[i][k])`; `σ = 1` counter-clockwise, `σ = −1`
clockwise).  Then the matrix the pipeline computes from the cell centres with `is_point_inside_polygon` is `S`. -/
theorem matrix_of_traced_polygon (zero : α) (σ : ℤ) (hσ : σ = 1 ∨ σ = -1) (S : Grid) (vs : List (α × α))
    (h : tracesGrid zero σ S vs = true) : (gridOfVertices vs).2.2 = S :=
  matrix_of_traced zero σ hσ S vs h

/-- **traced_polygon_decomposes_iff** — with `isStrop_iff`: for a polygon that walks the boundary of the 1-cells of a
well-formed grid `S`, `strop_decomposition` returns rectangles (instead of failing its assertion) exactly when `S` has a
single-trunk decomposition. -/
theorem traced_polygon_decomposes_iff (zero : α) (σ : ℤ) (hσ : σ = 1 ∨ σ = -1) (S : Grid) (hwf : S.wf = true)
    (vs : List (α × α)) (h : tracesGrid zero σ S vs = true) :
    (stropDecomposition zero vs).isSome = true ↔ ∃ T bs, Decomposes S T bs := by
  rw [← isStrop_iff S hwf]
  unfold stropDecomposition
  simp only []
  rw [matrix_of_traced zero σ hσ S vs h]
  unfold strop isStrop
  rw [if_pos hwf]
  cases instances S <;> simp

/-- **shoelace_of_traced_polygon** — discrete Green formula: the shoelace sum `Σ xᵢyᵢ₊₁ − xᵢ₊₁yᵢ` of such a vertex
list is `2σ` times the area of the 1-cells of `S` (cell sizes from the pipeline's coordinate lists). -/
theorem shoelace_of_traced_polygon (zero : α) (σ : ℤ) (S : Grid) (vs : List (α × α))
    (h : tracesGrid zero σ S vs = true) :
    shoelace2 0 vs = 2 * (σ : α) * gridArea S (fun j => (gridOfVertices vs).1.getD j zero)
      (fun i => (gridOfVertices vs).2.1.getD i zero) :=
  shoelace_of_traced zero σ S vs h

/-- **traced_polygon_area** — "the resulting rectangles have the polygon's area": every answer `strop_decomposition`
can give for such a vertex list has `Σ w·h` equal to the shoelace area `σ·(Σ xᵢyᵢ₊₁ − xᵢ₊₁yᵢ)/2` of the vertex list. -/
theorem traced_polygon_area (zero : α) (σ : ℤ) (hσ : σ = 1 ∨ σ = -1) (S : Grid) (vs : List (α × α))
    (h : tracesGrid zero σ S vs = true) (cands : List (List (α × α × α × α)))
    (hc : stropDecomposition zero vs = some cands) (c : List (α × α × α × α)) (hcc : c ∈ cands) :
    (c.map rectArea).sum = (σ : α) * shoelace2 0 vs / 2 := by
  rw [decomposition_area zero vs cands hc c hcc, shoelace_of_traced zero σ S vs h,
    matrix_of_traced zero σ hσ S vs h]
  rcases hσ with rfl | rfl <;> (push_cast; ring)

/-- **traces_start_orientation** — the hypothesis `tracesGrid` is itself independent of the start vertex, and reversing
the list flips the orientation sign: one evaluation covers all `2n` presentations of the polygon. -/
theorem traces_start_orientation (zero : α) (σ : ℤ) (S : Grid) (vs : List (α × α))
    (h : tracesGrid zero σ S vs = true) (k : ℕ) :
    tracesGrid zero σ S (vs.rotate k) = true ∧ tracesGrid zero (-σ) S (vs.reverse.rotate k) = true :=
  ⟨tracesGrid_rotate zero σ S vs h k, tracesGrid_rotate zero (-σ) S _ (tracesGrid_reverse zero σ S vs h) k⟩

/-- **rectangle_traces** — a class for which the hypothesis is proved, not only evaluated: every axis-parallel
rectangle `[x0, x1] × [y0, y1]` (`rectLoop`: counter-clockwise from the lower-left corner) walks the boundary of the
one-cell grid. -/
theorem rectangle_traces (zero : α) (x0 x1 y0 y1 : α) (hx : x0 < x1) (hy : y0 < y1) :
    tracesGrid zero 1 [[true]] (rectLoop x0 x1 y0 y1) = true := rectLoop_traces zero x0 x1 y0 y1 hx hy

/-- **rectangle_decomposition** — hence, from every start vertex and in either orientation, `strop_decomposition`
answers with exactly the rectangle itself, `[[cx, cy, w, h]]`. -/
theorem rectangle_decomposition (zero : α) (x0 x1 y0 y1 : α) (hx : x0 < x1) (hy : y0 < y1) (k : ℕ) :
    stropDecomposition zero ((rectLoop x0 x1 y0 y1).rotate k)
      = some [[((x0 + x1) / two, (y0 + y1) / two, x1 - x0, y1 - y0)]] ∧
    stropDecomposition zero ((rectLoop x0 x1 y0 y1).reverse.rotate k)
      = some [[((x0 + x1) / two, (y0 + y1) / two, x1 - x0, y1 - y0)]] := by
  have h := rectLoop_decomposition zero x0 x1 y0 y1 hx hy
  refine ⟨by rw [(matrix_start_orientation_indep zero _ k).2.2.1, h], ?_⟩
  rw [(matrix_start_orientation_indep zero _ k).2.2.1, (matrix_start_orientation_indep zero _ 0).2.2.2, h]

/-- **histogram_traces** — a second, infinite class for which the hypothesis is proved: histogram (staircase)
polygons.  Columns between the strictly increasing abscissae `x0 :: xr`, of arbitrary heights `hs` (equal neighbours
allowed: the loop then has a repeated vertex) all above the base line `b`; `histLoop` walks base-left corner, up, along
the tops to the right, down to the base-right corner (clockwise, `σ = −1`).  It walks the boundary of `histGrid`: cell
`(i, j)` is inside iff column `j` reaches the top of row `i` of the pipeline's own ordinates.  By
`traces_start_orientation` the same holds from every start vertex and, with `σ = 1`, for the reversed loop. -/
theorem histogram_traces (zero : α) (x0 b : α) (xr hs : List α) (hp : (x0 :: xr).Pairwise (· < ·))
    (hlen : xr.length = hs.length) (hb : ∀ h ∈ hs, b < h) :
    tracesGrid zero (-1) (histGrid zero (gridOfVertices (histLoop x0 xr hs b)).2.1 hs) (histLoop x0 xr hs b) = true :=
  histLoop_traces zero x0 b xr hs hp hlen hb

/-- **histogram_matrix** — hence (no run-time hypothesis left) the matrix `strop_decomposition` builds for a histogram
polygon, from any start vertex and in either orientation, is the histogram's pattern; rectangles are returned iff that
pattern has a single-trunk decomposition, and their total area is the shoelace area. -/
theorem histogram_matrix (zero : α) (x0 b : α) (xr hs : List α) (hp : (x0 :: xr).Pairwise (· < ·))
    (hlen : xr.length = hs.length) (hb : ∀ h ∈ hs, b < h) (k : ℕ) :
    (gridOfVertices ((histLoop x0 xr hs b).rotate k)).2.2
      = histGrid zero (gridOfVertices (histLoop x0 xr hs b)).2.1 hs ∧
    (gridOfVertices ((histLoop x0 xr hs b).reverse.rotate k)).2.2
      = histGrid zero (gridOfVertices (histLoop x0 xr hs b)).2.1 hs := by
  have h := matrix_of_traced zero (-1) (Or.inr rfl) _ _ (histLoop_traces zero x0 b xr hs hp hlen hb)
  refine ⟨by rw [(matrix_start_orientation_indep zero _ k).1, h], ?_⟩
  rw [(matrix_start_orientation_indep zero _ k).1, (matrix_start_orientation_indep zero _ 0).2.1, h]

end polygon

/-! ### non-vacuity: concrete grids -/

/-- the plus shape: two decompositions (vertical and horizontal trunk). -/
def plus : Grid := [[false, true, false], [true, true, true], [false, true, false]]
/-- the three-step staircase of the module docstring: not a STrOP. -/
def stairs : Grid := [[true, true, false], [false, true, true], [false, false, true]]

example : plus.wf = true := by decide
example : (instances plus).length = 2 := by decide +kernel
example : isStrop plus = true := by decide +kernel
example : isStrop stairs = false := by decide +kernel
example : ∃ T bs, Decomposes plus T bs := isStrop_sound plus (by decide) (by decide +kernel)
/-- the hypothesis of `isStrop_complete` fails exactly where the verdict is negative. -/
example : ¬ ∃ T bs, Decomposes stairs T bs := fun h => by
  have := isStrop_complete stairs (by decide) h
  revert this; decide +kernel
/-- unit coordinates on the 3×3 grid with `ε = 1/8` meet `CoordsOK`. -/
example : CoordsOK (1/8 : ℚ) (fun j => (j : ℚ)) (fun i => 3 - (i : ℚ)) 3 3 :=
  ⟨by norm_num, fun j _ => by push_cast; norm_num, fun i _ => by push_cast; norm_num⟩
/-- … and the plus shape loaded that way is recognised with the roles in `rectangles()` order. -/
example : ((instances plus).map fun I =>
    (Stog.createStog (1/8 : ℚ) (1/4) (I.loaded (fun j => (j : ℚ)) (fun i => 3 - (i : ℚ)))).map
      fun p => (p.1, p.2.map (·.loc))) =
    [some (true, [.trunk, .east, .west]), some (true, [.trunk, .north, .south])] := by decide +kernel
/-- an L-shaped hexagon over `ℚ` walks the boundary of its 2×2 pattern (counter-clockwise `σ = 1`, reversed `σ = −1`),
does not walk the boundary of the full square, has shoelace sum `2·3`, and is decomposed. -/
def ell : List (ℚ × ℚ) := [(0, 0), (2, 0), (2, 1), (1, 1), (1, 2), (0, 2)]
example : tracesGrid (0 : ℚ) 1 [[true, false], [true, true]] ell = true := by decide +kernel
example : tracesGrid (0 : ℚ) (-1) [[true, false], [true, true]] ell.reverse = true := by decide +kernel
example : tracesGrid (0 : ℚ) 1 [[true, true], [true, true]] ell = false := by decide +kernel
example : shoelace2 (0 : ℚ) ell = 6 := by decide +kernel
example : (gridOfVertices ell).2.2 = [[true, false], [true, true]] :=
  matrix_of_traced_polygon 0 1 (Or.inl rfl) _ ell (by decide +kernel)
example : (stropDecomposition (0 : ℚ) ell).isSome = true := by decide +kernel
/-- the closed form on the hexagon: the point `(1/2, 3/2)` has one vertical edge to its right, `(3/2, 3/2)` none. -/
example : rectilinear ell = true ∧ rightCount (1/2 : ℚ) (3/2) ell = 1 ∧ rightCount (3/2 : ℚ) (3/2) ell = 0 := by
  decide +kernel
/-- the three-column staircase histogram over `ℚ` meets the hypotheses of `histogram_traces`; its pattern and loop. -/
example : ([0, 1, 2, 3] : List ℚ).Pairwise (· < ·) ∧ ∀ h ∈ ([1, 2, 3] : List ℚ), (0 : ℚ) < h := by
  refine ⟨by decide +kernel, ?_⟩
  intro h hh; simp at hh; rcases hh with rfl | rfl | rfl <;> norm_num
example : histLoop (0 : ℚ) [1, 2, 3] [1, 2, 3] 0 = [(0, 0), (0, 1), (1, 1), (1, 2), (2, 2), (2, 3), (3, 3), (3, 0)] := by
  decide +kernel
example : histGrid (0 : ℚ) [3, 2, 1, 0] [1, 2, 3] =
    [[false, false, true], [false, true, true], [true, true, true]] := by decide +kernel
/-- the in-place order of the two pruning passes matters on this grid: four row spans survive. -/
example : (trunksMatrix stairs).length = 4 := by decide +kernel

end FV.C15

import FV.Proofs.Strop
namespace FV.C15
theorem stub_tmp : True := trivial
end FV.C15

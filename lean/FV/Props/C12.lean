import FV.Proofs.Alloc
/-
  C12 — Refinement decisions are consistent, exact and terminate.
  Property theorems only (helper lemmas and the spec definitions `ValidAlloc`, `Refines`, `halveLonger`,
  `halvings`, `halvedDims`, `refinedCell`, `uniformCell`, `CutsX`, `InteriorCut`, `Separated`, `sidesX/Y` live in `FV/Proofs/Alloc.lean`).
  All statements are over an arbitrary linearly ordered field `α`; `env` (the literals `1e-12`, `0.01` = `env.rho`,
  `math.sqrt`) is arbitrary.  The model is the code with `fixes/C02_fixed_cells_cut.diff`,
  `fixes/C02_griddify_yloop.diff` and `fixes/C12_must_be_refined_guard.diff` applied.

  Termination clause ("so the refine-until-stable loop always terminates"): NOT CLAIMED for the bare loop — see the
  block `NOT CLAIMED` below (`bare_loop_never_stabilises`, `bare_loop_diverges_witness`).  What is proved: the
  predicate is true exactly on the non-fixpoints of `refine`, and every guarded call strictly increases the number
  of cells (`mustBeRefined_iff_changes`).

  Fixed cells: in the repaired code cells of fixed modules are exempt from threshold and uniform refinement; the
  statements `refine_exact`, `uniform_exact`, `uniform_all_maxdepth` say so explicitly (the property text says
  "every cell").
-/
namespace FV.C12
open FV FV.Alloc FV.Rect FV.C18
set_option linter.unusedSectionVars false
set_option linter.unusedSimpArgs false
set_option linter.unusedVariables false

variable {α : Type} [Field α] [LinearOrder α] [IsStrictOrderedRing α]

/-! ### the split condition and the predicate -/

/-- a cell is split by `refine(t)` iff it is refinable (not of a fixed module), lists at least one module, and
    no listed module exceeds the threshold. -/
theorem splitCond_iff (t : α) (c : Cell α) :
    splitCond t c = true ↔ (c.rect.fixed = false ∧ c.alloc ≠ [] ∧ ∀ p ∈ c.alloc, p.2 ≤ t) := by
  simp only [splitCond, Bool.and_eq_true, Bool.not_eq_true', List.all_eq_true, decide_eq_true_eq,
    List.isEmpty_eq_false_iff, ne_eq, and_assoc]

/-- `must_be_refined(t)` says that some cell would be split. -/
theorem mustBeRefined_iff_exists (a : Allocation α) (t : α) :
    mustBeRefined a t = true ↔ ∃ c ∈ a.cells, splitCond t c = true := by
  simp [mustBeRefined]

/-! ### threshold refinement is exact -/

/-- `split()` is the halving of the longer side (the width on a tie), in coordinates. -/
theorem split_is_halveLonger (r : Rect α) (hw : 0 < r.w) (hh : 0 < r.h) : r.split = some (halveLonger r) :=
  split_eq_halveLonger r hw hh

/-- the two halves are congruent and together have the sides of the rectangle. -/
theorem halveLonger_spec (r : Rect α) :
    let p := (halveLonger r).1
    let q := (halveLonger r).2
    p.w = q.w ∧ p.h = q.h ∧
      (if r.w < r.h then p.w = r.w ∧ p.h = r.h / 2 ∧ p.xmin = r.xmin ∧ p.xmax = r.xmax ∧ p.ymin = r.ymin ∧ p.ymax = r.cy ∧
          q.xmin = r.xmin ∧ q.xmax = r.xmax ∧ q.ymin = r.cy ∧ q.ymax = r.ymax
       else p.w = r.w / 2 ∧ p.h = r.h ∧ p.ymin = r.ymin ∧ p.ymax = r.ymax ∧ p.xmin = r.xmin ∧ p.xmax = r.cx ∧
          q.ymin = r.ymin ∧ q.ymax = r.ymax ∧ q.xmin = r.cx ∧ q.xmax = r.xmax) := by
  unfold halveLonger
  by_cases hc : r.w < r.h
  · simp only [hc, ↓reduceIte, xmin, xmax, ymin, ymax, two_eq, true_and]
    refine ⟨?_, ?_, ?_, ?_⟩ <;> ring
  · simp only [hc, ↓reduceIte, xmin, xmax, ymin, ymax, two_eq, true_and]
    refine ⟨?_, ?_, ?_, ?_⟩ <;> ring

/-- `levels` rounds of halving give `2^levels` pieces … -/
theorem halvings_count (r : Rect α) (levels : Nat) : (halvings r levels).length = 2 ^ levels :=
  halvings_length r levels

/-- … all of the same width and height (those obtained by halving the longer side `levels` times), each of
    area `area / 2^levels`. -/
theorem halvings_equal (r : Rect α) (levels : Nat) :
    ∀ p ∈ halvings r levels, (p.w, p.h) = halvedDims r.w r.h levels ∧ p.area = r.area / 2 ^ levels := by
  intro p hp
  have h := halvings_dims levels r p hp
  refine ⟨h, ?_⟩
  have h2 := halvedDims_area levels r.w r.h
  rw [← h] at h2
  exact h2

/-- `_split_allocation` returns exactly these pieces with the parent's ratios and depth `+ levels`. -/
theorem splitAllocation_is_halvings (levels : Nat) (r : Rect α) (al : Alloc α) (d : Nat) (hw : 0 < r.w) (hh : 0 < r.h) :
    splitAllocation r al d levels = .ok ((halvings r levels).map fun r' => ⟨r', al, d + levels⟩) :=
  splitAllocation_exact levels r al d hw hh

/-- **`refine` is exact**: on a valid allocation it succeeds and its cell list is, in order, each old cell
    either replaced by its `2^levels` halvings (ratios copied, depth `+ levels`) when the split condition holds,
    or kept as it is.
    DEVIATION FROM THE PROPERTY TEXT ("splits precisely the non-empty cells in which no module exceeds the
    threshold"): in the repaired code (`fixes/C02_fixed_cells_cut.diff`, required by C02 "cells of fixed modules
    are never cut") the split condition has the extra conjunct `c.rect.fixed = false` (`splitCond_iff`): this
    theorem is about the NON-FIXED cells; a fixed cell is kept as it is whatever its ratios (`else [c]` branch). -/
theorem refine_exact (env : Env α) (st : Eps α) (a : Allocation α) (t : α) (levels : Nat) (hv : ValidAlloc st a)
    (hl : 0 < levels) :
    ∃ a', refine env st a t levels = .ok (a', st) ∧
      a'.cells = a.cells.flatMap fun c =>
        if splitCond t c then (halvings c.rect levels).map fun r => ⟨r, c.alloc, c.depth + levels⟩ else [c] := by
  obtain ⟨a', h1, _, _, _, h5⟩ := refine_spec env st a t levels hv hl
  refine ⟨a', h1, ?_⟩
  rw [refineCells_exact t levels a.cells hv.pos] at h5
  injection h5 with h5
  exact h5.symm

/-- **the predicate is true exactly when refining changes the allocation**, and then the number of cells grows
    (so a loop guarded by the predicate makes progress at every iteration and is never entered on a fixpoint). -/
theorem mustBeRefined_iff_changes (env : Env α) (st : Eps α) (a : Allocation α) (t : α) (levels : Nat)
    (hv : ValidAlloc st a) (hl : 0 < levels) :
    ∃ a', refine env st a t levels = .ok (a', st) ∧
      (mustBeRefined a t = true ↔ a'.cells ≠ a.cells) ∧
      (mustBeRefined a t = true → a.cells.length < a'.cells.length) ∧
      (mustBeRefined a t = false → a'.cells = a.cells) := by
  obtain ⟨a', h1, h2⟩ := refine_exact env st a t levels hv hl
  have hfalse : mustBeRefined a t = false → a'.cells = a.cells := by
    intro hm
    rw [h2]
    apply flatMap_singleton_of
    intro c hc
    have : splitCond t c = false := by
      by_contra hne
      have : mustBeRefined a t = true := (mustBeRefined_iff_exists a t).mpr ⟨c, hc, by simpa using hne⟩
      rw [hm] at this; cases this
    simp [this]
  have htrue : mustBeRefined a t = true → a.cells.length < a'.cells.length := by
    intro hm
    obtain ⟨c, hc, hs⟩ := (mustBeRefined_iff_exists a t).mp hm
    rw [h2]
    apply length_flatMap_gt
    · intro x _
      by_cases hx : splitCond t x = true
      · simp only [hx, ↓reduceIte, List.length_map, halvings_length]; exact Nat.one_le_two_pow
      · simp [hx]
    · refine ⟨c, hc, ?_⟩
      simp only [hs, ↓reduceIte, List.length_map, halvings_length]
      calc 2 = 2 ^ 1 := rfl
        _ ≤ 2 ^ levels := Nat.pow_le_pow_right (by norm_num) hl
  refine ⟨a', h1, ⟨?_, ?_⟩, htrue, hfalse⟩
  · intro hm heq
    have := htrue hm
    rw [heq] at this
    exact lt_irrefl _ this
  · intro hne
    by_contra hm
    exact hne (hfalse (by simpa using hm))

/-
  NOT CLAIMED — "so the refine-until-stable loop always terminates".

  Read literally, for the bare loop

      while a.must_be_refined(t): a = a.refine(t)

  the clause is FALSE in the model (and in the code): the children of a split cell inherit its ratios and are not
  fixed, so they satisfy the split condition again — once the predicate is true it stays true for ever and the
  number of cells grows without bound (3, 4, 6, 10, 18, … on `exRaw`).  This is proved below
  (`bare_loop_never_stabilises`, `bare_loop_diverges`, for every valid allocation) and witnessed by kernel evaluation
  (`bare_loop_diverges_witness`).

  What IS proved about termination:
    * `mustBeRefined_iff_changes`: the predicate is true exactly when `refine` changes the allocation, and then
      `refine` strictly increases the number of cells — the loop is never entered on a fixpoint and never spins
      without progress (the failure the repaired guard `len(alloc) > 0` removes);
    * the loop that exists in the code base, `glbfloor`'s
      `while max_iter is None or n_iter <= max_iter: if must_be_refined: refine else break; optimize …`,
      rewrites the ratios between two refinements (the optimiser) and is bounded by `max_iter`; its model and
      its termination / post-conditions are C10's (`FV/Model/GlbAlloc.lean`, `FV/Props/C10.lean`).
-/

/-- the `k`-fold bare loop `a = a.refine(t)` (levels = 1), recording `(must_be_refined, number of cells)` before
    every iteration and at the end. -/
def bareLoopTrace (env : Env α) (st : Eps α) (t : α) : Nat → Allocation α → List (Bool × Nat)
  | 0, a => [(mustBeRefined a t, a.cells.length)]
  | k + 1, a =>
    (mustBeRefined a t, a.cells.length) ::
      match refine env st a t 1 with
      | .ok (b, st1) => bareLoopTrace env st1 t k b
      | .error _ => []

/-- **the bare loop never stabilises**: on a valid allocation on which the predicate is true, `refine` succeeds,
    returns a valid allocation with strictly more cells, and the predicate is true again. -/
theorem bare_loop_never_stabilises (env : Env α) (st : Eps α) (a : Allocation α) (t : α) (levels : Nat)
    (hv : ValidAlloc st a) (hl : 0 < levels) (hm : mustBeRefined a t = true) :
    ∃ b, refine env st a t levels = .ok (b, st) ∧ ValidAlloc st b ∧ a.cells.length < b.cells.length ∧
      mustBeRefined b t = true := by
  obtain ⟨b, h1, h2⟩ := refine_exact env st a t levels hv hl
  obtain ⟨b1, g1, gv, _⟩ := refine_spec env st a t levels hv hl
  rw [h1] at g1; injection g1 with g1; injection g1 with g1; subst g1
  obtain ⟨b2, k1, _, k3, _⟩ := mustBeRefined_iff_changes env st a t levels hv hl
  rw [h1] at k1; injection k1 with k1; injection k1 with k1; subst k1
  refine ⟨b, h1, gv, k3 hm, ?_⟩
  unfold mustBeRefined at hm ⊢
  rw [h2]
  exact any_splitCond_refined t levels a.cells hm

/-- **k-step corollary**: on a valid allocation on which the predicate is true the bare loop never exits — it runs all
    `k` requested iterations and every one of the `k + 1` recorded guards is true, for every `k`. -/
theorem bare_loop_diverges (env : Env α) (st : Eps α) (t : α) : ∀ (k : Nat) (a : Allocation α),
    ValidAlloc st a → mustBeRefined a t = true →
    (bareLoopTrace env st t k a).length = k + 1 ∧ ∀ p ∈ bareLoopTrace env st t k a, p.1 = true := by
  intro k
  induction k with
  | zero => intro a _ hm; simp [bareLoopTrace, hm]
  | succ k ih =>
    intro a hv hm
    obtain ⟨b, h1, hvb, _, hmb⟩ := bare_loop_never_stabilises env st a t 1 hv (by norm_num) hm
    obtain ⟨l1, l2⟩ := ih b hvb hmb
    simp only [bareLoopTrace, h1, List.length_cons, l1, List.mem_cons, true_and]
    intro p hp
    rcases hp with rfl | hp
    · exact hm
    · exact l2 p hp

/-- **witness**: on the concrete allocation `exRaw` (threshold 1/2) four iterations of the bare loop keep the
    predicate true while the cell count goes 3, 4, 6, 10, 18 (kernel evaluation of the model). -/
theorem bare_loop_diverges_witness :
    (match mkAllocation exEnv ⟨-1, -1⟩ exRaw with
      | .ok (a, st) => bareLoopTrace exEnv st (1/2) 4 a
      | .error _ => []) = [(true, 3), (true, 4), (true, 6), (true, 10), (true, 18)] := by
  decide +kernel

/-! ### uniform depth -/

/-- `max_refinement_depth`: an upper bound of all depths that some cell attains. -/
theorem maxDepth_spec (cells : List (Cell α)) (hne : cells ≠ []) :
    (∀ c ∈ cells, c.depth ≤ maxDepth cells) ∧ ∃ c ∈ cells, c.depth = maxDepth cells :=
  ⟨le_maxDepth cells, maxDepth_attained cells hne⟩

/-- **`uniform_refinement_depth` is exact**: every refinable (non-fixed) cell is replaced by its `2^(max − depth)` halvings at
    depth `max`; cells of fixed modules are kept.  (When all depths agree the object itself is returned, which is
    the same list.) -/
theorem uniform_exact (env : Env α) (st : Eps α) (a : Allocation α) (hv : ValidAlloc st a) :
    ∃ a', uniform env st a = .ok (a', st) ∧
      (maxDepth a.cells ≠ minDepth a.cells → a'.cells = a.cells.flatMap (uniformCell (maxDepth a.cells))) ∧
      (maxDepth a.cells = minDepth a.cells → a' = a) := by
  obtain ⟨a', h1, _, _, _, h5⟩ := uniform_spec env st a hv
  refine ⟨a', h1, ?_, ?_⟩
  · intro hne
    rcases h5 with ⟨he, _⟩ | ⟨_, h6⟩
    · exact absurd he hne
    · rw [uniformCells_exact a.cells hv.pos] at h6
      injection h6 with h6
      exact h6.symm
  · intro he
    rcases h5 with ⟨_, h6⟩ | ⟨hne, _⟩
    · exact h6
    · exact absurd he hne

/-- **afterwards every refinable cell is at the former maximum depth**.
    DEVIATION FROM THE PROPERTY TEXT ("ends with every cell at the former maximum depth"): the statement is for the
    NON-FIXED cells only (`d.rect.fixed = false`).  In the repaired code cells of fixed modules are exempt from
    uniform refinement — they are kept whole at the depth they had (second conjunct), as C02 requires. -/
theorem uniform_all_maxdepth (env : Env α) (st : Eps α) (a : Allocation α) (hv : ValidAlloc st a) :
    ∃ a', uniform env st a = .ok (a', st) ∧
      (∀ d ∈ a'.cells, d.rect.fixed = false → d.depth = maxDepth a.cells) ∧
      (∀ c ∈ a.cells, c.rect.fixed = true → c ∈ a'.cells) := by
  obtain ⟨a', h1, h2, h3⟩ := uniform_exact env st a hv
  obtain ⟨a'', g1, _, g3, _⟩ := uniform_spec env st a hv
  rw [h1] at g1
  injection g1 with g1; injection g1 with g1
  subst g1
  refine ⟨a', h1, ?_, g3.fixed_kept⟩
  intro d hd hf
  by_cases hm : maxDepth a.cells = minDepth a.cells
  · rw [h3 hm] at hd
    have u1 := le_maxDepth a.cells d hd
    have u2 := minDepth_le a.cells d hd
    omega
  · rw [h2 hm] at hd
    obtain ⟨c, hc, hdc⟩ := List.mem_flatMap.mp hd
    unfold uniformCell at hdc
    obtain ⟨r, hr, rfl⟩ := List.mem_map.mp hdc
    simp only at hf ⊢
    have hcf : c.rect.fixed = false := by
      by_contra hcf'
      have hcf'' : c.rect.fixed = true := by simpa using hcf'
      rw [hcf''] at hr
      simp only [↓reduceIte, halvings, List.mem_singleton] at hr
      rw [hr, hcf''] at hf
      cases hf
    have := le_maxDepth a.cells c hc
    simp only [hcf, Bool.false_eq_true, ↓reduceIte]
    omega

/-! ### gridding: alignment

  The 1 % rule is `xCuttable r x ρ = true ↔ xmin < x < xmax ∧ ρ·h < min (x − xmin) (xmax − x)` (C18 `xCuttable_iff`,
  `CutsX` here) with a STRICT inequality, exactly as `min(...) > ratio * self.shape.h` in the code: a cut whose
  smaller piece is EXACTLY 1 % of the other side is refused (the property text says "thinner than 1 %" are excepted;
  the boundary case is excepted as well).  All alignment statements below are relative to this predicate. -/

/-- **y alignment (full)**: after `griddify` no refinable cell is y-cuttable (1% rule, `env.rho`) at any of the
    cut lines `y_cuts[1..-2]` gathered from the original cells. -/
theorem griddify_aligned_y (env : Env α) (st : Eps α) (a : Allocation α) (hv : ValidAlloc st a) :
    ∃ a' xs ys, griddify env st a = .ok (a', st) ∧ gatherBoundaries st (a.cells.map (·.rect)) = .ok (xs, ys) ∧
      ∀ d ∈ a'.cells, d.rect.fixed = false → ∀ y, InteriorCut ys y → d.rect.yCuttable y env.rho = false := by
  obtain ⟨a', h1, _, _, _, xs, ys, hb, hgc⟩ := griddify_spec env st a hv
  refine ⟨a', xs, ys, h1, hb, ?_⟩
  intro d hd hf y hy
  obtain ⟨_, _, hyi⟩ := griddifyCells_aligned env.rho xs ys a.cells a'.cells hv.cells.good hgc d hd
  have := hyi hf y hy
  rw [← yCuttable_iff_CutsX] at this
  simpa using this

/-- **x alignment relative to the parent**: every refinable result cell `d` lies in an original cell `c0` such
    that no cut line `x_cuts[1..-2]` crosses `d` leaving both pieces wider than 1% of the *parent's* height
    (the height the decision was taken with). -/
theorem griddify_aligned_x_parent (env : Env α) (st : Eps α) (a : Allocation α) (hv : ValidAlloc st a) :
    ∃ a' xs ys, griddify env st a = .ok (a', st) ∧ gatherBoundaries st (a.cells.map (·.rect)) = .ok (xs, ys) ∧
      ∀ d ∈ a'.cells, d.rect.fixed = false → ∃ c0 ∈ a.cells, d.rect.isInside c0.rect = true ∧ d.rect.h ≤ c0.rect.h ∧
        ∀ x, InteriorCut xs x → ¬ CutsX env.rho c0.rect.h d.rect.xmin d.rect.xmax x := by
  obtain ⟨a', h1, _, _, _, xs, ys, hb, hgc⟩ := griddify_spec env st a hv
  refine ⟨a', xs, ys, h1, hb, ?_⟩
  intro d hd hf
  obtain ⟨_, ⟨c0, hc0, hin, hh, hx⟩, _⟩ := griddifyCells_aligned env.rho xs ys a.cells a'.cells hv.cells.good hgc d hd
  exact ⟨c0, hc0, hin, hh, hx hf⟩

/-
  NOT YET PROVED (and false on the code — open finding `C12-griddify-x-before-y`,
  `findings/C12_griddify_x_before_y.json`):

    theorem griddify_aligned_x … :
      ∀ d ∈ a'.cells, d.rect.fixed = false → ∀ x, InteriorCut xs x → d.rect.xCuttable x env.rho = false

  The x cuts are decided before the y cuts shorten the cells, so a cut refused as a sliver for the tall parent
  can be a proper cut for the final cell.  Proved instead: the statement with the parent's height
  (`griddify_aligned_x_parent`, exact description of what the code guarantees) and the full statement for every
  cell the y sweep did not shorten (`griddify_aligned_x_partial`, hypothesis `hh`).
-/

/-- **x alignment (partial)**: a refinable result cell that still has the height of the original cells containing
    it is not x-cuttable at any cut line. -/
theorem griddify_aligned_x_partial (env : Env α) (st : Eps α) (a : Allocation α) (hv : ValidAlloc st a) :
    ∃ a' xs ys, griddify env st a = .ok (a', st) ∧ gatherBoundaries st (a.cells.map (·.rect)) = .ok (xs, ys) ∧
      ∀ d ∈ a'.cells, d.rect.fixed = false →
        (hh : ∀ c0 ∈ a.cells, d.rect.isInside c0.rect = true → d.rect.h = c0.rect.h) →
        ∀ x, InteriorCut xs x → d.rect.xCuttable x env.rho = false := by
  obtain ⟨a', xs, ys, h1, hb, hx⟩ := griddify_aligned_x_parent env st a hv
  refine ⟨a', xs, ys, h1, hb, ?_⟩
  intro d hd hf hh x hxi
  obtain ⟨c0, hc0, hin, _, hno⟩ := hx d hd hf
  have := hno x hxi
  rw [← hh c0 hc0 hin, ← xCuttable_iff_CutsX] at this
  simpa using this

/-! ### gridding: no refinable cell is crossed by a side line of another cell

  `gather_boundaries` merges coordinates closer than the distance tolerance; the statements below are for layouts
  whose side coordinates are `Separated` (two coordinates are equal or more than the tolerance apart — the
  tolerance only merges float-noise copies of one line), so that every side line is one of the cut lines. -/

/-- **no crossing in y (full)**: after `griddify`, no refinable cell is y-cuttable (1% rule) at the lower or upper
    side line of *any* cell of the result. -/
theorem griddify_no_crossing_y (env : Env α) (st : Eps α) (a : Allocation α) (hv : ValidAlloc st a)
    (hsep : Separated st.dist (sidesY (a.cells.map (·.rect)))) :
    ∃ a', griddify env st a = .ok (a', st) ∧
      ∀ d ∈ a'.cells, d.rect.fixed = false → ∀ e ∈ a'.cells,
        d.rect.yCuttable e.rect.ymin env.rho = false ∧ d.rect.yCuttable e.rect.ymax env.rho = false := by
  obtain ⟨a', xs, ys, h1, _, ey, hinv, hsides⟩ := griddify_result env st a hv
  obtain ⟨hinc, hmem⟩ := uniqEps_sortAsc_spec st.dist hv.epsDef _ hsep
  rw [← ey] at hinc hmem
  refine ⟨a', h1, ?_⟩
  intro d hd hf e he
  obtain ⟨_, _, _, d3, d4⟩ := hsides d hd
  obtain ⟨_, _, _, e3, e4⟩ := hsides e he
  obtain ⟨_, _, hy⟩ := hinv d hd
  have key : ∀ z, z ∈ sidesY (a.cells.map (·.rect)) → d.rect.yCuttable z env.rho = false := by
    intro z hz
    by_contra hc
    have hc' : d.rect.yCuttable z env.rho = true := by simpa using hc
    have hin := yCuttable_imp_strict_inside d.rect z env.rho hc'
    have hcut := interiorCut_of_between ys hinc d.rect.ymin z d.rect.ymax ((hmem _).mpr d3) ((hmem _).mpr hz)
      ((hmem _).mpr d4) hin.1 hin.2
    exact hy hf z hcut ((yCuttable_iff_CutsX d.rect z env.rho).mp hc')
  exact ⟨key _ e3, key _ e4⟩

/-- **no crossing in x (partial)**: the same for the left and right side lines, for every refinable cell that still
    has the height of the original cells containing it (hypothesis `hh`; without it the statement is false on the
    code — open finding `C12-griddify-x-before-y`). -/
theorem griddify_no_crossing_x_partial (env : Env α) (st : Eps α) (a : Allocation α) (hv : ValidAlloc st a)
    (hsep : Separated st.dist (sidesX (a.cells.map (·.rect)))) :
    ∃ a', griddify env st a = .ok (a', st) ∧
      ∀ d ∈ a'.cells, d.rect.fixed = false →
        (hh : ∀ c0 ∈ a.cells, d.rect.isInside c0.rect = true → d.rect.h = c0.rect.h) → ∀ e ∈ a'.cells,
        d.rect.xCuttable e.rect.xmin env.rho = false ∧ d.rect.xCuttable e.rect.xmax env.rho = false := by
  obtain ⟨a', xs, ys, h1, ex, _, hinv, hsides⟩ := griddify_result env st a hv
  obtain ⟨hinc, hmem⟩ := uniqEps_sortAsc_spec st.dist hv.epsDef _ hsep
  rw [← ex] at hinc hmem
  refine ⟨a', h1, ?_⟩
  intro d hd hf hh e he
  obtain ⟨_, d1, d2, _, _⟩ := hsides d hd
  obtain ⟨_, e1, e2, _, _⟩ := hsides e he
  obtain ⟨_, ⟨c0, hc0, hin0, _, hx⟩, _⟩ := hinv d hd
  have key : ∀ z, z ∈ sidesX (a.cells.map (·.rect)) → d.rect.xCuttable z env.rho = false := by
    intro z hz
    by_contra hc
    have hc' : d.rect.xCuttable z env.rho = true := by simpa using hc
    have hin := xCuttable_imp_strict_inside d.rect z env.rho hc'
    have hcut := interiorCut_of_between xs hinc d.rect.xmin z d.rect.xmax ((hmem _).mpr d1) ((hmem _).mpr hz)
      ((hmem _).mpr d2) hin.1 hin.2
    have := (xCuttable_iff_CutsX d.rect z env.rho).mp hc'
    rw [hh c0 hc0 hin0] at this
    exact hx hf z hcut this
  exact ⟨key _ e1, key _ e2⟩

/-! ### non-vacuity: the hypotheses are met by concrete allocations over `ℚ`, and the theorems are applied to them

  `exRaw` (three cells, one with an EMPTY ratio map, one in region `dsp` at depth 1) and `exRawF` (three `Rectangle`
  objects, the second one flagged FIXED with ratio 1) are defined in `FV/Proofs/Alloc.lean`. -/

/-- the constructor accepts `exRaw` (which contains a cell with an empty ratio map) and returns a `ValidAlloc`. -/
theorem ex_valid : ∃ a st, mkAllocation exEnv ⟨-1, -1⟩ exRaw = .ok (a, st) ∧ ValidAlloc st a := exRaw_valid

/-- the same for an allocation containing a fixed cell. -/
theorem ex_fixed_valid : ∃ a st, mkAllocation exEnv ⟨-1, -1⟩ exRawF = .ok (a, st) ∧ ValidAlloc st a := exRawF_valid

/-- `refine_exact` and `mustBeRefined_iff_changes` applied to `exRaw` at threshold 1/2: the predicate is true, the
    first cell (ratios 1/2, 1/4) is halved, the cell with ratio 3/4 and the cell with the empty map are kept. -/
theorem ex_refine : ∃ a st b, mkAllocation exEnv ⟨-1, -1⟩ exRaw = .ok (a, st) ∧
    refine exEnv st a (1/2) 1 = .ok (b, st) ∧ mustBeRefined a (1/2) = true ∧ a.cells.length < b.cells.length ∧
    b.cells = a.cells.flatMap fun c =>
      if splitCond (1/2) c then (halvings c.rect 1).map fun r => ⟨r, c.alloc, c.depth + 1⟩ else [c] := by
  obtain ⟨a, st, h, hv⟩ := ex_valid
  obtain ⟨b, h1, h2⟩ := refine_exact exEnv st a (1/2) 1 hv (by norm_num)
  obtain ⟨b1, g1, _, g3, _⟩ := mustBeRefined_iff_changes exEnv st a (1/2) 1 hv (by norm_num)
  rw [h1] at g1; injection g1 with g1; injection g1 with g1; subst g1
  have hm : mustBeRefined a (1/2) = true := by
    have hc : (match mkAllocation exEnv ⟨-1, -1⟩ exRaw with
        | .ok (a, _) => mustBeRefined a (1/2) | .error _ => false) = true := by decide +kernel
    rw [h] at hc; exact hc
  exact ⟨a, st, b, h, h1, hm, g3 hm, h2⟩

/-- the same on the allocation with a fixed cell at threshold 1 (every ratio ≤ 1): the fixed cell — ratio 1, the case
    the unrepaired code cut — is kept, the two refinable cells are halved (3 cells become 5, checked below). -/
theorem ex_refine_fixed : ∃ a st b, mkAllocation exEnv ⟨-1, -1⟩ exRawF = .ok (a, st) ∧
    refine exEnv st a 1 1 = .ok (b, st) ∧ (mustBeRefined a 1 = true ↔ b.cells ≠ a.cells) ∧
    (∀ c ∈ a.cells, c.rect.fixed = true → splitCond 1 c = false) ∧
    b.cells = a.cells.flatMap fun c =>
      if splitCond 1 c then (halvings c.rect 1).map fun r => ⟨r, c.alloc, c.depth + 1⟩ else [c] := by
  obtain ⟨a, st, h, hv⟩ := ex_fixed_valid
  obtain ⟨b, h1, h2⟩ := refine_exact exEnv st a 1 1 hv (by norm_num)
  obtain ⟨b1, g1, g2, _, _⟩ := mustBeRefined_iff_changes exEnv st a 1 1 hv (by norm_num)
  rw [h1] at g1; injection g1 with g1; injection g1 with g1; subst g1
  refine ⟨a, st, b, h, h1, g2, ?_, h2⟩
  intro c _ hf
  simp [splitCond, hf]

example : (match mkAllocation exEnv ⟨-1, -1⟩ exRawF with
    | .ok (a, st) => (match refine exEnv st a 1 1 with
        | .ok (b, _) => (a.cells.length, b.cells.length, mustBeRefined a 1,
            b.cells.any (fun c => c.rect.fixed && decide (c.rect.w = 2) && c.depth == 0)) | .error _ => (0, 0, false, false))
    | .error _ => (0, 0, false, false)) = (3, 5, true, true) := by decide +kernel
example : (match mkAllocation exEnv ⟨-1, -1⟩ exRaw with
    | .ok (a, _) => mustBeRefined a (1/2) && !mustBeRefined a (1/4)
    | .error _ => false) = true := by decide +kernel
example : (halvings (⟨1, 1, 2, 2, "_", false, false, .nopoly⟩ : Rect ℚ) 3).length = 8 := by decide +kernel
/-- `uniform_all_maxdepth` has its hypothesis met as well (applied to `exRawF`). -/
example : ∃ a st b, mkAllocation exEnv ⟨-1, -1⟩ exRawF = .ok (a, st) ∧ uniform exEnv st a = .ok (b, st) ∧
    ∀ d ∈ b.cells, d.rect.fixed = false → d.depth = maxDepth a.cells := by
  obtain ⟨a, st, h, hv⟩ := ex_fixed_valid
  obtain ⟨b, h1, h2, _⟩ := uniform_all_maxdepth exEnv st a hv
  exact ⟨a, st, b, h, h1, h2⟩

/-- `griddify_no_crossing_y` APPLIED with every hypothesis discharged (`ValidAlloc`, and `Separated` by kernel
    evaluation) to the 7-cell layout `wRaw`, on which `griddify` really cuts. -/
example : ∃ a st b, mkAllocation exEnv ⟨-1, -1⟩ wRaw = .ok (a, st) ∧ griddify exEnv st a = .ok (b, st) ∧
    a.cells.length < b.cells.length ∧
    ∀ d ∈ b.cells, d.rect.fixed = false → ∀ e ∈ b.cells,
      d.rect.yCuttable e.rect.ymin exEnv.rho = false ∧ d.rect.yCuttable e.rect.ymax exEnv.rho = false := by
  obtain ⟨a, st, h, hv⟩ := wRaw_valid
  have hs : Separated st.dist (sidesY (a.cells.map (·.rect))) := by
    apply sepB_sound
    have hc : (match mkAllocation exEnv ⟨-1, -1⟩ wRaw with
        | .ok (a, st) => sepB st.dist (sidesY (a.cells.map (·.rect))) | .error _ => false) = true := by decide +kernel
    rw [h] at hc; exact hc
  obtain ⟨b, h1, h2⟩ := griddify_no_crossing_y exEnv st a hv hs
  refine ⟨a, st, b, h, h1, ?_, h2⟩
  have hc : (match mkAllocation exEnv ⟨-1, -1⟩ wRaw with
      | .ok (a, st) => (match griddify exEnv st a with | .ok (b, _) => decide (a.cells.length < b.cells.length) | .error _ => false)
      | .error _ => false) = true := by decide +kernel
  rw [h] at hc; simp only [h1] at hc; simpa using hc

/-- on the same layout the x statement WITHOUT the hypothesis `hh` is false in the model (a refinable result cell is
    x-cuttable at a side line of another result cell): `griddify_no_crossing_x_partial` cannot be strengthened —
    this is the open finding `C12-griddify-x-before-y`. -/
example : (match mkAllocation exEnv ⟨-1, -1⟩ wRaw with
    | .ok (a, st) => (match griddify exEnv st a with
        | .ok (b, _) => b.cells.any fun d => !d.rect.fixed && b.cells.any fun e => d.rect.xCuttable e.rect.xmin exEnv.rho
        | .error _ => false)
    | .error _ => false) = true := by decide +kernel

/-- `bare_loop_never_stabilises` / `bare_loop_diverges` applied to `exRaw` at threshold 1/2. -/
example : ∃ a st, mkAllocation exEnv ⟨-1, -1⟩ exRaw = .ok (a, st) ∧
    ∀ k, (bareLoopTrace exEnv st (1/2) k a).length = k + 1 ∧ ∀ p ∈ bareLoopTrace exEnv st (1/2) k a, p.1 = true := by
  obtain ⟨a, st, b, h, _, hm, _, _⟩ := ex_refine
  obtain ⟨a2, st2, h2, hv⟩ := ex_valid
  rw [h] at h2; injection h2 with h2; injection h2 with ha hs; subst ha; subst hs
  exact ⟨a, st, h, fun k => bare_loop_diverges exEnv st (1/2) k a hv hm⟩

/-- the 1 % boundary: a cut whose smaller piece is EXACTLY `ρ·(other side)` is refused, anything larger accepted. -/
example : (⟨2, 1, 4, 2, "_", false, false, .nopoly⟩ : Rect ℚ).xCuttable (1/50) (1/100) = false ∧
    (⟨2, 1, 4, 2, "_", false, false, .nopoly⟩ : Rect ℚ).xCuttable (1/50 + 1/1000000) (1/100) = true := by decide +kernel

end FV.C12

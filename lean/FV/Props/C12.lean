import FV.Proofs.Alloc
/-
  C12 — Refinement decisions are consistent, exact and terminate.
  Property theorems only (helper lemmas and the spec definitions `ValidAlloc`, `Refines`, `halveLonger`,
  `halvings`, `halvedDims`, `refinedCell`, `uniformCell`, `CutsX`, `InteriorCut`, `Separated`, `sidesX/Y` live in `FV/Proofs/Alloc.lean`).
  All statements are over an arbitrary linearly ordered field `α`; `env` (the literals `1e-12`, `0.01` = `env.rho`,
  `math.sqrt`) is arbitrary.  The model is the code with `fixes/C02_fixed_cells_cut.diff`,
  `fixes/C02_griddify_yloop.diff` and `fixes/C12_must_be_refined_guard.diff` applied.

  Termination clause ("so the refine-until-stable loop always terminates"): NOT CLAIMED for the bare loop — see the
  block `NOT CLAIMED` below (`bare_loop_never_stabilises`, `bare_loop_diverges_witness`).  What is proved: the
  predicate is true exactly on the non-fixpoints of `refine`, and every guarded call strictly increases the number
  of cells (`mustBeRefined_iff_changes`).

  Fixed cells: in the repaired code cells of fixed modules are exempt from threshold and uniform refinement; the
  statements `refine_exact`, `uniform_exact`, `uniform_all_maxdepth` say so explicitly (the property text says
  "every cell").
-/
namespace FV.C12
open FV FV.Alloc FV.Rect FV.C18
set_option linter.unusedSectionVars false
set_option linter.unusedSimpArgs false
set_option linter.unusedVariables false

variable {α : Type} [Field α] [LinearOrder α] [IsStrictOrderedRing α]

/-! ### the split condition and the predicate -/

/-- a cell is split by `refine(t)` iff it is refinable (not of a fixed module), lists at least one module, and
    no listed module exceeds the threshold. -/
theorem splitCond_iff (t : α) (c : Cell α) :
    splitCond t c = true ↔ (c.rect.fixed = false ∧ c.alloc ≠ [] ∧ ∀ p ∈ c.alloc, p.2 ≤ t) := by
  simp only [splitCond, Bool.and_eq_true, Bool.not_eq_true', List.all_eq_true, decide_eq_true_eq,
    List.isEmpty_eq_false_iff, ne_eq, and_assoc]

/-- `must_be_refined(t)` says that some cell would be split. -/
theorem mustBeRefined_iff_exists (a : Allocation α) (t : α) :
    mustBeRefined a t = true ↔ ∃ c ∈ a.cells, splitCond t c = true := by
  simp [mustBeRefined]

/-! ### threshold refinement is exact -/

/-- `split()` is the halving of the longer side (the width on a tie), in coordinates. -/
theorem split_is_halveLonger (r : Rect α) (hw : 0 < r.w) (hh : 0 < r.h) : r.split = some (halveLonger r) :=
  split_eq_halveLonger r hw hh

/-- the two halves are congruent and together have the sides of the rectangle. -/
theorem halveLonger_spec (r : Rect α) :
    let p := (halveLonger r).1
    let q := (halveLonger r).2
    p.w = q.w ∧ p.h = q.h ∧
      (if r.w < r.h then p.w = r.w ∧ p.h = r.h / 2 ∧ p.xmin = r.xmin ∧ p.xmax = r.xmax ∧ p.ymin = r.ymin ∧ p.ymax = r.cy ∧
          q.xmin = r.xmin ∧ q.xmax = r.xmax ∧ q.ymin = r.cy ∧ q.ymax = r.ymax
       else p.w = r.w / 2 ∧ p.h = r.h ∧ p.ymin = r.ymin ∧ p.ymax = r.ymax ∧ p.xmin = r.xmin ∧ p.xmax = r.cx ∧
          q.ymin = r.ymin ∧ q.ymax = r.ymax ∧ q.xmin = r.cx ∧ q.xmax = r.xmax) := by
  unfold halveLonger
  by_cases hc : r.w < r.h
  · simp only [hc, ↓reduceIte, xmin, xmax, ymin, ymax, two_eq, true_and]
    refine ⟨?_, ?_, ?_, ?_⟩ <;> ring
  · simp only [hc, ↓reduceIte, xmin, xmax, ymin, ymax, two_eq, true_and]
    refine ⟨?_, ?_, ?_, ?_⟩ <;> ring

/-- `levels` rounds of halving give `2^levels` pieces … -/
theorem halvings_count (r : Rect α) (levels : Nat) : (halvings r levels).length = 2 ^ levels :=
  halvings_length r levels

/-- … all of the same width and height (those obtained by halving the longer side `levels` times), each of
    area `area / 2^levels`. -/
theorem halvings_equal (r : Rect α) (levels : Nat) :
    ∀ p ∈ halvings r levels, (p.w, p.h) = halvedDims r.w r.h levels ∧ p.area = r.area / 2 ^ levels := by
  intro p hp
  have h := halvings_dims levels r p hp
  refine ⟨h, ?_⟩
  have h2 := halvedDims_area levels r.w r.h
  rw [← h] at h2
  exact h2

/-- `_split_allocation` returns exactly these pieces with the parent's ratios and depth `+ levels`. -/
theorem splitAllocation_is_halvings (levels : Nat) (r : Rect α) (al : Alloc α) (d : Nat) (hw : 0 < r.w) (hh : 0 < r.h) :
    splitAllocation r al d levels = .ok ((halvings r levels).map fun r' => ⟨r', al, d + levels⟩) :=
  splitAllocation_exact levels r al d hw hh

/-- **`refine` is exact**: on a valid allocation it succeeds and its cell list is, in order, each old cell
    either replaced by its `2^levels` halvings (ratios copied, depth `+ levels`) when the split condition holds,
    or kept as it is.
    DEVIATION FROM THE PROPERTY TEXT ("splits precisely the non-empty cells in which no module exceeds the
    threshold"): in the repaired code (`fixes/C02_fixed_cells_cut.diff`, required by C02 "cells of fixed modules
    are never cut") the split condition has the extra conjunct `c.rect.fixed = false` (`splitCond_iff`): this
    theorem is about the NON-FIXED cells; a fixed cell is kept as it is whatever its ratios (`else [c]` branch). -/
theorem refine_exact (env : Env α) (st : Eps α) (a : Allocation α) (t : α) (levels : Nat) (hv : ValidAlloc st a)
    (hl : 0 < levels) :
    ∃ a', refine env st a t levels = .ok (a', st) ∧
      a'.cells = a.cells.flatMap fun c =>
        if splitCond t c then (halvings c.rect levels).map fun r => ⟨r, c.alloc, c.depth + levels⟩ else [c] := by
  obtain ⟨a', h1, _, _, _, h5⟩ := refine_spec env st a t levels hv hl
  refine ⟨a', h1, ?_⟩
  rw [refineCells_exact t levels a.cells hv.pos] at h5
  injection h5 with h5
  exact h5.symm

/-- **the predicate is true exactly when refining changes the allocation**, and then the number of cells grows
    (so a loop guarded by the predicate makes progress at every iteration and is never entered on a fixpoint). -/
theorem mustBeRefined_iff_changes (env : Env α) (st : Eps α) (a : Allocation α) (t : α) (levels : Nat)
    (hv : ValidAlloc st a) (hl : 0 < levels) :
    ∃ a', refine env st a t levels = .ok (a', st) ∧
      (mustBeRefined a t = true ↔ a'.cells ≠ a.cells) ∧
      (mustBeRefined a t = true → a.cells.length < a'.cells.length) ∧
      (mustBeRefined a t = false → a'.cells = a.cells) := by
  obtain ⟨a', h1, h2⟩ := refine_exact env st a t levels hv hl
  have hfalse : mustBeRefined a t = false → a'.cells = a.cells := by
    intro hm
    rw [h2]
    apply flatMap_singleton_of
    intro c hc
    have : splitCond t c = false := by
      by_contra hne
      have : mustBeRefined a t = true := (mustBeRefined_iff_exists a t).mpr ⟨c, hc, by simpa using hne⟩
      rw [hm] at this; cases this
    simp [this]
  have htrue : mustBeRefined a t = true → a.cells.length < a'.cells.length := by
    intro hm
    obtain ⟨c, hc, hs⟩ := (mustBeRefined_iff_exists a t).mp hm
    rw [h2]
    apply length_flatMap_gt
    · intro x _
      by_cases hx : splitCond t x = true
      · simp only [hx, ↓reduceIte, List.length_map, halvings_length]; exact Nat.one_le_two_pow
      · simp [hx]
    · refine ⟨c, hc, ?_⟩
      simp only [hs, ↓reduceIte, List.length_map, halvings_length]
      calc 2 = 2 ^ 1 := rfl
        _ ≤ 2 ^ levels := Nat.pow_le_pow_right (by norm_num) hl
  refine ⟨a', h1, ⟨?_, ?_⟩, htrue, hfalse⟩
  · intro hm heq
    have := htrue hm
    rw [heq] at this
    exact lt_irrefl _ this
  · intro hne
    by_contra hm
    exact hne (hfalse (by simpa using hm))

/-- **how many cells `refine` returns** (`num_rectangles`): every cell that meets the split condition is replaced by
    `2^levels` cells, every other cell is kept — `n + (2^levels − 1)·#{split cells}`. -/
theorem refine_num_rectangles (env : Env α) (st : Eps α) (a : Allocation α) (t : α) (levels : Nat) (hv : ValidAlloc st a)
    (hl : 0 < levels) :
    ∃ a', refine env st a t levels = .ok (a', st) ∧
      a'.numRectangles = a.numRectangles + (2 ^ levels - 1) * a.cells.countP (splitCond t) := by
  obtain ⟨a', h1, h2⟩ := refine_exact env st a t levels hv hl
  refine ⟨a', h1, ?_⟩
  unfold Allocation.numRectangles
  rw [h2]
  generalize a.cells = cs
  have hp : 1 ≤ 2 ^ levels := Nat.one_le_two_pow
  induction cs with
  | nil => simp
  | cons c cs ih =>
    rw [List.flatMap_cons, List.length_append, ih, List.countP_cons, List.length_cons]
    by_cases hc : splitCond t c = true
    · simp only [hc, ↓reduceIte, List.length_map, halvings_length, Nat.mul_add, Nat.mul_one]
      omega
    · simp only [hc, Bool.false_eq_true, ↓reduceIte, List.length_cons, List.length_nil, Nat.add_zero]
      omega

/-
  NOT CLAIMED — "so the refine-until-stable loop always terminates".

  Read literally, for the bare loop

      while a.must_be_refined(t): a = a.refine(t)

  the clause is FALSE in the model (and in the code): the children of a split cell inherit its ratios and are not
  fixed, so they satisfy the split condition again — once the predicate is true it stays true for ever and the
  number of cells grows without bound (3, 4, 6, 10, 18, … on `exRaw`).  This is proved below
  (`bare_loop_never_stabilises`, `bare_loop_diverges`, for every valid allocation) and witnessed by kernel evaluation
  (`bare_loop_diverges_witness`).

  What IS proved about termination:
    * `mustBeRefined_iff_changes`: the predicate is true exactly when `refine` changes the allocation, and then
      `refine` strictly increases the number of cells — the loop is never entered on a fixpoint and never spins
      without progress (the failure the repaired guard `len(alloc) > 0` removes);
    * the loop that exists in the code base, `glbfloor`'s
      `while max_iter is None or n_iter <= max_iter: if must_be_refined: refine else break; optimize …`,
      rewrites the ratios between two refinements (the optimiser) and is bounded by `max_iter`; its model and
      its termination / post-conditions are C10's (`FV/Model/GlbAlloc.lean`, `FV/Props/C10.lean`).
-/

/-- the `k`-fold bare loop `a = a.refine(t)` (levels = 1), recording `(must_be_refined, number of cells)` before
    every iteration and at the end. -/
def bareLoopTrace (env : Env α) (st : Eps α) (t : α) : Nat → Allocation α → List (Bool × Nat)
  | 0, a => [(mustBeRefined a t, a.cells.length)]
  | k + 1, a =>
    (mustBeRefined a t, a.cells.length) ::
      match refine env st a t 1 with
      | .ok (b, st1) => bareLoopTrace env st1 t k b
      | .error _ => []

/-- **the bare loop never stabilises**: on a valid allocation on which the predicate is true, `refine` succeeds,
    returns a valid allocation with strictly more cells, and the predicate is true again. -/
theorem bare_loop_never_stabilises (env : Env α) (st : Eps α) (a : Allocation α) (t : α) (levels : Nat)
    (hv : ValidAlloc st a) (hl : 0 < levels) (hm : mustBeRefined a t = true) :
    ∃ b, refine env st a t levels = .ok (b, st) ∧ ValidAlloc st b ∧ a.cells.length < b.cells.length ∧
      mustBeRefined b t = true := by
  obtain ⟨b, h1, h2⟩ := refine_exact env st a t levels hv hl
  obtain ⟨b1, g1, gv, _⟩ := refine_spec env st a t levels hv hl
  rw [h1] at g1; injection g1 with g1; injection g1 with g1; subst g1
  obtain ⟨b2, k1, _, k3, _⟩ := mustBeRefined_iff_changes env st a t levels hv hl
  rw [h1] at k1; injection k1 with k1; injection k1 with k1; subst k1
  refine ⟨b, h1, gv, k3 hm, ?_⟩
  unfold mustBeRefined at hm ⊢
  rw [h2]
  exact any_splitCond_refined t levels a.cells hm

/-- **k-step corollary**: on a valid allocation on which the predicate is true the bare loop never exits — it runs all
    `k` requested iterations and every one of the `k + 1` recorded guards is true, for every `k`. -/
theorem bare_loop_diverges (env : Env α) (st : Eps α) (t : α) : ∀ (k : Nat) (a : Allocation α),
    ValidAlloc st a → mustBeRefined a t = true →
    (bareLoopTrace env st t k a).length = k + 1 ∧ ∀ p ∈ bareLoopTrace env st t k a, p.1 = true := by
  intro k
  induction k with
  | zero => intro a _ hm; simp [bareLoopTrace, hm]
  | succ k ih =>
    intro a hv hm
    obtain ⟨b, h1, hvb, _, hmb⟩ := bare_loop_never_stabilises env st a t 1 hv (by norm_num) hm
    obtain ⟨l1, l2⟩ := ih b hvb hmb
    simp only [bareLoopTrace, h1, List.length_cons, l1, List.mem_cons, true_and]
    intro p hp
    rcases hp with rfl | hp
    · exact hm
    · exact l2 p hp

/-- **witness**: on the concrete allocation `exRaw` (threshold 1/2) four iterations of the bare loop keep the
    predicate true while the cell count goes 3, 4, 6, 10, 18 (kernel evaluation of the model). -/
theorem bare_loop_diverges_witness :
    (match mkAllocation exEnv ⟨-1, -1⟩ exRaw with
      | .ok (a, st) => bareLoopTrace exEnv st (1/2) 4 a
      | .error _ => []) = [(true, 3), (true, 4), (true, 6), (true, 10), (true, 18)] := by
  decide +kernel

/-! ### uniform depth -/

/-- `max_refinement_depth`: an upper bound of all depths that some cell attains. -/
theorem maxDepth_spec (cells : List (Cell α)) (hne : cells ≠ []) :
    (∀ c ∈ cells, c.depth ≤ maxDepth cells) ∧ ∃ c ∈ cells, c.depth = maxDepth cells :=
  ⟨le_maxDepth cells, maxDepth_attained cells hne⟩

/-- **`uniform_refinement_depth` is exact**: every refinable (non-fixed) cell is replaced by its `2^(max − depth)` halvings at
    depth `max`; cells of fixed modules are kept.  (When all depths agree the object itself is returned, which is
    the same list.) -/
theorem uniform_exact (env : Env α) (st : Eps α) (a : Allocation α) (hv : ValidAlloc st a) :
    ∃ a', uniform env st a = .ok (a', st) ∧
      (maxDepth a.cells ≠ minDepth a.cells → a'.cells = a.cells.flatMap (uniformCell (maxDepth a.cells))) ∧
      (maxDepth a.cells = minDepth a.cells → a' = a) := by
  obtain ⟨a', h1, _, _, _, h5⟩ := uniform_spec env st a hv
  refine ⟨a', h1, ?_, ?_⟩
  · intro hne
    rcases h5 with ⟨he, _⟩ | ⟨_, h6⟩
    · exact absurd he hne
    · rw [uniformCells_exact a.cells hv.pos] at h6
      injection h6 with h6
      exact h6.symm
  · intro he
    rcases h5 with ⟨_, h6⟩ | ⟨hne, _⟩
    · exact h6
    · exact absurd he hne

/-- **afterwards every refinable cell is at the former maximum depth**.
    DEVIATION FROM THE PROPERTY TEXT ("ends with every cell at the former maximum depth"): the statement is for the
    NON-FIXED cells only (`d.rect.fixed = false`).  In the repaired code cells of fixed modules are exempt from
    uniform refinement — they are kept whole at the depth they had (second conjunct), as C02 requires. -/
theorem uniform_all_maxdepth (env : Env α) (st : Eps α) (a : Allocation α) (hv : ValidAlloc st a) :
    ∃ a', uniform env st a = .ok (a', st) ∧
      (∀ d ∈ a'.cells, d.rect.fixed = false → d.depth = maxDepth a.cells) ∧
      (∀ c ∈ a.cells, c.rect.fixed = true → c ∈ a'.cells) := by
  obtain ⟨a', h1, h2, h3⟩ := uniform_exact env st a hv
  obtain ⟨a'', g1, _, g3, _⟩ := uniform_spec env st a hv
  rw [h1] at g1
  injection g1 with g1; injection g1 with g1
  subst g1
  refine ⟨a', h1, ?_, g3.fixed_kept⟩
  intro d hd hf
  by_cases hm : maxDepth a.cells = minDepth a.cells
  · rw [h3 hm] at hd
    have u1 := le_maxDepth a.cells d hd
    have u2 := minDepth_le a.cells d hd
    omega
  · rw [h2 hm] at hd
    obtain ⟨c, hc, hdc⟩ := List.mem_flatMap.mp hd
    unfold uniformCell at hdc
    obtain ⟨r, hr, rfl⟩ := List.mem_map.mp hdc
    simp only at hf ⊢
    have hcf : c.rect.fixed = false := by
      by_contra hcf'
      have hcf'' : c.rect.fixed = true := by simpa using hcf'
      rw [hcf''] at hr
      simp only [↓reduceIte, halvings, List.mem_singleton] at hr
      rw [hr, hcf''] at hf
      cases hf
    have := le_maxDepth a.cells c hc
    simp only [hcf, Bool.false_eq_true, ↓reduceIte]
    omega

/-- **how many cells `uniform_refinement_depth` returns** (`num_rectangles`): a refinable cell at depth `d` becomes
    `2^(max − d)` cells, a cell of a fixed module stays one cell. -/
theorem uniform_num_rectangles (env : Env α) (st : Eps α) (a : Allocation α) (hv : ValidAlloc st a) :
    ∃ a', uniform env st a = .ok (a', st) ∧
      a'.numRectangles = (a.cells.map fun c => if c.rect.fixed then 1 else 2 ^ (maxDepth a.cells - c.depth)).sum := by
  obtain ⟨a', h1, h2, h3⟩ := uniform_exact env st a hv
  refine ⟨a', h1, ?_⟩
  unfold Allocation.numRectangles
  by_cases hm : maxDepth a.cells = minDepth a.cells
  · rw [h3 hm]
    have hall : ∀ c ∈ a.cells, (if c.rect.fixed then 1 else 2 ^ (maxDepth a.cells - c.depth)) = 1 := by
      intro c hc
      have u1 := le_maxDepth a.cells c hc
      have u2 := minDepth_le a.cells c hc
      have : maxDepth a.cells - c.depth = 0 := by omega
      rw [this]; simp
    have key : ∀ (cs : List (Cell α)) (f : Cell α → Nat), (∀ c ∈ cs, f c = 1) → cs.length = (cs.map f).sum := by
      intro cs f
      induction cs with
      | nil => intro _; rfl
      | cons c cs ih =>
        intro hf
        rw [List.map_cons, List.sum_cons, hf c (List.mem_cons_self ..), List.length_cons,
          ih (fun d hd => hf d (List.mem_cons_of_mem _ hd))]
        omega
    exact key a.cells _ hall
  · rw [h2 hm, List.length_flatMap]
    congr 1
    apply List.map_congr_left
    intro c _
    unfold uniformCell
    rw [List.length_map, halvings_length]
    by_cases hf : c.rect.fixed = true
    · simp [hf]
    · simp [hf]

/-! ### gridding: alignment

  The 1 % rule is `xCuttable r x ρ = true ↔ xmin < x < xmax ∧ ρ·h < min (x − xmin) (xmax − x)` (C18 `xCuttable_iff`,
  `CutsX` here) with a STRICT inequality, exactly as `min(...) > ratio * self.shape.h` in the code: a cut whose
  smaller piece is EXACTLY 1 % of the other side is refused (the property text says "thinner than 1 %" are excepted;
  the boundary case is excepted as well).  All alignment statements below are relative to this predicate. -/

/-- **alignment (full, both directions)**: after `griddify` no refinable cell is x-cuttable at any of the cut lines
    `x_cuts[1..-2]`, nor y-cuttable at any of the cut lines `y_cuts[1..-2]` (1 % rule, `env.rho`, evaluated on the RESULT
    cell's own other side), the cut lines being those gathered from the original cells. -/
theorem griddify_aligned (env : Env α) (st : Eps α) (a : Allocation α) (hv : ValidAlloc st a) :
    ∃ a' xs ys, griddify env st a = .ok (a', st) ∧ gatherBoundaries st (a.cells.map (·.rect)) = .ok (xs, ys) ∧
      ∀ d ∈ a'.cells, d.rect.fixed = false →
        (∀ x, InteriorCut xs x → d.rect.xCuttable x env.rho = false) ∧
        (∀ y, InteriorCut ys y → d.rect.yCuttable y env.rho = false) := by
  obtain ⟨a', h1, _, _, _, xs, ys, hb, _, hfix⟩ := griddify_spec env st a hv
  exact ⟨a', xs, ys, h1, hb, ((griddifyCells_noop env.rho xs ys a'.cells a'.cells hfix).2 (le_refl _)).2⟩

/-- **y alignment (full)**: after `griddify` no refinable cell is y-cuttable (1% rule, `env.rho`) at any of the
    cut lines `y_cuts[1..-2]` gathered from the original cells. -/
theorem griddify_aligned_y (env : Env α) (st : Eps α) (a : Allocation α) (hv : ValidAlloc st a) :
    ∃ a' xs ys, griddify env st a = .ok (a', st) ∧ gatherBoundaries st (a.cells.map (·.rect)) = .ok (xs, ys) ∧
      ∀ d ∈ a'.cells, d.rect.fixed = false → ∀ y, InteriorCut ys y → d.rect.yCuttable y env.rho = false := by
  obtain ⟨a', xs, ys, h1, hb, h⟩ := griddify_aligned env st a hv
  exact ⟨a', xs, ys, h1, hb, fun d hd hf => (h d hd hf).2⟩

/-- **x alignment (full)** — the statement that was `NOT YET PROVED` (and false) before
    `fixes/C12_griddify_x_before_y.diff`: after `griddify` no refinable cell is x-cuttable at any of the cut lines
    `x_cuts[1..-2]`, with NO hypothesis on the cell's height.  (The repaired code repeats the two sweeps until a round
    cuts nothing; `griddifyRounds_ok` shows that this loop ends.) -/
theorem griddify_aligned_x (env : Env α) (st : Eps α) (a : Allocation α) (hv : ValidAlloc st a) :
    ∃ a' xs ys, griddify env st a = .ok (a', st) ∧ gatherBoundaries st (a.cells.map (·.rect)) = .ok (xs, ys) ∧
      ∀ d ∈ a'.cells, d.rect.fixed = false → ∀ x, InteriorCut xs x → d.rect.xCuttable x env.rho = false := by
  obtain ⟨a', xs, ys, h1, hb, h⟩ := griddify_aligned env st a hv
  exact ⟨a', xs, ys, h1, hb, fun d hd hf => (h d hd hf).1⟩

/-- kept from the time when the x statement was partial (now a corollary of `griddify_aligned_x`; the hypothesis `hh` is
    not used). -/
theorem griddify_aligned_x_partial (env : Env α) (st : Eps α) (a : Allocation α) (hv : ValidAlloc st a) :
    ∃ a' xs ys, griddify env st a = .ok (a', st) ∧ gatherBoundaries st (a.cells.map (·.rect)) = .ok (xs, ys) ∧
      ∀ d ∈ a'.cells, d.rect.fixed = false →
        (hh : ∀ c0 ∈ a.cells, d.rect.isInside c0.rect = true → d.rect.h = c0.rect.h) →
        ∀ x, InteriorCut xs x → d.rect.xCuttable x env.rho = false := by
  obtain ⟨a', xs, ys, h1, hb, hx⟩ := griddify_aligned_x env st a hv
  exact ⟨a', xs, ys, h1, hb, fun d hd hf _ => hx d hd hf⟩

/-- **the loop of the repaired `griddify` ends and its fuel is irrelevant**: with the model's fuel `gridFuel` the
    fixpoint loop returns on every list of well-formed cells, the result is a fixpoint of a round (one more round of the
    two sweeps returns it unchanged), and any other amount of fuel that lets the loop return gives the same list. -/
theorem griddify_loop_terminates (ρ : α) (xs ys : List α) (cells : List (Cell α)) (hg : ∀ c ∈ cells, CellGood c) :
    ∃ q, griddifyRounds ρ xs ys (gridFuel xs ys cells) cells = .ok q ∧ griddifyCells ρ xs ys q = .ok q ∧
      cells.length ≤ q.length ∧ q.length ≤ cells.length * ((xs.length + 1) * (ys.length + 1)) ∧
      ∀ fuel q2, griddifyRounds ρ xs ys fuel cells = .ok q2 → q2 = q := by
  obtain ⟨q, e, r, f⟩ := griddifyRounds_ok ρ xs ys (gridFuel xs ys cells) cells hg (gridFuel_enough xs ys cells)
  obtain ⟨w, l⟩ := griddifyRounds_wt ρ xs ys _ cells q hg e
  refine ⟨q, e, f, l, ?_, fun fuel q2 h2 => griddifyRounds_fuel_irrelevant ρ xs ys _ _ cells q2 q h2 e⟩
  exact le_trans (length_le_wtSum xs ys q) (le_trans w (wtSum_le xs ys cells))

/-- **how many cells `griddify` returns** (`num_rectangles`): at least as many as before, at most
    `(|x_cuts| + 1)·(|y_cuts| + 1)` per original cell (every result cell contains a cell of the cut grid of its own). -/
theorem griddify_num_rectangles (env : Env α) (st : Eps α) (a : Allocation α) (hv : ValidAlloc st a) :
    ∃ a' xs ys, griddify env st a = .ok (a', st) ∧ gatherBoundaries st (a.cells.map (·.rect)) = .ok (xs, ys) ∧
      a.numRectangles ≤ a'.numRectangles ∧
      a'.numRectangles ≤ a.numRectangles * ((xs.length + 1) * (ys.length + 1)) := by
  obtain ⟨a', h1, _, _, _, xs, ys, hb, hgr, _⟩ := griddify_spec env st a hv
  obtain ⟨w, l⟩ := griddifyRounds_wt env.rho xs ys _ a.cells a'.cells hv.cells.good hgr
  exact ⟨a', xs, ys, h1, hb, l,
    le_trans (length_le_wtSum xs ys a'.cells) (le_trans w (wtSum_le xs ys a.cells))⟩

/-! #### one round (`griddifyOnce`: the code before `fixes/C12_griddify_x_before_y.diff`)

  What a single round of the two sweeps guarantees — the x statement relative to the PARENT's height only.  These
  theorems describe the unrepaired code; `griddifyOnce_not_aligned` below is the kernel-checked witness that one round
  is not enough (the former open finding `C12-griddify-x-before-y`). -/

/-- **one round, x alignment relative to the parent**: every refinable result cell `d` lies in an original cell `c0`
    such that no cut line `x_cuts[1..-2]` crosses `d` leaving both pieces wider than 1% of the *parent's* height
    (the height the decision was taken with). -/
theorem griddifyOnce_aligned_x_parent (env : Env α) (st : Eps α) (a : Allocation α) (hv : ValidAlloc st a) :
    ∃ a' xs ys, griddifyOnce env st a = .ok (a', st) ∧ gatherBoundaries st (a.cells.map (·.rect)) = .ok (xs, ys) ∧
      ∀ d ∈ a'.cells, d.rect.fixed = false → ∃ c0 ∈ a.cells, d.rect.isInside c0.rect = true ∧ d.rect.h ≤ c0.rect.h ∧
        ∀ x, InteriorCut xs x → ¬ CutsX env.rho c0.rect.h d.rect.xmin d.rect.xmax x := by
  obtain ⟨a', h1, _, _, _, xs, ys, hb, hgc⟩ := griddifyOnce_spec env st a hv
  refine ⟨a', xs, ys, h1, hb, ?_⟩
  intro d hd hf
  obtain ⟨_, ⟨c0, hc0, hin, hh, hx⟩, _⟩ := griddifyCells_aligned env.rho xs ys a.cells a'.cells hv.cells.good hgc d hd
  exact ⟨c0, hc0, hin, hh, hx hf⟩

/-- **one round, x alignment (partial)**: a refinable result cell that still has the height of the original cells
    containing it is not x-cuttable at any cut line. -/
theorem griddifyOnce_aligned_x_partial (env : Env α) (st : Eps α) (a : Allocation α) (hv : ValidAlloc st a) :
    ∃ a' xs ys, griddifyOnce env st a = .ok (a', st) ∧ gatherBoundaries st (a.cells.map (·.rect)) = .ok (xs, ys) ∧
      ∀ d ∈ a'.cells, d.rect.fixed = false →
        (hh : ∀ c0 ∈ a.cells, d.rect.isInside c0.rect = true → d.rect.h = c0.rect.h) →
        ∀ x, InteriorCut xs x → d.rect.xCuttable x env.rho = false := by
  obtain ⟨a', xs, ys, h1, hb, hx⟩ := griddifyOnce_aligned_x_parent env st a hv
  refine ⟨a', xs, ys, h1, hb, ?_⟩
  intro d hd hf hh x hxi
  obtain ⟨c0, hc0, hin, _, hno⟩ := hx d hd hf
  have := hno x hxi
  rw [← hh c0 hc0 hin, ← xCuttable_iff_CutsX] at this
  simpa using this

/-- **one round, y alignment (full)**. -/
theorem griddifyOnce_aligned_y (env : Env α) (st : Eps α) (a : Allocation α) (hv : ValidAlloc st a) :
    ∃ a' xs ys, griddifyOnce env st a = .ok (a', st) ∧ gatherBoundaries st (a.cells.map (·.rect)) = .ok (xs, ys) ∧
      ∀ d ∈ a'.cells, d.rect.fixed = false → ∀ y, InteriorCut ys y → d.rect.yCuttable y env.rho = false := by
  obtain ⟨a', h1, _, _, _, xs, ys, hb, hgc⟩ := griddifyOnce_spec env st a hv
  refine ⟨a', xs, ys, h1, hb, ?_⟩
  intro d hd hf y hy
  obtain ⟨_, _, hyi⟩ := griddifyCells_aligned env.rho xs ys a.cells a'.cells hv.cells.good hgc d hd
  have := hyi hf y hy
  rw [← yCuttable_iff_CutsX] at this
  simpa using this

/-- **the converse of the partial statement — one round fails exactly in the region its hypothesis excludes**: if a
    refinable result cell `d` of ONE round is still x-cuttable at a cut line `x`, then `d` was cut out of an original cell
    `c0` that is strictly taller, and the cut is a sliver for `c0` but not for `d`:
    `ρ·d.h < min (x − d.xmin) (d.xmax − x) ≤ ρ·c0.h`.  (This is the `region` of the former open finding.) -/
theorem griddifyOnce_failure_region (env : Env α) (st : Eps α) (a : Allocation α) (hv : ValidAlloc st a) :
    ∃ a' xs ys, griddifyOnce env st a = .ok (a', st) ∧ gatherBoundaries st (a.cells.map (·.rect)) = .ok (xs, ys) ∧
      ∀ d ∈ a'.cells, d.rect.fixed = false → ∀ x, InteriorCut xs x → d.rect.xCuttable x env.rho = true →
        ∃ c0 ∈ a.cells, d.rect.isInside c0.rect = true ∧ d.rect.h < c0.rect.h ∧
          env.rho * d.rect.h < min (x - d.rect.xmin) (d.rect.xmax - x) ∧
          min (x - d.rect.xmin) (d.rect.xmax - x) ≤ env.rho * c0.rect.h := by
  obtain ⟨a', xs, ys, h1, hb, hx⟩ := griddifyOnce_aligned_x_parent env st a hv
  refine ⟨a', xs, ys, h1, hb, ?_⟩
  intro d hd hf x hxi hcut
  obtain ⟨c0, hc0, hin, hle, hno⟩ := hx d hd hf
  have hc := (xCuttable_iff_CutsX d.rect x env.rho).mp hcut
  have hn := hno x hxi
  have hsl : min (x - d.rect.xmin) (d.rect.xmax - x) ≤ env.rho * c0.rect.h := by
    by_contra hlt
    exact hn ⟨hc.1, hc.2.1, lt_of_not_ge hlt⟩
  refine ⟨c0, hc0, hin, ?_, hc.2.2, hsl⟩
  rcases lt_or_eq_of_le hle with h | h
  · exact h
  · exfalso; rw [← h] at hsl; exact absurd hc.2.2 (not_lt.mpr hsl)

/-! ### gridding: no refinable cell is crossed by a side line of another cell

  `gather_boundaries` merges coordinates closer than the distance tolerance; the statements below are for layouts
  whose side coordinates are `Separated` (two coordinates are equal or more than the tolerance apart — the
  tolerance only merges float-noise copies of one line), so that every side line is one of the cut lines. -/

/-- **no crossing (full, both directions)**: after `griddify`, no refinable cell is x-cuttable (1% rule) at the left or
    right side line of *any* cell of the result, nor y-cuttable at the lower or upper side line of any cell of the
    result. -/
theorem griddify_no_crossing (env : Env α) (st : Eps α) (a : Allocation α) (hv : ValidAlloc st a)
    (hsx : Separated st.dist (sidesX (a.cells.map (·.rect)))) (hsy : Separated st.dist (sidesY (a.cells.map (·.rect)))) :
    ∃ a', griddify env st a = .ok (a', st) ∧
      ∀ d ∈ a'.cells, d.rect.fixed = false → ∀ e ∈ a'.cells,
        d.rect.xCuttable e.rect.xmin env.rho = false ∧ d.rect.xCuttable e.rect.xmax env.rho = false ∧
        d.rect.yCuttable e.rect.ymin env.rho = false ∧ d.rect.yCuttable e.rect.ymax env.rho = false := by
  obtain ⟨a', xs, ys, h1, ex, ey, hal, hsides⟩ := griddify_result env st a hv
  obtain ⟨hincx, hmemx⟩ := uniqEps_sortAsc_spec st.dist hv.epsDef _ hsx
  obtain ⟨hincy, hmemy⟩ := uniqEps_sortAsc_spec st.dist hv.epsDef _ hsy
  rw [← ex] at hincx hmemx
  rw [← ey] at hincy hmemy
  refine ⟨a', h1, ?_⟩
  intro d hd hf e he
  obtain ⟨_, d1, d2, d3, d4⟩ := hsides d hd
  obtain ⟨_, e1, e2, e3, e4⟩ := hsides e he
  obtain ⟨hx, hy⟩ := hal d hd hf
  have keyx : ∀ z, z ∈ sidesX (a.cells.map (·.rect)) → d.rect.xCuttable z env.rho = false := by
    intro z hz
    by_contra hc
    have hc' : d.rect.xCuttable z env.rho = true := by simpa using hc
    have hin := xCuttable_imp_strict_inside d.rect z env.rho hc'
    have hcut := interiorCut_of_between xs hincx d.rect.xmin z d.rect.xmax ((hmemx _).mpr d1) ((hmemx _).mpr hz)
      ((hmemx _).mpr d2) hin.1 hin.2
    rw [hx z hcut] at hc'; cases hc'
  have keyy : ∀ z, z ∈ sidesY (a.cells.map (·.rect)) → d.rect.yCuttable z env.rho = false := by
    intro z hz
    by_contra hc
    have hc' : d.rect.yCuttable z env.rho = true := by simpa using hc
    have hin := yCuttable_imp_strict_inside d.rect z env.rho hc'
    have hcut := interiorCut_of_between ys hincy d.rect.ymin z d.rect.ymax ((hmemy _).mpr d3) ((hmemy _).mpr hz)
      ((hmemy _).mpr d4) hin.1 hin.2
    rw [hy z hcut] at hc'; cases hc'
  exact ⟨keyx _ e1, keyx _ e2, keyy _ e3, keyy _ e4⟩

/-- **no crossing in y (full)**: after `griddify`, no refinable cell is y-cuttable (1% rule) at the lower or upper
    side line of *any* cell of the result. -/
theorem griddify_no_crossing_y (env : Env α) (st : Eps α) (a : Allocation α) (hv : ValidAlloc st a)
    (hsep : Separated st.dist (sidesY (a.cells.map (·.rect)))) :
    ∃ a', griddify env st a = .ok (a', st) ∧
      ∀ d ∈ a'.cells, d.rect.fixed = false → ∀ e ∈ a'.cells,
        d.rect.yCuttable e.rect.ymin env.rho = false ∧ d.rect.yCuttable e.rect.ymax env.rho = false := by
  obtain ⟨a', xs, ys, h1, _, ey, hal, hsides⟩ := griddify_result env st a hv
  obtain ⟨hinc, hmem⟩ := uniqEps_sortAsc_spec st.dist hv.epsDef _ hsep
  rw [← ey] at hinc hmem
  refine ⟨a', h1, ?_⟩
  intro d hd hf e he
  obtain ⟨_, _, _, d3, d4⟩ := hsides d hd
  obtain ⟨_, _, _, e3, e4⟩ := hsides e he
  obtain ⟨_, hy⟩ := hal d hd hf
  have key : ∀ z, z ∈ sidesY (a.cells.map (·.rect)) → d.rect.yCuttable z env.rho = false := by
    intro z hz
    by_contra hc
    have hc' : d.rect.yCuttable z env.rho = true := by simpa using hc
    have hin := yCuttable_imp_strict_inside d.rect z env.rho hc'
    have hcut := interiorCut_of_between ys hinc d.rect.ymin z d.rect.ymax ((hmem _).mpr d3) ((hmem _).mpr hz)
      ((hmem _).mpr d4) hin.1 hin.2
    rw [hy z hcut] at hc'; cases hc'
  exact ⟨key _ e3, key _ e4⟩

/-- **no crossing in x (full)** — without the hypothesis `hh` of the former `griddify_no_crossing_x_partial`: after
    `griddify`, no refinable cell is x-cuttable (1% rule) at the left or right side line of *any* cell of the result. -/
theorem griddify_no_crossing_x (env : Env α) (st : Eps α) (a : Allocation α) (hv : ValidAlloc st a)
    (hsep : Separated st.dist (sidesX (a.cells.map (·.rect)))) :
    ∃ a', griddify env st a = .ok (a', st) ∧
      ∀ d ∈ a'.cells, d.rect.fixed = false → ∀ e ∈ a'.cells,
        d.rect.xCuttable e.rect.xmin env.rho = false ∧ d.rect.xCuttable e.rect.xmax env.rho = false := by
  obtain ⟨a', xs, ys, h1, ex, _, hal, hsides⟩ := griddify_result env st a hv
  obtain ⟨hinc, hmem⟩ := uniqEps_sortAsc_spec st.dist hv.epsDef _ hsep
  rw [← ex] at hinc hmem
  refine ⟨a', h1, ?_⟩
  intro d hd hf e he
  obtain ⟨_, d1, d2, _, _⟩ := hsides d hd
  obtain ⟨_, e1, e2, _, _⟩ := hsides e he
  obtain ⟨hx, _⟩ := hal d hd hf
  have key : ∀ z, z ∈ sidesX (a.cells.map (·.rect)) → d.rect.xCuttable z env.rho = false := by
    intro z hz
    by_contra hc
    have hc' : d.rect.xCuttable z env.rho = true := by simpa using hc
    have hin := xCuttable_imp_strict_inside d.rect z env.rho hc'
    have hcut := interiorCut_of_between xs hinc d.rect.xmin z d.rect.xmax ((hmem _).mpr d1) ((hmem _).mpr hz)
      ((hmem _).mpr d2) hin.1 hin.2
    rw [hx z hcut] at hc'; cases hc'
  exact ⟨key _ e1, key _ e2⟩

/-- kept from the time when the x statement was partial (now a corollary of `griddify_no_crossing_x`; `hh` is not used). -/
theorem griddify_no_crossing_x_partial (env : Env α) (st : Eps α) (a : Allocation α) (hv : ValidAlloc st a)
    (hsep : Separated st.dist (sidesX (a.cells.map (·.rect)))) :
    ∃ a', griddify env st a = .ok (a', st) ∧
      ∀ d ∈ a'.cells, d.rect.fixed = false →
        (hh : ∀ c0 ∈ a.cells, d.rect.isInside c0.rect = true → d.rect.h = c0.rect.h) → ∀ e ∈ a'.cells,
        d.rect.xCuttable e.rect.xmin env.rho = false ∧ d.rect.xCuttable e.rect.xmax env.rho = false := by
  obtain ⟨a', h1, h⟩ := griddify_no_crossing_x env st a hv hsep
  exact ⟨a', h1, fun d hd hf _ e he => h d hd hf e he⟩

/-- **`griddify` is idempotent** ("grid refinement ENDS with …": there is nothing left to do): gridding the result of
    `griddify` again — with the cut lines gathered anew from the result cells — returns the very same allocation. -/
theorem griddify_idempotent (env : Env α) (st : Eps α) (a : Allocation α) (hv : ValidAlloc st a)
    (hsx : Separated st.dist (sidesX (a.cells.map (·.rect)))) (hsy : Separated st.dist (sidesY (a.cells.map (·.rect)))) :
    ∃ a', griddify env st a = .ok (a', st) ∧ griddify env st a' = .ok (a', st) :=
  griddify_idem env st a hv hsx hsy

/-- **one round, no crossing in x relative to the parent** (the missing `…_x_parent` form): after ONE round, for every
    refinable result cell `d` there is an original cell `c0` containing it such that no side line of any result cell
    crosses `d` leaving both pieces wider than 1 % of `c0`'s height. -/
theorem griddifyOnce_no_crossing_x_parent (env : Env α) (st : Eps α) (a : Allocation α) (hv : ValidAlloc st a)
    (hsep : Separated st.dist (sidesX (a.cells.map (·.rect)))) :
    ∃ a', griddifyOnce env st a = .ok (a', st) ∧
      ∀ d ∈ a'.cells, d.rect.fixed = false → ∃ c0 ∈ a.cells, d.rect.isInside c0.rect = true ∧ d.rect.h ≤ c0.rect.h ∧
        ∀ e ∈ a'.cells, ¬ CutsX env.rho c0.rect.h d.rect.xmin d.rect.xmax e.rect.xmin ∧
          ¬ CutsX env.rho c0.rect.h d.rect.xmin d.rect.xmax e.rect.xmax := by
  obtain ⟨a', xs, ys, h1, ex, _, hinv, hsides⟩ := griddifyOnce_result env st a hv
  obtain ⟨hinc, hmem⟩ := uniqEps_sortAsc_spec st.dist hv.epsDef _ hsep
  rw [← ex] at hinc hmem
  refine ⟨a', h1, ?_⟩
  intro d hd hf
  obtain ⟨_, d1, d2, _, _⟩ := hsides d hd
  obtain ⟨_, ⟨c0, hc0, hin0, hle, hx⟩, _⟩ := hinv d hd
  refine ⟨c0, hc0, hin0, hle, ?_⟩
  intro e he
  obtain ⟨_, e1, e2, _, _⟩ := hsides e he
  have key : ∀ z, z ∈ sidesX (a.cells.map (·.rect)) → ¬ CutsX env.rho c0.rect.h d.rect.xmin d.rect.xmax z := by
    intro z hz hc
    have hcut := interiorCut_of_between xs hinc d.rect.xmin z d.rect.xmax ((hmem _).mpr d1) ((hmem _).mpr hz)
      ((hmem _).mpr d2) hc.1 hc.2.1
    exact hx hf z hcut hc
  exact ⟨key _ e1, key _ e2⟩

/-! ### non-vacuity: the hypotheses are met by concrete allocations over `ℚ`, and the theorems are applied to them

  `exRaw` (three cells, one with an EMPTY ratio map, one in region `dsp` at depth 1) and `exRawF` (three `Rectangle`
  objects, the second one flagged FIXED with ratio 1) are defined in `FV/Proofs/Alloc.lean`. -/

/-- the constructor accepts `exRaw` (which contains a cell with an empty ratio map) and returns a `ValidAlloc`. -/
theorem ex_valid : ∃ a st, mkAllocation exEnv ⟨-1, -1⟩ exRaw = .ok (a, st) ∧ ValidAlloc st a := exRaw_valid

/-- the same for an allocation containing a fixed cell. -/
theorem ex_fixed_valid : ∃ a st, mkAllocation exEnv ⟨-1, -1⟩ exRawF = .ok (a, st) ∧ ValidAlloc st a := exRawF_valid

/-- `refine_exact` and `mustBeRefined_iff_changes` applied to `exRaw` at threshold 1/2: the predicate is true, the
    first cell (ratios 1/2, 1/4) is halved, the cell with ratio 3/4 and the cell with the empty map are kept. -/
theorem ex_refine : ∃ a st b, mkAllocation exEnv ⟨-1, -1⟩ exRaw = .ok (a, st) ∧
    refine exEnv st a (1/2) 1 = .ok (b, st) ∧ mustBeRefined a (1/2) = true ∧ a.cells.length < b.cells.length ∧
    b.cells = a.cells.flatMap fun c =>
      if splitCond (1/2) c then (halvings c.rect 1).map fun r => ⟨r, c.alloc, c.depth + 1⟩ else [c] := by
  obtain ⟨a, st, h, hv⟩ := ex_valid
  obtain ⟨b, h1, h2⟩ := refine_exact exEnv st a (1/2) 1 hv (by norm_num)
  obtain ⟨b1, g1, _, g3, _⟩ := mustBeRefined_iff_changes exEnv st a (1/2) 1 hv (by norm_num)
  rw [h1] at g1; injection g1 with g1; injection g1 with g1; subst g1
  have hm : mustBeRefined a (1/2) = true := by
    have hc : (match mkAllocation exEnv ⟨-1, -1⟩ exRaw with
        | .ok (a, _) => mustBeRefined a (1/2) | .error _ => false) = true := by decide +kernel
    rw [h] at hc; exact hc
  exact ⟨a, st, b, h, h1, hm, g3 hm, h2⟩

/-- the same on the allocation with a fixed cell at threshold 1 (every ratio ≤ 1): the fixed cell — ratio 1, the case
    the unrepaired code cut — is kept, the two refinable cells are halved (3 cells become 5, checked below). -/
theorem ex_refine_fixed : ∃ a st b, mkAllocation exEnv ⟨-1, -1⟩ exRawF = .ok (a, st) ∧
    refine exEnv st a 1 1 = .ok (b, st) ∧ (mustBeRefined a 1 = true ↔ b.cells ≠ a.cells) ∧
    (∀ c ∈ a.cells, c.rect.fixed = true → splitCond 1 c = false) ∧
    b.cells = a.cells.flatMap fun c =>
      if splitCond 1 c then (halvings c.rect 1).map fun r => ⟨r, c.alloc, c.depth + 1⟩ else [c] := by
  obtain ⟨a, st, h, hv⟩ := ex_fixed_valid
  obtain ⟨b, h1, h2⟩ := refine_exact exEnv st a 1 1 hv (by norm_num)
  obtain ⟨b1, g1, g2, _, _⟩ := mustBeRefined_iff_changes exEnv st a 1 1 hv (by norm_num)
  rw [h1] at g1; injection g1 with g1; injection g1 with g1; subst g1
  refine ⟨a, st, b, h, h1, g2, ?_, h2⟩
  intro c _ hf
  simp [splitCond, hf]

example : (match mkAllocation exEnv ⟨-1, -1⟩ exRawF with
    | .ok (a, st) => (match refine exEnv st a 1 1 with
        | .ok (b, _) => (a.cells.length, b.cells.length, mustBeRefined a 1,
            b.cells.any (fun c => c.rect.fixed && decide (c.rect.w = 2) && c.depth == 0)) | .error _ => (0, 0, false, false))
    | .error _ => (0, 0, false, false)) = (3, 5, true, true) := by decide +kernel
example : (match mkAllocation exEnv ⟨-1, -1⟩ exRaw with
    | .ok (a, _) => mustBeRefined a (1/2) && !mustBeRefined a (1/4)
    | .error _ => false) = true := by decide +kernel
example : (halvings (⟨1, 1, 2, 2, "_", false, false, .nopoly⟩ : Rect ℚ) 3).length = 8 := by decide +kernel
/-- `uniform_all_maxdepth` has its hypothesis met as well (applied to `exRawF`). -/
example : ∃ a st b, mkAllocation exEnv ⟨-1, -1⟩ exRawF = .ok (a, st) ∧ uniform exEnv st a = .ok (b, st) ∧
    ∀ d ∈ b.cells, d.rect.fixed = false → d.depth = maxDepth a.cells := by
  obtain ⟨a, st, h, hv⟩ := ex_fixed_valid
  obtain ⟨b, h1, h2, _⟩ := uniform_all_maxdepth exEnv st a hv
  exact ⟨a, st, b, h, h1, h2⟩

/-- `griddify_no_crossing` (BOTH directions, no `hh`) APPLIED with every hypothesis discharged (`ValidAlloc`, and
    `Separated` by kernel evaluation) to the 7-cell layout `wRaw`, on which `griddify` really cuts. -/
example : ∃ a st b, mkAllocation exEnv ⟨-1, -1⟩ wRaw = .ok (a, st) ∧ griddify exEnv st a = .ok (b, st) ∧
    a.cells.length < b.cells.length ∧
    ∀ d ∈ b.cells, d.rect.fixed = false → ∀ e ∈ b.cells,
      d.rect.xCuttable e.rect.xmin exEnv.rho = false ∧ d.rect.xCuttable e.rect.xmax exEnv.rho = false ∧
      d.rect.yCuttable e.rect.ymin exEnv.rho = false ∧ d.rect.yCuttable e.rect.ymax exEnv.rho = false := by
  obtain ⟨a, st, h, hv⟩ := wRaw_valid
  have hsx : Separated st.dist (sidesX (a.cells.map (·.rect))) := by
    apply sepB_sound
    have hc : (match mkAllocation exEnv ⟨-1, -1⟩ wRaw with
        | .ok (a, st) => sepB st.dist (sidesX (a.cells.map (·.rect))) | .error _ => false) = true := by decide +kernel
    rw [h] at hc; exact hc
  have hsy : Separated st.dist (sidesY (a.cells.map (·.rect))) := by
    apply sepB_sound
    have hc : (match mkAllocation exEnv ⟨-1, -1⟩ wRaw with
        | .ok (a, st) => sepB st.dist (sidesY (a.cells.map (·.rect))) | .error _ => false) = true := by decide +kernel
    rw [h] at hc; exact hc
  obtain ⟨b, h1, h2⟩ := griddify_no_crossing exEnv st a hv hsx hsy
  refine ⟨a, st, b, h, h1, ?_, h2⟩
  have hc : (match mkAllocation exEnv ⟨-1, -1⟩ wRaw with
      | .ok (a, st) => (match griddify exEnv st a with | .ok (b, _) => decide (a.cells.length < b.cells.length) | .error _ => false)
      | .error _ => false) = true := by decide +kernel
  rw [h] at hc; simp only [h1] at hc; simpa using hc

/-- `griddify_idempotent` applied to `wRaw`, and the contrast with one round (which is NOT idempotent there: a second
    call of the unrepaired `griddify` cuts again — the cheapest symptom of the former finding). -/
example : ∃ a st b, mkAllocation exEnv ⟨-1, -1⟩ wRaw = .ok (a, st) ∧ griddify exEnv st a = .ok (b, st) ∧
    griddify exEnv st b = .ok (b, st) := by
  obtain ⟨a, st, h, hv⟩ := wRaw_valid
  have hsx : Separated st.dist (sidesX (a.cells.map (·.rect))) := by
    apply sepB_sound
    have hc : (match mkAllocation exEnv ⟨-1, -1⟩ wRaw with
        | .ok (a, st) => sepB st.dist (sidesX (a.cells.map (·.rect))) | .error _ => false) = true := by decide +kernel
    rw [h] at hc; exact hc
  have hsy : Separated st.dist (sidesY (a.cells.map (·.rect))) := by
    apply sepB_sound
    have hc : (match mkAllocation exEnv ⟨-1, -1⟩ wRaw with
        | .ok (a, st) => sepB st.dist (sidesY (a.cells.map (·.rect))) | .error _ => false) = true := by decide +kernel
    rw [h] at hc; exact hc
  obtain ⟨b, h1, h2⟩ := griddify_idempotent exEnv st a hv hsx hsy
  exact ⟨a, st, b, h, h1, h2⟩

example : (match mkAllocation exEnv ⟨-1, -1⟩ wRaw with
    | .ok (a, st) => (match griddifyOnce exEnv st a with
        | .ok (b, st1) => (match griddifyOnce exEnv st1 b with
            | .ok (c, _) => decide (b.cells.length < c.cells.length) | .error _ => false)
        | .error _ => false)
    | .error _ => false) = true := by decide +kernel

/-- **`griddifyOnce_not_aligned`** — on the same layout ONE round of the two sweeps (the code before
    `fixes/C12_griddify_x_before_y.diff`) leaves a refinable cell that is x-cuttable at a side line of another result
    cell: the former open finding `C12-griddify-x-before-y`, kernel-checked on the model … -/
theorem griddifyOnce_not_aligned : (match mkAllocation exEnv ⟨-1, -1⟩ wRaw with
    | .ok (a, st) => (match griddifyOnce exEnv st a with
        | .ok (b, _) => b.cells.any fun d => !d.rect.fixed && b.cells.any fun e => d.rect.xCuttable e.rect.xmin exEnv.rho
        | .error _ => false)
    | .error _ => false) = true := by decide +kernel

/-- … while the repaired `griddify` (fixpoint of the rounds) leaves none, cuts strictly more, and needs 2 rounds here
    (fuel 1 is not enough, the model's `gridFuel` is never the limit). -/
example : (match mkAllocation exEnv ⟨-1, -1⟩ wRaw with
    | .ok (a, st) => (match griddify exEnv st a, griddifyOnce exEnv st a with
        | .ok (b, _), .ok (b1, _) =>
          (b.cells.any fun d => !d.rect.fixed && b.cells.any fun e =>
              d.rect.xCuttable e.rect.xmin exEnv.rho || d.rect.xCuttable e.rect.xmax exEnv.rho ||
              d.rect.yCuttable e.rect.ymin exEnv.rho || d.rect.yCuttable e.rect.ymax exEnv.rho,
           decide (b1.cells.length < b.cells.length))
        | _, _ => (true, false))
    | .error _ => (true, false)) = (false, true) := by decide +kernel

/-- `griddifyOnce_failure_region` applied to `wRaw`: the hypotheses are met and a failing pair exists (previous theorem),
    so the region is inhabited. -/
example : ∃ a st b, mkAllocation exEnv ⟨-1, -1⟩ wRaw = .ok (a, st) ∧ griddifyOnce exEnv st a = .ok (b, st) ∧
    ∀ d ∈ b.cells, d.rect.fixed = false → ∀ x, d.rect.xCuttable x exEnv.rho = true →
      (∃ xs ys, gatherBoundaries st (a.cells.map (·.rect)) = .ok (xs, ys) ∧ InteriorCut xs x) →
      ∃ c0 ∈ a.cells, d.rect.isInside c0.rect = true ∧ d.rect.h < c0.rect.h := by
  obtain ⟨a, st, h, hv⟩ := wRaw_valid
  obtain ⟨b, xs, ys, h1, hb, hreg⟩ := griddifyOnce_failure_region exEnv st a hv
  refine ⟨a, st, b, h, h1, ?_⟩
  intro d hd hf x hcut ⟨xs', ys', hb', hi⟩
  rw [hb] at hb'; injection hb' with hb'; injection hb' with e1 e2; subst e1
  obtain ⟨c0, hc0, hin, hlt, _⟩ := hreg d hd hf x hi hcut
  exact ⟨c0, hc0, hin, hlt⟩

/-- `griddify_loop_terminates` applied: the cells of `wRaw` are well formed. -/
example : ∃ a st, mkAllocation exEnv ⟨-1, -1⟩ wRaw = .ok (a, st) ∧
    ∀ xs ys, ∃ q, griddifyRounds exEnv.rho xs ys (gridFuel xs ys a.cells) a.cells = .ok q ∧
      griddifyCells exEnv.rho xs ys q = .ok q := by
  obtain ⟨a, st, h, hv⟩ := wRaw_valid
  refine ⟨a, st, h, fun xs ys => ?_⟩
  obtain ⟨q, e, f, _⟩ := griddify_loop_terminates exEnv.rho xs ys a.cells hv.cells.good
  exact ⟨q, e, f⟩

/-- the count theorems applied: `refine(1/2, 2)` on `exRaw` (one cell qualifies) returns `3 + (2² − 1)·1 = 6` cells;
    `uniform_refinement_depth` on `exRawF` (depths 0, 0 fixed, 1) returns `2 + 1 + 1 = 4`; `griddify` on `wRaw` stays
    within its bounds. -/
example : ∃ a st b, mkAllocation exEnv ⟨-1, -1⟩ exRaw = .ok (a, st) ∧ refine exEnv st a (1/2) 2 = .ok (b, st) ∧
    b.numRectangles = 6 := by
  obtain ⟨a, st, h, hv⟩ := ex_valid
  obtain ⟨b, h1, h2⟩ := refine_num_rectangles exEnv st a (1/2) 2 hv (by norm_num)
  refine ⟨a, st, b, h, h1, ?_⟩
  have hc : (match mkAllocation exEnv ⟨-1, -1⟩ exRaw with
      | .ok (a, _) => a.numRectangles + (2 ^ 2 - 1) * a.cells.countP (splitCond (1/2)) | .error _ => 0) = 6 := by decide +kernel
  rw [h] at hc; rw [h2]; exact hc

example : ∃ a st b, mkAllocation exEnv ⟨-1, -1⟩ exRawF = .ok (a, st) ∧ uniform exEnv st a = .ok (b, st) ∧
    b.numRectangles = 4 := by
  obtain ⟨a, st, h, hv⟩ := ex_fixed_valid
  obtain ⟨b, h1, h2⟩ := uniform_num_rectangles exEnv st a hv
  refine ⟨a, st, b, h, h1, ?_⟩
  have hc : (match mkAllocation exEnv ⟨-1, -1⟩ exRawF with
      | .ok (a, _) => (a.cells.map fun c => if c.rect.fixed then 1 else 2 ^ (maxDepth a.cells - c.depth)).sum
      | .error _ => 0) = 4 := by decide +kernel
  rw [h] at hc; rw [h2]; exact hc

/-- `bare_loop_never_stabilises` / `bare_loop_diverges` applied to `exRaw` at threshold 1/2. -/
example : ∃ a st, mkAllocation exEnv ⟨-1, -1⟩ exRaw = .ok (a, st) ∧
    ∀ k, (bareLoopTrace exEnv st (1/2) k a).length = k + 1 ∧ ∀ p ∈ bareLoopTrace exEnv st (1/2) k a, p.1 = true := by
  obtain ⟨a, st, b, h, _, hm, _, _⟩ := ex_refine
  obtain ⟨a2, st2, h2, hv⟩ := ex_valid
  rw [h] at h2; injection h2 with h2; injection h2 with ha hs; subst ha; subst hs
  exact ⟨a, st, h, fun k => bare_loop_diverges exEnv st (1/2) k a hv hm⟩

/-- the 1 % boundary: a cut whose smaller piece is EXACTLY `ρ·(other side)` is refused, anything larger accepted. -/
example : (⟨2, 1, 4, 2, "_", false, false, .nopoly⟩ : Rect ℚ).xCuttable (1/50) (1/100) = false ∧
    (⟨2, 1, 4, 2, "_", false, false, .nopoly⟩ : Rect ℚ).xCuttable (1/50 + 1/1000000) (1/100) = true := by decide +kernel

end FV.C12

import FV.Proofs.Producers
import FV.Proofs.ProducersDie
import FV.Proofs.ProducersAlloc
import FV.Props.C01
/-
  C19 — Every document FRAME produces is accepted back and says the same thing.
  Property theorems only (helper lemmas live in `FV/Proofs/Producers.lean`).

  Producers are the executable models of `FV/Model/Producers.lean`; the netlist reader is the model of C04/C05
  (`FV.NL.parseNetlist`, with the STOG construction `stog` and the area tolerance `εA` as parameters: every theorem
  holds for all of them).  Statements are over an arbitrary linearly ordered field `α`.

  Shape of the claims.  Per producer: `reader (producer obj).1 = .ok obj'` with `obj'` spelled out in terms of the source
  object (same regions / cells / ratios / modules / kinds / shapes / nets / weights), `(producer obj).2 = obj`
  (producing does not alter the object) and, as a corollary, producing twice gives the same tree.
  netgen: for every topology and every size at which it is defined — chain, star: every n; ring: accepted for every n ≥ 1, a simple cycle for n ≥ 3; ring-star:
  n ≥ 4; one-net: n ≥ 2; grid: columns ≥ 1 (also with `--add-centers`: `gen_grid_centres_*`); H-tree: levels ≥ 1, by induction on the levels with the invariant
  "every referenced index lies in [first index, next free index)" — `gen_*_accepted` (the reader returns exactly the
  netlist of the index-level specification) and `gen_*_topology` (that netlist is well formed and is the intended graph).

  WHAT THE PURITY STATEMENTS ARE.  The functional writers (`writeDie`, `writeAlloc`, `dumpNamedEdges`, `writeFPEF`) are
  DEFINED as `obj ↦ (tree, obj)`; that their second component is `obj` (`produce_pure_*`, `produce_twice_*`) holds by
  `rfl` — it is a frame condition of the MODEL, stated as `lemma`s (not counted as proof obligations), and it is the
  harness's deep before/after snapshots and write-twice comparisons that tie it to the code.  Purity statements WITH
  content are those about programs on a mutable representation:
  * `die_writer_frame` / `die_writer_twice`: `Die.write_yaml` as a program on a store of Python list objects
    (`blockages + specialized_regions` allocates a new list): every pre-existing list object is unchanged;
    `die_writer_inplace_variant_alters`: the `rectangles = self.blockages; rectangles += …` variant is a different program
    and does alter the die;
  * `namededges_orig_alters`: the code as found (aliasing the edge's own list) alters the edge.
  No purity theorem is stated for netgen (pure functions of the size) or the rect / legalfloor emitters (string
  building): for those the clause is harness-only.

  WHICH READER.  `die_roundtrip` / `alloc_roundtrip` are against the PARSING layer (`parse_yaml_die` + the blockage split;
  `Allocation._parse_yaml_tree`).  `die_roundtrip_constructor` composes the die writer with the CONSTRUCTOR model of C01
  (`FV/Model/Die.lean`): the written document parses to the same size / blockages / specialised regions and the
  constructor (`dieCore`, `detPicks`: grid, ground regions, self-check) returns on it exactly what it returns on the
  source.  `alloc_roundtrip_constructor` does the same with the constructor model of C02/C12 (`FV/Model/Alloc.lean`,
  `mkAllocation`: parse, bounding box, tolerances, `_check_no_overlap`, `_calculate_areas_and_centers`): the written
  document is accepted in the same tolerance state and yields the same cells, ratio maps, depths, `fixed` marks, caches and
  box.

  WHICH TOLERANCE STATE.  The class-wide tolerances (`Rectangle._distance_epsilon/_area_epsilon`) at the time of the re-read
  need not be those at the time of writing: `alloc_roundtrip_any_state` (re-read in ANY state — a fresh interpreter or
  whatever an earlier design left — as soon as the cell overlaps stay within the area tolerance then in force;
  `alloc_roundtrip_fresh` for exact tilings in a fresh interpreter) and `die_roundtrip_any_state` (die built in state `st`,
  document re-read in state `st'`, both inside the separated band of C01/C20: SAME ground / specialised / blockage /
  fixed lists).

  THE `fixed` MARK OF A CELL (REPAIRED, fixes/C19_alloc_fixed_mark.diff).  `refine`, `must_be_refined`,
  `uniform_refinement_depth` and `griddify` skip the cells whose rectangle is marked `fixed`.  The code as found wrote
  `[[x, y, w, h, region], {module: ratio}, depth]` only and read every cell back unmarked: on an 8 × 6 die with the fixed
  module `[1,1,2,2]`, `refine(1.0, 1)` returned 5 cells on the original object and 6 on the one read back
  (findings/C19_alloc_fixed_mark.py) — `alloc_orig_loses_mark`.  The repaired writer appends `depth, fixed` to the
  descriptor of a marked cell and the reader restores the mark; the theorems below are about the repaired code.
  Still not carried by an allocation document: the marks `hard` and STOG location of a cell's rectangle (no operation of
  `Allocation` reads them; `stripCell` resets exactly these two).

  NOT CLAIMED
  * the text form of a netgen / FloorSet / die / allocation document beyond what `ruamel` round-trips (see OUTSIDE).

  ALSO IN THIS FILE (added when the coverage was extended): the command line of netgen (`netgen_main_accepted`,
  `netgen_main_grid_accepted`, `netgen_main_rejects`), what generator and reader do below the size guards
  (`gen_one_net_small_rejected`, `gen_ring_star_small_rejected`; `gen_ring_accepted` needs no guard at all), the FloorSet
  converter from the RAW arrays — the constructor's asserts, kinds from the placement constraints, the weight
  normalisation `alpha` (`floorset_raw_accepted`, `floorset_raw_rejects`) — every terminal rectangle inside the die
  (`floorset_terminals_in_die`), `get_netlist` composed with a valid allocation with no side condition left
  (`rectio_accepted_of_valid_allocation`, via `valid_identifier_one_function`).

  OUTSIDE these theorems (exercised on every sample by harness/props/c19.py, not proved):
  * the text layer (ruamel dump / safe load, `str(float)` inside the string-built netlists; `argparse` and the `WxH`
    die shorthand of `netgen.main`);
  * for a die written AFTER a refinement, that the
    ground regions the constructor re-derives cover the same region as the refined ones (compared exactly by the harness;
    `die_roundtrip_constructor` says the constructor sees the same size / blockages / specialised regions);
  * the polygon decomposition of FloorSet blocks (`strop_decomposition`, property C15) is an input of `FsInst` / `FsRaw`;
    hard blocks need `noOverlap εA` of their decomposition as a hypothesis; `sqrt` in the perimeter is a parameter;
    numpy's pairwise summation in `weight_sum` is a left fold in the model; the type checks of
    `FloorSetInstance.__init__` (dict / ndarray / float) and FloorSet-Lite rows (which the code cannot convert) are not
    modelled;
  * for ring-star only pin-level well-formedness is proved, not the absence of parallel nets.
-/
namespace FV.C19
open FV FV.NL FV.Prod
set_option linter.unusedSectionVars false
set_option linter.unusedSimpArgs false
set_option linter.unusedVariables false

variable {α : Type} [Field α] [LinearOrder α] [IsStrictOrderedRing α]

/-! ### what "accepted and well formed" means for a loaded netlist -/

/-- names are valid identifiers and pairwise distinct; every net has at least two pins, its pins are pairwise
    distinct declared modules, and its weight is positive. -/
def WellFormed (nl : Netlist α) : Prop :=
  (nl.modules.map (·.name)).Nodup ∧ (∀ m ∈ nl.modules, validIdent m.name = true) ∧
  ∀ e ∈ nl.nets, 2 ≤ e.members.length ∧ e.members.Nodup ∧ (∀ x ∈ e.members, x ∈ nl.modules.map (·.name)) ∧
    (0 : α) < e.weight

/-- the two-pin net `{Mi, Mj}` of weight `w`. -/
def net2 (i j : Nat) (w : α) : Net α := { members := [modName i, modName j], weight := w }

/-- `n` soft modules `M0 … M(n-1)` of area `a` and the two-pin unit-weight nets `ps`. -/
def pairNetlist (a : α) (n : Nat) (ps : List (Nat × Nat)) : Netlist α :=
  { modules := (List.range n).map fun i => softMod a (modName i),
    nets := ps.map fun p => net2 p.1 p.2 1 }

/-! ### netgen: intended topologies, at the level of module indices -/

def chainPairs (n : Nat) : List (Nat × Nat) := (List.range (n - 1)).map fun i => (i, i + 1)
def ringPairs (n : Nat) : List (Nat × Nat) := (List.range n).map fun i => (i, (i + 1) % n)
def starPairs (n : Nat) : List (Nat × Nat) := (List.range' 1 (n - 1)).map fun i => (0, i)
/-- ring over `1 … n-1` closed by `(n-1, 1)`, then the spokes from `0`. -/
def ringStarPairs (n : Nat) : List (Nat × Nat) :=
  ((List.range' 1 (n - 2)).map fun i => (i, i + 1)) ++ [(n - 1, 1)] ++ starPairs n

lemma genModules_chain (area : Num α) (n : Nat) :
    genModules area n 0 = (List.range n).map fun i => (modName i, modInfo area) := by
  simp only [genModules, if_true]
  apply dictOfList_of_nodup
  simp only [List.map_map, Function.comp_def]
  exact modName_nodup _ List.nodup_range

/-- a netlist of `n` area-only modules and two-pin nets over indices `< n` loads as `pairNetlist`. -/
lemma pairs_accepted (stog : List (NRect α) → List (NRect α)) (εA : α) (area : Num α) (ha : (0 : α) < area.val)
    (n : Nat) (ps : List (Nat × Nat)) (h : ∀ p ∈ ps, p.1 < n ∧ p.2 < n) :
    parseNetlist stog εA
      (GenOut.toY { modules := genModules area n 0, nets := ps.map fun p => pair (modName p.1) (modName p.2) })
      = .ok (pairNetlist area.val n ps) := by
  have hm : (List.range n).map (fun i => (modName i, modInfo area))
      = ((List.range n).map modName).map fun s => (s, modInfo area) := by simp [Function.comp_def]
  rw [genModules_chain, hm, parseNetlist_soft stog εA ((List.range n).map modName) area _
    (by intro s hs; obtain ⟨i, _, rfl⟩ := List.mem_map.mp hs; exact validIdent_modName i)
    (modName_nodup _ List.nodup_range) ha
    (by
      intro e he
      obtain ⟨p, hp, rfl⟩ := List.mem_map.mp he
      refine ⟨by simp [pair], ?_, by simp [pair]⟩
      intro m hm
      simp only [pair, List.mem_cons, List.mem_nil_iff, or_false] at hm
      rcases hm with rfl | rfl
      · exact List.mem_map.mpr ⟨p.1, List.mem_range.mpr (h p hp).1, rfl⟩
      · exact List.mem_map.mpr ⟨p.2, List.mem_range.mpr (h p hp).2, rfl⟩)]
  simp [pairNetlist, net2, pair, GEdge.toNet, Function.comp_def]

/-- two-pin nets over distinct indices `< n` form a well-formed netlist. -/
lemma pairNetlist_wellFormed (a : α) (n : Nat) (ps : List (Nat × Nat))
    (h : ∀ p ∈ ps, p.1 < n ∧ p.2 < n ∧ p.1 ≠ p.2) : WellFormed (pairNetlist a n ps) := by
  have hnames : (pairNetlist a n ps).modules.map (·.name) = (List.range n).map modName := by
    simp [pairNetlist, softMod, Function.comp_def]
  refine ⟨by rw [hnames]; exact modName_nodup _ List.nodup_range, ?_, ?_⟩
  · intro m hm
    simp only [pairNetlist, List.mem_map] at hm
    obtain ⟨i, _, rfl⟩ := hm
    exact validIdent_modName i
  · intro e he
    rw [hnames]
    simp only [pairNetlist, List.mem_map] at he
    obtain ⟨p, hp, rfl⟩ := he
    obtain ⟨h1, h2, h3⟩ := h p hp
    refine ⟨by simp [net2], ?_, ?_, by simp [net2]⟩
    · simp only [net2, List.nodup_cons, List.mem_cons, List.mem_nil_iff, or_false, not_false_eq_true,
        List.nodup_nil, and_true]
      exact fun e => h3 (modName_inj e)
    · intro x hx
      simp only [net2, List.mem_cons, List.mem_nil_iff, or_false] at hx
      rcases hx with rfl | rfl
      · exact List.mem_map.mpr ⟨p.1, List.mem_range.mpr h1, rfl⟩
      · exact List.mem_map.mpr ⟨p.2, List.mem_range.mpr h2, rfl⟩

/-! #### chain (defined for every `n`; `n ≥ 1` in the property) -/

theorem gen_chain_accepted (stog : List (NRect α) → List (NRect α)) (εA : α) (area : Num α)
    (ha : (0 : α) < area.val) (n : Nat) :
    parseNetlist stog εA (genChain area n).toY = .ok (pairNetlist area.val n (chainPairs n)) := by
  have := pairs_accepted stog εA area ha n (chainPairs n) (by
    intro p hp
    simp only [chainPairs, List.mem_map, List.mem_range] at hp
    obtain ⟨i, hi, rfl⟩ := hp
    exact ⟨by omega, by omega⟩)
  simpa [genChain, chainPairs, Function.comp_def] using this

/-- chain `n` = the path `0 – 1 – … – (n-1)`: `n-1` nets, net `i` joins `i` and `i+1`. -/
theorem gen_chain_topology (a : α) (n : Nat) :
    WellFormed (pairNetlist a n (chainPairs n)) ∧ (chainPairs n).length = n - 1 ∧
    ∀ i, i < n - 1 → (chainPairs n)[i]? = some (i, i + 1) := by
  refine ⟨pairNetlist_wellFormed a n _ ?_, by simp [chainPairs], ?_⟩
  · intro p hp
    simp only [chainPairs, List.mem_map, List.mem_range] at hp
    obtain ⟨i, hi, rfl⟩ := hp
    exact ⟨by omega, by omega, by simp⟩
  · intro i hi
    simp [chainPairs, hi]

/-! #### ring (accepted for every `n`; a simple cycle needs `n ≥ 3`) -/

/-- the reader accepts the ring of EVERY size (no guard is needed: for `n = 0` no `% n` is evaluated and the netlist is
    empty) and loads the nets `{M_i, M_((i+1) mod n)}`; for `n = 1` that is the self-loop `[M0, M0]`, for `n = 2` two
    parallel nets — what "ring" means below 3 is `gen_ring_topology`'s hypothesis, not the reader's. -/
theorem gen_ring_accepted (stog : List (NRect α) → List (NRect α)) (εA : α) (area : Num α)
    (ha : (0 : α) < area.val) (n : Nat) :
    parseNetlist stog εA (genRing area n).toY = .ok (pairNetlist area.val n (ringPairs n)) := by
  have := pairs_accepted stog εA area ha n (ringPairs n) (by
    intro p hp
    simp only [ringPairs, List.mem_map, List.mem_range] at hp
    obtain ⟨i, hi, rfl⟩ := hp
    exact ⟨hi, Nat.mod_lt _ (by omega)⟩)
  simpa [genRing, ringPairs, Function.comp_def] using this

/-- ring `n` = the cycle `{(i, i+1 mod n)}`: `n` nets, no self-loop, no two nets join the same pair of modules. -/
theorem gen_ring_topology (a : α) (n : Nat) (hn : 3 ≤ n) :
    WellFormed (pairNetlist a n (ringPairs n)) ∧ (ringPairs n).length = n ∧
    (∀ i, i < n → (ringPairs n)[i]? = some (i, (i + 1) % n)) ∧
    (∀ i j, i < n → j < n → i ≠ j →
      ¬ ((i = j ∧ (i + 1) % n = (j + 1) % n) ∨ (i = (j + 1) % n ∧ (i + 1) % n = j))) := by
  refine ⟨pairNetlist_wellFormed a n _ ?_, by simp [ringPairs], ?_, ?_⟩
  · intro p hp
    simp only [ringPairs, List.mem_map, List.mem_range] at hp
    obtain ⟨i, hi, rfl⟩ := hp
    refine ⟨hi, Nat.mod_lt _ (by omega), ?_⟩
    simp only
    by_cases h : i + 1 < n
    · rw [Nat.mod_eq_of_lt h]; omega
    · have : i + 1 = n := by omega
      rw [this, Nat.mod_self]; omega
  · intro i hi
    simp [ringPairs, hi]
  · intro i j hi hj hij
    by_cases h1 : i + 1 < n <;> by_cases h2 : j + 1 < n
    · rw [Nat.mod_eq_of_lt h1, Nat.mod_eq_of_lt h2]; omega
    · have : j + 1 = n := by omega
      rw [Nat.mod_eq_of_lt h1, this, Nat.mod_self]; omega
    · have : i + 1 = n := by omega
      rw [Nat.mod_eq_of_lt h2, this, Nat.mod_self]; omega
    · omega

/-! #### star (centre `0`; defined for every `n ≥ 1`) -/

theorem gen_star_accepted (stog : List (NRect α) → List (NRect α)) (εA : α) (area : Num α)
    (ha : (0 : α) < area.val) (n : Nat) :
    parseNetlist stog εA (genStar area n).toY = .ok (pairNetlist area.val n (starPairs n)) := by
  have := pairs_accepted stog εA area ha n (starPairs n) (by
    intro p hp
    simp only [starPairs, List.mem_map, List.mem_range'_1] at hp
    obtain ⟨i, hi, rfl⟩ := hp
    exact ⟨by omega, by omega⟩)
  simpa [genStar, starPairs, Function.comp_def] using this

/-- star `n` = the spokes `{(0, i) : 1 ≤ i < n}`. -/
theorem gen_star_topology (a : α) (n : Nat) :
    WellFormed (pairNetlist a n (starPairs n)) ∧ (starPairs n).length = n - 1 ∧
    ∀ i, i < n - 1 → (starPairs n)[i]? = some (0, i + 1) := by
  refine ⟨pairNetlist_wellFormed a n _ ?_, by simp [starPairs], ?_⟩
  · intro p hp
    simp only [starPairs, List.mem_map, List.mem_range'_1] at hp
    obtain ⟨i, hi, rfl⟩ := hp
    exact ⟨by omega, by omega, by simp; omega⟩
  · intro i hi
    simp [starPairs, hi, List.getElem?_range', Nat.add_comm]

/-! #### ring-star (`n ≥ 4`: the ring over `1 … n-1` needs three modules) -/

lemma ringStarPairs_bound (n : Nat) (hn : 4 ≤ n) : ∀ p ∈ ringStarPairs n, p.1 < n ∧ p.2 < n ∧ p.1 ≠ p.2 := by
  intro p hp
  simp only [ringStarPairs, starPairs, List.mem_append, List.mem_map, List.mem_range'_1, List.mem_cons,
    List.mem_nil_iff, or_false] at hp
  rcases hp with (⟨i, hi, rfl⟩ | rfl) | ⟨i, hi, rfl⟩
  · exact ⟨by omega, by omega, by simp⟩
  · exact ⟨by omega, by omega, by simp; omega⟩
  · exact ⟨by omega, by omega, by simp; omega⟩

theorem gen_ring_star_accepted (stog : List (NRect α) → List (NRect α)) (εA : α) (area : Num α)
    (ha : (0 : α) < area.val) (n : Nat) (hn : 4 ≤ n) :
    parseNetlist stog εA (genRingStar area n).toY = .ok (pairNetlist area.val n (ringStarPairs n)) := by
  have := pairs_accepted stog εA area ha n (ringStarPairs n)
    (fun p hp => ⟨(ringStarPairs_bound n hn p hp).1, (ringStarPairs_bound n hn p hp).2.1⟩)
  have hp : modNamePred n = modName (n - 1) := by simp [modNamePred]; omega
  simpa [genRingStar, ringStarPairs, starPairs, Function.comp_def, hp] using this

/-- ring-star `n` = the cycle `1 – 2 – … – (n-1) – 1` plus the spokes `(0, i)`; `2(n-1)` nets. -/
theorem gen_ring_star_topology (a : α) (n : Nat) (hn : 4 ≤ n) :
    WellFormed (pairNetlist a n (ringStarPairs n)) ∧ (ringStarPairs n).length = 2 * (n - 1) ∧
    (∀ i, 1 ≤ i → i < n - 1 → (i, i + 1) ∈ ringStarPairs n) ∧ (n - 1, 1) ∈ ringStarPairs n ∧
    (∀ i, 1 ≤ i → i < n → (0, i) ∈ ringStarPairs n) := by
  refine ⟨pairNetlist_wellFormed a n _ (ringStarPairs_bound n hn), ?_, ?_, ?_, ?_⟩
  · simp [ringStarPairs, starPairs]; omega
  · intro i h1 h2
    simp only [ringStarPairs, List.mem_append, List.mem_map, List.mem_range'_1]
    exact Or.inl (Or.inl ⟨i, ⟨h1, by omega⟩, rfl⟩)
  · simp [ringStarPairs]
  · intro i h1 h2
    simp only [ringStarPairs, starPairs, List.mem_append, List.mem_map, List.mem_range'_1]
    exact Or.inr ⟨i, ⟨h1, by omega⟩, rfl⟩

/-! #### one-net (`n ≥ 2`: a net needs two pins) -/

/-- `n` soft modules and the single net `{M0, …, M(n-1)}`. -/
def oneNetNetlist (a : α) (n : Nat) : Netlist α :=
  { modules := (List.range n).map fun i => softMod a (modName i),
    nets := [{ members := (List.range n).map modName, weight := 1 }] }

theorem gen_one_net_accepted (stog : List (NRect α) → List (NRect α)) (εA : α) (area : Num α)
    (ha : (0 : α) < area.val) (n : Nat) (hn : 2 ≤ n) :
    parseNetlist stog εA (genOneNet area n).toY = .ok (oneNetNetlist area.val n) := by
  have hm : (List.range n).map (fun i => (modName i, modInfo area))
      = ((List.range n).map modName).map fun s => (s, modInfo area) := by simp [Function.comp_def]
  simp only [genOneNet]
  rw [genModules_chain, hm, parseNetlist_soft stog εA ((List.range n).map modName) area _
    (by intro s hs; obtain ⟨i, _, rfl⟩ := List.mem_map.mp hs; exact validIdent_modName i)
    (modName_nodup _ List.nodup_range) ha
    (by
      intro e he
      simp only [List.mem_cons, List.mem_nil_iff, or_false] at he
      subst he
      exact ⟨by simpa using hn, fun m hm => hm, by simp⟩)]
  simp [oneNetNetlist, GEdge.toNet, Function.comp_def]

theorem gen_one_net_topology (a : α) (n : Nat) (hn : 2 ≤ n) : WellFormed (oneNetNetlist a n) := by
  have hnames : (oneNetNetlist a n).modules.map (·.name) = (List.range n).map modName := by
    simp [oneNetNetlist, softMod, Function.comp_def]
  refine ⟨by rw [hnames]; exact modName_nodup _ List.nodup_range, ?_, ?_⟩
  · intro m hm
    simp only [oneNetNetlist, List.mem_map] at hm
    obtain ⟨i, _, rfl⟩ := hm
    exact validIdent_modName i
  · intro e he
    rw [hnames]
    simp only [oneNetNetlist, List.mem_cons, List.mem_nil_iff, or_false] at he
    subst he
    exact ⟨by simpa using hn, modName_nodup _ List.nodup_range, fun x hx => hx, by simp⟩

/-! #### grid (`rows × columns`, `columns ≥ 1`) -/

/-- horizontal neighbours `((r,c),(r,c+1))`, then vertical neighbours `((r,c),(r+1,c))`. -/
def gridH (rows columns : Nat) : List ((Nat × Nat) × (Nat × Nat)) :=
  (List.range rows).flatMap fun r => (List.range (columns - 1)).map fun c => ((r, c), (r, c + 1))
def gridV (rows columns : Nat) : List ((Nat × Nat) × (Nat × Nat)) :=
  (List.range (rows - 1)).flatMap fun r => (List.range columns).map fun c => ((r, c), (r + 1, c))

def gridNetlist (a : α) (rows columns : Nat) : Netlist α :=
  { modules := (gridIdx rows columns).map fun p => softMod a (modName2 p.1 p.2),
    nets := (gridH rows columns ++ gridV rows columns).map fun q =>
      { members := [modName2 q.1.1 q.1.2, modName2 q.2.1 q.2.2], weight := 1 } }

lemma mem_gridH {rows columns : Nat} {q : (Nat × Nat) × (Nat × Nat)} :
    q ∈ gridH rows columns ↔ q.1.1 < rows ∧ q.1.2 + 1 < columns ∧ q.2 = (q.1.1, q.1.2 + 1) := by
  obtain ⟨⟨r, c⟩, ⟨r', c'⟩⟩ := q
  simp only [gridH, List.mem_flatMap, List.mem_range, List.mem_map, Prod.mk.injEq]
  constructor
  · rintro ⟨x, hx, y, hy, ⟨rfl, rfl⟩, rfl, rfl⟩
    exact ⟨hx, by omega, rfl, rfl⟩
  · rintro ⟨h1, h2, h3, h4⟩
    refine ⟨r, h1, c, by omega, ?_⟩
    simp_all

lemma mem_gridV {rows columns : Nat} {q : (Nat × Nat) × (Nat × Nat)} :
    q ∈ gridV rows columns ↔ q.1.1 + 1 < rows ∧ q.1.2 < columns ∧ q.2 = (q.1.1 + 1, q.1.2) := by
  obtain ⟨⟨r, c⟩, ⟨r', c'⟩⟩ := q
  simp only [gridV, List.mem_flatMap, List.mem_range, List.mem_map, Prod.mk.injEq]
  constructor
  · rintro ⟨x, hx, y, hy, ⟨rfl, rfl⟩, rfl, rfl⟩
    exact ⟨by omega, hy, rfl, rfl⟩
  · rintro ⟨h1, h2, h3, h4⟩
    refine ⟨r, by omega, c, h2, ?_⟩
    simp_all

theorem gen_grid_accepted (stog : List (NRect α) → List (NRect α)) (εA : α) (area : Num α)
    (ha : (0 : α) < area.val) (rows columns : Nat) (hc : 1 ≤ columns) :
    parseNetlist stog εA (genGrid area rows columns).toY = .ok (gridNetlist area.val rows columns) := by
  have hmods : genModules area rows columns = (gridNames rows columns).map fun s => (s, modInfo area) := by
    have : ¬ columns = 0 := by omega
    simp only [genModules, this, if_false]
    apply dictOfList_of_nodup
    simp only [List.map_map, Function.comp_def, List.map_id']
    exact gridNames_nodup rows columns
  have hnets : ((List.range rows).flatMap fun r =>
        (List.range (columns - 1)).map fun c => pair (α := α) (modName2 r c) (modName2 r (c + 1)))
      ++ ((List.range (rows - 1)).flatMap fun r =>
        (List.range columns).map fun c => pair (modName2 r c) (modName2 (r + 1) c))
      = (gridH rows columns ++ gridV rows columns).map fun q =>
          pair (modName2 q.1.1 q.1.2) (modName2 q.2.1 q.2.2) := by
    simp [gridH, gridV, List.map_flatMap, Function.comp_def]
  simp only [genGrid, hmods, hnets]
  rw [parseNetlist_soft stog εA (gridNames rows columns) area _ (gridNames_valid rows columns)
    (gridNames_nodup rows columns) ha
    (by
      intro e he
      obtain ⟨q, hq, rfl⟩ := List.mem_map.mp he
      refine ⟨by simp [pair], ?_, by simp [pair]⟩
      intro m hm
      simp only [pair, List.mem_cons, List.mem_nil_iff, or_false] at hm
      rcases List.mem_append.mp hq with h | h
      · obtain ⟨h1, h2, h3⟩ := mem_gridH.mp h
        rcases hm with rfl | rfl
        · exact mem_gridNames h1 (by omega)
        · rw [h3]; exact mem_gridNames h1 h2
      · obtain ⟨h1, h2, h3⟩ := mem_gridV.mp h
        rcases hm with rfl | rfl
        · exact mem_gridNames (by omega) h2
        · rw [h3]; exact mem_gridNames h1 h2)]
  simp [gridNetlist, gridNames_eq, pair, GEdge.toNet, Function.comp_def]

/-- grid = the modules `M_r_c` (`r < rows`, `c < columns`, row major) and exactly the nets between horizontal and
    vertical neighbours. -/
theorem gen_grid_topology (a : α) (rows columns : Nat) :
    WellFormed (gridNetlist a rows columns) ∧
    (∀ q, q ∈ gridH rows columns ↔ q.1.1 < rows ∧ q.1.2 + 1 < columns ∧ q.2 = (q.1.1, q.1.2 + 1)) ∧
    (∀ q, q ∈ gridV rows columns ↔ q.1.1 + 1 < rows ∧ q.1.2 < columns ∧ q.2 = (q.1.1 + 1, q.1.2)) := by
  refine ⟨?_, fun q => mem_gridH, fun q => mem_gridV⟩
  have hnames : (gridNetlist a rows columns).modules.map (·.name) = gridNames rows columns := by
    simp [gridNetlist, gridNames_eq, softMod, Function.comp_def]
  refine ⟨by rw [hnames]; exact gridNames_nodup _ _, ?_, ?_⟩
  · intro m hm
    simp only [gridNetlist, List.mem_map] at hm
    obtain ⟨p, _, rfl⟩ := hm
    exact validIdent_modName2 _ _
  · intro e he
    rw [hnames]
    simp only [gridNetlist, List.mem_map] at he
    obtain ⟨q, hq, rfl⟩ := he
    have key : q.1.1 < rows ∧ q.1.2 < columns ∧ q.2.1 < rows ∧ q.2.2 < columns ∧ q.1 ≠ q.2 := by
      rcases List.mem_append.mp hq with h | h
      · obtain ⟨h1, h2, h3⟩ := mem_gridH.mp h
        rw [h3]; exact ⟨h1, by omega, h1, h2, fun e => by have := congrArg Prod.snd e; simp at this⟩
      · obtain ⟨h1, h2, h3⟩ := mem_gridV.mp h
        rw [h3]; exact ⟨by omega, h2, h1, h2, fun e => by have := congrArg Prod.fst e; simp at this⟩
    refine ⟨by simp, ?_, ?_, by simp⟩
    · simp only [List.nodup_cons, List.mem_cons, List.mem_nil_iff, or_false, not_false_eq_true,
        List.nodup_nil, and_true]
      intro e
      have := modName2_inj e
      exact key.2.2.2.2 (Prod.ext this.1 this.2)
    · intro x hx
      simp only [List.mem_cons, List.mem_nil_iff, or_false] at hx
      rcases hx with rfl | rfl
      · exact mem_gridNames key.1 key.2.1
      · exact mem_gridNames key.2.2.1 key.2.2.2.1

/-! #### grid with `--add-centers` -/

lemma genGrid_nets (area : Num α) (rows columns : Nat) :
    (genGrid area rows columns).nets = (gridH rows columns ++ gridV rows columns).map fun q =>
      pair (modName2 q.1.1 q.1.2) (modName2 q.2.1 q.2.2) := by
  simp [genGrid, gridH, gridV, List.map_flatMap, Function.comp_def]

/-- the grid with centres (any noise draws): accepted; the loaded netlist has the modules `M_r_c` in row-major order,
    each a soft module of the given area whose centre is `gridCentre` (cell centre + the two noise draws of that module),
    and the nets of the plain grid. -/
theorem gen_grid_centres_accepted (stog : List (NRect α) → List (NRect α)) (εA : α) (area : Num α)
    (ha : (0 : α) < area.val) (rows columns : Nat) (hc : 1 ≤ columns) (W H : α) (noise : List α) :
    parseNetlist stog εA (genGridCentred area rows columns W H noise).toY
      = .ok { modules := (gridIdx rows columns).map fun rc =>
                softModC (modName2 rc.1 rc.2) (gridCentre rows columns W H noise rc) area.val,
              nets := (gridNetlist area.val rows columns).nets } := by
  have hc0 : ¬ columns = 0 := by omega
  simp only [genGridCentred, hc0, if_false, genModulesCentred_eq, genGrid_nets]
  have hnames : (gridIdx rows columns).map (fun rc => modName2 rc.1 rc.2) = gridNames rows columns :=
    (gridNames_eq rows columns).symm
  rw [parseNetlist_softgen stog εA (gridIdx rows columns) (fun rc => modName2 rc.1 rc.2)
    (fun rc => modInfoC area (gridCentreY rows columns W H noise rc))
    (fun rc => softModC (modName2 rc.1 rc.2) (gridCentre rows columns W H noise rc) area.val) _
    (fun rc _ => parseModule_areaNum_center (modName2 rc.1 rc.2) area (gridCentre rows columns W H noise rc)
      (validIdent_modName2 _ _) ha)
    (fun rc _ => by simp [softModC])
    (by rw [hnames]; exact gridNames_nodup rows columns)
    (by
      intro e he
      rw [hnames]
      obtain ⟨q, hq, rfl⟩ := List.mem_map.mp he
      refine ⟨by simp [pair], ?_, by simp [pair]⟩
      intro m hm
      simp only [pair, List.mem_cons, List.mem_nil_iff, or_false] at hm
      rcases List.mem_append.mp hq with h | h
      · obtain ⟨h1, h2, h3⟩ := mem_gridH.mp h
        rcases hm with rfl | rfl
        · exact mem_gridNames h1 (by omega)
        · rw [h3]; exact mem_gridNames h1 h2
      · obtain ⟨h1, h2, h3⟩ := mem_gridV.mp h
        rcases hm with rfl | rfl
        · exact mem_gridNames (by omega) h2
        · rw [h3]; exact mem_gridNames h1 h2)]
  simp [gridNetlist, pair, GEdge.toNet, Function.comp_def]

/-- without noise (`sd = 0`) the centre of `M_r_c` on a `W × H` die is the centre of cell `(r, c)` of the `rows × columns`
    grid: `((c + 1/2)·W/columns, (r + 1/2)·H/rows)`, strictly inside its own cell and hence strictly inside the die —
    x from the COLUMN index and the width, y from the ROW index and the height. -/
theorem gen_grid_centres_position (rows columns r c : Nat) (W H : α) (hr : r < rows) (hcc : c < columns)
    (hW : 0 < W) (hH : 0 < H) :
    let p := gridCentre rows columns W H [] (r, c)
    p.1 = ((c : α) + 1 / 2) * W / (columns : α) ∧ p.2 = ((r : α) + 1 / 2) * H / (rows : α) ∧
    (c : α) * W / (columns : α) < p.1 ∧ p.1 < ((c : α) + 1) * W / (columns : α) ∧
    (r : α) * H / (rows : α) < p.2 ∧ p.2 < ((r : α) + 1) * H / (rows : α) ∧
    0 < p.1 ∧ p.1 < W ∧ 0 < p.2 ∧ p.2 < H := by
  obtain ⟨x1, x2, x3, x4, x5⟩ := gridCentreCoord_mid c columns W hcc hW
  obtain ⟨y1, y2, y3, y4, y5⟩ := gridCentreCoord_mid r rows H hr hH
  simp only [gridCentre, List.getD_nil]
  exact ⟨x1, y1, x2, x3, y2, y3, x4, x5, y4, y5⟩

/-! #### H-tree (`levels ≥ 1`), by induction on the number of levels -/

/-- the loaded H-tree: modules `M0 … M(size-1)` and the weighted two-pin nets of `htreeEdges`. -/
def htreeNetlist (a : α) (k : Nat) : Netlist α :=
  { modules := (List.range (htreeSize k)).map fun i => softMod a (modName i),
    nets := (htreeEdges k (1 : α) 0).map fun e => net2 e.1 e.2.1 e.2.2 }

/-- the index bookkeeping of `gen_htree_rec`: the generator run with a threaded "next free index" returns the modules
    `M_f, …, M_{f+size-1}` (each exactly once, in this order), the edges of the closed form, and `f + size`. -/
theorem gen_htree_bookkeeping (area : Num α) (k : Nat) (w : α) (f : Nat) :
    htreeRec area k w f
      = (mods area (List.range' f (htreeSize k)), (htreeEdges k w f).map hEdge, f + htreeSize k) :=
  htreeRec_spec area k w f

/-- every index an H-tree edge refers to is at least the first index and below the next free index; the two ends
    differ; weights are positive. -/
theorem gen_htree_invariant (k : Nat) (w : α) (f : Nat) (hw : 0 < w) :
    ∀ e ∈ htreeEdges k w f,
      f ≤ e.1 ∧ e.1 < f + htreeSize k ∧ f ≤ e.2.1 ∧ e.2.1 < f + htreeSize k ∧ e.1 ≠ e.2.1 ∧ 0 < e.2.2 :=
  htreeEdges_bound k w f hw

theorem gen_htree_accepted (stog : List (NRect α) → List (NRect α)) (εA : α) (area : Num α)
    (ha : (0 : α) < area.val) (levels : Nat) (hl : 1 ≤ levels) :
    ∃ g, genHtree area levels = some g ∧
      parseNetlist stog εA g.toY = .ok (htreeNetlist area.val (levels - 1)) := by
  obtain ⟨k, rfl⟩ : ∃ k, levels = k + 1 := ⟨levels - 1, by omega⟩
  refine ⟨_, rfl, ?_⟩
  have h1 : ((1 : Nat) : α) = 1 := by norm_num
  have hb := htreeEdges_bound (α := α) k 1 0 (by norm_num)
  simp only [htreeRec_spec, h1, Nat.add_sub_cancel]
  have hm : mods area (List.range' 0 (htreeSize k))
      = ((List.range (htreeSize k)).map modName).map fun s => (s, modInfo area) := by
    simp [mods, List.range_eq_range', Function.comp_def]
  rw [hm, parseNetlist_soft stog εA ((List.range (htreeSize k)).map modName) area _
    (by intro s hs; obtain ⟨i, _, rfl⟩ := List.mem_map.mp hs; exact validIdent_modName i)
    (modName_nodup _ List.nodup_range) ha
    (by
      intro e he
      obtain ⟨x, hx, rfl⟩ := List.mem_map.mp he
      obtain ⟨b1, b2, b3, b4, b5, b6⟩ := hb x hx
      refine ⟨by simp [hEdge, wEdge], ?_, ?_⟩
      · intro m hm
        simp only [hEdge, wEdge, List.mem_cons, List.mem_nil_iff, or_false] at hm
        rcases hm with rfl | rfl
        · exact List.mem_map.mpr ⟨x.1, List.mem_range.mpr (by omega), rfl⟩
        · exact List.mem_map.mpr ⟨x.2.1, List.mem_range.mpr (by omega), rfl⟩
      · intro w hw
        simp only [hEdge, wEdge, Option.some.injEq] at hw
        subst hw
        simpa [Num.val] using b6)]
  simp [htreeNetlist, net2, hEdge, wEdge, GEdge.toNet, Num.val, Function.comp_def]

theorem gen_htree_topology (a : α) (k : Nat) : WellFormed (htreeNetlist a k) := by
  have hnames : (htreeNetlist a k).modules.map (·.name) = (List.range (htreeSize k)).map modName := by
    simp [htreeNetlist, softMod, Function.comp_def]
  have hb := htreeEdges_bound (α := α) k 1 0 (by norm_num)
  refine ⟨by rw [hnames]; exact modName_nodup _ List.nodup_range, ?_, ?_⟩
  · intro m hm
    simp only [htreeNetlist, List.mem_map] at hm
    obtain ⟨i, _, rfl⟩ := hm
    exact validIdent_modName i
  · intro e he
    rw [hnames]
    simp only [htreeNetlist, List.mem_map] at he
    obtain ⟨x, hx, rfl⟩ := he
    obtain ⟨b1, b2, b3, b4, b5, b6⟩ := hb x hx
    refine ⟨by simp [net2], ?_, ?_, by simpa [net2] using b6⟩
    · simp only [net2, List.nodup_cons, List.mem_cons, List.mem_nil_iff, or_false, not_false_eq_true,
        List.nodup_nil, and_true]
      exact fun e => b5 (modName_inj e)
    · intro y hy
      simp only [net2, List.mem_cons, List.mem_nil_iff, or_false] at hy
      rcases hy with rfl | rfl
      · exact List.mem_map.mpr ⟨x.1, List.mem_range.mpr (by omega), rfl⟩
      · exact List.mem_map.mpr ⟨x.2.1, List.mem_range.mpr (by omega), rfl⟩


/-! #### below the guards: what the generator and the reader do at sizes where the topology is not defined

  No claim about a design is made there; these theorems (and the harness, which compares model and code at every size
  from −3 up) pin down that the MODEL does what the code does on those sizes too: rejections are rejections. -/

lemma parseDoc_edges_error (mods nets : YVal α) (ms : List (NL.Mod α)) (e : NL.Err)
    (hm : parseModules mods = .ok ms) (he : parseEdges nets = .error e) :
    parseDoc (.map [(.str "Modules", mods), (.str "Nets", nets)]) = .error e := by
  simp [parseDoc, mapE, classifyRoot, YVal.str?, rootKind, nodupB, assoc, optParse, hm, he]

lemma parseModules_chain (area : Num α) (ha : (0 : α) < area.val) (n : Nat) :
    parseModules (Dict.toY (genModules area n 0)) = .ok ((List.range n).map fun i => softMod area.val (modName i)) := by
  rw [genModules_chain]
  have hmods : mapE (parseModule (α := α)) ((List.range n).map fun i => (YVal.str (modName i), modInfo area))
      = .ok ((List.range n).map fun i => softMod area.val (modName i)) :=
    mapE_map_ok _ _ _ _ (fun i _ => parseModule_soft (modName i) area (validIdent_modName i) ha)
  have hnames : ((List.range n).map fun i => softMod area.val (modName i)).map (·.name) = (List.range n).map modName := by
    simp [softMod, Function.comp_def]
  have := parseModules_of _ _ hmods (by rw [hnames]; exact modName_nodup _ List.nodup_range)
  simpa [Dict.toY, Function.comp_def] using this

/-- one-net below 2 modules: the single net has fewer than two pins and the reader REJECTS the document
    (`AssertionError: Incorrect specification of edge`). -/
theorem gen_one_net_small_rejected (stog : List (NRect α) → List (NRect α)) (εA : α) (area : Num α)
    (ha : (0 : α) < area.val) (n : Nat) (hn : n < 2) :
    parseNetlist stog εA (genOneNet area n).toY = .error .edge := by
  have he : parseEdges (α := α) (.seq [GEdge.toY { members := (List.range n).map modName }]) = .error .edge := by
    have hl : n ≤ 1 := by omega
    simp [parseEdges, mapE, GEdge.toY, parseEdge, hl]
  have := parseDoc_edges_error (α := α) _ _ _ _ (parseModules_chain area ha n) he
  simp only [parseNetlist, genOneNet, GenOut.toY, List.map_cons, List.map_nil, this]

/-- ring-star below 2 modules: the closing net of the ring names a module that was never declared (`M-1` for `n = 0`,
    `M1` for `n = 1`) and the reader REJECTS the document (`AssertionError: Unknown module … in edge`). -/
theorem gen_ring_star_small_rejected (stog : List (NRect α) → List (NRect α)) (εA : α) (area : Num α)
    (ha : (0 : α) < area.val) (n : Nat) (hn : n < 2) :
    parseNetlist stog εA (genRingStar area n).toY = .error .unknownModule := by
  have hm := parseModules_chain area ha n
  have hnets : (genRingStar area n).nets = [pair (modNamePred n) (modName 1)] := by
    have h01 : n = 0 ∨ n = 1 := by omega
    rcases h01 with rfl | rfl <;> simp [genRingStar, List.range']
  have he : parseEdges (α := α) (.seq ((genRingStar area n).nets.map GEdge.toY))
      = .ok [{ members := [modNamePred n, modName 1], weight := 1 }] := by
    rw [hnets]
    simp [parseEdges, mapE, GEdge.toY, pair, parseEdge, splitLast, strs, YVal.num?, YVal.str?, NL.one]
  have hdoc := parseDoc_two (α := α) _ _ _ _ hm he
  have hnm : modName 1 ∉ (List.range n).map modName := by
    intro h
    obtain ⟨i, hi, hie⟩ := List.mem_map.mp h
    have := modName_inj hie
    have := List.mem_range.mp hi
    omega
  have hprep : mapE (prepModule (α := α)) ((List.range n).map fun i => softMod area.val (modName i))
      = .ok ((List.range n).map fun i => softMod area.val (modName i)) :=
    mapE_ok_self _ _ (by intro m hm; obtain ⟨i, _, rfl⟩ := List.mem_map.mp hm; simp [prepModule, softMod])
  simp only [parseNetlist, genRingStar, GenOut.toY] at hdoc ⊢
  simp only [genRingStar] at hnets
  rw [hdoc]
  simp only [finish, hprep]
  have hall : ((List.range n).map fun i => softMod area.val (modName i)).all
      (fun m => !(m.hard && !m.terminal) || noOverlap εA m.rects) = true := by
    simp [List.all_eq_true, softMod]
  have hfl : (((List.range n).map fun i => softMod area.val (modName i)).map
      fun m => if m.rects.isEmpty then m else { m with rects := stog m.rects }).all (fun m => !m.flip || hasStog m) = true := by
    simp [List.all_eq_true, softMod]
  simp only [hall, hfl, Bool.not_true, Bool.false_eq_true, if_false]
  have hnames : ((((List.range n).map fun i => softMod area.val (modName i)).map
      fun m => if m.rects.isEmpty then m else { m with rects := stog m.rects }).map (·.name)) = (List.range n).map modName := by
    simp [softMod, Function.comp_def]
  rw [hnames]
  have : ([modNamePred n, modName 1].all fun x => ((List.range n).map modName).contains x) = false := by
    simp only [List.all_cons, List.all_nil, Bool.and_true, Bool.and_eq_false_iff, List.contains_iff_mem]
    right
    simpa using hnm
  have hc2 : ∀ x < n, ¬ modName x = modName 1 := by
    intro x hx e
    have := modName_inj e
    omega
  simp [mapE, resolveNet]
  rw [if_pos (Or.inr hc2)]

/-! #### the command line `netgen.main` (option checks, die, dispatch) -/

lemma one_area_pos : (0 : α) < (Num.i 1 : Num α).val := by simp [Num.val, intToSc]

/-- `netgen --type T --size n` (no `--add-centers`) for a one-size topology at a size where it is defined: `main` writes the
    document of the builder and the reader accepts it with the intended topology. -/
theorem netgen_main_accepted (stog : List (NRect α) → List (NRect α)) (εA : α) (o : NgOpts α) (n : Nat)
    (hs : o.size = [(n : Int)]) (hc : o.addCenters = false) :
    (o.type = "chain" → ∃ g, netgenMain o = .ok g ∧ parseNetlist stog εA g.toY = .ok (pairNetlist 1 n (chainPairs n))) ∧
    (o.type = "ring" → ∃ g, netgenMain o = .ok g ∧ parseNetlist stog εA g.toY = .ok (pairNetlist 1 n (ringPairs n))) ∧
    (o.type = "star" → ∃ g, netgenMain o = .ok g ∧ parseNetlist stog εA g.toY = .ok (pairNetlist 1 n (starPairs n))) ∧
    (o.type = "ring-star" → 4 ≤ n →
      ∃ g, netgenMain o = .ok g ∧ parseNetlist stog εA g.toY = .ok (pairNetlist 1 n (ringStarPairs n))) ∧
    (o.type = "one-net" → 2 ≤ n → ∃ g, netgenMain o = .ok g ∧ parseNetlist stog εA g.toY = .ok (oneNetNetlist 1 n)) ∧
    (o.type = "htree" → 1 ≤ n → ∃ g, netgenMain o = .ok g ∧ parseNetlist stog εA g.toY = .ok (htreeNetlist 1 (n - 1))) := by
  have hv : (Num.i 1 : Num α).val = 1 := by simp [Num.val, intToSc]
  have hp := one_area_pos (α := α)
  have hn0 : ((n : Int)).toNat = n := by simp
  refine ⟨?_, ?_, ?_, ?_, ?_, ?_⟩
  · intro ht
    refine ⟨genChain (.i 1) n, by simp [netgenMain, ht, hs, hc, hn0], ?_⟩
    rw [gen_chain_accepted stog εA _ hp n, hv]
  · intro ht
    refine ⟨genRing (.i 1) n, by simp [netgenMain, ht, hs, hc, hn0], ?_⟩
    rw [gen_ring_accepted stog εA _ hp n, hv]
  · intro ht
    refine ⟨genStar (.i 1) n, by simp [netgenMain, ht, hs, hc, hn0], ?_⟩
    rw [gen_star_accepted stog εA _ hp n, hv]
  · intro ht h4
    refine ⟨genRingStar (.i 1) n, by simp [netgenMain, ht, hs, hc, genRingStarI, hn0], ?_⟩
    rw [gen_ring_star_accepted stog εA _ hp n h4, hv]
  · intro ht h2
    refine ⟨genOneNet (.i 1) n, by simp [netgenMain, ht, hs, hc, hn0], ?_⟩
    rw [gen_one_net_accepted stog εA _ hp n h2, hv]
  · intro ht h1
    obtain ⟨g, hg, hpg⟩ := gen_htree_accepted stog εA (Num.i 1 : Num α) hp n h1
    have hnp : ¬ ((n : Int) ≤ 0) := by omega
    have hn1 : ¬ n = 0 := by omega
    refine ⟨g, by simp [netgenMain, ht, hs, hc, genHtreeI, hnp, hn0, hg, hn1], ?_⟩
    rw [hpg, hv]

/-- `netgen --type grid --size r c [--add-centers --die WxH [--add-noise sd]]` for `r, c ≥ 1`: accepted, with the plain
    grid, resp. the grid whose modules carry their cell centres (plus the draws). -/
theorem netgen_main_grid_accepted (stog : List (NRect α) → List (NRect α)) (εA : α) (o : NgOpts α) (r c : Nat)
    (ht : o.type = "grid") (hs : o.size = [(r : Int), (c : Int)]) (hc1 : 1 ≤ c) :
    (o.addCenters = false →
      ∃ g, netgenMain o = .ok g ∧ parseNetlist stog εA g.toY = .ok (gridNetlist 1 r c)) ∧
    (o.addCenters = true → 1 ≤ r → ∀ W H, o.die = some (W, H) → 0 ≤ o.sd →
      ∃ g, netgenMain o = .ok g ∧ parseNetlist stog εA g.toY
        = .ok { modules := (gridIdx r c).map fun rc => softModC (modName2 rc.1 rc.2) (gridCentre r c W H o.noise rc) 1,
                nets := (gridNetlist 1 r c).nets }) := by
  have hv : (Num.i 1 : Num α).val = 1 := by simp [Num.val, intToSc]
  have hp := one_area_pos (α := α)
  constructor
  · intro hc
    refine ⟨genGrid (.i 1) r c, by simp [netgenMain, ht, hs, hc], ?_⟩
    rw [gen_grid_accepted stog εA _ hp r c hc1, hv]
  · intro hc hr1 W H hd hsd
    have hc0 : ¬ ((c : Int) ≤ 0) := by omega
    have hr0 : ¬ ((r : Int) = 0) := by omega
    have hsd' : ¬ (o.sd < 0) := not_lt.mpr hsd
    have hc0' : ¬ c = 0 := by omega
    have hr0' : ¬ r = 0 := by omega
    refine ⟨genGridCentred (.i 1) r c W H o.noise,
      by simp [netgenMain, ht, hs, hc, hd, hsd', genGridCentredI, hc0, hr0, hc0', hr0'], ?_⟩
    rw [gen_grid_centres_accepted stog εA _ hp r c hc1 W H o.noise, hv]

/-- what `main` refuses: a wrong number of sizes, `--add-centers` for another type than grid or without a die, a negative
    standard deviation (`AssertionError`), and — past the option checks — a grid with centres and NO rows
    (`ZeroDivisionError` in `die_shape.h / rows`) or an H-tree without levels (`AssertionError`). -/
theorem netgen_main_rejects (o : NgOpts α) :
    ((o.type = "grid" ∧ o.size.length ≠ 2) ∨ (o.type ≠ "grid" ∧ o.size.length ≠ 1) → netgenMain o = .error .assertion) ∧
    (o.addCenters = true → o.type ≠ "grid" → netgenMain o = .error .assertion) ∧
    (o.addCenters = true → o.die = none → netgenMain o = .error .assertion) ∧
    (o.addCenters = true → o.sd < 0 → netgenMain o = .error .assertion) ∧
    (∀ c W H, o.type = "grid" → o.size = [0, c] → 0 < c → o.addCenters = true → o.die = some (W, H) → 0 ≤ o.sd →
      netgenMain o = .error .zeroDiv) ∧
    (∀ n, o.type = "htree" → o.size = [n] → n ≤ 0 → o.addCenters = false → netgenMain o = .error .assertion) := by
  refine ⟨?_, ?_, ?_, ?_, ?_, ?_⟩
  · intro h; simp [netgenMain, h]
  · intro h1 h2
    unfold netgenMain
    split
    · rfl
    · rw [if_pos ⟨by simp [h1], h2⟩]
  · intro h1 h2
    unfold netgenMain
    split
    · rfl
    · split
      · rfl
      · rw [if_pos ⟨by simp [h1], by simp [h2]⟩]
  · intro h1 h2
    unfold netgenMain
    split
    · rfl
    · split
      · rfl
      · split
        · rfl
        · rw [if_pos ⟨by simp [h1], by simpa using h2⟩]
  · intro c W H ht hs hc hac hd hsd
    have hc0 : ¬ (c ≤ 0) := by omega
    simp [netgenMain, ht, hs, hac, hd, hsd, genGridCentredI, hc0]
  · intro n ht hs hn hac
    simp [netgenMain, ht, hs, hac, genHtreeI, hn]

/-! ### die and allocation writers: the reader sees exactly the object that was written -/

/-- `parse_yaml_die ∘ Die.write_yaml`: width, height, blockages and specialised regions (with their tags, in order)
    come back exactly, for every die the constructor can have produced (positive size; regions with non-negative
    centre and positive sides; blockages tagged `#`, specialised regions tagged with an identifier other than `_`). -/
theorem die_roundtrip (d : DieObj α) (h : d.WF) :
    ∃ d', readDie (writeDie d).1 = .ok d' ∧ d'.width = d.width ∧ d'.height = d.height ∧
      d'.blockages = d.blockages ∧ d'.specialised = d.specialised :=
  ⟨d, readDie_writeDie d h, rfl, rfl, rfl, rfl⟩

/-- `Allocation._parse_yaml_tree ∘ Allocation.write_yaml`: cells `[x, y, w, h, region]`, ratio maps (with order) and
    depths come back exactly (depth 0 is written by omission). -/
theorem alloc_roundtrip (cs : List (Cell α)) (h : ∀ c ∈ cs, c.WF) :
    readAlloc (writeAlloc cs).1 = .ok cs :=
  readAlloc_writeAlloc cs h

/-- the three forms of a written cell (REPAIRED writer): `[rect, alloc]` for an unrefined unmarked cell,
    `[rect, alloc, depth]` for a refined unmarked cell, `[rect, alloc, depth, fixed]` exactly for the marked cells. -/
theorem alloc_depth_omitted (c : Cell α) :
    (∃ r a, c.toY = .seq [r, a] ∧ c.depth = 0 ∧ c.fixed = false) ∨
    (∃ r a, c.toY = .seq [r, a, .int c.depth] ∧ 0 < c.depth ∧ c.fixed = false) ∨
    (∃ r a, c.toY = .seq [r, a, .int c.depth, .str kwFixed] ∧ c.fixed = true) := by
  cases hf : c.fixed with
  | true =>
    exact Or.inr (Or.inr ⟨c.rect.toY, .map (c.alloc.map fun kv => (.str kv.1, YVal.ofNum kv.2)), by simp [Cell.toY, hf], rfl⟩)
  | false =>
    by_cases h : c.depth > 0
    · exact Or.inr (Or.inl ⟨c.rect.toY, .map (c.alloc.map fun kv => (.str kv.1, YVal.ofNum kv.2)),
        by simp [Cell.toY, h, hf], h, rfl⟩)
    · exact Or.inl ⟨c.rect.toY, .map (c.alloc.map fun kv => (.str kv.1, YVal.ofNum kv.2)), by simp [Cell.toY, h, hf],
        by omega, rfl⟩

/-- the code AS FOUND (`writeAllocOrig` / `readAllocOrig`: no fourth entry): a marked cell comes back unmarked — the
    document does not describe the object that was written.  (Kept to document the defect that
    fixes/C19_alloc_fixed_mark.diff repairs.) -/
theorem alloc_orig_loses_mark (c : Cell α) (h : c.WF) (hf : c.fixed = true) :
    readAllocOrig (writeAllocOrig [c]).1 = .ok [{ c with fixed := false }] ∧
    readAllocOrig (writeAllocOrig [c]).1 ≠ .ok [c] := by
  have h' : ({ c with fixed := false } : Cell α).WF := h
  have key : parseCellOrig c.toYOrig = .ok { c with fixed := false } := by
    have e : c.toYOrig = ({ c with fixed := false } : Cell α).toY := by simp [Cell.toYOrig, Cell.toY]
    have p := parseCell_toY _ h'
    rw [e]
    by_cases hd : c.depth > 0
    · have e2 : ({ c with fixed := false } : Cell α).toY
          = .seq [c.rect.toY, .map (c.alloc.map fun kv => (.str kv.1, YVal.ofNum kv.2)), .int c.depth] := by
        simp [Cell.toY, hd]
      rw [e2] at p ⊢
      simpa [parseCellOrig] using p
    · have e2 : ({ c with fixed := false } : Cell α).toY
          = .seq [c.rect.toY, .map (c.alloc.map fun kv => (.str kv.1, YVal.ofNum kv.2))] := by
        simp [Cell.toY, hd]
      rw [e2] at p ⊢
      simpa [parseCellOrig] using p
  have r : readAllocOrig (writeAllocOrig [c]).1 = .ok [{ c with fixed := false }] := by
    simp [readAllocOrig, writeAllocOrig, amapE, key]
  refine ⟨r, ?_⟩
  rw [r]
  intro hc
  have := congrArg (fun x => match x with | Except.ok [d] => d.fixed | _ => true) hc
  simp [hf] at this

/-! ### producing never alters the object; producing twice gives identical documents -/

/-! frame conditions of the functional models: true by definition (`rfl`), see the header. -/
lemma produce_pure_die (d : DieObj α) : (writeDie d).2 = d := rfl
lemma produce_pure_alloc (cs : List (Cell α)) : (writeAlloc cs).2 = cs := rfl
lemma produce_pure_namededges (es : List (NEdge α)) : (dumpNamedEdges es).2 = es := rfl
lemma produce_pure_floorset (eps : α) (f : FsInst α) (t : YVal α) (es : List (NEdge α))
    (h : writeFPEF eps f = .ok (t, es)) : es = fsNets f := by
  unfold writeFPEF at h
  split at h
  · cases h
  · simp only [Except.ok.injEq, Prod.mk.injEq] at h; exact h.2.symm
lemma produce_twice_die (d : DieObj α) : (writeDie (writeDie d).2).1 = (writeDie d).1 := rfl
lemma produce_twice_alloc (cs : List (Cell α)) : (writeAlloc (writeAlloc cs).2).1 = (writeAlloc cs).1 := rfl
lemma produce_twice_namededges (es : List (NEdge α)) :
    (dumpNamedEdges (dumpNamedEdges es).2).1 = (dumpNamedEdges es).1 := rfl

/-- `Die.write_yaml` as a program on a store of Python list objects (`self.blockages + self.specialized_regions` is a
    NEW list): it emits the tree of the functional writer, every list object that existed before the call is
    unchanged, and so is the die. -/
theorem die_writer_frame (s : Store (VRect α)) (d : DieRef α) :
    (writeDieS s d).1 = (writeDie (d.deref s)).1 ∧
    (∀ a, a < s.cells.length → (writeDieS s d).2.get a = s.get a) ∧
    (d.blockages < s.cells.length → d.specialised < s.cells.length → d.deref (writeDieS s d).2 = d.deref s) :=
  ⟨writeDieS_tree s d, fun a ha => writeDieS_frame s d a ha, fun hb hs => writeDieS_pure s d hb hs⟩

/-- writing twice (the second time in the store the first call left) gives identical documents. -/
theorem die_writer_twice (s : Store (VRect α)) (d : DieRef α) (hb : d.blockages < s.cells.length)
    (hs : d.specialised < s.cells.length) : (writeDieS (writeDieS s d).2 d).1 = (writeDieS s d).1 := by
  rw [writeDieS_tree, writeDieS_tree, writeDieS_pure s d hb hs]

/-- the in-place variant (`rectangles = self.blockages; rectangles += self.specialized_regions`) is a different
    program: afterwards the die's blockage list also holds the specialised regions, so the die is altered as soon as
    there is a specialised region. -/
theorem die_writer_inplace_variant_alters (s : Store (VRect α)) (d : DieRef α) (hb : d.blockages < s.cells.length)
    (hne : s.get d.specialised ≠ []) :
    (d.deref (writeDieAliasedS s d).2).blockages ≠ (d.deref s).blockages := by
  rw [writeDieAliasedS_alters s d hb]
  intro h
  have := congrArg List.length h
  simp only [DieRef.deref, List.length_append] at this
  have : (s.get d.specialised).length = 0 := by omega
  exact hne (List.length_eq_zero_iff.mp this)

/-- the die writer composed with the die CONSTRUCTOR model of C01: for a die built from the parsed input `inp`
    (positive size; regions as `parse_die_rectangle` admits them), the constructor's parser reads the written document as
    the same size with the blockages followed by the specialised regions, and the constructor — Hanan grid, ground-region
    derivation, self-check (`dieCore`), deterministic pick sequence (`detPicks`) — returns on it exactly what it returns
    on `inp`: the re-read document passes the full constructor checks whenever the source did, with the same regions. -/
theorem die_roundtrip_constructor (inp : Die.DieIn α) (hW : 0 < inp.W) (hH : 0 < inp.H)
    (hr : ∀ r ∈ inp.regions, RegionOk r) :
    ∃ inp', Die.parseDie (toYV (writeDie (dieObjOfIn inp)).1) = .ok inp' ∧
      inp'.W = inp.W ∧ inp'.H = inp.H ∧ Die.blockOf inp' = Die.blockOf inp ∧ Die.specOf inp' = Die.specOf inp ∧
      ∀ (ε : Die.Eps α) (fixed : List (Rect α)) (picks : List Die.IRect),
        Die.dieCore ε inp' fixed picks = Die.dieCore ε inp fixed picks ∧
        Die.detPicks ε inp' fixed = Die.detPicks ε inp fixed :=
  ⟨rereadIn inp, die_parse_written inp hW hH hr, rfl, rfl, blockOf_reread inp, specOf_reread inp,
    fun ε fixed picks => die_ctor_reread ε inp fixed picks⟩

/-- the code AS FOUND (`edge = e.modules`): dumping an edge whose weight is not 1 alters it, and the second dump
    differs from the first.  (Kept to document the defect that fixes/C19_namededges_alias.diff repairs.) -/
theorem namededges_orig_alters (e : NEdge α) (h : weightIsOne e.weight = false) :
    (dumpNamedEdgesOrig [e]).2 ≠ [e] ∧
    (dumpNamedEdgesOrig (dumpNamedEdgesOrig [e]).2).1 ≠ (dumpNamedEdgesOrig [e]).1 := by
  constructor
  · intro hc
    have := congrArg (fun l => l.map (fun x => x.modules.length)) hc
    simp [dumpNamedEdgesOrig, h] at this
  · intro hc
    simp only [dumpNamedEdgesOrig, h, List.map_cons, List.map_nil, Bool.false_eq_true, if_false,
      YVal.seq.injEq, List.cons.injEq, and_true] at hc
    have := congrArg List.length hc
    simp at this


/-- the allocation writer composed with the allocation CONSTRUCTOR model of C02/C12.  For a valid allocation object
    (`ValidAlloc`: what `mkAllocation` accepted, tolerances defined) whose cells are tagged with identifier regions, the
    document `Allocation.write_yaml` produces translates (`rawOfTree`) to descriptors on which the full (REPAIRED)
    constructor `mkAllocationDoc` — parser restoring the `fixed` marks, bounding box, `_check_no_overlap`,
    `_calculate_areas_and_centers` — SUCCEEDS in the same tolerance state and leaves it unchanged; the object it builds has
    the same cells, ratio maps, depths and `fixed` marks (only `hard` / STOG location, which no allocation operation
    reads, are reset: `stripCell`), literally the same caches, hence the same `area(m)` and `center(m)` for every name,
    and the same bounding box. -/
theorem alloc_roundtrip_constructor (env : Alloc.Env α) (st : Alloc.Eps α) (a : Alloc.Allocation α)
    (hv : Alloc.ValidAlloc st a) (hr : ∀ c ∈ a.cells, Alloc.validIdent c.rect.region = true) :
    ∃ raw a', rawOfTree (writeAlloc (a.cells.map ofACell)).1 = some raw ∧
      mkAllocationDoc env st raw = .ok (a', st) ∧ a' = stripAlloc a ∧
      a'.cells = a.cells.map stripCell ∧
      a'.cells.map (fun c => (c.rect.cx, c.rect.cy, c.rect.w, c.rect.h, c.rect.region, c.rect.fixed, c.alloc, c.depth))
        = a.cells.map (fun c => (c.rect.cx, c.rect.cy, c.rect.w, c.rect.h, c.rect.region, c.rect.fixed, c.alloc, c.depth)) ∧
      a'.stats = a.stats ∧ a'.bbox = a.bbox ∧
      ∀ m, a'.areaOf m = a.areaOf m ∧ a'.centerOf m = a.centerOf m := by
  obtain ⟨h1, h2⟩ := alloc_written_constructor env st a hv hr
  refine ⟨_, _, h1, h2, rfl, rfl, ?_, rfl, rfl, fun m => ⟨rfl, rfl⟩⟩
  simp [List.map_map, Function.comp_def, stripCell]

/-- … written in tolerance state `st`, re-read in ANY state `st'` (undefined = a fresh interpreter, or left by an earlier
    design of another scale).  The re-read works with `effEps env st' a.bbox` (the state in force, or
    `1e-12·min(bb.w, bb.h)` and its `sqrt` derived from the allocation's own box).  Whenever the pairwise overlaps of the
    cells are within that area tolerance — the only way the tolerance enters the constructor — the document is accepted
    and yields the same cells, ratio maps, depths, marks, caches and box as the source object; the state left is `effEps`.
    No upper bound on the tolerance is needed and nothing that is returned depends on it. -/
theorem alloc_roundtrip_any_state (env : Alloc.Env α) (st st' : Alloc.Eps α) (a : Alloc.Allocation α)
    (hv : Alloc.ValidAlloc st a) (hr : ∀ c ∈ a.cells, Alloc.validIdent c.rect.region = true)
    (ha : 0 ≤ (effEps env st' a.bbox).area)
    (hno : a.cells.Pairwise (fun c d => c.rect.areaOverlap d.rect ≤ (effEps env st' a.bbox).area)) :
    ∃ raw a', rawOfTree (writeAlloc (a.cells.map ofACell)).1 = some raw ∧
      mkAllocationDoc env st' raw = .ok (a', effEps env st' a.bbox) ∧
      a'.cells = a.cells.map stripCell ∧ a'.stats = a.stats ∧ a'.bbox = a.bbox ∧
      ∀ m, a'.areaOf m = a.areaOf m ∧ a'.centerOf m = a.centerOf m :=
  ⟨_, _, rawOfTree_written a.cells, alloc_written_constructor_anystate env st st' a hv hr ha hno, rfl, rfl, rfl,
    fun m => ⟨rfl, rfl⟩⟩

/-- … in particular an allocation whose cells do not overlap at all (every allocation derived from a die tiling by
    `create_initial_allocation`, `refine`, `uniform_refinement_depth`, `griddify`, in exact arithmetic) is accepted back in
    a FRESH interpreter (`st'` undefined) — and in every state whose area tolerance is non-negative — whatever state it
    was written in. -/
theorem alloc_roundtrip_fresh (env : Alloc.Env α) (st st' : Alloc.Eps α) (a : Alloc.Allocation α)
    (hv : Alloc.ValidAlloc st a) (hr : ∀ c ∈ a.cells, Alloc.validIdent c.rect.region = true)
    (h0 : a.cells.Pairwise (fun c d => c.rect.areaOverlap d.rect = 0))
    (ha : 0 ≤ (effEps env st' a.bbox).area) :
    ∃ raw a', rawOfTree (writeAlloc (a.cells.map ofACell)).1 = some raw ∧
      mkAllocationDoc env st' raw = .ok (a', effEps env st' a.bbox) ∧
      a'.cells = a.cells.map stripCell ∧ a'.stats = a.stats ∧ a'.bbox = a.bbox :=
  let ⟨raw, a', h1, h2, h3, h4, h5, _⟩ := alloc_roundtrip_any_state env st st' a hv hr ha
    (h0.imp (fun h => by rw [h]; exact ha))
  ⟨raw, a', h1, h2, h3, h4, h5⟩

/-- **the object read back answers like the object that was written**: `stripAlloc a` is what
    `Allocation(a.write_yaml())` returns (`alloc_roundtrip_constructor`); `must_be_refined` gives the same verdict on it
    and `refine` returns — for every threshold and number of levels — the allocation it returns on `a`, read back: same
    cells (so the same NUMBER of cells: the fixed cell of the witness is not cut), ratios, depths, marks, caches, box, same
    exception otherwise.  On the code as found this is false (`alloc_orig_loses_mark`). -/
theorem reread_answers_alike (env : Alloc.Env α) (st : Alloc.Eps α) (a : Alloc.Allocation α) (hv : Alloc.ValidAlloc st a)
    (t : α) (levels : Nat) :
    Alloc.mustBeRefined (stripAlloc a) t = Alloc.mustBeRefined a t ∧
    Alloc.refine env st (stripAlloc a) t levels
      = (Alloc.refine env st a t levels).map (fun p => (stripAlloc p.1, p.2)) := by
  refine ⟨mustBeRefined_strip a t, refine_strip env st a t levels ?_⟩
  intro q hq c hc
  obtain ⟨q', hq', hr⟩ := Alloc.refineCells_refines t levels a.cells
    (fun c hc => ⟨(hv.cells.good c hc).1, (hv.cells.good c hc).2.1⟩)
  rw [hq] at hq'
  cases hq'
  obtain ⟨c0, hc0, hal, _⟩ := hr.mem c hc
  rw [hal]
  exact hv.cells.allocs c0 hc0

/-- the die writer composed with the die constructor ACROSS tolerance states: a die built from the document `doc` in
    the tolerance state `st` and its written document re-read in the state `st'` — both distance tolerances inside the
    band `[0, εmax]` in which the description is valid (`ValidDie εmax`: proper regions inside the die, no common area,
    boundary coordinates further apart than `εmax`) — give the SAME object: same ground regions (in the same order), same
    specialised regions, blockages and fixed rectangles, an exact tiling of the die. -/
theorem die_roundtrip_any_state (sqrt : α → α) (st st' : Option (α × α)) (doc : Die.YV α) (fixed : List (Rect α))
    (inp : Die.DieIn α) (hp : Die.parseDie doc = .ok inp) (hr : ∀ r ∈ inp.regions, RegionOk r)
    (εmax : α) (hv : FV.C01.ValidDie εmax inp fixed)
    (h0 : 0 ≤ (Die.mkEps sqrt st inp.W inp.H).1.d) (hle : (Die.mkEps sqrt st inp.W inp.H).1.d ≤ εmax)
    (ha : 0 ≤ (Die.mkEps sqrt st inp.W inp.H).1.a)
    (h0' : 0 ≤ (Die.mkEps sqrt st' inp.W inp.H).1.d) (hle' : (Die.mkEps sqrt st' inp.W inp.H).1.d ≤ εmax)
    (ha' : 0 ≤ (Die.mkEps sqrt st' inp.W inp.H).1.a) :
    ∃ out, Die.dieModel sqrt st doc fixed none =
        .ok (out, (Die.mkEps sqrt st inp.W inp.H).1, (Die.mkEps sqrt st inp.W inp.H).2) ∧
      Die.dieModel sqrt st' (toYV (writeDie (dieObjOfIn inp)).1) fixed none =
        .ok (out, (Die.mkEps sqrt st' inp.W inp.H).1, (Die.mkEps sqrt st' inp.W inp.H).2) ∧
      FV.C01.ExactTiling out := by
  obtain ⟨kv, _, _, _, hW, hH, _⟩ := FV.C01.parseDie_ok doc inp hp
  obtain ⟨out, r1, r2, ht⟩ := FV.C01.die_output_insensitive_det sqrt st st' doc fixed inp hp εmax hv h0 hle ha h0' hle' ha'
  refine ⟨out, r1, ?_, ht⟩
  have hw := die_parse_written inp hW hH hr
  unfold Die.dieModel at r2 ⊢
  simp only [hp] at r2
  simp only [hw]
  have e1 : (rereadIn inp).W = inp.W := rfl
  have e2 : (rereadIn inp).H = inp.H := rfl
  simp only [e1, e2, (die_ctor_reread _ inp fixed _).1, (die_ctor_reread _ inp fixed []).2]
  exact r2

/-- `rect_io.get_netlist` is tied to the allocation it was run on: for a valid allocation, the dictionary the emitter
    accumulates (`rioMap`, whose entries `rectio_accepted` shows to be the modules of the emitted netlist) holds for a
    module name exactly the allocation's cached `area(m)` and `center(m)` (`Σ ratio·area`,
    `Σ ratio·area·centre / Σ ratio·area` by C02's `area_center_eq_sums`), and nothing for other names. -/
theorem rectio_same_modules_as_allocation (st : Alloc.Eps α) (a : Alloc.Allocation α) (hv : Alloc.ValidAlloc st a)
    (m : String) :
    match rioLook (rioMap (a.cells.map ofACell)) m with
    | none => m ∉ Alloc.modules a.cells ∧ a.areaOf m = none
    | some (c, ar) => m ∈ Alloc.modules a.cells ∧ a.areaOf m = some ar ∧ a.centerOf m = some c :=
  rectio_denotes_allocation st a hv m

/-- the three transcriptions of `valid_identifier` in the models (netlist / producers, allocation constructor, die
    constructor) are one function, so identifier hypotheses travel between the theorems of C19, C02 and C01. -/
theorem valid_identifier_one_function (s : String) :
    Alloc.validIdent s = FV.validIdent s ∧ Die.validIdentifier s = FV.validIdent s :=
  ⟨alloc_validIdent_eq s, die_validIdentifier_eq s⟩

/-- **`rect_io.get_netlist(None, allocation)` composed with the allocation it is run on** (`rectio_accepted` +
    `rectio_same_modules_as_allocation`, no side condition left): for every VALID allocation the emitted netlist is
    accepted by the reader, holds exactly one soft module per module of the allocation (in order of first appearance), and
    the area and centre of each are the allocation's `area(m)` and `center(m)`. -/
theorem rectio_accepted_of_valid_allocation (stog : List (NRect α) → List (NRect α)) (εA : α) (st : Alloc.Eps α)
    (a : Alloc.Allocation α) (hv : Alloc.ValidAlloc st a) :
    parseNetlist stog εA (rioTree (a.cells.map ofACell))
      = .ok { modules := (rioMap (a.cells.map ofACell)).map fun e => softModC e.1 e.2.1 e.2.2, nets := [] } ∧
    (∀ e ∈ rioMap (a.cells.map ofACell),
      e.1 ∈ Alloc.modules a.cells ∧ a.areaOf e.1 = some e.2.2 ∧ a.centerOf e.1 = some e.2.1) ∧
    (∀ m ∈ Alloc.modules a.cells, ∃ e ∈ rioMap (a.cells.map ofACell), e.1 = m) :=
  rectio_accepted_of_allocation stog εA st a hv

/-! ### FloorSet converter -/

/-- `Netlist(write_yaml_FPEF())` for every well-formed instance (blocks with a non-empty decomposition into proper
    rectangles, non-overlapping when the block is hard; soft blocks with positive area; pins in the positive quadrant;
    connections between existing blocks / pins): the document is accepted and the loaded netlist has

    * the modules `M0 … M(nb-1), T0 … T(np-1)` in this order (`fsModsRead`): kinds from the placement constraints,
      the rectangles of the decomposition, the area of soft blocks, pins as terminals at their position or — with
      `--store-terminals` — as fixed `eps × eps` rectangles moved inside the die;
    * the nets `[Mi, Mj]`, `[Tp, Mj]` with weight `w·alpha` (1 when that is not positive) (`fsNetsRead`);
    the only change is the one every load makes (`post`: centre recomputed from the rectangles, rectangles handed to
    the STOG construction). -/
theorem floorset_accepted (stog : List (NRect α) → List (NRect α)) (εA eps : α) (f : FsInst α)
    (h : FsInst.WF eps εA f) :
    ∃ sx sy, fsShape f = .ok (sx, sy) ∧ writeFPEF eps f = .ok (fpefTree eps sx sy f, fsNets f) ∧
      parseNetlist stog εA (fpefTree eps sx sy f)
        = .ok { modules := (fsModsRead eps sx sy f).map (post stog), nets := fsNetsRead f } := by
  obtain ⟨sx, sy, hs⟩ := fsShape_ok f h.pins_ne
  exact ⟨sx, sy, hs, by simp [writeFPEF, hs, dumpNamedEdges], floorset_parseNetlist stog εA eps sx sy f h⟩

/-- with `--store-terminals` the (REPAIRED) pin placement keeps the `eps × eps` rectangle of every terminal inside the
    die: for a pin coordinate `0 ≤ p ≤ shape` (the die is spanned by the pins) and a die at least `2.5·eps` wide, the
    rectangle `[x - eps/2, x + eps/2]` around the placed coordinate `x` lies in `[0, shape]`, and `x` is within `eps` of
    the pin. -/
theorem floorset_terminal_in_die (eps shape p : α) (he : 0 < eps) (hs : 5 / 2 * eps ≤ shape) (hp0 : 0 ≤ p)
    (hp1 : p ≤ shape) :
    0 ≤ fsPinCoord eps shape p - eps / 2 ∧ fsPinCoord eps shape p + eps / 2 ≤ shape ∧
    |fsPinCoord eps shape p - p| ≤ eps := by
  unfold fsPinCoord
  split
  · rename_i h
    refine ⟨by linarith, by linarith, ?_⟩
    rw [abs_le]; constructor <;> linarith
  · split
    · rename_i h1 h2
      refine ⟨by linarith, by linarith, ?_⟩
      rw [abs_le]; constructor <;> linarith
    · rename_i h1 h2
      have h1' := not_lt.mp h1
      have h2' := not_lt.mp h2
      refine ⟨by linarith, by linarith, ?_⟩
      rw [abs_le]; constructor <;> linarith

/-- … for the instance as a whole: with `--store-terminals`, EVERY terminal module the reader loads from the converter's
    document is one `eps × eps` rectangle that lies inside the die the converter derives from the pins (`fsShape`), within
    `eps` of its pin — for every well-formed instance whose die is at least `2.5·eps` wide and high.  (The netlist reader
    does not know the die, so `floorset_accepted` alone does not give this.) -/
theorem floorset_terminals_in_die (eps εA : α) (f : FsInst α) (h : FsInst.WF eps εA f) (sx sy : α)
    (hs : fsShape f = .ok (sx, sy)) (hx : 5 / 2 * eps ≤ sx) (hy : 5 / 2 * eps ≤ sy) :
    ∀ jp ∈ enum f.pins, ∃ r, (fsPinMod eps sx sy true jp.1 jp.2).rects = [r] ∧ r.w.val = eps ∧ r.h.val = eps ∧
      0 ≤ r.cx.val - eps / 2 ∧ r.cx.val + eps / 2 ≤ sx ∧ 0 ≤ r.cy.val - eps / 2 ∧ r.cy.val + eps / 2 ≤ sy ∧
      |r.cx.val - jp.2.1| ≤ eps ∧ |r.cy.val - jp.2.2| ≤ eps := by
  intro jp hjp
  have hp := (mem_enum hjp).2
  obtain ⟨hp1, hp2⟩ := h.pins jp.2 hp
  obtain ⟨hb1, hb2⟩ := fsShape_bounds f sx sy hs jp.2 hp
  obtain ⟨a1, a2, a3⟩ := floorset_terminal_in_die eps sx jp.2.1 h.eps_pos hx hp1 hb1
  obtain ⟨b1, b2, b3⟩ := floorset_terminal_in_die eps sy jp.2.2 h.eps_pos hy hp2 hb2
  refine ⟨nrect true true (f4 (fsPinCoord eps sx jp.2.1, fsPinCoord eps sy jp.2.2, eps, eps)), ?_⟩
  exact ⟨by simp [fsPinMod], by simp [nrect, f4, Num.val], by simp [nrect, f4, Num.val],
    by simpa [nrect, f4, Num.val] using a1, by simpa [nrect, f4, Num.val] using a2,
    by simpa [nrect, f4, Num.val] using b1, by simpa [nrect, f4, Num.val] using b2,
    by simpa [nrect, f4, Num.val] using a3, by simpa [nrect, f4, Num.val] using b3⟩

/-- **the converter from the RAW arrays** (`FloorSetInstance(data, density, terminals)` then `write_yaml_FPEF`): for raw
    arrays the constructor's own checks admit (`FsRaw.WF`: no negative entry, density in [0, 1], at least one pin, a proper
    decomposition of every block, connections between existing blocks / pins, a normalisation that does not divide by
    zero) the constructor returns an instance whose blocks carry the kinds of the placement constraints
    (`[1]` pre-placed → fixed, `[0]` fixed → hard, else soft), the document it writes is ACCEPTED by the reader, and the
    loaded netlist has those modules and the nets `w · alpha` with `alpha = 1` (no density) or
    `density / max_b (weight_sum b / perimeter b)`. -/
theorem floorset_raw_accepted (stog : List (NRect α) → List (NRect α)) (εA eps : α) (sqrt : α → α) (r : FsRaw α)
    (h : FsRaw.WF eps εA sqrt r) :
    ∃ f sx sy, fsOfRaw sqrt r = .ok f ∧ f.blocks = fsBlocksOf r ∧ f.pins = r.pins ∧ f.b2b = r.b2b ∧ f.p2b = r.p2b ∧
      ((r.density = none ∨ r.density = some 0) → f.alpha = 1) ∧
      (∀ x, r.density = some x → x ≠ 0 → fsAlpha sqrt r x = .ok f.alpha) ∧
      fsShape f = .ok (sx, sy) ∧
      (∃ t d, convertRaw eps sqrt r = .ok (t, d) ∧ t = fpefTree eps sx sy f) ∧
      parseNetlist stog εA (fpefTree eps sx sy f)
        = .ok { modules := (fsModsRead eps sx sy f).map (post stog), nets := fsNetsRead f } := by
  obtain ⟨f, h1, hwf, hb, hp, _, hbb, hpb, ha1, ha2⟩ := fsOfRaw_ok eps εA sqrt r h
  obtain ⟨sx, sy, hs, hw, hacc⟩ := floorset_accepted stog εA eps f hwf
  refine ⟨f, sx, sy, h1, hb, hp, hbb, hpb, ha1, ha2, hs,
    ⟨fpefTree eps sx sy f, .map [(.str "width", .float sx), (.str "height", .float sy)], ?_, rfl⟩, hacc⟩
  simp [convertRaw, h1, hw, writeDIEF, hs]

/-- what the constructor refuses, in the order it raises: a negative entry in a checked array or a density outside
    [0, 1] (`AssertionError`), then no pins (`ValueError`), then a zero perimeter / zero maximal weight density
    (`ZeroDivisionError`). -/
theorem floorset_raw_rejects (sqrt : α → α) (r : FsRaw α) :
    (fsValidate r = false → fsOfRaw sqrt r = .error .assertion) ∧
    (fsValidate r = true → ∀ x, r.density = some x → (x < 0 ∨ 1 < x) → fsOfRaw sqrt r = .error .assertion) ∧
    (fsValidate r = true → (r.density = none ∨ ∃ x, r.density = some x ∧ 0 ≤ x ∧ x ≤ 1) → r.pins = [] →
      fsOfRaw sqrt r = .error .valueError) := by
  refine ⟨fun h => by simp [fsOfRaw, h], ?_, ?_⟩
  · intro hv x hx hr
    have hx0 : ¬ x = 0 := by rcases hr with h | h <;> intro e <;> rw [e] at h <;> norm_num at h
    have hnot : ¬ (0 ≤ x ∧ x ≤ 1) := by
      rintro ⟨a, b⟩
      rcases hr with h | h
      · exact absurd a (not_le.mpr h)
      · exact absurd b (not_le.mpr h)
    simp [fsOfRaw, hv, hx, fsDensity, nl_zero_eq, hx0, hnot, NL.one]
  · intro hv hd hp
    have hsh : ∀ a : α, fsShape (FsInst.mk (fsBlocksOf r) r.pins r.terminalsAsModules a r.b2b r.p2b)
        = .error .valueError := fun a => fsShape_nopins _ hp
    rcases hd with hd | ⟨x, hd, h0, h1⟩
    · simp [fsOfRaw, hv, hd, fsDensity, hsh]
    · by_cases hz : x = 0
      · simp [fsOfRaw, hv, hd, fsDensity, nl_zero_eq, hz, hsh]
      · simp [fsOfRaw, hv, hd, fsDensity, nl_zero_eq, hz, h0, h1, NL.one, hsh]

/-- an instance without pins produces nothing: the converter raises `ValueError` (`max()` of an empty sequence). -/
theorem floorset_no_pins (eps : α) (f : FsInst α) (h : f.pins = []) :
    writeFPEF eps f = .error .valueError ∧ writeDIEF f = .error .valueError := by
  simp [writeFPEF, writeDIEF, fsShape_nopins f h]

/-- the loaded FloorSet netlist is well formed as soon as no connection joins a block to itself. -/
theorem floorset_wellformed (stog : List (NRect α) → List (NRect α)) (εA eps sx sy : α) (f : FsInst α)
    (h : FsInst.WF eps εA f) (hloop : ∀ e ∈ f.b2b, e.1 ≠ e.2.1) :
    WellFormed ({ modules := (fsModsRead eps sx sy f).map (post stog), nets := fsNetsRead f } : Netlist α) := by
  have hnames : ((fsModsRead eps sx sy f).map (post stog)).map (·.name)
      = (List.range f.blocks.length).map modName ++ (List.range f.pins.length).map termName := by
    rw [← fsModsRead_names eps sx sy f]; simp [Function.comp_def, post_name]
  refine ⟨by rw [hnames]; exact fs_names_nodup _ _, ?_, ?_⟩
  · intro m hm
    have : m.name ∈ ((fsModsRead eps sx sy f).map (post stog)).map (·.name) := List.mem_map.mpr ⟨m, hm, rfl⟩
    rw [hnames] at this
    rcases List.mem_append.mp this with h1 | h1
    · obtain ⟨i, _, hi⟩ := List.mem_map.mp h1; rw [← hi]; exact validIdent_modName i
    · obtain ⟨i, _, hi⟩ := List.mem_map.mp h1; rw [← hi]; exact validIdent_termName i
  · intro e he
    rw [hnames]
    simp only [fsNetsRead, List.mem_append, List.mem_map] at he
    rcases he with ⟨x, hx, rfl⟩ | ⟨x, hx, rfl⟩
    · have hb := h.b2b x hx
      refine ⟨by simp [neNet], ?_, ?_, fsWeight_pos _ _⟩
      · simp only [neNet, List.nodup_cons, List.mem_cons, List.mem_nil_iff, or_false, not_false_eq_true,
          List.nodup_nil, and_true]
        exact fun e => hloop x hx (modName_inj e)
      · intro s hs
        simp only [neNet, List.mem_cons, List.mem_nil_iff, or_false] at hs
        rcases hs with rfl | rfl
        · exact List.mem_append_left _ (List.mem_map.mpr ⟨_, List.mem_range.mpr hb.1, rfl⟩)
        · exact List.mem_append_left _ (List.mem_map.mpr ⟨_, List.mem_range.mpr hb.2, rfl⟩)
    · have hb := h.p2b x hx
      refine ⟨by simp [neNet], ?_, ?_, fsWeight_pos _ _⟩
      · simp only [neNet, List.nodup_cons, List.mem_cons, List.mem_nil_iff, or_false, not_false_eq_true,
          List.nodup_nil, and_true]
        exact fun e => modName_ne_termName _ _ e.symm
      · intro s hs
        simp only [neNet, List.mem_cons, List.mem_nil_iff, or_false] at hs
        rcases hs with rfl | rfl
        · exact List.mem_append_right _ (List.mem_map.mpr ⟨_, List.mem_range.mpr hb.1, rfl⟩)
        · exact List.mem_append_left _ (List.mem_map.mpr ⟨_, List.mem_range.mpr hb.2, rfl⟩)

/-- `Die(write_yaml_DIEF())`: accepted, with the width / height spanned by the pins and no regions. -/
theorem floorset_die_accepted (f : FsInst α) (sx sy : α) (hs : fsShape f = .ok (sx, sy)) (hx : 0 < sx) (hy : 0 < sy) :
    ∃ t, writeDIEF f = .ok t ∧
      readDie t = .ok { width := .f sx, height := .f sy, blockages := [], specialised := [] } := by
  refine ⟨.map [(.str "width", .float sx), (.str "height", .float sy)], by simp [writeDIEF, hs], ?_⟩
  simp [readDie, dieKey, YVal.str?, nodupB, lookup, YVal.num?, Num.val, hx, hy]

/-! ### string-built netlists (the tree their text denotes) -/

/-- `rect_io.get_netlist(None, allocation)`: for an allocation whose module names are identifiers and in which every
    listed module has positive accumulated area, the emitted netlist is accepted and holds exactly one soft module per
    module of the allocation (in order of first appearance) with the accumulated area and centre of `rioMap`, no nets. -/
theorem rectio_accepted (stog : List (NRect α) → List (NRect α)) (εA : α) (cells : List (Cell α))
    (hv : ∀ c ∈ cells, ∀ kv ∈ c.alloc, validIdent kv.1 = true) (hpos : ∀ e ∈ rioMap cells, 0 < e.2.2) :
    parseNetlist stog εA (rioTree cells)
      = .ok { modules := (rioMap cells).map fun e => softModC e.1 e.2.1 e.2.2, nets := [] } :=
  rectio_parseNetlist stog εA cells hv hpos

/-- `rect_io.solution_to_netlist` (REPAIRED): same modules in the same order, same kinds (soft / hard / fixed /
    terminal / fixed terminal), the rectangles of the result (or the module's own ones), the per-region areas of soft
    modules, the position of terminals; same nets with the same weights. -/
theorem solution_accepted (stog : List (NRect α) → List (NRect α)) (εA : α) (ms : List (SolMod α))
    (es : List (List String × α)) (hm : ∀ m ∈ ms, m.WF εA) (hnd : (ms.map (·.name)).Nodup)
    (he : ∀ e ∈ es, 2 ≤ e.1.length ∧ (∀ x ∈ e.1, x ∈ ms.map (·.name)) ∧ 0 < e.2) :
    parseNetlist stog εA (solTree ms es)
      = .ok { modules := (ms.map solModRead).map (post stog), nets := es.map fun e => neNet e.1 (Num.f e.2) } :=
  sol_parseNetlist stog εA ms es hm hnd he

/-- `legalfloor.Model.get_netlist` (REPAIRED): same modules, kinds by degree, the evaluated rectangles, the original
    area of soft modules; same nets with the same weights. -/
theorem legal_accepted (stog : List (NRect α) → List (NRect α)) (εA : α) (ms : List (LfMod α))
    (hyper : List (Num α × List Nat)) (h : LfWF εA ms hyper) :
    parseNetlist stog εA (lfTree ms hyper)
      = .ok { modules := (ms.map lfModRead).map (post stog),
              nets := hyper.map fun e => neNet (e.2.map (lfMember (ms.map (·.name)))) e.1 } :=
  legal_parseNetlist stog εA ms hyper h

/-! ### the hypotheses are satisfiable (non-vacuity), at `α = ℚ` -/

example : (⟨.i 8, .f (13 / 2), [⟨.i 5, .i 5, .i 2, .i 1, "#"⟩], [⟨.f 1, .i 1, .i 2, .i 2, "dsp"⟩]⟩ : DieObj ℚ).WF := by
  refine ⟨by norm_num [Num.val, intToSc], by norm_num [Num.val], ?_, ?_⟩
  · intro r hr
    simp only [List.mem_cons, List.mem_nil_iff, or_false] at hr
    subst hr
    exact ⟨by norm_num [VRect.Geo, Num.val, intToSc], rfl⟩
  · intro r hr
    simp only [List.mem_cons, List.mem_nil_iff, or_false] at hr
    subst hr
    exact ⟨by norm_num [VRect.Geo, Num.val, intToSc], by decide, by decide⟩

example : (⟨⟨.f (5 / 2), .i 4, .i 5, .i 4, "_"⟩, [("A", .f (1 / 10)), ("m_1", .i 0)], 2, true⟩ : Cell ℚ).WF := by
  refine ⟨by norm_num [VRect.Geo, Num.val, intToSc], by decide, by decide, ?_⟩
  intro kv hkv
  simp only [List.mem_cons, List.mem_nil_iff, or_false] at hkv
  rcases hkv with rfl | rfl
  · exact ⟨by decide, by norm_num [Num.val], by norm_num [Num.val]⟩
  · exact ⟨by decide, by norm_num [Num.val, intToSc], by norm_num [Num.val, intToSc]⟩

example : weightIsOne (Num.f (2 : ℚ)) = false := by
  simp [weightIsOne, Num.val]

example : ∀ e ∈ htreeEdges 1 (1 : ℚ) 0, e.1 < 7 ∧ e.2.1 < 7 := by
  intro e he
  have := gen_htree_invariant (α := ℚ) 1 1 0 (by norm_num) e he
  simp only [htreeSize] at this
  omega

example : (htreeEdges 1 (1 : ℚ) 0).length = 10 ∧ htreeSize 2 = 31 := by
  constructor
  · simp [htreeEdges, htreeSize]
  · simp [htreeSize]

/-- a FloorSet instance with one soft L-shaped block (two rectangles), one pre-placed block and pins in two corners. -/
example : FsInst.WF (1 / 1000 : ℚ) 0
    { blocks := [⟨0, 12, [(3, 2, 4, 2), (2, 4, 2, 2)]⟩, ⟨2, 1, [(8, 8, 2, 2)]⟩], pins := [(0, 0), (10, 10)],
      terminalsAsModules := true, alpha := 1, b2b := [(0, 1, 2)], p2b := [(1, 0, 0)] } := by
  refine ⟨by norm_num, ?_, ?_, by simp, ?_, ?_⟩
  · intro b hb
    simp only [List.mem_cons, List.mem_nil_iff, or_false] at hb
    rcases hb with rfl | rfl
    · refine ⟨by simp, ?_, by norm_num, by norm_num, by norm_num⟩
      intro r hr
      simp only [List.mem_cons, List.mem_nil_iff, or_false] at hr
      rcases hr with rfl | rfl <;> norm_num [Rect4Ok]
    · refine ⟨by simp, ?_, by norm_num, ?_, by norm_num⟩
      · intro r hr
        simp only [List.mem_cons, List.mem_nil_iff, or_false] at hr
        subst hr; norm_num [Rect4Ok]
      · intro _; simp [noOverlap, pairsAll]
  · intro p hp
    simp only [List.mem_cons, List.mem_nil_iff, or_false] at hp
    rcases hp with rfl | rfl <;> norm_num
  · intro e he
    simp only [List.mem_cons, List.mem_nil_iff, or_false] at he
    subst he; simp
  · intro e he
    simp only [List.mem_cons, List.mem_nil_iff, or_false] at he
    subst he; simp


/-- raw FloorSet arrays meeting `FsRaw.WF` (hypothesis of `floorset_raw_accepted`): a soft 4 × 2 block and a pre-placed
    2 × 2 block with their (padded) vertex rows, two pins, one b2b and one p2b connection, density 1/2; the perimeter
    uses a stand-in `sqrt` (constant 1 per edge), so `alpha = (1/2) / max(5/6, 2/6) = 3/5`. -/
example : FsRaw.WF (1 / 1000 : ℚ) 0 (fun _ => 1)
    { areaBlocks := [8, 4], b2b := [(0, 1, 2)], p2b := [(1, 0, 3)], pins := [(0, 0), (10, 10)],
      cons := [[0, 0, 0, 0, 0], [0, 1, 0, 0, 0]],
      vertices := [[(1, 1), (5, 1), (5, 3), (1, 3), (-1, -1), (-1, -1), (-1, -1)],
                   [(6, 6), (8, 6), (8, 8), (6, 8), (-1, -1), (-1, -1), (-1, -1)]],
      metrics := [2, 2, 1, 1, 1, 1, 1, 1], density := some (1 / 2), terminalsAsModules := true,
      decomp := [[(3, 2, 4, 2)], [(7, 7, 2, 2)]] } := by
  refine ⟨by norm_num, by decide +kernel, ?_, by simp, ?_, ?_, ?_, ?_⟩
  · intro x hx; cases hx; norm_num
  · intro i hi
    have : i = 0 ∨ i = 1 := by simp at hi; omega
    rcases this with rfl | rfl
    · refine ⟨by simp, ?_, ?_, ?_, ?_⟩
      · intro q hq; simp at hq; subst hq; norm_num [Rect4Ok]
      · intro _ _; norm_num
      · intro h; exact absurd h (by decide +kernel)
      · intro h; exact absurd h (by decide +kernel)
    · refine ⟨by simp, ?_, ?_, ?_, ?_⟩
      · intro q hq; simp at hq; subst hq; norm_num [Rect4Ok]
      · intro _ h2; exact absurd (by decide +kernel) h2
      · intro _; simp [noOverlap, pairsAll]
      · intro h; exact absurd h (by decide +kernel)
  · intro e he; simp at he; subst he; simp
  · intro e he; simp at he; subst he; simp
  · intro x hx _; cases hx
    exact ⟨3 / 5, by decide +kernel⟩

/-- a region list the die constructor's parser admits (blockage + tagged region), for `die_roundtrip_constructor`. -/
example : ∀ r ∈ ([{ cx := 5, cy := 5, w := 2, h := 1, region := "#" }, { cx := 1, cy := 1, w := 2, h := 2, region := "dsp" }]
    : List (Rect ℚ)), RegionOk r := by
  intro r hr
  simp only [List.mem_cons, List.mem_nil_iff, or_false] at hr
  rcases hr with rfl | rfl
  · exact ⟨by norm_num, by norm_num, by norm_num, by norm_num, Or.inr rfl, by decide, rfl, rfl, rfl⟩
  · exact ⟨by norm_num, by norm_num, by norm_num, by norm_num, Or.inl (by decide), by decide, rfl, rfl, rfl⟩

/-- the store hypotheses of `die_writer_frame` / `die_writer_inplace_variant_alters`: a die whose two lists are objects
    0 and 1 of the store, with one specialised region. -/
example : let s : Store (VRect ℚ) := ⟨[[⟨.i 5, .i 5, .i 2, .i 1, "#"⟩], [⟨.i 1, .i 1, .i 2, .i 2, "dsp"⟩]]⟩
    let d : DieRef ℚ := ⟨.i 8, .i 6, 0, 1⟩
    d.blockages < s.cells.length ∧ d.specialised < s.cells.length ∧ s.get d.specialised ≠ [] := by
  refine ⟨by decide, by decide, ?_⟩
  simp [Store.get]

/-- modules of `solution_to_netlist`: a hard two-rectangle module, a soft module with a centre, a fixed terminal. -/
example : ∀ m ∈ ([⟨"H", .rects [(.i 1, .i 1, .i 2, .i 2), (.f (5 / 2), .i 1, .i 1, .i 1)], true, false, false, [("_", 5)], 5⟩,
      ⟨"S", .center (2, 2), false, false, false, [("_", 4)], 4⟩,
      ⟨"T", .center (0, 3), true, true, true, [], 0⟩] : List (SolMod ℚ)), m.WF 0 := by
  intro m hm
  simp only [List.mem_cons, List.mem_nil_iff, or_false] at hm
  rcases hm with rfl | rfl | rfl
  · refine ⟨by decide, by simp, ?_, ?_⟩
    · intro r hr
      simp only [List.mem_cons, List.mem_nil_iff, or_false] at hr
      rcases hr with rfl | rfl <;> norm_num [Num4.Ok, Num.val, intToSc]
    · simp [noOverlap, pairsAll, nrect, NRect.toRect, Rect.overlap, Rect.areaOverlap, Rect.xmin, Rect.xmax, Rect.ymin,
        Rect.ymax, Rect.two, Rect.zero, Num.val, intToSc, pyMax, pyMin]
      norm_num
  · exact ⟨by decide, by simp, by norm_num⟩
  · exact ⟨by decide, trivial⟩

/-- a state of the legalisation model: a soft and a fixed module with one rectangle each, one weighted net. -/
example : LfWF (0 : ℚ) [⟨"A", 0, .f 4, [(.i 2, .i 2, .i 2, .i 2)]⟩, ⟨"B", 2, .i 4, [(.i 6, .i 3, .i 2, .i 2)]⟩]
    [(.f (5 / 2), [0, 1])] := by
  refine ⟨?_, by decide, ?_, ?_⟩
  · intro m hm
    simp only [List.mem_cons, List.mem_nil_iff, or_false] at hm
    rcases hm with rfl | rfl <;> decide
  · intro m hm
    simp only [List.mem_cons, List.mem_nil_iff, or_false] at hm
    rcases hm with rfl | rfl
    · refine ⟨by simp, ?_, by norm_num [Num.val], by norm_num, by norm_num⟩
      intro r hr
      simp only [List.mem_cons, List.mem_nil_iff, or_false] at hr
      subst hr; norm_num [Num4.Ok, Num.val, intToSc]
    · refine ⟨by simp, ?_, by norm_num, by norm_num, ?_⟩
      · intro r hr
        simp only [List.mem_cons, List.mem_nil_iff, or_false] at hr
        subst hr; norm_num [Num4.Ok, Num.val, intToSc]
      · intro _ _; simp [noOverlap, pairsAll]
  · intro e he
    simp only [List.mem_cons, List.mem_nil_iff, or_false] at he
    subst he
    exact ⟨by simp, by simp, by norm_num [Num.val]⟩


/-- the hypotheses of `alloc_roundtrip_constructor` / `rectio_same_modules_as_allocation`: C02's witness allocation
    with a FIXED cell (whose mark the document does not carry) is valid and its cells are tagged with identifiers. -/
example : ∃ (a : Alloc.Allocation ℚ) (st : Alloc.Eps ℚ), Alloc.ValidAlloc st a ∧
    (∀ c ∈ a.cells, Alloc.validIdent c.rect.region = true) ∧ ∃ c ∈ a.cells, c.rect.fixed = true := by
  obtain ⟨a, st, h, hv⟩ := Alloc.exRawF_valid
  have hb : (match Alloc.mkAllocation Alloc.exEnv ⟨-1, -1⟩ Alloc.exRawF with
      | .ok (a, _) => a.cells.all (fun c => Alloc.validIdent c.rect.region) && a.cells.any (fun c => c.rect.fixed)
      | .error _ => false) = true := by decide +kernel
  rw [h] at hb
  simp only [Bool.and_eq_true, List.all_eq_true, List.any_eq_true] at hb
  exact ⟨a, st, hv, hb.1, hb.2⟩


/-- `alloc_roundtrip_constructor` APPLIED to C02's witness allocation (which has a fixed cell): the written document is
    accepted by the full (REPAIRED) constructor and the fixed mark comes back with the cell. -/
example : ∃ (a : Alloc.Allocation ℚ) (st : Alloc.Eps ℚ) (raw : List (Alloc.RawCell ℚ × Bool)) (a' : Alloc.Allocation ℚ),
    rawOfTree (writeAlloc (a.cells.map ofACell)).1 = some raw ∧
    mkAllocationDoc Alloc.exEnv st raw = .ok (a', st) ∧ a'.cells = a.cells.map stripCell ∧ a'.stats = a.stats ∧
    (∃ c ∈ a.cells, c.rect.fixed = true) ∧
    a'.cells.map (fun c => c.rect.fixed) = a.cells.map (fun c => c.rect.fixed) ∧ (∃ c ∈ a'.cells, c.rect.fixed = true) := by
  obtain ⟨a, st, h, hv⟩ := Alloc.exRawF_valid
  have hb : (match Alloc.mkAllocation Alloc.exEnv ⟨-1, -1⟩ Alloc.exRawF with
      | .ok (a, _) => a.cells.all (fun c => Alloc.validIdent c.rect.region) && a.cells.any (fun c => c.rect.fixed)
      | .error _ => false) = true := by decide +kernel
  rw [h] at hb
  simp only [Bool.and_eq_true, List.all_eq_true, List.any_eq_true] at hb
  obtain ⟨raw, a', h1, h2, _, h3, _, h5, _⟩ := alloc_roundtrip_constructor Alloc.exEnv st a hv hb.1
  obtain ⟨c, hc, hcf⟩ := hb.2
  refine ⟨a, st, raw, a', h1, h2, h3, h5, hb.2, ?_, ⟨stripCell c, ?_, hcf⟩⟩
  · rw [h3]; simp [List.map_map, Function.comp_def, stripCell]
  · rw [h3]; exact List.mem_map.mpr ⟨c, hc, rfl⟩

/-- `alloc_roundtrip_fresh` APPLIED: a 4 × 2 allocation of two abutting cells (one of them FIXED, refined once), written
    in one tolerance state, is accepted back in a FRESH interpreter (tolerances undefined: `⟨-1, -1⟩`), where the
    tolerance becomes `tiny · min(4, 2)` and the area tolerance its `sqrt` (here: any non-negative answer). -/
example : ∃ (raw : List (Alloc.RawCell ℚ × Bool)) (a' : Alloc.Allocation ℚ),
    rawOfTree (writeAlloc ((([⟨{ cx := 1, cy := 1, w := 2, h := 2, fixed := true }, [("F", 1)], 1⟩,
      ⟨{ cx := 3, cy := 1, w := 2, h := 2 }, [("S", 1 / 2)], 0⟩] : List (Alloc.Cell ℚ))).map ofACell)).1 = some raw ∧
    mkAllocationDoc ⟨1 / 1000000000000, 1 / 100, fun _ => 1 / 1000000⟩ ⟨-1, -1⟩ raw
      = .ok (a', ⟨2 / 1000000000000, 1 / 1000000⟩) ∧
    a'.cells.map (fun c => c.rect.fixed) = [true, false] := by
  let cs : List (Alloc.Cell ℚ) := [⟨{ cx := 1, cy := 1, w := 2, h := 2, fixed := true }, [("F", 1)], 1⟩,
      ⟨{ cx := 3, cy := 1, w := 2, h := 2 }, [("S", 1 / 2)], 0⟩]
  let env : Alloc.Env ℚ := ⟨1 / 1000000000000, 1 / 100, fun _ => 1 / 1000000⟩
  have hc : Alloc.CellsOK (1 / 10 : ℚ) cs := by
    refine ⟨by simp [cs], ?_, ?_, ?_, ?_⟩
    · intro c hc
      simp only [cs, List.mem_cons, List.mem_nil_iff, or_false] at hc
      rcases hc with rfl | rfl <;> norm_num [Alloc.CellGood, Rect.xmin, Rect.ymin, Rect.two]
    · intro c hc
      simp only [cs, List.mem_cons, List.mem_nil_iff, or_false] at hc
      rcases hc with rfl | rfl <;> decide +kernel
    · simp only [cs, List.pairwise_cons, List.mem_cons, List.mem_nil_iff, or_false, forall_eq, List.Pairwise.nil,
        and_true, not_false_eq_true, implies_true]
      norm_num [Rect.areaOverlap, Rect.xmin, Rect.xmax, Rect.ymin, Rect.ymax, Rect.two, Rect.zero, pyMax, pyMin]
    · intro m hm
      have hm' : m = "F" ∨ m = "S" := by
        have : Alloc.modules cs = ["F", "S"] := by decide +kernel
        rw [this] at hm; simpa using hm
      have e1 : ("F" == "S") = false := by decide
      have e2 : ("S" == "F") = false := by decide
      rcases hm' with rfl | rfl <;>
        norm_num [Alloc.areaSum, Alloc.occ, cs, List.lookup, Rect.area, e1, e2]
  obtain ⟨a, h1, h2, hv⟩ := Alloc.mkAllocation_obj_ok env ⟨1 / 100, 1 / 10⟩ cs (by norm_num) (by norm_num) hc
  have hbb : a.bbox = { cx := 2, cy := 1, w := 4, h := 2 } := by
    have := hv.bbox; rw [h2] at this
    have e : Alloc.boundingBox cs = .ok ({ cx := 2, cy := 1, w := 4, h := 2 } : Rect ℚ) := by
      simp only [Alloc.boundingBox, cs, List.foldl_cons, List.foldl_nil, Rect.xmin, Rect.xmax, Rect.ymin, Rect.ymax,
        Rect.two, Rect.zero, pyMin, pyMax]
      norm_num
    rw [e] at this; exact (Except.ok.inj this).symm
  have heff : effEps env ⟨-1, -1⟩ a.bbox = ⟨2 / 1000000000000, 1 / 1000000⟩ := by
    rw [hbb]; simp [effEps, Alloc.Eps.defined, Rect.zero, env, pyMin]; norm_num
  obtain ⟨raw, a', r1, r2, r3, _⟩ := alloc_roundtrip_fresh env ⟨1 / 100, 1 / 10⟩ ⟨-1, -1⟩ a hv
    (by rw [h2]; intro c hc
        simp only [cs, List.mem_cons, List.mem_nil_iff, or_false] at hc
        rcases hc with rfl | rfl <;> decide)
    (by rw [h2]
        simp only [cs, List.pairwise_cons, List.mem_cons, List.mem_nil_iff, or_false, forall_eq, List.Pairwise.nil,
          and_true, not_false_eq_true, implies_true]
        norm_num [Rect.areaOverlap, Rect.xmin, Rect.xmax, Rect.ymin, Rect.ymax, Rect.two, Rect.zero, pyMax, pyMin])
    (by rw [heff]; norm_num)
  rw [h2] at r1
  rw [heff] at r2
  refine ⟨raw, a', r1, r2, ?_⟩
  rw [r3, h2]; rfl

/-- `rectio_same_modules_as_allocation` APPLIED to the same allocation: whatever `get_netlist` stores for `M1` is the
    allocation's cached area and centre of `M1`. -/
example : ∃ (a : Alloc.Allocation ℚ) (st : Alloc.Eps ℚ), Alloc.ValidAlloc st a ∧
    match rioLook (rioMap (a.cells.map ofACell)) "M1" with
    | none => a.areaOf "M1" = none
    | some (c, ar) => a.areaOf "M1" = some ar ∧ a.centerOf "M1" = some c := by
  obtain ⟨a, st, _, hv⟩ := Alloc.exRawF_valid
  refine ⟨a, st, hv, ?_⟩
  have := rectio_same_modules_as_allocation st a hv "M1"
  cases hl : rioLook (rioMap (a.cells.map ofACell)) "M1" with
  | none => rw [hl] at this; exact this.2
  | some v => obtain ⟨c, ar⟩ := v; rw [hl] at this; exact ⟨this.2.1, this.2.2⟩

/-- `rectio_accepted_of_valid_allocation` APPLIED to C02's witness allocation: `get_netlist`'s netlist is accepted and
    every module it holds carries the allocation's cached area and centre. -/
example : ∃ (a : Alloc.Allocation ℚ) (st : Alloc.Eps ℚ), Alloc.ValidAlloc st a ∧
    (∃ nl, parseNetlist (fun rs => rs) (0 : ℚ) (rioTree (a.cells.map ofACell)) = .ok nl ∧ nl.nets = [] ∧
      nl.modules.map (·.name) = (rioMap (a.cells.map ofACell)).map (·.1)) ∧
    ∀ e ∈ rioMap (a.cells.map ofACell), a.areaOf e.1 = some e.2.2 ∧ a.centerOf e.1 = some e.2.1 := by
  obtain ⟨a, st, _, hv⟩ := Alloc.exRawF_valid
  obtain ⟨h1, h2, _⟩ := rectio_accepted_of_valid_allocation (fun rs => rs) (0 : ℚ) st a hv
  exact ⟨a, st, hv, ⟨_, h1, rfl, by simp [softModC, Function.comp_def]⟩, fun e he => (h2 e he).2⟩

/-- `netgen_main_accepted` / `netgen_main_rejects` APPLIED: `netgen --type ring --size 5` writes the 5-cycle;
    `netgen --type ring --size 5 6` and `netgen --type chain --size 4 --add-centers` are refused. -/
example : (∃ g, netgenMain ({ type := "ring", size := [5], addCenters := false, sd := 0, die := none, noise := [] } : NgOpts ℚ)
      = .ok g ∧ parseNetlist (fun rs => rs) (0 : ℚ) g.toY = .ok (pairNetlist 1 5 (ringPairs 5))) ∧
    netgenMain ({ type := "ring", size := [5, 6], addCenters := false, sd := 0, die := none, noise := [] } : NgOpts ℚ)
      = .error .assertion ∧
    netgenMain ({ type := "chain", size := [4], addCenters := true, sd := 0, die := some (4, 4), noise := [] } : NgOpts ℚ)
      = .error .assertion :=
  ⟨(netgen_main_accepted (fun rs => rs) (0 : ℚ) _ 5 rfl rfl).2.1 rfl,
   (netgen_main_rejects _).1 (Or.inr ⟨by decide, by decide⟩),
   (netgen_main_rejects _).2.1 rfl (by decide)⟩

/-- `die_roundtrip_constructor` APPLIED: an 8 × 6 die with a blockage and a `dsp` region. -/
example : ∃ inp', Die.parseDie (toYV (writeDie (dieObjOfIn
      ({ W := 8, H := 6, regions := [{ cx := 1, cy := 1, w := 2, h := 2, region := "dsp" },
                                      { cx := 5, cy := 5, w := 2, h := 1, region := "#" }] } : Die.DieIn ℚ))).1) = .ok inp' ∧
    inp'.W = 8 ∧ inp'.H = 6 ∧ (Die.blockOf inp').length = 1 ∧ (Die.specOf inp').length = 1 := by
  obtain ⟨inp', h1, h2, h3, h4, h5, _⟩ := die_roundtrip_constructor
    ({ W := 8, H := 6, regions := [{ cx := 1, cy := 1, w := 2, h := 2, region := "dsp" },
                                    { cx := 5, cy := 5, w := 2, h := 1, region := "#" }] } : Die.DieIn ℚ)
    (by norm_num) (by norm_num) (by
      intro r hr
      simp only [List.mem_cons, List.mem_nil_iff, or_false] at hr
      rcases hr with rfl | rfl
      · exact ⟨by norm_num, by norm_num, by norm_num, by norm_num, Or.inl (by decide), by decide, rfl, rfl, rfl⟩
      · exact ⟨by norm_num, by norm_num, by norm_num, by norm_num, Or.inr rfl, by decide, rfl, rfl, rfl⟩)
  refine ⟨inp', h1, h2, h3, ?_, ?_⟩
  · rw [h4]; decide
  · rw [h5]; decide

/-- `die_roundtrip_any_state` APPLIED: the 8 × 6 die with a `dsp` region and a blockage, built in a FRESH interpreter
    (`st = none`: tolerance `6e-11` from the die itself) and its written document re-read where an earlier design left
    the tolerance `1e-9` — both inside the band `εmax = 1/100` below the smallest coordinate gap (1): same object. -/
example : ∃ out,
    Die.dieModel (fun _ => (1 : ℚ) / 1000) none
      (.map [("width", .num 8), ("height", .num 6),
        ("regions", .list [.list [.num 1, .num 1, .num 2, .num 2, .str "dsp"], .list [.num 5, .num 5, .num 2, .num 1, .str "#"]])])
      [] none = .ok (out, (Die.mkEps (fun _ => (1 : ℚ) / 1000) none 8 6).1, (Die.mkEps (fun _ => (1 : ℚ) / 1000) none 8 6).2) ∧
    Die.dieModel (fun _ => (1 : ℚ) / 1000) (some (1 / 1000000000, 1 / 1000))
      (toYV (writeDie (dieObjOfIn ({ W := 8, H := 6, regions := [{ cx := 1, cy := 1, w := 2, h := 2, region := "dsp" },
                                      { cx := 5, cy := 5, w := 2, h := 1, region := "#" }] } : Die.DieIn ℚ))).1) [] none
      = .ok (out, (Die.mkEps (fun _ => (1 : ℚ) / 1000) (some (1 / 1000000000, 1 / 1000)) 8 6).1,
                  (Die.mkEps (fun _ => (1 : ℚ) / 1000) (some (1 / 1000000000, 1 / 1000)) 8 6).2) ∧
    FV.C01.ExactTiling out := by
  have hp : Die.parseDie (.map [("width", .num (8 : ℚ)), ("height", .num 6),
        ("regions", .list [.list [.num 1, .num 1, .num 2, .num 2, .str "dsp"], .list [.num 5, .num 5, .num 2, .num 1, .str "#"]])])
      = .ok ({ W := 8, H := 6, regions := [{ cx := 1, cy := 1, w := 2, h := 2, region := "dsp" },
                                      { cx := 5, cy := 5, w := 2, h := 1, region := "#" }] } : Die.DieIn ℚ) := by
    with_unfolding_all rfl
  exact die_roundtrip_any_state (fun _ => (1 : ℚ) / 1000) none (some (1 / 1000000000, 1 / 1000)) _ [] _ hp
    (by
      intro r hr
      simp only [List.mem_cons, List.mem_nil_iff, or_false] at hr
      rcases hr with rfl | rfl
      · exact ⟨by norm_num, by norm_num, by norm_num, by norm_num, Or.inl (by decide), by decide, rfl, rfl, rfl⟩
      · exact ⟨by norm_num, by norm_num, by norm_num, by norm_num, Or.inr rfl, by decide, rfl, rfl, rfl⟩)
    (1 / 100)
    (by
      constructor
      · decide +kernel
      · decide +kernel
      · decide +kernel
      · unfold Die.Sep; decide +kernel
      · unfold Die.Sep; decide +kernel)
    (by decide +kernel) (by decide +kernel) (by decide +kernel) (by decide +kernel) (by decide +kernel) (by decide +kernel)

/-- `gen_grid_centres_position` on the auditor's example: grid 1 × 2 on an 8 × 2 die puts `M0_1` at (6, 1), inside the die
    (the swapped formula would give (2, 3)). -/
example : gridCentre 1 2 (8 : ℚ) 2 [] (0, 1) = (6, 1) := by
  simp [gridCentre, gridCentreCoord]; norm_num


end FV.C19

import FV.Proofs.Producers
import FV.Proofs.ProducersDie
import FV.Proofs.ProducersAlloc
/-
  C19 — Every document FRAME produces is accepted back and says the same thing.
  Property theorems only (helper lemmas live in `FV/Proofs/Producers.lean`).

  Producers are the executable models of `FV/Model/Producers.lean`; the netlist reader is the model of C04/C05
  (`FV.NL.parseNetlist`, with the STOG construction `stog` and the area tolerance `εA` as parameters: every theorem
  holds for all of them).  Statements are over an arbitrary linearly ordered field `α`.

  Shape of the claims.  Per producer: `reader (producer obj).1 = .ok obj'` with `obj'` spelled out in terms of the source
  object (same regions / cells / ratios / modules / kinds / shapes / nets / weights), `(producer obj).2 = obj`
  (producing does not alter the object) and, as a corollary, producing twice gives the same tree.
  netgen: for every topology and every size at which it is defined — chain, star: every n; ring: n ≥ 3; ring-star:
  n ≥ 4; one-net: n ≥ 2; grid: columns ≥ 1 (also with `--add-centers`: `gen_grid_centres_*`); H-tree: levels ≥ 1, by induction on the levels with the invariant
  "every referenced index lies in [first index, next free index)" — `gen_*_accepted` (the reader returns exactly the
  netlist of the index-level specification) and `gen_*_topology` (that netlist is well formed and is the intended graph).

  WHAT THE PURITY STATEMENTS ARE.  The functional writers (`writeDie`, `writeAlloc`, `dumpNamedEdges`, `writeFPEF`) are
  DEFINED as `obj ↦ (tree, obj)`; that their second component is `obj` (`produce_pure_*`, `produce_twice_*`) holds by
  `rfl` — it is a frame condition of the MODEL, stated as `lemma`s (not counted as proof obligations), and it is the
  harness's deep before/after snapshots and write-twice comparisons that tie it to the code.  Purity statements WITH
  content are those about programs on a mutable representation:
  * `die_writer_frame` / `die_writer_twice`: `Die.write_yaml` as a program on a store of Python list objects
    (`blockages + specialized_regions` allocates a new list): every pre-existing list object is unchanged;
    `die_writer_inplace_variant_alters`: the `rectangles = self.blockages; rectangles += …` variant is a different program
    and does alter the die;
  * `namededges_orig_alters`: the code as found (aliasing the edge's own list) alters the edge.
  No purity theorem is stated for netgen (pure functions of the size) or the rect / legalfloor emitters (string
  building): for those the clause is harness-only.

  WHICH READER.  `die_roundtrip` / `alloc_roundtrip` are against the PARSING layer (`parse_yaml_die` + the blockage split;
  `Allocation._parse_yaml_tree`).  `die_roundtrip_constructor` composes the die writer with the CONSTRUCTOR model of C01
  (`FV/Model/Die.lean`): the written document parses to the same size / blockages / specialised regions and the
  constructor (`dieCore`, `detPicks`: grid, ground regions, self-check) returns on it exactly what it returns on the
  source.  `alloc_roundtrip_constructor` does the same with the constructor model of C02/C12 (`FV/Model/Alloc.lean`,
  `mkAllocation`: parse, bounding box, tolerances, `_check_no_overlap`, `_calculate_areas_and_centers`): the written
  document is accepted in the same tolerance state and yields the same cells, ratio maps, depths, caches and box.
  NOT carried by either document: the run-time marks of a rectangle (`fixed`, `hard`, STOG location) — the re-read cells
  are the source cells with those marks reset (`stripCell`).

  NOT CLAIMED
  * the run-time `fixed` mark of an allocation cell.  The allocation format `[[x, y, w, h, region], {module: ratio},
    depth]` has no field for it (`Allocation._parse_yaml_tree` calls `parse_yaml_rectangle(r)` with `fixed=False`; the
    mark is re-derived from a netlist by `Allocation.initial_allocation` / `_detect_fixed_rectangles`), so an allocation
    read back has every cell unmarked and operations that consult the mark can differ — witness: 4×4 die with the fixed
    cell `[3,1,2,2] {B: 1.0}`: `refine(1.0, 1)` returns 5 cells on the original object and 6 on the re-read one.  The
    property lists "regions, cells and ratios"; `alloc_roundtrip_constructor` therefore states the re-read cells with the
    marks reset (`stripCell`), and the harness compares cells without the mark and counts the cases where it is lost.
  * the text form of a netgen / FloorSet / die / allocation document beyond what `ruamel` round-trips (see OUTSIDE).

  OUTSIDE these theorems (exercised on every sample by harness/props/c19.py, not proved):
  * the text layer (ruamel dump / safe load, `str(float)` inside the string-built netlists);
  * for a die written AFTER a refinement, that the
    ground regions the constructor re-derives cover the same region as the refined ones (compared exactly by the harness;
    `die_roundtrip_constructor` says the constructor sees the same size / blockages / specialised regions);
  * the polygon decomposition of FloorSet blocks (`strop_decomposition`, property C15) and the density factor `alpha`
    are inputs of `FsInst`; hard blocks need `noOverlap εA` of their decomposition as a hypothesis;
  * for ring-star only pin-level well-formedness is proved, not the absence of parallel nets.
-/
namespace FV.C19
open FV FV.NL FV.Prod
set_option linter.unusedSectionVars false
set_option linter.unusedSimpArgs false
set_option linter.unusedVariables false

variable {α : Type} [Field α] [LinearOrder α] [IsStrictOrderedRing α]

/-! ### what "accepted and well formed" means for a loaded netlist -/

/-- names are valid identifiers and pairwise distinct; every net has at least two pins, its pins are pairwise
    distinct declared modules, and its weight is positive. -/
def WellFormed (nl : Netlist α) : Prop :=
  (nl.modules.map (·.name)).Nodup ∧ (∀ m ∈ nl.modules, validIdent m.name = true) ∧
  ∀ e ∈ nl.nets, 2 ≤ e.members.length ∧ e.members.Nodup ∧ (∀ x ∈ e.members, x ∈ nl.modules.map (·.name)) ∧
    (0 : α) < e.weight

/-- the two-pin net `{Mi, Mj}` of weight `w`. -/
def net2 (i j : Nat) (w : α) : Net α := { members := [modName i, modName j], weight := w }

/-- `n` soft modules `M0 … M(n-1)` of area `a` and the two-pin unit-weight nets `ps`. -/
def pairNetlist (a : α) (n : Nat) (ps : List (Nat × Nat)) : Netlist α :=
  { modules := (List.range n).map fun i => softMod a (modName i),
    nets := ps.map fun p => net2 p.1 p.2 1 }

/-! ### netgen: intended topologies, at the level of module indices -/

def chainPairs (n : Nat) : List (Nat × Nat) := (List.range (n - 1)).map fun i => (i, i + 1)
def ringPairs (n : Nat) : List (Nat × Nat) := (List.range n).map fun i => (i, (i + 1) % n)
def starPairs (n : Nat) : List (Nat × Nat) := (List.range' 1 (n - 1)).map fun i => (0, i)
/-- ring over `1 … n-1` closed by `(n-1, 1)`, then the spokes from `0`. -/
def ringStarPairs (n : Nat) : List (Nat × Nat) :=
  ((List.range' 1 (n - 2)).map fun i => (i, i + 1)) ++ [(n - 1, 1)] ++ starPairs n

lemma genModules_chain (area : Num α) (n : Nat) :
    genModules area n 0 = (List.range n).map fun i => (modName i, modInfo area) := by
  simp only [genModules, if_true]
  apply dictOfList_of_nodup
  simp only [List.map_map, Function.comp_def]
  exact modName_nodup _ List.nodup_range

/-- a netlist of `n` area-only modules and two-pin nets over indices `< n` loads as `pairNetlist`. -/
lemma pairs_accepted (stog : List (NRect α) → List (NRect α)) (εA : α) (area : Num α) (ha : (0 : α) < area.val)
    (n : Nat) (ps : List (Nat × Nat)) (h : ∀ p ∈ ps, p.1 < n ∧ p.2 < n) :
    parseNetlist stog εA
      (GenOut.toY { modules := genModules area n 0, nets := ps.map fun p => pair (modName p.1) (modName p.2) })
      = .ok (pairNetlist area.val n ps) := by
  have hm : (List.range n).map (fun i => (modName i, modInfo area))
      = ((List.range n).map modName).map fun s => (s, modInfo area) := by simp [Function.comp_def]
  rw [genModules_chain, hm, parseNetlist_soft stog εA ((List.range n).map modName) area _
    (by intro s hs; obtain ⟨i, _, rfl⟩ := List.mem_map.mp hs; exact validIdent_modName i)
    (modName_nodup _ List.nodup_range) ha
    (by
      intro e he
      obtain ⟨p, hp, rfl⟩ := List.mem_map.mp he
      refine ⟨by simp [pair], ?_, by simp [pair]⟩
      intro m hm
      simp only [pair, List.mem_cons, List.mem_nil_iff, or_false] at hm
      rcases hm with rfl | rfl
      · exact List.mem_map.mpr ⟨p.1, List.mem_range.mpr (h p hp).1, rfl⟩
      · exact List.mem_map.mpr ⟨p.2, List.mem_range.mpr (h p hp).2, rfl⟩)]
  simp [pairNetlist, net2, pair, GEdge.toNet, Function.comp_def]

/-- two-pin nets over distinct indices `< n` form a well-formed netlist. -/
lemma pairNetlist_wellFormed (a : α) (n : Nat) (ps : List (Nat × Nat))
    (h : ∀ p ∈ ps, p.1 < n ∧ p.2 < n ∧ p.1 ≠ p.2) : WellFormed (pairNetlist a n ps) := by
  have hnames : (pairNetlist a n ps).modules.map (·.name) = (List.range n).map modName := by
    simp [pairNetlist, softMod, Function.comp_def]
  refine ⟨by rw [hnames]; exact modName_nodup _ List.nodup_range, ?_, ?_⟩
  · intro m hm
    simp only [pairNetlist, List.mem_map] at hm
    obtain ⟨i, _, rfl⟩ := hm
    exact validIdent_modName i
  · intro e he
    rw [hnames]
    simp only [pairNetlist, List.mem_map] at he
    obtain ⟨p, hp, rfl⟩ := he
    obtain ⟨h1, h2, h3⟩ := h p hp
    refine ⟨by simp [net2], ?_, ?_, by simp [net2]⟩
    · simp only [net2, List.nodup_cons, List.mem_cons, List.mem_nil_iff, or_false, not_false_eq_true,
        List.nodup_nil, and_true]
      exact fun e => h3 (modName_inj e)
    · intro x hx
      simp only [net2, List.mem_cons, List.mem_nil_iff, or_false] at hx
      rcases hx with rfl | rfl
      · exact List.mem_map.mpr ⟨p.1, List.mem_range.mpr h1, rfl⟩
      · exact List.mem_map.mpr ⟨p.2, List.mem_range.mpr h2, rfl⟩

/-! #### chain (defined for every `n`; `n ≥ 1` in the property) -/

theorem gen_chain_accepted (stog : List (NRect α) → List (NRect α)) (εA : α) (area : Num α)
    (ha : (0 : α) < area.val) (n : Nat) :
    parseNetlist stog εA (genChain area n).toY = .ok (pairNetlist area.val n (chainPairs n)) := by
  have := pairs_accepted stog εA area ha n (chainPairs n) (by
    intro p hp
    simp only [chainPairs, List.mem_map, List.mem_range] at hp
    obtain ⟨i, hi, rfl⟩ := hp
    exact ⟨by omega, by omega⟩)
  simpa [genChain, chainPairs, Function.comp_def] using this

/-- chain `n` = the path `0 – 1 – … – (n-1)`: `n-1` nets, net `i` joins `i` and `i+1`. -/
theorem gen_chain_topology (a : α) (n : Nat) :
    WellFormed (pairNetlist a n (chainPairs n)) ∧ (chainPairs n).length = n - 1 ∧
    ∀ i, i < n - 1 → (chainPairs n)[i]? = some (i, i + 1) := by
  refine ⟨pairNetlist_wellFormed a n _ ?_, by simp [chainPairs], ?_⟩
  · intro p hp
    simp only [chainPairs, List.mem_map, List.mem_range] at hp
    obtain ⟨i, hi, rfl⟩ := hp
    exact ⟨by omega, by omega, by simp⟩
  · intro i hi
    simp [chainPairs, hi]

/-! #### ring (a simple cycle needs `n ≥ 3`) -/

theorem gen_ring_accepted (stog : List (NRect α) → List (NRect α)) (εA : α) (area : Num α)
    (ha : (0 : α) < area.val) (n : Nat) (hn : 3 ≤ n) :
    parseNetlist stog εA (genRing area n).toY = .ok (pairNetlist area.val n (ringPairs n)) := by
  have := pairs_accepted stog εA area ha n (ringPairs n) (by
    intro p hp
    simp only [ringPairs, List.mem_map, List.mem_range] at hp
    obtain ⟨i, hi, rfl⟩ := hp
    exact ⟨hi, Nat.mod_lt _ (by omega)⟩)
  simpa [genRing, ringPairs, Function.comp_def] using this

/-- ring `n` = the cycle `{(i, i+1 mod n)}`: `n` nets, no self-loop, no two nets join the same pair of modules. -/
theorem gen_ring_topology (a : α) (n : Nat) (hn : 3 ≤ n) :
    WellFormed (pairNetlist a n (ringPairs n)) ∧ (ringPairs n).length = n ∧
    (∀ i, i < n → (ringPairs n)[i]? = some (i, (i + 1) % n)) ∧
    (∀ i j, i < n → j < n → i ≠ j →
      ¬ ((i = j ∧ (i + 1) % n = (j + 1) % n) ∨ (i = (j + 1) % n ∧ (i + 1) % n = j))) := by
  refine ⟨pairNetlist_wellFormed a n _ ?_, by simp [ringPairs], ?_, ?_⟩
  · intro p hp
    simp only [ringPairs, List.mem_map, List.mem_range] at hp
    obtain ⟨i, hi, rfl⟩ := hp
    refine ⟨hi, Nat.mod_lt _ (by omega), ?_⟩
    simp only
    by_cases h : i + 1 < n
    · rw [Nat.mod_eq_of_lt h]; omega
    · have : i + 1 = n := by omega
      rw [this, Nat.mod_self]; omega
  · intro i hi
    simp [ringPairs, hi]
  · intro i j hi hj hij
    by_cases h1 : i + 1 < n <;> by_cases h2 : j + 1 < n
    · rw [Nat.mod_eq_of_lt h1, Nat.mod_eq_of_lt h2]; omega
    · have : j + 1 = n := by omega
      rw [Nat.mod_eq_of_lt h1, this, Nat.mod_self]; omega
    · have : i + 1 = n := by omega
      rw [Nat.mod_eq_of_lt h2, this, Nat.mod_self]; omega
    · omega

/-! #### star (centre `0`; defined for every `n ≥ 1`) -/

theorem gen_star_accepted (stog : List (NRect α) → List (NRect α)) (εA : α) (area : Num α)
    (ha : (0 : α) < area.val) (n : Nat) :
    parseNetlist stog εA (genStar area n).toY = .ok (pairNetlist area.val n (starPairs n)) := by
  have := pairs_accepted stog εA area ha n (starPairs n) (by
    intro p hp
    simp only [starPairs, List.mem_map, List.mem_range'_1] at hp
    obtain ⟨i, hi, rfl⟩ := hp
    exact ⟨by omega, by omega⟩)
  simpa [genStar, starPairs, Function.comp_def] using this

/-- star `n` = the spokes `{(0, i) : 1 ≤ i < n}`. -/
theorem gen_star_topology (a : α) (n : Nat) :
    WellFormed (pairNetlist a n (starPairs n)) ∧ (starPairs n).length = n - 1 ∧
    ∀ i, i < n - 1 → (starPairs n)[i]? = some (0, i + 1) := by
  refine ⟨pairNetlist_wellFormed a n _ ?_, by simp [starPairs], ?_⟩
  · intro p hp
    simp only [starPairs, List.mem_map, List.mem_range'_1] at hp
    obtain ⟨i, hi, rfl⟩ := hp
    exact ⟨by omega, by omega, by simp; omega⟩
  · intro i hi
    simp [starPairs, hi, List.getElem?_range', Nat.add_comm]

/-! #### ring-star (`n ≥ 4`: the ring over `1 … n-1` needs three modules) -/

lemma ringStarPairs_bound (n : Nat) (hn : 4 ≤ n) : ∀ p ∈ ringStarPairs n, p.1 < n ∧ p.2 < n ∧ p.1 ≠ p.2 := by
  intro p hp
  simp only [ringStarPairs, starPairs, List.mem_append, List.mem_map, List.mem_range'_1, List.mem_cons,
    List.mem_nil_iff, or_false] at hp
  rcases hp with (⟨i, hi, rfl⟩ | rfl) | ⟨i, hi, rfl⟩
  · exact ⟨by omega, by omega, by simp⟩
  · exact ⟨by omega, by omega, by simp; omega⟩
  · exact ⟨by omega, by omega, by simp; omega⟩

theorem gen_ring_star_accepted (stog : List (NRect α) → List (NRect α)) (εA : α) (area : Num α)
    (ha : (0 : α) < area.val) (n : Nat) (hn : 4 ≤ n) :
    parseNetlist stog εA (genRingStar area n).toY = .ok (pairNetlist area.val n (ringStarPairs n)) := by
  have := pairs_accepted stog εA area ha n (ringStarPairs n)
    (fun p hp => ⟨(ringStarPairs_bound n hn p hp).1, (ringStarPairs_bound n hn p hp).2.1⟩)
  have hp : modNamePred n = modName (n - 1) := by simp [modNamePred]; omega
  simpa [genRingStar, ringStarPairs, starPairs, Function.comp_def, hp] using this

/-- ring-star `n` = the cycle `1 – 2 – … – (n-1) – 1` plus the spokes `(0, i)`; `2(n-1)` nets. -/
theorem gen_ring_star_topology (a : α) (n : Nat) (hn : 4 ≤ n) :
    WellFormed (pairNetlist a n (ringStarPairs n)) ∧ (ringStarPairs n).length = 2 * (n - 1) ∧
    (∀ i, 1 ≤ i → i < n - 1 → (i, i + 1) ∈ ringStarPairs n) ∧ (n - 1, 1) ∈ ringStarPairs n ∧
    (∀ i, 1 ≤ i → i < n → (0, i) ∈ ringStarPairs n) := by
  refine ⟨pairNetlist_wellFormed a n _ (ringStarPairs_bound n hn), ?_, ?_, ?_, ?_⟩
  · simp [ringStarPairs, starPairs]; omega
  · intro i h1 h2
    simp only [ringStarPairs, List.mem_append, List.mem_map, List.mem_range'_1]
    exact Or.inl (Or.inl ⟨i, ⟨h1, by omega⟩, rfl⟩)
  · simp [ringStarPairs]
  · intro i h1 h2
    simp only [ringStarPairs, starPairs, List.mem_append, List.mem_map, List.mem_range'_1]
    exact Or.inr ⟨i, ⟨h1, by omega⟩, rfl⟩

/-! #### one-net (`n ≥ 2`: a net needs two pins) -/

/-- `n` soft modules and the single net `{M0, …, M(n-1)}`. -/
def oneNetNetlist (a : α) (n : Nat) : Netlist α :=
  { modules := (List.range n).map fun i => softMod a (modName i),
    nets := [{ members := (List.range n).map modName, weight := 1 }] }

theorem gen_one_net_accepted (stog : List (NRect α) → List (NRect α)) (εA : α) (area : Num α)
    (ha : (0 : α) < area.val) (n : Nat) (hn : 2 ≤ n) :
    parseNetlist stog εA (genOneNet area n).toY = .ok (oneNetNetlist area.val n) := by
  have hm : (List.range n).map (fun i => (modName i, modInfo area))
      = ((List.range n).map modName).map fun s => (s, modInfo area) := by simp [Function.comp_def]
  simp only [genOneNet]
  rw [genModules_chain, hm, parseNetlist_soft stog εA ((List.range n).map modName) area _
    (by intro s hs; obtain ⟨i, _, rfl⟩ := List.mem_map.mp hs; exact validIdent_modName i)
    (modName_nodup _ List.nodup_range) ha
    (by
      intro e he
      simp only [List.mem_cons, List.mem_nil_iff, or_false] at he
      subst he
      exact ⟨by simpa using hn, fun m hm => hm, by simp⟩)]
  simp [oneNetNetlist, GEdge.toNet, Function.comp_def]

theorem gen_one_net_topology (a : α) (n : Nat) (hn : 2 ≤ n) : WellFormed (oneNetNetlist a n) := by
  have hnames : (oneNetNetlist a n).modules.map (·.name) = (List.range n).map modName := by
    simp [oneNetNetlist, softMod, Function.comp_def]
  refine ⟨by rw [hnames]; exact modName_nodup _ List.nodup_range, ?_, ?_⟩
  · intro m hm
    simp only [oneNetNetlist, List.mem_map] at hm
    obtain ⟨i, _, rfl⟩ := hm
    exact validIdent_modName i
  · intro e he
    rw [hnames]
    simp only [oneNetNetlist, List.mem_cons, List.mem_nil_iff, or_false] at he
    subst he
    exact ⟨by simpa using hn, modName_nodup _ List.nodup_range, fun x hx => hx, by simp⟩

/-! #### grid (`rows × columns`, `columns ≥ 1`) -/

/-- horizontal neighbours `((r,c),(r,c+1))`, then vertical neighbours `((r,c),(r+1,c))`. -/
def gridH (rows columns : Nat) : List ((Nat × Nat) × (Nat × Nat)) :=
  (List.range rows).flatMap fun r => (List.range (columns - 1)).map fun c => ((r, c), (r, c + 1))
def gridV (rows columns : Nat) : List ((Nat × Nat) × (Nat × Nat)) :=
  (List.range (rows - 1)).flatMap fun r => (List.range columns).map fun c => ((r, c), (r + 1, c))

def gridNetlist (a : α) (rows columns : Nat) : Netlist α :=
  { modules := (gridIdx rows columns).map fun p => softMod a (modName2 p.1 p.2),
    nets := (gridH rows columns ++ gridV rows columns).map fun q =>
      { members := [modName2 q.1.1 q.1.2, modName2 q.2.1 q.2.2], weight := 1 } }

lemma mem_gridH {rows columns : Nat} {q : (Nat × Nat) × (Nat × Nat)} :
    q ∈ gridH rows columns ↔ q.1.1 < rows ∧ q.1.2 + 1 < columns ∧ q.2 = (q.1.1, q.1.2 + 1) := by
  obtain ⟨⟨r, c⟩, ⟨r', c'⟩⟩ := q
  simp only [gridH, List.mem_flatMap, List.mem_range, List.mem_map, Prod.mk.injEq]
  constructor
  · rintro ⟨x, hx, y, hy, ⟨rfl, rfl⟩, rfl, rfl⟩
    exact ⟨hx, by omega, rfl, rfl⟩
  · rintro ⟨h1, h2, h3, h4⟩
    refine ⟨r, h1, c, by omega, ?_⟩
    simp_all

lemma mem_gridV {rows columns : Nat} {q : (Nat × Nat) × (Nat × Nat)} :
    q ∈ gridV rows columns ↔ q.1.1 + 1 < rows ∧ q.1.2 < columns ∧ q.2 = (q.1.1 + 1, q.1.2) := by
  obtain ⟨⟨r, c⟩, ⟨r', c'⟩⟩ := q
  simp only [gridV, List.mem_flatMap, List.mem_range, List.mem_map, Prod.mk.injEq]
  constructor
  · rintro ⟨x, hx, y, hy, ⟨rfl, rfl⟩, rfl, rfl⟩
    exact ⟨by omega, hy, rfl, rfl⟩
  · rintro ⟨h1, h2, h3, h4⟩
    refine ⟨r, by omega, c, h2, ?_⟩
    simp_all

theorem gen_grid_accepted (stog : List (NRect α) → List (NRect α)) (εA : α) (area : Num α)
    (ha : (0 : α) < area.val) (rows columns : Nat) (hc : 1 ≤ columns) :
    parseNetlist stog εA (genGrid area rows columns).toY = .ok (gridNetlist area.val rows columns) := by
  have hmods : genModules area rows columns = (gridNames rows columns).map fun s => (s, modInfo area) := by
    have : ¬ columns = 0 := by omega
    simp only [genModules, this, if_false]
    apply dictOfList_of_nodup
    simp only [List.map_map, Function.comp_def, List.map_id']
    exact gridNames_nodup rows columns
  have hnets : ((List.range rows).flatMap fun r =>
        (List.range (columns - 1)).map fun c => pair (α := α) (modName2 r c) (modName2 r (c + 1)))
      ++ ((List.range (rows - 1)).flatMap fun r =>
        (List.range columns).map fun c => pair (modName2 r c) (modName2 (r + 1) c))
      = (gridH rows columns ++ gridV rows columns).map fun q =>
          pair (modName2 q.1.1 q.1.2) (modName2 q.2.1 q.2.2) := by
    simp [gridH, gridV, List.map_flatMap, Function.comp_def]
  simp only [genGrid, hmods, hnets]
  rw [parseNetlist_soft stog εA (gridNames rows columns) area _ (gridNames_valid rows columns)
    (gridNames_nodup rows columns) ha
    (by
      intro e he
      obtain ⟨q, hq, rfl⟩ := List.mem_map.mp he
      refine ⟨by simp [pair], ?_, by simp [pair]⟩
      intro m hm
      simp only [pair, List.mem_cons, List.mem_nil_iff, or_false] at hm
      rcases List.mem_append.mp hq with h | h
      · obtain ⟨h1, h2, h3⟩ := mem_gridH.mp h
        rcases hm with rfl | rfl
        · exact mem_gridNames h1 (by omega)
        · rw [h3]; exact mem_gridNames h1 h2
      · obtain ⟨h1, h2, h3⟩ := mem_gridV.mp h
        rcases hm with rfl | rfl
        · exact mem_gridNames (by omega) h2
        · rw [h3]; exact mem_gridNames h1 h2)]
  simp [gridNetlist, gridNames_eq, pair, GEdge.toNet, Function.comp_def]

/-- grid = the modules `M_r_c` (`r < rows`, `c < columns`, row major) and exactly the nets between horizontal and
    vertical neighbours. -/
theorem gen_grid_topology (a : α) (rows columns : Nat) :
    WellFormed (gridNetlist a rows columns) ∧
    (∀ q, q ∈ gridH rows columns ↔ q.1.1 < rows ∧ q.1.2 + 1 < columns ∧ q.2 = (q.1.1, q.1.2 + 1)) ∧
    (∀ q, q ∈ gridV rows columns ↔ q.1.1 + 1 < rows ∧ q.1.2 < columns ∧ q.2 = (q.1.1 + 1, q.1.2)) := by
  refine ⟨?_, fun q => mem_gridH, fun q => mem_gridV⟩
  have hnames : (gridNetlist a rows columns).modules.map (·.name) = gridNames rows columns := by
    simp [gridNetlist, gridNames_eq, softMod, Function.comp_def]
  refine ⟨by rw [hnames]; exact gridNames_nodup _ _, ?_, ?_⟩
  · intro m hm
    simp only [gridNetlist, List.mem_map] at hm
    obtain ⟨p, _, rfl⟩ := hm
    exact validIdent_modName2 _ _
  · intro e he
    rw [hnames]
    simp only [gridNetlist, List.mem_map] at he
    obtain ⟨q, hq, rfl⟩ := he
    have key : q.1.1 < rows ∧ q.1.2 < columns ∧ q.2.1 < rows ∧ q.2.2 < columns ∧ q.1 ≠ q.2 := by
      rcases List.mem_append.mp hq with h | h
      · obtain ⟨h1, h2, h3⟩ := mem_gridH.mp h
        rw [h3]; exact ⟨h1, by omega, h1, h2, fun e => by have := congrArg Prod.snd e; simp at this⟩
      · obtain ⟨h1, h2, h3⟩ := mem_gridV.mp h
        rw [h3]; exact ⟨by omega, h2, h1, h2, fun e => by have := congrArg Prod.fst e; simp at this⟩
    refine ⟨by simp, ?_, ?_, by simp⟩
    · simp only [List.nodup_cons, List.mem_cons, List.mem_nil_iff, or_false, not_false_eq_true,
        List.nodup_nil, and_true]
      intro e
      have := modName2_inj e
      exact key.2.2.2.2 (Prod.ext this.1 this.2)
    · intro x hx
      simp only [List.mem_cons, List.mem_nil_iff, or_false] at hx
      rcases hx with rfl | rfl
      · exact mem_gridNames key.1 key.2.1
      · exact mem_gridNames key.2.2.1 key.2.2.2.1

/-! #### grid with `--add-centers` -/

lemma genGrid_nets (area : Num α) (rows columns : Nat) :
    (genGrid area rows columns).nets = (gridH rows columns ++ gridV rows columns).map fun q =>
      pair (modName2 q.1.1 q.1.2) (modName2 q.2.1 q.2.2) := by
  simp [genGrid, gridH, gridV, List.map_flatMap, Function.comp_def]

/-- the grid with centres (any noise draws): accepted; the loaded netlist has the modules `M_r_c` in row-major order,
    each a soft module of the given area whose centre is `gridCentre` (cell centre + the two noise draws of that module),
    and the nets of the plain grid. -/
theorem gen_grid_centres_accepted (stog : List (NRect α) → List (NRect α)) (εA : α) (area : Num α)
    (ha : (0 : α) < area.val) (rows columns : Nat) (hc : 1 ≤ columns) (W H : α) (noise : List α) :
    parseNetlist stog εA (genGridCentred area rows columns W H noise).toY
      = .ok { modules := (gridIdx rows columns).map fun rc =>
                softModC (modName2 rc.1 rc.2) (gridCentre rows columns W H noise rc) area.val,
              nets := (gridNetlist area.val rows columns).nets } := by
  have hc0 : ¬ columns = 0 := by omega
  simp only [genGridCentred, hc0, if_false, genModulesCentred_eq, genGrid_nets]
  have hnames : (gridIdx rows columns).map (fun rc => modName2 rc.1 rc.2) = gridNames rows columns :=
    (gridNames_eq rows columns).symm
  rw [parseNetlist_softgen stog εA (gridIdx rows columns) (fun rc => modName2 rc.1 rc.2)
    (fun rc => modInfoC area (gridCentreY rows columns W H noise rc))
    (fun rc => softModC (modName2 rc.1 rc.2) (gridCentre rows columns W H noise rc) area.val) _
    (fun rc _ => parseModule_areaNum_center (modName2 rc.1 rc.2) area (gridCentre rows columns W H noise rc)
      (validIdent_modName2 _ _) ha)
    (fun rc _ => by simp [softModC])
    (by rw [hnames]; exact gridNames_nodup rows columns)
    (by
      intro e he
      rw [hnames]
      obtain ⟨q, hq, rfl⟩ := List.mem_map.mp he
      refine ⟨by simp [pair], ?_, by simp [pair]⟩
      intro m hm
      simp only [pair, List.mem_cons, List.mem_nil_iff, or_false] at hm
      rcases List.mem_append.mp hq with h | h
      · obtain ⟨h1, h2, h3⟩ := mem_gridH.mp h
        rcases hm with rfl | rfl
        · exact mem_gridNames h1 (by omega)
        · rw [h3]; exact mem_gridNames h1 h2
      · obtain ⟨h1, h2, h3⟩ := mem_gridV.mp h
        rcases hm with rfl | rfl
        · exact mem_gridNames (by omega) h2
        · rw [h3]; exact mem_gridNames h1 h2)]
  simp [gridNetlist, pair, GEdge.toNet, Function.comp_def]

/-- without noise (`sd = 0`) the centre of `M_r_c` on a `W × H` die is the centre of cell `(r, c)` of the `rows × columns`
    grid: `((c + 1/2)·W/columns, (r + 1/2)·H/rows)`, strictly inside its own cell and hence strictly inside the die —
    x from the COLUMN index and the width, y from the ROW index and the height. -/
theorem gen_grid_centres_position (rows columns r c : Nat) (W H : α) (hr : r < rows) (hcc : c < columns)
    (hW : 0 < W) (hH : 0 < H) :
    let p := gridCentre rows columns W H [] (r, c)
    p.1 = ((c : α) + 1 / 2) * W / (columns : α) ∧ p.2 = ((r : α) + 1 / 2) * H / (rows : α) ∧
    (c : α) * W / (columns : α) < p.1 ∧ p.1 < ((c : α) + 1) * W / (columns : α) ∧
    (r : α) * H / (rows : α) < p.2 ∧ p.2 < ((r : α) + 1) * H / (rows : α) ∧
    0 < p.1 ∧ p.1 < W ∧ 0 < p.2 ∧ p.2 < H := by
  obtain ⟨x1, x2, x3, x4, x5⟩ := gridCentreCoord_mid c columns W hcc hW
  obtain ⟨y1, y2, y3, y4, y5⟩ := gridCentreCoord_mid r rows H hr hH
  simp only [gridCentre, List.getD_nil]
  exact ⟨x1, y1, x2, x3, y2, y3, x4, x5, y4, y5⟩

/-! #### H-tree (`levels ≥ 1`), by induction on the number of levels -/

/-- the loaded H-tree: modules `M0 … M(size-1)` and the weighted two-pin nets of `htreeEdges`. -/
def htreeNetlist (a : α) (k : Nat) : Netlist α :=
  { modules := (List.range (htreeSize k)).map fun i => softMod a (modName i),
    nets := (htreeEdges k (1 : α) 0).map fun e => net2 e.1 e.2.1 e.2.2 }

/-- the index bookkeeping of `gen_htree_rec`: the generator run with a threaded "next free index" returns the modules
    `M_f, …, M_{f+size-1}` (each exactly once, in this order), the edges of the closed form, and `f + size`. -/
theorem gen_htree_bookkeeping (area : Num α) (k : Nat) (w : α) (f : Nat) :
    htreeRec area k w f
      = (mods area (List.range' f (htreeSize k)), (htreeEdges k w f).map hEdge, f + htreeSize k) :=
  htreeRec_spec area k w f

/-- every index an H-tree edge refers to is at least the first index and below the next free index; the two ends
    differ; weights are positive. -/
theorem gen_htree_invariant (k : Nat) (w : α) (f : Nat) (hw : 0 < w) :
    ∀ e ∈ htreeEdges k w f,
      f ≤ e.1 ∧ e.1 < f + htreeSize k ∧ f ≤ e.2.1 ∧ e.2.1 < f + htreeSize k ∧ e.1 ≠ e.2.1 ∧ 0 < e.2.2 :=
  htreeEdges_bound k w f hw

theorem gen_htree_accepted (stog : List (NRect α) → List (NRect α)) (εA : α) (area : Num α)
    (ha : (0 : α) < area.val) (levels : Nat) (hl : 1 ≤ levels) :
    ∃ g, genHtree area levels = some g ∧
      parseNetlist stog εA g.toY = .ok (htreeNetlist area.val (levels - 1)) := by
  obtain ⟨k, rfl⟩ : ∃ k, levels = k + 1 := ⟨levels - 1, by omega⟩
  refine ⟨_, rfl, ?_⟩
  have h1 : ((1 : Nat) : α) = 1 := by norm_num
  have hb := htreeEdges_bound (α := α) k 1 0 (by norm_num)
  simp only [htreeRec_spec, h1, Nat.add_sub_cancel]
  have hm : mods area (List.range' 0 (htreeSize k))
      = ((List.range (htreeSize k)).map modName).map fun s => (s, modInfo area) := by
    simp [mods, List.range_eq_range', Function.comp_def]
  rw [hm, parseNetlist_soft stog εA ((List.range (htreeSize k)).map modName) area _
    (by intro s hs; obtain ⟨i, _, rfl⟩ := List.mem_map.mp hs; exact validIdent_modName i)
    (modName_nodup _ List.nodup_range) ha
    (by
      intro e he
      obtain ⟨x, hx, rfl⟩ := List.mem_map.mp he
      obtain ⟨b1, b2, b3, b4, b5, b6⟩ := hb x hx
      refine ⟨by simp [hEdge, wEdge], ?_, ?_⟩
      · intro m hm
        simp only [hEdge, wEdge, List.mem_cons, List.mem_nil_iff, or_false] at hm
        rcases hm with rfl | rfl
        · exact List.mem_map.mpr ⟨x.1, List.mem_range.mpr (by omega), rfl⟩
        · exact List.mem_map.mpr ⟨x.2.1, List.mem_range.mpr (by omega), rfl⟩
      · intro w hw
        simp only [hEdge, wEdge, Option.some.injEq] at hw
        subst hw
        simpa [Num.val] using b6)]
  simp [htreeNetlist, net2, hEdge, wEdge, GEdge.toNet, Num.val, Function.comp_def]

theorem gen_htree_topology (a : α) (k : Nat) : WellFormed (htreeNetlist a k) := by
  have hnames : (htreeNetlist a k).modules.map (·.name) = (List.range (htreeSize k)).map modName := by
    simp [htreeNetlist, softMod, Function.comp_def]
  have hb := htreeEdges_bound (α := α) k 1 0 (by norm_num)
  refine ⟨by rw [hnames]; exact modName_nodup _ List.nodup_range, ?_, ?_⟩
  · intro m hm
    simp only [htreeNetlist, List.mem_map] at hm
    obtain ⟨i, _, rfl⟩ := hm
    exact validIdent_modName i
  · intro e he
    rw [hnames]
    simp only [htreeNetlist, List.mem_map] at he
    obtain ⟨x, hx, rfl⟩ := he
    obtain ⟨b1, b2, b3, b4, b5, b6⟩ := hb x hx
    refine ⟨by simp [net2], ?_, ?_, by simpa [net2] using b6⟩
    · simp only [net2, List.nodup_cons, List.mem_cons, List.mem_nil_iff, or_false, not_false_eq_true,
        List.nodup_nil, and_true]
      exact fun e => b5 (modName_inj e)
    · intro y hy
      simp only [net2, List.mem_cons, List.mem_nil_iff, or_false] at hy
      rcases hy with rfl | rfl
      · exact List.mem_map.mpr ⟨x.1, List.mem_range.mpr (by omega), rfl⟩
      · exact List.mem_map.mpr ⟨x.2.1, List.mem_range.mpr (by omega), rfl⟩


/-! ### die and allocation writers: the reader sees exactly the object that was written -/

/-- `parse_yaml_die ∘ Die.write_yaml`: width, height, blockages and specialised regions (with their tags, in order)
    come back exactly, for every die the constructor can have produced (positive size; regions with non-negative
    centre and positive sides; blockages tagged `#`, specialised regions tagged with an identifier other than `_`). -/
theorem die_roundtrip (d : DieObj α) (h : d.WF) :
    ∃ d', readDie (writeDie d).1 = .ok d' ∧ d'.width = d.width ∧ d'.height = d.height ∧
      d'.blockages = d.blockages ∧ d'.specialised = d.specialised :=
  ⟨d, readDie_writeDie d h, rfl, rfl, rfl, rfl⟩

/-- `Allocation._parse_yaml_tree ∘ Allocation.write_yaml`: cells `[x, y, w, h, region]`, ratio maps (with order) and
    depths come back exactly (depth 0 is written by omission). -/
theorem alloc_roundtrip (cs : List (Cell α)) (h : ∀ c ∈ cs, c.WF) :
    readAlloc (writeAlloc cs).1 = .ok cs :=
  readAlloc_writeAlloc cs h

/-- a written allocation document has a third cell entry exactly for the refined cells. -/
theorem alloc_depth_omitted (c : Cell α) :
    (∃ r a, c.toY = .seq [r, a] ∧ c.depth = 0) ∨ (∃ r a, c.toY = .seq [r, a, .int c.depth] ∧ 0 < c.depth) := by
  by_cases h : c.depth > 0
  · exact Or.inr ⟨c.rect.toY, .map (c.alloc.map fun kv => (.str kv.1, YVal.ofNum kv.2)), by simp [Cell.toY, h], h⟩
  · exact Or.inl ⟨c.rect.toY, .map (c.alloc.map fun kv => (.str kv.1, YVal.ofNum kv.2)), by simp [Cell.toY, h], by omega⟩

/-! ### producing never alters the object; producing twice gives identical documents -/

/-! frame conditions of the functional models: true by definition (`rfl`), see the header. -/
lemma produce_pure_die (d : DieObj α) : (writeDie d).2 = d := rfl
lemma produce_pure_alloc (cs : List (Cell α)) : (writeAlloc cs).2 = cs := rfl
lemma produce_pure_namededges (es : List (NEdge α)) : (dumpNamedEdges es).2 = es := rfl
lemma produce_pure_floorset (eps : α) (f : FsInst α) (t : YVal α) (es : List (NEdge α))
    (h : writeFPEF eps f = .ok (t, es)) : es = fsNets f := by
  unfold writeFPEF at h
  split at h
  · cases h
  · simp only [Except.ok.injEq, Prod.mk.injEq] at h; exact h.2.symm
lemma produce_twice_die (d : DieObj α) : (writeDie (writeDie d).2).1 = (writeDie d).1 := rfl
lemma produce_twice_alloc (cs : List (Cell α)) : (writeAlloc (writeAlloc cs).2).1 = (writeAlloc cs).1 := rfl
lemma produce_twice_namededges (es : List (NEdge α)) :
    (dumpNamedEdges (dumpNamedEdges es).2).1 = (dumpNamedEdges es).1 := rfl

/-- `Die.write_yaml` as a program on a store of Python list objects (`self.blockages + self.specialized_regions` is a
    NEW list): it emits the tree of the functional writer, every list object that existed before the call is
    unchanged, and so is the die. -/
theorem die_writer_frame (s : Store (VRect α)) (d : DieRef α) :
    (writeDieS s d).1 = (writeDie (d.deref s)).1 ∧
    (∀ a, a < s.cells.length → (writeDieS s d).2.get a = s.get a) ∧
    (d.blockages < s.cells.length → d.specialised < s.cells.length → d.deref (writeDieS s d).2 = d.deref s) :=
  ⟨writeDieS_tree s d, fun a ha => writeDieS_frame s d a ha, fun hb hs => writeDieS_pure s d hb hs⟩

/-- writing twice (the second time in the store the first call left) gives identical documents. -/
theorem die_writer_twice (s : Store (VRect α)) (d : DieRef α) (hb : d.blockages < s.cells.length)
    (hs : d.specialised < s.cells.length) : (writeDieS (writeDieS s d).2 d).1 = (writeDieS s d).1 := by
  rw [writeDieS_tree, writeDieS_tree, writeDieS_pure s d hb hs]

/-- the in-place variant (`rectangles = self.blockages; rectangles += self.specialized_regions`) is a different
    program: afterwards the die's blockage list also holds the specialised regions, so the die is altered as soon as
    there is a specialised region. -/
theorem die_writer_inplace_variant_alters (s : Store (VRect α)) (d : DieRef α) (hb : d.blockages < s.cells.length)
    (hne : s.get d.specialised ≠ []) :
    (d.deref (writeDieAliasedS s d).2).blockages ≠ (d.deref s).blockages := by
  rw [writeDieAliasedS_alters s d hb]
  intro h
  have := congrArg List.length h
  simp only [DieRef.deref, List.length_append] at this
  have : (s.get d.specialised).length = 0 := by omega
  exact hne (List.length_eq_zero_iff.mp this)

/-- the die writer composed with the die CONSTRUCTOR model of C01: for a die built from the parsed input `inp`
    (positive size; regions as `parse_die_rectangle` admits them), the constructor's parser reads the written document as
    the same size with the blockages followed by the specialised regions, and the constructor — Hanan grid, ground-region
    derivation, self-check (`dieCore`), deterministic pick sequence (`detPicks`) — returns on it exactly what it returns
    on `inp`: the re-read document passes the full constructor checks whenever the source did, with the same regions. -/
theorem die_roundtrip_constructor (inp : Die.DieIn α) (hW : 0 < inp.W) (hH : 0 < inp.H)
    (hr : ∀ r ∈ inp.regions, RegionOk r) :
    ∃ inp', Die.parseDie (toYV (writeDie (dieObjOfIn inp)).1) = .ok inp' ∧
      inp'.W = inp.W ∧ inp'.H = inp.H ∧ Die.blockOf inp' = Die.blockOf inp ∧ Die.specOf inp' = Die.specOf inp ∧
      ∀ (ε : Die.Eps α) (fixed : List (Rect α)) (picks : List Die.IRect),
        Die.dieCore ε inp' fixed picks = Die.dieCore ε inp fixed picks ∧
        Die.detPicks ε inp' fixed = Die.detPicks ε inp fixed :=
  ⟨rereadIn inp, die_parse_written inp hW hH hr, rfl, rfl, blockOf_reread inp, specOf_reread inp,
    fun ε fixed picks => die_ctor_reread ε inp fixed picks⟩

/-- the code AS FOUND (`edge = e.modules`): dumping an edge whose weight is not 1 alters it, and the second dump
    differs from the first.  (Kept to document the defect that fixes/C19_namededges_alias.diff repairs.) -/
theorem namededges_orig_alters (e : NEdge α) (h : weightIsOne e.weight = false) :
    (dumpNamedEdgesOrig [e]).2 ≠ [e] ∧
    (dumpNamedEdgesOrig (dumpNamedEdgesOrig [e]).2).1 ≠ (dumpNamedEdgesOrig [e]).1 := by
  constructor
  · intro hc
    have := congrArg (fun l => l.map (fun x => x.modules.length)) hc
    simp [dumpNamedEdgesOrig, h] at this
  · intro hc
    simp only [dumpNamedEdgesOrig, h, List.map_cons, List.map_nil, Bool.false_eq_true, if_false,
      YVal.seq.injEq, List.cons.injEq, and_true] at hc
    have := congrArg List.length hc
    simp at this


/-- the allocation writer composed with the allocation CONSTRUCTOR model of C02/C12.  For a valid allocation object
    (`ValidAlloc`: what `mkAllocation` accepted, tolerances defined) whose cells are tagged with identifier regions, the
    document `Allocation.write_yaml` produces translates (`rawOfTree`) to descriptors on which the full constructor —
    parser, bounding box, `_check_no_overlap`, `_calculate_areas_and_centers` — SUCCEEDS in the same tolerance state and
    leaves it unchanged; the object it builds has the same cells, ratio maps and depths (the rectangles with their
    run-time marks `fixed` / `hard` / location reset: not part of the document), literally the same caches, hence the
    same `area(m)` and `center(m)` for every name, and the same bounding box. -/
theorem alloc_roundtrip_constructor (env : Alloc.Env α) (st : Alloc.Eps α) (a : Alloc.Allocation α)
    (hv : Alloc.ValidAlloc st a) (hr : ∀ c ∈ a.cells, Alloc.validIdent c.rect.region = true) :
    ∃ raw a', rawOfTree (writeAlloc (a.cells.map ofACell)).1 = some raw ∧
      Alloc.mkAllocation env st raw = .ok (a', st) ∧
      a'.cells = a.cells.map stripCell ∧
      a'.cells.map (fun c => (c.rect.cx, c.rect.cy, c.rect.w, c.rect.h, c.rect.region, c.alloc, c.depth))
        = a.cells.map (fun c => (c.rect.cx, c.rect.cy, c.rect.w, c.rect.h, c.rect.region, c.alloc, c.depth)) ∧
      a'.stats = a.stats ∧ a'.bbox = a.bbox ∧
      ∀ m, a'.areaOf m = a.areaOf m ∧ a'.centerOf m = a.centerOf m := by
  obtain ⟨h1, h2⟩ := alloc_written_constructor env st a hv hr
  refine ⟨_, _, h1, h2, rfl, ?_, rfl, rfl, fun m => ⟨rfl, rfl⟩⟩
  simp [List.map_map, Function.comp_def, stripCell]

/-- `rect_io.get_netlist` is tied to the allocation it was run on: for a valid allocation, the dictionary the emitter
    accumulates (`rioMap`, whose entries `rectio_accepted` shows to be the modules of the emitted netlist) holds for a
    module name exactly the allocation's cached `area(m)` and `center(m)` (`Σ ratio·area`,
    `Σ ratio·area·centre / Σ ratio·area` by C02's `area_center_eq_sums`), and nothing for other names. -/
theorem rectio_same_modules_as_allocation (st : Alloc.Eps α) (a : Alloc.Allocation α) (hv : Alloc.ValidAlloc st a)
    (m : String) :
    match rioLook (rioMap (a.cells.map ofACell)) m with
    | none => m ∉ Alloc.modules a.cells ∧ a.areaOf m = none
    | some (c, ar) => m ∈ Alloc.modules a.cells ∧ a.areaOf m = some ar ∧ a.centerOf m = some c :=
  rectio_denotes_allocation st a hv m

/-! ### FloorSet converter -/

/-- `Netlist(write_yaml_FPEF())` for every well-formed instance (blocks with a non-empty decomposition into proper
    rectangles, non-overlapping when the block is hard; soft blocks with positive area; pins in the positive quadrant;
    connections between existing blocks / pins): the document is accepted and the loaded netlist has

    * the modules `M0 … M(nb-1), T0 … T(np-1)` in this order (`fsModsRead`): kinds from the placement constraints,
      the rectangles of the decomposition, the area of soft blocks, pins as terminals at their position or — with
      `--store-terminals` — as fixed `eps × eps` rectangles moved inside the die;
    * the nets `[Mi, Mj]`, `[Tp, Mj]` with weight `w·alpha` (1 when that is not positive) (`fsNetsRead`);
    the only change is the one every load makes (`post`: centre recomputed from the rectangles, rectangles handed to
    the STOG construction). -/
theorem floorset_accepted (stog : List (NRect α) → List (NRect α)) (εA eps : α) (f : FsInst α)
    (h : FsInst.WF eps εA f) :
    ∃ sx sy, fsShape f = .ok (sx, sy) ∧ writeFPEF eps f = .ok (fpefTree eps sx sy f, fsNets f) ∧
      parseNetlist stog εA (fpefTree eps sx sy f)
        = .ok { modules := (fsModsRead eps sx sy f).map (post stog), nets := fsNetsRead f } := by
  obtain ⟨sx, sy, hs⟩ := fsShape_ok f h.pins_ne
  exact ⟨sx, sy, hs, by simp [writeFPEF, hs, dumpNamedEdges], floorset_parseNetlist stog εA eps sx sy f h⟩

/-- with `--store-terminals` the (REPAIRED) pin placement keeps the `eps × eps` rectangle of every terminal inside the
    die: for a pin coordinate `0 ≤ p ≤ shape` (the die is spanned by the pins) and a die at least `2.5·eps` wide, the
    rectangle `[x - eps/2, x + eps/2]` around the placed coordinate `x` lies in `[0, shape]`, and `x` is within `eps` of
    the pin. -/
theorem floorset_terminal_in_die (eps shape p : α) (he : 0 < eps) (hs : 5 / 2 * eps ≤ shape) (hp0 : 0 ≤ p)
    (hp1 : p ≤ shape) :
    0 ≤ fsPinCoord eps shape p - eps / 2 ∧ fsPinCoord eps shape p + eps / 2 ≤ shape ∧
    |fsPinCoord eps shape p - p| ≤ eps := by
  unfold fsPinCoord
  split
  · rename_i h
    refine ⟨by linarith, by linarith, ?_⟩
    rw [abs_le]; constructor <;> linarith
  · split
    · rename_i h1 h2
      refine ⟨by linarith, by linarith, ?_⟩
      rw [abs_le]; constructor <;> linarith
    · rename_i h1 h2
      have h1' := not_lt.mp h1
      have h2' := not_lt.mp h2
      refine ⟨by linarith, by linarith, ?_⟩
      rw [abs_le]; constructor <;> linarith

/-- an instance without pins produces nothing: the converter raises `ValueError` (`max()` of an empty sequence). -/
theorem floorset_no_pins (eps : α) (f : FsInst α) (h : f.pins = []) :
    writeFPEF eps f = .error .valueError ∧ writeDIEF f = .error .valueError := by
  simp [writeFPEF, writeDIEF, fsShape_nopins f h]

/-- the loaded FloorSet netlist is well formed as soon as no connection joins a block to itself. -/
theorem floorset_wellformed (stog : List (NRect α) → List (NRect α)) (εA eps sx sy : α) (f : FsInst α)
    (h : FsInst.WF eps εA f) (hloop : ∀ e ∈ f.b2b, e.1 ≠ e.2.1) :
    WellFormed ({ modules := (fsModsRead eps sx sy f).map (post stog), nets := fsNetsRead f } : Netlist α) := by
  have hnames : ((fsModsRead eps sx sy f).map (post stog)).map (·.name)
      = (List.range f.blocks.length).map modName ++ (List.range f.pins.length).map termName := by
    rw [← fsModsRead_names eps sx sy f]; simp [Function.comp_def, post_name]
  refine ⟨by rw [hnames]; exact fs_names_nodup _ _, ?_, ?_⟩
  · intro m hm
    have : m.name ∈ ((fsModsRead eps sx sy f).map (post stog)).map (·.name) := List.mem_map.mpr ⟨m, hm, rfl⟩
    rw [hnames] at this
    rcases List.mem_append.mp this with h1 | h1
    · obtain ⟨i, _, hi⟩ := List.mem_map.mp h1; rw [← hi]; exact validIdent_modName i
    · obtain ⟨i, _, hi⟩ := List.mem_map.mp h1; rw [← hi]; exact validIdent_termName i
  · intro e he
    rw [hnames]
    simp only [fsNetsRead, List.mem_append, List.mem_map] at he
    rcases he with ⟨x, hx, rfl⟩ | ⟨x, hx, rfl⟩
    · have hb := h.b2b x hx
      refine ⟨by simp [neNet], ?_, ?_, fsWeight_pos _ _⟩
      · simp only [neNet, List.nodup_cons, List.mem_cons, List.mem_nil_iff, or_false, not_false_eq_true,
          List.nodup_nil, and_true]
        exact fun e => hloop x hx (modName_inj e)
      · intro s hs
        simp only [neNet, List.mem_cons, List.mem_nil_iff, or_false] at hs
        rcases hs with rfl | rfl
        · exact List.mem_append_left _ (List.mem_map.mpr ⟨_, List.mem_range.mpr hb.1, rfl⟩)
        · exact List.mem_append_left _ (List.mem_map.mpr ⟨_, List.mem_range.mpr hb.2, rfl⟩)
    · have hb := h.p2b x hx
      refine ⟨by simp [neNet], ?_, ?_, fsWeight_pos _ _⟩
      · simp only [neNet, List.nodup_cons, List.mem_cons, List.mem_nil_iff, or_false, not_false_eq_true,
          List.nodup_nil, and_true]
        exact fun e => modName_ne_termName _ _ e.symm
      · intro s hs
        simp only [neNet, List.mem_cons, List.mem_nil_iff, or_false] at hs
        rcases hs with rfl | rfl
        · exact List.mem_append_right _ (List.mem_map.mpr ⟨_, List.mem_range.mpr hb.1, rfl⟩)
        · exact List.mem_append_left _ (List.mem_map.mpr ⟨_, List.mem_range.mpr hb.2, rfl⟩)

/-- `Die(write_yaml_DIEF())`: accepted, with the width / height spanned by the pins and no regions. -/
theorem floorset_die_accepted (f : FsInst α) (sx sy : α) (hs : fsShape f = .ok (sx, sy)) (hx : 0 < sx) (hy : 0 < sy) :
    ∃ t, writeDIEF f = .ok t ∧
      readDie t = .ok { width := .f sx, height := .f sy, blockages := [], specialised := [] } := by
  refine ⟨.map [(.str "width", .float sx), (.str "height", .float sy)], by simp [writeDIEF, hs], ?_⟩
  simp [readDie, dieKey, YVal.str?, nodupB, lookup, YVal.num?, Num.val, hx, hy]

/-! ### string-built netlists (the tree their text denotes) -/

/-- `rect_io.get_netlist(None, allocation)`: for an allocation whose module names are identifiers and in which every
    listed module has positive accumulated area, the emitted netlist is accepted and holds exactly one soft module per
    module of the allocation (in order of first appearance) with the accumulated area and centre of `rioMap`, no nets. -/
theorem rectio_accepted (stog : List (NRect α) → List (NRect α)) (εA : α) (cells : List (Cell α))
    (hv : ∀ c ∈ cells, ∀ kv ∈ c.alloc, validIdent kv.1 = true) (hpos : ∀ e ∈ rioMap cells, 0 < e.2.2) :
    parseNetlist stog εA (rioTree cells)
      = .ok { modules := (rioMap cells).map fun e => softModC e.1 e.2.1 e.2.2, nets := [] } :=
  rectio_parseNetlist stog εA cells hv hpos

/-- `rect_io.solution_to_netlist` (REPAIRED): same modules in the same order, same kinds (soft / hard / fixed /
    terminal / fixed terminal), the rectangles of the result (or the module's own ones), the per-region areas of soft
    modules, the position of terminals; same nets with the same weights. -/
theorem solution_accepted (stog : List (NRect α) → List (NRect α)) (εA : α) (ms : List (SolMod α))
    (es : List (List String × α)) (hm : ∀ m ∈ ms, m.WF εA) (hnd : (ms.map (·.name)).Nodup)
    (he : ∀ e ∈ es, 2 ≤ e.1.length ∧ (∀ x ∈ e.1, x ∈ ms.map (·.name)) ∧ 0 < e.2) :
    parseNetlist stog εA (solTree ms es)
      = .ok { modules := (ms.map solModRead).map (post stog), nets := es.map fun e => neNet e.1 (Num.f e.2) } :=
  sol_parseNetlist stog εA ms es hm hnd he

/-- `legalfloor.Model.get_netlist` (REPAIRED): same modules, kinds by degree, the evaluated rectangles, the original
    area of soft modules; same nets with the same weights. -/
theorem legal_accepted (stog : List (NRect α) → List (NRect α)) (εA : α) (ms : List (LfMod α))
    (hyper : List (Num α × List Nat)) (h : LfWF εA ms hyper) :
    parseNetlist stog εA (lfTree ms hyper)
      = .ok { modules := (ms.map lfModRead).map (post stog),
              nets := hyper.map fun e => neNet (e.2.map (lfMember (ms.map (·.name)))) e.1 } :=
  legal_parseNetlist stog εA ms hyper h

/-! ### the hypotheses are satisfiable (non-vacuity), at `α = ℚ` -/

example : (⟨.i 8, .f (13 / 2), [⟨.i 5, .i 5, .i 2, .i 1, "#"⟩], [⟨.f 1, .i 1, .i 2, .i 2, "dsp"⟩]⟩ : DieObj ℚ).WF := by
  refine ⟨by norm_num [Num.val, intToSc], by norm_num [Num.val], ?_, ?_⟩
  · intro r hr
    simp only [List.mem_cons, List.mem_nil_iff, or_false] at hr
    subst hr
    exact ⟨by norm_num [VRect.Geo, Num.val, intToSc], rfl⟩
  · intro r hr
    simp only [List.mem_cons, List.mem_nil_iff, or_false] at hr
    subst hr
    exact ⟨by norm_num [VRect.Geo, Num.val, intToSc], by decide, by decide⟩

example : (⟨⟨.f (5 / 2), .i 4, .i 5, .i 4, "_"⟩, [("A", .f (1 / 10)), ("m_1", .i 0)], 2⟩ : Cell ℚ).WF := by
  refine ⟨by norm_num [VRect.Geo, Num.val, intToSc], by decide, by decide, ?_⟩
  intro kv hkv
  simp only [List.mem_cons, List.mem_nil_iff, or_false] at hkv
  rcases hkv with rfl | rfl
  · exact ⟨by decide, by norm_num [Num.val], by norm_num [Num.val]⟩
  · exact ⟨by decide, by norm_num [Num.val, intToSc], by norm_num [Num.val, intToSc]⟩

example : weightIsOne (Num.f (2 : ℚ)) = false := by
  simp [weightIsOne, Num.val]

example : ∀ e ∈ htreeEdges 1 (1 : ℚ) 0, e.1 < 7 ∧ e.2.1 < 7 := by
  intro e he
  have := gen_htree_invariant (α := ℚ) 1 1 0 (by norm_num) e he
  simp only [htreeSize] at this
  omega

example : (htreeEdges 1 (1 : ℚ) 0).length = 10 ∧ htreeSize 2 = 31 := by
  constructor
  · simp [htreeEdges, htreeSize]
  · simp [htreeSize]

/-- a FloorSet instance with one soft L-shaped block (two rectangles), one pre-placed block and pins in two corners. -/
example : FsInst.WF (1 / 1000 : ℚ) 0
    { blocks := [⟨0, 12, [(3, 2, 4, 2), (2, 4, 2, 2)]⟩, ⟨2, 1, [(8, 8, 2, 2)]⟩], pins := [(0, 0), (10, 10)],
      terminalsAsModules := true, alpha := 1, b2b := [(0, 1, 2)], p2b := [(1, 0, 0)] } := by
  refine ⟨by norm_num, ?_, ?_, by simp, ?_, ?_⟩
  · intro b hb
    simp only [List.mem_cons, List.mem_nil_iff, or_false] at hb
    rcases hb with rfl | rfl
    · refine ⟨by simp, ?_, by norm_num, by norm_num, by norm_num⟩
      intro r hr
      simp only [List.mem_cons, List.mem_nil_iff, or_false] at hr
      rcases hr with rfl | rfl <;> norm_num [Rect4Ok]
    · refine ⟨by simp, ?_, by norm_num, ?_, by norm_num⟩
      · intro r hr
        simp only [List.mem_cons, List.mem_nil_iff, or_false] at hr
        subst hr; norm_num [Rect4Ok]
      · intro _; simp [noOverlap, pairsAll]
  · intro p hp
    simp only [List.mem_cons, List.mem_nil_iff, or_false] at hp
    rcases hp with rfl | rfl <;> norm_num
  · intro e he
    simp only [List.mem_cons, List.mem_nil_iff, or_false] at he
    subst he; simp
  · intro e he
    simp only [List.mem_cons, List.mem_nil_iff, or_false] at he
    subst he; simp


/-- a region list the die constructor's parser admits (blockage + tagged region), for `die_roundtrip_constructor`. -/
example : ∀ r ∈ ([{ cx := 5, cy := 5, w := 2, h := 1, region := "#" }, { cx := 1, cy := 1, w := 2, h := 2, region := "dsp" }]
    : List (Rect ℚ)), RegionOk r := by
  intro r hr
  simp only [List.mem_cons, List.mem_nil_iff, or_false] at hr
  rcases hr with rfl | rfl
  · exact ⟨by norm_num, by norm_num, by norm_num, by norm_num, Or.inr rfl, by decide, rfl, rfl, rfl⟩
  · exact ⟨by norm_num, by norm_num, by norm_num, by norm_num, Or.inl (by decide), by decide, rfl, rfl, rfl⟩

/-- the store hypotheses of `die_writer_frame` / `die_writer_inplace_variant_alters`: a die whose two lists are objects
    0 and 1 of the store, with one specialised region. -/
example : let s : Store (VRect ℚ) := ⟨[[⟨.i 5, .i 5, .i 2, .i 1, "#"⟩], [⟨.i 1, .i 1, .i 2, .i 2, "dsp"⟩]]⟩
    let d : DieRef ℚ := ⟨.i 8, .i 6, 0, 1⟩
    d.blockages < s.cells.length ∧ d.specialised < s.cells.length ∧ s.get d.specialised ≠ [] := by
  refine ⟨by decide, by decide, ?_⟩
  simp [Store.get]

/-- modules of `solution_to_netlist`: a hard two-rectangle module, a soft module with a centre, a fixed terminal. -/
example : ∀ m ∈ ([⟨"H", .rects [(.i 1, .i 1, .i 2, .i 2), (.f (5 / 2), .i 1, .i 1, .i 1)], true, false, false, [("_", 5)], 5⟩,
      ⟨"S", .center (2, 2), false, false, false, [("_", 4)], 4⟩,
      ⟨"T", .center (0, 3), true, true, true, [], 0⟩] : List (SolMod ℚ)), m.WF 0 := by
  intro m hm
  simp only [List.mem_cons, List.mem_nil_iff, or_false] at hm
  rcases hm with rfl | rfl | rfl
  · refine ⟨by decide, by simp, ?_, ?_⟩
    · intro r hr
      simp only [List.mem_cons, List.mem_nil_iff, or_false] at hr
      rcases hr with rfl | rfl <;> norm_num [Num4.Ok, Num.val, intToSc]
    · simp [noOverlap, pairsAll, nrect, NRect.toRect, Rect.overlap, Rect.areaOverlap, Rect.xmin, Rect.xmax, Rect.ymin,
        Rect.ymax, Rect.two, Rect.zero, Num.val, intToSc, pyMax, pyMin]
      norm_num
  · exact ⟨by decide, by simp, by norm_num⟩
  · exact ⟨by decide, trivial⟩

/-- a state of the legalisation model: a soft and a fixed module with one rectangle each, one weighted net. -/
example : LfWF (0 : ℚ) [⟨"A", 0, .f 4, [(.i 2, .i 2, .i 2, .i 2)]⟩, ⟨"B", 2, .i 4, [(.i 6, .i 3, .i 2, .i 2)]⟩]
    [(.f (5 / 2), [0, 1])] := by
  refine ⟨?_, by decide, ?_, ?_⟩
  · intro m hm
    simp only [List.mem_cons, List.mem_nil_iff, or_false] at hm
    rcases hm with rfl | rfl <;> decide
  · intro m hm
    simp only [List.mem_cons, List.mem_nil_iff, or_false] at hm
    rcases hm with rfl | rfl
    · refine ⟨by simp, ?_, by norm_num [Num.val], by norm_num, by norm_num⟩
      intro r hr
      simp only [List.mem_cons, List.mem_nil_iff, or_false] at hr
      subst hr; norm_num [Num4.Ok, Num.val, intToSc]
    · refine ⟨by simp, ?_, by norm_num, by norm_num, ?_⟩
      · intro r hr
        simp only [List.mem_cons, List.mem_nil_iff, or_false] at hr
        subst hr; norm_num [Num4.Ok, Num.val, intToSc]
      · intro _ _; simp [noOverlap, pairsAll]
  · intro e he
    simp only [List.mem_cons, List.mem_nil_iff, or_false] at he
    subst he
    exact ⟨by simp, by simp, by norm_num [Num.val]⟩


/-- the hypotheses of `alloc_roundtrip_constructor` / `rectio_same_modules_as_allocation`: C02's witness allocation
    with a FIXED cell (whose mark the document does not carry) is valid and its cells are tagged with identifiers. -/
example : ∃ (a : Alloc.Allocation ℚ) (st : Alloc.Eps ℚ), Alloc.ValidAlloc st a ∧
    (∀ c ∈ a.cells, Alloc.validIdent c.rect.region = true) ∧ ∃ c ∈ a.cells, c.rect.fixed = true := by
  obtain ⟨a, st, h, hv⟩ := Alloc.exRawF_valid
  have hb : (match Alloc.mkAllocation Alloc.exEnv ⟨-1, -1⟩ Alloc.exRawF with
      | .ok (a, _) => a.cells.all (fun c => Alloc.validIdent c.rect.region) && a.cells.any (fun c => c.rect.fixed)
      | .error _ => false) = true := by decide +kernel
  rw [h] at hb
  simp only [Bool.and_eq_true, List.all_eq_true, List.any_eq_true] at hb
  exact ⟨a, st, hv, hb.1, hb.2⟩


/-- `alloc_roundtrip_constructor` APPLIED to C02's witness allocation (which has a fixed cell): the written document is
    accepted by the full constructor and the fixed mark is the only thing that is gone. -/
example : ∃ (a : Alloc.Allocation ℚ) (st : Alloc.Eps ℚ) (raw : List (Alloc.RawCell ℚ)) (a' : Alloc.Allocation ℚ),
    rawOfTree (writeAlloc (a.cells.map ofACell)).1 = some raw ∧
    Alloc.mkAllocation Alloc.exEnv st raw = .ok (a', st) ∧ a'.cells = a.cells.map stripCell ∧ a'.stats = a.stats ∧
    (∃ c ∈ a.cells, c.rect.fixed = true) ∧ (∀ c ∈ a'.cells, c.rect.fixed = false) := by
  obtain ⟨a, st, h, hv⟩ := Alloc.exRawF_valid
  have hb : (match Alloc.mkAllocation Alloc.exEnv ⟨-1, -1⟩ Alloc.exRawF with
      | .ok (a, _) => a.cells.all (fun c => Alloc.validIdent c.rect.region) && a.cells.any (fun c => c.rect.fixed)
      | .error _ => false) = true := by decide +kernel
  rw [h] at hb
  simp only [Bool.and_eq_true, List.all_eq_true, List.any_eq_true] at hb
  obtain ⟨raw, a', h1, h2, h3, _, h5, _⟩ := alloc_roundtrip_constructor Alloc.exEnv st a hv hb.1
  refine ⟨a, st, raw, a', h1, h2, h3, h5, hb.2, ?_⟩
  intro c hc
  rw [h3] at hc
  obtain ⟨c0, _, rfl⟩ := List.mem_map.mp hc
  rfl

/-- `rectio_same_modules_as_allocation` APPLIED to the same allocation: whatever `get_netlist` stores for `M1` is the
    allocation's cached area and centre of `M1`. -/
example : ∃ (a : Alloc.Allocation ℚ) (st : Alloc.Eps ℚ), Alloc.ValidAlloc st a ∧
    match rioLook (rioMap (a.cells.map ofACell)) "M1" with
    | none => a.areaOf "M1" = none
    | some (c, ar) => a.areaOf "M1" = some ar ∧ a.centerOf "M1" = some c := by
  obtain ⟨a, st, _, hv⟩ := Alloc.exRawF_valid
  refine ⟨a, st, hv, ?_⟩
  have := rectio_same_modules_as_allocation st a hv "M1"
  cases hl : rioLook (rioMap (a.cells.map ofACell)) "M1" with
  | none => rw [hl] at this; exact this.2
  | some v => obtain ⟨c, ar⟩ := v; rw [hl] at this; exact ⟨this.2.1, this.2.2⟩

/-- `die_roundtrip_constructor` APPLIED: an 8 × 6 die with a blockage and a `dsp` region. -/
example : ∃ inp', Die.parseDie (toYV (writeDie (dieObjOfIn
      ({ W := 8, H := 6, regions := [{ cx := 1, cy := 1, w := 2, h := 2, region := "dsp" },
                                      { cx := 5, cy := 5, w := 2, h := 1, region := "#" }] } : Die.DieIn ℚ))).1) = .ok inp' ∧
    inp'.W = 8 ∧ inp'.H = 6 ∧ (Die.blockOf inp').length = 1 ∧ (Die.specOf inp').length = 1 := by
  obtain ⟨inp', h1, h2, h3, h4, h5, _⟩ := die_roundtrip_constructor
    ({ W := 8, H := 6, regions := [{ cx := 1, cy := 1, w := 2, h := 2, region := "dsp" },
                                    { cx := 5, cy := 5, w := 2, h := 1, region := "#" }] } : Die.DieIn ℚ)
    (by norm_num) (by norm_num) (by
      intro r hr
      simp only [List.mem_cons, List.mem_nil_iff, or_false] at hr
      rcases hr with rfl | rfl
      · exact ⟨by norm_num, by norm_num, by norm_num, by norm_num, Or.inl (by decide), by decide, rfl, rfl, rfl⟩
      · exact ⟨by norm_num, by norm_num, by norm_num, by norm_num, Or.inr rfl, by decide, rfl, rfl, rfl⟩)
  refine ⟨inp', h1, h2, h3, ?_, ?_⟩
  · rw [h4]; decide
  · rw [h5]; decide

/-- `gen_grid_centres_position` on the auditor's example: grid 1 × 2 on an 8 × 2 die puts `M0_1` at (6, 1), inside the die
    (the swapped formula would give (2, 3)). -/
example : gridCentre 1 2 (8 : ℚ) 2 [] (0, 1) = (6, 1) := by
  simp [gridCentre, gridCentreCoord]; norm_num


end FV.C19

import FV.Model.Legal
namespace FV.C09
theorem placeholder : True := trivial
end FV.C09

import FV.Proofs.Legal
import FV.Proofs.LegalDecl
import Mathlib.Tactic.IntervalCases
/-
  C09 — Legaliser constraint system admits exactly the legal floorplans.

  Model: `FV/Model/Legal.lean` (`netlist_to_utils`, the equation generator of `Model(...)`, `evaluate()`,
  `is_equation_met`), as repaired by fixes/C09_branch_offsets.diff.  All statements are over `ℝ`, with the
  global slack `ε = 0` and the tolerance of `is_equation_met` set to `0` (`Holds`), for configurations with
  positive rectangle sizes (`Pos`; GEKKO's variable bounds `lb = 0.1` on `w`, `h`) and a ratio limit `≥ 1`.

  `Legal τ` is the legality of a configuration spelled out geometrically; the no-overlap clause between
  different modules allows an overlap *area* of at most `τ`.

  **The characterisation is a sandwich, not an iff**:   `Legal 0  ⊆  Sat  ⊆  Legal τ`   with
  `τ = 0.01 · min(die_width, die_height) / #modules`, the smoothing constant of the code.  Every `Legal 0`
  configuration satisfies the equations (`system_complete`), and only `Legal τ` configurations do
  (`system_sound`); both inclusions are strict (the exact acceptance set of a pair of rectangles is
  `tX + tY ≥ 0 ∨ tX · tY ≤ τ²`, `interEq_iff` — e.g. a tiny corner overlap is accepted, a small box deep inside a
  large one is rejected although its area is below `τ`).  This gap is what "up to the documented smoothing
  tolerance" in the property means; every other clause is characterised exactly (`bounds_iff`, `attach_iff`,
  `intra_iff_*`, `area_iff`, `fix_iff`).

  Positivity is no longer an extra hypothesis once the variable declarations are part of the system (last sections:
  `system_sound_declared`, `system_complete_declared_partial`, `declared_sandwich`); `netlist_to_utils` is shown to be
  a faithful re-encoding (`utils_rects_exactly_once`, `utils_tables_original`); the groups `radius` (step caps), the
  enforce flags and the `Rid` equations of disabled rectangles are characterised (`step_caps_met_iff`,
  `unenforced_pair_holds`, `rid_contradicts_lower_bound`, witnesses `declared_excludes_small_legal`,
  `stale_caps_exclude_legal`).

  The observation point `Equation.is_equation_met()` adds the annealed slack `ε` and the constant `1e-6`:
  section "General slack" treats it (`Met c e t`): per-kind iff with every clause relaxed by `e + t`
  (`bounds_met_iff`, `attach_met_iff`, `intra_met_iff`, `area_met_iff`, `inter_met_iff`, `fix_met_iff`),
  monotonicity (`met_monotone`), `system_complete_slack : Legal 0 → AllMet e t` and
  `system_sound_slack : AllMet e t → LegalS τ (e + t)`.  A system-level witness is in `namespace Witness`.
-/
namespace FV.C09
open FV FV.Legal
set_option linter.unusedVariables false

/-! ### legality, geometrically -/

noncomputable def xmin (q : Box ℝ) : ℝ := q.x - q.w / 2
noncomputable def xmax (q : Box ℝ) : ℝ := q.x + q.w / 2
noncomputable def ymin (q : Box ℝ) : ℝ := q.y - q.h / 2
noncomputable def ymax (q : Box ℝ) : ℝ := q.y + q.h / 2

/-- inside the die `[0, dw] × [0, dh]`. -/
def InDie (P : Params ℝ) (q : Box ℝ) : Prop := 0 ≤ xmin q ∧ 0 ≤ ymin q ∧ xmax q ≤ P.dw ∧ ymax q ≤ P.dh

/-- within the aspect-ratio limit. -/
def AspectOK (r : ℝ) (q : Box ℝ) : Prop := max (q.w / q.h) (q.h / q.w) ≤ r

/-- branch `b` sits on side `s` of the trunk `t`, within the trunk's extent. -/
def Attached : Loc → Box ℝ → Box ℝ → Prop
  | .north, t, b => ymin b = ymax t ∧ xmin t ≤ xmin b ∧ xmax b ≤ xmax t
  | .south, t, b => ymax b = ymin t ∧ xmin t ≤ xmin b ∧ xmax b ≤ xmax t
  | .east, t, b => xmin b = xmax t ∧ ymin t ≤ ymin b ∧ ymax b ≤ ymax t
  | .west, t, b => xmax b = xmin t ∧ ymin t ≤ ymin b ∧ ymax b ≤ ymax t
  | _, _, _ => True

/-- the rectangles of side `s`, taken in the (stable) order of their original coordinate, lie one after the
    other along the side: every earlier one ends before every later one begins. -/
def SideOrdered (c : Cfg) (m : Nat) (b : ModIn ℝ) (s : Loc) (key : Box ℝ → ℝ) (lo hi : Box ℝ → ℝ) : Prop :=
  (sortBy (fun p => key p.2) (b.side s)).Pairwise fun p q => hi (c m p.1) ≤ lo (c m q.1)

def SidesOrdered (c : Cfg) (m : Nat) (b : ModIn ℝ) : Prop :=
  SideOrdered c m b .north (·.x) xmin xmax ∧ SideOrdered c m b .south (·.x) xmin xmax ∧
  SideOrdered c m b .east (·.y) ymin ymax ∧ SideOrdered c m b .west (·.y) ymin ymax

/-- area of the intersection of two boxes. -/
noncomputable def ovArea (p q : Box ℝ) : ℝ :=
  max 0 (min (xmax p) (xmax q) - max (xmin p) (xmin q)) * max 0 (min (ymax p) (ymax q) - max (ymin p) (ymin q))

/-- module `m` is a translate of its original shape: same sizes, same offsets from the trunk. -/
def Rigid (c : Cfg) (m : Nat) (b : ModIn ℝ) : Prop :=
  ((c m 0).w = b.trunk.w ∧ (c m 0).h = b.trunk.h) ∧
  ∀ i q, 1 ≤ i → b.branches[i - 1]? = some q →
    (c m i).w = q.w ∧ (c m i).h = q.h ∧
    (c m i).x - (c m 0).x = q.x - b.trunk.x ∧ (c m i).y - (c m 0).y = q.y - b.trunk.y

/-- the trunk is at its original place. -/
def AtPlace (c : Cfg) (m : Nat) (b : ModIn ℝ) : Prop := (c m 0).x = b.trunk.x ∧ (c m 0).y = b.trunk.y

/-- the clauses that concern one module. -/
structure LegalModule (P : Params ℝ) (c : Cfg) (m : Nat) (M : InModule ℝ) : Prop where
  /-- a legal floorplan consists of boxes of positive width and height (NOT forced by the equations, see the
      NOT CLAIMED block below: it is GEKKO's variable bound `lb = 0.1`). -/
  positive : ∀ i < (split M.rects).c, 0 < (c m i).w ∧ 0 < (c m i).h
  inDie : ∀ i < (split M.rects).c, InDie P (c m i)
  aspect : ∀ i < (split M.rects).c, AspectOK P.r (c m i)
  area : M.area ≤ areaSum c m (split M.rects).c
  attached : ∀ i s q, (i, s, q) ∈ (split M.rects).sided → Attached s (c m 0) (c m i)
  ordered : SidesOrdered c m (split M.rects)

/-- a legal floorplan, with overlap between different modules allowed up to area `τ`. -/
structure Legal (τ : ℝ) (P : Params ℝ) (mods : List (InModule ℝ)) (c : Cfg) : Prop where
  modules : ∀ m M, mods[m]? = some M → LegalModule P c m M
  hard : ∀ m M, mods[m]? = some M → M.hard = true → Rigid c m (split M.rects)
  fixed : ∀ m M, mods[m]? = some M → M.fixed = true → AtPlace c m (split M.rects)
  noOverlap : ∀ m n Mm Mn, m < n → mods[m]? = some Mm → mods[n]? = some Mn →
    ∀ i < (split Mm.rects).c, ∀ j < (split Mn.rects).c, ovArea (c m i) (c n j) ≤ τ

/-- every equation the legaliser generates holds (slack 0). -/
def AllEquationsHold (P : Params ℝ) (mods : List (InModule ℝ)) (c : Cfg) : Prop :=
  ∃ U es, netlistToUtils mods = .ok U ∧ gen P U = .ok es ∧ ∀ e ∈ es, Holds c e

/-! ### roles → lists -/

/-- `netlist_to_utils` sorts the rectangles of a module (each labelled trunk / north / south / east / west)
    into the four branch lists by label, keeping their order. -/
theorem roles_to_lists (rs : List (InRect ℝ)) (h : ∀ r ∈ rs, r.loc ≠ .nopoly) :
    (split rs).N = (rs.filter (fun r => r.loc == .north)).map (·.box) ∧
    (split rs).S = (rs.filter (fun r => r.loc == .south)).map (·.box) ∧
    (split rs).E = (rs.filter (fun r => r.loc == .east)).map (·.box) ∧
    (split rs).W = (rs.filter (fun r => r.loc == .west)).map (·.box) := by
  have := foldl_placeRect_lists rs ({ trunk := ⟨zero, zero, zero, zero⟩ }, false) h
  simpa [split] using this

/-! ### the individual kinds of equation -/

/-- `thin(w, h) ≥ thin(r, 1)` is the aspect-ratio limit. -/
theorem ratio_iff (w h r : ℝ) (hw : 0 < w) (hh : 0 < h) (hr : 1 ≤ r) :
    thinV r 1 * 10 ≤ thinV w h * 10 ↔ max (w / h) (h / w) ≤ r := by
  rw [thin_ge_iff w h r hw hh hr, max_le_iff, div_le_iff₀ hh, div_le_iff₀ hw]

/-- the smooth maximum `½ (x + y + √((x-y)² + 4τ²))` is non-negative iff one of the two arguments is,
    up to `τ²` on the product of two negative ones. -/
theorem smax_nonneg_iff (x y t : ℝ) :
    0 ≤ 1 / 2 * (x + y + √((x - y) ^ 2 + 4 * t * t)) ↔ (0 ≤ x ∨ 0 ≤ y ∨ x * y ≤ t ^ 2) := by
  rw [smax_nonneg_iff_real]
  constructor
  · rintro (h | h)
    · by_cases hx : 0 ≤ x
      · exact Or.inl hx
      · exact Or.inr (Or.inl (by linarith))
    · exact Or.inr (Or.inr h)
  · rintro (h | h | h)
    · by_cases hy : 0 ≤ y
      · exact Or.inl (by linarith)
      · exact Or.inr (by nlinarith [sq_nonneg t])
    · by_cases hx : 0 ≤ x
      · exact Or.inl (by linarith)
      · exact Or.inr (by nlinarith [sq_nonneg t])
    · exact Or.inr h

/-- Bounds + Shapes of a rectangle: inside the die and within the ratio limit. -/
theorem bounds_iff (P : Params ℝ) (c : Cfg) (m i : Nat) (hw : 0 < (c m i).w) (hh : 0 < (c m i).h) (hr : 1 ≤ P.r) :
    (∀ e ∈ rectEqs P m i, Holds c e) ↔ InDie P (c m i) ∧ AspectOK P.r (c m i) := by
  rw [rectEqs_iff P c m i hw hh hr]
  unfold InDie AspectOK xmin xmax ymin ymax
  rw [max_le_iff, div_le_iff₀ hh, div_le_iff₀ hw]
  constructor
  · rintro ⟨⟨a, b, c', d⟩, e⟩; exact ⟨⟨by linarith, by linarith, by linarith, by linarith⟩, e⟩
  · rintro ⟨⟨a, b, c', d⟩, e⟩; exact ⟨⟨by linarith, by linarith, by linarith, by linarith⟩, e⟩

theorem attachRaw_iff (s : Loc) (t b : Box ℝ) : AttachRaw s t b ↔ Attached s t b := by
  cases s <;> unfold AttachRaw Attached xmin xmax ymin ymax <;>
    first
    | exact Iff.rfl
    | (constructor <;> rintro ⟨h1, h2, h3⟩ <;> exact ⟨by linarith, by linarith, by linarith⟩)

/-- the Attach equations of a branch: it touches its side of the trunk, within the trunk's extent. -/
theorem attach_iff (c : Cfg) (s : Loc) (m i : Nat) :
    (∀ e ∈ attachEqs s m i, Holds c e) ↔ Attached s (c m 0) (c m i) := by
  rw [attachEqs_iff, attachRaw_iff]


/-- the Intra equations of one side (`x`-sides): in the stable order of their original coordinate the
    rectangles lie one after the other — all pairs, not only neighbours. -/
theorem intra_iff_x (c : Cfg) (m : Nat) (b : ModIn ℝ) (s : Loc) (nm : String)
    (hpos : ∀ i < b.c, 0 < (c m i).w ∧ 0 < (c m i).h) :
    (∀ e ∈ intraSide m b s .x .w (·.x) nm, Holds c e) ↔ SideOrdered c m b s (·.x) xmin xmax := by
  rw [intraSide_iff]
  unfold SideOrdered
  refine Iff.trans ?_ (pairs_iff_pairwise (fun p : Nat × Box ℝ => xmin (c m p.1)) (fun p : Nat × Box ℝ => xmax (c m p.1)) _ ?_)
  · unfold xmin xmax coord
    constructor <;> intro h p hp <;> have := h p hp <;> simp only at this ⊢ <;> linarith
  · intro x hx
    rw [mem_sortBy] at hx
    have := (hpos x.1 (sided_range b x.1 s x.2 (mem_side b s x.1 x.2 hx)).2.1).1
    show xmin (c m x.1) ≤ xmax (c m x.1)
    unfold xmin xmax; linarith

/-- the same for the `y`-sides (east, west). -/
theorem intra_iff_y (c : Cfg) (m : Nat) (b : ModIn ℝ) (s : Loc) (nm : String)
    (hpos : ∀ i < b.c, 0 < (c m i).w ∧ 0 < (c m i).h) :
    (∀ e ∈ intraSide m b s .y .h (·.y) nm, Holds c e) ↔ SideOrdered c m b s (·.y) ymin ymax := by
  rw [intraSide_iff]
  unfold SideOrdered
  refine Iff.trans ?_ (pairs_iff_pairwise (fun p : Nat × Box ℝ => ymin (c m p.1)) (fun p : Nat × Box ℝ => ymax (c m p.1)) _ ?_)
  · unfold ymin ymax coord
    constructor <;> intro h p hp <;> have := h p hp <;> simp only at this ⊢ <;> linarith
  · intro x hx
    rw [mem_sortBy] at hx
    have := (hpos x.1 (sided_range b x.1 s x.2 (mem_side b s x.1 x.2 hx)).2.1).2
    show ymin (c m x.1) ≤ ymax (c m x.1)
    unfold ymin ymax; linarith

/-- "original order" is the stable sort by the original coordinate: a permutation, in non-decreasing order. -/
theorem order_is_sort (b : ModIn ℝ) (s : Loc) (key : Box ℝ → ℝ) :
    (sortBy (fun p => key p.2) (b.side s)).Perm (b.side s) ∧
    (sortBy (fun p => key p.2) (b.side s)).Pairwise (fun p q => key p.2 ≤ key q.2) :=
  ⟨sortBy_perm _ _, sortBy_sorted _ _⟩

/-- the Area equation: the rectangles of the module add up to at least the required area. -/
theorem area_iff (c : Cfg) (m n : Nat) (a : ℝ) (nm : String) :
    Holds c ⟨"Area", nm, areaExpr m n, .ge, .cst a, false⟩ ↔ a ≤ areaSum c m n := areaEq_iff c m n a nm

theorem interRaw_sound (tau : ℝ) (ht : 0 ≤ tau) (p q : Box ℝ) (h : InterRaw tau p q) : ovArea p q ≤ tau := by
  unfold ovArea
  by_cases hx : min (xmax p) (xmax q) - max (xmin p) (xmin q) ≤ 0
  · rw [max_eq_left hx, zero_mul]; exact ht
  by_cases hy : min (ymax p) (ymax q) - max (ymin p) (ymin q) ≤ 0
  · rw [max_eq_left hy, mul_zero]; exact ht
  push Not at hx hy
  rw [max_eq_right hx.le, max_eq_right hy.le]
  set ox := min (xmax p) (xmax q) - max (xmin p) (xmin q) with hox
  set oy := min (ymax p) (ymax q) - max (ymin p) (ymin q) with hoy
  have x1 : ox ≤ xmax p - xmin q := by have := min_le_left (xmax p) (xmax q); have := le_max_right (xmin p) (xmin q); linarith
  have x2 : ox ≤ xmax q - xmin p := by have := min_le_right (xmax p) (xmax q); have := le_max_left (xmin p) (xmin q); linarith
  have y1 : oy ≤ ymax p - ymin q := by have := min_le_left (ymax p) (ymax q); have := le_max_right (ymin p) (ymin q); linarith
  have y2 : oy ≤ ymax q - ymin p := by have := min_le_right (ymax p) (ymax q); have := le_max_left (ymin p) (ymin q); linarith
  have tx : ox ^ 2 ≤ -tX p q := by
    have e : -tX p q = (xmax p - xmin q) * (xmax q - xmin p) := by unfold tX xmax xmin; ring
    rw [e]; nlinarith
  have ty : oy ^ 2 ≤ -tY p q := by
    have e : -tY p q = (ymax p - ymin q) * (ymax q - ymin p) := by unfold tY ymax ymin; ring
    rw [e]; nlinarith
  have hox2 : 0 < ox ^ 2 := by positivity
  have hoy2 : 0 < oy ^ 2 := by positivity
  have hprod : (ox * oy) ^ 2 ≤ tau ^ 2 := by
    rcases h with h | h
    · nlinarith
    · have : ox ^ 2 * oy ^ 2 ≤ (-tX p q) * (-tY p q) := mul_le_mul tx ty hoy2.le (by linarith)
      nlinarith
  exact (pow_le_pow_iff_left₀ (by positivity) ht (by norm_num)).mp hprod

theorem interRaw_complete (tau : ℝ) (p q : Box ℝ) (hpw : 0 < p.w) (hph : 0 < p.h) (hqw : 0 < q.w) (hqh : 0 < q.h)
    (h : ovArea p q ≤ 0) : InterRaw tau p q := by
  unfold ovArea at h
  have key : min (xmax p) (xmax q) - max (xmin p) (xmin q) ≤ 0 ∨ min (ymax p) (ymax q) - max (ymin p) (ymin q) ≤ 0 := by
    by_contra hc
    push Not at hc
    rw [max_eq_right hc.1.le, max_eq_right hc.2.le] at h
    nlinarith [mul_pos hc.1 hc.2]
  have sepx : min (xmax p) (xmax q) - max (xmin p) (xmin q) ≤ 0 → 0 ≤ tX p q := by
    intro hx
    have e : tX p q = -((xmax p - xmin q) * (xmax q - xmin p)) := by unfold tX xmax xmin; ring
    have hsum : 0 < (xmax p - xmin q) + (xmax q - xmin p) := by unfold xmax xmin; linarith
    have : xmax p - xmin q ≤ 0 ∨ xmax q - xmin p ≤ 0 := by
      rcases min_cases (xmax p) (xmax q) with ⟨h1, _⟩ | ⟨h1, _⟩ <;>
        rcases max_cases (xmin p) (xmin q) with ⟨h2, _⟩ | ⟨h2, _⟩ <;> rw [h1, h2] at hx
      · exfalso; unfold xmax xmin at hx; linarith
      · left; linarith
      · right; linarith
      · exfalso; unfold xmax xmin at hx; linarith
    rw [e]
    rcases this with h1 | h1
    · nlinarith
    · nlinarith
  have sepy : min (ymax p) (ymax q) - max (ymin p) (ymin q) ≤ 0 → 0 ≤ tY p q := by
    intro hy
    have e : tY p q = -((ymax p - ymin q) * (ymax q - ymin p)) := by unfold tY ymax ymin; ring
    have hsum : 0 < (ymax p - ymin q) + (ymax q - ymin p) := by unfold ymax ymin; linarith
    have : ymax p - ymin q ≤ 0 ∨ ymax q - ymin p ≤ 0 := by
      rcases min_cases (ymax p) (ymax q) with ⟨h1, _⟩ | ⟨h1, _⟩ <;>
        rcases max_cases (ymin p) (ymin q) with ⟨h2, _⟩ | ⟨h2, _⟩ <;> rw [h1, h2] at hy
      · exfalso; unfold ymax ymin at hy; linarith
      · left; linarith
      · right; linarith
      · exfalso; unfold ymax ymin at hy; linarith
    rw [e]
    rcases this with h1 | h1
    · nlinarith
    · nlinarith
  unfold InterRaw
  rcases key with hx | hy
  · have h1 := sepx hx
    by_cases h2 : 0 ≤ tY p q
    · left; linarith
    · right; nlinarith [sq_nonneg tau]
  · have h1 := sepy hy
    by_cases h2 : 0 ≤ tX p q
    · left; linarith
    · right; nlinarith [sq_nonneg tau]

/-- the pairwise no-overlap equation is sound up to the smoothing tolerance: if it holds, the two
    rectangles overlap in an area of at most `τ`. -/
theorem inter_sound (c : Cfg) (tau : ℝ) (ht : 0 ≤ tau) (m i n j : Nat) (h : Holds c (interEq tau m i n j)) :
    ovArea (c m i) (c n j) ≤ tau :=
  interRaw_sound tau ht _ _ ((interEq_iff c tau m i n j).mp h)

/-- … and complete: it holds for rectangles that do not overlap. -/
theorem inter_complete (c : Cfg) (tau : ℝ) (m i n j : Nat)
    (hp : 0 < (c m i).w ∧ 0 < (c m i).h) (hq : 0 < (c n j).w ∧ 0 < (c n j).h)
    (h : ovArea (c m i) (c n j) ≤ 0) : Holds c (interEq tau m i n j) :=
  (interEq_iff c tau m i n j).mpr (interRaw_complete tau _ _ hp.1 hp.2 hq.1 hq.2 h)

theorem fixRaw_iff (c : Cfg) (m : Nat) (M : InModule ℝ) (hfh : M.fixed = true → M.hard = true) :
    FixRaw c m M ↔ (M.hard = true → Rigid c m (split M.rects)) ∧ (M.fixed = true → AtPlace c m (split M.rects)) := by
  unfold FixRaw Rigid AtPlace
  constructor
  · intro h
    refine ⟨fun hh => ?_, fun hf => ((h (hfh hf)).1.1 hf)⟩
    obtain ⟨⟨_, hw, hh'⟩, hbr⟩ := h hh
    refine ⟨⟨hw, hh'⟩, fun i q hi hq => ?_⟩
    obtain ⟨a, b, c', d⟩ := hbr i q hi hq
    exact ⟨c', d, by linarith, by linarith⟩
  · rintro ⟨h1, h2⟩ hh
    obtain ⟨⟨hw, hh'⟩, hbr⟩ := h1 hh
    refine ⟨⟨h2, hw, hh'⟩, fun i q hi hq => ?_⟩
    obtain ⟨a, b, c', d⟩ := hbr i q hi hq
    exact ⟨by linarith, by linarith, a, b⟩


/-- the Fix equations of a module (`Model.fix` on the tables of `netlist_to_utils`): a hard module is a
    translate of its original shape, a fixed one stays where it was. -/
theorem fix_iff (c : Cfg) (m : Nat) (M : InModule ℝ) (hfh : M.fixed = true → M.hard = true) :
    (∀ i < (split M.rects).c, ∀ e ∈ fixRect m i
        (if M.hard then some (xDict (split M.rects) M.fixed) else none)
        (if M.hard then some (yDict (split M.rects) M.fixed) else none)
        (if M.hard then some (wDict (split M.rects) M.fixed) else none)
        (if M.hard then some (hDict (split M.rects) M.fixed) else none), Holds c e) ↔
      (M.hard = true → Rigid c m (split M.rects)) ∧ (M.fixed = true → AtPlace c m (split M.rects)) := by
  rw [fixModule_iff, fixRaw_iff c m M hfh]

/-! ### the assembled system -/

theorem rectRaw_iff (P : Params ℝ) (q : Box ℝ) (hw : 0 < q.w) (hh : 0 < q.h) :
    RectRaw P q ↔ InDie P q ∧ AspectOK P.r q := by
  unfold RectRaw InDie AspectOK xmin xmax ymin ymax
  rw [max_le_iff, div_le_iff₀ hh, div_le_iff₀ hw]
  constructor
  · rintro ⟨⟨a, b, c', d⟩, e⟩; exact ⟨⟨by linarith, by linarith, by linarith, by linarith⟩, e⟩
  · rintro ⟨⟨a, b, c', d⟩, e⟩; exact ⟨⟨by linarith, by linarith, by linarith, by linarith⟩, e⟩

theorem intraRaw_iff (c : Cfg) (m : Nat) (b : ModIn ℝ) (hpos : ∀ i < b.c, 0 < (c m i).w ∧ 0 < (c m i).h) :
    IntraRaw c m b ↔ SidesOrdered c m b := by
  unfold IntraRaw SidesOrdered
  rw [← intra_iff_x c m b .north "north" hpos, ← intra_iff_x c m b .south "south" hpos,
    ← intra_iff_y c m b .east "east" hpos, ← intra_iff_y c m b .west "west" hpos]
  simp only [intraSide_iff]; rfl

/-- the per-module part of the raw system is the per-module legality. -/
theorem rawModule_iff (P : Params ℝ) (c : Cfg) (m : Nat) (M : InModule ℝ)
    (hpos : ∀ i < (split M.rects).c, 0 < (c m i).w ∧ 0 < (c m i).h) :
    (((∀ i < (split M.rects).c, RectRaw P (c m i)) ∧
        (∀ i s q, (i, s, q) ∈ (split M.rects).sided → AttachRaw s (c m 0) (c m i)) ∧
        IntraRaw c m (split M.rects)) ∧ M.area ≤ areaSum c m (split M.rects).c) ↔ LegalModule P c m M := by
  constructor
  · rintro ⟨⟨h1, h2, h3⟩, h4⟩
    exact {
      positive := hpos
      inDie := fun i hi => ((rectRaw_iff P _ (hpos i hi).1 (hpos i hi).2).mp (h1 i hi)).1
      aspect := fun i hi => ((rectRaw_iff P _ (hpos i hi).1 (hpos i hi).2).mp (h1 i hi)).2
      area := h4
      attached := fun i s q hs => (attachRaw_iff s _ _).mp (h2 i s q hs)
      ordered := (intraRaw_iff c m _ hpos).mp h3 }
  · intro h
    exact ⟨⟨fun i hi => (rectRaw_iff P _ (hpos i hi).1 (hpos i hi).2).mpr ⟨h.inDie i hi, h.aspect i hi⟩,
      fun i s q hs => (attachRaw_iff s _ _).mpr (h.attached i s q hs),
      (intraRaw_iff c m _ hpos).mpr h.ordered⟩, h.area⟩

theorem tau_nonneg (P : Params ℝ) (n : Nat) (hdw : 0 ≤ P.dw) (hdh : 0 ≤ P.dh) : 0 ≤ tauV P n := by
  unfold tauV
  have : (0:ℝ) ≤ pyMin P.dw P.dh := by unfold pyMin; split <;> assumption
  have : (0:ℝ) ≤ (n : ℝ) := Nat.cast_nonneg n
  simp only [hundredth_eq]
  positivity

/-- **Soundness (for boxes of positive size).**  A configuration with `0 < w, 0 < h` everywhere (`Pos`) that satisfies every generated equation is a legal
    floorplan, different modules overlapping in an area of at most the smoothing constant
    `τ = 0.01 · min(dw, dh) / #modules`. -/
theorem system_sound (P : Params ℝ) (mods : List (InModule ℝ)) (c : Cfg)
    (hr : 1 ≤ P.r) (hdw : 0 ≤ P.dw) (hdh : 0 ≤ P.dh) (hpos : Pos mods c)
    (h : AllEquationsHold P mods c) : Legal (tauV P mods.length) P mods c := by
  obtain ⟨U, es, hU, hg, hall⟩ := h
  have hraw := (gen_iff P mods U es c hU hg hr hpos).mp hall
  have hfh := utils_ok_fixed_hard mods U hU
  exact {
    modules := fun m M hM =>
      (rawModule_iff P c m M (hpos m M hM)).mp ⟨(hraw.1 m M hM).1, (hraw.1 m M hM).2.1⟩
    hard := fun m M hM hh => ((fixRaw_iff c m M (hfh m M hM)).mp (hraw.1 m M hM).2.2).1 hh
    fixed := fun m M hM hf => ((fixRaw_iff c m M (hfh m M hM)).mp (hraw.1 m M hM).2.2).2 hf
    noOverlap := fun m n Mm Mn hmn hMm hMn i hi j hj =>
      interRaw_sound _ (tau_nonneg P _ hdw hdh) _ _ (hraw.2 m n Mm Mn hmn hMm hMn i hi j hj) }

/-- **Completeness.**  Every legal floorplan (positive sizes are part of `Legal`; no overlap between different modules) satisfies every
    generated equation — provided `netlist_to_utils` accepts the netlist (at least one module, fixed
    modules are hard), in which case the equations exist. -/
theorem system_complete (P : Params ℝ) (mods : List (InModule ℝ)) (c : Cfg)
    (hr : 1 ≤ P.r) (hne : mods ≠ [])
    (hfh : ∀ M ∈ mods, M.fixed = true → M.hard = true)
    (h : Legal 0 P mods c) : AllEquationsHold P mods c := by
  have hpos : Pos mods c := fun m M hM => (h.modules m M hM).positive
  obtain ⟨U, es, hU, hg⟩ := gen_ok P mods hne hfh
  refine ⟨U, es, hU, hg, (gen_iff P mods U es c hU hg hr hpos).mpr ⟨fun m M hM => ?_, ?_⟩⟩
  · have hm := (rawModule_iff P c m M (hpos m M hM)).mpr (h.modules m M hM)
    exact ⟨hm.1, hm.2, (fixRaw_iff c m M (hfh M (List.mem_of_getElem? hM))).mpr ⟨h.hard m M hM, h.fixed m M hM⟩⟩
  · intro m n Mm Mn hmn hMm hMn i hi j hj
    exact interRaw_complete _ _ _ (hpos m Mm hMm i hi).1 (hpos m Mm hMm i hi).2 (hpos n Mn hMn j hj).1
      (hpos n Mn hMn j hj).2 (h.noOverlap m n Mm Mn hmn hMm hMn i hi j hj)

/-- the input configuration: rectangle `i` of module `m` where the netlist puts it. -/
noncomputable def inputCfg (mods : List (InModule ℝ)) : Cfg := fun m i =>
  match mods[m]? with
  | some M => (((split M.rects).trunk :: (split M.rects).branches)[i]?).getD ⟨0, 0, 0, 0⟩
  | none => ⟨0, 0, 0, 0⟩

/-- a legal floorplan as far as geometry goes (the hard / fixed clauses are about the *original* shape
    and place, which the input configuration has by definition). -/
structure LegalInput (P : Params ℝ) (mods : List (InModule ℝ)) : Prop where
  modules : ∀ m M, mods[m]? = some M → LegalModule P (inputCfg mods) m M
  noOverlap : ∀ m n Mm Mn, m < n → mods[m]? = some Mm → mods[n]? = some Mn →
    ∀ i < (split Mm.rects).c, ∀ j < (split Mn.rects).c, ovArea (inputCfg mods m i) (inputCfg mods n j) ≤ 0

/-- **In particular** the input configuration of an already legal floorplan satisfies the system. -/
theorem input_satisfies (P : Params ℝ) (mods : List (InModule ℝ))
    (hr : 1 ≤ P.r) (hne : mods ≠ [])
    (hfh : ∀ M ∈ mods, M.fixed = true → M.hard = true)
    (h : LegalInput P mods) : AllEquationsHold P mods (inputCfg mods) := by
  refine system_complete P mods _ hr hne hfh
    { modules := h.modules, noOverlap := h.noOverlap, hard := ?_, fixed := ?_ }
  · intro m M hM _
    unfold Rigid inputCfg
    simp only [hM, List.getElem?_cons_zero, Option.getD_some, true_and, and_self]
    intro i q hi hq
    have : ((split M.rects).trunk :: (split M.rects).branches)[i]? = some q := by
      obtain ⟨k, rfl⟩ : ∃ k, i = k + 1 := ⟨i - 1, by omega⟩
      simpa using hq
    simp [this]
  · intro m M hM _
    unfold AtPlace inputCfg
    simp [hM]

/-- for a hard module whose required area is the area of its rectangles, the Area clause follows from
    rigidity (so the Area equation of a hard module never excludes a translate of it). -/
theorem hard_area_of_rigid (c : Cfg) (m : Nat) (b : ModIn ℝ) (h : Rigid c m b) :
    areaSum c m b.c = areaSum (fun _ i => ((b.trunk :: b.branches)[i]?).getD ⟨0, 0, 0, 0⟩) m b.c := by
  have key : ∀ n, n ≤ b.c → areaSum c m n = areaSum (fun _ i => ((b.trunk :: b.branches)[i]?).getD ⟨0, 0, 0, 0⟩) m n := by
    intro n
    induction n with
    | zero => intro _; rfl
    | succ n ih =>
      intro hn
      unfold areaSum
      rw [ih (by omega)]
      congr 1
      cases n with
      | zero => simp [h.1.1, h.1.2]
      | succ k =>
        have hk : k < b.branches.length := by unfold ModIn.c at hn; omega
        have hq := List.getElem?_eq_getElem hk
        obtain ⟨hw, hh, _, _⟩ := h.2 (k + 1) (b.branches[k]) (by omega) (by simp [hq])
        simp [hw, hh, hq]
  exact key _ (le_refl _)


/-! ## General slack — what `Equation.is_equation_met()` computes

`is_equation_met()` does not test the equation exactly: it adds the process-wide slack `ε = epsilon.evaluate()`
(annealed to 0) and the constant `1e-6`.  `Met c e t q` is that test with `ε = e` and the constant abstracted to
`t`; `Holds = Met · 0 0`.  Each kind of equation is met iff its clause holds relaxed by `δ = e + t`, more slack
never un-meets an equation, and a configuration all of whose equations are reported met is legal up to `δ`
(`LegalS τ δ`). -/

/-- inside the die enlarged by `δ`. -/
def InDieS (P : Params ℝ) (δ : ℝ) (q : Box ℝ) : Prop :=
  -δ ≤ xmin q ∧ -δ ≤ ymin q ∧ xmax q ≤ P.dw + δ ∧ ymax q ≤ P.dh + δ

/-- the ratio test relaxed by `δ`, in the units of the equation (`10 · thin`). -/
def AspectS (r δ : ℝ) (q : Box ℝ) : Prop := thinV r 1 * 10 - δ ≤ thinV q.w q.h * 10

/-- attached up to `δ`. -/
def AttachedS (δ : ℝ) : Loc → Box ℝ → Box ℝ → Prop
  | .north, t, b => |ymin b - ymax t| ≤ δ ∧ xmin t - δ ≤ xmin b ∧ xmax b ≤ xmax t + δ
  | .south, t, b => |ymax b - ymin t| ≤ δ ∧ xmin t - δ ≤ xmin b ∧ xmax b ≤ xmax t + δ
  | .east, t, b => |xmin b - xmax t| ≤ δ ∧ ymin t - δ ≤ ymin b ∧ ymax b ≤ ymax t + δ
  | .west, t, b => |xmax b - xmin t| ≤ δ ∧ ymin t - δ ≤ ymin b ∧ ymax b ≤ ymax t + δ
  | _, _, _ => True

/-- neighbours along side `s` (stable order of the original coordinate) overlap by at most `δ`. -/
def SideChainS (c : Cfg) (δ : ℝ) (m : Nat) (b : ModIn ℝ) (s : Loc) (key : Box ℝ → ℝ) (lo hi : Box ℝ → ℝ) : Prop :=
  ∀ p ∈ pairs (sortBy (fun p => key p.2) (b.side s)), hi (c m p.1.1) ≤ lo (c m p.2.1) + δ

def SidesChainS (c : Cfg) (δ : ℝ) (m : Nat) (b : ModIn ℝ) : Prop :=
  SideChainS c δ m b .north (·.x) xmin xmax ∧ SideChainS c δ m b .south (·.x) xmin xmax ∧
  SideChainS c δ m b .east (·.y) ymin ymax ∧ SideChainS c δ m b .west (·.y) ymin ymax

/-- sizes and offsets from the trunk within `δ` of the original ones. -/
def RigidS (c : Cfg) (δ : ℝ) (m : Nat) (b : ModIn ℝ) : Prop :=
  (|(c m 0).w - b.trunk.w| ≤ δ ∧ |(c m 0).h - b.trunk.h| ≤ δ) ∧
  ∀ i q, 1 ≤ i → b.branches[i - 1]? = some q →
    |(c m i).w - q.w| ≤ δ ∧ |(c m i).h - q.h| ≤ δ ∧
    |((c m i).x - (c m 0).x) - (q.x - b.trunk.x)| ≤ δ ∧ |((c m i).y - (c m 0).y) - (q.y - b.trunk.y)| ≤ δ

def AtPlaceS (c : Cfg) (δ : ℝ) (m : Nat) (b : ModIn ℝ) : Prop :=
  |(c m 0).x - b.trunk.x| ≤ δ ∧ |(c m 0).y - b.trunk.y| ≤ δ

/-- overlap lengths of two boxes along `x` and `y` (0 when apart). -/
noncomputable def ovX (p q : Box ℝ) : ℝ := max 0 (min (xmax p) (xmax q) - max (xmin p) (xmin q))
noncomputable def ovY (p q : Box ℝ) : ℝ := max 0 (min (ymax p) (ymax q) - max (ymin p) (ymin q))

/-- no overlap up to the smoothing constant `τ` and the slack `δ`: the boxes penetrate by at most `√δ` along
    one axis, or `(ovX² - δ)(ovY² - δ) ≤ τ²`.  For `δ = 0` this is `ovArea ≤ τ`. -/
def NoOverlapS (τ δ : ℝ) (p q : Box ℝ) : Prop :=
  ovX p q ^ 2 ≤ δ ∨ ovY p q ^ 2 ≤ δ ∨ (ovX p q ^ 2 - δ) * (ovY p q ^ 2 - δ) ≤ τ ^ 2

structure LegalModuleS (P : Params ℝ) (δ : ℝ) (c : Cfg) (m : Nat) (M : InModule ℝ) : Prop where
  positive : ∀ i < (split M.rects).c, 0 < (c m i).w ∧ 0 < (c m i).h
  inDie : ∀ i < (split M.rects).c, InDieS P δ (c m i)
  aspect : ∀ i < (split M.rects).c, AspectS P.r δ (c m i)
  area : M.area - δ ≤ areaSum c m (split M.rects).c
  attached : ∀ i s q, (i, s, q) ∈ (split M.rects).sided → AttachedS δ s (c m 0) (c m i)
  ordered : SidesChainS c δ m (split M.rects)

/-- legal up to the smoothing constant `τ` (overlap between modules) and the slack `δ` (every clause). -/
structure LegalS (τ δ : ℝ) (P : Params ℝ) (mods : List (InModule ℝ)) (c : Cfg) : Prop where
  modules : ∀ m M, mods[m]? = some M → LegalModuleS P δ c m M
  hard : ∀ m M, mods[m]? = some M → M.hard = true → RigidS c δ m (split M.rects)
  fixed : ∀ m M, mods[m]? = some M → M.fixed = true → AtPlaceS c δ m (split M.rects)
  noOverlap : ∀ m n Mm Mn, m < n → mods[m]? = some Mm → mods[n]? = some Mn →
    ∀ i < (split Mm.rects).c, ∀ j < (split Mn.rects).c, NoOverlapS τ δ (c m i) (c n j)

/-- `is_equation_met()` is `True` for every generated equation, with slack `e` and constant `t`. -/
def AllMet (P : Params ℝ) (mods : List (InModule ℝ)) (c : Cfg) (e t : ℝ) : Prop :=
  ∃ U es, netlistToUtils mods = .ok U ∧ gen P U = .ok es ∧ ∀ q ∈ es, Met c e t q

/-- more slack, or a larger constant, never turns a met equation into an unmet one. -/
theorem met_monotone (c : Cfg) (e e' t t' : ℝ) (he : e ≤ e') (ht : t ≤ t') (h0 : 0 ≤ t) (q : Eqn ℝ)
    (h : Met c e t q) : Met c e' t' q := met_mono c e e' t t' he ht h0 q h

theorem near_iff (e t a T : ℝ) : Near e t a T ↔ |a - T| ≤ e + t := by
  unfold Near; rw [abs_le]; constructor <;> rintro ⟨h1, h2⟩ <;> exact ⟨by linarith, by linarith⟩

/-- Bounds + Shapes with slack. -/
theorem bounds_met_iff (P : Params ℝ) (c : Cfg) (e t : ℝ) (m i : Nat) (hw : 0 < (c m i).w) (hh : 0 < (c m i).h) :
    (∀ q ∈ rectEqs P m i, Met c e t q) ↔ InDieS P (e + t) (c m i) ∧ AspectS P.r (e + t) (c m i) := by
  rw [rectEqs_met_iff P c e t m i hw hh]
  unfold InDieS AspectS xmin xmax ymin ymax
  constructor
  · rintro ⟨⟨a, b, c', d⟩, f⟩; exact ⟨⟨by linarith, by linarith, by linarith, by linarith⟩, by linarith⟩
  · rintro ⟨⟨a, b, c', d⟩, f⟩; exact ⟨⟨by linarith, by linarith, by linarith, by linarith⟩, by linarith⟩

theorem attachRawS_iff (e t : ℝ) (s : Loc) (tr b : Box ℝ) : AttachRawS e t s tr b ↔ AttachedS (e + t) s tr b := by
  cases s <;> simp only [AttachRawS, AttachedS, xmin, xmax, ymin, ymax, abs_le] <;>
    (constructor <;> rintro ⟨⟨h1, h1'⟩, h2, h3⟩ <;>
        exact ⟨⟨by linarith, by linarith⟩, by linarith, by linarith⟩)

/-- Attach with slack. -/
theorem attach_met_iff (c : Cfg) (e t : ℝ) (s : Loc) (m i : Nat) :
    (∀ q ∈ attachEqs s m i, Met c e t q) ↔ AttachedS (e + t) s (c m 0) (c m i) := by
  rw [attachEqs_met_iff, attachRawS_iff]

theorem intraRawS_iff (c : Cfg) (e t : ℝ) (m : Nat) (b : ModIn ℝ) : IntraRawS c e t m b ↔ SidesChainS c (e + t) m b := by
  unfold IntraRawS SidesChainS SideChainS coord xmin xmax ymin ymax
  refine and_congr ?_ (and_congr ?_ (and_congr ?_ ?_)) <;>
    (constructor <;> intro h p hp <;> have := h p hp <;> simp only at this ⊢ <;> linarith)

/-- Intra with slack (neighbours along each side). -/
theorem intra_met_iff (c : Cfg) (e t : ℝ) (m : Nat) (b : ModIn ℝ) :
    (∀ q ∈ intraEqs m b, Met c e t q) ↔ SidesChainS c (e + t) m b := by
  rw [← intraRawS_iff]; exact intraEqs_met_iff c e t m b

/-- Area with slack. -/
theorem area_met_iff (c : Cfg) (e t : ℝ) (m n : Nat) (a : ℝ) (nm : String) :
    Met c e t ⟨"Area", nm, areaExpr m n, .ge, .cst a, false⟩ ↔ a - (e + t) ≤ areaSum c m n := by
  rw [areaEq_met_iff]; constructor <;> intro h <;> linarith

/-- the no-overlap equation with slack, exactly: both compared quantities shifted by `e + t`. -/
theorem inter_met_iff (c : Cfg) (tau e t : ℝ) (m i n j : Nat) :
    Met c e t (interEq tau m i n j) ↔ InterRawS tau e t (c m i) (c n j) := interEq_met_iff c tau e t m i n j

theorem interRawS_sound (tau e t : ℝ) (hd : 0 ≤ e + t) (p q : Box ℝ) (h : InterRawS tau e t p q) :
    NoOverlapS tau (e + t) p q := by
  unfold NoOverlapS ovX ovY
  by_cases hx : min (xmax p) (xmax q) - max (xmin p) (xmin q) ≤ 0
  · left; rw [max_eq_left hx]; simpa using hd
  by_cases hy : min (ymax p) (ymax q) - max (ymin p) (ymin q) ≤ 0
  · right; left; rw [max_eq_left hy]; simpa using hd
  push Not at hx hy
  rw [max_eq_right hx.le, max_eq_right hy.le]
  set ox := min (xmax p) (xmax q) - max (xmin p) (xmin q) with hox
  set oy := min (ymax p) (ymax q) - max (ymin p) (ymin q) with hoy
  have x1 : ox ≤ xmax p - xmin q := by have := min_le_left (xmax p) (xmax q); have := le_max_right (xmin p) (xmin q); linarith
  have x2 : ox ≤ xmax q - xmin p := by have := min_le_right (xmax p) (xmax q); have := le_max_left (xmin p) (xmin q); linarith
  have y1 : oy ≤ ymax p - ymin q := by have := min_le_left (ymax p) (ymax q); have := le_max_right (ymin p) (ymin q); linarith
  have y2 : oy ≤ ymax q - ymin p := by have := min_le_right (ymax p) (ymax q); have := le_max_left (ymin p) (ymin q); linarith
  have tx : ox ^ 2 ≤ -tX p q := by
    have e' : -tX p q = (xmax p - xmin q) * (xmax q - xmin p) := by unfold tX xmax xmin; ring
    rw [e']; nlinarith
  have ty : oy ^ 2 ≤ -tY p q := by
    have e' : -tY p q = (ymax p - ymin q) * (ymax q - ymin p) := by unfold tY ymax ymin; ring
    rw [e']; nlinarith
  by_cases hxd : ox ^ 2 ≤ e + t
  · exact Or.inl hxd
  by_cases hyd : oy ^ 2 ≤ e + t
  · exact Or.inr (Or.inl hyd)
  push Not at hxd hyd
  right; right
  have hA : 0 < -(tX p q + (e + t)) := by linarith
  have hB : 0 < -(tY p q + (e + t)) := by linarith
  unfold InterRawS at h
  have hprod : (tX p q + (e + t)) * (tY p q + (e + t)) ≤ tau ^ 2 := by
    rcases h with h | h
    · nlinarith
    · exact h
  have : (ox ^ 2 - (e + t)) * (oy ^ 2 - (e + t)) ≤ (-(tX p q + (e + t))) * (-(tY p q + (e + t))) :=
    mul_le_mul (by linarith) (by linarith) (by linarith) hA.le
  nlinarith

theorem fixRawS_iff (c : Cfg) (e t : ℝ) (m : Nat) (M : InModule ℝ) (hfh : M.fixed = true → M.hard = true) :
    FixRawS c e t m M ↔
      (M.hard = true → RigidS c (e + t) m (split M.rects)) ∧ (M.fixed = true → AtPlaceS c (e + t) m (split M.rects)) := by
  unfold FixRawS RigidS AtPlaceS
  simp only [near_iff]
  constructor
  · intro h
    refine ⟨fun hh => ?_, fun hf => ((h (hfh hf)).1.1 hf)⟩
    obtain ⟨⟨_, hw, hh'⟩, hbr⟩ := h hh
    refine ⟨⟨hw, hh'⟩, fun i q hi hq => ?_⟩
    obtain ⟨a, b, c', d⟩ := hbr i q hi hq
    refine ⟨c', d, ?_, ?_⟩
    · rwa [show (c m i).x - (c m 0).x - (q.x - (split M.rects).trunk.x) =
        (c m i).x - (q.x - (split M.rects).trunk.x + (c m 0).x) by ring]
    · rwa [show (c m i).y - (c m 0).y - (q.y - (split M.rects).trunk.y) =
        (c m i).y - (q.y - (split M.rects).trunk.y + (c m 0).y) by ring]
  · rintro ⟨h1, h2⟩ hh
    obtain ⟨⟨hw, hh'⟩, hbr⟩ := h1 hh
    refine ⟨⟨h2, hw, hh'⟩, fun i q hi hq => ?_⟩
    obtain ⟨a, b, c', d⟩ := hbr i q hi hq
    refine ⟨?_, ?_, a, b⟩
    · rwa [show (c m i).x - (q.x - (split M.rects).trunk.x + (c m 0).x) =
        (c m i).x - (c m 0).x - (q.x - (split M.rects).trunk.x) by ring]
    · rwa [show (c m i).y - (q.y - (split M.rects).trunk.y + (c m 0).y) =
        (c m i).y - (c m 0).y - (q.y - (split M.rects).trunk.y) by ring]

/-- the Fix equations with slack. -/
theorem fix_met_iff (c : Cfg) (e t : ℝ) (m : Nat) (M : InModule ℝ) (hfh : M.fixed = true → M.hard = true) :
    (∀ i < (split M.rects).c, ∀ q ∈ fixRect m i
        (if M.hard then some (xDict (split M.rects) M.fixed) else none)
        (if M.hard then some (yDict (split M.rects) M.fixed) else none)
        (if M.hard then some (wDict (split M.rects) M.fixed) else none)
        (if M.hard then some (hDict (split M.rects) M.fixed) else none), Met c e t q) ↔
      (M.hard = true → RigidS c (e + t) m (split M.rects)) ∧ (M.fixed = true → AtPlaceS c (e + t) m (split M.rects)) := by
  rw [fixModule_met_iff, fixRawS_iff c e t m M hfh]

/-- **Soundness of what `is_equation_met()` reports.**  If every generated equation is reported met with
    slack `e ≥ 0` and constant `t ≥ 0` (the code: `t = 1e-6`), the configuration is legal up to `δ = e + t`
    in every clause and up to the smoothing constant `τ` between modules. -/
theorem system_sound_slack (P : Params ℝ) (mods : List (InModule ℝ)) (c : Cfg) (e t : ℝ)
    (he : 0 ≤ e) (ht : 0 ≤ t) (hpos : Pos mods c) (h : AllMet P mods c e t) :
    LegalS (tauV P mods.length) (e + t) P mods c := by
  obtain ⟨U, es, hU, hg, hall⟩ := h
  have hraw := (gen_met_iff P mods U es c e t hU hg hpos).mp hall
  have hfh := utils_ok_fixed_hard mods U hU
  refine { modules := fun m M hM => ?_, hard := ?_, fixed := ?_, noOverlap := ?_ }
  · obtain ⟨⟨h1, h2, h3⟩, h4, _⟩ := hraw.1 m M hM
    have hb := fun i hi => (bounds_met_iff P c e t m i (hpos m M hM i hi).1 (hpos m M hM i hi).2).mp
      ((rectEqs_met_iff P c e t m i (hpos m M hM i hi).1 (hpos m M hM i hi).2).mpr (h1 i hi))
    exact {
      positive := hpos m M hM
      inDie := fun i hi => (hb i hi).1
      aspect := fun i hi => (hb i hi).2
      area := by linarith
      attached := fun i s q hs => (attachRawS_iff e t s _ _).mp (h2 i s q hs)
      ordered := (intraRawS_iff c e t m _).mp h3 }
  · intro m M hM hh
    exact ((fixRawS_iff c e t m M (hfh m M hM)).mp (hraw.1 m M hM).2.2).1 hh
  · intro m M hM hf
    exact ((fixRawS_iff c e t m M (hfh m M hM)).mp (hraw.1 m M hM).2.2).2 hf
  · intro m n Mm Mn hmn hMm hMn i hi j hj
    exact interRawS_sound _ e t (by linarith) _ _ (hraw.2 m n Mm Mn hmn hMm hMn i hi j hj)

/-- **Completeness carries over to `is_equation_met()`**: a legal floorplan is reported met for every
    slack `e ≥ 0` and constant `t ≥ 0`. -/
theorem system_complete_slack (P : Params ℝ) (mods : List (InModule ℝ)) (c : Cfg) (e t : ℝ)
    (he : 0 ≤ e) (ht : 0 ≤ t) (hr : 1 ≤ P.r) (hne : mods ≠ [])
    (hfh : ∀ M ∈ mods, M.fixed = true → M.hard = true)
    (h : Legal 0 P mods c) : AllMet P mods c e t := by
  obtain ⟨U, es, hU, hg, hall⟩ := system_complete P mods c hr hne hfh h
  exact ⟨U, es, hU, hg, fun q hq => met_of_holds c e t he ht q (hall q hq)⟩

/-- with no slack at all the relaxed no-overlap clause is the overlap-area bound. -/
theorem noOverlapS_zero (τ : ℝ) (hτ : 0 ≤ τ) (p q : Box ℝ) (h : NoOverlapS τ 0 p q) : ovArea p q ≤ τ := by
  unfold NoOverlapS at h
  have hx : 0 ≤ ovX p q := le_max_left _ _
  have hy : 0 ≤ ovY p q := le_max_left _ _
  have e : ovArea p q = ovX p q * ovY p q := rfl
  rw [e]
  rcases h with h | h | h
  · have : ovX p q = 0 := by nlinarith
    rw [this, zero_mul]; exact hτ
  · have : ovY p q = 0 := by nlinarith
    rw [this, mul_zero]; exact hτ
  · have : (ovX p q * ovY p q) ^ 2 ≤ τ ^ 2 := by nlinarith
    exact (pow_le_pow_iff_left₀ (by positivity) hτ (by norm_num)).mp this


/-- the slack `is_equation_met()` actually uses is `epsilon.evaluate()`: the plain value of the slack tree, or
    `0` below `1e-6`; it is non-negative whenever the plain value is, so the slack theorems apply to it. -/
theorem slack_value_nonneg (thr raw : ℝ) (h : 0 ≤ raw) : 0 ≤ epsValue thr raw ∧ epsValue thr raw ≤ raw := by
  unfold epsValue; split <;> simp [h]

/-! ### rejection with a margin: a clause missed by more than `δ = e + t` makes `is_equation_met()` fail somewhere

One theorem per clause family ("configurations violating exactly one legality clause by a clear margin" of the
property): the hypothesis says by how much the clause is missed, the conclusion is that not every equation is
reported met at slack `e` and constant `t`.  All are corollaries of `system_sound_slack`, for positive boxes. -/

theorem reject_outside_die (P : Params ℝ) (mods : List (InModule ℝ)) (c : Cfg) (e t : ℝ)
    (he : 0 ≤ e) (ht : 0 ≤ t) (hpos : Pos mods c) (m : Nat) (M : InModule ℝ) (i : Nat)
    (hM : mods[m]? = some M) (hi : i < (split M.rects).c)
    (hv : xmin (c m i) < -(e + t) ∨ ymin (c m i) < -(e + t) ∨ P.dw + (e + t) < xmax (c m i) ∨
      P.dh + (e + t) < ymax (c m i)) : ¬ AllMet P mods c e t := by
  intro h
  have := ((system_sound_slack P mods c e t he ht hpos h).modules m M hM).inDie i hi
  unfold InDieS at this
  rcases hv with hv | hv | hv | hv <;> linarith [this.1, this.2.1, this.2.2.1, this.2.2.2]

theorem reject_aspect (P : Params ℝ) (mods : List (InModule ℝ)) (c : Cfg) (e t : ℝ)
    (he : 0 ≤ e) (ht : 0 ≤ t) (hpos : Pos mods c) (m : Nat) (M : InModule ℝ) (i : Nat)
    (hM : mods[m]? = some M) (hi : i < (split M.rects).c)
    (hv : thinV (c m i).w (c m i).h * 10 < thinV P.r 1 * 10 - (e + t)) : ¬ AllMet P mods c e t := by
  intro h
  have := ((system_sound_slack P mods c e t he ht hpos h).modules m M hM).aspect i hi
  unfold AspectS at this; linarith

theorem reject_area (P : Params ℝ) (mods : List (InModule ℝ)) (c : Cfg) (e t : ℝ)
    (he : 0 ≤ e) (ht : 0 ≤ t) (hpos : Pos mods c) (m : Nat) (M : InModule ℝ)
    (hM : mods[m]? = some M)
    (hv : areaSum c m (split M.rects).c < M.area - (e + t)) : ¬ AllMet P mods c e t := by
  intro h
  have := ((system_sound_slack P mods c e t he ht hpos h).modules m M hM).area
  linarith

theorem reject_detached (P : Params ℝ) (mods : List (InModule ℝ)) (c : Cfg) (e t : ℝ)
    (he : 0 ≤ e) (ht : 0 ≤ t) (hpos : Pos mods c) (m : Nat) (M : InModule ℝ) (i : Nat) (s : Loc) (q : Box ℝ)
    (hM : mods[m]? = some M) (hs : (i, s, q) ∈ (split M.rects).sided)
    (hv : ¬ AttachedS (e + t) s (c m 0) (c m i)) : ¬ AllMet P mods c e t := fun h =>
  hv (((system_sound_slack P mods c e t he ht hpos h).modules m M hM).attached i s q hs)

theorem reject_disordered (P : Params ℝ) (mods : List (InModule ℝ)) (c : Cfg) (e t : ℝ)
    (he : 0 ≤ e) (ht : 0 ≤ t) (hpos : Pos mods c) (m : Nat) (M : InModule ℝ)
    (hM : mods[m]? = some M)
    (hv : ¬ SidesChainS c (e + t) m (split M.rects)) : ¬ AllMet P mods c e t := fun h =>
  hv ((system_sound_slack P mods c e t he ht hpos h).modules m M hM).ordered

theorem reject_overlap (P : Params ℝ) (mods : List (InModule ℝ)) (c : Cfg) (e t : ℝ)
    (he : 0 ≤ e) (ht : 0 ≤ t) (hpos : Pos mods c) (m n : Nat) (Mm Mn : InModule ℝ) (i j : Nat)
    (hmn : m < n) (hMm : mods[m]? = some Mm) (hMn : mods[n]? = some Mn)
    (hi : i < (split Mm.rects).c) (hj : j < (split Mn.rects).c)
    (hv : e + t < ovX (c m i) (c n j) ^ 2 ∧ e + t < ovY (c m i) (c n j) ^ 2 ∧
      tauV P mods.length ^ 2 < (ovX (c m i) (c n j) ^ 2 - (e + t)) * (ovY (c m i) (c n j) ^ 2 - (e + t))) :
    ¬ AllMet P mods c e t := by
  intro h
  have := (system_sound_slack P mods c e t he ht hpos h).noOverlap m n Mm Mn hmn hMm hMn i hi j hj
  unfold NoOverlapS at this
  rcases this with h1 | h1 | h1 <;> linarith [hv.1, hv.2.1, hv.2.2]

theorem reject_hard_deformed (P : Params ℝ) (mods : List (InModule ℝ)) (c : Cfg) (e t : ℝ)
    (he : 0 ≤ e) (ht : 0 ≤ t) (hpos : Pos mods c) (m : Nat) (M : InModule ℝ)
    (hM : mods[m]? = some M) (hh : M.hard = true)
    (hv : ¬ RigidS c (e + t) m (split M.rects)) : ¬ AllMet P mods c e t := fun h =>
  hv ((system_sound_slack P mods c e t he ht hpos h).hard m M hM hh)

/-- in particular a hard module whose trunk is resized by more than `δ`. -/
theorem reject_hard_resized (P : Params ℝ) (mods : List (InModule ℝ)) (c : Cfg) (e t : ℝ)
    (he : 0 ≤ e) (ht : 0 ≤ t) (hpos : Pos mods c) (m : Nat) (M : InModule ℝ)
    (hM : mods[m]? = some M) (hh : M.hard = true)
    (hv : e + t < |(c m 0).w - (split M.rects).trunk.w| ∨ e + t < |(c m 0).h - (split M.rects).trunk.h|) :
    ¬ AllMet P mods c e t := by
  refine reject_hard_deformed P mods c e t he ht hpos m M hM hh (fun hr => ?_)
  rcases hv with hv | hv
  · linarith [hr.1.1]
  · linarith [hr.1.2]

theorem reject_fixed_moved (P : Params ℝ) (mods : List (InModule ℝ)) (c : Cfg) (e t : ℝ)
    (he : 0 ≤ e) (ht : 0 ≤ t) (hpos : Pos mods c) (m : Nat) (M : InModule ℝ)
    (hM : mods[m]? = some M) (hf : M.fixed = true)
    (hv : e + t < |(c m 0).x - (split M.rects).trunk.x| ∨ e + t < |(c m 0).y - (split M.rects).trunk.y|) :
    ¬ AllMet P mods c e t := by
  intro h
  have := (system_sound_slack P mods c e t he ht hpos h).fixed m M hM hf
  rcases hv with hv | hv
  · linarith [this.1]
  · linarith [this.2]

/-!
### Positive sizes are not a consequence of the EQUATIONS — they come from the variable bounds (closed below)

Every statement above that goes from the equations to legality (`system_sound`, `system_sound_slack`, the
`reject_*` theorems, `bounds_iff`, `ratio_iff`) assumes `Pos` / `0 < w`, `0 < h`, and `Legal` / `LegalS` carry the
field `positive`.  The equations alone do NOT force it for soft modules: the ratio equation only gives `w · h > 0`
and the no-overlap equation only sees `(w₁ + w₂)²`.  Witness on the real code (audit3_scratch/C09/neg.py): die
10×10, ratio 3, soft `A = (7, 7, -2, -2)` placed exactly on top of soft `B = (7, 7, 2, 2)`: `is_equation_met()` is
`True` for every equation (Bounds: 8 ≥ 0, 6 ≤ 10; ratio: thin(-2,-2) = ½; Area: (-2)(-2) = 4; Inter:
`(w₁ + w₂)² = 0`, so `tX = tY = 0`).  What excludes such configurations in the tool is the variable bound
`lb = 0.1` that `_define_vars` gives `w` and `h` in GEKKO.  The section "Variable declarations" at the end of this file
models the declarations (`decls`, tied to the real `Model` on every run) and proves the statements for the system
"equations AND declared bounds" with NO positivity hypothesis: `system_sound_declared`,
`system_sound_slack_declared`, `declared_excludes_small`.  What remains — and is a property of the code, not of the
proof — is that the declared system is NARROWER than legality: `lb = 0.1` is an absolute length, so legal floorplans
with a side below `0.1` are excluded (`declared_excludes_small_legal`); completeness therefore carries the hypothesis
`MinSide (1/10)` (`system_complete_declared_partial`, `declared_sandwich`).

NOT YET PROVED (false of the code as it is, finding `C09-min-side`):
  `Legal 0 P mods c → AllEquationsHold P mods c ∧ DeclaredBoundsHold P mods c`   (without `MinSide (1/10) mods c`).
-/

/-! ### non-vacuity: a two-module floorplan (a fixed 4×2 trunk with a 2×2 north branch, and a soft 2×2) in a 10×10 die -/

example : thinV (2:ℝ) 1 * 10 ≤ thinV 4 2 * 10 := (ratio_iff 4 2 2 (by norm_num) (by norm_num) (by norm_num)).mpr (by norm_num)
example : (0:ℝ) ≤ 1 / 2 * (1 + -1 + √((1 - -1) ^ 2 + 4 * 0 * 0)) := (smax_nonneg_iff 1 (-1) 0).mpr (Or.inl (by norm_num))
example : ovArea ⟨2, 1, 4, 2⟩ ⟨7, 1, 2, 2⟩ ≤ 0 := by
  unfold ovArea xmin xmax ymin ymax; norm_num
example : Attached .north ⟨2, 1, 4, 2⟩ ⟨2, 3, 2, 2⟩ := by
  unfold Attached xmin xmax ymin ymax; norm_num


/-! ### system-level witness (applies `input_satisfies`, `system_sound`, the slack theorems and a rejection)

Die 20×20, ratio limit 3.  `M0` hard and movable: trunk (2,1,4,2) + north branch (2,3,2,2); `M1` soft: trunk
(8,4,4,8) + two east branches listed out of order (the stable sort really swaps them, the Intra equation is not
trivial); `M2` fixed: a single rectangle (15,15,2,2).  64 equations. -/
namespace Witness

noncomputable section
def P : Params ℝ := ⟨20, 20, 3⟩
/-- M0: hard (not fixed) trunk 4x2 + north branch 2x2;  M1: soft trunk 4x8 + two east branches;  M2: fixed single rect -/
def M0 : InModule ℝ := ⟨[⟨⟨2,1,4,2⟩, .trunk⟩, ⟨⟨2,3,2,2⟩, .north⟩], true, false, 12⟩
def M1 : InModule ℝ := ⟨[⟨⟨11,6,2,2⟩, .east⟩, ⟨⟨8,4,4,8⟩, .trunk⟩, ⟨⟨11,2,2,2⟩, .east⟩], false, false, 40⟩
def M2 : InModule ℝ := ⟨[⟨⟨15,15,2,2⟩, .trunk⟩], true, true, 4⟩
def mods : List (InModule ℝ) := [M0, M1, M2]

theorem s0 : split M0.rects = { trunk := ⟨2,1,4,2⟩, N := [⟨2,3,2,2⟩] } := by
  simp [split, M0, placeRect]
theorem s1 : split M1.rects = { trunk := ⟨8,4,4,8⟩, E := [⟨11,6,2,2⟩, ⟨11,2,2,2⟩] } := by
  simp [split, M1, placeRect]
theorem s2 : split M2.rects = { trunk := ⟨15,15,2,2⟩ } := by
  simp [split, M2, placeRect]

theorem c00 : inputCfg mods 0 0 = ⟨2,1,4,2⟩ := by simp [inputCfg, mods, s0]
theorem c01 : inputCfg mods 0 1 = ⟨2,3,2,2⟩ := by simp [inputCfg, mods, s0, ModIn.branches]
theorem c10 : inputCfg mods 1 0 = ⟨8,4,4,8⟩ := by simp [inputCfg, mods, s1]
theorem c11 : inputCfg mods 1 1 = ⟨11,6,2,2⟩ := by simp [inputCfg, mods, s1, ModIn.branches]
theorem c12 : inputCfg mods 1 2 = ⟨11,2,2,2⟩ := by simp [inputCfg, mods, s1, ModIn.branches]
theorem c20 : inputCfg mods 2 0 = ⟨15,15,2,2⟩ := by simp [inputCfg, mods, s2]

theorem k0 : (split M0.rects).c = 2 := by simp [s0, ModIn.c, ModIn.branches]
theorem k1 : (split M1.rects).c = 3 := by simp [s1, ModIn.c, ModIn.branches]
theorem k2 : (split M2.rects).c = 1 := by simp [s2, ModIn.c, ModIn.branches]

theorem hpos : Pos mods (inputCfg mods) := by
  intro m M hM i hi
  match m with
  | 0 =>
    obtain rfl : M0 = M := by simpa [mods] using hM
    rw [k0] at hi; interval_cases i <;> simp [c00, c01]
  | 1 =>
    obtain rfl : M1 = M := by simpa [mods] using hM
    rw [k1] at hi; interval_cases i <;> simp [c10, c11, c12]
  | 2 =>
    obtain rfl : M2 = M := by simpa [mods] using hM
    rw [k2] at hi; interval_cases i <;> simp [c20]
  | n+3 => simp [mods] at hM
theorem sd0 : (split M0.rects).sided = [(1, Loc.north, ⟨2,3,2,2⟩)] := by simp [s0, ModIn.sided, idxFrom]
theorem sd1 : (split M1.rects).sided = [(1, Loc.east, ⟨11,6,2,2⟩), (2, Loc.east, ⟨11,2,2,2⟩)] := by
  simp [s1, ModIn.sided, idxFrom]
theorem sd2 : (split M2.rects).sided = [] := by simp [s2, ModIn.sided, idxFrom]

theorem lm0 : LegalModule P (inputCfg mods) 0 M0 where
  positive := hpos 0 M0 (by simp [mods])
  inDie := by
    intro i hi; rw [k0] at hi
    interval_cases i <;> simp [c00, c01, InDie, xmin, xmax, ymin, ymax, P] <;> norm_num
  aspect := by
    intro i hi; rw [k0] at hi
    interval_cases i <;> simp [c00, c01, AspectOK, P] <;> norm_num
  area := by rw [k0]; simp [areaSum, c00, c01, M0]; norm_num
  attached := by
    intro i s q h; rw [sd0] at h
    simp at h; obtain ⟨rfl, rfl, rfl⟩ := h
    simp [Attached, c00, c01, xmin, xmax, ymin, ymax]; norm_num
  ordered := by
    simp [SidesOrdered, SideOrdered, ModIn.side, sd0, sortBy, insBy]

theorem lm1 : LegalModule P (inputCfg mods) 1 M1 where
  positive := hpos 1 M1 (by simp [mods])
  inDie := by
    intro i hi; rw [k1] at hi
    interval_cases i <;> simp [c10, c11, c12, InDie, xmin, xmax, ymin, ymax, P] <;> norm_num
  aspect := by
    intro i hi; rw [k1] at hi
    interval_cases i <;> simp [c10, c11, c12, AspectOK, P] <;> norm_num
  area := by rw [k1]; simp [areaSum, c10, c11, c12, M1]; norm_num
  attached := by
    intro i s q h; rw [sd1] at h
    simp at h
    rcases h with ⟨rfl, rfl, rfl⟩ | ⟨rfl, rfl, rfl⟩ <;>
      simp [Attached, c10, c11, c12, xmin, xmax, ymin, ymax] <;> norm_num
  ordered := by
    simp [SidesOrdered, SideOrdered, ModIn.side, sd1, sortBy, insBy, ymin, ymax]
    rw [if_pos (by norm_num)]; simp [c11, c12]; norm_num

theorem lm2 : LegalModule P (inputCfg mods) 2 M2 where
  positive := hpos 2 M2 (by simp [mods])
  inDie := by
    intro i hi; rw [k2] at hi
    interval_cases i <;> simp [c20, InDie, xmin, xmax, ymin, ymax, P] <;> norm_num
  aspect := by
    intro i hi; rw [k2] at hi
    interval_cases i <;> simp [c20, AspectOK, P]
  area := by rw [k2]; simp [areaSum, c20, M2]; norm_num
  attached := by
    intro i s q h; rw [sd2] at h; simp at h
  ordered := by
    simp [SidesOrdered, SideOrdered, ModIn.side, sd2, sortBy]
theorem legalInput : LegalInput P mods where
  modules := by
    intro m M hM
    match m with
    | 0 => obtain rfl : M0 = M := by simpa [mods] using hM
           exact lm0
    | 1 => obtain rfl : M1 = M := by simpa [mods] using hM
           exact lm1
    | 2 => obtain rfl : M2 = M := by simpa [mods] using hM
           exact lm2
    | n+3 => simp [mods] at hM
  noOverlap := by
    intro m n Mm Mn hmn hMm hMn i hi j hj
    have hn : n < 3 := by
      by_contra h; rw [List.getElem?_eq_none (by simp [mods]; omega)] at hMn; cases hMn
    interval_cases n <;> interval_cases m <;>
      simp [mods] at hMm hMn <;> subst hMm hMn <;>
      simp only [k0, k1, k2] at hi hj <;>
      interval_cases i <;> interval_cases j <;>
      simp [ovArea, c00, c01, c10, c11, c12, c20, xmin, xmax, ymin, ymax] <;> norm_num

theorem hfh : ∀ M ∈ mods, M.fixed = true → M.hard = true := by
  intro M hM; simp [mods] at hM; rcases hM with rfl | rfl | rfl <;> simp [M0, M1, M2]

/-- input_satisfies applied to the concrete witness -/
theorem W_input : AllEquationsHold P mods (inputCfg mods) :=
  input_satisfies P mods (by norm_num [P]) (by simp [mods]) hfh legalInput

/-- system_sound applied to the concrete witness (hypothesis AllEquationsHold is satisfiable) -/
theorem W_sound : Legal (tauV P mods.length) P mods (inputCfg mods) :=
  system_sound P mods (inputCfg mods) (by norm_num [P]) (by norm_num [P]) (by norm_num [P]) hpos W_input

theorem W_tau : tauV P mods.length = 1 / 15 := by
  simp [tauV, mods, P, pyMin]; norm_num
end

noncomputable section
/-- the legal input, with the FIXED module 2 moved by 1 in x (violates exactly the "fixed at original place" clause) -/
def cBad : Cfg := fun m i => if m = 2 then ⟨16,15,2,2⟩ else inputCfg mods m i

theorem hposBad : Pos mods cBad := by
  intro m M hM i hi
  by_cases h2 : m = 2
  · subst h2; simp [cBad]
  · have := hpos m M hM i hi
    simpa [cBad, h2] using this

theorem W_bad : ¬ AllEquationsHold P mods cBad := by
  intro h
  have hl := system_sound P mods cBad (by norm_num [P]) (by norm_num [P]) (by norm_num [P]) hposBad h
  have := hl.fixed 2 M2 (by simp [mods]) (by simp [M2])
  simp [AtPlace, s2, cBad] at this
end
noncomputable section
/-- what `is_equation_met()` reports on the legal input, for the annealing slack 0.3 and the code's 1e-6. -/
theorem W_met : AllMet P mods (inputCfg mods) (3 / 10) (1 / 1000000) :=
  system_complete_slack P mods _ _ _ (by norm_num) (by norm_num) (by norm_num [P]) (by simp [mods]) hfh
    { modules := legalInput.modules, noOverlap := legalInput.noOverlap,
      hard := (W_sound).hard, fixed := (W_sound).fixed }

/-- … and `system_sound_slack` applied to it. -/
theorem W_sound_slack : LegalS (tauV P mods.length) (3 / 10 + 1 / 1000000) P mods (inputCfg mods) :=
  system_sound_slack P mods _ _ _ (by norm_num) (by norm_num) hpos W_met

/-- moving the fixed module by 1 is still rejected by `is_equation_met()` at slack 0 (constant 1e-6). -/
theorem W_bad_met : ¬ AllMet P mods cBad 0 (1 / 1000000) := by
  intro h
  have hl := system_sound_slack P mods cBad 0 (1 / 1000000) (by norm_num) (by norm_num) hposBad h
  have := (hl.fixed 2 M2 (by simp [mods]) (by simp [M2])).1
  simp [s2, cBad] at this
  rw [abs_le] at this
  norm_num at this
end


noncomputable section
/-- the legal input with rectangle `i` of module `m` replaced by `bx`. -/
def cMod (m i : Nat) (bx : Box ℝ) : Cfg := fun m' i' => if m' = m ∧ i' = i then bx else inputCfg mods m' i'

theorem hposMod (m i : Nat) (bx : Box ℝ) (hw : 0 < bx.w) (hh : 0 < bx.h) : Pos mods (cMod m i bx) := by
  intro m' M hM i' hi
  by_cases h : m' = m ∧ i' = i
  · simp [cMod, h, hw, hh]
  · have := hpos m' M hM i' hi
    simpa [cMod, h] using this

/-- the slack `Model(...)` installs at build time (0.3 · 0.9¹ = 0.27) and the constant of the code. -/
abbrev e0 : ℝ := 27 / 100
abbrev t0 : ℝ := 1 / 1000000

/- each rejection theorem applied once, at the real initial slack 0.27 -/
example : ¬ AllMet P mods (cMod 1 0 ⟨-5, 4, 4, 8⟩) e0 t0 :=
  reject_outside_die _ _ _ _ _ (by norm_num) (by norm_num) (hposMod _ _ _ (by norm_num) (by norm_num)) 1 M1 0
    (by simp [mods]) (by rw [k1]; norm_num) (Or.inl (by simp [cMod, xmin]; norm_num))

example : ¬ AllMet P mods (cMod 1 0 ⟨8, 4, 40, 1⟩) e0 t0 :=
  reject_aspect _ _ _ _ _ (by norm_num) (by norm_num) (hposMod _ _ _ (by norm_num) (by norm_num)) 1 M1 0
    (by simp [mods]) (by rw [k1]; norm_num) (by simp [cMod, thinV, P]; norm_num)

example : ¬ AllMet P mods (cMod 1 0 ⟨8, 4, 1, 1⟩) e0 t0 :=
  reject_area _ _ _ _ _ (by norm_num) (by norm_num) (hposMod _ _ _ (by norm_num) (by norm_num)) 1 M1
    (by simp [mods]) (by rw [k1]; simp [areaSum, cMod, c11, c12, M1]; norm_num)

example : ¬ AllMet P mods (cMod 0 1 ⟨2, 5, 2, 2⟩) e0 t0 :=
  reject_detached _ _ _ _ _ (by norm_num) (by norm_num) (hposMod _ _ _ (by norm_num) (by norm_num)) 0 M0 1 .north ⟨2, 3, 2, 2⟩
    (by simp [mods]) (by rw [sd0]; simp) (by
      intro h
      have := h.1
      simp [cMod, c00, ymin, ymax] at this
      rw [abs_le] at this; norm_num at this)

example : ¬ AllMet P mods (cMod 2 0 ⟨8, 4, 2, 2⟩) e0 t0 :=
  reject_overlap _ _ _ _ _ (by norm_num) (by norm_num) (hposMod _ _ _ (by norm_num) (by norm_num)) 1 2 M1 M2 0 0
    (by norm_num) (by simp [mods]) (by simp [mods]) (by rw [k1]; norm_num) (by rw [k2]; norm_num) (by
      have hx : ovX (cMod 2 0 ⟨8, 4, 2, 2⟩ 1 0) (cMod 2 0 ⟨8, 4, 2, 2⟩ 2 0) = 2 := by
        simp [cMod, c10, ovX, xmin, xmax]; norm_num
      have hy : ovY (cMod 2 0 ⟨8, 4, 2, 2⟩ 1 0) (cMod 2 0 ⟨8, 4, 2, 2⟩ 2 0) = 2 := by
        simp [cMod, c10, ovY, ymin, ymax]; norm_num
      rw [hx, hy, W_tau]; norm_num)

example : ¬ AllMet P mods (cMod 0 0 ⟨2, 1, 5, 2⟩) e0 t0 :=
  reject_hard_resized _ _ _ _ _ (by norm_num) (by norm_num) (hposMod _ _ _ (by norm_num) (by norm_num)) 0 M0
    (by simp [mods]) (by simp [M0]) (Or.inl (by simp [cMod, s0]; norm_num))

example : ¬ AllMet P mods cBad e0 t0 :=
  reject_fixed_moved _ _ _ _ _ (by norm_num) (by norm_num) hposBad 2 M2 (by simp [mods]) (by simp [M2])
    (Or.inl (by simp [s2, cBad]; norm_num))

/-- the two east branches of `M1` exchanged: the original order along the side is violated. -/
def cSwap : Cfg := fun m i =>
  if m = 1 ∧ i = 1 then ⟨11, 2, 2, 2⟩ else if m = 1 ∧ i = 2 then ⟨11, 6, 2, 2⟩ else inputCfg mods m i

theorem hposSwap : Pos mods cSwap := by
  intro m M hM i hi
  by_cases h1 : m = 1 ∧ i = 1
  · simp [cSwap, h1]
  · by_cases h2 : m = 1 ∧ i = 2
    · simp [cSwap, h2]
    · have := hpos m M hM i hi
      simpa [cSwap, h1, h2] using this

example : ¬ AllMet P mods cSwap e0 t0 :=
  reject_disordered _ _ _ _ _ (by norm_num) (by norm_num) hposSwap 1 M1 (by simp [mods]) (by
    intro h
    have h3 := h.2.2.1
    simp [SideChainS, ModIn.side, sd1, sortBy, insBy] at h3
    rw [if_pos (by norm_num)] at h3
    simp [pairs, cSwap, ymin, ymax] at h3
    have h4 := h3 2 _ 1 _ rfl rfl rfl rfl
    norm_num at h4)
end

end Witness

/-! ## Variable declarations — the system "equations AND variable bounds"

`ModelModule._define_vars` declares every GEKKO variable with bounds (`x ∈ [0, dw]`, `y ∈ [0, dh]`, `w ∈ [0.1, dw]`,
`h ∈ [0.1, dh]`) and the value the netlist gives it; `Model.define_time` declares `time ∈ [0, 1000]`.  The model is
`decls` (FV/Model/LegalDecl.lean); the harness compares it on every run with the `ExpressionTree.data` of every variable,
with the `LOWER / UPPER / VALUE` of the attached `GKVariable`, and with the variable list of the GEKKO object. -/

/-- the bounds GEKKO enforces on the variables of the rectangles hold for the configuration. -/
def DeclaredBoundsHold (P : Params ℝ) (mods : List (InModule ℝ)) (c : Cfg) : Prop :=
  ∃ U, netlistToUtils mods = .ok U ∧ DeclsIn P U c

/-- every side of every rectangle is at least `s`. -/
def MinSide (s : ℝ) (mods : List (InModule ℝ)) (c : Cfg) : Prop :=
  ∀ m M, mods[m]? = some M → ∀ i < (split M.rects).c, s ≤ (c m i).w ∧ s ≤ (c m i).h

/-- the declared bounds, rectangle by rectangle: centre inside `[0,dw] × [0,dh]`, sides in `[0.1, dw]`, `[0.1, dh]`. -/
theorem declared_bounds_iff (P : Params ℝ) (mods : List (InModule ℝ)) (U : Utils ℝ) (c : Cfg)
    (hU : netlistToUtils mods = .ok U) :
    DeclsIn P U c ↔ ∀ m M, mods[m]? = some M → ∀ i < (split M.rects).c,
      (0 ≤ (c m i).x ∧ (c m i).x ≤ P.dw) ∧ (0 ≤ (c m i).y ∧ (c m i).y ≤ P.dh) ∧
      (1 / 10 ≤ (c m i).w ∧ (c m i).w ≤ P.dw) ∧ (1 / 10 ≤ (c m i).h ∧ (c m i).h ≤ P.dh) :=
  declsIn_iff P mods U c (utils_ml mods U hU)

/-- the declared rectangle variables are exactly `x, y, w, h` of every rectangle of every module … -/
theorem declared_names (P : Params ℝ) (mods : List (InModule ℝ)) (U : Utils ℝ) (hU : netlistToUtils mods = .ok U) (q : Var) :
    (∃ d ∈ decls P U, d.n = .rect q) ↔ ∃ M, mods[q.m]? = some M ∧ q.i < (split M.rects).c :=
  decls_cover P mods U (utils_ml mods U hU) q

/-- … each with ONE declaration (two declarations of the same name have the same initial value and bounds). -/
theorem declared_once (P : Params ℝ) (mods : List (InModule ℝ)) (U : Utils ℝ) (hU : netlistToUtils mods = .ok U)
    (d₁ d₂ : Decl ℝ) (h₁ : d₁ ∈ decls P U) (h₂ : d₂ ∈ decls P U) (hn : d₁.n = d₂.n) : d₁ = d₂ :=
  decls_functional P mods U (utils_ml mods U hU) d₁ d₂ h₁ h₂ hn

/-- the variables start at the input configuration (the point the solver is started from). -/
theorem declared_initial_is_input (P : Params ℝ) (mods : List (InModule ℝ)) (U : Utils ℝ)
    (hU : netlistToUtils mods = .ok U) (d : Decl ℝ) (q : Var) (hd : d ∈ decls P U) (hq : d.n = .rect q) :
    d.value = env (inputCfg mods) q := by
  have hml := utils_ml mods U hU
  rcases (mem_decls P mods U hml d).mp hd with rfl | ⟨m, M, hM, hd | ⟨i, s, b, hs, hd⟩⟩
  · simp [timeDecl] at hq
  · obtain ⟨hm, hi, hv⟩ := rectDecls_value P m 0 _ d q hd hq
    obtain ⟨k, m', i'⟩ := q
    simp only at hm hi; subst hm hi
    rw [hv, env_coord]; simp [inputCfg, hM]
  · obtain ⟨hm, hi, hv⟩ := rectDecls_value P m i b d q hd hq
    obtain ⟨k, m', i'⟩ := q
    simp only at hm hi; subst hm hi
    obtain ⟨h1, _, hb⟩ := sided_range _ _ s b hs
    rw [hv, env_coord]
    obtain ⟨j, rfl⟩ : ∃ j, i' = j + 1 := ⟨i' - 1, by omega⟩
    simp only [Nat.add_sub_cancel] at hb
    simp [inputCfg, hM, hb]

/-- `time` is declared in `[0, 1000]` and starts at `fixed_t = 1`. -/
theorem declared_time (P : Params ℝ) (U : Utils ℝ) :
    (timeDecl one : Decl ℝ) ∈ decls P U ∧ (timeDecl one : Decl ℝ).value = 1 ∧ (timeDecl one : Decl ℝ).lb = 0 ∧
      (timeDecl one : Decl ℝ).ub = 1000 := by
  refine ⟨by simp [decls], ?_, ?_, ?_⟩ <;> simp [timeDecl]

/-- the declared bounds make every rectangle a box of positive size: this is where positivity comes from. -/
theorem declared_positive (P : Params ℝ) (mods : List (InModule ℝ)) (c : Cfg) (h : DeclaredBoundsHold P mods c) :
    Pos mods c := by
  obtain ⟨U, hU, hd⟩ := h
  exact boundsRaw_pos P mods c ((declsIn_iff P mods U c (utils_ml mods U hU)).mp hd)

/-- **Soundness of the declared system, no positivity hypothesis.**  A configuration that satisfies every generated
    equation AND the declared variable bounds is a legal floorplan (overlap between modules at most `τ`). -/
theorem system_sound_declared (P : Params ℝ) (mods : List (InModule ℝ)) (c : Cfg)
    (hr : 1 ≤ P.r) (hdw : 0 ≤ P.dw) (hdh : 0 ≤ P.dh)
    (h : AllEquationsHold P mods c) (hb : DeclaredBoundsHold P mods c) : Legal (tauV P mods.length) P mods c :=
  system_sound P mods c hr hdw hdh (declared_positive P mods c hb) h

/-- the same for what `is_equation_met()` reports at slack `e`, constant `t`. -/
theorem system_sound_slack_declared (P : Params ℝ) (mods : List (InModule ℝ)) (c : Cfg) (e t : ℝ)
    (he : 0 ≤ e) (ht : 0 ≤ t) (h : AllMet P mods c e t) (hb : DeclaredBoundsHold P mods c) :
    LegalS (tauV P mods.length) (e + t) P mods c :=
  system_sound_slack P mods c e t he ht (declared_positive P mods c hb) h

/-- a legal floorplan (any overlap tolerance) whose sides are all at least `0.1` lies inside the declared bounds:
    apart from `lb = 0.1` the bounds follow from "inside the die". -/
theorem declared_bounds_of_legal (τ : ℝ) (P : Params ℝ) (mods : List (InModule ℝ)) (c : Cfg) (U : Utils ℝ)
    (hU : netlistToUtils mods = .ok U) (h : Legal τ P mods c) (hmin : MinSide (1 / 10) mods c) :
    DeclaredBoundsHold P mods c := by
  refine ⟨U, hU, (declsIn_iff P mods U c (utils_ml mods U hU)).mpr ?_⟩
  intro m M hM i hi
  obtain ⟨hw, hh⟩ := (h.modules m M hM).positive i hi
  obtain ⟨h1, h2, h3, h4⟩ := (h.modules m M hM).inDie i hi
  obtain ⟨mw, mh⟩ := hmin m M hM i hi
  unfold xmin at h1; unfold ymin at h2; unfold xmax at h3; unfold ymax at h4
  exact ⟨⟨by linarith, by linarith⟩, ⟨by linarith, by linarith⟩, ⟨mw, by linarith⟩, ⟨mh, by linarith⟩⟩

/-- **Completeness of the declared system — partial.**  A legal floorplan satisfies the equations and the declared
    bounds PROVIDED every side is at least `0.1` (the hypothesis `MinSide`; see `declared_excludes_small_legal`:
    it cannot be dropped — `lb = 0.1` is an absolute length, not a consequence of legality). -/
theorem system_complete_declared_partial (P : Params ℝ) (mods : List (InModule ℝ)) (c : Cfg)
    (hr : 1 ≤ P.r) (hne : mods ≠ []) (hfh : ∀ M ∈ mods, M.fixed = true → M.hard = true)
    (h : Legal 0 P mods c) (hmin : MinSide (1 / 10) mods c) :
    AllEquationsHold P mods c ∧ DeclaredBoundsHold P mods c := by
  have he := system_complete P mods c hr hne hfh h
  obtain ⟨U, es, hU, _, _⟩ := he
  exact ⟨system_complete P mods c hr hne hfh h, declared_bounds_of_legal 0 P mods c U hU h hmin⟩

/-- the characterisation with the bounds: for configurations whose sides are all at least `0.1`,
    `Legal 0 ⊆ (equations ∧ bounds) ⊆ Legal τ` with NO further hypothesis on the configuration. -/
theorem declared_sandwich (P : Params ℝ) (mods : List (InModule ℝ)) (c : Cfg)
    (hr : 1 ≤ P.r) (hdw : 0 ≤ P.dw) (hdh : 0 ≤ P.dh) (hne : mods ≠ [])
    (hfh : ∀ M ∈ mods, M.fixed = true → M.hard = true) :
    (Legal 0 P mods c ∧ MinSide (1 / 10) mods c → AllEquationsHold P mods c ∧ DeclaredBoundsHold P mods c) ∧
    (AllEquationsHold P mods c ∧ DeclaredBoundsHold P mods c →
      Legal (tauV P mods.length) P mods c ∧ MinSide (1 / 10) mods c) := by
  refine ⟨fun h => system_complete_declared_partial P mods c hr hne hfh h.1 h.2, fun h => ⟨system_sound_declared P mods c hr hdw hdh h.1 h.2, ?_⟩⟩
  obtain ⟨U, hU, hd⟩ := h.2
  intro m M hM i hi
  obtain ⟨_, _, hw, hh⟩ := (declsIn_iff P mods U c (utils_ml mods U hU)).mp hd m M hM i hi
  exact ⟨hw.1, hh.1⟩

/-- **In particular**: the solver's starting point — the input configuration of a legal floorplan with sides `≥ 0.1` —
    satisfies the equations and lies inside the declared bounds. -/
theorem input_satisfies_declared (P : Params ℝ) (mods : List (InModule ℝ))
    (hr : 1 ≤ P.r) (hne : mods ≠ []) (hfh : ∀ M ∈ mods, M.fixed = true → M.hard = true)
    (h : LegalInput P mods) (hmin : MinSide (1 / 10) mods (inputCfg mods)) :
    AllEquationsHold P mods (inputCfg mods) ∧ DeclaredBoundsHold P mods (inputCfg mods) := by
  have he := input_satisfies P mods hr hne hfh h
  obtain ⟨U, es, hU, _, _⟩ := he
  refine ⟨input_satisfies P mods hr hne hfh h, U, hU, (declsIn_iff P mods U _ (utils_ml mods U hU)).mpr ?_⟩
  intro m M hM i hi
  obtain ⟨hw, hh⟩ := (h.modules m M hM).positive i hi
  obtain ⟨h1, h2, h3, h4⟩ := (h.modules m M hM).inDie i hi
  obtain ⟨mw, mh⟩ := hmin m M hM i hi
  unfold xmin at h1; unfold ymin at h2; unfold xmax at h3; unfold ymax at h4
  exact ⟨⟨by linarith, by linarith⟩, ⟨by linarith, by linarith⟩, ⟨mw, by linarith⟩, ⟨mh, by linarith⟩⟩

/-- a configuration with a side `< 0.1` (in particular a non-positive one) is outside the declared system, whatever
    the equations say (this excludes the witness of the former NOT CLAIMED block: soft `A = (7,7,-2,-2)` on `B`). -/
theorem declared_excludes_small (P : Params ℝ) (mods : List (InModule ℝ)) (c : Cfg) (m : Nat) (M : InModule ℝ) (i : Nat)
    (hM : mods[m]? = some M) (hi : i < (split M.rects).c) (hv : (c m i).w < 1 / 10 ∨ (c m i).h < 1 / 10) :
    ¬ DeclaredBoundsHold P mods c := by
  rintro ⟨U, hU, hd⟩
  obtain ⟨_, _, hw, hh⟩ := (declsIn_iff P mods U c (utils_ml mods U hU)).mp hd m M hM i hi
  rcases hv with hv | hv
  · linarith [hw.1]
  · linarith [hh.1]

/-! ## `netlist_to_utils` is a faithful re-encoding of the loaded netlist -/

/-- **Every rectangle appears exactly once, with its role.**  For a module with exactly one trunk rectangle and
    every other rectangle labelled with a side, the trunk slot followed by the N / S / E / W lists (tagged with
    their side) is a permutation of the module's (role, box) pairs. -/
theorem utils_rects_exactly_once (rs : List (InRect ℝ)) (h : ∀ r ∈ rs, r.loc ≠ .nopoly)
    (h1 : (rs.filter (fun r => r.loc == .trunk)).length = 1) :
    ((Loc.trunk, (split rs).trunk) :: (split rs).tagged).Perm (rs.map roleBox) := split_perm rs h h1

/-- module list and area list: one entry per module, in order. -/
theorem utils_lists (mods : List (InModule ℝ)) (U : Utils ℝ) (hU : netlistToUtils mods = .ok U) :
    U.ml = mods.map (fun M => split M.rects) ∧ U.al = mods.map (·.area) ∧
      U.ml.length = mods.length ∧ U.al.length = mods.length := by
  unfold netlistToUtils at hU
  split at hU
  · cases hU
  · injection hU with hU; subst hU; simp

/-- **The fixing tables give the original shape and place.**  Soft modules have no row.  The row of a hard module
    holds, for every rectangle, its original width and height, for every branch its original offset from the trunk
    (so offset + original trunk centre = original centre), and — for a fixed module only — the trunk's original centre. -/
theorem utils_tables_original (mods : List (InModule ℝ)) (U : Utils ℝ) (hU : netlistToUtils mods = .ok U)
    (m : Nat) (M : InModule ℝ) (hM : mods[m]? = some M) :
    (M.hard = false → dget m U.xl = none ∧ dget m U.yl = none ∧ dget m U.wl = none ∧ dget m U.hl = none) ∧
    (M.hard = true → ∀ i < (split M.rects).c,
      (dget m U.wl).bind (dget i) = some (inputCfg mods m i).w ∧
      (dget m U.hl).bind (dget i) = some (inputCfg mods m i).h ∧
      (1 ≤ i → (dget m U.xl).bind (dget i) = some ((inputCfg mods m i).x - (inputCfg mods m 0).x) ∧
               (dget m U.yl).bind (dget i) = some ((inputCfg mods m i).y - (inputCfg mods m 0).y)) ∧
      (i = 0 → (dget m U.xl).bind (dget i) = (if M.fixed then some (inputCfg mods m 0).x else none) ∧
               (dget m U.yl).bind (dget i) = (if M.fixed then some (inputCfg mods m 0).y else none))) := by
  unfold netlistToUtils at hU
  split at hU
  · cases hU
  · injection hU with hU; subst hU
    simp only [dget_tables, Nat.zero_le, if_true, Nat.sub_zero, hM, Option.bind_some]
    constructor
    · intro hh; simp [hh]
    · intro hh i hi
      simp only [hh, if_true, Option.bind_some, dget_wDict, dget_hDict, dget_xDict, dget_yDict]
      by_cases h0 : i = 0
      · subst h0
        simp [inputCfg, hM]
      · obtain ⟨j, rfl⟩ : ∃ j, i = j + 1 := ⟨i - 1, by omega⟩
        have hj : j < (split M.rects).branches.length := by unfold ModIn.c at hi; omega
        simp [inputCfg, hM, List.getElem?_eq_getElem hj]

/-! ## groups outside legality that `Model(...)` also files: step caps, enforce flags, disabled rectangles -/

/-- the input boxes of module `m`, rectangle `i`, as `Model(...)` sees them when it makes the caps. -/
theorem inputBoxes_get (mods : List (InModule ℝ)) (U : Utils ℝ) (hU : netlistToUtils mods = .ok U)
    (m : Nat) (bs : List (Box ℝ)) (i : Nat) (b0 : Box ℝ) :
    ((inputBoxes U)[m]? = some bs ∧ bs[i]? = some b0) ↔
      ∃ M, mods[m]? = some M ∧ bs = (split M.rects).boxes ∧ i < (split M.rects).c ∧ b0 = inputCfg mods m i := by
  have hml := utils_ml mods U hU
  unfold inputBoxes
  rw [hml, List.map_map, List.getElem?_map]
  constructor
  · rintro ⟨h1, h2⟩
    cases hM : mods[m]? with
    | none => simp [hM] at h1
    | some M =>
      simp only [hM, Option.map_some, Function.comp_apply, Option.some.injEq] at h1
      subst h1
      have hlt : i < (split M.rects).boxes.length := by
        by_contra hc; rw [List.getElem?_eq_none (by omega)] at h2; cases h2
      refine ⟨M, rfl, rfl, by simpa [ModIn.boxes, ModIn.c, Nat.add_comm] using hlt, ?_⟩
      simp only [inputCfg, hM]
      unfold ModIn.boxes at h2
      rw [h2]; rfl
  · rintro ⟨M, hM, rfl, hi, rfl⟩
    refine ⟨by simp [hM], ?_⟩
    have hlt : i < (split M.rects).boxes.length := by simpa [ModIn.boxes, ModIn.c, Nat.add_comm] using hi
    simp only [inputCfg, hM]
    unfold ModIn.boxes at hlt ⊢
    rw [List.getElem?_eq_getElem hlt]; rfl

/-- **The step caps (`radius` group), exactly.**  The hard caps `Model(...)` leaves in `ModelWrapper.constraints` are
    reported met (constant `t`; the slack plays no role) iff every rectangle is within `rad + t` of its INPUT centre
    and at most `rad + t` wider / higher than at the input, `rad = 0.2 · max(dw, dh) · 0.3`. -/
theorem step_caps_met_iff (P : Params ℝ) (mods : List (InModule ℝ)) (U : Utils ℝ) (hU : netlistToUtils mods = .ok U)
    (c : Cfg) (e t : ℝ) :
    (∀ q ∈ stepEqsOf P U, Met c e t q) ↔
      ∀ m M, mods[m]? = some M → ∀ i < (split M.rects).c, CapRaw (stepRadius P) t (inputCfg mods m i) (c m i) := by
  unfold stepEqsOf
  rw [stepEqs_met_iff]
  constructor
  · intro h m M hM i hi
    exact h m _ i _ ((inputBoxes_get mods U hU m _ i _).mpr ⟨M, hM, rfl, hi, rfl⟩).1
      ((inputBoxes_get mods U hU m _ i _).mpr ⟨M, hM, rfl, hi, rfl⟩).2
  · intro h m bs i b0 h1 h2
    obtain ⟨M, hM, rfl, hi, rfl⟩ := (inputBoxes_get mods U hU m bs i b0).mp ⟨h1, h2⟩
    exact h m M hM i hi

/-- the caps never exclude the point they were made at: the input configuration meets them. -/
theorem step_caps_hold_at_input (P : Params ℝ) (mods : List (InModule ℝ)) (U : Utils ℝ) (hU : netlistToUtils mods = .ok U)
    (e t : ℝ) (ht : 0 ≤ t) (hd : 0 ≤ max P.dw P.dh) : ∀ q ∈ stepEqsOf P U, Met (inputCfg mods) e t q := by
  rw [step_caps_met_iff P mods U hU]
  intro m M hM i hi
  have hr : 0 ≤ stepRadius P := by rw [stepRadius_eq]; positivity
  unfold CapRaw
  refine ⟨?_, ?_, ?_, ?_, ?_, ?_⟩ <;> linarith

/-- **A pair that is not enforced is disjoint.**  `Model.build_model` drops the no-overlap equation of a pair whose
    L1 gap at the current configuration exceeds the threshold; at that configuration the dropped equation holds. -/
theorem unenforced_pair_holds (c : Cfg) (thr tau : ℝ) (m i n j : Nat) (hthr : 0 ≤ thr)
    (hp : 0 < (c m i).w ∧ 0 < (c m i).h) (hq : 0 < (c n j).w ∧ 0 < (c n j).h)
    (h : ¬ distL1 (c m i) (c n j) ≤ thr) : Holds c (interEq tau m i n j) :=
  (interEq_iff c tau m i n j).mpr (far_pair_interRaw _ _ thr tau hthr hp.1 hp.2 hq.1 hq.2 h)

/-- the `Rid` equations of a disabled rectangle: it sits on the trunk's centre with width and height `0` (up to the slack). -/
theorem rid_met_iff (c : Cfg) (e t : ℝ) (m i : Nat) :
    (∀ q ∈ ridEqs m i, Met c e t q) ↔
      |(c m i).x - (c m 0).x| ≤ e + t ∧ |(c m i).y - (c m 0).y| ≤ e + t ∧ |(c m i).w| ≤ e + t ∧ |(c m i).h| ≤ e + t := by
  rw [ridEqs_met_iff]
  simp only [near_iff, sub_zero]

/-- **A disabled rectangle contradicts its own declaration.**  Once `turn_off_rects` has disabled a rectangle, the
    system handed to the solver asks for `w = h = 0` while the variable is declared with `lb = 0.1`: no configuration
    inside the declared bounds meets the `Rid` equations as soon as `slack + constant < 0.1`. -/
theorem rid_contradicts_lower_bound (P : Params ℝ) (mods : List (InModule ℝ)) (c : Cfg) (e t : ℝ)
    (m : Nat) (M : InModule ℝ) (i : Nat) (hM : mods[m]? = some M) (hi : i < (split M.rects).c)
    (hb : DeclaredBoundsHold P mods c) (het : e + t < 1 / 10) : ¬ ∀ q ∈ ridEqs m i, Met c e t q := by
  intro h
  obtain ⟨U, hU, hd⟩ := hb
  obtain ⟨_, _, hw, _⟩ := (declsIn_iff P mods U c (utils_ml mods U hU)).mp hd m M hM i hi
  have := ((rid_met_iff c e t m i).mp h).2.2.1
  rw [abs_le] at this
  linarith [hw.1, this.2]

/-! ### witnesses: what the declared bounds and the kept step caps exclude although it is legal -/

/-- a single box `b` as configuration. -/
def one (b : Box ℝ) : Cfg := fun _ _ => b

/-- a netlist with ONE soft module made of ONE rectangle `b0` (required area `a`): the configuration that puts the
    rectangle at `b` is a legal floorplan as soon as `b` is a box inside the die, within the ratio, with enough area. -/
theorem legal_one (P : Params ℝ) (b0 b : Box ℝ) (a : ℝ) (hw : 0 < b.w) (hh : 0 < b.h) (hin : InDie P b)
    (has : AspectOK P.r b) (ha : a ≤ b.w * b.h) : Legal 0 P [⟨[⟨b0, .trunk⟩], false, false, a⟩] (one b) := by
  have hs : split [(⟨b0, .trunk⟩ : InRect ℝ)] = { trunk := b0 } := by simp [split, placeRect]
  have hk : (split [(⟨b0, .trunk⟩ : InRect ℝ)]).c = 1 := by simp [hs, ModIn.c, ModIn.branches]
  have hsd : (split [(⟨b0, .trunk⟩ : InRect ℝ)]).sided = [] := by simp [hs, ModIn.sided, idxFrom]
  refine { modules := ?_, hard := ?_, fixed := ?_, noOverlap := ?_ }
  · intro m M hM
    match m with
    | 0 =>
      obtain rfl : (⟨[⟨b0, .trunk⟩], false, false, a⟩ : InModule ℝ) = M := by simpa using hM
      exact {
        positive := fun i hi => ⟨hw, hh⟩
        inDie := fun i hi => hin
        aspect := fun i hi => has
        area := by simp only [hk]; simp [areaSum, one]; exact ha
        attached := by intro i s q h; simp only [hsd] at h; simp at h
        ordered := by simp [SidesOrdered, SideOrdered, ModIn.side, hsd, sortBy] }
    | n+1 => simp at hM
  · intro m M hM hh'
    match m with
    | 0 => obtain rfl : (⟨[⟨b0, .trunk⟩], false, false, a⟩ : InModule ℝ) = M := by simpa using hM
           simp at hh'
    | n+1 => simp at hM
  · intro m M hM hf
    match m with
    | 0 => obtain rfl : (⟨[⟨b0, .trunk⟩], false, false, a⟩ : InModule ℝ) = M := by simpa using hM
           simp at hf
    | n+1 => simp at hM
  · intro m n Mm Mn hmn hMm hMn
    match n with
    | 0 => omega
    | n+1 => simp at hMn

theorem one_minSide (b0 b : Box ℝ) (a s : ℝ) (hw : s ≤ b.w) (hh : s ≤ b.h) :
    MinSide s [⟨[⟨b0, .trunk⟩], false, false, a⟩] (one b) := fun m M hM i hi => ⟨hw, hh⟩

/-- die 1 × 1, ratio limit 3; one soft module: a `0.05 × 0.05` square in the middle. -/
noncomputable def smallM : InModule ℝ := ⟨[⟨⟨1/2, 1/2, 1/20, 1/20⟩, .trunk⟩], false, false, 1/400⟩
/-- die 20 × 20; one soft `2 × 2` module at `(5, 5)`. -/
noncomputable def farM : InModule ℝ := ⟨[⟨⟨5, 5, 2, 2⟩, .trunk⟩], false, false, 4⟩

/-- **`lb = 0.1` excludes legal floorplans.**  Die 1 × 1, ratio limit 3, one soft module: a `0.05 × 0.05` square in the
    middle (a netlist whose unit makes the modules small).  Keeping it where it is is a legal floorplan and satisfies
    every equation, yet lies outside the declared variable bounds: the hypothesis `MinSide (1/10)` of
    `system_complete_declared_partial` cannot be dropped. -/
theorem declared_excludes_small_legal :
    Legal 0 ⟨1, 1, 3⟩ [smallM] (one ⟨1/2, 1/2, 1/20, 1/20⟩) ∧
    AllEquationsHold ⟨1, 1, 3⟩ [smallM] (one ⟨1/2, 1/2, 1/20, 1/20⟩) ∧
    ¬ DeclaredBoundsHold ⟨1, 1, 3⟩ [smallM] (one ⟨1/2, 1/2, 1/20, 1/20⟩) := by
  have hL : Legal 0 ⟨1, 1, 3⟩ [smallM] (one ⟨1/2, 1/2, 1/20, 1/20⟩) :=
    legal_one ⟨1, 1, 3⟩ ⟨1/2, 1/2, 1/20, 1/20⟩ ⟨1/2, 1/2, 1/20, 1/20⟩ (1/400) (by norm_num) (by norm_num)
      (by unfold InDie xmin xmax ymin ymax; norm_num) (by unfold AspectOK; norm_num) (by norm_num)
  refine ⟨hL, system_complete _ _ _ (by norm_num) (by simp) (by intro M hM; simp at hM; subst hM; simp [smallM]) hL, ?_⟩
  refine declared_excludes_small _ _ _ 0 smallM 0 rfl ?_ (Or.inl (by simp [one]; norm_num))
  simp [smallM, split, placeRect, ModIn.c, ModIn.branches]

/-- **The step caps kept from construction exclude legal floorplans.**  Die 20 × 20, one soft `2 × 2` module at
    `(5, 5)`.  Putting it at `(15, 15)` is a legal floorplan, satisfies every equation and every declared bound, but
    NOT the hard `radius` caps that `Model(...)` files (and that `ModelWrapper.build_model` keeps posting when
    `small_steps` is off): they tie every rectangle to within `0.06 · max(dw, dh) = 1.2` of its input place. -/
theorem stale_caps_exclude_legal :
    ∃ U, netlistToUtils [farM] = .ok U ∧
      Legal 0 ⟨20, 20, 3⟩ [farM] (one ⟨15, 15, 2, 2⟩) ∧
      AllEquationsHold ⟨20, 20, 3⟩ [farM] (one ⟨15, 15, 2, 2⟩) ∧
      DeclaredBoundsHold ⟨20, 20, 3⟩ [farM] (one ⟨15, 15, 2, 2⟩) ∧
      ¬ ∀ q ∈ stepEqsOf ⟨20, 20, 3⟩ U, Met (one ⟨15, 15, 2, 2⟩) 0 (1 / 1000000) q := by
  have hL : Legal 0 ⟨20, 20, 3⟩ [farM] (one ⟨15, 15, 2, 2⟩) :=
    legal_one ⟨20, 20, 3⟩ ⟨5, 5, 2, 2⟩ ⟨15, 15, 2, 2⟩ 4 (by norm_num) (by norm_num)
      (by unfold InDie xmin xmax ymin ymax; norm_num) (by unfold AspectOK; norm_num) (by norm_num)
  have hc := system_complete_declared_partial _ _ _ (by norm_num) (by simp)
    (by intro M hM; simp at hM; subst hM; simp [farM]) hL (one_minSide _ _ _ _ (by norm_num) (by norm_num))
  obtain ⟨U, hU, hd⟩ := hc.2
  refine ⟨U, hU, hL, hc.1, hc.2, ?_⟩
  intro h
  rw [step_caps_met_iff _ _ U hU] at h
  have := (h 0 farM rfl 0 (by simp [farM, split, placeRect, ModIn.c, ModIn.branches])).1
  rw [stepRadius_eq] at this
  simp [one, inputCfg, farM, split, placeRect] at this
  norm_num at this

/-! ### disabled rectangles: flags -/

/-- with nothing disabled `get_constraints` is the system the legality theorems are about. -/
theorem macroEqsEn_all_enabled (P : Params ℝ) (m : Nat) (b : ModIn ℝ) : macroEqsEn P m b [] = macroEqs P m b := by
  have hen : ∀ i, enAt [] i = true := fun i => by simp [enAt]
  have hs : ∀ (s : Loc) (k e : VK) (key : Box ℝ → ℝ) (nm : String),
      intraSideEn m b [] s k e key nm = intraSide m b s k e key nm := by
    intro s k e key nm
    unfold intraSideEn intraSide
    simp [hen]
  unfold macroEqsEn macroEqs moduleRectEqs intraEqs
  simp only [hen, if_true, hs, List.append_assoc]

/-- `turn_off_rects` never disables the trunk, and keeps every enabled rectangle whose share of the module's area
    exceeds `perc`. -/
theorem turnOff_keeps (perc : ℝ) (bs : List (Box ℝ)) (en en' : List Bool) (h : turnOff perc bs en = some en')
    (i : Nat) (b : Box ℝ) (hb : bs[i]? = some b) (he : en[i]? = some true)
    (hk : i = 0 ∨ perc < b.w * b.h / areaOf bs) : en'[i]? = some true := by
  unfold turnOff at h
  split at h
  · injection h with h; subst h; exact he
  · simp only at h
    split at h
    · cases h
    · injection h with h; subst h
      rw [getElem?_idxFrom_map]
      have hz : (bs.zip en)[i]? = some (b, true) := by
        rw [List.getElem?_zip_eq_some]; exact ⟨hb, he⟩
      rw [hz]
      simp only [Option.map_some, Nat.zero_add]
      rcases hk with rfl | hk
      · simp
      · by_cases h0 : i = 0
        · simp [h0]
        · simp [h0, not_le.mpr hk]

/-- … and a branch whose share is at most `perc` comes out disabled. -/
theorem turnOff_disables (perc : ℝ) (bs : List (Box ℝ)) (en en' : List Bool) (h : turnOff perc bs en = some en')
    (i : Nat) (b : Box ℝ) (e : Bool) (hb : bs[i]? = some b) (he : en[i]? = some e) (hi : 1 ≤ i)
    (hk : b.w * b.h / areaOf bs ≤ perc) : en'[i]? = some false := by
  unfold turnOff at h
  split at h
  · rename_i hl
    have : i < bs.length := by
      by_contra hc; rw [List.getElem?_eq_none (by omega)] at hb; cases hb
    omega
  · simp only at h
    split at h
    · cases h
    · injection h with h; subst h
      rw [getElem?_idxFrom_map]
      have hz : (bs.zip en)[i]? = some (b, e) := by
        rw [List.getElem?_zip_eq_some]; exact ⟨hb, he⟩
      rw [hz]
      have h0 : i ≠ 0 := by omega
      simp [h0, hk]

end FV.C09

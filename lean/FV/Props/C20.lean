import FV.Model.Global
import FV.Proofs.Geom
import FV.Props.C07
/-
  C20 — results do not depend on what the process did before.

  The only library state that an earlier operation can leave behind and a later one reads is
  (a) the class-wide tolerances of `Rectangle` (this file), (b) the process-wide ROBDD store of the SAT layer
  (append-only, semantics-preserving: theorems `C07.store_*`), (c) the legaliser's module-level slack, which
  every model construction overwrites before reading (tied by the correspondence run).
  For (a) the tolerance is sticky: the FIRST design of the process fixes it.  The theorems below say: whatever
  the history, the tolerance a probe sees is one that some design of the history (or the probe itself) proposed;
  hence lies between the smallest and the largest proposal; and a tolerance-reading operation whose input is
  *robust* for that interval (no gap / overlap area strictly inside the interval) gives the same answer as in a
  fresh process.
-/
namespace FV.C20
open FV FV.Rect
set_option linter.unusedSectionVars false
set_option linter.unusedVariables false

variable {α : Type}

/-! ### the tolerance state is sticky -/

theorem ensureEps_some (sqrt : α → α) (e : Eps α) (d : α) : ensureEps sqrt (some e) d = some e := rfl

theorem runHistory_some (sqrt : α → α) (e : Eps α) (hist : List α) :
    runHistory sqrt (some e) hist = some e := by
  induction hist with
  | nil => rfl
  | cons d ds ih => simpa [runHistory, List.foldl, ensureEps] using ih

/-- after any non-empty history from a fresh process the tolerance is the one the FIRST design proposed;
    after the empty history it is undefined. -/
theorem runHistory_fresh (sqrt : α → α) (hist : List α) :
    runHistory sqrt none hist = (match hist with | [] => none | d :: _ => setEps sqrt d) := by
  cases hist with
  | nil => rfl
  | cons d ds =>
    simp only [runHistory, List.foldl, ensureEps]
    exact runHistory_some sqrt _ ds

/-- the tolerance a probe operation computes with, after an arbitrary history. -/
def probeEps (sqrt : α → α) (hist : List α) (proposal : α) : Eps α :=
  match hist with
  | [] => ⟨proposal, sqrt proposal⟩
  | d :: _ => ⟨d, sqrt d⟩

theorem run_after_history {β : Type} (sqrt : α → α) (op : EpsOp α β) (hist : List α) :
    (op.run sqrt (runHistory sqrt none hist)).2 = op.body (probeEps sqrt hist op.proposal) := by
  rw [runHistory_fresh]
  cases hist with
  | nil => simp [EpsOp.run, ensureEps, setEps, probeEps]
  | cons d ds => simp [EpsOp.run, ensureEps, setEps, probeEps]

/-- no operation ever changes a defined tolerance (frame condition), so the state after the probe is the
    state before it — operations do not leave anything behind beyond the first definition. -/
theorem run_state {β : Type} (sqrt : α → α) (op : EpsOp α β) (e : Eps α) :
    (op.run sqrt (some e)).1 = some e := by
  simp [EpsOp.run, ensureEps]

/-! ### history independence for robust inputs -/

section ordered
variable [Field α] [LinearOrder α] [IsStrictOrderedRing α]

/-- the tolerance in force lies in the interval spanned by the proposals of history and probe. -/
theorem probeEps_mem (sqrt : α → α) (hmono : ∀ x y, x ≤ y → sqrt x ≤ sqrt y)
    (hist : List α) (p lo hi : α) (hp : lo ≤ p ∧ p ≤ hi) (hh : ∀ d ∈ hist, lo ≤ d ∧ d ≤ hi) :
    lo ≤ (probeEps sqrt hist p).dist ∧ (probeEps sqrt hist p).dist ≤ hi ∧
    sqrt lo ≤ (probeEps sqrt hist p).area ∧ (probeEps sqrt hist p).area ≤ sqrt hi := by
  cases hist with
  | nil => exact ⟨hp.1, hp.2, hmono _ _ hp.1, hmono _ _ hp.2⟩
  | cons d ds =>
    have := hh d (List.mem_cons_self ..)
    exact ⟨this.1, this.2, hmono _ _ this.1, hmono _ _ this.2⟩

/-- **history independence, abstract form**: if the operation's body gives one and the same answer for every
    tolerance in `[lo, hi] × [sqrt lo, sqrt hi]`, then after ANY history of designs whose proposed tolerances lie
    in `[lo, hi]` it answers exactly as in a fresh process. -/
theorem history_indep {β : Type} (sqrt : α → α) (hmono : ∀ x y, x ≤ y → sqrt x ≤ sqrt y)
    (op : EpsOp α β) (lo hi : α) (hp : lo ≤ op.proposal ∧ op.proposal ≤ hi)
    (hrobust : ∀ e e' : Eps α, (lo ≤ e.dist ∧ e.dist ≤ hi ∧ sqrt lo ≤ e.area ∧ e.area ≤ sqrt hi) →
        (lo ≤ e'.dist ∧ e'.dist ≤ hi ∧ sqrt lo ≤ e'.area ∧ e'.area ≤ sqrt hi) → op.body e = op.body e')
    (hist : List α) (hh : ∀ d ∈ hist, lo ≤ d ∧ d ≤ hi) :
    (op.run sqrt (runHistory sqrt none hist)).2 = (op.run sqrt none).2 := by
  rw [run_after_history]
  have h0 : (op.run sqrt none).2 = op.body (probeEps sqrt [] op.proposal) := by
    simpa [runHistory] using run_after_history sqrt op []
  rw [h0]
  exact hrobust _ _ (probeEps_mem sqrt hmono hist _ lo hi hp hh) (probeEps_mem sqrt hmono [] _ lo hi hp (by simp))

/-- L∞ gap between two rectangles. -/
def gap (a b : Rect α) : α :=
  max (max (a.xmin - b.xmax) (b.xmin - a.xmax)) (max (a.ymin - b.ymax) (b.ymin - a.ymax))

/-- `touches` is insensitive to the tolerance when the gap is not strictly inside the tolerance interval. -/
theorem touches_insensitive (a b : Rect α) (lo hi ε ε' : α) (h : lo ≤ ε ∧ ε ≤ hi) (h' : lo ≤ ε' ∧ ε' ≤ hi)
    (hr : gap a b ≤ lo ∨ hi < gap a b) : touches ε a b = touches ε' a b := by
  have key : ∀ e : α, touches e a b = true ↔ gap a b ≤ e := by
    intro e
    simp only [touches, Bool.and_eq_true, decide_eq_true_eq, gap, max_le_iff]
    constructor
    · rintro ⟨⟨⟨h1, h2⟩, h3⟩, h4⟩; exact ⟨⟨by linarith, by linarith⟩, by linarith, by linarith⟩
    · rintro ⟨⟨h1, h2⟩, h3, h4⟩; exact ⟨⟨⟨by linarith, by linarith⟩, by linarith⟩, by linarith⟩
  rw [Bool.eq_iff_iff, key, key]
  rcases hr with hr | hr
  · exact ⟨fun _ => le_trans hr h'.1, fun _ => le_trans hr h.1⟩
  · exact ⟨fun c => absurd (lt_of_lt_of_le hr c) (not_lt.mpr h.2), fun c => absurd (lt_of_lt_of_le hr c) (not_lt.mpr h'.2)⟩

/-- `overlap` is insensitive to the area tolerance when the common area is not strictly inside the interval. -/
theorem overlap_insensitive (a b : Rect α) (lo hi ε ε' : α) (h : lo ≤ ε ∧ ε ≤ hi) (h' : lo ≤ ε' ∧ ε' ≤ hi)
    (hr : a.areaOverlap b ≤ lo ∨ hi < a.areaOverlap b) : overlap ε a b = overlap ε' a b := by
  rw [Bool.eq_iff_iff]
  simp only [overlap, decide_eq_true_eq]
  rcases hr with hr | hr
  · exact ⟨fun c => absurd (lt_of_lt_of_le c hr) (not_lt.mpr h.1), fun c => absurd (lt_of_lt_of_le c hr) (not_lt.mpr h'.1)⟩
  · exact ⟨fun _ => lt_of_le_of_lt h'.2 hr, fun _ => lt_of_le_of_lt h.2 hr⟩

/-- **instance**: the touch test of two rectangles of a design, as an operation reading the process state. -/
def touchOp (proposal : α) (a b : Rect α) : EpsOp α Bool := ⟨proposal, fun e => touches e.dist a b⟩
def overlapOp (proposal : α) (a b : Rect α) : EpsOp α Bool := ⟨proposal, fun e => overlap e.area a b⟩

theorem touch_history_indep (sqrt : α → α) (hmono : ∀ x y, x ≤ y → sqrt x ≤ sqrt y) (p lo hi : α) (a b : Rect α)
    (hp : lo ≤ p ∧ p ≤ hi) (hr : gap a b ≤ lo ∨ hi < gap a b) (hist : List α) (hh : ∀ d ∈ hist, lo ≤ d ∧ d ≤ hi) :
    ((touchOp p a b).run sqrt (runHistory sqrt none hist)).2 = ((touchOp p a b).run sqrt none).2 :=
  history_indep sqrt hmono (touchOp p a b) lo hi hp
    (fun e e' he he' => touches_insensitive a b lo hi e.dist e'.dist ⟨he.1, he.2.1⟩ ⟨he'.1, he'.2.1⟩ hr) hist hh

theorem overlap_history_indep (sqrt : α → α) (hmono : ∀ x y, x ≤ y → sqrt x ≤ sqrt y) (p lo hi : α) (a b : Rect α)
    (hp : lo ≤ p ∧ p ≤ hi) (hr : a.areaOverlap b ≤ sqrt lo ∨ sqrt hi < a.areaOverlap b)
    (hist : List α) (hh : ∀ d ∈ hist, lo ≤ d ∧ d ≤ hi) :
    ((overlapOp p a b).run sqrt (runHistory sqrt none hist)).2 = ((overlapOp p a b).run sqrt none).2 :=
  history_indep sqrt hmono (overlapOp p a b) lo hi hp
    (fun e e' he he' => overlap_insensitive a b (sqrt lo) (sqrt hi) e.area e'.area ⟨he.2.2.1, he.2.2.2⟩ ⟨he'.2.2.1, he'.2.2.2⟩ hr)
    hist hh

end ordered

/-! ### the process-wide ROBDD store (second piece of surviving state) -/

section store
open FV.PB FV.Sat

/-- **constraint encoding is history independent**: whatever inequalities earlier managers of the process encoded
    (histories `h`, `h'` of `getrobdd` calls growing the shared store — including none), a fresh manager that is posted
    the same constraints restricts the user's variables to exactly the same assignments.  (Corollary of
    `C07.store_history_wf` and `C07.post_history_exact`: the meaning of an encoding does not depend on the store it
    starts from; the clause text differs only in the numbering of diagram nodes.) -/
theorem encoding_history_indep (h h' : List (Ineq Var × Bool))
    (hpos : ∀ qd ∈ h, ∀ t ∈ qd.1.lhs.t, 0 < t.c) (hpos' : ∀ qd ∈ h', ∀ t ∈ qd.1.lhs.t, 0 < t.c)
    {ps : List Post} {m m2 : Mgr} {S S2 : Store Var}
    (r : Run {} (storeRun h Store.init) ps m S) (r' : Run {} (storeRun h' Store.init) ps m2 S2)
    (hps : ∀ p ∈ ps, p.WF) (σ : Var → Bool) :
    (∃ τ, (∀ v, isUser v → τ v = σ v) ∧ cnfTrue τ m.clauses) ↔
    (∃ τ, (∀ v, isUser v → τ v = σ v) ∧ cnfTrue τ m2.clauses) := by
  rw [FV.C07.post_history_exact (FV.C07.store_history_wf h hpos).1 r hps σ,
    FV.C07.post_history_exact (FV.C07.store_history_wf h' hpos').1 r' hps σ]

end store

/-! ### non-vacuity -/
example : (runHistory (fun x : ℚ => x) none [3, 5, 7]).map (·.dist) = some 3 := by decide +kernel
example : (probeEps (fun x : ℚ => x) [3, 5] 9).dist = 3 := by decide +kernel

end FV.C20

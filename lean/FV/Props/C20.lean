import FV.Model.Global
import FV.Model.Registers
import FV.Proofs.Geom
import FV.Props.C07
import FV.Proofs.Stog
import FV.Model.Alloc
import FV.Props.C01
import FV.Proofs.SatProc
/-
  C20 — results do not depend on what the process did before.

  The only library state that an earlier operation can leave behind and a later one reads is
  (a) the class-wide tolerances of `Rectangle` (this file), (b) the process-wide ROBDD store of the SAT layer
  (append-only, semantics-preserving: theorems `C07.store_*`), (c) the legaliser's module-level registers: the slack, which
  every model construction overwrites before reading, a name registry that is never written and a debug mask that
  only gates printing (model `FV.Proc.LegalRegs`, theorems `legal_build_history_indep`, `createVariable_keeps_name`).
  For (a) the tolerance is sticky: the FIRST design of the process fixes it.  The theorems below say: whatever
  the history, the tolerance a probe sees is one that some design of the history (or the probe itself) proposed;
  hence lies between the smallest and the largest proposal; and a tolerance-reading operation whose input is
  *robust* for that interval (no gap / overlap area strictly inside the interval) gives the same answer as in a
  fresh process.
-/
namespace FV.C20
open FV FV.Rect FV.Proc
set_option linter.unusedSectionVars false
set_option linter.unusedVariables false

variable {α : Type}

/-! ### the tolerance state is sticky -/

theorem ensureEps_some (sqrt : α → α) (e : Proc.Eps α) (d : α) : ensureEps sqrt (some e) d = some e := rfl

theorem runHistory_some (sqrt : α → α) (e : Proc.Eps α) (hist : List α) :
    runHistory sqrt (some e) hist = some e := by
  induction hist with
  | nil => rfl
  | cons d ds ih => simpa [runHistory, List.foldl, ensureEps] using ih

/-- after any non-empty history from a fresh process the tolerance is the one the FIRST design proposed;
    after the empty history it is undefined. -/
theorem runHistory_fresh (sqrt : α → α) (hist : List α) :
    runHistory sqrt none hist = (match hist with | [] => none | d :: _ => setEps sqrt d) := by
  cases hist with
  | nil => rfl
  | cons d ds =>
    simp only [runHistory, List.foldl, ensureEps]
    exact runHistory_some sqrt _ ds

/-- the tolerance a probe operation computes with, after an arbitrary history. -/
def probeEps (sqrt : α → α) (hist : List α) (proposal : α) : Proc.Eps α :=
  match hist with
  | [] => ⟨proposal, sqrt proposal⟩
  | d :: _ => ⟨d, sqrt d⟩

theorem run_after_history {β : Type} (sqrt : α → α) (op : EpsOp α β) (hist : List α) :
    (op.run sqrt (runHistory sqrt none hist)).2 = op.body (probeEps sqrt hist op.proposal) := by
  rw [runHistory_fresh]
  cases hist with
  | nil => simp [EpsOp.run, ensureEps, setEps, probeEps]
  | cons d ds => simp [EpsOp.run, ensureEps, setEps, probeEps]

/-- no operation ever changes a defined tolerance (frame condition), so the state after the probe is the
    state before it — operations do not leave anything behind beyond the first definition. -/
theorem run_state {β : Type} (sqrt : α → α) (op : EpsOp α β) (e : Proc.Eps α) :
    (op.run sqrt (some e)).1 = some e := by
  simp [EpsOp.run, ensureEps]

/-! ### history independence for robust inputs -/

section ordered
variable [Field α] [LinearOrder α] [IsStrictOrderedRing α]

/-- the tolerance in force lies in the interval spanned by the proposals of history and probe. -/
theorem probeEps_mem (sqrt : α → α) (hmono : ∀ x y, x ≤ y → sqrt x ≤ sqrt y)
    (hist : List α) (p lo hi : α) (hp : lo ≤ p ∧ p ≤ hi) (hh : ∀ d ∈ hist, lo ≤ d ∧ d ≤ hi) :
    lo ≤ (probeEps sqrt hist p).dist ∧ (probeEps sqrt hist p).dist ≤ hi ∧
    sqrt lo ≤ (probeEps sqrt hist p).area ∧ (probeEps sqrt hist p).area ≤ sqrt hi := by
  cases hist with
  | nil => exact ⟨hp.1, hp.2, hmono _ _ hp.1, hmono _ _ hp.2⟩
  | cons d ds =>
    have := hh d (List.mem_cons_self ..)
    exact ⟨this.1, this.2, hmono _ _ this.1, hmono _ _ this.2⟩

/-- **history independence, abstract form**: if the operation's body gives one and the same answer for every
    tolerance in `[lo, hi] × [sqrt lo, sqrt hi]`, then after ANY history of designs whose proposed tolerances lie
    in `[lo, hi]` it answers exactly as in a fresh process. -/
theorem history_indep {β : Type} (sqrt : α → α) (hmono : ∀ x y, x ≤ y → sqrt x ≤ sqrt y)
    (op : EpsOp α β) (lo hi : α) (hp : lo ≤ op.proposal ∧ op.proposal ≤ hi)
    (hrobust : ∀ e e' : Proc.Eps α, (lo ≤ e.dist ∧ e.dist ≤ hi ∧ sqrt lo ≤ e.area ∧ e.area ≤ sqrt hi) →
        (lo ≤ e'.dist ∧ e'.dist ≤ hi ∧ sqrt lo ≤ e'.area ∧ e'.area ≤ sqrt hi) → op.body e = op.body e')
    (hist : List α) (hh : ∀ d ∈ hist, lo ≤ d ∧ d ≤ hi) :
    (op.run sqrt (runHistory sqrt none hist)).2 = (op.run sqrt none).2 := by
  rw [run_after_history]
  have h0 : (op.run sqrt none).2 = op.body (probeEps sqrt [] op.proposal) := by
    simpa [runHistory] using run_after_history sqrt op []
  rw [h0]
  exact hrobust _ _ (probeEps_mem sqrt hmono hist _ lo hi hp hh) (probeEps_mem sqrt hmono [] _ lo hi hp (by simp))

/-- L∞ gap between two rectangles. -/
def gap (a b : Rect α) : α :=
  max (max (a.xmin - b.xmax) (b.xmin - a.xmax)) (max (a.ymin - b.ymax) (b.ymin - a.ymax))

/-- `touches` is insensitive to the tolerance when the gap is not strictly inside the tolerance interval. -/
theorem touches_insensitive (a b : Rect α) (lo hi ε ε' : α) (h : lo ≤ ε ∧ ε ≤ hi) (h' : lo ≤ ε' ∧ ε' ≤ hi)
    (hr : gap a b ≤ lo ∨ hi < gap a b) : touches ε a b = touches ε' a b := by
  have key : ∀ e : α, touches e a b = true ↔ gap a b ≤ e := by
    intro e
    simp only [touches, Bool.and_eq_true, decide_eq_true_eq, gap, max_le_iff]
    constructor
    · rintro ⟨⟨⟨h1, h2⟩, h3⟩, h4⟩; exact ⟨⟨by linarith, by linarith⟩, by linarith, by linarith⟩
    · rintro ⟨⟨h1, h2⟩, h3, h4⟩; exact ⟨⟨⟨by linarith, by linarith⟩, by linarith⟩, by linarith⟩
  rw [Bool.eq_iff_iff, key, key]
  rcases hr with hr | hr
  · exact ⟨fun _ => le_trans hr h'.1, fun _ => le_trans hr h.1⟩
  · exact ⟨fun c => absurd (lt_of_lt_of_le hr c) (not_lt.mpr h.2), fun c => absurd (lt_of_lt_of_le hr c) (not_lt.mpr h'.2)⟩

/-- `overlap` is insensitive to the area tolerance when the common area is not strictly inside the interval. -/
theorem overlap_insensitive (a b : Rect α) (lo hi ε ε' : α) (h : lo ≤ ε ∧ ε ≤ hi) (h' : lo ≤ ε' ∧ ε' ≤ hi)
    (hr : a.areaOverlap b ≤ lo ∨ hi < a.areaOverlap b) : overlap ε a b = overlap ε' a b := by
  rw [Bool.eq_iff_iff]
  simp only [overlap, decide_eq_true_eq]
  rcases hr with hr | hr
  · exact ⟨fun c => absurd (lt_of_lt_of_le c hr) (not_lt.mpr h.1), fun c => absurd (lt_of_lt_of_le c hr) (not_lt.mpr h'.1)⟩
  · exact ⟨fun _ => lt_of_le_of_lt h'.2 hr, fun _ => lt_of_le_of_lt h.2 hr⟩

/-- **instance**: the touch test of two rectangles of a design, as an operation reading the process state. -/
def touchOp (proposal : α) (a b : Rect α) : EpsOp α Bool := ⟨proposal, fun e => touches e.dist a b⟩
def overlapOp (proposal : α) (a b : Rect α) : EpsOp α Bool := ⟨proposal, fun e => overlap e.area a b⟩

theorem touch_history_indep_partial (sqrt : α → α) (hmono : ∀ x y, x ≤ y → sqrt x ≤ sqrt y) (p lo hi : α) (a b : Rect α)
    (hp : lo ≤ p ∧ p ≤ hi) (hr : gap a b ≤ lo ∨ hi < gap a b) (hist : List α) (hh : ∀ d ∈ hist, lo ≤ d ∧ d ≤ hi) :
    ((touchOp p a b).run sqrt (runHistory sqrt none hist)).2 = ((touchOp p a b).run sqrt none).2 :=
  history_indep sqrt hmono (touchOp p a b) lo hi hp
    (fun e e' he he' => touches_insensitive a b lo hi e.dist e'.dist ⟨he.1, he.2.1⟩ ⟨he'.1, he'.2.1⟩ hr) hist hh

theorem overlap_history_indep_partial (sqrt : α → α) (hmono : ∀ x y, x ≤ y → sqrt x ≤ sqrt y) (p lo hi : α) (a b : Rect α)
    (hp : lo ≤ p ∧ p ≤ hi) (hr : a.areaOverlap b ≤ sqrt lo ∨ sqrt hi < a.areaOverlap b)
    (hist : List α) (hh : ∀ d ∈ hist, lo ≤ d ∧ d ≤ hi) :
    ((overlapOp p a b).run sqrt (runHistory sqrt none hist)).2 = ((overlapOp p a b).run sqrt none).2 :=
  history_indep sqrt hmono (overlapOp p a b) lo hi hp
    (fun e e' he he' => overlap_insensitive a b (sqrt lo) (sqrt hi) e.area e'.area ⟨he.2.2.1, he.2.2.2⟩ ⟨he'.2.2.1, he'.2.2.2⟩ hr)
    hist hh

/-- a quantity `q` compared against a tolerance is *robust* for `[lo, hi]` when it is not strictly inside the band:
    every tolerance of the interval then decides `q < ε` the same way. -/
def OffBand (lo hi q : α) : Prop := q < lo ∨ hi ≤ q

theorem offBand_lt_iff (lo hi q ε ε' : α) (h : lo ≤ ε ∧ ε ≤ hi) (h' : lo ≤ ε' ∧ ε' ≤ hi) (hq : OffBand lo hi q) :
    q < ε ↔ q < ε' := by
  rcases hq with c | c
  · exact ⟨fun _ => lt_of_lt_of_le c h'.1, fun _ => lt_of_lt_of_le c h.1⟩
  · exact ⟨fun d => absurd (lt_of_le_of_lt c d) (not_lt.mpr h.2), fun d => absurd (lt_of_le_of_lt c d) (not_lt.mpr h'.2)⟩

/-- **orthogon recognition is insensitive to the tolerances** on robust inputs: `find_location` (hence every role
    `create_stog` assigns, which are `find_location` answers) is the same for all distance tolerances in `[lo, hi]` and
    area tolerances in `[alo, ahi]`, provided the overlap area, the four side distances and the four extent slacks of the
    pair are off the respective bands. -/
theorem findLocation_insensitive (t r : Rect α) (lo hi alo ahi ε ε' εA εA' : α)
    (h : lo ≤ ε ∧ ε ≤ hi) (h' : lo ≤ ε' ∧ ε' ≤ hi) (ha : alo ≤ εA ∧ εA ≤ ahi) (ha' : alo ≤ εA' ∧ εA' ≤ ahi)
    (hov : t.areaOverlap r ≤ alo ∨ ahi < t.areaOverlap r)
    (hn : OffBand lo hi |t.ymax - r.ymin|) (hs : OffBand lo hi |t.ymin - r.ymax|)
    (he : OffBand lo hi |t.xmax - r.xmin|) (hw : OffBand lo hi |t.xmin - r.xmax|)
    (hx0 : OffBand lo hi (t.xmin - r.xmin)) (hx1 : OffBand lo hi (r.xmax - t.xmax))
    (hy0 : OffBand lo hi (t.ymin - r.ymin)) (hy1 : OffBand lo hi (r.ymax - t.ymax)) :
    Stog.findLocation ε εA t r = Stog.findLocation ε' εA' t r := by
  rw [Stog.findLocation_eq, Stog.findLocation_eq]
  have e0 : (εA < t.areaOverlap r) ↔ (εA' < t.areaOverlap r) := by
    rcases hov with c | c
    · exact ⟨fun d => absurd (lt_of_lt_of_le d c) (not_lt.mpr ha.1), fun d => absurd (lt_of_lt_of_le d c) (not_lt.mpr ha'.1)⟩
    · exact ⟨fun _ => lt_of_le_of_lt ha'.2 c, fun _ => lt_of_le_of_lt ha.2 c⟩
  have e1 := offBand_lt_iff lo hi _ ε ε' h h' hn
  have e2 := offBand_lt_iff lo hi _ ε ε' h h' hs
  have e3 := offBand_lt_iff lo hi _ ε ε' h h' he
  have e4 := offBand_lt_iff lo hi _ ε ε' h h' hw
  have f1 : (t.xmin - ε < r.xmin) ↔ (t.xmin - ε' < r.xmin) := by
    have := offBand_lt_iff lo hi _ ε ε' h h' hx0
    constructor <;> intro d <;> [have := this.1 (by linarith); have := this.2 (by linarith)] <;> linarith
  have f2 : (r.xmax < t.xmax + ε) ↔ (r.xmax < t.xmax + ε') := by
    have := offBand_lt_iff lo hi _ ε ε' h h' hx1
    constructor <;> intro d <;> [have := this.1 (by linarith); have := this.2 (by linarith)] <;> linarith
  have f3 : (t.ymin - ε < r.ymin) ↔ (t.ymin - ε' < r.ymin) := by
    have := offBand_lt_iff lo hi _ ε ε' h h' hy0
    constructor <;> intro d <;> [have := this.1 (by linarith); have := this.2 (by linarith)] <;> linarith
  have f4 : (r.ymax < t.ymax + ε) ↔ (r.ymax < t.ymax + ε') := by
    have := offBand_lt_iff lo hi _ ε ε' h h' hy1
    constructor <;> intro d <;> [have := this.1 (by linarith); have := this.2 (by linarith)] <;> linarith
  simp only [e0, e1, e2, e3, e4, f1, f2, f3, f4]

/-- the same as an operation reading the process state, after any history. -/
def findLocationOp (proposal : α) (t r : Rect α) : EpsOp α Loc := ⟨proposal, fun e => Stog.findLocation e.dist e.area t r⟩

theorem findLocation_history_indep_partial (sqrt : α → α) (hmono : ∀ x y, x ≤ y → sqrt x ≤ sqrt y) (p lo hi : α) (t r : Rect α)
    (hp : lo ≤ p ∧ p ≤ hi)
    (hov : t.areaOverlap r ≤ sqrt lo ∨ sqrt hi < t.areaOverlap r)
    (hn : OffBand lo hi |t.ymax - r.ymin|) (hs : OffBand lo hi |t.ymin - r.ymax|)
    (he : OffBand lo hi |t.xmax - r.xmin|) (hw : OffBand lo hi |t.xmin - r.xmax|)
    (hx0 : OffBand lo hi (t.xmin - r.xmin)) (hx1 : OffBand lo hi (r.xmax - t.xmax))
    (hy0 : OffBand lo hi (t.ymin - r.ymin)) (hy1 : OffBand lo hi (r.ymax - t.ymax))
    (hist : List α) (hh : ∀ d ∈ hist, lo ≤ d ∧ d ≤ hi) :
    ((findLocationOp p t r).run sqrt (runHistory sqrt none hist)).2 = ((findLocationOp p t r).run sqrt none).2 :=
  history_indep sqrt hmono (findLocationOp p t r) lo hi hp
    (fun e e' he' he'' => findLocation_insensitive t r lo hi (sqrt lo) (sqrt hi) e.dist e'.dist e.area e'.area
      ⟨he'.1, he'.2.1⟩ ⟨he''.1, he''.2.1⟩ ⟨he'.2.2.1, he'.2.2.2⟩ ⟨he''.2.2.1, he''.2.2.2⟩ hov hn hs he hw hx0 hx1 hy0 hy1)
    hist hh

/-- **boundary gathering is insensitive to the tolerance** on robust inputs: the ε-deduplication of
    `gather_boundaries` (which decides the Hanan grid of a die and the cut lines of `griddify`) keeps the same
    coordinates for every tolerance of `[lo, hi]` when no two gathered coordinates differ by an amount inside the band. -/
theorem uniqEps_insensitive (lo hi ε ε' : α) (h : lo ≤ ε ∧ ε ≤ hi) (h' : lo ≤ ε' ∧ ε' ≤ hi) (l : List α)
    (hr : ∀ u ∈ l, ∀ v ∈ l, v - u ≤ lo ∨ hi < v - u) : FV.Alloc.uniqEps ε l = FV.Alloc.uniqEps ε' l := by
  have key : ∀ (l acc : List α), (∀ u ∈ acc ++ l, ∀ v ∈ acc ++ l, v - u ≤ lo ∨ hi < v - u) →
      FV.Alloc.uniqEpsRev ε l acc = FV.Alloc.uniqEpsRev ε' l acc := by
    intro l
    induction l with
    | nil => intro acc _; rfl
    | cons v vs ih =>
      intro acc hacc
      cases acc with
      | nil =>
        simp only [FV.Alloc.uniqEpsRev]
        exact ih [v] (by simpa using hacc)
      | cons last acc =>
        simp only [FV.Alloc.uniqEpsRev]
        have hb : (last + ε < v) ↔ (last + ε' < v) := by
          have := hacc last (by simp) v (by simp)
          rcases this with c | c
          · constructor <;> intro d <;> exfalso <;> linarith [h.1, h'.1]
          · constructor <;> intro _ <;> linarith [h.2, h'.2]
        by_cases hc : last + ε < v
        · have hc' := hb.1 hc
          simp only [hc, hc', ↓reduceIte]
          apply ih
          intro u hu w hw
          apply hacc <;> (simp only [List.mem_append, List.mem_cons] at *; tauto)
        · have hc' : ¬ (last + ε' < v) := fun d => hc (hb.2 d)
          simp only [hc, hc', ↓reduceIte]
          apply ih
          intro u hu w hw
          apply hacc <;> (simp only [List.mem_append, List.mem_cons] at *; tauto)
  unfold FV.Alloc.uniqEps
  rw [key l [] (by simpa using hr)]

end ordered

/-! ### region decomposition -/

section die
open FV.Die FV.C01
variable [Field α] [LinearOrder α] [IsStrictOrderedRing α]

/-- **the die decomposition does not depend on the history**: the C01 model threads the class-wide tolerance state `st`
    that earlier operations left behind.  For ANY two such states (any two histories, including the fresh process
    `none`) whose distance tolerances are at most `εmax`, a description valid for `εmax` (regions inside, disjoint,
    boundary coordinates separated by more than `εmax`) and the same admissible pick order: the constructor returns
    under both histories and reports the SAME object — same ground, specialised, blockage and fixed regions — an exact
    tiling.  (`C01.die_output_insensitive`: the Hanan grid and the cell matrix do not depend on the tolerance inside
    the separated band.) -/
theorem die_verdict_history_indep (sqrt : α → α) (st st' : Option (α × α)) (doc : YV α) (fixed : List (Rect α))
    (inp : DieIn α) (hp : parseDie doc = .ok inp) (εmax : α) (hv : ValidDie εmax inp fixed)
    (h1 : 0 ≤ (mkEps sqrt st inp.W inp.H).1.d ∧ (mkEps sqrt st inp.W inp.H).1.d ≤ εmax ∧
        0 ≤ (mkEps sqrt st inp.W inp.H).1.a)
    (h2 : 0 ≤ (mkEps sqrt st' inp.W inp.H).1.d ∧ (mkEps sqrt st' inp.W inp.H).1.d ≤ εmax ∧
        0 ≤ (mkEps sqrt st' inp.W inp.H).1.a)
    (picks : List IRect)
    (hacc : coverAccept ((gridOf (mkEps sqrt st inp.W inp.H).1 inp fixed).2.length - 1)
      ((gridOf (mkEps sqrt st inp.W inp.H).1 inp fixed).1.length - 1)
      (occ (gridOf (mkEps sqrt st inp.W inp.H).1 inp fixed).1 (gridOf (mkEps sqrt st inp.W inp.H).1 inp fixed).2
        (occRects inp fixed)) picks = true) :
    ∃ out e s e' s', dieModel sqrt st doc fixed (some picks) = .ok (out, e, s) ∧
      dieModel sqrt st' doc fixed (some picks) = .ok (out, e', s') ∧ ExactTiling out := by
  obtain ⟨_, out, r1, r2, ht⟩ := FV.C01.die_output_insensitive sqrt st st' doc fixed inp hp εmax hv
    h1.1 h1.2.1 h1.2.2 h2.1 h2.2.1 h2.2.2 picks hacc
  exact ⟨out, _, _, _, _, r1, r2, ht⟩

/-- the same for the constructor run with the model's own deterministic cover: both histories return the same object. -/
theorem die_decomposition_history_indep (sqrt : α → α) (st st' : Option (α × α)) (doc : YV α) (fixed : List (Rect α))
    (inp : DieIn α) (hp : parseDie doc = .ok inp) (εmax : α) (hv : ValidDie εmax inp fixed)
    (h1 : 0 ≤ (mkEps sqrt st inp.W inp.H).1.d ∧ (mkEps sqrt st inp.W inp.H).1.d ≤ εmax ∧
        0 ≤ (mkEps sqrt st inp.W inp.H).1.a)
    (h2 : 0 ≤ (mkEps sqrt st' inp.W inp.H).1.d ∧ (mkEps sqrt st' inp.W inp.H).1.d ≤ εmax ∧
        0 ≤ (mkEps sqrt st' inp.W inp.H).1.a) :
    ∃ out e s e' s', dieModel sqrt st doc fixed none = .ok (out, e, s) ∧
      dieModel sqrt st' doc fixed none = .ok (out, e', s') ∧ ExactTiling out := by
  obtain ⟨out, r1, r2, ht⟩ := FV.C01.die_output_insensitive_det sqrt st st' doc fixed inp hp εmax hv
    h1.1 h1.2.1 h1.2.2 h2.1 h2.2.1 h2.2.2
  exact ⟨out, _, _, _, _, r1, r2, ht⟩

/-- the two models of the duplicate-removal loop of `gather_boundaries` (`Alloc.uniqEps`, reversed accumulator, used by
    C02/C12; `Die.dedupe`, used by C01) are the same function on lists, so `uniqEps_insensitive` speaks about both. -/
theorem uniqEps_eq_dedupe (ε : α) (l : List α) : FV.Alloc.uniqEps ε l = FV.Die.dedupe ε none l := by
  have key : ∀ (l : List α) (last : α) (rest : List α),
      (FV.Alloc.uniqEpsRev ε l (last :: rest)).reverse = (last :: rest).reverse ++ FV.Die.dedupe ε (some last) l := by
    intro l
    induction l with
    | nil => intro last rest; simp [FV.Alloc.uniqEpsRev, FV.Die.dedupe]
    | cons v vs ih =>
      intro last rest
      simp only [FV.Alloc.uniqEpsRev, FV.Die.dedupe]
      split
      · rw [ih]; simp
      · rw [ih]
  cases l with
  | nil => simp [FV.Alloc.uniqEps, FV.Alloc.uniqEpsRev, FV.Die.dedupe]
  | cons v vs => simp [FV.Alloc.uniqEps, FV.Alloc.uniqEpsRev, FV.Die.dedupe, key]

/-- the same with ONE validity hypothesis at the largest tolerance any history can leave (`εmax`): every tolerance state
    whose distance tolerance is `≤ εmax` — whatever sequence of designs produced it — accepts the description with an
    exact tiling.  This is the form that matches the property's "designs within ×1000 in scale": take `εmax` =
    1000 × the die's own proposal. -/
theorem die_verdict_any_history (sqrt : α → α) (doc : YV α) (fixed : List (Rect α)) (inp : DieIn α)
    (hp : parseDie doc = .ok inp) (εmax : α) (hv : ValidDie εmax inp fixed)
    (st : Option (α × α))
    (h0 : 0 ≤ (mkEps sqrt st inp.W inp.H).1.d) (hle : (mkEps sqrt st inp.W inp.H).1.d ≤ εmax)
    (ha : 0 ≤ (mkEps sqrt st inp.W inp.H).1.a) (picks : List IRect)
    (hacc : coverAccept ((gridOf (mkEps sqrt st inp.W inp.H).1 inp fixed).2.length - 1)
      ((gridOf (mkEps sqrt st inp.W inp.H).1 inp fixed).1.length - 1)
      (occ (gridOf (mkEps sqrt st inp.W inp.H).1 inp fixed).1 (gridOf (mkEps sqrt st inp.W inp.H).1 inp fixed).2
        (occRects inp fixed)) picks = true) :
    ∃ out e s, dieModel sqrt st doc fixed (some picks) = .ok (out, e, s) ∧ ExactTiling out := by
  obtain ⟨o, e, t, _⟩ := FV.C01.die_complete_inherited sqrt st doc fixed inp hp εmax h0 hle ha hv picks hacc
  exact ⟨o, _, _, e, t⟩

/-! #### the die verdict after a HISTORY (states reachable by `runHistory`, not arbitrary tolerance states) -/

/-- the class-wide pair `Die.__init__` finds, for a tolerance state of the process model -/
def dieState (g : GEps α) : Option (α × α) := g.map fun e => (e.dist, e.area)

/-- after a history of designs the die constructor works with the tolerance `probeEps` says: the first proposal of the
    history, or its own proposal `min(W, H) * 10e-12` in a fresh process -/
theorem mkEps_after_history (sqrt : α → α) (hist : List α) (W H : α) :
    (mkEps sqrt (dieState (runHistory sqrt none hist)) W H).1.d = (probeEps sqrt hist (pyMin W H * tenEm11)).dist ∧
    (mkEps sqrt (dieState (runHistory sqrt none hist)) W H).1.a = (probeEps sqrt hist (pyMin W H * tenEm11)).area := by
  rw [runHistory_fresh]
  cases hist with
  | nil => exact ⟨rfl, rfl⟩
  | cons d ds => exact ⟨rfl, rfl⟩

/-- the three side conditions the C01 theorems ask of a tolerance state hold for every state a history can leave, as soon
    as every proposal of the history (and the die's own) lies in `[0, εmax]` and `sqrt` is non-negative there -/
theorem history_state_ok (sqrt : α → α) (hsq : ∀ x, 0 ≤ x → 0 ≤ sqrt x) (hist : List α) (W H εmax : α)
    (hh : ∀ d ∈ hist, 0 ≤ d ∧ d ≤ εmax) (hown : 0 ≤ pyMin W H * tenEm11 ∧ pyMin W H * tenEm11 ≤ εmax) :
    0 ≤ (mkEps sqrt (dieState (runHistory sqrt none hist)) W H).1.d ∧
    (mkEps sqrt (dieState (runHistory sqrt none hist)) W H).1.d ≤ εmax ∧
    0 ≤ (mkEps sqrt (dieState (runHistory sqrt none hist)) W H).1.a := by
  obtain ⟨e1, e2⟩ := mkEps_after_history sqrt hist W H
  rw [e1, e2]
  cases hist with
  | nil => exact ⟨hown.1, hown.2, hsq _ hown.1⟩
  | cons d ds =>
    have := hh d (List.mem_cons_self ..)
    exact ⟨this.1, this.2, hsq _ this.1⟩

/-- **die_verdict_after_history**: `die_verdict_any_history` for the states that histories actually produce.  After ANY
    sequence of designs whose proposed tolerances lie in `[0, εmax]` (for designs within ×1000 in scale: `εmax` =
    1000 × the die's own proposal), a description valid at `εmax` is accepted with an exact tiling. -/
theorem die_verdict_after_history (sqrt : α → α) (hsq : ∀ x, 0 ≤ x → 0 ≤ sqrt x) (doc : YV α) (fixed : List (Rect α))
    (inp : DieIn α) (hp : parseDie doc = .ok inp) (εmax : α) (hv : ValidDie εmax inp fixed)
    (hist : List α) (hh : ∀ d ∈ hist, 0 ≤ d ∧ d ≤ εmax)
    (hown : 0 ≤ pyMin inp.W inp.H * tenEm11 ∧ pyMin inp.W inp.H * tenEm11 ≤ εmax) (picks : List IRect)
    (hacc : coverAccept ((gridOf (mkEps sqrt (dieState (runHistory sqrt none hist)) inp.W inp.H).1 inp fixed).2.length - 1)
      ((gridOf (mkEps sqrt (dieState (runHistory sqrt none hist)) inp.W inp.H).1 inp fixed).1.length - 1)
      (occ (gridOf (mkEps sqrt (dieState (runHistory sqrt none hist)) inp.W inp.H).1 inp fixed).1
        (gridOf (mkEps sqrt (dieState (runHistory sqrt none hist)) inp.W inp.H).1 inp fixed).2 (occRects inp fixed)) picks = true) :
    ∃ out e s, dieModel sqrt (dieState (runHistory sqrt none hist)) doc fixed (some picks) = .ok (out, e, s) ∧
      ExactTiling out := by
  obtain ⟨h0, hle, ha⟩ := history_state_ok sqrt hsq hist inp.W inp.H εmax hh hown
  exact die_verdict_any_history sqrt doc fixed inp hp εmax hv _ h0 hle ha picks hacc

/-- **same decomposition after any two histories** (in particular: after any history and in a fresh process, `hist' = []`):
    the constructor returns under both and reports the SAME regions. -/
theorem die_decomposition_after_histories (sqrt : α → α) (hsq : ∀ x, 0 ≤ x → 0 ≤ sqrt x) (doc : YV α)
    (fixed : List (Rect α)) (inp : DieIn α) (hp : parseDie doc = .ok inp) (εmax : α) (hv : ValidDie εmax inp fixed)
    (hist hist' : List α) (hh : ∀ d ∈ hist, 0 ≤ d ∧ d ≤ εmax) (hh' : ∀ d ∈ hist', 0 ≤ d ∧ d ≤ εmax)
    (hown : 0 ≤ pyMin inp.W inp.H * tenEm11 ∧ pyMin inp.W inp.H * tenEm11 ≤ εmax) :
    ∃ out e s e' s', dieModel sqrt (dieState (runHistory sqrt none hist)) doc fixed none = .ok (out, e, s) ∧
      dieModel sqrt (dieState (runHistory sqrt none hist')) doc fixed none = .ok (out, e', s') ∧ ExactTiling out :=
  die_decomposition_history_indep sqrt _ _ doc fixed inp hp εmax hv
    (history_state_ok sqrt hsq hist inp.W inp.H εmax hh hown) (history_state_ok sqrt hsq hist' inp.W inp.H εmax hh' hown)

/-- the duplicate-removal loop of `Die.gather_boundaries` itself (`Die.dedupe`) is insensitive to the tolerance on robust
    coordinate lists (`uniqEps_insensitive` carried over by `uniqEps_eq_dedupe`). -/
theorem dedupe_insensitive (lo hi ε ε' : α) (h : lo ≤ ε ∧ ε ≤ hi) (h' : lo ≤ ε' ∧ ε' ≤ hi) (l : List α)
    (hr : ∀ u ∈ l, ∀ v ∈ l, v - u ≤ lo ∨ hi < v - u) : FV.Die.dedupe ε none l = FV.Die.dedupe ε' none l := by
  rw [← uniqEps_eq_dedupe, ← uniqEps_eq_dedupe]
  exact uniqEps_insensitive lo hi ε ε' h h' l hr

/-! applied: `die7` of the repository's tests with its netlist, fresh process vs an inherited tolerance `1/1000`
    (seven orders of magnitude above the die's own `9e-11`): same decomposition. -/
private def doc7 : YV ℚ := .map [("width", .num 10), ("height", .num 9),
  ("regions", .list [.list [.num 6, .num (15/2), .num 4, .num 1, .str "reg1"],
                     .list [.num 7, .num (3/2), .num 2, .num 3, .str "reg2"],
                     .list [.num 3, .num (7/2), .num 2, .num 3, .str "#"]])]
private def fixed7 : List (Rect ℚ) := [⟨2, 7, 2, 2, "_", true, true, .nopoly⟩, ⟨8, 11/2, 2, 1, "_", true, true, .nopoly⟩]
private def inp7 : DieIn ℚ := { W := 10, H := 9, regions := [⟨6, 15/2, 4, 1, "reg1", false, false, .nopoly⟩,
  ⟨7, 3/2, 2, 3, "reg2", false, false, .nopoly⟩, ⟨3, 7/2, 2, 3, "#", false, false, .nopoly⟩] }

example : ∃ out e s e' s', dieModel (fun _ => (1 : ℚ)) none doc7 fixed7 none = .ok (out, e, s) ∧
    dieModel (fun _ => (1 : ℚ)) (some (1/1000, 1/10)) doc7 fixed7 none = .ok (out, e', s') ∧ ExactTiling out :=
  die_decomposition_history_indep (fun _ => (1 : ℚ)) none (some (1/1000, 1/10)) doc7 fixed7 inp7
    (by with_unfolding_all rfl) (1/1000)
    (by
      constructor
      · decide +kernel
      · decide +kernel
      · decide +kernel
      · unfold Die.Sep; decide +kernel
      · unfold Die.Sep; decide +kernel)
    ⟨by decide +kernel, by decide +kernel, by decide +kernel⟩ ⟨by decide +kernel, by decide +kernel, by decide +kernel⟩

/-- `die_decomposition_after_histories` applied to `die7`: a history of three designs proposing `1/2000`, `1/5`, `3`
    (only the first one counts — it is the one that sticks) vs the fresh process. -/
example : ∃ out e s e' s',
    dieModel (fun _ => (1 : ℚ)) (dieState (runHistory (fun _ => (1 : ℚ)) none [1/2000, 1/1000, 0])) doc7 fixed7 none = .ok (out, e, s) ∧
    dieModel (fun _ => (1 : ℚ)) (dieState (runHistory (fun _ => (1 : ℚ)) none [])) doc7 fixed7 none = .ok (out, e', s') ∧
    ExactTiling out :=
  die_decomposition_after_histories (fun _ => (1 : ℚ)) (fun _ _ => by norm_num) doc7 fixed7 inp7 (by with_unfolding_all rfl) (1/1000)
    (by
      constructor
      · decide +kernel
      · decide +kernel
      · decide +kernel
      · unfold Die.Sep; decide +kernel
      · unfold Die.Sep; decide +kernel)
    [1/2000, 1/1000, 0] []
    (by intro d hd; simp only [List.mem_cons, List.mem_nil_iff, or_false] at hd; rcases hd with rfl | rfl | rfl <;> norm_num)
    (by intro d hd; simp at hd)
    ⟨by decide +kernel, by decide +kernel⟩

/-- `die_verdict_after_history` applied to `die7` after a history of two designs proposing `1/2000` and `1/1000`, with a
    pick trace admissible on the grid that state produces (`C01.cover_exists`: one always exists). -/
example : ∃ picks out e s, dieModel (fun _ => (1 : ℚ)) (dieState (runHistory (fun _ => (1 : ℚ)) none [1/2000, 1/1000])) doc7 fixed7
      (some picks) = .ok (out, e, s) ∧ ExactTiling out := by
  obtain ⟨picks, hacc⟩ := FV.C01.cover_exists
    ((gridOf (mkEps (fun _ => (1 : ℚ)) (dieState (runHistory (fun _ => (1 : ℚ)) none [1/2000, 1/1000])) inp7.W inp7.H).1 inp7 fixed7).2.length - 1)
    ((gridOf (mkEps (fun _ => (1 : ℚ)) (dieState (runHistory (fun _ => (1 : ℚ)) none [1/2000, 1/1000])) inp7.W inp7.H).1 inp7 fixed7).1.length - 1)
    (occ (gridOf (mkEps (fun _ => (1 : ℚ)) (dieState (runHistory (fun _ => (1 : ℚ)) none [1/2000, 1/1000])) inp7.W inp7.H).1 inp7 fixed7).1
      (gridOf (mkEps (fun _ => (1 : ℚ)) (dieState (runHistory (fun _ => (1 : ℚ)) none [1/2000, 1/1000])) inp7.W inp7.H).1 inp7 fixed7).2
      (occRects inp7 fixed7))
  exact ⟨picks, die_verdict_after_history (fun _ => (1 : ℚ)) (fun _ _ => by norm_num) doc7 fixed7 inp7 (by with_unfolding_all rfl) (1/1000)
    (by
      constructor
      · decide +kernel
      · decide +kernel
      · decide +kernel
      · unfold Die.Sep; decide +kernel
      · unfold Die.Sep; decide +kernel)
    [1/2000, 1/1000]
    (by intro d hd; simp only [List.mem_cons, List.mem_nil_iff, or_false] at hd; rcases hd with rfl | rfl <;> norm_num)
    ⟨by decide +kernel, by decide +kernel⟩ picks hacc⟩

/-- `dedupe_insensitive` applied: the x boundaries of `die7` with its fixed rectangles (a duplicate at 5, at 7 and at 9). -/
example : FV.Die.dedupe (9/100000000000 : ℚ) none [0, 1, 3, 5, 5, 7, 7, 9, 9, 10] =
    FV.Die.dedupe (1/1000) none [0, 1, 3, 5, 5, 7, 7, 9, 9, 10] :=
  dedupe_insensitive (9/100000000000) (1/1000) _ _ (by norm_num) (by norm_num) _ (by decide +kernel)

end die

/-! ### the process-wide ROBDD store (second piece of surviving state) -/

section store
open FV.PB FV.Sat FV.Proc

/-- **constraint encoding is history independent**: whatever inequalities earlier managers of the process encoded
    (histories `h`, `h'` of `getrobdd` calls growing the shared store — including none), a fresh manager that is posted
    the same constraints restricts the user's variables to exactly the same assignments.  (Corollary of
    `C07.store_history_wf` and `C07.post_history_exact`: the meaning of an encoding does not depend on the store it
    starts from; the clause text differs only in the numbering of diagram nodes.) -/
theorem encoding_history_indep (h h' : List (Ineq Var × Bool))
    (hpos : ∀ qd ∈ h, ∀ t ∈ qd.1.lhs.t, 0 < t.c) (hpos' : ∀ qd ∈ h', ∀ t ∈ qd.1.lhs.t, 0 < t.c)
    {ps : List Post} {m m2 : Mgr} {S S2 : Store Var}
    (r : Run {} (storeRun h Store.init) ps m S) (r' : Run {} (storeRun h' Store.init) ps m2 S2)
    (hps : ∀ p ∈ ps, p.WF) (σ : Var → Bool) :
    (∃ τ, (∀ v, isUser v → τ v = σ v) ∧ cnfTrue τ m.clauses) ↔
    (∃ τ, (∀ v, isUser v → τ v = σ v) ∧ cnfTrue τ m2.clauses) := by
  rw [FV.C07.post_history_exact (FV.C07.store_history_wf h hpos).1 r hps σ,
    FV.C07.post_history_exact (FV.C07.store_history_wf h' hpos').1 r' hps σ]

/-! #### the whole interpreter: several managers alive at once, operations interleaved, one store

  `FV.Proc.SatProc` (Model/SatProc.lean) threads `pseudobool.memory / mmap` through the operations of ANY number of
  `SATManager` objects.  The theorems below quantify over every interleaved history of postings, `newvar` and `solve`
  calls of all managers (refused operations included). -/

/-- **No manager's encoding depends on what any OTHER manager did before or in between.**  After an arbitrary
    interleaved history of the process, the clause set of manager `i` restricts the user variables to exactly the
    assignments that satisfy the encodable constraints manager `i` itself was handed (`ownPosts i ops` — a function of
    the operation list alone, no process state in it). -/
theorem sat_process_exact (n : Nat) (ops : List SatOp) (hwf : ∀ op ∈ ops, op.WF) (i : Nat) (m : Mgr)
    (hm : ((SatProc.init n).run ops).mgrs[i]? = some m) (σ : Var → Bool) :
    (∃ τ, (∀ v, isUser v → τ v = σ v) ∧ cnfTrue τ m.clauses) ↔ ∀ p ∈ ownPosts i ops, p.holds σ := by
  have inv : MInv ((SatProc.init n).run ops).store m (ownPosts i ops) := by
    simpa using (pinv_run ops _ _ (pinv_init n) hwf).minv i m hm
  have hpw : ∀ p ∈ ownPosts i ops, p.WF := by
    clear hm inv
    induction ops with
    | nil => intro p hp; simp [ownPosts] at hp
    | cons op r ih =>
      intro p hp
      have ihr := ih (fun o ho => hwf o (by simp [ho]))
      cases op with
      | newvar j v => exact ihr p (by simpa [ownPosts] using hp)
      | solve j ans => exact ihr p (by simpa [ownPosts] using hp)
      | post j q =>
        simp only [ownPosts] at hp
        split at hp
        · rcases List.mem_cons.1 hp with rfl | h
          · exact hwf (.post j p) (by simp)
          · exact ihr p h
        · exact ihr p hp
  constructor
  · rintro ⟨τ, hag, hτ⟩ p hp
    exact (holds_congr (hpw p hp) hag).1 (inv.sound τ hτ p hp)
  · intro hσ
    obtain ⟨τ, h1, _, h3⟩ := inv.complete σ hσ
    exact ⟨τ, h1, h3⟩

/-- the shared store stays well formed and append-only through every interleaved history -/
theorem sat_process_store (n : Nat) (ops : List SatOp) (hwf : ∀ op ∈ ops, op.WF) :
    WFStore ((SatProc.init n).run ops).store ∧ (Store.init : Store Var).le ((SatProc.init n).run ops).store :=
  ⟨(pinv_run ops _ _ (pinv_init n) hwf).wf, (pinv_run ops _ _ (pinv_init n) hwf).le0⟩

/-- **the accept / refuse verdict is history independent**: after any interleaved history, manager `i` accepts a
    well-formed constraint iff it is `acceptable` — a property of the constraint alone (chain width ≥ 3; an inequality
    that is a clause, a tautology, or normalises to `>=`). -/
theorem sat_verdict_history_indep (n : Nat) (ops : List SatOp) (hwf : ∀ op ∈ ops, op.WF) (i : Nat) (hi : i < n)
    (p : Post) (hp : p.WF) : (((SatProc.init n).run ops).step (.post i p)).2 = acceptable p := by
  have hlen : ((SatProc.init n).run ops).mgrs.length = n := by simp [run_length, SatProc.init]
  have hlt : i < ((SatProc.init n).run ops).mgrs.length := by omega
  have hm : ((SatProc.init n).run ops).mgrs[i]? = some (((SatProc.init n).run ops).mgrs[i]) := List.getElem?_eq_getElem hlt
  have inv := (pinv_run ops _ _ (pinv_init n) hwf).minv i _ hm
  simp only [SatProc.step, hm]
  cases hr : Mgr.post (((SatProc.init n).run ops).mgrs[i]) ((SatProc.init n).run ops).store p with
  | ok r =>
    obtain ⟨m', S'⟩ := r
    exact ((post_ok_iff_acceptable inv p hp).1 ⟨m', S', hr⟩).symm
  | error e =>
    cases ha : acceptable p with
    | false => rfl
    | true =>
      obtain ⟨m', S', hok⟩ := (post_ok_iff_acceptable inv p hp).2 ha
      rw [hok] at hr; simp at hr

/-- **constraint encoding is the same whether first or after arbitrary operations of OTHER managers.**  `hist`, `hist'`
    are any two interleaved histories of the process in which manager `i` was handed no encodable constraint (it may
    have registered variables; every other manager may have done anything, also while the probe runs: `probe` is again an
    arbitrary interleaving); `hist' = []` is the fresh interpreter.  The clause sets manager `i` ends with admit exactly
    the same assignments of the user variables. -/
theorem encoding_multi_manager_history_indep (n : Nat) (hist hist' probe : List SatOp)
    (hh : ∀ op ∈ hist, op.WF) (hh' : ∀ op ∈ hist', op.WF) (hpr : ∀ op ∈ probe, op.WF) (i : Nat)
    (hi : ownPosts i hist = []) (hi' : ownPosts i hist' = []) (m m' : Mgr)
    (hm : ((SatProc.init n).run (hist ++ probe)).mgrs[i]? = some m)
    (hm' : ((SatProc.init n).run (hist' ++ probe)).mgrs[i]? = some m') (σ : Var → Bool) :
    (∃ τ, (∀ v, isUser v → τ v = σ v) ∧ cnfTrue τ m.clauses) ↔
    (∃ τ, (∀ v, isUser v → τ v = σ v) ∧ cnfTrue τ m'.clauses) := by
  have w1 : ∀ op ∈ hist ++ probe, op.WF := by
    intro op ho; rcases List.mem_append.1 ho with h | h; exact hh op h; exact hpr op h
  have w2 : ∀ op ∈ hist' ++ probe, op.WF := by
    intro op ho; rcases List.mem_append.1 ho with h | h; exact hh' op h; exact hpr op h
  rw [sat_process_exact n _ w1 i m hm σ, sat_process_exact n _ w2 i m' hm' σ, ownPosts_append, ownPosts_append, hi, hi']

/-! applied: two managers of one interpreter.  Manager 1 encodes `2x + 3y + 2¬z ≥ 4` with coefficient decomposition,
    then manager 0 encodes the same inequality with the plain construction (it reuses the four store nodes manager 1 made), manager 1 is
    refused a chain of width 2, manager 0 adds the clause `x`, manager 1 a pairwise at-most-one. -/
def demoOps : List SatOp :=
  [.newvar 0 (.user "def_x"), .post 1 (.pb FV.C07.q1 true), .post 0 (.pb FV.C07.q1 false),
   .post 1 (.amoH 2 [FV.C07.x, FV.C07.y]), .post 0 (.clause [FV.C07.x]), .post 1 (.amoQ [FV.C07.x, FV.C07.y]),
   .solve 0 none]

theorem demoOps_wf : ∀ op ∈ demoOps, op.WF := by
  intro op ho
  simp only [demoOps, List.mem_cons, List.mem_nil_iff, or_false] at ho
  rcases ho with rfl | rfl | rfl | rfl | rfl | rfl | rfl
  · trivial
  · exact FV.C07.Scenario.q1_wf true
  · exact FV.C07.Scenario.q1_wf false
  · intro l hl
    simp only [List.mem_cons, List.mem_nil_iff, or_false] at hl
    rcases hl with rfl | rfl <;> trivial
  · intro l hl
    simp only [List.mem_cons, List.mem_nil_iff, or_false] at hl
    subst hl; trivial
  · intro l hl
    simp only [List.mem_cons, List.mem_nil_iff, or_false] at hl
    rcases hl with rfl | rfl <;> trivial
  · trivial

/-- what the run does (kernel-evaluated): verdicts, store size, clause counts of both managers, constraints counted -/
example : SatProc.verdicts (SatProc.init 2) demoOps = [true, true, true, false, true, true, true] ∧
    ((SatProc.init 2).run demoOps).store.memory.length = 6 ∧
    ((SatProc.init 2).run demoOps).mgrs.map (·.clauses.length) = [12, 12] ∧
    (ownPosts 0 demoOps).length = 2 ∧ (ownPosts 1 demoOps).length = 2 := by decide +kernel

/-- `sat_process_exact` applied to it: whatever manager 1 did in between, manager 0's clause set admits exactly the
    assignments with `2x + 3y + 2¬z ≥ 4` and `x`. -/
example (m : Mgr) (hm : ((SatProc.init 2).run demoOps).mgrs[0]? = some m) (σ : Var → Bool) :
    (∃ τ, (∀ v, isUser v → τ v = σ v) ∧ cnfTrue τ m.clauses) ↔
    (FV.C07.q1.holds σ ∧ clauseTrue σ [FV.C07.x] = true) := by
  rw [sat_process_exact 2 demoOps demoOps_wf 0 m hm σ]
  have : ownPosts 0 demoOps = [.pb FV.C07.q1 false, .clause [FV.C07.x]] := by
    simp [demoOps, ownPosts, acceptable]
    decide
  rw [this]
  simp [Post.holds]

end store

/-! ### the legaliser registers (third piece of surviving state): `epsilon`, `named_variables`, `debug_print`

  `Model.__init__ → first_build_model → define_time` creates the `time` variable and then INSTALLS a fresh slack
  expression (`set_epsilon`) before any equation is added; every later read (`add_equation`, `get_epsilon`) sees
  that one.  `named_variables` is consulted but never written.  `debug_print` only gates printing. -/

/-- an operation sequence that installs its own slack before reading it (what every model construction does). -/
def selfContained : List RegOp → Bool
  | [] => true
  | .setEpsilon _ :: _ => true
  | .getEpsilon :: _ => false
  | .addEquation _ :: _ => false
  | _ :: rest => selfContained rest

theorem step_names (s : LegalRegs) (op : RegOp) : (op.step s).1.names = s.names := by
  cases op <;> rfl

/-- no operation ever registers a name. -/
theorem runRegs_names (s : LegalRegs) (ops : List RegOp) : (runRegs s ops).1.names = s.names := by
  induction ops generalizing s with
  | nil => rfl
  | cons op ops ih => simp only [runRegs]; rw [ih, step_names]

/-- in every reachable state the name registry is empty … -/
theorem reachable_names_nil (hist : List RegOp) : (runRegs LegalRegs.init hist).1.names = [] :=
  runRegs_names _ _

/-- … so `create_variable` always gives the variable the requested name, whatever happened before. -/
theorem createVariable_keeps_name (hist : List RegOp) (n : String) :
    ((RegOp.createVariable n).step (runRegs LegalRegs.init hist).1).2 = .name n := by
  simp [RegOp.step, reachable_names_nil, freshName]

/-- two register states that agree on the installed slack and on the names give the same results (they may differ in
    the debug mask, which only gates printing) and keep agreeing. -/
theorem results_agree (ops : List RegOp) (s s' : LegalRegs) (he : s.eps = s'.eps) (hn : s.names = s'.names) :
    results (runRegs s ops).2 = results (runRegs s' ops).2 ∧
    (runRegs s ops).1.eps = (runRegs s' ops).1.eps := by
  induction ops generalizing s s' with
  | nil => exact ⟨rfl, he⟩
  | cons op ops ih =>
    have hstep : (op.step s).1.eps = (op.step s').1.eps ∧ (op.step s).1.names = (op.step s').1.names ∧
        results [(op.step s).2] = results [(op.step s').2] := by
      cases op <;> simp [RegOp.step, he, hn, results, RegOut.isResult]
    obtain ⟨h1, h2, h3⟩ := hstep
    obtain ⟨ih1, ih2⟩ := ih _ _ h1 h2
    refine ⟨?_, by simpa only [runRegs] using ih2⟩
    simp only [runRegs, results, List.filter_cons] at ih1 h3 ⊢
    rw [ih1]
    cases h : (op.step s).2 <;> cases h' : (op.step s').2 <;> simp_all [RegOut.isResult]

/-- a self-contained sequence gives the same results from any two states with the same names. -/
theorem selfContained_indep (b : List RegOp) (hb : selfContained b = true) (s s' : LegalRegs)
    (hn : s.names = s'.names) : results (runRegs s b).2 = results (runRegs s' b).2 := by
  induction b generalizing s s' with
  | nil => rfl
  | cons op ops ih =>
    cases op with
    | setEpsilon t =>
      have := (results_agree ops (( RegOp.setEpsilon t).step s).1 ((RegOp.setEpsilon t).step s').1 rfl hn).1
      simpa [runRegs, results, RegOp.step, RegOut.isResult, List.filter_cons] using this
    | getEpsilon => simp [selfContained] at hb
    | addEquation h => simp [selfContained] at hb
    | createVariable n =>
      have := ih (by simpa [selfContained] using hb) s s' hn
      simp only [runRegs, results, RegOp.step, List.filter_cons, hn] at this ⊢
      rw [this]
    | turnOff f =>
      have := ih (by simpa [selfContained] using hb) ((RegOp.turnOff f).step s).1 ((RegOp.turnOff f).step s').1 hn
      simpa [runRegs, results, RegOp.step, RegOut.isResult, List.filter_cons] using this
    | turnOn f =>
      have := ih (by simpa [selfContained] using hb) ((RegOp.turnOn f).step s).1 ((RegOp.turnOn f).step s').1 hn
      simpa [runRegs, results, RegOp.step, RegOut.isResult, List.filter_cons] using this
    | debug f =>
      have := ih (by simpa [selfContained] using hb) s s' hn
      simpa [runRegs, results, RegOp.step, RegOut.isResult, List.filter_cons] using this

/-- **legal_build_history_indep**: whatever register operations the process executed before (earlier model
    constructions, `turn_off_flag`, solves reading the slack, …), a self-contained sequence — every legaliser model
    construction is one — produces the results it produces in a fresh process. -/
theorem legal_build_history_indep (hist b : List RegOp) (hb : selfContained b = true) :
    results (runRegs (runRegs LegalRegs.init hist).1 b).2 = results (runRegs LegalRegs.init b).2 :=
  selfContained_indep b hb _ _ (reachable_names_nil hist)

/-- why `selfContained` is needed: reading the slack first sees whatever an earlier construction installed. -/
theorem slack_read_depends_on_history :
    results (runRegs (runRegs LegalRegs.init [.setEpsilon 7]).1 [.getEpsilon]).2 ≠
    results (runRegs LegalRegs.init [.getEpsilon]).2 := by decide

/-- non-vacuity: the register trace of a model construction (`define_time` then equations) after a history that
    installed another slack, turned flags off and read. -/
example : selfContained [.createVariable "time", .setEpsilon 2, .addEquation false, .debug 1, .getEpsilon] = true ∧
    results (runRegs (runRegs LegalRegs.init [.setEpsilon 1, .turnOff 1, .getEpsilon]).1
      [.createVariable "time", .setEpsilon 2, .addEquation false, .debug 1, .getEpsilon]).2 =
    [.name "time", .unit, .tag 2, .tag 2] := by decide

/-! ### why the tolerance theorems are `_partial`

  FULL STATEMENT (what the property asks, NOT PROVABLE — it is false of the code, open finding
  `C20-sticky-tolerance-nonrobust-design`):  for every design and every history of designs within ×1000 in scale,
  a tolerance-reading operation answers as in a fresh process.
  The theorems above prove it under the robustness hypotheses (`hr`, `hov`, `OffBand …`), hence `…_partial`.
  The witness below shows the hypothesis cannot be dropped: with a common area of 2 between two rectangles, the
  overlap test answers differently under the area tolerances 1 and 3 — both of which a history can leave behind. -/

/-- kernel-checked witness that the robustness hypothesis is needed. -/
theorem overlap_depends_on_inherited_tolerance :
    overlap (1 : ℚ) ⟨1, 1, 2, 2, "_", false, false, .nopoly⟩ ⟨2, 1, 2, 2, "_", false, false, .nopoly⟩ ≠
    overlap (3 : ℚ) ⟨1, 1, 2, 2, "_", false, false, .nopoly⟩ ⟨2, 1, 2, 2, "_", false, false, .nopoly⟩ := by
  decide +kernel

/-! ### non-vacuity -/
example : (runHistory (fun x : ℚ => x) none [3, 5, 7]).map (·.dist) = some 3 := by decide +kernel
example : (probeEps (fun x : ℚ => x) [3, 5] 9).dist = 3 := by decide +kernel

/-- the hypotheses of `touch_history_indep_partial` are satisfiable on a concrete design + history (identity as the
    monotone `sqrt`, tolerances in [1/100, 1/10], two rectangles 1 apart, history of two designs). -/
example : ((touchOp (1/20 : ℚ) ⟨1, 1, 2, 2, "_", false, false, .nopoly⟩ ⟨4, 1, 2, 2, "_", false, false, .nopoly⟩).run
      (fun x => x) (runHistory (fun x => x) none [1/10, 1/100])).2 =
    ((touchOp (1/20 : ℚ) ⟨1, 1, 2, 2, "_", false, false, .nopoly⟩ ⟨4, 1, 2, 2, "_", false, false, .nopoly⟩).run
      (fun x => x) none).2 :=
  touch_history_indep_partial (fun x => x) (fun _ _ h => h) (1/20) (1/100) (1/10) _ _ (by norm_num)
    (by right; simp only [gap, xmin, xmax, ymin, ymax, two_eq]; norm_num) [1/10, 1/100]
    (by intro d hd; simp only [List.mem_cons, List.mem_nil_iff, or_false] at hd; rcases hd with rfl | rfl <;> norm_num)

/-- `findLocation_history_indep_partial` applied with all hypotheses: trunk [0,4]×[0,2], north branch [1,3]×[2,3],
    history of two designs proposing 1/10 and 1/100. -/
example : ((findLocationOp (1/20 : ℚ) ⟨2, 1, 4, 2, "_", false, true, .nopoly⟩ ⟨2, 5/2, 2, 1, "_", false, true, .nopoly⟩).run
      (fun x => x) (runHistory (fun x => x) none [1/10, 1/100])).2 =
    ((findLocationOp (1/20 : ℚ) ⟨2, 1, 4, 2, "_", false, true, .nopoly⟩ ⟨2, 5/2, 2, 1, "_", false, true, .nopoly⟩).run
      (fun x => x) none).2 :=
  findLocation_history_indep_partial (fun x => x) (fun _ _ h => h) (1/20) (1/100) (1/10) _ _ (by norm_num)
    (by left; decide +kernel)
    (by unfold OffBand; decide +kernel) (by unfold OffBand; decide +kernel) (by unfold OffBand; decide +kernel)
    (by unfold OffBand; decide +kernel) (by unfold OffBand; decide +kernel) (by unfold OffBand; decide +kernel)
    (by unfold OffBand; decide +kernel) (by unfold OffBand; decide +kernel)
    [1/10, 1/100]
    (by intro d hd; simp only [List.mem_cons, List.mem_nil_iff, or_false] at hd; rcases hd with rfl | rfl <;> norm_num)

/-- `uniqEps_insensitive` applied (a list with a duplicate coordinate). -/
example : FV.Alloc.uniqEps (1/100 : ℚ) [0, 1, 1, 3] = FV.Alloc.uniqEps (1/10) [0, 1, 1, 3] :=
  uniqEps_insensitive (1/100) (1/10) (1/100) (1/10) (by norm_num) (by norm_num) [0, 1, 1, 3] (by decide +kernel)

end FV.C20

import FV.Drv.Common
import FV.Model.Force
import FV.Model.Spectral
import FV.Model.Disc
/-
  op table for the placement models: force-directed relocation (C13) and spectral placement (C14).

  Mode `F` runs the models at `Float` with `Float.sqrt` / `Float.pow` (libm, as CPython does); the opaque
  disc-overlap parameter of the force model is instantiated by `discF` = the C17 model `FV.Disc.area` at `Float`
  (so the cost is the composition of the two models); it is never judged here (C17 owns it).  Mode `Q` (exact rationals) is available for the ops that need no
  square root.
-/
namespace FV.Drv
open FV FV.Force FV.Spectral

def opsF : Ops Float where
  sqrt := Float.sqrt
  powHalf := fun x => Float.pow x 0.5
  sq := fun x => Float.pow x 2.0
  pi := 3.141592653589793
  ltInf := fun x => x < (1.0 / 0.0)

/-- `circle_circle_intersection_area` at `Float`: the C17 model itself (`FV/Model/Disc.lean`, executed with the C
    library and the transcription of CPython's `math.hypot`), so that `total_intersection_area` / the cost are the
    composition of the two models; an exception of the disc model (none for finite radii ≥ 0) shows as NaN. -/
def discF (c1 : Float × Float) (r1 : Float) (c2 : Float × Float) (r2 : Float) : Float :=
  match FV.Disc.area FV.Disc.floatFns c1.1 c1.2 r1 c2.1 c2.2 r2 with
  | .ok v => v
  | .error _ => 0.0 / 0.0

variable {α : Type} [Add α] [Sub α] [Mul α] [Div α] [Neg α] [LT α] [LE α]
  [DecidableLT α] [DecidableLE α] [NatCast α] [ScalarIO α]

/-! ### parsers -/

def pFMod : P (Mod α Unit) := do
  let hc ← pBool; let x ← pSc; let y ← pSc; let a ← pSc; let f ← pBool
  pure { center := if hc then some (x, y) else none, area := a, fixed := f, rest := () }

def pFNet : P (Net α) := do
  let pins ← pList pNat; let w ← pSc
  pure { pins, weight := w }

def pInst : P (Inst α Unit) := do
  let W ← pSc; let H ← pSc
  let mods ← pList pFMod
  let nets ← pList pFNet
  pure { W, H, mods, nets }

def pEdge : P (Edge α) := do let n ← pNat; let w ← pSc; pure ⟨n, w⟩
def pAdj : P (List (List (Edge α))) := pList (pList pEdge)
def pVec : P (List α) := pList pSc
def pBools : P (List Bool) := pList pBool

def pSRect : P (SRect α) := do
  let cx ← pSc; let cy ← pSc; let w ← pSc; let h ← pSc
  pure ⟨cx, cy, w, h⟩

def pSMod : P (SMod α Unit) := do
  let hc ← pBool; let x ← pSc; let y ← pSc; let m ← pSc
  let fixed ← pBool; let hard ← pBool; let terminal ← pBool
  let rects ← pList pSRect
  pure { center := if hc then some (x, y) else none, mass := m, fixed, hard, terminal, rects, rest := () }

def pSNet : P (SNet α) := do
  let pins ← pList pNat; let w ← pSc
  pure { pins, weight := w }

/-! ### printers -/

def showVec (xs : List α) : String := " ".intercalate (xs.map sc)
def showPts (ps : List (α × α)) : String := " ".intercalate (ps.map fun p => s!"{sc p.1} {sc p.2}")
def showCentres (inst : Inst α Unit) : String :=
  " ".intercalate (inst.mods.map fun m => match m.center with | some c => s!"{sc c.1} {sc c.2}" | none => "N N")
def showOptPts (ps : List (Option (α × α))) : String :=
  " ".intercalate (ps.map fun p => match p with | some c => s!"{sc c.1} {sc c.2}" | none => "N N")
def showExc {β : Type} (f : β → String) : Except Err β → String
  | .ok x => f x
  | .error e => e.toStr
def showF {β : Type} (f : β → String) : Except FErr β → String
  | .ok x => f x
  | .error e => e.toStr
def showSRects (rs : List (SRect α)) : String :=
  s!"{rs.length}" ++ String.join (rs.map fun r => s!" {sc r.cx} {sc r.cy} {sc r.w} {sc r.h}")
def showSMod (m : SMod α Unit) : String :=
  (match m.center with | some c => s!"C {sc c.1} {sc c.2}" | none => "N") ++ " " ++ showSRects m.rects
def showAdj (adj : List (List (Edge α))) : String :=
  " | ".intercalate (adj.map fun es => " ".intercalate (es.map fun e => s!"{e.node} {sc e.weight}"))

/-! ### ops that need no square root (both modes) -/

def placeOpGen (op : String) (args : List String) : Option String :=
  match op with
  | "clamp" => (runP (do let lo ← pSc (α := α); let hi ← pSc; let x ← pSc; pure (lo, hi, x)) args).map
      fun (lo, hi, x) => sc (clamp lo hi x)
  | "argmin" => (runP (do let inf ← pSc (α := α); let cs ← pVec; pure (inf, cs)) args).map fun (inf, cs) =>
      match argminFrom (fun x => decide (x < inf)) ((List.range cs.length).zip cs) none with
      | some b => s!"{b.1}" | none => "none"
  | "normalize" => (runP (do let x ← pVec (α := α); let s ← pVec; let f ← pBools; pure (x, s, f)) args).map
      fun (x, s, f) => showExc showVec (normalize x s f)
  | "ortho" => (runP (do let c ← pList (pVec (α := α)); let m ← pVec; let d ← pNat; let f ← pBools; pure (c, m, d, f)) args).map
      fun (c, m, d, f) => showExc showVec (orthogonalize c m d f)
  | "centroids" => (runP (do let a ← pAdj (α := α); let c ← pVec; let d ← pVec; pure (a, c, d)) args).map
      fun (a, c, d) => showExc showVec (calculateCentroids a c d)
  | "andp" => (runP (do let a ← pVec (α := α); let b ← pVec; let w ← pVec; pure (a, b, w)) args).map
      fun (a, b, w) => showExc sc (absNormDot a b w)
  | "swl" => (runP (do let a ← pAdj (α := α); let c ← pList pVec; pure (a, c)) args).map
      fun (a, c) => sc (wirelength a c)
  | "recenter" => (runP (do let x ← pSc (α := α); let y ← pSc; let rs ← pList pSRect; pure (x, y, rs)) args).map
      fun (x, y, rs) => showExc showSRects (recenter (x, y) rs)
  | "adj" => (runP (do let n ← pNat; let nets ← pList (pSNet (α := α)); pure (n, nets)) args).map
      fun (n, nets) => showExc showAdj (buildAdj n nets)
  | "nsum" => (runP (pVec (α := α)) args).map fun xs => sc (nsum xs)
  | _ => none

/-! ### ops that need the numeric library -/

def placeOpNum (o : Ops α) (disc : Pt α → α → Pt α → α → α) (op : String) (args : List String) : Option String :=
  match op with
  | "layout" => (runP (do let kp ← pSc (α := α); let it ← pNat; let i ← pInst; pure (kp, it, i)) args).map
      fun (kp, it, i) => showF showCentres (frLayout o i kp it)
  | "wl" => (runP (pInst (α := α)) args).map fun i => showF sc (wireLength o i)
  | "tia" => (runP (pInst (α := α)) args).map fun i => showF sc (totalIntersectionArea o disc i)
  | "cost" => (runP (pInst (α := α)) args).map fun i => showF sc (cost o disc i)
  | "force" => (runP (do let it ← pNat; let i ← pInst (α := α); pure (it, i)) args).map fun (it, i) =>
      match bestKappa o disc i kappas it, forceAlgorithm o disc i it with
      | .ok (some b), .ok out => s!"{sc b.1} {sc b.2} {showCentres out}"
      | .ok none, .ok out => s!"none none {showCentres out}"
      | .error e, _ => e.toStr
      | _, .error e => e.toStr
  | "layoutvis" => (runP (do let kp ← pSc (α := α); let it ← pNat; let vis ← pBool; let i ← pInst; pure (kp, it, vis, i)) args).map
      fun (kp, it, vis, i) => showF (fun (r : Inst α Unit × List (List (Option (α × α)))) =>
        s!"{r.2.length} | {showCentres r.1}" ++ String.join (r.2.map fun fr => " | " ++ showOptPts fr)) (frLayoutVis o id i kp it vis)
  | "forcevis" => (runP (do let it ← pNat; let vis ← pBool; let i ← pInst (α := α); pure (it, vis, i)) args).map
      fun (it, vis, i) => showF (fun (r : Inst α Unit × List (List (Option (α × α)))) =>
        s!"{r.2.length} | {showCentres r.1}" ++ String.join (r.2.map fun fr => " | " ++ showOptPts fr)) (forceAlgorithmVis o disc id i it vis)
  | "besttrial" => (runP (pVec (α := α)) args).map fun wls =>
      -- the selection loop of `spectral_layout` on a list of wirelengths (trial `i` is tagged by `iters = [i]`)
      let rs : List (DieResult α) := (List.range wls.length).map fun i =>
        { xs := [], ys := [], wl := vat wls i, iters := [i], draws := [], preX := [], preY := [] }
      match rs.foldl (betterTrial o) none with
      | some b => " ".intercalate (b.iters.map toString)
      | none => "err:AssertionError"
  | "sld" => (runP (do
        let a ← pAdj (α := α); let m ← pVec; let W ← pSc; let H ← pSc; let i0 ← pVec; let i1 ← pVec
        let f ← pBools; let dr ← pVec; let mi ← pNat; pure (a, m, W, H, i0, i1, f, dr, mi)) args).map
      fun (a, m, W, H, i0, i1, f, dr, mi) =>
        showExc (fun (r : DieResult α) =>
          s!"{showVec r.xs} | {showVec r.ys} | {sc r.wl} | {" ".intercalate (r.iters.map toString)} | {r.draws.length}")
          (spectralLayoutDie o a m W H i0 i1 f dr mi)
  | "slayout" => (runP (do
        let ms ← pList (pSMod (α := α)); let ns ← pList pSNet; let W ← pSc; let H ← pSc
        let nf ← pNat; let dr ← pVec; let mi ← pNat; pure (ms, ns, W, H, nf, dr, mi)) args).map
      fun (ms, ns, W, H, nf, dr, mi) =>
        showExc (fun (out : List (SMod α Unit)) => " | ".intercalate (out.map showSMod))
          (spectralLayout o ms ns W H nf dr mi)
  | _ => none

end FV.Drv

import FV.Drv.Common
import FV.Model.Glb
import FV.Model.GlbOpt
/- op table for the global-floorplanning bookkeeping model (property C10). -/
namespace FV.Drv
open FV FV.Glb

variable {α : Type} [Add α] [Sub α] [Mul α] [Div α] [Neg α] [LT α] [LE α]
  [DecidableLT α] [DecidableLE α] [NatCast α] [DecidableEq α] [ScalarIO α]

/-- a module on the wire: `name hard fixed flip cx cy <n> rect*`. -/
def pGModule : P (Glb.Module α) := do
  let name ← tok; let hard ← pBool; let fixed ← pBool; let flip ← pBool
  let cx ← pSc; let cy ← pSc
  let rects ← pList (pRect (α := α))
  pure { name, hard, fixed, flip, cx, cy, rects }

/-- the answer rows of one module: `<ncells> a* x y <n> subx* <n> suby*`. -/
structure AnsRow (α : Type) where
  a : List α
  x : α
  y : α
  subx : List α
  suby : List α

def pAnsRow : P (AnsRow α) := do
  let a ← pList (pSc (α := α)); let x ← pSc; let y ← pSc
  let subx ← pList (pSc (α := α)); let suby ← pList (pSc (α := α))
  pure { a, x, y, subx, suby }

/-- build the `Answer` functions from the rows (unknown keys read as 0 — never consulted by the model on
    well-formed requests, where every module has a row of `ncells` entries and one sub-coordinate per rectangle). -/
def mkAnswer (rows : List (String × AnsRow α)) : Answer α :=
  let z : α := Glb.zero
  let subs (sel : AnsRow α → List α) : List (String × α) :=
    rows.flatMap fun (n, r) => (sel r).zipIdx.map fun (v, i) => (subName n i, v)
  let xs := rows.map (fun (n, r) => (n, r.x)) ++ subs (·.subx)
  let ys := rows.map (fun (n, r) => (n, r.y)) ++ subs (·.suby)
  { a := fun n c => match rows.lookup n with | some r => r.a.getD c z | none => z
    x := fun n => (xs.lookup n).getD z
    y := fun n => (ys.lookup n).getD z }

def showAlloc (al : Alloc α) : String :=
  s!"{al.length}" ++ String.join (al.map fun (n, v) => s!" {n} {sc v}")

def showRA (ra : RectAlloc α) : String := showRect ra.rect ++ " " ++ showAlloc ra.alloc

def showGModule (m : Glb.Module α) : String :=
  s!"{m.name} {sc m.cx} {sc m.cy} " ++ showRects m.rects

def pOffered : P (RectAlloc α) := do
  let rect ← pRect (α := α)
  let alloc ← pList (do let n ← tok; let v ← pSc (α := α); pure (n, v))
  pure { rect, alloc }

/-- loop state of the `loop` op: the observed answers of `must_be_refined` and outcomes of `optimize_allocation`
    (true = returned) still to be consumed, and the log of what the model did (reversed). -/
structure LoopSt where
  ms : List Bool
  os : List Bool
  log : List String

def loopOptimize (s : LoopSt) : Option LoopSt :=
  match s.os with
  | [] => some { s with log := "?" :: s.log }          -- the model optimises where the observed run did not
  | true :: r => some { s with os := r, log := "O" :: s.log }
  | false :: _ => none                                  -- the optimiser raised

/-- replay of the loop structure of `glbfloor` against an observed run: `max_iter` (`-1` = None), fuel, the observed
    `must_be_refined` answers and `optimize_allocation` outcomes.  (When the observations run out the model is told
    "must refine", so that any extra consultation shows up in the log.) -/
def loopReplay (maxIter : Int) (fuel : Nat) (ms os : List Bool) : String :=
  let mi : Option Nat := if maxIter < 0 then none else some maxIter.toNat
  match Glb.loopG loopOptimize (fun s => s.ms.head?.getD true)
      (fun s => some { s with ms := s.ms.tail, log := "R" :: s.log }) mi fuel 1 { ms := ms, os := os, log := [] } with
  | none => "none"
  | some s =>
    let ev := if s.log.isEmpty then "-" else String.intercalate "," s.log.reverse
    let rest := if s.ms.isEmpty then "-" else String.join (s.ms.map b01)
    s!"ret {ev} {rest} {s.os.length}"

/-! printing of the posted model (`post` op) -/
open FV.GlbOpt in
def showV : GlbOpt.V → String
  | .a m c => s!"a:{m}:{c}" | .x m => s!"x:{m}" | .y m => s!"y:{m}" | .d m => s!"d:{m}"
  | .ex e => s!"ex:{e}" | .ey e => s!"ey:{e}"

/-- general expressions in prefix notation. -/
def showX : GlbOpt.X α → String
  | .num v => s!"n {sc v}" | .var v => s!"v {showV v}"
  | .add a b => s!"+ {showX a} {showX b}" | .sub a b => s!"- {showX a} {showX b}"
  | .mul a b => s!"* {showX a} {showX b}" | .div a b => s!"/ {showX a} {showX b}"
  | .sq a => s!"^2 {showX a}"

def showT : GlbOpt.T α → String
  | .num v => s!"n {sc v}" | .var v => s!"v {showV v}" | .lin k v => s!"l {sc k} {showV v}"
  | .gen e => s!"g {showX e}"

def showTs (l : List (GlbOpt.T α)) : String := s!"{l.length}" ++ String.join (l.map fun t => " " ++ showT t)

def showE : GlbOpt.E α → String
  | .num v => s!"n {sc v}" | .var v => s!"v {showV v}"
  | .sum l => "S " ++ showTs l
  | .scaled k l => s!"K {sc k} " ++ showTs l
  | .diff p q => s!"D {showV p} {showV q}"
  | .sqdiff p q => s!"Q {showV p} {showV q}"
  | .sumDiv l n => s!"V {sc n} " ++ showTs l
  | .gen e => s!"G {showX e}"

def showCmp : GlbOpt.Cmp → String | .le => "LE" | .ge => "GE" | .eq => "EQ"

def showRow : GlbOpt.Row α → String
  | .eqn _ l c r => s!"E {showCmp c} {showE l} ; {showE r}"
  | .obj _ e => s!"O {showE e}"

def showOpt : Option α → String | none => "-" | some v => sc v

def showPosted (p : GlbOpt.Posted α) : String :=
  s!"post {p.vars.length}" ++ String.join (p.vars.map fun (v, lb, ub) => s!" | {showV v} {showOpt lb} {showOpt ub}") ++
  s!" || {p.consts.length}" ++ String.join (p.consts.map fun (v, x) => s!" | {showV v} {sc x}") ++
  s!" || {p.rows.length}" ++ String.join (p.rows.map fun r => " | " ++ showRow r)

/-- `powF`: Python's `float ** number` at this scalar type. -/
def glbOp (powF : α → α → α) (op : String) (args : List String) : Option String :=
  match op with
  | "post" =>
      (runP (do
        let die ← pRect (α := α); let eps ← pSc; let thr ← pSc; let alpha ← pSc
        let offered ← pList (pOffered (α := α))
        let mods ← pList (do let m ← pGModule (α := α); let a ← pSc (α := α); pure (m, a))
        let edges ← pList (do let w ← pSc (α := α); let pins ← pList tok; pure (w, pins))
        pure (die, eps, thr, alpha, offered, mods, edges)) args).map fun (die, eps, thr, alpha, offered, mods, edges) =>
        let areaOf : String → α := fun n => match (mods.map fun (m, a) => (m.name, a)).lookup n with
          | some a => a | none => Glb.zero
        showPosted (GlbOpt.post { die := die, epsD := eps, thr := thr, alpha := alpha, offered := offered,
                                  mods := mods.map (·.1), areaOf := areaOf, edges := edges, powF := powF })
  | "loop" => (runP (do let mi ← pInt; let fuel ← pNat; let ms ← pList pBool; let os ← pList pBool; pure (mi, fuel, ms, os)) args).map
      fun (mi, fuel, ms, os) => loopReplay mi fuel ms os
  | "sum" => (runP (pList (pSc (α := α))) args).map fun xs => sc (pySum xs)
  | "recenter" => (runP (do let cx ← pSc (α := α); let cy ← pSc; let rs ← pList pRect; pure (cx, cy, rs)) args).map
      fun (cx, cy, rs) => match recenter cx cy rs with | none => "err:ZeroDiv" | some rs' => showRects rs'
  | "extract" =>
      (runP (do
        let thr ← pSc (α := α); let epsA ← pSc
        let cells ← pList (pRect (α := α))
        let mods ← pList (do let m ← pGModule (α := α); let r ← pAnsRow; pure (m, r))
        pure (thr, epsA, cells, mods)) args).map fun (thr, epsA, cells, mods) =>
        let ans := mkAnswer (mods.map fun (m, r) => (m.name, r))
        match extractSolution ans epsA thr (mods.map (·.1)) cells with
        | .error e => "err:" ++ e.toStr
        | .ok (al, ms) =>
          s!"ok {al.length}" ++ String.join (al.map fun ra => " | " ++ showRA ra) ++
          s!" || {ms.length}" ++ String.join (ms.map fun m => " | " ++ showGModule m)
  | "consts" =>
      (runP (do
        let eps ← pSc (α := α); let thr ← pSc
        let offered ← pList (pOffered (α := α))
        let mods ← pList (pGModule (α := α))
        pure (eps, thr, offered, mods)) args).map fun (eps, thr, offered, mods) =>
        let mm := modelModules mods
        s!"{mm.length}" ++ String.join (mm.map fun m =>
          s!" | {m.name}" ++ String.join ((List.range offered.length).map fun c =>
            match getA offered m c with
            | none => " ?"
            | some v => (if aIsConst eps thr offered m c then " C " else " V ") ++ sc v))
  | _ => none

end FV.Drv

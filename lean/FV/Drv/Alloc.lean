import FV.Drv.Common
import FV.Model.Alloc
/-
  op table for the `Allocation` model (properties C02, C12).  One request = one operation history:

    <mode> hist <eps.dist> <eps.area> <sqrt-answer> <ncells> cell* <nfixed> idx* <nops> op*
      cell = V x y w h <region|-> k (name val)* depth       (YAML vector)
           | O cx cy w h region fixed hard k (name val)* depth   (Rectangle object)
      op   = R t levels | U | G | M t | A k name* | C k name* | N | I i | L name | K k name* | F i | R0 t levels | U0 | G0

  reply: segments joined by " ;; " — constructor result, then one segment per op
  (R/U/G: dump of the new allocation or `err:<Class>`, after which the history stops;
   M: 0/1;  A: scalar;  C: two scalars;  N: num_rectangles num_modules max_refinement_depth;
   I: the i-th cell (Python indexing) or err;  L: `allocation_module`: k (index ratio)* or err:KeyError;  K: check_compatible 0/1;
   F i: `allocations[i].rect.fixed = True` in place, reply = dump of the object;  R0: `refine` whose result is discarded: `-` or err).
-/
namespace FV.Drv
open FV FV.Alloc

variable {α : Type} [Add α] [Sub α] [Mul α] [Div α] [Neg α] [LT α] [LE α]
  [DecidableLT α] [DecidableLE α] [NatCast α] [DecidableEq α] [ScalarIO α]

def pAlloc : P (Alloc α) := pList (do let n ← tok; let v ← pSc; pure (n, v))

def pRawCell : P (RawCell α) := do
  let kind ← tok
  match kind with
  | "V" =>
    let x ← pSc; let y ← pSc; let w ← pSc; let h ← pSc
    let reg ← tok
    let al ← pAlloc; let d ← pInt
    pure ⟨.vec x y w h (if reg == "-" then none else some reg), al, d⟩
  | "O" =>
    let r ← pRect (α := α)
    let al ← pAlloc; let d ← pInt
    pure ⟨.obj r, al, d⟩
  | _ => failure

inductive HOp (α : Type) where
  | op (o : Op α)
  | must (t : α)
  | areaL (ms : List String)
  | centerL (ms : List String)
  | counts
  | rectAt (i : Int)
  | modAlloc (m : String)
  | compat (names : List String)
  | fix (i : Nat)
  | refine0 (t : α) (l : Nat)
  | op0 (o : Op α)

def pHOp : P (HOp α) := do
  let k ← tok
  match k with
  | "R" => do let t ← pSc; let l ← pNat; pure (.op (.refine t l))
  | "U" => pure (.op .uniform)
  | "G" => pure (.op .griddify)
  | "M" => do let t ← pSc; pure (.must t)
  | "A" => do let ms ← pList tok; pure (.areaL ms)
  | "C" => do let ms ← pList tok; pure (.centerL ms)
  | "N" => pure .counts
  | "F" => do let i ← pNat; pure (.fix i)
  | "R0" => do let t ← pSc; let l ← pNat; pure (.refine0 t l)
  | "U0" => pure (.op0 .uniform)
  | "G0" => pure (.op0 .griddify)
  | "I" => do let i ← pInt; pure (.rectAt i)
  | "L" => do let m ← tok; pure (.modAlloc m)
  | "K" => do let ms ← pList tok; pure (.compat ms)
  | _ => failure

def showCell (c : Cell α) : String :=
  s!"{sc c.rect.cx} {sc c.rect.cy} {sc c.rect.w} {sc c.rect.h} {c.rect.region} {b01 c.rect.fixed} {b01 c.rect.hard} " ++
  s!"{c.alloc.length}" ++ String.join (c.alloc.map fun p => s!" {p.1} {sc p.2}") ++ s!" {c.depth}"

def dump (a : Allocation α) (st : Eps α) : String :=
  s!"ok {a.cells.length}" ++ String.join (a.cells.map fun c => " | " ++ showCell c) ++
  s!" # {a.stats.length}" ++ String.join (a.stats.map fun s => s!" | {s.1} {sc s.2.1} {sc s.2.2.1} {sc s.2.2.2}") ++
  s!" # {sc a.bbox.cx} {sc a.bbox.cy} {sc a.bbox.w} {sc a.bbox.h} # {sc st.dist} {sc st.area}"

/-- upper bound of the number of cells an operation creates (driver-side guard against blow-ups when the
    implementation under test is wrong and keeps asking for refinements). -/
def opSize (st : Eps α) (a : Allocation α) : Op α → Nat
  | .refine _ l => a.cells.length * 2 ^ l
  | .uniform => (a.cells.map fun c => 2 ^ (maxDepth a.cells - c.depth)).sum
  | .griddify =>
    match gatherBoundaries st (a.cells.map (·.rect)) with
    | .ok (xs, ys) => xs.length * ys.length
    | .error _ => 0

def runHist (env : Env α) : List (HOp α) → Eps α → Allocation α → List String → List String
  | [], _, _, acc => acc.reverse
  | .must t :: rest, st, a, acc => runHist env rest st a (b01 (mustBeRefined a t) :: acc)
  | .areaL ms :: rest, st, a, acc =>
    let s := match a.areaList ms with | .ok x => sc x | .error e => e.toStr
    runHist env rest st a (s :: acc)
  | .centerL ms :: rest, st, a, acc =>
    let s := match a.centerList ms with | .ok (x, y) => s!"{sc x} {sc y}" | .error e => e.toStr
    runHist env rest st a (s :: acc)
  | .fix i :: rest, st, a, acc =>
    let a' := a.markFixed [i]
    runHist env rest st a' (dump a' st :: acc)
  | .refine0 t l :: rest, st, a, acc =>
    -- `a.refine(t, l)` whose result is discarded (the object stays in use; the call may define nothing new: the
    -- tolerances are defined since the constructor)
    let s := match refine env st a t l with | .ok _ => "-" | .error e => e.toStr
    runHist env rest st a (s :: acc)
  | .op0 o :: rest, st, a, acc =>
    -- `uniform_refinement_depth()` / `griddify()` whose result is discarded
    let s := if opSize st a o > 2500 then "skip:too-big" else match applyOp env st a o with | .ok _ => "-" | .error e => e.toStr
    runHist env rest st a (s :: acc)
  | .counts :: rest, st, a, acc =>
    let d := match a.maxRefinementDepth with | .ok d => toString d | .error e => e.toStr
    runHist env rest st a (s!"{a.numRectangles} {a.numModules} {d}" :: acc)
  | .rectAt i :: rest, st, a, acc =>
    let s := match a.allocationRectangle i with | .ok c => showCell c | .error e => e.toStr
    runHist env rest st a (s :: acc)
  | .modAlloc m :: rest, st, a, acc =>
    let s := match a.allocationModule m with
      | .ok l => s!"{l.length}" ++ String.join (l.map fun p => s!" {p.1} {sc p.2}")
      | .error e => e.toStr
    runHist env rest st a (s :: acc)
  | .compat ns :: rest, st, a, acc => runHist env rest st a (b01 (a.checkCompatible ns) :: acc)
  | .op o :: rest, st, a, acc =>
    if opSize st a o > 2500 then ("skip:too-big" :: acc).reverse else
    match applyOp env st a o with
    | .error e => (e.toStr :: acc).reverse
    | .ok (a', st') => runHist env rest st' a' (dump a' st' :: acc)

def allocOp (mkEnv : α → Env α) (op : String) (args : List String) : Option String :=
  match op with
  | "hist" =>
    (runP (do
      let d ← pSc (α := α); let ar ← pSc (α := α); let sq ← pSc (α := α)
      let cells ← pList (pRawCell (α := α))
      let fixed ← pList pNat
      let ops ← pList (pHOp (α := α))
      pure (d, ar, sq, cells, fixed, ops)) args).map fun (d, ar, sq, cells, fixed, ops) =>
        let env := mkEnv sq
        match mkAllocation env ⟨d, ar⟩ cells with
        | .error e => e.toStr
        | .ok (a, st) =>
          let a := a.markFixed fixed
          " ;; ".intercalate (runHist env ops st a [dump a st])
  | "pysum" => (runP (pList (pSc (α := α))) args).map fun l => sc (pySum l)
  | "bounds" =>
    (runP (do let e ← pSc (α := α); let rs ← pList (pRect (α := α)); pure (e, rs)) args).map fun (e, rs) =>
      match gatherBoundaries ⟨e, e⟩ rs with
      | .error er => er.toStr
      | .ok (xs, ys) => s!"{xs.length}" ++ String.join (xs.map fun x => " " ++ sc x) ++ s!" # {ys.length}" ++
          String.join (ys.map fun y => " " ++ sc y)
  | _ => none

end FV.Drv

import FV.Drv.Common
import FV.Model.Producers
/-
  op table for the producer models (property C19).

  Trees travel as a prefix token stream:
    N | B 0/1 | I <int> | F <scalar> | S '<escaped> | L <n> item* | M <n> (key value)*
  (strings: a leading `'`, every character outside `[A-Za-z0-9_#.-]` as `%xxxx`).
  Objects are sent as trees too and converted here; a request whose object does not have the expected shape is `bad-op`.
  A modelled `AssertionError` is `err:Assert`.
-/
namespace FV.Drv.Prod
open FV FV.Drv FV.NL FV.Prod

instance {β : Type} : Inhabited (P β) := ⟨fun _ => none⟩

def hex4 (n : Nat) : String :=
  String.ofList [hexOfNat ((n / 4096) % 16), hexOfNat ((n / 256) % 16), hexOfNat ((n / 16) % 16), hexOfNat (n % 16)]

def plainChar (c : Char) : Bool :=
  c.isAlphanum || c == '_' || c == '#' || c == '.' || c == '-'

def escStr (s : String) : String :=
  "'" ++ String.join (s.toList.map fun c => if plainChar c then String.singleton c else "%" ++ hex4 c.toNat)

def unescChars : List Char → Option (List Char)
  | [] => some []
  | '%' :: a :: b :: c :: d :: r => do
      let x ← hexDigit? a; let y ← hexDigit? b; let z ← hexDigit? c; let w ← hexDigit? d
      let rest ← unescChars r
      pure (Char.ofNat (x * 4096 + y * 256 + z * 16 + w) :: rest)
  | '%' :: _ => none
  | ch :: r => do let rest ← unescChars r; pure (ch :: rest)

def unescStr (t : String) : Option String :=
  match t.toList with
  | '\'' :: r => (unescChars r).map String.ofList
  | _ => none

variable {α : Type} [Add α] [Sub α] [Mul α] [Div α] [Neg α] [LT α] [LE α]
  [DecidableLT α] [DecidableLE α] [NatCast α] [DecidableEq α] [ScalarIO α]

partial def pY : P (YVal α) := do
  let t ← tok
  match t with
  | "N" => pure .null
  | "B" => do let b ← pBool; pure (.bool b)
  | "I" => do let i ← pInt; pure (.int i)
  | "F" => do let x ← pSc; pure (.float x)
  | "S" => do let s ← tok; match unescStr s with | some s => pure (.str s) | none => failure
  | "L" => do let l ← pList pY; pure (.seq l)
  | "M" => do let l ← pList (do let k ← pY; let v ← pY; pure (k, v)); pure (.map l)
  | _ => failure

partial def showY : YVal α → String
  | .null => "N"
  | .bool b => s!"B {b01 b}"
  | .int i => s!"I {i}"
  | .float x => s!"F {sc x}"
  | .str s => s!"S {escStr s}"
  | .seq l => s!"L {l.length}" ++ String.join (l.map fun v => " " ++ showY v)
  | .map l => s!"M {l.length}" ++ String.join (l.map fun kv => " " ++ showY kv.1 ++ " " ++ showY kv.2)

def numY (n : Num α) : YVal α := YVal.ofNum n

/-! ### objects from trees (driver side only) -/

def oNum (v : YVal α) : Option (Num α) := v.num?

def oSc (v : YVal α) : Option α := v.num?.map Num.val

def oNat (v : YVal α) : Option Nat :=
  match v with
  | .int i => if 0 ≤ i then some i.toNat else none
  | .float x => -- integral floats (numpy ids): accept exact small naturals
      (List.range 4096).find? fun n => decide (((n : Nat) : α) = x)
  | _ => none

def oVRect (v : YVal α) : Option (VRect α) :=
  match v with
  | .seq [a, b, c, d, .str s] => do
      let x ← oNum a; let y ← oNum b; let w ← oNum c; let h ← oNum d
      pure { cx := x, cy := y, w := w, h := h, region := s }
  | _ => none

def oNum4 (v : YVal α) : Option (Num α × Num α × Num α × Num α) :=
  match v with
  | .seq [a, b, c, d] => do
      let x ← oNum a; let y ← oNum b; let w ← oNum c; let h ← oNum d
      pure (x, y, w, h)
  | _ => none

def oSc4 (v : YVal α) : Option (α × α × α × α) :=
  (oNum4 v).map fun r => (r.1.val, r.2.1.val, r.2.2.1.val, r.2.2.2.val)

def oList {β : Type} (f : YVal α → Option β) (v : YVal α) : Option (List β) :=
  match v with
  | .seq l => l.mapM f
  | _ => none

def oCell (v : YVal α) : Option (Cell α) :=
  let core (r : YVal α) (l : List (YVal α × YVal α)) (d : YVal α) (fx : Bool) : Option (Cell α) := do
      let rect ← oVRect r
      let alloc ← l.mapM fun kv => do let k ← kv.1.str?; let x ← oNum kv.2; pure (k, x)
      let depth ← oNat d
      pure { rect := rect, alloc := alloc, depth := depth, fixed := fx }
  match v with
  | .seq [r, .map l, d] => core r l d false
  | .seq [r, .map l, d, .bool fx] => core r l d fx
  | _ => none

def cellOut (c : Cell α) : YVal α :=
  .seq [c.rect.toY, .map (c.alloc.map fun kv => (.str kv.1, numY kv.2)), .int c.depth, .bool c.fixed]

def pVRects : P (List (VRect α)) := pList (do let v ← pY; match oVRect v with | some r => pure r | none => failure)

def pNumTok : P (Num α) := do let v ← pY; match oNum v with | some n => pure n | none => failure

/-! ### the netlist reader model of C04/C05, printed for comparison with the real reader -/

def showNl (n : Netlist α) : YVal α :=
  let rectKey (r : NRect α) : YVal α := .seq [numY r.cx, numY r.cy, numY r.w, numY r.h, .str r.region]
  .seq [.seq (n.modules.map fun m =>
          .seq [.str m.name, .bool m.terminal, .bool m.hard, .bool m.fixed,
                .seq (m.areaRegions.map fun p => .seq [.str p.1, .float p.2]),
                .seq (m.rects.map rectKey)]),
        .seq (n.nets.map fun e => .seq [.seq (e.members.map .str), .float e.weight])]

/-- rectangles of a module sorted by (cx, cy, w, h) so that the STOG reordering does not matter. -/
def sortRects (rs : List (NRect α)) : List (NRect α) :=
  let lt (a b : NRect α) : Bool :=
    if a.cx.val < b.cx.val then true else if b.cx.val < a.cx.val then false
    else if a.cy.val < b.cy.val then true else if b.cy.val < a.cy.val then false
    else if a.w.val < b.w.val then true else if b.w.val < a.w.val then false
    else decide (a.h.val < b.h.val)
  (rs.toArray.qsort lt).toList

def oFsBlock (v : YVal α) : Option (FsBlock α) :=
  match v with
  | .seq [k, a, rs] => do
      let kind ← oNat k; let area ← oSc a; let rects ← oList oSc4 rs
      pure { kind := kind, area := area, rects := rects }
  | _ => none

def oPair (v : YVal α) : Option (α × α) :=
  match v with
  | .seq [a, b] => do let x ← oSc a; let y ← oSc b; pure (x, y)
  | _ => none

def oConn (v : YVal α) : Option (Nat × Nat × α) :=
  match v with
  | .seq [a, b, w] => do let x ← oNat a; let y ← oNat b; let z ← oSc w; pure (x, y, z)
  | _ => none

def oFsInst (v : YVal α) : Option (FsInst α) :=
  match v with
  | .seq [bs, ps, .bool tam, al, b2b, p2b] => do
      let blocks ← oList oFsBlock bs
      let pins ← oList oPair ps
      let alpha ← oSc al
      let c1 ← oList oConn b2b
      let c2 ← oList oConn p2b
      pure { blocks := blocks, pins := pins, terminalsAsModules := tam, alpha := alpha, b2b := c1, p2b := c2 }
  | _ => none

def oStrs (v : YVal α) : Option (List String) := oList (fun x => x.str?) v

def oSolMod (v : YVal α) : Option (SolMod α) :=
  match v with
  | .seq [.str name, .seq [k, sh], .bool hard, .bool fixed, .bool term, regs, area] => do
      let kind ← oNat k
      let shape ← (match kind with
        | 0 => (oList oNum4 sh).map SolShape.result
        | 1 => (oList oNum4 sh).map SolShape.rects
        | _ => (oPair sh).map SolShape.center)
      let rg ← oList (fun (e : YVal α) => match e with | .seq [.str r, a] => (oSc a).map fun (x : α) => (r, x) | _ => none) regs
      let a ← oSc area
      pure { name := name, shape := shape, hard := hard, fixed := fixed, terminal := term, areaRegions := rg, area := a }
  | _ => none

def oLfMod (v : YVal α) : Option (LfMod α) :=
  match v with
  | .seq [.str name, d, a, rs] => do
      let deg ← oNat d; let area ← oNum a; let rects ← oList oNum4 rs
      pure { name := name, degree := deg, area := area, rects := rects }
  | _ => none

/-- the `1e-3` of the FloorSet converter, as the double Python uses. -/
def fsEps : α := ((1 : Nat) : α) / ((1000 : Nat) : α)

def oConns (v : YVal α) : Option (List (Nat × Nat × α)) := oList oConn v

def oFsRaw (v : YVal α) : Option (FsRaw α) :=
  match v with
  | .seq [areas, b2b, p2b, pins, cons, verts, metrics, dens, .bool tam, decomp] => do
      let a ← oList oSc areas
      let c1 ← oConns b2b
      let c2 ← oConns p2b
      let ps ← oList oPair pins
      let cs ← oList (oList oSc) cons
      let vs ← oList (oList oPair) verts
      let ms ← oList oSc metrics
      let d ← (match dens with | .null => some none | x => (oSc x).map some)
      let dc ← oList (oList oSc4) decomp
      pure { areaBlocks := a, b2b := c1, p2b := c2, pins := ps, cons := cs, vertices := vs, metrics := ms, density := d,
             terminalsAsModules := tam, decomp := dc }
  | _ => none

def showFsErr : FsErr → String
  | .valueError => "err:ValueError" | .assertion => "err:Assert" | .zeroDiv => "err:ZeroDivisionError"

def prodOp (sqrtF : α → α) (op : String) (args : List String) : Option String :=
  match op with
  | "die_write" =>
    (runP (do let w ← pNumTok (α := α); let h ← pNumTok; let b ← pVRects; let s ← pVRects; pure (w, h, b, s)) args).map
      fun (w, h, b, s) => showY (writeDie { width := w, height := h, blockages := b, specialised := s }).1
  | "die_read" =>
    (runP (pY (α := α)) args).map fun t =>
      match readDie t with
      | .error _ => "err:Assert"
      | .ok d => showY (α := α) (.seq [numY d.width, numY d.height, .seq (d.blockages.map VRect.toY), .seq (d.specialised.map VRect.toY)])
  | "alloc_write" =>
    (runP (pY (α := α)) args).bind fun t => (oList oCell t).map fun cells => showY (writeAlloc cells).1
  | "alloc_read" =>
    (runP (pY (α := α)) args).map fun t =>
      match readAlloc t with
      | .error _ => "err:Assert"
      | .ok cells => showY (α := α) (.seq (cells.map cellOut))
  | "alloc_write_orig" =>       -- the code as found (before fixes/C19_alloc_fixed_mark.diff): the mark is not written
    (runP (pY (α := α)) args).bind fun t => (oList oCell t).map fun cells => showY (writeAllocOrig cells).1
  | "alloc_read_orig" =>
    (runP (pY (α := α)) args).map fun t =>
      match readAllocOrig t with
      | .error _ => "err:Assert"
      | .ok cells => showY (α := α) (.seq (cells.map cellOut))
  | "netgen" =>
    (runP (do let k ← tok; let a ← pInt; let b ← pInt; pure (k, a, b)) args).bind fun (k, a, b) =>
      let area : Num α := .i 1
      match k with
      | "grid" => some (showY (genGrid area a.toNat b.toNat).toY)
      | "chain" => some (showY (genChain area a.toNat).toY)
      | "ring" => some (showY (genRing area a.toNat).toY)
      | "star" => some (showY (genStar area a.toNat).toY)
      | "ring-star" => some (showY (genRingStarI area a).toY)
      | "one-net" => some (showY (genOneNet area a.toNat).toY)
      | "htree" => some (match genHtreeI area a with | some g => showY g.toY | none => "err:Assert")
      | _ => none
  | "netgenc" =>
    (runP (do let r ← pInt; let c ← pInt; let hasDie ← pBool; let w ← pSc (α := α); let h ← pSc; let ns ← pList pSc
              pure (r, c, hasDie, w, h, ns)) args).map
      fun (r, c, hasDie, w, h, ns) =>
        match genGridCentredI (.i 1) r c (if hasDie then some (w, h) else none) ns with
        | .ok g => showY g.toY
        | .error .assertion => "err:Assert"
        | .error .zeroDiv => "err:ZeroDivisionError"
  | "netgen_main" =>
    (runP (do let k ← tok; let sz ← pList pInt; let ac ← pBool; let sd ← pSc (α := α); let hasDie ← pBool
              let w ← pSc; let h ← pSc; let ns ← pList pSc
              pure (k, sz, ac, sd, hasDie, w, h, ns)) args).map
      fun (k, sz, ac, sd, hasDie, w, h, ns) =>
        match netgenMain { type := k, size := sz, addCenters := ac, sd := sd,
                           die := if hasDie then some (w, h) else none, noise := ns } with
        | .ok g => showY g.toY
        | .error .assertion => "err:Assert"
        | .error .zeroDiv => "err:ZeroDivisionError"
  | "nl_read" =>
    (runP (do let e ← pSc (α := α); let t ← pY; pure (e, t)) args).map fun (εA, t) =>
      match parseNetlist (fun rs => rs) εA t with
      | .error _ => "err:Assert"
      | .ok n => showY (showNl { n with modules := n.modules.map fun m => { m with rects := sortRects m.rects } })
  | "namededges" =>
    (runP (pY (α := α)) args).bind fun t =>
      (oList (fun (e : YVal α) => match e with
        | .seq [.seq ms, w] => (oNum w).map fun x => ({ modules := ms, weight := x } : NEdge α)
        | _ => none) t).map fun es =>
        let r := dumpNamedEdges es
        showY (.seq [r.1, .seq (r.2.map fun e => .seq [.seq e.modules, numY e.weight])])
  | "namededges_orig" =>
    (runP (pY (α := α)) args).bind fun t =>
      (oList (fun (e : YVal α) => match e with
        | .seq [.seq ms, w] => (oNum w).map fun x => ({ modules := ms, weight := x } : NEdge α)
        | _ => none) t).map fun es =>
        let r := dumpNamedEdgesOrig es
        showY (.seq [r.1, .seq (r.2.map fun e => .seq [.seq e.modules, numY e.weight])])
  | "floorset" =>
    (runP (pY (α := α)) args).bind fun t => (oFsInst t).map fun (f : FsInst α) =>
      match writeFPEF fsEps f, writeDIEF f with
      | .ok r, .ok d => showY (α := α) (.seq [r.1, d])
      | _, _ => "err:ValueError"
  | "floorset_raw" =>
    (runP (pY (α := α)) args).bind fun t => (oFsRaw t).map fun (r : FsRaw α) =>
      match convertRaw fsEps sqrtF r with
      | .ok (t, d) => showY (α := α) (.seq [t, d])
      | .error e => showFsErr e
  | "floorset_alpha" =>
    (runP (pY (α := α)) args).bind fun t => (oFsRaw t).map fun (r : FsRaw α) =>
      match fsOfRaw sqrtF r with
      | .ok f => showY (α := α) (.seq [.float f.alpha, .seq (f.blocks.map fun b => .int b.kind)])
      | .error e => showFsErr e
  | "rectio" =>
    (runP (pY (α := α)) args).bind fun t => (oList oCell t).map fun cells => showY (rioTree cells)
  | "solnet" =>
    (runP (pY (α := α)) args).bind fun t =>
      match t with
      | .seq [ms, es] => do
          -- a module the emitter cannot place is sent as `N`
          let mods ← oList (fun (m : YVal α) => match m with | .null => some none | x => (oSolMod x).map some) ms
          let nets ← oList (fun (e : YVal α) => match e with
            | .seq [names, w] => do let n ← oStrs names; let (x : α) ← oSc w; pure (n, x)
            | _ => none) es
          pure (match solutionToNetlist mods nets with
            | .ok t => showY t
            | .error .exception => "err:Exception")
      | _ => none
  | "legal" =>
    (runP (pY (α := α)) args).bind fun t =>
      match t with
      | .seq [ms, hy] => do
          let mods ← oList oLfMod ms
          let hyper ← oList (fun (e : YVal α) => match e with
            | .seq [w, mem] => do let (x : Num α) ← oNum w; let l ← oList oNat mem; pure (x, l)
            | _ => none) hy
          pure (showY (lfTree mods hyper))
      | _ => none
  | _ => none

end FV.Drv.Prod

import FV.Drv.Common
import FV.Model.Global
import FV.Model.Registers
/- op table for the process-state model (C20): `F eps <kDie> <kNet> <inf> <n> (die 2 w h | net k d1…dk | alloc 2 w h)*`
   → tolerance state after that history from a fresh process: `none` or `<dist> <area>`. -/
namespace FV.Drv
open FV FV.Proc

inductive Proposal | die (w h : Float) | net (dims : List Float) | alloc (w h : Float)

def pProposal : P Proposal := do
  let kind ← tok
  let dims ← pList (pSc (α := Float))
  match kind, dims with
  | "die", [w, h] => pure (.die w h)
  | "alloc", [w, h] => pure (.alloc w h)
  | "net", ds => pure (.net ds)
  | _, _ => failure

def globalOp (op : String) (args : List String) : Option String :=
  match op with
  | "eps" =>
    (runP (do
        let kDie ← pSc (α := Float); let kNet ← pSc (α := Float); let inf ← pSc (α := Float)
        let n ← pNat
        let rec go : Nat → List Proposal → P (List Proposal)
          | 0, acc => pure acc.reverse
          | k+1, acc => do let p ← pProposal; go k (p :: acc)
        let ps ← go n []
        pure (kDie, kNet, inf, ps)) args).map fun (kDie, kNet, inf, ps) =>
      let vals := ps.map fun
        | .die w h => dieProposal kDie w h
        | .alloc w h => allocProposal kNet w h
        | .net ds => netlistProposal kNet inf ds
      match runHistory Float.sqrt none vals with
      | none => "none"
      | some e => s!"{sc e.dist} {sc e.area}"
  | _ => none

end FV.Drv

namespace FV.Drv
open FV FV.Proc

/-- register ops on the wire: `set <tag> | get | eq <hard 0/1> | var <name> | off <f> | on <f> | dbg <f>`. -/
def pRegOp : P RegOp := do
  let t ← tok
  match t with
  | "set" => do let n ← pNat; pure (.setEpsilon n)
  | "get" => pure .getEpsilon
  | "eq" => do let b ← pBool; pure (.addEquation b)
  | "var" => do let n ← tok; pure (.createVariable n)
  | "off" => do let n ← pNat; pure (.turnOff n)
  | "on" => do let n ← pNat; pure (.turnOn n)
  | "dbg" => do let n ← pNat; pure (.debug n)
  | _ => failure

def showRegOut : RegOut → String
  | .unit => "u"
  | .tag t => s!"t{t}"
  | .name s => s!"n:{s}"
  | .printed b => s!"p{b01 b}"
  | .nameError => "err:NameError"
  | .diverges => "diverges"

/-- `F regs <n> op…` → outputs, then the final registers `eps=<tag|none> debug=<mask> names=<k>`. -/
def regsOp (args : List String) : Option String :=
  (runP (pList pRegOp) args).map fun ops =>
    let (s, os) := runRegs LegalRegs.init ops
    let e := match s.eps with | some t => toString t | none => "none"
    " ".intercalate (os.map showRegOut) ++ s!" | eps={e} debug={s.debug} names={s.names.length}"

end FV.Drv

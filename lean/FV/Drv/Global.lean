import FV.Drv.Common
import FV.Model.Global
import FV.Model.Registers
import FV.Model.SatProc
import FV.Drv.PB
/- op table for the process-state model (C20): `F eps <kDie> <kNet> <inf> <n> (die 2 w h | net k d1…dk | alloc 2 w h)*`
   → tolerance state after that history from a fresh process: `none` or `<dist> <area>`. -/
namespace FV.Drv
open FV FV.Proc

inductive Proposal | die (w h : Float) | net (dims : List Float) | alloc (w h : Float)

def pProposal : P Proposal := do
  let kind ← tok
  let dims ← pList (pSc (α := Float))
  match kind, dims with
  | "die", [w, h] => pure (.die w h)
  | "alloc", [w, h] => pure (.alloc w h)
  | "net", ds => pure (.net ds)
  | _, _ => failure

def globalOp (op : String) (args : List String) : Option String :=
  match op with
  | "eps" =>
    (runP (do
        let kDie ← pSc (α := Float); let kNet ← pSc (α := Float); let inf ← pSc (α := Float)
        let n ← pNat
        let rec go : Nat → List Proposal → P (List Proposal)
          | 0, acc => pure acc.reverse
          | k+1, acc => do let p ← pProposal; go k (p :: acc)
        let ps ← go n []
        pure (kDie, kNet, inf, ps)) args).map fun (kDie, kNet, inf, ps) =>
      -- a netlist without any rectangle or positive area proposes NO tolerance (repaired code, /repo 750ac5a:
      -- `if smallest_distance < math.inf: set_epsilon(...)`): it is not an entry of the history of proposals
      let vals := ps.filterMap fun
        | .die w h => some (dieProposal kDie w h)
        | .alloc w h => some (allocProposal kNet w h)
        | .net [] => none
        | .net ds => some (netlistProposal kNet inf ds)
      match runHistory Float.sqrt none vals with
      | none => "none"
      | some e => s!"{sc e.dist} {sc e.area}"
  | _ => none

end FV.Drv

namespace FV.Drv
open FV FV.Proc

/-- register ops on the wire: `set <tag> | get | eq <hard 0/1> | var <name> | off <f> | on <f> | dbg <f>`. -/
def pRegOp : P RegOp := do
  let t ← tok
  match t with
  | "set" => do let n ← pNat; pure (.setEpsilon n)
  | "get" => pure .getEpsilon
  | "eq" => do let b ← pBool; pure (.addEquation b)
  | "var" => do let n ← tok; pure (.createVariable n)
  | "off" => do let n ← pNat; pure (.turnOff n)
  | "on" => do let n ← pNat; pure (.turnOn n)
  | "dbg" => do let n ← pNat; pure (.debug n)
  | _ => failure

def showRegOut : RegOut → String
  | .unit => "u"
  | .tag t => s!"t{t}"
  | .name s => s!"n:{s}"
  | .printed b => s!"p{b01 b}"
  | .nameError => "err:NameError"
  | .diverges => "diverges"

/-- `F regs <n> op…` → outputs, then the final registers `eps=<tag|none> debug=<mask> names=<k>`. -/
def regsOp (args : List String) : Option String :=
  (runP (pList pRegOp) args).map fun ops =>
    let (s, os) := runRegs LegalRegs.init ops
    let e := match s.eps with | some t => toString t | none => "none"
    " ".intercalate (os.map showRegOut) ++ s!" | eps={e} debug={s.debug} names={s.names.length}"

end FV.Drv

namespace FV.Drv
open FV FV.Proc FV.PB FV.Sat

/-- a process operation on the wire (same syntax as `P hist` of drv_pb):
    `nv i name | cl i lits | im i lits lit | qu i lits | he i k lits | pb i dec OP exprA exprB | sv i U | sv i M pairs`;
    the solver's answer is given by variable NAME and translated with the manager's own table when the step runs. -/
inductive WOp where
  | op (o : SatOp)
  | sv (i : Nat) (ans : Option (List (Var × Bool)))
  | bad (i : Nat)                       -- an inequality whose operator string `Ineq.__init__` rejects: nothing happens

def pWOp : P WOp := do
  let t ← tok
  let i ← pNat
  match t with
  | "nv" => do let v ← pVar; pure (.op (.newvar i v))
  | "cl" => do let c ← pList pLit; pure (.op (.post i (.clause c)))
  | "im" => do let l ← pList pLit; let x ← pLit; pure (.op (.post i (.imply l x)))
  | "qu" => do let l ← pList pLit; pure (.op (.post i (.amoQ l)))
  | "he" => do let k ← pInt; let l ← pList pLit; pure (.op (.post i (.amoH k l)))
  | "pb" => do
      let d ← pBool; let o ← tok; let a ← pExprV; let b ← pExprV
      match Ineq.makeStr a b o with
      | some q => pure (.op (.post i (.pb q d)))
      | none => pure (.bad i)
  | "sv" => do
      let k ← tok
      match k with
      | "U" => pure (.sv i none)
      | "M" => do let l ← pList (do let v ← pVar; let b ← pBool; pure (v, b)); pure (.sv i (some l))
      | _ => failure
  | _ => failure

def toSatOp (w : SatProc) : WOp → Option SatOp
  | .op o => some o
  | .bad _ => none
  | .sv i ans =>
    match w.mgrs[i]? with
    | none => some (.solve i none)
    | some m =>
      some (.solve i (ans.map fun l => l.filterMap fun (v, b) => (m.index v).map fun k => if b then (k : Int) else -(k : Int)))

def showMgrShort (m : Mgr) : String :=
  s!"{m.auxcount} {m.vars.length}" ++ String.join (m.vars.map fun v => " " ++ nameOfVar v)
  ++ s!" {m.clauses.length}" ++ String.join (m.clauses.map fun c => " " ++ showClause c)

/-- `F satproc <nmgr> <nops> op…` → verdict bits, then per manager `<encodable own constraints> <mgr>`, then the store.
    Executes `FV.Proc.SatProc.run` (the object of `C20.sat_process_exact`). -/
def satprocOp (args : List String) : Option String :=
  (runP (do let nm ← pNat; let ops ← pList pWOp; pure (nm, ops)) args).map fun (nm, wops) =>
    let (w, bits, sops) := wops.foldl (fun (acc : SatProc × List String × List SatOp) wo =>
        let (w, bits, sops) := acc
        match toSatOp w wo with
        | none => (w, "x" :: bits, sops)
        | some o => let r := w.step o; (r.1, b01 r.2 :: bits, o :: sops)) (SatProc.init nm, [], [])
    let sops := sops.reverse
    "".intercalate bits.reverse
      ++ String.join ((List.range nm).map fun i =>
          s!" | {(ownPosts i sops).length} " ++ showMgrShort (w.mgrs.getD i {}))
      ++ s!" | {w.store.memory.length}" ++ String.join (w.store.memory.map fun n => " " ++ showNode n)

end FV.Drv

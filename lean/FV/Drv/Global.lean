import FV.Drv.Common
import FV.Model.Global
/- op table for the process-state model (C20): `F eps <kDie> <kNet> <inf> <n> (die 2 w h | net k d1…dk | alloc 2 w h)*`
   → tolerance state after that history from a fresh process: `none` or `<dist> <area>`. -/
namespace FV.Drv
open FV FV.Proc

inductive Proposal | die (w h : Float) | net (dims : List Float) | alloc (w h : Float)

def pProposal : P Proposal := do
  let kind ← tok
  let dims ← pList (pSc (α := Float))
  match kind, dims with
  | "die", [w, h] => pure (.die w h)
  | "alloc", [w, h] => pure (.alloc w h)
  | "net", ds => pure (.net ds)
  | _, _ => failure

def globalOp (op : String) (args : List String) : Option String :=
  match op with
  | "eps" =>
    (runP (do
        let kDie ← pSc (α := Float); let kNet ← pSc (α := Float); let inf ← pSc (α := Float)
        let n ← pNat
        let rec go : Nat → List Proposal → P (List Proposal)
          | 0, acc => pure acc.reverse
          | k+1, acc => do let p ← pProposal; go k (p :: acc)
        let ps ← go n []
        pure (kDie, kNet, inf, ps)) args).map fun (kDie, kNet, inf, ps) =>
      let vals := ps.map fun
        | .die w h => dieProposal kDie w h
        | .alloc w h => allocProposal kNet w h
        | .net ds => netlistProposal kNet inf ds
      match runHistory Float.sqrt none vals with
      | none => "none"
      | some e => s!"{sc e.dist} {sc e.area}"
  | _ => none

end FV.Drv

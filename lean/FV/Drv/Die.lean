import FV.Drv.Common
import FV.Drv.Netlist
import FV.Model.Die
import FV.Model.DieNet
import FV.Model.DieObj
import FV.Model.NetlistStog
/-
  op table for the die model (property C01).

  request:  <mode> <op> <state> <sqrt> <doc> <fixed rects> [<picks>]
    state  = `u` (class-wide tolerance undefined) | `d <dist> <area>`
    sqrt   = the answer of `math.sqrt(min(w,h)*10e-12)` (used in mode Q; mode F computes `Float.sqrt`)
    doc    = prefix form of the YAML tree: `n <scalar>` | `s <string>` | `e` (empty string) | `z` (null) |
             `l <k> item*` | `m <k> (key item)*`
    picks  = <k> (rmin rmax cmin cmax)*

  ops on the DOCUMENTS (FV/Model/DieNet.lean, FV/Model/DieObj.lean) — the fixed rectangles are computed by the model from the
  netlist document, the `<w>x<h>` shorthand is split by the model:
    <mode> cgrid     <state> <src> <netl>
    <mode> construct <state> <src> <netl> <picks?>
    <mode> session   <state> <src> <netl> <picks?> <k> call*         (constructor, then method calls on the object)
    src    = `T <doc>` (a tree) | `O` (neither str, tree nor text stream) | `H (Y <doc> | -)` (an open text stream) |
             `S x<hex> <k> (x<hex of piece> (n <scalar> | -))* (Y <doc> | -)`   a `str`: the text, the answers of `float()` on
             the pieces of `rsplit('x')`, what `read_yaml` returns for it (`-` = it raised)
    netl   = `-` (no netlist) | `N <tree in the format of drv_netlist>`
    picks? = `-` (deterministic cover) | `P <k> (rmin rmax cmin cmax)*`
    call   = `s <ratio> <n>` (split_refinable_regions) | `g <nrows> <ncols>` (initial_grid)
  `math.sqrt` / the literal `1e-12`: `Float.sqrt`, `1e-12` in mode F; `ratSqrt` (30 digits), `1/10^12` in mode Q.
-/
namespace FV.Drv
open FV FV.Rect FV.Die

variable {α : Type} [Add α] [Sub α] [Mul α] [Div α] [Neg α] [LT α] [LE α]
  [DecidableLT α] [DecidableLE α] [NatCast α] [DecidableEq α] [ScalarIO α]

partial def pYV : P (YV α) := do
  let t ← tok
  match t with
  | "n" => do let x ← pSc (α := α); pure (.num x)
  | "s" => do let s ← tok; pure (.str s)
  | "e" => pure (.str "")
  | "z" => pure .null
  | "l" => do let l ← pList pYV; pure (.list l)
  | "m" => do
      let l ← pList (do let k ← tok; let v ← pYV; pure ((if k == "~e" then "" else k), v))
      pure (.map l)
  | _ => failure

def pState : P (Option (α × α)) := do
  let t ← tok
  match t with
  | "u" => pure none
  | "d" => do let d ← pSc (α := α); let a ← pSc; pure (some (d, a))
  | _ => failure

def pIRect : P IRect := do
  let a ← pNat; let b ← pNat; let c ← pNat; let d ← pNat
  pure ⟨a, b, c, d⟩

def showScs (l : List α) : String := s!"{l.length}" ++ String.join (l.map fun x => " " ++ sc x)

def showIRects (l : List IRect) : String :=
  s!"{l.length}" ++ String.join (l.map fun g => s!" {g.rmin} {g.rmax} {g.cmin} {g.cmax}")

structure DieReq (α : Type) where
  st : Option (α × α)
  sq : α
  doc : YV α
  fixed : List (Rect α)

def pDieReq : P (DieReq α) := do
  let st ← pState (α := α); let sq ← pSc; let doc ← pYV; let fixed ← pList pRect
  pure { st, sq, doc, fixed }

def showOut (o : DieOut α) (e : Eps α) (st : α × α) (picks : List IRect) (flags : List Bool) : String :=
  s!"ok {sc o.W} {sc o.H} ; {showRects o.specialized} ; {showRects o.ground} ; {showRects o.blockages} ; " ++
  s!"{showRects o.fixed} ; {showIRects picks} ; {String.join (flags.map b01)}. ; {sc e.d} {sc e.a} {sc e.die} {sc st.1} {sc st.2}"

/-- run the constructor model and print everything the harness compares. -/
def runDie (sqrtF : Option (α → α)) (q : DieReq α) (picks : Option (List IRect)) : String :=
  let sqrt : α → α := match sqrtF with | some f => f | none => fun _ => q.sq
  match parseDie q.doc with
  | .error e => e.toStr
  | .ok inp =>
    let es := mkEps sqrt q.st inp.W inp.H
    let pk : Except Err (List IRect) := match picks with
      | some p => .ok p
      | none => detPicks es.1 inp q.fixed
    match pk with
    | .error e => e.toStr
    | .ok p =>
      match dieModel sqrt q.st q.doc q.fixed (some p) with
      | .error e => e.toStr
      | .ok (o, e, st) =>
        let g := gridOf e inp q.fixed
        let nc := g.1.length - 1
        let nr := g.2.length - 1
        let m0 := occ g.1 g.2 (occRects inp q.fixed)
        let arr := toArr nr nc m0
        let flags := if nr * nc ≤ 64 then maxFlags g.1 g.2 nr nc (ofArr arr m0) p else []
        showOut o e st p flags

def dieOp (sqrtF : Option (α → α)) (op : String) (args : List String) : Option String :=
  match op with
  | "grid" => (runP (pDieReq (α := α)) args).map fun q =>
      let sqrt : α → α := match sqrtF with | some f => f | none => fun _ => q.sq
      match parseDie q.doc with
      | .error e => e.toStr
      | .ok inp =>
        let es := mkEps sqrt q.st inp.W inp.H
        let g := gridOf es.1 inp q.fixed
        let nc := g.1.length - 1
        let nr := g.2.length - 1
        let m := occ g.1 g.2 (occRects inp q.fixed)
        let rows := (List.range nr).map fun r => String.join ((List.range nc).map fun c => b01 (m r c))
        s!"ok {showScs g.1} ; {showScs g.2} ; {nr}" ++ String.join (rows.map fun s => " " ++ s ++ ".")
  | "accept" => (runP (do let q ← pDieReq (α := α); let p ← pList pIRect; pure (q, p)) args).map fun (q, p) =>
      runDie sqrtF q (some p)
  | "model" => (runP (pDieReq (α := α)) args).map fun q => runDie sqrtF q none
  | "gather" => (runP (do let e ← pSc (α := α); let rs ← pList pRect; pure (e, rs)) args).map fun (e, rs) =>
      let g := gather e rs
      s!"{showScs g.1} ; {showScs g.2}"
  | "pysum" => (runP (pList (pSc (α := α))) args).map fun l => sc (pySum l)
  | "eps" => (runP (do let st ← pState (α := α); let sq ← pSc; let w ← pSc; let h ← pSc; pure (st, sq, w, h)) args).map
      fun (st, sq, w, h) =>
        let sqrt : α → α := match sqrtF with | some f => f | none => fun _ => sq
        let es := mkEps sqrt st w h
        s!"{sc es.1.d} {sc es.1.a} {sc es.1.die} {sc es.2.1} {sc es.2.2}"
  | _ => none

/-! ### ops on the documents -/

open FV.DieNet FV.DieObj in
structure CReq (α : Type) where
  st : Option (α × α)
  src : DieNet.Src α
  pf : List Char → Option α
  ry : String → Option (YV α)
  netl : Option (YVal α)

def pSrc : P (DieNet.Src α × (List Char → Option α) × (String → Option (YV α))) := do
  let t ← tok
  match t with
  | "T" => do let d ← pYV (α := α); pure (.tree d, fun _ => none, fun _ => none)
  | "O" => pure (.other, fun _ => none, fun _ => none)
  | "H" => do
      let k ← tok
      match k with
      | "Y" => do let d ← pYV (α := α); pure (.handle (some d), fun _ => none, fun _ => none)
      | "-" => pure (.handle none, fun _ => none, fun _ => none)
      | _ => failure
  | "S" => do
      let s ← pStr
      let table ← pList (do
        let piece ← pStr
        let k ← tok
        match k with
        | "n" => do let x ← pSc (α := α); pure (piece, some x)
        | "-" => pure (piece, none)
        | _ => failure)
      let k ← tok
      let tree : Option (YV α) ← (match k with
        | "Y" => do let d ← pYV (α := α); pure (some d)
        | "-" => pure none
        | _ => failure)
      let pf : List Char → Option α := fun cs =>
        match table.find? (fun e => e.1 == String.ofList cs) with
        | some e => e.2
        | none => none
      pure (.str s, pf, fun s' => if s' == s then tree else none)
  | _ => failure

def pNetl : P (Option (YVal α)) := do
  let t ← tok
  match t with
  | "-" => pure none
  | "N" => do let y ← pY (α := α); pure (some y)
  | _ => failure

def pCReq : P (CReq α) := do
  let st ← pState (α := α)
  let (src, pf, ry) ← pSrc (α := α)
  let netl ← pNetl (α := α)
  pure { st, src, pf, ry, netl }

def pPicksOpt : P (Option (List IRect)) := do
  let t ← tok
  match t with
  | "-" => pure none
  | "P" => do let l ← pList pIRect; pure (some l)
  | _ => failure

def pCall : P (DieObj.Call α) := do
  let t ← tok
  match t with
  | "s" => do let r ← pSc (α := α); let n ← pNat; pure (.split r n)
  | "g" => do let a ← pNat; let b ← pNat; pure (.grid a b)
  | _ => failure

def showObj (o : DieOut α) : String :=
  s!"{showRects o.specialized} || {showRects o.ground} || {showRects o.blockages} || {showRects o.fixed}"

/-- the constructor from the documents; the picks actually used are printed (the deterministic ones when none were given). -/
def runConstruct (sqrt : α → α) (tiny : α) (q : CReq α) (picks : Option (List IRect)) :
    Except String (DieOut α × String) :=
  let stog := fun (d a : α) => NL.stogC06 d a
  match DieNet.gridFor q.pf q.ry sqrt tiny stog q.st q.netl q.src with
  | .error e => .error e.toStr
  | .ok (inp, fixed, eps) =>
    let pk : Except Die.Err (List IRect) := match picks with
      | some p => .ok p
      | none => detPicks eps inp fixed
    match pk with
    | .error e => .error e.toStr
    | .ok p =>
      match DieNet.construct q.pf q.ry sqrt tiny stog q.st q.netl q.src (some p) with
      | .error e => .error e.toStr
      | .ok (o, e, st) => .ok (o, showOut o e st p [])

def docOp (sqrt : α → α) (tiny : α) (fuelOf : List (Rect α) → α → Nat → Nat) (op : String) (args : List String) :
    Option String :=
  match op with
  | "cgrid" => (runP (pCReq (α := α)) args).map fun q =>
      match DieNet.gridFor q.pf q.ry sqrt tiny (fun d a => NL.stogC06 d a) q.st q.netl q.src with
      | .error e => e.toStr
      | .ok (inp, fixed, eps) =>
        let g := gridOf eps inp fixed
        let nc := g.1.length - 1
        let nr := g.2.length - 1
        let m := occ g.1 g.2 (occRects inp fixed)
        let rows := (List.range nr).map fun r => String.join ((List.range nc).map fun c => b01 (m r c))
        s!"ok {showScs g.1} ; {showScs g.2} ; {nr}" ++ String.join (rows.map fun s => " " ++ s ++ ".")
  | "construct" => (runP (do let q ← pCReq (α := α); let p ← pPicksOpt; pure (q, p)) args).map fun (q, p) =>
      match runConstruct sqrt tiny q p with
      | .error e => e
      | .ok (_, line) => line
  | "session" => (runP (do let q ← pCReq (α := α); let p ← pPicksOpt; let cs ← pList (pCall (α := α)); pure (q, p, cs)) args).map
      fun (q, p, cs) =>
      match runConstruct sqrt tiny q p with
      | .error e => e
      | .ok (o, line) =>
        let r := DieObj.run fuelOf o cs
        line ++ String.join (r.2.map fun (o', err) =>
          " ;; " ++ (match err with | some e => e.toStr | none => "ok " ++ showObj o'))
  | "splitq" => (runP (do let ratio ← pSc (α := α); let n ← pNat; let rs ← pList pRect; pure (ratio, n, rs)) args).map
      fun (ratio, n, rs) => match SplitRects.splitRectangles (fuelOf rs ratio n) rs ratio n with
        | .error e => e.toStr ++ s!" fuel {fuelOf rs ratio n}"
        | .ok out => showRects out ++ s!" fuel {fuelOf rs ratio n}"
  | _ => none

end FV.Drv

import FV.Drv.Common
import FV.Model.Die
/-
  op table for the die model (property C01).

  request:  <mode> <op> <state> <sqrt> <doc> <fixed rects> [<picks>]
    state  = `u` (class-wide tolerance undefined) | `d <dist> <area>`
    sqrt   = the answer of `math.sqrt(min(w,h)*10e-12)` (used in mode Q; mode F computes `Float.sqrt`)
    doc    = prefix form of the YAML tree: `n <scalar>` | `s <string>` | `e` (empty string) | `z` (null) |
             `l <k> item*` | `m <k> (key item)*`
    picks  = <k> (rmin rmax cmin cmax)*
-/
namespace FV.Drv
open FV FV.Rect FV.Die

variable {α : Type} [Add α] [Sub α] [Mul α] [Div α] [Neg α] [LT α] [LE α]
  [DecidableLT α] [DecidableLE α] [NatCast α] [DecidableEq α] [ScalarIO α]

partial def pYV : P (YV α) := do
  let t ← tok
  match t with
  | "n" => do let x ← pSc (α := α); pure (.num x)
  | "s" => do let s ← tok; pure (.str s)
  | "e" => pure (.str "")
  | "z" => pure .null
  | "l" => do let l ← pList pYV; pure (.list l)
  | "m" => do
      let l ← pList (do let k ← tok; let v ← pYV; pure ((if k == "~e" then "" else k), v))
      pure (.map l)
  | _ => failure

def pState : P (Option (α × α)) := do
  let t ← tok
  match t with
  | "u" => pure none
  | "d" => do let d ← pSc (α := α); let a ← pSc; pure (some (d, a))
  | _ => failure

def pIRect : P IRect := do
  let a ← pNat; let b ← pNat; let c ← pNat; let d ← pNat
  pure ⟨a, b, c, d⟩

def showScs (l : List α) : String := s!"{l.length}" ++ String.join (l.map fun x => " " ++ sc x)

def showIRects (l : List IRect) : String :=
  s!"{l.length}" ++ String.join (l.map fun g => s!" {g.rmin} {g.rmax} {g.cmin} {g.cmax}")

structure DieReq (α : Type) where
  st : Option (α × α)
  sq : α
  doc : YV α
  fixed : List (Rect α)

def pDieReq : P (DieReq α) := do
  let st ← pState (α := α); let sq ← pSc; let doc ← pYV; let fixed ← pList pRect
  pure { st, sq, doc, fixed }

def showOut (o : DieOut α) (e : Eps α) (st : α × α) (picks : List IRect) (flags : List Bool) : String :=
  s!"ok {sc o.W} {sc o.H} ; {showRects o.specialized} ; {showRects o.ground} ; {showRects o.blockages} ; " ++
  s!"{showRects o.fixed} ; {showIRects picks} ; {String.join (flags.map b01)}. ; {sc e.d} {sc e.a} {sc e.die} {sc st.1} {sc st.2}"

/-- run the constructor model and print everything the harness compares. -/
def runDie (sqrtF : Option (α → α)) (q : DieReq α) (picks : Option (List IRect)) : String :=
  let sqrt : α → α := match sqrtF with | some f => f | none => fun _ => q.sq
  match parseDie q.doc with
  | .error e => e.toStr
  | .ok inp =>
    let es := mkEps sqrt q.st inp.W inp.H
    let pk : Except Err (List IRect) := match picks with
      | some p => .ok p
      | none => detPicks es.1 inp q.fixed
    match pk with
    | .error e => e.toStr
    | .ok p =>
      match dieModel sqrt q.st q.doc q.fixed (some p) with
      | .error e => e.toStr
      | .ok (o, e, st) =>
        let g := gridOf e inp q.fixed
        let nc := g.1.length - 1
        let nr := g.2.length - 1
        let m0 := occ g.1 g.2 (occRects inp q.fixed)
        let arr := toArr nr nc m0
        let flags := if nr * nc ≤ 64 then maxFlags g.1 g.2 nr nc (ofArr arr m0) p else []
        showOut o e st p flags

def dieOp (sqrtF : Option (α → α)) (op : String) (args : List String) : Option String :=
  match op with
  | "grid" => (runP (pDieReq (α := α)) args).map fun q =>
      let sqrt : α → α := match sqrtF with | some f => f | none => fun _ => q.sq
      match parseDie q.doc with
      | .error e => e.toStr
      | .ok inp =>
        let es := mkEps sqrt q.st inp.W inp.H
        let g := gridOf es.1 inp q.fixed
        let nc := g.1.length - 1
        let nr := g.2.length - 1
        let m := occ g.1 g.2 (occRects inp q.fixed)
        let rows := (List.range nr).map fun r => String.join ((List.range nc).map fun c => b01 (m r c))
        s!"ok {showScs g.1} ; {showScs g.2} ; {nr}" ++ String.join (rows.map fun s => " " ++ s ++ ".")
  | "accept" => (runP (do let q ← pDieReq (α := α); let p ← pList pIRect; pure (q, p)) args).map fun (q, p) =>
      runDie sqrtF q (some p)
  | "model" => (runP (pDieReq (α := α)) args).map fun q => runDie sqrtF q none
  | "gather" => (runP (do let e ← pSc (α := α); let rs ← pList pRect; pure (e, rs)) args).map fun (e, rs) =>
      let g := gather e rs
      s!"{showScs g.1} ; {showScs g.2}"
  | "pysum" => (runP (pList (pSc (α := α))) args).map fun l => sc (pySum l)
  | "eps" => (runP (do let st ← pState (α := α); let sq ← pSc; let w ← pSc; let h ← pSc; pure (st, sq, w, h)) args).map
      fun (st, sq, w, h) =>
        let sqrt : α → α := match sqrtF with | some f => f | none => fun _ => sq
        let es := mkEps sqrt st w h
        s!"{sc es.1.d} {sc es.1.a} {sc es.1.die} {sc es.2.1} {sc es.2.2}"
  | _ => none

end FV.Drv

import FV.Drv.Common
import FV.Model.Netlist
import FV.Model.NetlistStog
import FV.Model.YamlText
/-
  op table for the netlist reader / writer model (properties C04, C05).

  Document trees travel as a prefix token stream:
    N | T | F | I <int> | D <scalar> | S x<hex of utf-8> | L <n> item* | M <n> (key value)*
  Requests:   <mode> load <eps> <tree>     object rendering + derived quantities, or err:Assert:<which>
              <mode> dump <eps> <tree>     `dumpNetlist` of the loaded netlist, as a tree
              <mode> eps <tree>            the tolerance a netlist proposes when none is defined: `d<εd> d<εA>` | inf
              <mode> ident S x<hex>        valid_identifier
              <mode> modstog E <εd> <εA> <fixed> <hard> <list of rectangles>
                                            `Module.create_stog()` (C06): `ok <returned> <has_stog> R <n> rect*` | err:Assert
              T emit <tree>                 text layer (FV/Model/YamlText.lean): floats travel as `D x<hex of repr(x)>`;
                                            reply `ok <wfRoot 0|1> x<hex of emitText tree>`
              T parse x<hex of text>        `ok <tree>` (floats `D x<hex of the float() argument>`) | `none`
              T yamltext x<hex>             `read_yaml`'s text / file-name test: 0 | 1
              <mode> loadtext <eps> x<hex>  `Netlist(text)`: `parseText`, floats through `float()` (`fv`), then as `load`;
                                            `none` when the text is outside the subset of the text model
  <eps> = `U` (tolerance undefined: the netlist proposes one) or `E <εd> <εA>`.
  Scalars in replies carry the prefix `d` so that the harness knows where a tolerance may apply.

  `create_stog` is a parameter of the model; the instance executed here is `stogC06` (FV/Model/NetlistStog.lean): the C06
  model of `create_stog` on the tagged rectangles — the very function the headline theorems of C04 / C05 are about
  (`StogPerm`, `StogStable` proved for it in FV/Proofs/StogInst.lean).
-/
namespace FV.Drv
open FV FV.NL

instance {β : Type} : Inhabited (P β) := ⟨fun _ => none⟩

def hexByte (b : UInt8) : String :=
  String.ofList [hexOfNat (b.toNat / 16), hexOfNat (b.toNat % 16)]

def encStr (s : String) : String :=
  "x" ++ String.join (s.toUTF8.toList.map hexByte)

def decHex : List Char → Option (List UInt8)
  | [] => some []
  | a :: b :: r => do
      let x ← hexDigit? a
      let y ← hexDigit? b
      let rest ← decHex r
      pure (UInt8.ofNat (x * 16 + y) :: rest)
  | _ => none

def decStr (t : String) : Option String :=
  match t.toList with
  | 'x' :: r => do
      let bytes ← decHex r
      String.fromUTF8? (ByteArray.mk bytes.toArray)
  | _ => none

def pStr : P String := do
  let t ← tok
  match decStr t with | some s => pure s | none => failure

variable {α : Type} [Add α] [Sub α] [Mul α] [Div α] [Neg α] [LT α] [LE α]
  [DecidableLT α] [DecidableLE α] [NatCast α] [DecidableEq α] [ScalarIO α]

partial def pY : P (YVal α) := do
  let t ← tok
  match t with
  | "N" => pure .null
  | "T" => pure (.bool true)
  | "F" => pure (.bool false)
  | "I" => do let i ← pInt; pure (.int i)
  | "D" => do let x ← pSc; pure (.float x)
  | "S" => do let s ← pStr; pure (.str s)
  | "L" => do let l ← pList pY; pure (.seq l)
  | "M" => do let l ← pList (do let k ← pY; let v ← pY; pure (k, v)); pure (.map l)
  | _ => failure

partial def showY : YVal α → String
  | .null => "N"
  | .bool true => "T"
  | .bool false => "F"
  | .int i => s!"I {i}"
  | .float x => s!"D {sc x}"
  | .str s => s!"S {encStr s}"
  | .seq l => s!"L {l.length}" ++ String.join (l.map fun v => " " ++ showY v)
  | .map l => s!"M {l.length}" ++ String.join (l.map fun kv => " " ++ showY kv.1 ++ " " ++ showY kv.2)

/-! ### rendering of a loaded netlist -/

def showNum : Num α → String
  | .b true => "b1"
  | .b false => "b0"
  | .i v => s!"i{v}"
  | .f x => "d" ++ sc x

def dsc (x : α) : String := "d" ++ sc x

def showNRect (r : NRect α) : String :=
  s!"{showNum r.cx} {showNum r.cy} {showNum r.w} {showNum r.h} {encStr r.region} {b01 r.fixed} {b01 r.hard} {r.loc.toStr}"

def showOptPair : Option (α × α) → String
  | none => "-"
  | some p => s!"{dsc p.1} {dsc p.2}"

def showMod (m : NL.Mod α) : String :=
  s!"mod {encStr m.name} {b01 m.terminal}{b01 m.hard}{b01 m.fixed}{b01 m.flip} C {showOptPair m.center} A {showOptPair m.aspect} "
  ++ s!"G {m.areaRegions.length}" ++ String.join (m.areaRegions.map fun p => s!" {encStr p.1} {dsc p.2}")
  ++ s!" R {m.rects.length}" ++ String.join (m.rects.map fun r => " " ++ showNRect r)
  ++ s!" area {dsc m.area} S {b01 (hasStog m)}"

def showNet (e : Net α) : String :=
  s!"net {e.members.length}" ++ String.join (e.members.map fun s => " " ++ encStr s) ++ " " ++ dsc e.weight

/-- a rectangle of the flat list: roles are not part of the model of `Netlist._rectangles`. -/
def showNRectNoRole (r : NRect α) : String :=
  s!"{showNum r.cx} {showNum r.cy} {showNum r.w} {showNum r.h} {encStr r.region} {b01 r.fixed} {b01 r.hard} ?"

def showNetlist (sqrt : α → α) (n : Netlist α) (flat : List (NRect α)) : String :=
  s!"ok {n.modules.length}" ++ String.join (n.modules.map fun m => " " ++ showMod m)
  ++ s!" nets {n.nets.length}" ++ String.join (n.nets.map fun e => " " ++ showNet e)
  ++ s!" rects {flat.length}" ++ String.join (flat.map fun r => " " ++ showNRectNoRole r)
  ++ s!" fixed {(fixedOf flat).length}" ++ String.join ((fixedOf flat).map fun r => " " ++ showNRectNoRole r)
  ++ " wl " ++ (match n.wireLength sqrt with | some w => dsc w | none => "none")

def showErr (e : Err) : String := "err:Assert:" ++ (reprStr e).replace "FV.NL.Err." ""

/-- tolerance specification of a request. -/
def pEps : P (Option (α × α)) := do
  let t ← tok
  match t with
  | "U" => pure none
  | "E" => do let d ← pSc; let a ← pSc; pure (some (d, a))
  | _ => failure

/-- `Netlist(tree)` under the given tolerance state, with the flat rectangle list (document order). -/
def loadWith (sqrt : α → α) (tiny : α) (eps : Option (α × α)) (t : YVal α) : Except Err (Netlist α × List (NRect α)) :=
  match parseDoc t with
  | .error e => .error e
  | .ok (ms, es) =>
    -- undefined tolerance: computed after the centres (same rectangles), before the overlap check
    let (d, a) := match eps with
      | some p => p
      | none => (defaultEps sqrt tiny ms).getD (NL.zero, NL.zero)
    match finish (stogC06 d a) a ms es with
    | .error e => .error e
    | .ok n => .ok (n, ms.flatMap (·.rects))

/-- the decimal digits, sign and power of ten of a float literal `[-]digits[.digits][e±digits]`. -/
def litParts (s : String) : Bool × Nat × Int :=
  let cs := s.toList
  let (neg, b) := match cs with | '-' :: r => (true, r) | _ => (false, cs)
  let (mant, ex) := match YT.splitAt1 'e' b with | some (m, e) => (m, e) | none => (b, [])
  let (ip, fp) := match YT.splitAt1 '.' mant with | some (i, f) => (i, f) | none => (mant, [])
  let m : Nat := Nat.ofDigitChars 10 (ip ++ fp) 0
  let e : Int := match ex with
    | '-' :: d => -((Nat.ofDigitChars 10 d 0 : Nat) : Int)
    | '+' :: d => ((Nat.ofDigitChars 10 d 0 : Nat) : Int)
    | _ => 0
  (neg, m, e - fp.length)

/-- Python `float(s)` for the literals of the text model (observed bit-equal with CPython on 20 000 `repr`s; a test
    instrument of the driver, not part of any theorem). -/
def floatOfLit (s : String) : Float :=
  if s == "inf" then 1.0 / 0.0 else if s == "-inf" then -1.0 / 0.0 else if s == "nan" then 0.0 / 0.0 else
  let (neg, m, e) := litParts s
  let v := Float.ofScientific m (e < 0) e.natAbs
  if neg then -v else v

/-- the rational a finite double IS (sign, exponent and mantissa read off its bits). -/
def ratOfFloat (x : Float) : Rat :=
  let b : Nat := x.toBits.toNat
  let neg : Bool := b / 2 ^ 63 == 1
  let e : Nat := (b / 2 ^ 52) % 2048
  let m : Nat := b % 2 ^ 52
  let num : Nat := if e == 0 then m else m + 2 ^ 52
  let v : Rat :=
    if e == 2047 then 0
    else if e == 0 then mkRat (num : Int) (2 ^ 1074)
    else if e ≥ 1075 then ((num * 2 ^ (e - 1075) : Nat) : Rat)
    else mkRat (num : Int) (2 ^ (1075 - e))
  if neg then -v else v

/-- `float(s)` on the `Q` stream: the double `floatOfLit` computes, as an exact rational (`repr` is the SHORTEST decimal
    that reads back as the double, not its exact expansion). -/
def ratOfLit (s : String) : Rat := ratOfFloat (floatOfLit s)

def netlistOp (sqrt : α → α) (tiny : α) (fv : String → α) (op : String) (args : List String) : Option String :=
  match op with
  | "loadtext" => (runP (do let e ← pEps (α := α); let s ← pStr; pure (e, s)) args).map fun (e, s) =>
      match YT.parseText s.toList with
      | none => "none"
      | some t =>
        match loadWith sqrt tiny e (YT.mapF fv t) with
        | .error err => showErr err
        | .ok (n, flat) => showNetlist sqrt n flat
  | "load" => (runP (do let e ← pEps (α := α); let t ← pY; pure (e, t)) args).map fun (e, t) =>
      match loadWith sqrt tiny e t with
      | .error err => showErr err
      | .ok (n, flat) => showNetlist sqrt n flat
  | "dump" => (runP (do let e ← pEps (α := α); let t ← pY; pure (e, t)) args).map fun (e, t) =>
      match loadWith sqrt tiny e t with
      | .error err => showErr err
      | .ok (n, _) => "ok " ++ showY (dumpNetlist n)
  | "eps" => (runP (pY (α := α)) args).map fun t =>
      -- the tolerance the netlist proposes when none is defined (`defaultEps` on the parsed modules)
      match parseDoc t with
      | .error err => showErr err
      | .ok (ms, _) =>
        match defaultEps sqrt tiny ms with
        | none => "inf"
        | some (d, a) => s!"{dsc d} {dsc a}"
  | "ident" => (runP (pY (α := α)) args).map fun v => b01 v.validIdent
  | "modstog" => (runP (do let e ← pEps (α := α); let fx ← pBool; let hd ← pBool; let t ← pY (α := α); pure (e, fx, hd, t)) args).map
      fun ((e, fx, hd, t) : Option (α × α) × Bool × Bool × YVal α) =>
      -- `Module.create_stog()` on a module holding the given rectangles (C06): returned value, `has_stog`, the list
      match e with
      | none => "bad-op"
      | some (d, a) =>
        match (match t with | .seq [] => (Except.ok [] : Except Err (List (NRect α))) | _ => parseRects fx hd t) with
        | .error err => showErr err
        | .ok rects =>
          let m : NL.Mod α := { name := "M", center := none, aspect := none, terminal := false, hard := hd, fixed := fx,
                                flip := false, areaRegions := [], rects := rects }
          match Mod.createStog d a m with
          | none => "err:Assert"
          | some (b, m') =>
            s!"ok {b01 b} {b01 (hasStog m')} R {m'.rects.length}" ++ String.join (m'.rects.map fun r => " " ++ showNRect r)
  | _ => none

/-! ### text layer (mode `T`) -/

partial def pYS : P (YVal String) := do
  let t ← tok
  match t with
  | "N" => pure .null
  | "T" => pure (.bool true)
  | "F" => pure (.bool false)
  | "I" => do let i ← pInt; pure (.int i)
  | "D" => do let s ← pStr; pure (.float s)
  | "S" => do let s ← pStr; pure (.str s)
  | "L" => do let l ← pList pYS; pure (.seq l)
  | "M" => do let l ← pList (do let k ← pYS; let v ← pYS; pure (k, v)); pure (.map l)
  | _ => failure

partial def showYS : YVal String → String
  | .null => "N"
  | .bool true => "T"
  | .bool false => "F"
  | .int i => s!"I {i}"
  | .float x => s!"D {encStr x}"
  | .str s => s!"S {encStr s}"
  | .seq l => s!"L {l.length}" ++ String.join (l.map fun v => " " ++ showYS v)
  | .map l => s!"M {l.length}" ++ String.join (l.map fun kv => " " ++ showYS kv.1 ++ " " ++ showYS kv.2)

def textOp (op : String) (args : List String) : Option String :=
  match op with
  | "emit" => (runP pYS args).map fun t =>
      s!"ok {b01 (YT.wfRoot t)} {encStr (String.ofList (YT.emitText t))}"
  | "parse" => (runP pStr args).map fun s =>
      match YT.parseText s.toList with
      | some t => "ok " ++ showYS t
      | none => "none"
  | "yamltext" => (runP pStr args).map fun s => b01 (YT.isYamlText s.toList)
  | _ => none

/-- square root of a non-negative rational to 30 decimal digits (wire length at `Rat`; compared with a tolerance). -/
def ratSqrt (q : Rat) : Rat :=
  if q ≤ 0 then 0 else
  let scale : Nat := 10 ^ 30
  let n := q.num.toNat * scale * scale / q.den
  mkRat (Nat.sqrt n) scale

end FV.Drv

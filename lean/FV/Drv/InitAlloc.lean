import FV.Drv.Common
import FV.Model.InitAlloc
/-
  op table for the initial-allocation model (property C03).

    <mode> cia <epsA> <includeZero> <nref> rect* <nfix> rect* <nmod> module*
      rect   = cx cy w h region fixed hard
      module = name fixed <nrect> rect* <nareas> area* <hasCenter> [cx cy]

  reply:  ok <ncells> (| cx cy w h region fixed hard <k> (name ratio)* depth)* # bbox cx cy w h
             # <nstats> (| name area cx cy)*
     or   err:Assert | err:ZeroDiv
    <mode> ia <epsA> <includeZero> <ncells> (rect depth)* <nmod> module*     (same reply)
    <mode> psum <n> x*        → Python `sum()` of the floats
    <mode> eps6               → the literal 1e-6
-/
namespace FV.Drv
open FV FV.InitAlloc

variable {α : Type} [Add α] [Sub α] [Mul α] [Div α] [Neg α] [LT α] [LE α]
  [DecidableLT α] [DecidableLE α] [NatCast α] [DecidableEq α] [ScalarIO α]

def pModule : P (Module α) := do
  let name ← tok
  let fixed ← pBool
  let rects ← pList (pRect (α := α))
  let areas ← pList (pSc (α := α))
  let hc ← pBool
  if hc then
    let cx ← pSc; let cy ← pSc
    pure ⟨name, fixed, rects, areas, some (cx, cy)⟩
  else pure ⟨name, fixed, rects, areas, none⟩

def showICell (c : Cell α) : String :=
  s!"{sc c.rect.cx} {sc c.rect.cy} {sc c.rect.w} {sc c.rect.h} {c.rect.region} {b01 c.rect.fixed} {b01 c.rect.hard} " ++
  s!"{c.alloc.length}" ++ String.join (c.alloc.map fun p => s!" {p.1} {sc p.2}") ++ s!" {c.depth}"

def showIAlloc : Except IErr (Allocation α) → String
  | .error e => "err:" ++ e.toStr
  | .ok a =>
    s!"ok {a.cells.length}" ++ String.join (a.cells.map fun c => " | " ++ showICell c) ++
    s!" # {sc a.bbox.cx} {sc a.bbox.cy} {sc a.bbox.w} {sc a.bbox.h}" ++
    s!" # {a.stats.length}" ++
    String.join (a.stats.map fun s => s!" | {s.1} {sc s.2.1} {sc s.2.2.1} {sc s.2.2.2}")

def initAllocOp (sqrt : α → α) (op : String) (args : List String) : Option String :=
  match op with
  | "cia" =>
    (runP (do
      let e ← pSc (α := α); let iz ← pBool
      let refi ← pList (pRect (α := α)); let fixd ← pList (pRect (α := α))
      let mods ← pList (pModule (α := α))
      pure (e, iz, refi, fixd, mods)) args).map fun (e, iz, refi, fixd, mods) =>
        showIAlloc (createInitialAllocation sqrt e iz mods refi fixd)
  | "ia" =>
    (runP (do
      let e ← pSc (α := α); let iz ← pBool
      let cells ← pList (do let r ← pRect (α := α); let d ← pNat; pure (r, d))
      let mods ← pList (pModule (α := α))
      pure (e, iz, cells, mods)) args).map fun (e, iz, cells, mods) =>
        showIAlloc (allocationThenInitial sqrt e iz mods cells)
  | "psum" => (runP (pList (pSc (α := α))) args).map fun xs => sc (pySum xs)
  | "eps6" => (runP (pure ()) args).map fun _ => sc (eps6 : α)
  | _ => none

end FV.Drv

import FV.Drv.Common
import FV.Model.RectSearch
import FV.Model.RectSat
import FV.Model.RectIO
/- op table for the rectilinear shape search model (property C08).  Coordinates are rationals (`Q` mode only). -/
namespace FV.Drv
open FV FV.RectSearch

def pCell : P (Cell Rat) := do
  let x0 ← pSc; let y0 ← pSc; let x1 ← pSc; let y1 ← pSc
  pure ⟨x0, y0, x1, y1⟩

def showDir : Dir → String
  | .north => "N" | .south => "S" | .east => "E" | .west => "W"

def showVar : Var Rat → String
  | .sel b => s!"s:{b}"
  | .cell i b => s!"c:{i}:{b}"
  | .lilx i x => s!"x:{i}:{sc x}"
  | .bigx i x => s!"X:{i}:{sc x}"
  | .lily i y => s!"y:{i}:{sc y}"
  | .bigy i y => s!"Y:{i}:{sc y}"
  | .dir i d => s!"d:{i}:{showDir d}"

def showLit (l : Lit Rat) : String := (if l.s then "+" else "-") ++ showVar l.v

def showConstr : Constr Rat → String
  | .clause ls => "C" ++ String.join (ls.map fun l => " " ++ showLit l)
  | .amo ls => "A" ++ String.join (ls.map fun l => " " ++ showLit l)
  | .atLeastOne ls => "L" ++ String.join (ls.map fun l => " " ++ showLit l)
  | .pbGe ts k => s!"P {k}" ++ String.join (ts.map fun t => s!" {t.1}*{showLit t.2}")

def showConstrs : Option (List (Constr Rat)) → String
  | none => "err:KeyError"
  | some cs => s!"{cs.length}" ++ String.join (cs.map fun c => " | " ++ showConstr c)

def showPairs (l : List (Rat × Rat)) : String := String.join (l.map fun p => s!" {sc p.1}>{sc p.2}")
def showList (l : List Rat) : String := String.join (l.map fun x => " " ++ sc x)

def showBox : Option (Box Rat) → String
  | none => "inf"
  | some r => s!"{sc r.X0} {sc r.Y0} {sc r.X1} {sc r.Y1}"

def pProblem : P (Problem Rat) := do
  let ip ← pList pCell
  let selA ← pList pInt
  let realA ← pList pInt
  pure { ip, C := defineCoords ip, selA, realA }

/-- assignment given by the lists of true `cell` and true `sel` variables (everything else false). -/
def assignOf (cells : List (Nat × Nat)) (sels : List Nat) : Assign Rat
  | .cell i b => cells.contains (i, b)
  | .sel b => sels.contains b
  | _ => false

/-! ### `rect_io.select_box` / `rect.area` (both scalar modes) -/
section IO
open FV.RectIO
variable {α : Type} [Add α] [Sub α] [Mul α] [Div α] [LT α] [DecidableLT α] [NatCast α] [ScalarIO α] [TruncInt α]

def pIRect : P (IRect α) := do
  let xc ← pSc; let yc ← pSc; let w ← pSc; let h ← pSc
  let f ← tok
  match f with
  | "N" => pure ⟨xc, yc, w, h, none⟩
  | "M" => do
      let ds ← pList (pList (do let k ← tok; let v ← pSc; pure (k, v)))
      pure ⟨xc, yc, w, h, some ds⟩
  | _ => failure

def showBoxes (l : List (Cell α × α)) : String :=
  s!"{l.length}" ++ String.join (l.map fun b => s!" | {sc b.1.x0} {sc b.1.y0} {sc b.1.x1} {sc b.1.y1} {sc b.2}")

/-- `selbox <sel> <n> <irect>*` and `areas <factor> <n> (x0 y0 x1 y1 p)*` -/
def ioOp (op : String) (args : List String) : Option String :=
  match op with
  | "selbox" => (runP (do let sel ← tok; let l ← pList (pIRect (α := α)); pure (sel, l)) args).map fun (sel, l) =>
      match selectBox sel l with
      | some r => showBoxes r
      | none => "err:Exception"
  | "galloc" => (runP (pList (do
        let x ← pSc (α := α); let y ← pSc; let w ← pSc; let h ← pSc
        let al ← pList (do let k ← tok; let v ← pSc; pure (k, v))
        pure ((x, y, w, h), al))) args).map fun cells =>
      -- the records `get_alloc` builds, in the wire form of `selbox`'s input
      let recs := getAlloc cells
      s!"{recs.length}" ++ String.join (recs.map fun r =>
        s!" {sc r.xc} {sc r.yc} {sc r.w} {sc r.h}" ++ (match r.mods with
          | none => " N"
          | some ds => s!" M {ds.length}" ++ String.join (ds.map fun d =>
              s!" {d.length}" ++ String.join (d.map fun q => s!" {q.1} {sc q.2}"))))
  | "areas" => (runP (do
        let f ← pNat
        let l ← pList (do let x0 ← pSc (α := α); let y0 ← pSc; let x1 ← pSc; let y1 ← pSc; let p ← pSc; pure ((⟨x0, y0, x1, y1⟩ : Cell α), p))
        pure (f, l)) args).map fun (f, l) =>
      " ".intercalate (l.map fun b => toString (areaSel f b.1 b.2)) ++ " | " ++ " ".intercalate (l.map fun b => toString (areaReal f b.1))
  | _ => none
end IO

def rectOp (op : String) (args : List String) : Option String :=
  match op with
  | "coords" => (runP (pList pCell) args).map fun ip =>
      let C := defineCoords ip
      s!"blocks {C.blocks.length} | xs{showList C.xcoords} | ys{showList C.ycoords} | px{showPairs C.prevX} | " ++
      s!"py{showPairs C.prevY} | nx{showPairs C.nextX} | ny{showPairs C.nextY}"
  | "ebb" => (runP (do let i ← pNat; let c ← pNat; let ip ← pList pCell; pure (i, c, ip)) args).map fun (i, c, ip) =>
      showConstrs (enforceBB (defineCoords ip) ip i c)
  | "solvec" => (runP (do let k ← pNat; let ratio ← pInt; let d ← pInt; let p ← pProblem; pure (k, ratio, d, p)) args).map
      fun (k, ratio, d, p) => showConstrs (solveConstrs p ratio d k)
  | "result" => (runP (do
        let k ← pNat; let ratio ← pInt; let p ← pProblem
        let cells ← pList (do let i ← pNat; let b ← pNat; pure (i, b))
        let sels ← pList pNat
        pure (k, ratio, p, cells, sels)) args).map fun (k, ratio, p, cells, sels) =>
      match solveResult p ratio k (some (assignOf cells sels)) with
      | .insat => "insat"
      | .found cost rects => s!"found {cost}" ++ String.join (rects.map fun r => " | " ++ showBox r)
  | "chain" => (runP (do
        -- what `main` does between the parsed allocation and the SAT solver: select_box, definecoords, area, and the
        -- constraints `solve` posts
        let k ← pNat; let ratio ← pInt; let d ← pInt; let factor ← pNat; let sel ← tok
        let ifile ← pList (pIRect (α := Rat))
        pure (k, ratio, d, factor, sel, ifile)) args).map fun (k, ratio, d, factor, sel, ifile) =>
      match RectIO.selectBox sel ifile with
      | none => "err:Exception"
      | some boxes => showConstrs (solveConstrs (RectIO.problemOf factor boxes) ratio d k)
  | "retval" => (runP (do
        -- the value `rect.solve` returns, from the raw answers of the SAT layer: `sm.solve()` and the dictionary `sm.model`
        let k ← pNat; let ratio ← pInt; let p ← pProblem
        let sat ← pBool
        let mdl ← pList (do let nm ← tok; let x ← pInt; pure (Sat.varOfName nm, x))
        pure (k, ratio, p, sat, mdl)) args).map fun (k, ratio, p, sat, mdl) =>
      match RectSat.solveReturn (RectSat.pyName sc) p ratio k sat { model := mdl } with
      | .insat => "insat"
      | .raised => "err:Exception"
      | .found cost rects => s!"found {cost}" ++ String.join (rects.map fun r => " | " ++ showBox r)
  | "insat" => (runP (do let k ← pNat; let ratio ← pInt; let p ← pProblem; pure (k, ratio, p)) args).map
      fun (k, ratio, p) =>
      match solveResult p ratio k none with
      | .insat => "insat"
      | .found .. => "found"
  | _ => none

end FV.Drv

import FV.Drv.Common
import FV.Model.RectSearch
/- op table for the rectilinear shape search model (property C08).  Coordinates are rationals (`Q` mode only). -/
namespace FV.Drv
open FV FV.RectSearch

def pCell : P (Cell Rat) := do
  let x0 ← pSc; let y0 ← pSc; let x1 ← pSc; let y1 ← pSc
  pure ⟨x0, y0, x1, y1⟩

def showDir : Dir → String
  | .north => "N" | .south => "S" | .east => "E" | .west => "W"

def showVar : Var Rat → String
  | .sel b => s!"s:{b}"
  | .cell i b => s!"c:{i}:{b}"
  | .lilx i x => s!"x:{i}:{sc x}"
  | .bigx i x => s!"X:{i}:{sc x}"
  | .lily i y => s!"y:{i}:{sc y}"
  | .bigy i y => s!"Y:{i}:{sc y}"
  | .dir i d => s!"d:{i}:{showDir d}"

def showLit (l : Lit Rat) : String := (if l.s then "+" else "-") ++ showVar l.v

def showConstr : Constr Rat → String
  | .clause ls => "C" ++ String.join (ls.map fun l => " " ++ showLit l)
  | .amo ls => "A" ++ String.join (ls.map fun l => " " ++ showLit l)
  | .atLeastOne ls => "L" ++ String.join (ls.map fun l => " " ++ showLit l)
  | .pbGe ts k => s!"P {k}" ++ String.join (ts.map fun t => s!" {t.1}*{showLit t.2}")

def showConstrs : Option (List (Constr Rat)) → String
  | none => "err:KeyError"
  | some cs => s!"{cs.length}" ++ String.join (cs.map fun c => " | " ++ showConstr c)

def showPairs (l : List (Rat × Rat)) : String := String.join (l.map fun p => s!" {sc p.1}>{sc p.2}")
def showList (l : List Rat) : String := String.join (l.map fun x => " " ++ sc x)

def showBox : Option (Box Rat) → String
  | none => "inf"
  | some r => s!"{sc r.X0} {sc r.Y0} {sc r.X1} {sc r.Y1}"

def pProblem : P (Problem Rat) := do
  let ip ← pList pCell
  let selA ← pList pInt
  let realA ← pList pInt
  pure { ip, C := defineCoords ip, selA, realA }

/-- assignment given by the lists of true `cell` and true `sel` variables (everything else false). -/
def assignOf (cells : List (Nat × Nat)) (sels : List Nat) : Assign Rat
  | .cell i b => cells.contains (i, b)
  | .sel b => sels.contains b
  | _ => false

def rectOp (op : String) (args : List String) : Option String :=
  match op with
  | "coords" => (runP (pList pCell) args).map fun ip =>
      let C := defineCoords ip
      s!"blocks {C.blocks.length} | xs{showList C.xcoords} | ys{showList C.ycoords} | px{showPairs C.prevX} | " ++
      s!"py{showPairs C.prevY} | nx{showPairs C.nextX} | ny{showPairs C.nextY}"
  | "ebb" => (runP (do let i ← pNat; let c ← pNat; let ip ← pList pCell; pure (i, c, ip)) args).map fun (i, c, ip) =>
      showConstrs (enforceBB (defineCoords ip) ip i c)
  | "solvec" => (runP (do let k ← pNat; let ratio ← pInt; let d ← pInt; let p ← pProblem; pure (k, ratio, d, p)) args).map
      fun (k, ratio, d, p) => showConstrs (solveConstrs p ratio d k)
  | "result" => (runP (do
        let k ← pNat; let ratio ← pInt; let p ← pProblem
        let cells ← pList (do let i ← pNat; let b ← pNat; pure (i, b))
        let sels ← pList pNat
        pure (k, ratio, p, cells, sels)) args).map fun (k, ratio, p, cells, sels) =>
      match solveResult p ratio k (some (assignOf cells sels)) with
      | .insat => "insat"
      | .found cost rects => s!"found {cost}" ++ String.join (rects.map fun r => " | " ++ showBox r)
  | "insat" => (runP (do let k ← pNat; let ratio ← pInt; let p ← pProblem; pure (k, ratio, p)) args).map
      fun (k, ratio, p) =>
      match solveResult p ratio k none with
      | .insat => "insat"
      | .found .. => "found"
  | _ => none

end FV.Drv

import FV.Model.Scalar
import FV.Model.Geom
/-
  Driver plumbing: token parsing / printing shared by all op tables.
  A request line is `<mode> <op> <tok>*` with mode `F` (hex doubles) or `Q` (rationals);
  the reply is one line.  `bad-op` is returned for anything that does not parse — never a default.
-/
namespace FV.Drv

open FV

/-- A tiny parser monad over the remaining tokens. -/
abbrev P := StateT (List String) Option

def tok : P String := fun s => match s with | [] => none | t :: r => some (t, r)
def pNat : P Nat := do let t ← tok; match t.toNat? with | some n => pure n | none => failure
def pInt : P Int := do let t ← tok; match t.toInt? with | some n => pure n | none => failure
def pBool : P Bool := do let t ← tok; if t == "1" then pure true else if t == "0" then pure false else failure
def pSc {α} [ScalarIO α] : P α := do let t ← tok; match ScalarIO.parse t with | some x => pure x | none => failure
def pEnd : P Unit := fun s => match s with | [] => some ((), []) | _ => none

def pList {β} (p : P β) : P (List β) := do
  let n ← pNat
  let rec go : Nat → List β → P (List β)
    | 0, acc => pure acc.reverse
    | k+1, acc => do let x ← p; go k (x :: acc)
  go n []

def pLoc : P Loc := do
  let t ← tok
  match t with
  | "T" => pure .trunk | "N" => pure .north | "S" => pure .south
  | "E" => pure .east | "W" => pure .west | "X" => pure .nopoly | _ => failure

/-- rectangle on the wire: `cx cy w h region fixed hard`. -/
def pRect {α} [ScalarIO α] : P (Rect α) := do
  let cx ← pSc; let cy ← pSc; let w ← pSc; let h ← pSc
  let region ← tok; let fixed ← pBool; let hard ← pBool
  pure { cx, cy, w, h, region, fixed, hard }

def sc {α} [ScalarIO α] (x : α) : String := ScalarIO.print x
def b01 (b : Bool) : String := if b then "1" else "0"

def showRect {α} [ScalarIO α] (r : Rect α) : String :=
  s!"{sc r.cx} {sc r.cy} {sc r.w} {sc r.h} {r.region} {b01 r.fixed} {b01 r.hard} {r.loc.toStr}"

def showRects {α} [ScalarIO α] (rs : List (Rect α)) : String :=
  s!"{rs.length}" ++ String.join (rs.map fun r => " | " ++ showRect r)

/-- run a parser on the argument tokens; `none` = malformed request. -/
def runP {β} (p : P β) (args : List String) : Option β :=
  match (do let x ← p; pEnd; pure x : P β) args with
  | some (x, _) => some x
  | none => none

end FV.Drv

namespace FV.Drv

partial def loop (handle : String → String) (hin hout : IO.FS.Stream) : IO Unit := do
  let line ← hin.getLine
  if line.isEmpty then return ()
  let l := (line.replace "\n" "").replace "\r" ""
  hout.putStrLn (handle l)
  loop handle hin hout

/-- read requests from stdin until EOF, one reply line per request. -/
def mainLoop (handle : String → String) : IO Unit := do
  loop handle (← IO.getStdin) (← IO.getStdout)

/-- split a request line into `mode`, `op`, `args`. -/
def splitReq (line : String) : Option (String × String × List String) :=
  match (line.splitOn " ").filter (· ≠ "") with
  | mode :: op :: args => some (mode, op, args)
  | _ => none

end FV.Drv

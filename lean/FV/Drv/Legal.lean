import FV.Drv.Common
import FV.Model.Disc
import FV.Model.Legal
import FV.Model.LegalDecl
/- op table for the disc-overlap model (C17) and the legaliser constraint system (C09); `Float` only. -/
namespace FV.Drv
open FV FV.Legal

/-! ### C17 -/

def showExcept (r : Except Disc.PyErr Float) : String :=
  match r with | .ok v => sc v | .error e => "err:" ++ e.toStr

def discOp (op : String) (args : List String) : Option String :=
  match op with
  | "disc" => (runP (do let x1 ← pSc (α := Float); let y1 ← pSc; let r1 ← pSc; let x2 ← pSc; let y2 ← pSc; let r2 ← pSc
                        pure (x1, y1, r1, x2, y2, r2)) args).map fun (x1, y1, r1, x2, y2, r2) =>
      showExcept (Disc.area Disc.floatFns x1 y1 r1 x2 y2 r2)
  | "discd" => (runP (do let r1 ← pSc (α := Float); let r2 ← pSc; let d ← pSc; pure (r1, r2, d)) args).map
      fun (r1, r2, d) => showExcept (Disc.areaD Disc.floatFns r1 r2 d)
  | "dist" => (runP (do let x1 ← pSc (α := Float); let y1 ← pSc; let x2 ← pSc; let y2 ← pSc; pure (x1, y1, x2, y2)) args).map
      fun (x1, y1, x2, y2) => showExcept (Disc.dist Disc.floatFns x1 y1 x2 y2)
  | _ => none

/-! ### C09 -/

def showVar (q : Var) : String := s!"v:{q.k.toStr}{q.m}i{q.i}"

/-- prefix serialisation of a tree, one token per node. -/
def showExpr : Expr Float → String
  | .cst c => "c:" ++ sc c
  | .var q => showVar q
  | .add a b => "+ " ++ showExpr a ++ " " ++ showExpr b
  | .sub a b => "- " ++ showExpr a ++ " " ++ showExpr b
  | .mul a b => "* " ++ showExpr a ++ " " ++ showExpr b
  | .div a b => "/ " ++ showExpr a ++ " " ++ showExpr b
  | .pow a b => "^ " ++ showExpr a ++ " " ++ showExpr b
  | .sqrt a => "s " ++ showExpr a

def showEqn (e : Eqn Float) : String :=
  s!"{e.group}|{e.name}|{e.cmp.toStr}|{b01 e.hard}|{showExpr e.lhs}|{showExpr e.rhs}"

def pBox : P (Box Float) := do
  let x ← pSc; let y ← pSc; let w ← pSc; let h ← pSc; pure ⟨x, y, w, h⟩

def pInRect : P (InRect Float) := do let b ← pBox; let l ← pLoc; pure ⟨b, l⟩

def pInModule : P (InModule Float) := do
  let hard ← pBool; let fixed ← pBool; let area ← pSc; let rects ← pList pInRect
  pure { rects, hard, fixed, area }

def pParams : P (Params Float) := do let dw ← pSc; let dh ← pSc; let r ← pSc; pure ⟨dw, dh, r⟩

def showBox (b : Box Float) : String := s!"{sc b.x} {sc b.y} {sc b.w} {sc b.h}"
def showBoxes (l : List (Box Float)) : String := s!"{l.length}" ++ String.join (l.map fun b => " " ++ showBox b)
def showDict (d : Dict Float) : String := "{" ++ " ".intercalate (d.map fun (i, x) => s!"{i}:{sc x}") ++ "}"
def showMatrix (t : Matrix Float) : String := "{" ++ " ".intercalate (t.map fun (k, d) => s!"{k}:{showDict d}") ++ "}"

def showUtils (U : Utils Float) : String :=
  "ml " ++ " | ".intercalate (U.ml.map fun b =>
      s!"{showBox b.trunk} N {showBoxes b.N} S {showBoxes b.S} E {showBoxes b.E} W {showBoxes b.W}") ++
  " ; al " ++ " ".intercalate (U.al.map sc) ++
  " ; xl " ++ showMatrix U.xl ++ " ; yl " ++ showMatrix U.yl ++
  " ; wl " ++ showMatrix U.wl ++ " ; hl " ++ showMatrix U.hl

def genOf (P : Params Float) (mods : List (InModule Float)) : Except PyErr (List (Eqn Float)) := do
  let U ← netlistToUtils mods
  gen P U

def shapeOk (mods : List (InModule Float)) (cfg : List (List (Box Float))) : Bool :=
  mods.length == cfg.length && (mods.zip cfg).all fun (m, bs) => (split m.rects).c == bs.length

def legalOp (op : String) (args : List String) : Option String :=
  match op with
  | "utils" => (runP (pList pInModule) args).map fun mods =>
      match netlistToUtils mods with | .ok U => showUtils U | .error e => "err:" ++ e.toStr
  | "gen" => (runP (do let p ← pParams; let ms ← pList pInModule; pure (p, ms)) args).map fun (p, ms) =>
      match genOf p ms with
      | .ok es => s!"{es.length}" ++ String.join (es.map fun e => " ; " ++ showEqn e)
      | .error e => "err:" ++ e.toStr
  | "eval" => (runP (do let p ← pParams; let eps ← pSc (α := Float); let tol ← pSc (α := Float)
                        let ms ← pList pInModule; let cfg ← pList (pList pBox)
                        pure (p, eps, tol, ms, cfg)) args).bind fun (p, eps, tol, ms, cfg) =>
      if !shapeOk ms cfg then none else some <|
      match genOf p ms with
      | .ok es =>
          let env := envOf cfg
          let eps := epsValue (1e-6 : Float) eps   -- `eps` on the wire is the plain value of the slack tree
          s!"{es.length}" ++ String.join (es.map fun e =>
            let sh (o : Option Float) : String := match o with | some x => sc x | none => "none"
            let mt : String := match e.met floatFns env eps tol with | some b => b01 b | none => "none"
            s!" ; {sh (e.lhs.eval floatFns env)} {sh (e.rhs.eval floatFns env)} {mt}")
      | .error e => "err:" ++ e.toStr
  | "decls" => (runP (do let p ← pParams; let ms ← pList pInModule; pure (p, ms)) args).map fun (p, ms) =>
      match netlistToUtils ms with
      | .ok U =>
          let ds := decls p U
          s!"{ds.length}" ++ String.join (ds.map fun d => s!" ; {d.n.toStr}|{sc d.value}|{sc d.lb}|{sc d.ub}")
      | .error e => "err:" ++ e.toStr
  | "slack" => (runP (do let d ← pSc (α := Float); let i ← pSc (α := Float); let t ← pSc (α := Float); pure (d, i, t)) args).map
      fun (d, i, t) => match slackRaw floatFns d i t with
        | some raw => s!"{sc raw} {sc (epsValue (1e-6 : Float) raw)}"
        | none => "none"
  | "step" => (runP (do let p ← pParams; let ms ← pList pInModule; pure (p, ms)) args).map fun (p, ms) =>
      match netlistToUtils ms with
      | .ok U =>
          let es := stepEqsOf p U
          s!"{es.length}" ++ String.join (es.map fun e => " ; " ++ showEqn e)
      | .error e => "err:" ++ e.toStr
  | "stepeval" => (runP (do let p ← pParams; let eps ← pSc (α := Float); let tol ← pSc (α := Float)
                            let ms ← pList pInModule; let cfg ← pList (pList pBox)
                            pure (p, eps, tol, ms, cfg)) args).bind fun (p, eps, tol, ms, cfg) =>
      if !shapeOk ms cfg then none else some <|
      match netlistToUtils ms with
      | .ok U =>
          let es := stepEqsOf p U
          let env := envOf cfg
          let eps := epsValue (1e-6 : Float) eps
          s!"{es.length}" ++ String.join (es.map fun e =>
            let sh (o : Option Float) : String := match o with | some x => sc x | none => "none"
            let mt : String := match e.met floatFns env eps tol with | some b => b01 b | none => "none"
            s!" ; {sh (e.lhs.eval floatFns env)} {sh (e.rhs.eval floatFns env)} {mt}")
      | .error e => "err:" ++ e.toStr
  | "met" => (runP (do let c ← tok; let hard ← pBool; let l ← pSc (α := Float); let r ← pSc (α := Float)
                       let eps ← pSc (α := Float); let tol ← pSc (α := Float); pure (c, hard, l, r, eps, tol)) args).bind
      fun (c, hard, l, r, eps, tol) =>
        let cmp? : Option Cmp := if c == "LE" then some .le else if c == "GE" then some .ge else if c == "EQ" then some .eq else none
        cmp?.map fun cmp =>
          let e : Eqn Float := ⟨"", "", .cst l, cmp, .cst r, hard⟩
          match e.met floatFns (fun _ => 0.0) (epsValue (1e-6 : Float) eps) tol with | some b => b01 b | none => "none"
  | "enforce" => (runP (do let p ← pParams; let ms ← pList pInModule; pure (p, ms)) args).map fun (p, ms) =>
      match netlistToUtils ms with
      | .ok U =>
          let thr := distThreshold fifth p
          s!"{sc thr} ;" ++ String.join ((enforceFlags thr (inputBoxes U)).map fun b => " " ++ b01 b)
      | .error e => "err:" ++ e.toStr
  | "rid" => (runP (do let p ← pParams; let perc ← pSc (α := Float); let ms ← pList pInModule
                       let cfg ← pList (pList pBox); pure (p, perc, ms, cfg)) args).bind fun (p, perc, ms, cfg) =>
      if !shapeOk ms cfg then none else some <|
      match netlistToUtils ms with
      | .ok U =>
          let flags := cfg.map fun bs => turnOff perc bs (bs.map fun _ => true)
          if flags.any (·.isNone) then "err:ZeroDivisionError" else
          let fl := flags.map (·.getD [])
          let es := (idxFrom 0 (U.ml.zip fl)).flatMap fun (m, (b, en)) => macroEqsEn p m b en
          let cfg' := (cfg.zip fl).map fun (bs, en) => ridAssign bs en
          "en " ++ " | ".intercalate (fl.map fun en => " ".intercalate (en.map b01)) ++
          " ; cfg " ++ " | ".intercalate (cfg'.map fun bs => " ".intercalate (bs.map showBox)) ++
          s!" ; {es.length}" ++ String.join (es.map fun e => " ; " ++ showEqn e)
      | .error e => "err:" ++ e.toStr
  | _ => none

end FV.Drv

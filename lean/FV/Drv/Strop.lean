import FV.Drv.Common
import FV.Model.Strop
/-
  op table for the STrOP model (property C15).
    G strop|pt|tm <k> <row>*            grid ops (rows are strings of 0/1; ragged / empty grids allowed)
    G which <sel> <k> <row>*            `rectangles(which)` of every instance (`-` = empty selector)
    G rowiv <row>                        `_row_interval`
    F|Q decomp <n> (<x> <y>)*            `strop_decomposition`
    F|Q pip <px> <py> <n> (<x> <y>)*     `is_point_inside_polygon`
    F|Q vgrid <n> (<x> <y>)*             the 0/1 matrix built from the vertex list
    G mk <r1> <r2> <c1> <c2> <k> <row>*  `StropInstance(Strop(grid), trunk)` for an arbitrary trunk rectangle
    F|Q traces <σ> <k> <row>* <n> (<x> <y>)*   `tracesGrid` (hypothesis of `matrix_of_traced_polygon`): "<rect> <dims> <bnd>"
    F|Q shoelace <n> (<x> <y>)*          `shoelace2` (twice the signed area)
    F|Q rcount <px> <py> <n> (<x> <y>)*  `rectilinear` and `rightCount` (closed form of the even–odd test)
-/
namespace FV.Drv
open FV FV.Strop

def pRow : P (List Bool) := do
  let t ← tok
  if t == "." then pure [] else
  if t.toList.all (fun c => c == '0' || c == '1') then pure (t.toList.map (· == '1')) else failure

def pGrid : P Grid := pList pRow

def showIv (i : Interval) : String := s!"{i.low}.{i.high}"
def showSRect (r : SRect) : String := s!"{showIv r.rows}.{showIv r.cols}"
def showSRects (l : List SRect) : String := ",".intercalate (l.map showSRect)
def showInst (s : Instance) : String :=
  s!"T={showSRect s.trunk} N={showSRects s.north} S={showSRects s.south} E={showSRects s.east} W={showSRects s.west}"

def stropGridOp (op : String) (args : List String) : Option String :=
  match op with
  | "strop" => (runP pGrid args).map fun g =>
      match strop g with
      | none => "err:Assert"
      | some insts => s!"{b01 (isStrop g)} {insts.length}" ++ String.join (insts.map fun s => " | " ++ showInst s)
  | "pt" => (runP pGrid args).map fun g =>
      if g.wf then " ".intercalate ((potentialTrunks g).map showSRect) else "err:Assert"
  | "tm" => (runP pGrid args).map fun g => " ".intercalate ((trunksMatrix g).map showSRect)
  | "rowiv" => (runP pRow args).map fun r =>
      match rowInterval r with | none => "empty" | some i => showIv i
  | "mk" => (runP (do let r1 ← pNat; let r2 ← pNat; let c1 ← pNat; let c2 ← pNat; let g ← pGrid; pure (r1, r2, c1, c2, g)) args).map
      fun (r1, r2, c1, c2, g) =>
        if g.wf then (match mkInstance g ⟨⟨r1, r2⟩, ⟨c1, c2⟩⟩ with | none => "invalid" | some s => showInst s)
        else "err:Assert"
  | "which" => (runP (do let s ← tok; let g ← pGrid; pure (s, g)) args).map fun (s, g) =>
      match strop g with
      | none => "err:Assert"
      | some insts =>
        let sel := if s == "-" then [] else s.toList
        s!"{insts.length}" ++ String.join (insts.map fun i =>
          " | " ++ showSRect i.trunk ++ " => " ++
            (match i.rectanglesWhich sel with | none => "err:Assert" | some l => showSRects l))
  | _ => none

section
variable {α : Type} [Add α] [Sub α] [Mul α] [Div α] [Neg α] [LT α] [LE α]
  [DecidableLT α] [DecidableLE α] [NatCast α] [DecidableEq α] [ScalarIO α]

def pVerts : P (List (α × α)) := pList (do let x ← pSc; let y ← pSc; pure (x, y))

def showGrid (g : Grid) : String :=
  s!"{g.length}" ++ String.join (g.map fun r => " " ++ (if r.isEmpty then "." else String.ofList (r.map fun b => if b then '1' else '0')))

def stropCoordOp (op : String) (args : List String) : Option String :=
  match op with
  | "decomp" => (runP (pVerts (α := α)) args).map fun vs =>
      match stropDecomposition ((0 : Nat) : α) vs with
      | none => "err:Assert"
      | some cands => s!"{cands.length}" ++ String.join (cands.map fun c =>
          " | " ++ " , ".intercalate (c.map fun (cx, cy, w, h) => s!"{sc cx} {sc cy} {sc w} {sc h}"))
  | "pip" => (runP (do let x ← pSc (α := α); let y ← pSc; let vs ← pVerts; pure (x, y, vs)) args).map fun (x, y, vs) =>
      b01 (isPointInside x y vs)
  | "vgrid" => (runP (pVerts (α := α)) args).map fun vs =>
      let (xs, ys, g) := gridOfVertices vs
      s!"{xs.length} {ys.length} " ++ showGrid g
  | "traces" => (runP (do let σ ← pInt; let g ← pGrid; let vs ← pVerts (α := α); pure (σ, g, vs)) args).map fun (σ, S, vs) =>
      let zero : α := ((0 : Nat) : α)
      let (xs, ys, _) := gridOfVertices vs
      s!"{b01 (rectilinear vs)} {b01 (gridDims S (ys.length - 1) (xs.length - 1))} {b01 (isBoundaryOf zero σ S xs ys vs)} {b01 (tracesGrid zero σ S vs)}"
  | "shoelace" => (runP (pVerts (α := α)) args).map fun vs => sc (shoelace2 ((0 : Nat) : α) vs)
  | "rcount" => (runP (do let x ← pSc (α := α); let y ← pSc; let vs ← pVerts; pure (x, y, vs)) args).map fun (x, y, vs) =>
      s!"{b01 (rectilinear vs)} {rightCount x y vs}"
  | _ => none
end

end FV.Drv

import FV.Drv.Common
import FV.Model.Stog
import FV.Model.SplitRects
/- op table for the STOG recogniser (C06) and the die refinement (C11) models. -/
namespace FV.Drv
open FV FV.Rect FV.Stog FV.SplitRects

variable {α : Type} [Add α] [Sub α] [Mul α] [Div α] [Neg α] [LT α] [LE α]
  [DecidableLT α] [DecidableLE α] [NatCast α] [DecidableEq α] [ScalarIO α]

/-- fuel handed to the `while` loops of `split_rectangles` by the driver. -/
def drvFuel : Nat := 4000000

def pDie : P (DieSt α) := do
  let die ← pRect
  let specialized ← pList pRect
  let ground ← pList pRect
  let blockages ← pList pRect
  let fixed ← pList pRect
  pure { die, specialized, ground, blockages, fixed }

def showDie (d : DieSt α) : String :=
  s!"{showRects d.specialized} || {showRects d.ground} || {showRects d.blockages} || {showRects d.fixed}"

/-- heap scripts over `(key, id)` items compared on the key only: `U k id` push, `O` pop, `H` heapify. -/
def heapScript : List String → Array (Int × Nat) → List String → Option (List String × Array (Int × Nat))
  | [], h, out => some (out.reverse, h)
  | "U" :: k :: i :: rest, h, out => do
      let k ← k.toInt?; let i ← i.toNat?
      heapScript rest (Heapq.heappush (fun a b => decide (a.1 < b.1)) h (k, i)) out
  | "A" :: k :: i :: rest, h, out => do          -- plain `list.append`
      let k ← k.toInt?; let i ← i.toNat?
      heapScript rest (h.push (k, i)) out
  | "O" :: rest, h, out =>
      match Heapq.heappop (fun a b => decide (a.1 < b.1)) h with
      | none => heapScript rest h ("E" :: out)
      | some (x, h) => heapScript rest h (s!"{x.2}" :: out)
  | "H" :: rest, h, out => heapScript rest (Heapq.heapify (fun a b => decide (a.1 < b.1)) h) out
  | _, _, _ => none

def stogOp (op : String) (args : List String) : Option String :=
  match op with
  | "findloc" => (runP (do let e ← pSc (α := α); let ea ← pSc; let t ← pRect; let r ← pRect; pure (e, ea, t, r)) args).map
      fun (e, ea, t, r) => (findLocation e ea t r).toStr
  | "stog" => (runP (do let e ← pSc (α := α); let ea ← pSc; let rs ← pList pRect; pure (e, ea, rs)) args).map
      fun (e, ea, rs) => match createStog e ea rs with
        | none => "err:Assert"
        | some (b, out) => s!"{b01 b} {showRects out}"
  | "splitrects" => (runP (do let ratio ← pSc (α := α); let n ← pNat; let rs ← pList pRect; pure (ratio, n, rs)) args).map
      fun (ratio, n, rs) => match splitRectangles drvFuel rs ratio n with
        | .error e => e.toStr
        | .ok out => showRects out
  | "diesplit" => (runP (do let ratio ← pSc (α := α); let n ← pNat; let d ← pDie; pure (ratio, n, d)) args).map
      fun (ratio, n, d) => match splitRefinableRegions drvFuel d ratio n with
        | .error e => e.toStr
        | .ok d => showDie d
  | "initgrid" => (runP (do let nr ← pNat; let nc ← pNat; let d ← pDie (α := α); pure (nr, nc, d)) args).map
      fun (nr, nc, d) => match initialGrid d nr nc with
        | .error e => e.toStr
        | .ok d => showDie d
  | "heap" => (heapScript args #[] []).map fun (out, h) =>
      String.intercalate " " out ++ " | " ++ String.intercalate " " (h.toList.map fun x => s!"{x.2}")
  | _ => none

end FV.Drv

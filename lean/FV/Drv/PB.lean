import FV.Drv.Common
import FV.Model.Sat
/-
  op table for the pseudo-Boolean / SAT-manager models (properties C16, C07).  Mode `P`.

  C16:  `P tree <tree>`      tree ::= `S name | N i z | N f n d | L name s | neg T | inv T | pos T | mul T T | add T T
                                       | sub T T | cmp OP T T | ineq OPSTR T T | sum n T* | sumfrom T n T*`
        reply: `S v | N i z | N f n d | L v s | T c v s | E c n (c v s)* | I op rhs n (c v s)* | B True/False | err:<Class>`
        `P tostr <tree>`     reply: the string `x.tostr()` of the built object
  C07:  `P isclause OPSTR <expr> <expr>`   expr ::= `c n (c name s)*`  (built as `Expr() + t1 + … + tn + c`)
        `P hist <nmgr> <nops> <op>*`   one posting history (`sv` carries the solver's model as `name 0/1` pairs)
        `P sess <nhist> (<nmgr> <nops> <op>*)*`   histories run in sequence on one never-reset store
-/
namespace FV.Drv
open FV FV.PB FV.Sat

/-! ### printing -/
def showLit (l : Literal String) : String := s!"{l.v} {b01 l.s}"
def showTerm (t : Term String) : String := s!"{t.c} {showLit t.L}"
def showTerms (ts : List (Term String)) : String :=
  s!"{ts.length}" ++ String.join (ts.map fun t => " " ++ showTerm t)
def showNOp : NOp → String | .ge => ">=" | .gt => ">" | .eq => "="
def showNum : Num → String | .int z => s!"N i {z}" | .flt n d => s!"N f {n} {d}"
def showErr : PB.Err → String
  | .typeError => "err:TypeError" | .exception => "err:Exception" | .unmodelled => "err:Unmodelled"

def showVal : Val String → String
  | .str v => s!"S {v}"
  | .num n => showNum n
  | .lit l => s!"L {showLit l}"
  | .term t => s!"T {showTerm t}"
  | .expr e => s!"E {e.c} {showTerms e.t}"
  | .ineq q => s!"I {showNOp q.op} {q.rhs} {showTerms q.lhs.t}"
  | .bool b => if b then "B True" else "B False"

/-- `x.tostr()` of the built object (`Ineq.clause` is still `None`: `isclause` was not called) -/
def showTostr : Val String → String
  | .lit l => l.tostr
  | .term t => t.tostr
  | .expr e => e.tostr
  | .ineq q => q.tostr none
  | _ => "err:AttributeError"

/-! ### parsing -/
def pNum : P Num := do
  let k ← tok
  match k with
  | "i" => do let z ← pInt; pure (.int z)
  | "f" => do let n ← pInt; let d ← pNat; pure (.flt n d)
  | _ => failure

def pCmpOp : P CmpOp := do
  let t ← tok
  match parseOp t with | some o => pure o | none => failure

partial def pTree : P (Tree String) := do
  let t ← tok
  match t with
  | "S" => do let v ← tok; pure (.str v)
  | "N" => do let n ← pNum; pure (.num n)
  | "L" => do let v ← tok; let s ← pBool; pure (.lit v s)
  | "neg" => do let a ← pTree; pure (.neg a)
  | "inv" => do let a ← pTree; pure (.inv a)
  | "pos" => do let a ← pTree; pure (.pos a)
  | "sum" => do let l ← pList pTree; pure (Tree.sumOf l)
  | "sumfrom" => do let st ← pTree; let l ← pList pTree; pure (Tree.sumFrom st l)
  | "mul" => do let a ← pTree; let b ← pTree; pure (.mul a b)
  | "add" => do let a ← pTree; let b ← pTree; pure (.add a b)
  | "sub" => do let a ← pTree; let b ← pTree; pure (.sub a b)
  | "cmp" => do let o ← pCmpOp; let a ← pTree; let b ← pTree; pure (.cmp o a b)
  | "ineq" => do let o ← tok; let a ← pTree; let b ← pTree; pure (.ineq o a b)
  | _ => failure

/-! ### C07: variable names — `varOfName` / `nameOfVar` are the model's (`FV/Model/Sat.lean`) -/
def pVar : P Var := do let t ← tok; pure (varOfName t)
def pLit : P Lit := do let v ← pVar; let s ← pBool; pure ⟨v, s⟩
def pTermV : P (Term Var) := do let c ← pInt; let l ← pLit; pure ⟨l, c⟩
/-- `Expr() + t1 + … + tn + c` -/
def pExprV : P (Expr Var) := do
  let c ← pInt
  let ts ← pList pTermV
  pure ((ts.foldl (fun e t => e.add (.term t)) (⟨0, []⟩ : Expr Var)).add (.num (.int c)))

def showLitV (l : Lit) : String := s!"{nameOfVar l.v} {b01 l.s}"
def showClause (c : Clause) : String := s!"{c.length}" ++ String.join (c.map fun l => " " ++ showLitV l)
def showSErr : Sat.Err → String
  | .exception => "err:Exception" | .keyError => "err:KeyError" | .indexError => "err:IndexError" | .fuel => "err:Fuel"

def showMgr (m : Mgr) : String :=
  s!"{m.auxcount} {m.vars.length}" ++ String.join (m.vars.map fun v => " " ++ nameOfVar v)
  ++ s!" {m.codified.length}" ++ String.join (m.codified.map fun i => s!" {i}")
  ++ s!" {m.clauses.length}" ++ String.join (m.clauses.map fun c => " " ++ showClause c)
  ++ s!" {m.model.length}" ++ String.join (m.model.map fun p => s!" {nameOfVar p.1} {p.2}")

def showNode : Node Var → String
  | .leaf b => s!"L {b01 b}"
  | .node v i e => s!"N {nameOfVar v} {i} {e}"

def showStore (S : Store Var) : String :=
  s!"{S.memory.length}" ++ String.join (S.memory.map fun n => " " ++ showNode n)
  ++ s!" {S.mmap.length}" ++ String.join (S.mmap.map fun p => s!" {nameOfVar p.1.1} {p.1.2.1} {p.1.2.2} {p.2}")

/-- one step of a history -/
inductive HOp where
  | nv (m : Nat) (v : Var)
  | cl (m : Nat) (c : Clause)
  | im (m : Nat) (l1 : List Lit) (l2 : Lit)
  | qu (m : Nat) (l : List Lit)
  | he (m : Nat) (k : Int) (l : List Lit)
  | pb (m : Nat) (dec : Bool) (o : String) (a b : Expr Var)
  | sv (m : Nat) (ans : Option (List (Var × Bool)))   -- the solver's model by variable name
  | val (m : Nat) (l : Lit)
  | ev (m : Nat) (e : Expr Var)

def pHOp : P HOp := do
  let t ← tok
  let m ← pNat
  match t with
  | "nv" => do let v ← pVar; pure (.nv m v)
  | "cl" => do let c ← pList pLit; pure (.cl m c)
  | "im" => do let l ← pList pLit; let x ← pLit; pure (.im m l x)
  | "qu" => do let l ← pList pLit; pure (.qu m l)
  | "he" => do let k ← pInt; let l ← pList pLit; pure (.he m k l)
  | "pb" => do let d ← pBool; let o ← tok; let a ← pExprV; let b ← pExprV; pure (.pb m d o a b)
  | "sv" => do
      let k ← tok
      match k with
      | "U" => pure (.sv m none)
      | "M" => do let l ← pList (do let v ← pVar; let b ← pBool; pure (v, b)); pure (.sv m (some l))
      | _ => failure
  | "val" => do let l ← pLit; pure (.val m l)
  | "ev" => do let e ← pExprV; pure (.ev m e)
  | _ => failure

structure World where
  mgrs : List Mgr
  store : Store Var

def showOptInt : Option Int → String | none => "None" | some z => s!"{z}"

/-- run one op: result token and new world (`none` = manager index out of range) -/
def stepH (w : World) (op : HOp) : Option (String × World) :=
  let upd (i : Nat) (m : Mgr) : World := { w with mgrs := w.mgrs.set i m }
  match op with
  | .nv i v => (w.mgrs[i]?).map fun m => ("ok", upd i (m.newvar v))
  | .cl i c => (w.mgrs[i]?).map fun m => ("ok", upd i (m.addClause c))
  | .im i l x => (w.mgrs[i]?).map fun m => ("ok", upd i (m.imply l x))
  | .qu i l => (w.mgrs[i]?).map fun m => ("ok", upd i (m.quadratic l))
  | .he i k l => (w.mgrs[i]?).map fun m =>
      match m.heule l k with
      | .ok m' => ("ok", upd i m')
      | .error e => (showSErr e, w)
  | .pb i d o a b => (w.mgrs[i]?).map fun m =>
      match Ineq.makeStr a b o with
      | none => ("err:Exception", w)
      | some q =>
        match m.pseudoBool w.store q d with
        | .ok (m', S') => ("ok", { mgrs := w.mgrs.set i m', store := S' })
        | .error e => (showSErr e, w)
  | .sv i ans => (w.mgrs[i]?).map fun m =>
      -- the integers `get_model()` returned, in the numbering of this manager's variable table
      let ints := ans.map fun l => l.filterMap fun (v, b) => (m.index v).map fun k => if b then (k : Int) else -(k : Int)
      match m.solve ints with
      | .ok (b, m') => (if b then "sat" else "unsat", upd i m')
      | .error e => (showSErr e, w)
  | .val i l => (w.mgrs[i]?).map fun m => ("v:" ++ showOptInt (m.value l), w)
  | .ev i e => (w.mgrs[i]?).map fun m => ("e:" ++ showOptInt (m.evalExpr e), w)

/-- run one history from the store `S0`; `none` = malformed request -/
def runHistFrom (S0 : Store Var) (nm : Nat) (ops : List HOp) : Option (List String × World) := do
  let mut w : World := { mgrs := List.replicate nm {}, store := S0 }
  let mut res : List String := []
  for op in ops do
    let (r, w') ← stepH w op
    w := w'
    res := r :: res
  pure (res.reverse, w)

def runHist (nm : Nat) (ops : List HOp) : Option String := do
  let (res, w) ← runHistFrom Store.init nm ops
  pure (" ".intercalate res ++ String.join (w.mgrs.map fun m => " | " ++ showMgr m) ++ " | " ++ showStore w.store)

/-- the nodes appended to the store since it had `k` entries (`memory[k:]` and the matching `mmap` items) -/
def showStoreFrom (S : Store Var) (k : Nat) : String :=
  let mem := S.memory.drop k
  let mm := S.mmap.drop (k - 2)
  s!"{k} {mem.length}" ++ String.join (mem.map fun n => " " ++ showNode n)
  ++ s!" {mm.length}" ++ String.join (mm.map fun p => s!" {nameOfVar p.1.1} {p.1.2.1} {p.1.2.2} {p.2}")

/-- a session: histories run one after the other on ONE store that is never reset (every history starts with fresh
    managers); per history: op results, managers, and what the history appended to the store -/
def runSession (hs : List (Nat × List HOp)) : Option String := do
  let mut S : Store Var := Store.init
  let mut out : List String := []
  for (nm, ops) in hs do
    let (res, w) ← runHistFrom S nm ops
    out := (" ".intercalate res ++ String.join (w.mgrs.map fun m => " | " ++ showMgr m) ++ " | "
      ++ showStoreFrom w.store S.memory.length) :: out
    S := w.store
  pure (" || ".intercalate out.reverse)

def showClauseRes : ClauseRes Var → String
  | .no => "no" | .taut => "taut" | .clause c => "clause " ++ showClause c

def pbOp (op : String) (args : List String) : Option String :=
  match op with
  | "tree" => (runP pTree args).map fun t =>
      match t.run with | .ok v => showVal v | .error e => showErr e
  | "tostr" => (runP pTree args).map fun t =>
      match t.run with | .ok v => showTostr v | .error e => showErr e
  | "isclause" => (runP (do let o ← tok; let a ← pExprV; let b ← pExprV; pure (o, a, b)) args).map fun (o, a, b) =>
      match Ineq.makeStr a b o with
      | none => "err:Exception"
      | some q => s!"{showNOp q.op} {q.rhs} " ++ showClauseRes q.isClause
  | "qtostr" => (runP (do let o ← tok; let a ← pExprV; let b ← pExprV; pure (o, a, b)) args).map fun (o, a, b) =>
      -- `Ineq(a, b, o)`, `isclause()`, then `tostr()` (variables printed by name)
      match Ineq.makeStr a b o with
      | none => "err:Exception"
      | some q =>
        let nmL (l : Lit) : Literal String := ⟨nameOfVar l.v, l.s⟩
        let qs : Ineq String := ⟨⟨q.lhs.c, q.lhs.t.map fun t => ⟨nmL t.L, t.c⟩⟩, q.rhs, q.op⟩
        match q.isClause with
        | .clause c => qs.tostr (some (c.map nmL))
        | _ => qs.tostr none
  | "names" => (runP (pList (do let pre ← tok; let name ← tok; pure (pre, name))) args).map fun calls =>
      -- `newvar(name, pre)` calls on one manager; tokens are `p:<pre>` / `n:<str(name)>`, the strings written as their code
      -- points joined by `.` (so that they may be empty or contain white space); names are printed back the same way
      let dec (t : String) : List Char :=
        let body := (t.drop 2).toString
        if body.isEmpty then [] else (body.splitOn ".").map fun d => Char.ofNat d.toNat!
      let enc (cs : List Char) : String := ".".intercalate (cs.map fun c => toString c.toNat)
      let kind : Var → String | .user _ => "u" | .node n => s!"n{n}" | .aux n => s!"a{n}"
      let (m, out) := calls.foldl (fun (acc : Mgr × List String) (c : String × String) =>
        let (l, m') := acc.1.newvarPy (dec c.2) (dec c.1)
        (m', s!"{enc l.v.chars}:{b01 l.s}:{kind l.v}" :: acc.2)) (({} : Mgr), [])
      " ".intercalate out.reverse ++ s!" | {m.vars.length}" ++ String.join (m.vars.map fun v => " v" ++ enc v.chars)
  | "hist" => (runP (do let nm ← pNat; let ops ← pList pHOp; pure (nm, ops)) args).bind fun (nm, ops) => runHist nm ops
  | "sess" => (runP (pList (do let nm ← pNat; let ops ← pList pHOp; pure (nm, ops))) args).bind runSession
  | _ => none

end FV.Drv

import FV.Drv.Common
/- op table for the `Rectangle` model (property C18 and everything built on it). -/
namespace FV.Drv
open FV FV.Rect

variable {α : Type} [Add α] [Sub α] [Mul α] [Div α] [Neg α] [LT α] [LE α]
  [DecidableLT α] [DecidableLE α] [NatCast α] [DecidableEq α] [ScalarIO α]

def showPair : Option (Rect α × Rect α) → String
  | none => "err:Assert"
  | some (a, b) => showRect a ++ " | " ++ showRect b

def geomOp (op : String) (args : List String) : Option String :=
  match op with
  | "bb" => (runP (pRect (α := α)) args).map fun r => s!"{sc r.xmin} {sc r.ymin} {sc r.xmax} {sc r.ymax}"
  | "area" => (runP (pRect (α := α)) args).map fun r => sc r.area
  | "ov" => (runP (do let a ← pRect (α := α); let b ← pRect; pure (a, b)) args).map fun (a, b) => sc (a.areaOverlap b)
  | "inter" => (runP (do let a ← pRect (α := α); let b ← pRect; pure (a, b)) args).map fun (a, b) =>
      match a.inter b with | none => "none" | some r => showRect r
  | "inside" => (runP (do let a ← pRect (α := α); let b ← pRect; pure (a, b)) args).map fun (a, b) => b01 (a.isInside b)
  | "pin" => (runP (do let a ← pRect (α := α); let x ← pSc; let y ← pSc; pure (a, x, y)) args).map fun (a, x, y) =>
      b01 (a.pointInside x y)
  | "touch" => (runP (do let e ← pSc (α := α); let a ← pRect; let b ← pRect; pure (e, a, b)) args).map fun (e, a, b) =>
      b01 (touches e a b)
  | "overlap" => (runP (do let e ← pSc (α := α); let a ← pRect; let b ← pRect; pure (e, a, b)) args).map fun (e, a, b) =>
      b01 (overlap e a b)
  | "eq" => (runP (do let a ← pRect (α := α); let b ← pRect; pure (a, b)) args).map fun (a, b) => b01 (a.beq b)
  | "splitH" => (runP (do let a ← pRect (α := α); let x ← pSc; pure (a, x)) args).map fun (a, x) => showPair (a.splitH x)
  | "splitV" => (runP (do let a ← pRect (α := α); let x ← pSc; pure (a, x)) args).map fun (a, x) => showPair (a.splitV x)
  | "split" => (runP (pRect (α := α)) args).map fun a => showPair a.split
  | "xcut" => (runP (do let a ← pRect (α := α); let x ← pSc; let r ← pSc; pure (a, x, r)) args).map fun (a, x, r) =>
      b01 (a.xCuttable x r)
  | "ycut" => (runP (do let a ← pRect (α := α); let x ← pSc; let r ← pSc; pure (a, x, r)) args).map fun (a, x, r) =>
      b01 (a.yCuttable x r)
  | "grid" => (runP (do let a ← pRect (α := α); let nr ← pNat; let nc ← pNat; pure (a, nr, nc)) args).map fun (a, nr, nc) =>
      match a.grid nr nc with | none => "err:Assert" | some rs => showRects rs
  | "aspect" => (runP (pRect (α := α)) args).map fun r => sc r.aspectRatio
  | _ => none

end FV.Drv

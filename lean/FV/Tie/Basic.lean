import FV.Tie.Attr
import FV.Proofs.Geom
import FV.Model.Stog
import FV.Model.Disc
import FV.Model.Force
/-
  Static part of the Python→Lean tie (`harness/pytrans.py`, `harness/tie.py`).

  The files generated on every run (`lean/.lake/tie/<pid>_<n>.lean`) import this module.  It contains
    * the small value classes of `frame/geometry/geometry.py` the generated definitions compute with
      (`Point x y`, `Shape w h`, `BoundingBox ll ur`); `Rectangle` is the model record `FV.Rect`;
    * `pyAbs`, `pyEq` (Python `abs`, float `==`), the exception type of the `Except` mode;
    * the wire format (`Wire`: value → JSON text, `Rd`: tokens → value) and the two runners used by `#eval`
      (`diffRun`: generated definition against the hand model at `Rat`; `evalRun`: generated definition at `Float`);
    * the simp set `tie_simp` (hand-written model definitions, Boolean/`Option`/`Except` plumbing, `ite_le_swap`) and
      the closing tactic `tie_close` of the portfolio that `tie.py` writes for every tie theorem.
  Nothing here is a property theorem.
-/
namespace FV.Tie
open FV

/-! ### value classes -/

/-- `geometry.Point` with two numeric coordinates. -/
structure Point (α : Type) where
  x : α
  y : α
  deriving Repr, Inhabited

/-- `geometry.Shape` (dataclass `w`, `h`). -/
structure Shape (α : Type) where
  w : α
  h : α
  deriving Repr, Inhabited

/-- `geometry.BoundingBox` (dataclass `ll`, `ur`). -/
structure BoundingBox (α : Type) where
  ll : Point α
  ur : Point α
  deriving Repr, Inhabited

section scalar
variable {α : Type} [Add α] [Sub α] [Mul α] [Div α] [Neg α] [LT α] [LE α]
  [DecidableLT α] [DecidableLE α] [NatCast α]

/-- Python `abs(x)` as the models write it (`-x if x < 0 else x`). -/
@[inline] def pyAbs (x : α) : α := if x < ((0 : Nat) : α) then -x else x

/-- Python float `a == b`: IEEE equality (`-0.0 == 0.0`, `nan != nan`), which is `a ≤ b ∧ b ≤ a`;
    over a linear order this is `a = b`. -/
@[inline, reducible] def pyEq (a b : α) : Prop := a ≤ b ∧ b ≤ a

/-- float `/` in the `Except` mode: `ZeroDivisionError` on a zero divisor (same as `FV.Disc.pyDiv`). -/
@[inline] def pyDiv (a b : α) : Except FV.Disc.PyErr α :=
  if b ≤ ((0 : Nat) : α) ∧ ((0 : Nat) : α) ≤ b then .error .zeroDivision else .ok (a / b)

end scalar

/-! ### wire format -/

/-- value → JSON text. -/
class Wire (β : Type) where
  wire : β → String
export Wire (wire)

def q (s : String) : String := "\"" ++ s ++ "\""

instance : Wire Float := ⟨fun x => q (printHex64 x.toBits)⟩
instance : Wire Rat := ⟨fun x => q (printRat x)⟩
instance : Wire Bool := ⟨fun b => if b then "true" else "false"⟩
instance : Wire String := ⟨q⟩
instance : Wire Loc := ⟨fun l => q l.toStr⟩
instance {β} [Wire β] : Wire (Option β) := ⟨fun | none => "null" | some b => "{\"some\":" ++ wire b ++ "}"⟩
instance {β γ} [Wire β] [Wire γ] : Wire (β × γ) := ⟨fun (a, b) => "[" ++ wire a ++ "," ++ wire b ++ "]"⟩
instance {β} [Wire β] : Wire (Except FV.Disc.PyErr β) :=
  ⟨fun | .error e => "{\"err\":" ++ q e.toStr ++ "}" | .ok b => "{\"ok\":" ++ wire b ++ "}"⟩
instance {α} [Wire α] : Wire (Point α) := ⟨fun p => "{\"x\":" ++ wire p.x ++ ",\"y\":" ++ wire p.y ++ "}"⟩
instance {α} [Wire α] : Wire (Shape α) := ⟨fun p => "{\"w\":" ++ wire p.w ++ ",\"h\":" ++ wire p.h ++ "}"⟩
instance {α} [Wire α] : Wire (BoundingBox α) := ⟨fun p => "{\"ll\":" ++ wire p.ll ++ ",\"ur\":" ++ wire p.ur ++ "}"⟩
instance {α} [Wire α] : Wire (Rect α) := ⟨fun r =>
  "{\"cx\":" ++ wire r.cx ++ ",\"cy\":" ++ wire r.cy ++ ",\"w\":" ++ wire r.w ++ ",\"h\":" ++ wire r.h ++
  ",\"region\":" ++ wire r.region ++ ",\"fixed\":" ++ wire r.fixed ++ ",\"hard\":" ++ wire r.hard ++
  ",\"loc\":" ++ wire r.loc ++ "}"⟩

/-- tokens → value. -/
abbrev P := StateT (List String) Option

def tok : P String := fun s => match s with | [] => none | t :: r => some (t, r)

class Rd (β : Type) where
  rd : P β
export Rd (rd)

instance : Rd Float := ⟨do let t ← tok; match parseHex64? t with | some u => pure (Float.ofBits u) | none => failure⟩
instance : Rd Rat := ⟨do let t ← tok; match parseRat? t with | some x => pure x | none => failure⟩
instance : Rd Bool := ⟨do let t ← tok; if t == "1" then pure true else if t == "0" then pure false else failure⟩
instance : Rd String := ⟨tok⟩
instance : Rd Loc := ⟨do
  let t ← tok
  match t with
  | "T" => pure .trunk | "N" => pure .north | "S" => pure .south
  | "E" => pure .east | "W" => pure .west | "X" => pure .nopoly | _ => failure⟩
instance {α} [Rd α] : Rd (Point α) := ⟨do let x ← rd; let y ← rd; pure ⟨x, y⟩⟩
instance {α} [Rd α] : Rd (Shape α) := ⟨do let w ← rd; let h ← rd; pure ⟨w, h⟩⟩
instance {α} [Rd α] : Rd (BoundingBox α) := ⟨do let ll ← rd; let ur ← rd; pure ⟨ll, ur⟩⟩
/-- rectangle on the wire: `cx cy w h region fixed hard loc`. -/
instance {α} [Rd α] : Rd (Rect α) := ⟨do
  let cx ← rd; let cy ← rd; let w ← rd; let h ← rd
  let region ← rd; let fixed ← rd; let hard ← rd; let loc ← rd
  pure { cx, cy, w, h, region, fixed, hard, loc }⟩

def lines (inputs : String) : List (List String) :=
  ((inputs.splitOn ";").map fun l => (l.splitOn " ").filter (· ≠ "")).filter (· ≠ [])

/-- differential: `f` reads one input and returns the wire texts of both sides; prints the first input (by index)
    on which they differ. -/
def diffRun (tag : String) (inputs : String) (f : P (String × String)) : IO Unit := do
  let ls := lines inputs
  let mut i := 0
  for l in ls do
    match f l with
    | some ((a, b), []) =>
      if a != b then
        IO.println s!"@@DIFF {tag} {i} {a} {b}"
        return
    | _ =>
      IO.println s!"@@BADINPUT {tag} {i}"
      return
    i := i + 1
  IO.println s!"@@NODIFF {tag} {i}"

/-- evaluation: prints the wire text of `f` on every input. -/
def evalRun (tag : String) (inputs : String) (f : P String) : IO Unit := do
  let ls := lines inputs
  let mut i := 0
  for l in ls do
    match f l with
    | some (a, []) => IO.println s!"@@VAL {tag} {i} {a}"
    | _ => IO.println s!"@@BADINPUT {tag} {i}"
    i := i + 1
  IO.println s!"@@DONE {tag} {i}"

/-- a rational stand-in for the library functions, used only by the differential at `Rat` (both sides of a tie are
    parametric in the record, so any value is a legitimate test point). -/
def ratFns : Disc.Fns Rat where
  sq x := x * x
  hypot x y := (if x < 0 then -x else x) + (if y < 0 then -y else y)
  acos x := if x < -1 ∨ 1 < x then .error .valueError else .ok ((1 - x) * 3 / 2)
  sin x := x - x * x * x / 6
  pi := 22 / 7

/-- the numeric library of the force model at `Float` (libm, as CPython) and a rational stand-in. -/
def forceOpsF : Force.Ops Float where
  sqrt := Float.sqrt
  powHalf := fun x => Float.pow x 0.5
  sq := fun x => Float.pow x 2.0
  pi := 3.141592653589793
  ltInf := fun x => x < (1.0 / 0.0)

def forceOpsQ : Force.Ops Rat where
  sqrt := fun x => (x + 1) / 2
  powHalf := fun x => (x + 2) / 3
  sq := fun x => x * x
  pi := 22 / 7
  ltInf := fun _ => true

/-! ### simp set for the hand-written models -/

attribute [tie_simp] pyMax pyMin pyAbs pyEq pyDiv
  Rect.two Rect.zero Rect.negOne Rect.xmin Rect.xmax Rect.ymin Rect.ymax Rect.area Rect.duplicate
  Rect.pointInside Rect.isInside Rect.touches Rect.areaOverlap Rect.overlap Rect.inter Rect.beq
  Rect.splitH Rect.splitV Rect.split Rect.xCuttable Rect.yCuttable Rect.aspectRatio
  Stog.pyAbs Stog.almostEq Stog.findLocation
  Disc.zero Disc.one Disc.two Disc.negOne Disc.pyAbs Disc.pyDiv Disc.clamp Disc.dist Disc.small Disc.isZero
  Disc.quot Disc.lensRaw Disc.areaD Disc.area
  Force.zero Force.one Force.two Force.ten Force.tenth Force.tiny Force.clamp Force.fAtt Force.fRep

attribute [tie_simp] Nat.cast_ofNat Nat.cast_zero Nat.cast_one ge_iff_le gt_iff_lt
  Bool.and_eq_true Bool.or_eq_true decide_eq_true_eq Bool.decide_and Bool.decide_or
  Bool.not_eq_true' decide_not ne_eq not_lt not_le
  bind pure Option.bind Except.bind Except.pure Except.map
  Option.some.injEq Prod.mk.injEq

/-- conditions `a ≤ b` of an `if` are turned into `b < a` (branches swapped), so that `x if a >= b else y` and
    `y if a < b else x` unfold to the same term. -/
@[tie_simp] theorem ite_le_swap {α β : Type} [LinearOrder α] (a b : α) (x y : β) :
    (if a ≤ b then x else y) = if b < a then y else x := by
  by_cases h : a ≤ b
  · rw [if_pos h, if_neg (not_lt.mpr h)]
  · rw [if_neg h, if_pos (not_le.mp h)]

/-- after `simp only [tie_simp, …]` has unfolded both sides: syntactic equality, else equality up to commutative-ring
    normalisation (also under binders), else `grind` (linear order + field reasoning with case splits; fails fast). -/
macro "tie_close" : tactic => `(tactic| first | done | (ring_nf; done) | grind)

end FV.Tie

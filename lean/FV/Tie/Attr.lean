import Lean
/-
  Simp set used by the tie theorems (`harness/tie.py`): every definition generated from the Python text is
  tagged `@[tie_simp]`, and `FV/Tie/Basic.lean` tags the hand-written model definitions they are compared with.
-/
register_simp_attr tie_simp

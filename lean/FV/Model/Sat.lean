import FV.Model.Bdd
/-
  Model of `tools/rect/satmanager.py` (class `SATManager`) — property C07.

  * Variable names: `Var.user s` is any name not of the form `robdd_<n>` / `aux_<n>` (e.g. `def_x` made by `newvar`),
    `Var.node n` is `robdd_<n>`, `Var.aux n` is `aux_<n>`.  Assumption: user names do not start with `robdd_`/`aux_`.
  * `Mgr.vars` is `vtable[1:]`; in the absence of `prioritize` (deprecated, outside the property) `ttable[v]` is the
    position of `v` in `vtable`, and `flipped` is empty.
  * the SAT solver is a parameter: `solve` receives what `Solver.solve()` / `get_model()` answered.
-/
namespace FV.Sat
open FV.PB

inductive Var where
  | user (s : String)
  | node (n : Nat)
  | aux (n : Nat)
  deriving DecidableEq, Repr

abbrev Lit := Literal Var
abbrev Clause := List Lit

structure Mgr where
  vars : List Var := []            -- vtable without the dummy entry '0'
  auxcount : Nat := 0
  clauses : List Clause := []
  codified : List Nat := []
  model : List (Var × Int) := []
  deriving Repr

inductive Err where
  | exception        -- `Exception(...)` raised by the manager / `Ineq.getrobdd`
  | keyError         -- `ttable[x.v]` for a literal that was never registered through `newvar`
  | indexError       -- `arr[word]` in `solve()` for a solver literal beyond the variable table
  | fuel
  deriving DecidableEq, Repr

/-- `newvar(name, pre)`; the resulting literal is `Literal(v)` -/
def Mgr.newvar (m : Mgr) (v : Var) : Mgr :=
  if v ∈ m.vars then m else { m with vars := m.vars ++ [v] }

/-- `newaux` -/
def Mgr.newaux (m : Mgr) : Lit × Mgr :=
  let n := m.auxcount + 1
  (⟨.aux n, true⟩, ({ m with auxcount := n }).newvar (.aux n))

def Mgr.addClause (m : Mgr) (c : Clause) : Mgr := { m with clauses := m.clauses ++ [c] }

/-- the clauses of `quadraticencoding(lst)` in the order they are added -/
def quadClauses : List Lit → List Clause
  | [] => []
  | x :: r => r.map (fun y => [x.neg, y.neg]) ++ quadClauses r

def Mgr.quadratic (m : Mgr) (lst : List Lit) : Mgr := { m with clauses := m.clauses ++ quadClauses lst }

/-- `heuleencoding(lst, k)` for `k ≥ 3` -/
def Mgr.heuleGo (k : Nat) (hk : 3 ≤ k) (m : Mgr) (lst : List Lit) : Mgr :=
  if h : lst.length ≤ k then m.quadratic lst
  else
    let (fresh, m1) := m.newaux
    let h1 := lst.take (k - 1) ++ [fresh]
    let h2 := fresh.neg :: lst.drop (k - 1)
    Mgr.heuleGo k hk (m1.quadratic h1) h2
termination_by lst.length
decreasing_by simp [List.length_drop]; omega

def Mgr.heule (m : Mgr) (lst : List Lit) (k : Int) : Except Err Mgr :=
  if _h : k < 3 then .error .exception
  else .ok (Mgr.heuleGo k.toNat (by omega) m lst)

/-- `imply(list1, l2)` -/
def Mgr.imply (m : Mgr) (l1 : List Lit) (l2 : Lit) : Mgr := m.addClause (l1.map Literal.neg ++ [l2])

/-- `_codifyrobdd` (fuel = `robdd_id + 1` suffices because children have smaller ids) -/
def Mgr.codify (S : Store Var) : Nat → Nat → Mgr → Except Err Mgr
  | 0, _, _ => .error .fuel
  | fuel + 1, id, m =>
    if id ∈ m.codified then .ok m
    else
      let m := { m with codified := m.codified ++ [id] }
      let m := m.newvar (.node id)
      let p : Lit := ⟨.node id, true⟩
      if id = 0 then .ok (m.addClause [p.neg])
      else if id = 1 then .ok (m.addClause [p])
      else match S.memory[id]? with
        | some (.node dv i e) => do
          let m ← Mgr.codify S fuel i m
          let m ← Mgr.codify S fuel e m
          let m := m.newvar dv
          let m := m.newvar (.node i)
          let m := m.newvar (.node e)
          let m := m.addClause [p.neg, (⟨dv, true⟩ : Lit).neg, ⟨.node i, true⟩]
          pure (m.addClause [p.neg, ⟨dv, true⟩, ⟨.node e, true⟩])
        | _ => .error .exception      -- "should be a tuple but it's not" / IndexError

/-- `pseudoboolencoding(ineq, coefficientdecomposition)` -/
def Mgr.pseudoBool (m : Mgr) (S : Store Var) (q : Ineq Var) (dec : Bool) : Except Err (Mgr × Store Var) :=
  match q.isClause with
  | .taut => .ok (m, S)
  | .clause c => .ok (m.addClause c, S)
  | .no =>
    match q.getRobdd dec S with
    | .error .notImplemented => .error .exception
    | .error .fuel => .error .fuel
    | .ok (root, S') => do
      let m ← Mgr.codify S' (root + 1) root m
      let m := m.newvar (.node root)
      pure (m.addClause [⟨.node root, true⟩], S')

/-- position of `v` in `vtable` (the first entry has number `k`) -/
def lookupIdx : List Var → Var → Nat → Option Nat
  | [], _, _ => none
  | w :: r, v, k => if w = v then some k else lookupIdx r v (k + 1)

/-- `ttable[v]` (`None` = `KeyError`) -/
def Mgr.index (m : Mgr) (v : Var) : Option Nat := lookupIdx m.vars v 1

/-- the integer literal `solve()` builds for a literal (nothing is flipped) -/
def Mgr.litInt (m : Mgr) (x : Lit) : Except Err Int :=
  match m.index x.v with
  | some i => .ok (if x.s = false then -(i : Int) else (i : Int))
  | none => .error .keyError

/-- the integer clauses handed to the solver by `solve()` -/
def Mgr.cnf (m : Mgr) : Except Err (List (List Int)) :=
  m.clauses.mapM fun c => c.mapM m.litInt

/-- `arr` after the loop over `get_model()`; `none` = `IndexError` (a literal whose variable number is not below
    `tcount`; for a negative literal Python indexes with `-word`, for the others with `word`) -/
def fillArr : List Int → List Int → Option (List Int)
  | arr, [] => some arr
  | arr, w :: r =>
    if w < 0 then (if (-w).toNat < arr.length then fillArr (arr.set (-w).toNat 0) r else none)
    else (if w.toNat < arr.length then fillArr (arr.set w.toNat 1) r else none)

/-- `model[v] = x` on the dictionary `self.model` -/
def setModel : List (Var × Int) → Var → Int → List (Var × Int)
  | [], v, x => [(v, x)]
  | (w, y) :: r, v, x => if w = v then (w, x) :: r else (w, y) :: setModel r v x

/-- `model.get(v)` -/
def getModel : List (Var × Int) → Var → Option Int
  | [], _ => none
  | (w, y) :: r, v => if w = v then some y else getModel r v

/-- `for v in self.ttable: self.model[v] = arr[self.ttable[v]]` (the `k`-th key of `ttable` has number `k`) -/
def storeModel (arr : List Int) : List Var → Nat → List (Var × Int) → List (Var × Int)
  | [], _, mdl => mdl
  | v :: r, k, mdl => storeModel arr r (k + 1) (setModel mdl v (arr.getD k 0))

/-- `solve()`; `ans` is `None` when `Solver.solve()` answered `False`, else `get_model()` -/
def Mgr.solve (m : Mgr) (ans : Option (List Int)) : Except Err (Bool × Mgr) :=
  match m.cnf with
  | .error e => .error e
  | .ok _ =>
    match ans with
    | none => .ok (false, m)
    | some mod =>
      match fillArr (List.replicate (m.vars.length + 1) 0) mod with
      | none => .error .indexError
      | some arr => .ok (true, { m with model := storeModel arr m.vars 1 m.model })

/-- `value(lit)` -/
def Mgr.value (m : Mgr) (l : Lit) : Option Int :=
  match getModel m.model l.v with
  | none => none
  | some x => some (if l.s = false then 1 - x else x)

/-- `evalexpr(expr)` -/
def Mgr.evalExpr (m : Mgr) (e : Expr Var) : Option Int :=
  e.t.foldl (fun acc t =>
    match acc, m.value t.L with
    | some s, some x => some (if x = 1 then s + t.c else s)
    | _, _ => none) (some e.c)

/-! ### variable names: the strings behind `Var`, and `newvar(name, pre)` as Python calls it

  `SATManager.newvar(name, pre)` forms `vname = pre + str(name)` and keys `ttable` by that string.  `classify` reads a name
  back into the sum type the rest of the model uses: `robdd_<n>` / `aux_<n>` with `<n>` exactly what `str()` prints for a
  non-negative `int` (decimal digits, no leading zero except for `0` itself) are the node / auxiliary variables, every other
  string is a user variable.  (The compiled driver parses the names on the wire with these very functions.) -/

/-- `str(n)` for a non-negative `int` -/
def natChars (n : Nat) : List Char := Nat.toDigits 10 n

/-- `s[len(p):]` if `s.startswith(p)` -/
def stripPre : List Char → List Char → Option (List Char)
  | [], s => some s
  | _ :: _, [] => none
  | p :: ps, c :: cs => if p = c then stripPre ps cs else none

/-- the `n` with `str(n) == cs`, if any -/
def canonNat? : List Char → Option Nat
  | [] => none
  | c :: r =>
    if (c :: r).all Char.isDigit && (r.isEmpty || c != '0') then some (Nat.ofDigitChars 10 (c :: r) 0) else none

def robddPre : List Char := ['r', 'o', 'b', 'd', 'd', '_']
def auxPre : List Char := ['a', 'u', 'x', '_']
def defPre : List Char := ['d', 'e', 'f', '_']

def classify (cs : List Char) : Var :=
  match (stripPre robddPre cs).bind canonNat? with
  | some n => .node n
  | none =>
    match (stripPre auxPre cs).bind canonNat? with
    | some n => .aux n
    | none => .user (String.ofList cs)

/-- the Python string of a variable -/
def Var.chars : Var → List Char
  | .user s => s.toList
  | .node n => robddPre ++ natChars n
  | .aux n => auxPre ++ natChars n

def varOfName (s : String) : Var := classify s.toList
def nameOfVar (v : Var) : String := String.ofList v.chars

/-- `newvar(name, pre)` with `str(name) = name` given as characters: registers `pre + str(name)`, returns `Literal(vname)` -/
def Mgr.newvarPy (m : Mgr) (name : List Char) (pre : List Char := defPre) : Lit × Mgr :=
  let v := classify (pre ++ name)
  (⟨v, true⟩, m.newvar v)

/-- `newvar(n, pre)` for an `int` name -/
def Mgr.newvarInt (m : Mgr) (n : Nat) (pre : List Char := defPre) : Lit × Mgr := m.newvarPy (natChars n) pre

end FV.Sat

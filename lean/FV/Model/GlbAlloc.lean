import FV.Model.Glb
import FV.Model.Alloc
/-
  The refine / optimise loop of `glbfloor` with the allocation model plugged in
  (`tools/glbfloor/optimization.py` 411-480 on top of `frame/allocation/allocation.py`):

  * `refine`          := `allocation.refine(threshold)`            = `FV.Alloc.refine env st a thr 1`  (default `levels = 1`)
  * `must_be_refined` := `allocation.must_be_refined(threshold)`   = `FV.Alloc.mustBeRefined a thr`
  * `Allocation(allocation_list)` in `extract_solution`            = `FV.Alloc.mkAllocation env st …` (the whole constructor)

  `FV/Model/Alloc.lean` models the allocation code with the repairs `fixes/C02_*.diff`, `fixes/C12_*.diff` applied.
  The only parameter left is the solver (`solve`).  Adapter: `Glb.RectAlloc` and `FV.Alloc.Cell` are the same record
  (rectangle, ratios, depth) declared twice; `toCell` / `ofCell` convert, both round trips are `rfl`.
-/
namespace FV.Glb
open FV FV.Alloc

/-- adapter `RectAlloc → Cell`. -/
def toCell {α : Type} (ra : RectAlloc α) : Cell α := ⟨ra.rect, ra.alloc, ra.depth⟩
/-- adapter `Cell → RectAlloc`. -/
def ofCell {α : Type} (c : Cell α) : RectAlloc α := ⟨c.rect, c.alloc, c.depth⟩

/-- loop state: the `Allocation` object, the class-wide tolerances `Rectangle._distance_epsilon/_area_epsilon`,
    the netlist's modules. -/
structure AState (α : Type) where
  alloc : Allocation α
  eps : Eps α
  mods : List (Module α)

variable {α : Type} [Add α] [Sub α] [Mul α] [Div α] [Neg α] [LT α] [LE α]
  [DecidableLT α] [DecidableLE α] [NatCast α] [DecidableEq α]

/-- the cells offered to the optimiser: `[alloc.rect for alloc in allocation.allocations]`. -/
def AState.cells (s : AState α) : List (Rect α) := s.alloc.cells.map (·.rect)

/-- `extract_solution` with the real `Allocation(allocation_list)` constructor (`none` = it raised). -/
def extractA (env : Env α) (ans : Answer α) (thr : α) (s : AState α) : Option (AState α) :=
  let al := allocList ans thr s.mods s.cells
  match mkAllocation env s.eps (al.map fun ra => (toCell ra).toRaw) with
  | .error _ => none
  | .ok (a', st') =>
    match updateModules ans s.mods with
    | none => none
    | some ms => some ⟨a', st', ms⟩

/-- `optimize_allocation` as seen from the loop. -/
def optimizeA (env : Env α) (solve : AState α → Option (Answer α)) (thr : α) (s : AState α) : Option (AState α) :=
  match solve s with
  | none => none
  | some ans => extractA env ans thr s

/-- `allocation = allocation.refine(threshold)` (`levels` defaults to 1). -/
def refineA (env : Env α) (thr : α) (s : AState α) : Option (AState α) :=
  match refine env s.eps s.alloc thr 1 with
  | .error _ => none
  | .ok (a', st') => some { s with alloc := a', eps := st' }

/-- `allocation.must_be_refined(threshold)`. -/
def mustRefineA (thr : α) (s : AState α) : Bool := mustBeRefined s.alloc thr

/-- `glbfloor` after `create_initial_allocation`, nothing abstract but the solver. -/
def glbfloorA (env : Env α) (solve : AState α → Option (Answer α)) (thr : α) (maxIter : Option Nat) (fuel : Nat)
    (init : AState α) : Option (AState α) :=
  loopG (optimizeA env solve thr) (mustRefineA thr) (refineA env thr) maxIter fuel 1 init

end FV.Glb

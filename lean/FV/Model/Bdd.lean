import FV.Model.PB
/-
  Model of the ROBDD part of `tools/rect/pseudobool.py`: `maxsum`, `largebit`, `insert`, `Ineq.getrobdd`
  (both constructions) and `constructrobdd`, with the process-wide store `(memory, mmap)` threaded explicitly
  (`Store`) and the per-call `memo` in `BState`.

  * `memory[0] = 0`, `memory[1] = 1` are `Node.leaf false / true`; every other entry is the tuple `(dv, if, el)`.
  * `memo` is keyed by the data itself; Python keys it by `serdat(data)`, which is injective on the data of one
    call as long as variable names contain no `,` and do not start with `-` (assumption of C07, monitored).
  * recursion is by fuel; `getRobdd` supplies `measure + 1`, which is proved sufficient (`Props/C07`), `none` = ran out
    of fuel (never for well-formed input) or `x[0][0]` on an empty list (never reached: the base case fires first).
-/
namespace FV.PB

variable {V : Type} [DecidableEq V]

inductive Node (V : Type) where
  | leaf (b : Bool)
  | node (v : V) (i e : Nat)
  deriving DecidableEq, Repr

/-- the module globals `memory` and `mmap` -/
structure Store (V : Type) where
  memory : List (Node V) := [.leaf false, .leaf true]
  mmap : List ((V × Nat × Nat) × Nat) := []
  deriving Repr

def Store.init : Store V := {}

/-- `mmap.get(obj)` -/
def mlookup : List ((V × Nat × Nat) × Nat) → V × Nat × Nat → Option Nat
  | [], _ => none
  | (k, id) :: r, obj => if k = obj then some id else mlookup r obj

/-- lines 428–433: `if obj not in mmap: memory.append(obj); mmap[obj] = len(memory) - 1`, result `mmap[obj]` -/
def Store.mkNode (S : Store V) (obj : V × Nat × Nat) : Nat × Store V :=
  match mlookup S.mmap obj with
  | some id => (id, S)
  | none => (S.memory.length, ⟨S.memory ++ [.node obj.1 obj.2.1 obj.2.2], S.mmap ++ [(obj, S.memory.length)]⟩)

/-- `maxsum` -/
def maxsum : List (Term V) → Int
  | [] => 0
  | t :: r => t.c + maxsum r

/-- `largebit`: `i = 1; while 2 * i <= n: i *= 2` (fuel `n` suffices) -/
def largebitAux (n : Int) : Nat → Int → Int
  | 0, i => i
  | f + 1, i => if 2 * i ≤ n then largebitAux n f (2 * i) else i

def largebit (n : Int) : Int := largebitAux n n.toNat 1

/-- the bubbling loop of `insert` on the reversed prefix -/
def insertSorted (x : Term V) : List (Term V) → List (Term V)
  | [] => [x]
  | y :: r => if x.c > y.c then y :: insertSorted x r else x :: y :: r

/-- `insert(lst, trm)`: append, then bubble towards the front while strictly larger than the predecessor.
    On the reversed list that is `insertSorted`. -/
def insertTerm (lst : List (Term V)) (x : Term V) : List (Term V) :=
  if x.c = 0 then lst else (insertSorted x lst.reverse).reverse

abbrev Data (V : Type) := List (Term V) × Int

def bccond (d : Data V) : Bool := maxsum d.1 < d.2 || d.2 ≤ 0
def bcconstr (d : Data V) : Nat := if d.2 ≤ 0 then 1 else 0

/-- `ifprop` / `elprop` of the two constructions (`dec` = coefficient decomposition) -/
def ifprop (dec : Bool) (t : Term V) (r : List (Term V)) (k : Int) : Data V :=
  if dec then (insertTerm r ⟨t.L, t.c - largebit t.c⟩, if t.L.s then k - largebit t.c else k)
  else (r, if t.L.s then k - t.c else k)

def elprop (dec : Bool) (t : Term V) (r : List (Term V)) (k : Int) : Data V :=
  if dec then (insertTerm r ⟨t.L, t.c - largebit t.c⟩, if t.L.s then k else k - largebit t.c)
  else (r, if t.L.s then k else k - t.c)

structure BState (V : Type) where
  store : Store V
  memo : List (Data V × Nat) := []

def memoGet : List (Data V × Nat) → Data V → Option Nat
  | [], _ => none
  | (k, id) :: r, d => if k = d then some id else memoGet r d

/-- `constructrobdd` -/
def construct (dec : Bool) : Nat → Data V → BState V → Option (Nat × BState V)
  | 0, _, _ => none
  | fuel + 1, d, st =>
    match memoGet st.memo d with
    | some id => some (id, st)
    | none =>
      if bccond d then some (bcconstr d, st)
      else match d.1 with
        | [] => none
        | t :: r =>
          match construct dec fuel (ifprop dec t r d.2) st with
          | none => none
          | some (i, st1) =>
            match construct dec fuel (elprop dec t r d.2) st1 with
            | none => none
            | some (e, st2) =>
              if i = e then some (i, st2)
              else
                let (id, S') := st2.store.mkNode (t.L.v, i, e)
                some (id, ⟨S', st2.memo ++ [(d, id)]⟩)

/-- recursion depth bound: every step removes a term or lowers `maxsum` -/
def dataMeasure (d : Data V) : Nat := d.1.length + (maxsum d.1).toNat

inductive BddErr where
  | notImplemented   -- `Exception("Not implemented yet.")` for operators other than `>=`
  | fuel
  deriving DecidableEq, Repr

/-- `Ineq.getrobdd(coefficientdecomposition)` -/
def Ineq.getRobdd (q : Ineq V) (dec : Bool) (S : Store V) : Except BddErr (Nat × Store V) :=
  let lst := sortDesc q.lhs.t
  if q.op = .ge then
    match construct dec (dataMeasure (lst, q.rhs) + 1) (lst, q.rhs) ⟨S, []⟩ with
    | some (id, st) => .ok (id, st.store)
    | none => .error .fuel
  else .error .notImplemented

end FV.PB

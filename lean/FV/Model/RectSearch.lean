/-
  Model of the rectilinear shape search of `tools/rect/rect.py` at the *clause level* (property C08).

  `definecoords`  (rect.py:325-366)  →  `defineCoords`
  `enforce_bb`    (rect.py:93-166)   →  `enforceBB`  (= `boxConstrs ++ attachConstrs`)
  `solve`         (rect.py:169-277)  →  `solveConstrs` (clause-generating part, min-error mode) and
                                         `solveResult`  (what is returned for a given solver answer)

  The SAT layer (`satmanager.py`, `pseudobool.py`) is **not** modelled here (that is property C07):
  every call `sm.imply`, `sm.heuleencoding`, `sm.pseudoboolencoding` is one abstract constraint
  `Constr` with the obvious semantics over assignments of the *user* variables:
      sm.imply([a,b,…], l)                       ↦  clause [¬a, ¬b, …, l]
      sm.heuleencoding(lits)                     ↦  amo lits
      sm.pseudoboolencoding(l₁ + … + lₙ >= 1)   ↦  atLeastOne [l₁ … lₙ]    (`isclause` → one clause)
      sm.pseudoboolencoding(obj >= dif[0])       ↦  pbGe [(wᵢ, lᵢ)] dif[0]   (the only general PB constraint)

  Variables are the names handed to `sm.newvar(name, "")`:
      "b_<b>"            ↦ Var.sel b          "b<i>_<b>"        ↦ Var.cell i b
      "b<i>_x_<x>"       ↦ Var.lilx i x       "b<i>_X_<x>"      ↦ Var.bigx i x
      "b<i>_y_<y>"       ↦ Var.lily i y       "b<i>_Y_<y>"      ↦ Var.bigy i y
      "b<i>_north" …     ↦ Var.dir i .north …
  (the naming is injective as long as `str` is injective on the distinct coordinates; monitored by the
  harness, which parses every variable name back into this type).

  Coordinates are an arbitrary type `α` with decidable `=` and `<` (Python floats compared with
  `==`, `<`, `>`); executed at `Rat` (every finite double is a rational), no Mathlib.

  Python dictionaries `prev_x/next_x/…` are association lists looked up with `List.lookup`
  (keys are distinct: they come from a `set`).  A failing dictionary/list access (`KeyError`,
  `IndexError`) makes the whole function return `none`.

  The code modelled is the **repaired** one (fixes/C08_border_origin.diff): the die-border exclusions compare
  with `xcoords[0]`, `xcoords[-1]`, `ycoords[0]`, `ycoords[-1]` instead of `0`, `int(Width)`, `int(Height)`.
  `enforceBBOrig` keeps the original comparison for reference (not used by the theorems nor by the driver).
-/
namespace FV.RectSearch

/-- an input box `(x0, y0, x1, y1, p)`; the occupancy `p` only enters through the integer areas. -/
structure Cell (α : Type) where
  x0 : α
  y0 : α
  x1 : α
  y1 : α
deriving DecidableEq, Repr

inductive Dir | north | south | east | west
deriving DecidableEq, Repr

inductive Var (α : Type)
  | sel (b : Nat)
  | cell (i b : Nat)
  | lilx (i : Nat) (x : α)
  | bigx (i : Nat) (x : α)
  | lily (i : Nat) (y : α)
  | bigy (i : Nat) (y : α)
  | dir (i : Nat) (d : Dir)
deriving DecidableEq, Repr

/-- `pseudobool.Literal`: variable and sign (`s = true` is the positive literal). -/
structure Lit (α : Type) where
  v : Var α
  s : Bool
deriving DecidableEq, Repr

def pos {α} (v : Var α) : Lit α := ⟨v, true⟩
def neg {α} (v : Var α) : Lit α := ⟨v, false⟩
/-- `Literal.__neg__` -/
def Lit.not {α} (l : Lit α) : Lit α := ⟨l.v, !l.s⟩

abbrev Assign (α : Type) := Var α → Bool

def Lit.eval {α} (σ : Assign α) (l : Lit α) : Bool := σ l.v == l.s

inductive Constr (α : Type)
  | clause (ls : List (Lit α))
  | amo (ls : List (Lit α))
  | atLeastOne (ls : List (Lit α))
  | pbGe (ts : List (Int × Lit α)) (bound : Int)
deriving Repr

/-- value of a weighted sum of literals under `σ`. -/
def pbSum {α} (σ : Assign α) (ts : List (Int × Lit α)) : Int :=
  (ts.map fun t => if t.2.eval σ then t.1 else 0).sum

def countTrue {α} (σ : Assign α) (ls : List (Lit α)) : Nat := (ls.filter (·.eval σ)).length

def Constr.holds {α} (σ : Assign α) : Constr α → Bool
  | .clause ls => ls.any (·.eval σ)
  | .amo ls => decide (countTrue σ ls ≤ 1)
  | .atLeastOne ls => ls.any (·.eval σ)
  | .pbGe ts k => decide (k ≤ pbSum σ ts)

/-- `σ` satisfies every posted constraint. -/
def Sat {α} (σ : Assign α) (cs : List (Constr α)) : Prop := ∀ c ∈ cs, c.holds σ = true

def satB {α} (σ : Assign α) (cs : List (Constr α)) : Bool := cs.all (·.holds σ)

/-- `sm.imply(list1, l2)`: the clause `¬list1 ∨ l2`. -/
def imply {α} (l1 : List (Lit α)) (l2 : Lit α) : Constr α := .clause (l1.map Lit.not ++ [l2])

variable {α : Type} [DecidableEq α] [LT α] [DecidableLT α]

/-! ### `definecoords` -/

def insertSorted (x : α) : List α → List α
  | [] => [x]
  | y :: ys => if x < y then x :: y :: ys else if x = y then y :: ys else y :: insertSorted x ys

/-- `sorted(set(l))` for a NaN-free list: strictly increasing list of the distinct values. -/
def sortedSet (l : List α) : List α := l.foldr insertSorted []

structure Coords (α : Type) where
  blocks : List Nat
  xcoords : List α
  ycoords : List α
  prevX : List (α × α)
  prevY : List (α × α)
  nextX : List (α × α)
  nextY : List (α × α)
deriving Repr

def defineCoords (ip : List (Cell α)) : Coords α :=
  let xs := sortedSet (ip.flatMap fun c => [c.x0, c.x1])
  let ys := sortedSet (ip.flatMap fun c => [c.y0, c.y1])
  { blocks := List.range ip.length
    xcoords := xs, ycoords := ys
    nextX := xs.zip xs.tail, prevX := xs.tail.zip xs
    nextY := ys.zip ys.tail, prevY := ys.tail.zip ys }

/-! ### `enforce_bb` -/

/-- dictionary access `d[k]` whose failure is accounted for separately (`keysOk`). -/
def dget (d : List (α × α)) (k : α) : α := (d.lookup k).getD k

/-- `for b in blocks: … input_problem[b]` -/
def cellsOf (C : Coords α) (ip : List (Cell α)) : List (Nat × Cell α) :=
  C.blocks.filterMap fun b => (ip[b]?).map fun c => (b, c)

/-- no `IndexError` / `KeyError` is raised by `enforce_bb`:
    every block indexes `input_problem`, every coordinate used as a key of `var_lilx/…` is in the coordinate
    lists, and every `prev_/next_` access hits a key (and yields a coordinate of the list). -/
def keysOk (C : Coords α) (ip : List (Cell α)) : Bool :=
  C.blocks.all (fun b => decide (b < ip.length)) &&
  (cellsOf C ip).all (fun bc =>
    C.xcoords.contains bc.2.x1 && C.xcoords.contains bc.2.x0 &&
    C.ycoords.contains bc.2.y1 && C.ycoords.contains bc.2.y0 &&
    ((C.nextX.lookup bc.2.x0).any C.xcoords.contains) && ((C.prevX.lookup bc.2.x1).any C.xcoords.contains) &&
    ((C.nextY.lookup bc.2.y0).any C.ycoords.contains) && ((C.prevY.lookup bc.2.y1).any C.ycoords.contains)) &&
  C.xcoords.tail.all (fun x => (C.prevX.lookup x).any C.xcoords.contains) &&
  C.ycoords.tail.all (fun y => (C.prevY.lookup y).any C.ycoords.contains)

/-- lines 119-138: the constraints that make box `i` a rectangle. -/
def boxConstrs (C : Coords α) (ip : List (Cell α)) (i : Nat) : List (Constr α) :=
  let cells := cellsOf C ip
  (cells.flatMap fun bc =>
    [ imply [pos (.cell i bc.1)] (pos (.lilx i bc.2.x1)),
      imply [pos (.cell i bc.1)] (pos (.bigx i bc.2.x0)),
      imply [pos (.cell i bc.1)] (pos (.lily i bc.2.y1)),
      imply [pos (.cell i bc.1)] (pos (.bigy i bc.2.y0)) ]) ++
  (C.xcoords.tail.flatMap fun x =>
    [ imply [pos (.bigx i (dget C.prevX x))] (pos (.bigx i x)),
      imply [pos (.lilx i x)] (pos (.lilx i (dget C.prevX x))) ]) ++
  (C.ycoords.tail.flatMap fun y =>
    [ imply [pos (.bigy i (dget C.prevY y))] (pos (.bigy i y)),
      imply [pos (.lily i y)] (pos (.lily i (dget C.prevY y))) ]) ++
  (cells.map fun bc =>
    imply [ pos (.lilx i (dget C.nextX bc.2.x0)), pos (.bigx i (dget C.prevX bc.2.x1)),
            pos (.lily i (dget C.nextY bc.2.y0)), pos (.bigy i (dget C.prevY bc.2.y1)) ] (pos (.cell i bc.1))) ++
  [ .atLeastOne (cells.map fun bc => pos (.cell i bc.1)) ]

def dirLits (i : Nat) : List (Lit α) :=
  [pos (.dir i .north), pos (.dir i .south), pos (.dir i .east), pos (.dir i .west)]

/-- the four die limits the border exclusions compare with. -/
structure Limits (α : Type) where
  west : Option α
  north : Option α
  east : Option α
  south : Option α

/-- repaired code: `xcoords[0]`, `ycoords[0]`, `xcoords[-1]`, `ycoords[-1]`. -/
def gridLimits (C : Coords α) : Limits α :=
  ⟨C.xcoords.head?, C.ycoords.head?, C.xcoords.getLast?, C.ycoords.getLast?⟩

/-- lines 147-166 for one pair `(b1, b2)`: neighbour implications. -/
def neighbourConstrs (i c : Nat) (b1 : Nat × Cell α) (b2 : Nat × Cell α) : List (Constr α) :=
  let bb1 := b1.2
  let bb2 := b2.2
  (if bb1.x0 = bb2.x1 ∧ bb2.y0 < bb1.y1 ∧ bb1.y0 < bb2.y1 then
    [imply [pos (.cell i b1.1), pos (.dir i .west), neg (.cell i b2.1)] (pos (.cell c b2.1))] else []) ++
  (if bb1.x1 = bb2.x0 ∧ bb2.y0 < bb1.y1 ∧ bb1.y0 < bb2.y1 then
    [imply [pos (.cell i b1.1), pos (.dir i .east), neg (.cell i b2.1)] (pos (.cell c b2.1))] else []) ++
  (if bb1.y0 = bb2.y1 ∧ bb2.x0 < bb1.x1 ∧ bb1.x0 < bb2.x1 then
    [imply [pos (.cell i b1.1), pos (.dir i .north), neg (.cell i b2.1)] (pos (.cell c b2.1))] else []) ++
  (if bb1.y1 = bb2.y0 ∧ bb2.x0 < bb1.x1 ∧ bb1.x0 < bb2.x1 then
    [imply [pos (.cell i b1.1), pos (.dir i .south), neg (.cell i b2.1)] (pos (.cell c b2.1))] else [])

/-- lines 147-155 for one block: die-border exclusions. -/
def borderConstrs (L : Limits α) (i : Nat) (b1 : Nat × Cell α) : List (Constr α) :=
  (if some b1.2.x0 = L.west then [imply [pos (.dir i .west)] (neg (.cell i b1.1))] else []) ++
  (if some b1.2.y0 = L.north then [imply [pos (.dir i .north)] (neg (.cell i b1.1))] else []) ++
  (if some b1.2.x1 = L.east then [imply [pos (.dir i .east)] (neg (.cell i b1.1))] else []) ++
  (if some b1.2.y1 = L.south then [imply [pos (.dir i .south)] (neg (.cell i b1.1))] else [])

/-- lines 140-166: box `i` hangs from the trunk `c` on one of its four sides. -/
def attachConstrs (L : Limits α) (C : Coords α) (ip : List (Cell α)) (i c : Nat) : List (Constr α) :=
  let cells := cellsOf C ip
  [ .amo (dirLits i), .atLeastOne (dirLits i) ] ++
  (cells.flatMap fun b1 => borderConstrs L i b1 ++ cells.flatMap fun b2 => neighbourConstrs i c b1 b2)

def enforceBBWith (L : Limits α) (C : Coords α) (ip : List (Cell α)) (i c : Nat) : Option (List (Constr α)) :=
  if keysOk C ip then
    some (boxConstrs C ip i ++ (if i ≠ c then attachConstrs L C ip i c else []))
  else none

/-- `enforce_bb(carrier, ifile, sm, "b<i>_", "b<c>_")` (repaired code). -/
def enforceBB (C : Coords α) (ip : List (Cell α)) (i c : Nat) : Option (List (Constr α)) :=
  enforceBBWith (gridLimits C) C ip i c

/-! ### `solve` (min-error mode, `ratio >= 1`) -/

/-- what `solve` reads: the boxes, the coordinate structure and the two integer areas of every block
    (`int(area(carrier, b, True))`, `int(area(carrier, b, False))`; the float→int conversion is not modelled). -/
structure Problem (α : Type) where
  ip : List (Cell α)
  C : Coords α
  selA : List Int
  realA : List Int

/-- coefficient of `b_<b>` in `obj = ratio * selarea - realarea`. -/
def Problem.weight (P : Problem α) (ratio : Int) (b : Nat) : Int :=
  ratio * P.selA.getD b 0 - P.realA.getD b 0

def selLits (P : Problem α) : List (Lit α) := P.C.blocks.map fun b => pos (.sel b)

def objTerms (P : Problem α) (ratio : Int) : List (Int × Lit α) :=
  P.C.blocks.map fun b => (P.weight ratio b, pos (.sel b))

/-- lines 194-202: `b_<b>  ↔  b0_<b> ∨ … ∨ b<k-1>_<b>`. -/
def linkConstrs (P : Problem α) (k : Nat) : List (Constr α) :=
  P.C.blocks.flatMap fun b =>
    ((List.range k).map fun i => imply [pos (.cell i b)] (pos (.sel b))) ++
    [ imply ((List.range k).map fun i => neg (.cell i b)) (neg (.sel b)) ]

/-- lines 228-230: no two boxes share a cell. -/
def exclConstrs (P : Problem α) (k : Nat) : List (Constr α) :=
  P.C.blocks.map fun b => .amo ((List.range k).map fun t => pos (.cell t b))

/-- `mapM` over the boxes: `enforce_bb` for `i = 0 … k-1`, trunk `0`. -/
def shapeConstrs (P : Problem α) (k : Nat) : Option (List (Constr α)) :=
  (List.range k).foldr (fun i acc => do
    let a ← enforceBB P.C P.ip i 0
    let r ← acc
    pure (a ++ r)) (some [])

/-- every constraint posted by `solve(carrier, ifile, ratio, dif, nboxes)` before the solver is called
    (min-error mode), in posting order; `none` = an exception was raised. -/
def solveConstrs (P : Problem α) (ratio : Int) (dif0 : Int) (k : Nat) : Option (List (Constr α)) := do
  let shape ← shapeConstrs P k
  pure (linkConstrs P k ++ [ .atLeastOne (selLits P), .pbGe (objTerms P ratio) dif0 ] ++ shape ++ exclConstrs P k)

/-- a returned rectangle `(x0, y0, x1, y1)`. -/
structure Box (α : Type) where
  X0 : α
  Y0 : α
  X1 : α
  Y1 : α
deriving DecidableEq, Repr

/-- lines 254-264, one step of the bounding-box accumulation; `none` stands for `(inf, inf, -inf, -inf)`. -/
def growBox (acc : Option (Box α)) (c : Cell α) : Option (Box α) :=
  match acc with
  | none => some ⟨c.x0, c.y0, c.x1, c.y1⟩
  | some r => some ⟨if c.x0 < r.X0 then c.x0 else r.X0, if c.y0 < r.Y0 then c.y0 else r.Y0,
                    if r.X1 < c.x1 then c.x1 else r.X1, if r.Y1 < c.y1 then c.y1 else r.Y1⟩

/-- bounding box of the cells of box `i` in the solver's model. -/
def bboxOf (C : Coords α) (ip : List (Cell α)) (σ : Assign α) (i : Nat) : Option (Box α) :=
  (cellsOf C ip).foldl (fun acc bc => if σ (.cell i bc.1) then growBox acc bc.2 else acc) none

inductive SolveResult (α : Type)
  | insat                                                  -- `(0, 1), [], 0`
  | found (cost : Int) (rects : List (Option (Box α)))     -- `(o + 1, 1), rects, quality`
deriving Repr

/-- what `solve` returns when the SAT solver answers `ans` (`none` = unsatisfiable). -/
def solveResult (P : Problem α) (ratio : Int) (k : Nat) (ans : Option (Assign α)) : SolveResult α :=
  match ans with
  | none => .insat
  | some σ => .found (pbSum σ (objTerms P ratio) + 1) ((List.range k).map fun i => bboxOf P.C P.ip σ i)

/-- the whole of `solve`, the solver being a parameter. -/
def solve (solver : List (Constr α) → Option (Assign α)) (P : Problem α) (ratio dif0 : Int) (k : Nat) :
    Option (SolveResult α) :=
  (solveConstrs P ratio dif0 k).map fun cs => solveResult P ratio k (solver cs)

/-! ### the original (defective) border comparison, kept for reference -/

/-- original code: `0`, `0`, `int(ifile['Width'])`, `int(ifile['Height'])` (given as coordinates). -/
def enforceBBOrig (zero w h : α) (C : Coords α) (ip : List (Cell α)) (i c : Nat) : Option (List (Constr α)) :=
  enforceBBWith ⟨some zero, some zero, some w, some h⟩ C ip i c

end FV.RectSearch
